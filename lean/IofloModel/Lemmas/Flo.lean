import IofloModel.Model.Flo
import IofloModel.Lemmas.Outline
/-!
Helper definitions and lemmas for the invariants of the framer model (`Model/Flo.lean`).

* `Running`, `FInv`            — the C05 invariant of one framer
* `WF`                         — static well-formedness of a program (what `Builder` + `Framer.resolve`
                                 establish for the generated programs; decidable on finite programs)
* `Child`, `Reach`             — the auxiliary tree
* `Mod`                        — frame condition: which framers an operation may touch
-/
namespace Ioflo.Flo
open Ioflo.Outline (Fid exEn)

variable {W : Type}

/-! ### ghost flags -/

def St.bad (s : St W) : Bool := s.overlap || s.reenter

/-! ### static structure -/

/-- `x` is a conditional auxiliary of frame `m` -/
def IsSusp (P : Prog) (m : Fid) (x : Frid) : Prop := x ∈ suspAuxes (P.frame m).preacts

/-- all auxiliaries referenced by a frame: plain, then conditional -/
def kids (P : Prog) (f : Fid) : List Frid := (P.frame f).auxes ++ suspAuxes (P.frame f).preacts

def Child (P : Prog) (i y : Frid) : Prop := ∃ f, (P.frame f).framer = i ∧ y ∈ kids P f

inductive Reach (P : Prog) : Frid → Frid → Prop
  | refl (i : Frid) : Reach P i i
  | step {i y j : Frid} : Child P i y → Reach P y j → Reach P i j

/-- ownership of the auxiliaries that are not done: an original auxiliary that is entered (not done) belongs
to the frame that names it (`aux.main is frame`) -/
def MI (P : Prog) (s : St W) : Prop :=
  ∀ f x, x ∈ kids P f → (P.framer x).original = true → (s.fr x).done = false → (s.fr x).main = some f

/-- framer `y`, if it is an original auxiliary, has been claimed by the frame that names it -/
def Claimed (P : Prog) (y : Frid) (s : St W) : Prop :=
  ∀ f, y ∈ kids P f → (P.framer y).original = true → (s.fr y).main = some f

/-- a write to one framer that keeps its `main` and does not lower its `done` keeps the ownership invariant -/
theorem MI.modFr {P : Prog} {s : St W} (h : MI P s) (i : Frid) (f : FramerSt → FramerSt)
    (hm : (f (s.fr i)).main = (s.fr i).main) (hd : (f (s.fr i)).done = false → (s.fr i).done = false) :
    MI P (s.modFr i f) := by
  intro g x hx ho hdn
  by_cases e : x = i
  · subst e
    have e1 : (s.modFr x f).fr x = f (s.fr x) := by simp [St.modFr, St.setFr, St.fr]
    rw [e1] at hdn ⊢
    rw [hm]; exact h g x hx ho (hd hdn)
  · have e1 : (s.modFr i f).fr x = s.fr x := by simp [St.modFr, St.setFr, St.fr, e]
    rw [e1] at hdn ⊢
    exact h g x hx ho hdn

theorem MI.congr {P : Prog} {s s' : St W} (h : MI P s)
    (hd : ∀ x, (s'.fr x).done = false → (s.fr x).done = false) (hm : ∀ x, (s'.fr x).main = (s.fr x).main) :
    MI P s' := fun f x hx ho hdn => by rw [hm x]; exact h f x hx ho (hd x hdn)

/-- a `done` act only names framer `k` -/
def DoneOnly (k : Frid) : Act → Prop
  | .done frs => ∀ j, j ∈ frs → j = k
  | _ => True

def PreactDoneOnly (k : Frid) : Preact → Prop
  | .act a => DoneOnly k a
  | .transit _ _ tracts => ∀ a, a ∈ tracts → DoneOnly k a
  | .suspend _ _ tracts => ∀ a, a ∈ tracts → DoneOnly k a

structure WF (P : Prog) (rank : Frid → Nat) : Prop where
  ranked : ∀ f y, y ∈ kids P f → rank y < rank (P.frame f).framer
  unique : ∀ f g y, y ∈ kids P f → y ∈ kids P g → f = g
  nodup : ∀ f, (kids P f).Nodup
  doneEn : ∀ f a, a ∈ (P.frame f).enacts → DoneOnly (P.frame f).framer a
  doneRen : ∀ f a, a ∈ (P.frame f).renacts → DoneOnly (P.frame f).framer a
  doneRe : ∀ f a, a ∈ (P.frame f).reacts → DoneOnly (P.frame f).framer a
  doneEx : ∀ f a, a ∈ (P.frame f).exacts → DoneOnly (P.frame f).framer a
  doneRex : ∀ f a, a ∈ (P.frame f).rexacts → DoneOnly (P.frame f).framer a
  donePre : ∀ f p, p ∈ (P.frame f).preacts → PreactDoneOnly (P.frame f).framer p
  headLast : ∀ m, (P.frame m).head.getLast? = some m
  outlineOwn : ∀ a f, f ∈ (P.frame a).outline → (P.frame f).framer = (P.frame a).framer
  headOwn : ∀ m f, f ∈ (P.frame m).head → (P.frame f).framer = (P.frame m).framer
  outlineSelf : ∀ a, a ∈ (P.frame a).outline
  firstOwn : ∀ i, (P.frame (P.framer i).first).framer = i
  farOwn : ∀ f needs far tr, Preact.transit needs far tr ∈ (P.frame f).preacts →
    (P.frame far).framer = (P.frame f).framer
  framesComplete : ∀ m, m ∈ P.frames (P.frame m).framer

/-! ### the invariant of one framer -/

/-- conditional auxiliary `x` of frame `m` is running (entered and not done) -/
def Running (P : Prog) (s : St W) (m : Fid) (x : Frid) : Prop :=
  IsSusp P m x ∧ (s.fr x).done = false

structure FInv (P : Prog) (i : Frid) (s : St W) : Prop where
  none_nil : (s.fr i).active = none → (s.fr i).actives = []
  own : ∀ a, (s.fr i).active = some a → (P.frame a).framer = i
  full : ∀ a, (s.fr i).active = some a →
    (∀ m x, (P.frame m).framer = i → ¬ Running P s m x) → (s.fr i).actives = (P.frame a).outline
  cut : ∀ m x, (P.frame m).framer = i → Running P s m x → (s.fr i).actives = (P.frame m).head
  single : ∀ m x m' x', (P.frame m).framer = i → (P.frame m').framer = i →
    Running P s m x → Running P s m' x' → x = x'

/-- the invariant for framer `i` and everything below it in the auxiliary tree -/
def InvR (P : Prog) (i : Frid) (s : St W) : Prop := ∀ j, Reach P i j → FInv P j s

/-- … for everything strictly below `i` -/
def Below (P : Prog) (i : Frid) (s : St W) : Prop := ∀ y, Child P i y → InvR P y s

/-! ### frame condition -/

/-- everything of a framer's state except `desire` -/
def FramerSt.core (x : FramerSt) : Status × Bool × Option Fid × List Fid × Option Fid × Nat × Nat × Nat :=
  (x.status, x.done, x.active, x.actives, x.main, x.stamp, x.elapsed, x.recurred)

/-- `s'` differs from `s` at most in framers in `D` (and in `desire`, world, trace, time); flags only rise -/
structure Mod (D : Frid → Prop) (s s' : St W) : Prop where
  same : ∀ j, ¬ D j → (s'.fr j).core = (s.fr j).core
  flags : s.bad = true → s'.bad = true

theorem Mod.refl (D : Frid → Prop) (s : St W) : Mod D s s := ⟨fun _ _ => rfl, id⟩

theorem Mod.trans {D : Frid → Prop} {s1 s2 s3 : St W} (h1 : Mod D s1 s2) (h2 : Mod D s2 s3) : Mod D s1 s3 :=
  ⟨fun j hj => (h2.same j hj).trans (h1.same j hj), fun h => h2.flags (h1.flags h)⟩

theorem Mod.mono {D D' : Frid → Prop} {s s' : St W} (h : Mod D s s') (hd : ∀ j, D j → D' j) : Mod D' s s' :=
  ⟨fun j hj => h.same j (fun hh => hj (hd j hh)), h.flags⟩

theorem Mod.bad_false {D : Frid → Prop} {s s' : St W} (h : Mod D s s') (hb : s'.bad = false) : s.bad = false := by
  cases hs : s.bad with
  | false => rfl
  | true => rw [h.flags hs] at hb; cases hb

theorem core_done {a b : FramerSt} (h : a.core = b.core) : a.done = b.done := by
  simp only [FramerSt.core, Prod.mk.injEq] at h; exact h.2.1
theorem core_active {a b : FramerSt} (h : a.core = b.core) : a.active = b.active := by
  simp only [FramerSt.core, Prod.mk.injEq] at h; exact h.2.2.1
theorem core_actives {a b : FramerSt} (h : a.core = b.core) : a.actives = b.actives := by
  simp only [FramerSt.core, Prod.mk.injEq] at h; exact h.2.2.2.1
theorem core_status {a b : FramerSt} (h : a.core = b.core) : a.status = b.status := by
  simp only [FramerSt.core, Prod.mk.injEq] at h; exact h.1
theorem core_main {a b : FramerSt} (h : a.core = b.core) : a.main = b.main := by
  simp only [FramerSt.core, Prod.mk.injEq] at h; exact h.2.2.2.2.1

/-! ### the auxiliary tree -/

section tree
variable {P : Prog} {rank : Frid → Nat} (wf : WF P rank)
include wf

theorem child_rank {i y : Frid} (h : Child P i y) : rank y < rank i := by
  obtain ⟨f, hf, hy⟩ := h
  have := wf.ranked f y hy
  rw [hf] at this; exact this

theorem reach_rank {i j : Frid} (h : Reach P i j) : rank j ≤ rank i := by
  induction h with
  | refl i => exact Nat.le_refl _
  | step hc _ ih => have := child_rank wf hc; omega

theorem parent_unique {i i' x : Frid} (h : Child P i x) (h' : Child P i' x) : i = i' := by
  obtain ⟨f, hf, hx⟩ := h
  obtain ⟨g, hg, hx'⟩ := h'
  have := wf.unique f g x hx hx'
  subst this
  rw [← hf, ← hg]

theorem not_reach_parent {i y : Frid} (h : Child P i y) : ¬ Reach P y i := by
  intro hr
  have h1 := child_rank wf h
  have h2 := reach_rank wf hr
  omega

omit wf in
theorem reach_trans {a b c : Frid} (h1 : Reach P a b) (h2 : Reach P b c) : Reach P a c := by
  induction h1 with
  | refl _ => exact h2
  | step hc _ ih => exact Reach.step hc (ih h2)

omit wf in
theorem reach_child {i y : Frid} (h : Child P i y) : Reach P i y := Reach.step h (Reach.refl y)

/-- the last edge of a path into `x` comes from the (unique) parent of `x` -/
theorem reach_child_cases {y x j : Frid} (hr : Reach P y x) (hc : Child P j x) : x = y ∨ Reach P y j := by
  induction hr with
  | refl _ => exact Or.inl rfl
  | step hyz _ ih =>
    rcases ih hc with h | h
    · subst h
      have := parent_unique wf hyz hc
      subst this
      exact Or.inr (Reach.refl _)
    · exact Or.inr (Reach.step hyz h)

/-- the ancestors of a framer are totally ordered -/
theorem reach_linear {a b j : Frid} (ha : Reach P a j) (hb : Reach P b j) : Reach P a b ∨ Reach P b a := by
  induction ha with
  | refl _ => exact Or.inr hb
  | step haz _ ih =>
    rcases ih hb with h | h
    · exact Or.inl (Reach.step haz h)
    · rcases reach_child_cases wf h haz with h' | h'
      · subst h'; exact Or.inl (reach_child haz)
      · exact Or.inr h'

/-- subtrees of different children of one framer are disjoint -/
theorem siblings_disjoint {i y y' j : Frid} (hy : Child P i y) (hy' : Child P i y') (hne : y ≠ y')
    (hr : Reach P y j) : ¬ Reach P y' j := by
  intro hr'
  rcases reach_linear wf hr hr' with h | h
  · rcases reach_child_cases wf h hy' with h' | h'
    · exact hne h'.symm
    · exact not_reach_parent wf hy h'
  · rcases reach_child_cases wf h hy with h' | h'
    · exact hne h'
    · exact not_reach_parent wf hy' h'

/-- a conditional kid of `j` that lies in the subtree of `y` is `y` itself, or `j` lies in that subtree -/
theorem kid_in_subtree {y j x : Frid} (hc : Child P j x) (hr : Reach P y x) : x = y ∨ Reach P y j :=
  reach_child_cases wf hr hc

end tree

/-! ### `FInv` only looks at the framer's `active`/`actives` and the `done` flags of its conditional kids -/

theorem susp_child {P : Prog} {m : Fid} {x : Frid} (h : IsSusp P m x) : Child P (P.frame m).framer x :=
  ⟨m, rfl, List.mem_append_right _ h⟩

theorem FInv.congr {P : Prog} {i : Frid} {s s' : St W} (h : FInv P i s)
    (ha : (s'.fr i).active = (s.fr i).active) (hl : (s'.fr i).actives = (s.fr i).actives)
    (hk : ∀ m x, (P.frame m).framer = i → IsSusp P m x → (s'.fr x).done = (s.fr x).done) : FInv P i s' := by
  have hrun : ∀ m x, (P.frame m).framer = i → (Running P s' m x ↔ Running P s m x) := by
    intro m x hm
    constructor
    · intro ⟨h1, h2⟩; exact ⟨h1, by rw [← hk m x hm h1]; exact h2⟩
    · intro ⟨h1, h2⟩; exact ⟨h1, by rw [hk m x hm h1]; exact h2⟩
  constructor
  · intro hn; rw [hl]; exact h.none_nil (by rw [← ha]; exact hn)
  · intro a hs; exact h.own a (by rw [← ha]; exact hs)
  · intro a hs hno
    rw [hl]
    exact h.full a (by rw [← ha]; exact hs) (fun m x hm hr => hno m x hm ((hrun m x hm).2 hr))
  · intro m x hm hr
    rw [hl]; exact h.cut m x hm ((hrun m x hm).1 hr)
  · intro m x m' x' hm hm' hr hr'
    exact h.single m x m' x' hm hm' ((hrun m x hm).1 hr) ((hrun m' x' hm').1 hr')

/-- an operation confined to the subtree of `y` keeps the invariant of every framer outside that subtree,
except possibly the parent of `y` -/
theorem FInv.of_mod {P : Prog} {rank : Frid → Nat} (wf : WF P rank) {y j : Frid} {s s' : St W}
    (hm : Mod (Reach P y) s s') (hj : ¬ Reach P y j) (hp : ¬ Child P j y) (h : FInv P j s) : FInv P j s' := by
  apply h.congr
  · exact core_active (hm.same j hj)
  · exact core_actives (hm.same j hj)
  · intro m x hmj hx
    have hc : Child P j x := by rw [← hmj]; exact susp_child hx
    apply core_done
    apply hm.same
    intro hr
    rcases kid_in_subtree wf hc hr with h' | h'
    · subst h'; exact hp hc
    · exact hj h'

/-! ### field access after the state primitives -/

@[simp] theorem fr_setFr (s : St W) (i j : Frid) (x : FramerSt) :
    (s.setFr i x).fr j = if j = i then x else s.fr j := rfl
@[simp] theorem fr_modFr (s : St W) (i j : Frid) (f : FramerSt → FramerSt) :
    (s.modFr i f).fr j = if j = i then f (s.fr i) else s.fr j := rfl
@[simp] theorem fr_emit (s : St W) (e : Event) (j : Frid) : (s.emit e).fr j = s.fr j := rfl
@[simp] theorem bad_setFr (s : St W) (i : Frid) (x : FramerSt) : (s.setFr i x).bad = s.bad := rfl
@[simp] theorem bad_modFr (s : St W) (i : Frid) (f : FramerSt → FramerSt) : (s.modFr i f).bad = s.bad := rfl
@[simp] theorem bad_emit (s : St W) (e : Event) : (s.emit e).bad = s.bad := rfl
@[simp] theorem fr_markOverlap (b : Bool) (s : St W) (j : Frid) : (markOverlap b s).fr j = s.fr j := rfl
@[simp] theorem fr_markReenter (b : Bool) (s : St W) (j : Frid) : (markReenter b s).fr j = s.fr j := rfl

theorem bad_markOverlap (b : Bool) (s : St W) : (markOverlap b s).bad = (s.bad || b) := by
  simp only [St.bad, markOverlap]
  cases s.overlap <;> cases s.reenter <;> cases b <;> rfl

theorem bad_markReenter (b : Bool) (s : St W) : (markReenter b s).bad = (s.bad || b) := by
  simp only [St.bad, markReenter]
  cases s.overlap <;> cases s.reenter <;> cases b <;> rfl

/-! ### local steps of an operation on framer `i` -/

/-- `x` is a conditional auxiliary of some frame of framer `i` -/
def CondKid (P : Prog) (i x : Frid) : Prop := ∃ m, (P.frame m).framer = i ∧ IsSusp P m x

theorem CondKid.child {P : Prog} {i x : Frid} (h : CondKid P i x) : Child P i x := by
  obtain ⟨m, hm, hx⟩ := h
  rw [← hm]; exact susp_child hx

/-- a step that, outside framer `i` itself, only writes `main` of framers below `i` (and `desire`) -/
structure Step (P : Prog) (i : Frid) (s s' : St W) : Prop where
  core : ∀ j, ¬ Reach P i j → (s'.fr j).core = (s.fr j).core
  done : ∀ j, j ≠ i → (s'.fr j).done = (s.fr j).done
  active : ∀ j, j ≠ i → (s'.fr j).active = (s.fr j).active
  actives : ∀ j, j ≠ i → (s'.fr j).actives = (s.fr j).actives
  flags : s.bad = true → s'.bad = true
  mainI : MI P s → MI P s'

theorem Step.refl (P : Prog) (i : Frid) (s : St W) : Step P i s s :=
  ⟨fun _ _ => rfl, fun _ _ => rfl, fun _ _ => rfl, fun _ _ => rfl, id, id⟩

theorem Step.trans {P : Prog} {i : Frid} {s1 s2 s3 : St W} (h1 : Step P i s1 s2) (h2 : Step P i s2 s3) :
    Step P i s1 s3 :=
  ⟨fun j hj => (h2.core j hj).trans (h1.core j hj), fun j hj => (h2.done j hj).trans (h1.done j hj),
   fun j hj => (h2.active j hj).trans (h1.active j hj), fun j hj => (h2.actives j hj).trans (h1.actives j hj),
   fun h => h2.flags (h1.flags h), fun h => h2.mainI (h1.mainI h)⟩

/-- the framer's own `active` / `actives` are kept -/
def Keep (i : Frid) (s s' : St W) : Prop :=
  (s'.fr i).active = (s.fr i).active ∧ (s'.fr i).actives = (s.fr i).actives

theorem Keep.refl (i : Frid) (s : St W) : Keep i s s := ⟨rfl, rfl⟩
theorem Keep.trans {i : Frid} {s1 s2 s3 : St W} (h1 : Keep i s1 s2) (h2 : Keep i s2 s3) : Keep i s1 s3 :=
  ⟨h2.1.trans h1.1, h2.2.trans h1.2⟩

/-- what a part of an operation on framer `i` may do: touch the subtree of `i`, keep the invariant of
everything strictly below `i`, and change the `done` flag of `i`'s conditional kids only within `X` -/
structure Sub (P : Prog) (i : Frid) (X : Frid → Prop) (s s' : St W) : Prop where
  mod : Mod (Reach P i) s s'
  below : s'.bad = false → Below P i s → Below P i s'
  kids : ∀ x, CondKid P i x → ¬ X x → (s'.fr x).done = (s.fr x).done

theorem Sub.refl (P : Prog) (i : Frid) (X : Frid → Prop) (s : St W) : Sub P i X s s :=
  ⟨Mod.refl _ _, fun _ h => h, fun _ _ _ => rfl⟩

theorem Sub.trans {P : Prog} {i : Frid} {X : Frid → Prop} {s1 s2 s3 : St W}
    (h1 : Sub P i X s1 s2) (h2 : Sub P i X s2 s3) : Sub P i X s1 s3 :=
  ⟨h1.mod.trans h2.mod,
   fun hb hbl => h2.below hb (h1.below (h2.mod.bad_false hb) hbl),
   fun x hx hn => (h2.kids x hx hn).trans (h1.kids x hx hn)⟩

theorem Sub.mono {P : Prog} {i : Frid} {X Y : Frid → Prop} {s s' : St W} (h : Sub P i X s s')
    (hxy : ∀ x, X x → Y x) : Sub P i Y s s' :=
  ⟨h.mod, h.below, fun x hx hn => h.kids x hx (fun hh => hn (hxy x hh))⟩

section sub
variable {P : Prog} {rank : Frid → Nat} (wf : WF P rank)
include wf

/-- a local step is a `Sub` that changes no conditional kid -/
theorem Step.sub {i : Frid} {s s' : St W} (h : Step P i s s') (X : Frid → Prop) : Sub P i X s s' := by
  refine ⟨⟨h.core, h.flags⟩, ?_, ?_⟩
  · intro _ hbl y hy j hj
    have hji : j ≠ i := by
      intro e; subst e
      exact not_reach_parent wf hy hj
    apply (hbl y hy j hj).congr (h.active j hji) (h.actives j hji)
    intro m x hm hx
    apply h.done
    intro e; subst e
    have hc : Child P j x := by rw [← hm]; exact susp_child hx
    have h1 := child_rank wf hc
    have h2 := reach_rank wf (Reach.step hy hj)
    omega
  · intro x hx _
    apply h.done
    intro e; subst e
    have := child_rank wf hx.child
    omega

end sub

/-! ### primitive steps -/

/-- a write to framer `i` itself, given that the ownership invariant survives -/
theorem step_modFr' (P : Prog) (i : Frid) (f : FramerSt → FramerSt) (s : St W)
    (hmi : MI P s → MI P (s.modFr i f)) : Step P i s (s.modFr i f) := by
  refine ⟨?_, ?_, ?_, ?_, ?_, hmi⟩
  · intro j hj
    have : j ≠ i := fun e => hj (e ▸ Reach.refl j)
    simp [this]
  · intro j hj; simp [hj]
  · intro j hj; simp [hj]
  · intro j hj; simp [hj]
  · intro h; simpa using h

/-- a write to framer `i` itself that keeps `main` and does not lower `done` -/
theorem step_modFr (P : Prog) (i : Frid) (f : FramerSt → FramerSt) (s : St W)
    (hf : (f (s.fr i)).main = (s.fr i).main ∧ ((f (s.fr i)).done = false → (s.fr i).done = false) := by
      first | exact ⟨rfl, fun h => h⟩ | exact ⟨rfl, fun h => nomatch h⟩) :
    Step P i s (s.modFr i f) :=
  step_modFr' P i f s (fun h => h.modFr i f hf.1 hf.2)

/-- `self.done = False` of a framer that has been claimed by the frame naming it -/
theorem step_undone (P : Prog) (i : Frid) (s : St W) (hcl : Claimed P i s) :
    Step P i s (s.modFr i (fun x => { x with done := false })) := by
  refine step_modFr' P i _ s ?_
  intro hmi g x hx hox hd
  by_cases e : x = i
  · subst e
    simp only [fr_modFr, if_true]
    exact hcl g hx hox
  · simp only [fr_modFr, e, if_false] at hd ⊢
    exact hmi g x hx hox hd

theorem step_emit (P : Prog) (i : Frid) (e : Event) (s : St W) : Step P i s (s.emit e) :=
  ⟨fun _ _ => rfl, fun _ _ => rfl, fun _ _ => rfl, fun _ _ => rfl, id, id⟩

/-- writing only `main` (claim / release) of a framer below `i`, given that the ownership invariant survives -/
theorem step_main (P : Prog) (i y : Frid) (hy : Child P i y) (m : Option Fid) (s : St W)
    (hmi : MI P s → MI P (s.modFr y (fun x => { x with main := m }))) :
    Step P i s (s.modFr y (fun x => { x with main := m })) := by
  refine ⟨?_, ?_, ?_, ?_, ?_, hmi⟩
  · intro j hj
    have : j ≠ y := fun e => hj (e ▸ reach_child hy)
    simp [this]
  · intro j _; by_cases h : j = y <;> simp [h]
  · intro j _; by_cases h : j = y <;> simp [h]
  · intro j _; by_cases h : j = y <;> simp [h]
  · intro h; simpa using h

theorem step_markOverlap (P : Prog) (i : Frid) (b : Bool) (s : St W) : Step P i s (markOverlap b s) :=
  ⟨fun _ _ => rfl, fun _ _ => rfl, fun _ _ => rfl, fun _ _ => rfl,
   fun h => by rw [bad_markOverlap, h]; rfl, fun h => h⟩

theorem step_markReenter (P : Prog) (i : Frid) (b : Bool) (s : St W) : Step P i s (markReenter b s) :=
  ⟨fun _ _ => rfl, fun _ _ => rfl, fun _ _ => rfl, fun _ _ => rfl,
   fun h => by rw [bad_markReenter, h]; rfl, fun h => h⟩

@[simp] theorem fr_markLeft (b : Bool) (s : St W) (j : Frid) : (markLeft b s).fr j = s.fr j := rfl
@[simp] theorem fr_noteEnter (f : Fid) (s : St W) (j : Frid) : (noteEnter f s).fr j = s.fr j := rfl
@[simp] theorem fr_noteExit (f : Fid) (s : St W) (j : Frid) : (noteExit f s).fr j = s.fr j := rfl

theorem step_markLeft (P : Prog) (i : Frid) (b : Bool) (s : St W) : Step P i s (markLeft b s) :=
  ⟨fun _ _ => rfl, fun _ _ => rfl, fun _ _ => rfl, fun _ _ => rfl, fun h => h, fun h => h⟩

theorem step_noteEnter (P : Prog) (i : Frid) (f : Fid) (s : St W) : Step P i s (noteEnter f s) :=
  ⟨fun _ _ => rfl, fun _ _ => rfl, fun _ _ => rfl, fun _ _ => rfl, fun h => h, fun h => h⟩

theorem step_noteExit (P : Prog) (i : Frid) (f : Fid) (s : St W) : Step P i s (noteExit f s) :=
  ⟨fun _ _ => rfl, fun _ _ => rfl, fun _ _ => rfl, fun _ _ => rfl, fun h => h, fun h => h⟩

/-! ### acts -/

theorem setDesire_core (c : Control) (frs : List Frid) (s : St W) (j : Frid) :
    ((setDesire c frs s).fr j).core = (s.fr j).core ∧ (setDesire c frs s).bad = s.bad := by
  induction frs generalizing s with
  | nil => exact ⟨rfl, rfl⟩
  | cons k ks ih =>
    simp only [setDesire, List.foldl_cons]
    have := ih (s.modFr k (fun x => { x with desire := c }))
    simp only [setDesire] at this
    refine ⟨this.1.trans ?_, this.2.trans (by simp)⟩
    by_cases h : j = k <;> simp [h, FramerSt.core]

theorem setDone_other (frs : List Frid) (i : Frid) (hfrs : ∀ j, j ∈ frs → j = i) (s : St W) (j : Frid)
    (hj : j ≠ i) : (setDone frs s).fr j = s.fr j := by
  induction frs generalizing s with
  | nil => rfl
  | cons k ks ih =>
    simp only [setDone, List.foldl_cons]
    have hk : k = i := hfrs k (by simp)
    have := ih (fun j hj => hfrs j (by simp [hj])) (s.modFr k (fun x => { x with done := true }))
    simp only [setDone] at this
    rw [this]
    simp [hk, hj]

theorem setDone_own (frs : List Frid) (i : Frid) (s : St W) :
    ((setDone frs s).fr i).active = (s.fr i).active ∧ ((setDone frs s).fr i).actives = (s.fr i).actives ∧
    (setDone frs s).bad = s.bad := by
  induction frs generalizing s with
  | nil => exact ⟨rfl, rfl, rfl⟩
  | cons k ks ih =>
    simp only [setDone, List.foldl_cons]
    have := ih (s.modFr k (fun x => { x with done := true }))
    simp only [setDone] at this
    refine ⟨this.1.trans ?_, this.2.1.trans ?_, this.2.2.trans (by simp)⟩ <;>
      by_cases h : i = k <;> simp [h]

theorem setDone_mi (P : Prog) (frs : List Frid) (s : St W) (h : MI P s) : MI P (setDone frs s) := by
  induction frs generalizing s with
  | nil => exact h
  | cons k ks ih =>
    simp only [setDone, List.foldl_cons]
    have := ih (s.modFr k (fun x => { x with done := true })) (by
      apply h.congr
      · intro x; by_cases e : x = k
        · subst e; simp
        · simp [e]
      · intro x; by_cases e : x = k
        · subst e; simp
        · simp [e])
    simpa only [setDone] using this

theorem runAct_step (P : Prog) (sem : Sem W) (ctx : Ctx) (f : Fid) (i : Frid) (a : Act) (ha : DoneOnly i a)
    (s : St W) : Step P i s (runAct sem ctx f a s).1 ∧ Keep i s (runAct sem ctx f a s).1 := by
  cases a with
  | world aid => exact ⟨⟨fun _ _ => rfl, fun _ _ => rfl, fun _ _ => rfl, fun _ _ => rfl, fun h => h, fun h => h⟩, rfl, rfl⟩
  | done frs =>
    simp only [runAct]
    have hfrs : ∀ j, j ∈ frs → j = i := ha
    refine ⟨⟨?_, ?_, ?_, ?_, ?_, setDone_mi P frs s⟩, ?_⟩
    · intro j hj
      have : j ≠ i := fun e => hj (e ▸ Reach.refl j)
      rw [setDone_other frs i hfrs s j this]
    · intro j hj; rw [setDone_other frs i hfrs s j hj]
    · intro j hj; rw [setDone_other frs i hfrs s j hj]
    · intro j hj; rw [setDone_other frs i hfrs s j hj]
    · intro h; rw [(setDone_own frs i s).2.2]; exact h
    · exact ⟨(setDone_own frs i s).1, (setDone_own frs i s).2.1⟩
  | bid c frs =>
    simp only [runAct]
    refine ⟨⟨?_, ?_, ?_, ?_, ?_, ?_⟩, ?_⟩
    · intro j _; exact (setDesire_core c frs s j).1
    · intro j _; exact core_done (setDesire_core c frs s j).1
    · intro j _; exact core_active (setDesire_core c frs s j).1
    · intro j _; exact core_actives (setDesire_core c frs s j).1
    · intro h; rw [(setDesire_core c frs s 0).2]; exact h
    · intro h
      exact h.congr (fun x hx => by rw [← core_done (setDesire_core c frs s x).1]; exact hx)
        (fun x => core_main (setDesire_core c frs s x).1)
    · exact ⟨core_active (setDesire_core c frs s i).1, core_actives (setDesire_core c frs s i).1⟩

theorem runActs_step (P : Prog) (sem : Sem W) (ctx : Ctx) (f : Fid) (i : Frid) (acts : List Act)
    (ha : ∀ a, a ∈ acts → DoneOnly i a) (s : St W) :
    Step P i s (runActs sem ctx f acts s) ∧ Keep i s (runActs sem ctx f acts s) := by
  induction acts generalizing s with
  | nil => exact ⟨Step.refl _ _ _, Keep.refl _ _⟩
  | cons a as ih =>
    simp only [runActs, List.foldl_cons]
    have h1 := runAct_step P sem ctx f i a (ha a (by simp)) s
    have h2 := ih (fun b hb => ha b (by simp [hb])) (runAct sem ctx f a s).1
    simp only [runActs] at h2
    exact ⟨h1.1.trans h2.1, h1.2.trans h2.2⟩

/-! ### loops -/

theorem forEach_rel {α : Type} {R : St W → St W → Prop} (hrefl : ∀ s, R s s)
    (htrans : ∀ a b c, R a b → R b c → R a c) (f : α → St W → Except Err (St W)) (l : List α)
    (hf : ∀ x, x ∈ l → ∀ s s', f x s = .ok s' → R s s') : ∀ s s', forEach f l s = .ok s' → R s s' := by
  induction l with
  | nil => intro s s' h; simp only [forEach, Except.ok.injEq] at h; subst h; exact hrefl s
  | cons x xs ih =>
    intro s s' h
    simp only [forEach] at h
    cases hx : f x s with
    | error e => simp [hx] at h
    | ok s1 =>
      simp only [hx] at h
      exact htrans _ _ _ (hf x (by simp) s s1 hx) (ih (fun y hy => hf y (by simp [hy])) s1 s' h)

/-! ### ownership: the frames in a framer's `.actives` are frames of that framer -/

structure Owned (P : Prog) (s : St W) : Prop where
  actives : ∀ i f, f ∈ (s.fr i).actives → (P.frame f).framer = i
  active : ∀ i a, (s.fr i).active = some a → (P.frame a).framer = i
  main : MI P s

theorem owned_of_step {P : Prog} {i : Frid} {s s' : St W} (h : Step P i s s') (hk : Keep i s s')
    (ho : Owned P s) : Owned P s' := by
  constructor
  · intro j f hf
    by_cases e : j = i
    · subst e; rw [hk.2] at hf; exact ho.actives j f hf
    · rw [h.actives j e] at hf; exact ho.actives j f hf
  · intro j a ha
    by_cases e : j = i
    · subst e; rw [hk.1] at ha; exact ho.active j a ha
    · rw [h.active j e] at ha; exact ho.active j a ha
  · exact h.mainI ho.main

/-! ### what is assumed of the entry points of the level below -/

structure OpOK (P : Prog) (pre : Frid → St W → Prop) (op : Frid → St W → Except Err (St W)) : Prop where
  mod : ∀ y s s', Owned P s → pre y s → op y s = .ok s' → Mod (Reach P y) s s'
  owned : ∀ y s s', Owned P s → pre y s → op y s = .ok s' → Owned P s'
  inv : ∀ y s s', Owned P s → pre y s → op y s = .ok s' → s'.bad = false → InvR P y s → InvR P y s'

/-- no precondition -/
def NoPre : Frid → St W → Prop := fun _ _ => True

/-- `enterAll` is called on an auxiliary after it has been claimed -/
structure LoSpec (P : Prog) (lo : Ops W) : Prop where
  enterAll : OpOK P (Claimed P) lo.enterAll
  exitAll : OpOK P NoPre lo.exitAll
  recur : OpOK P NoPre lo.recur
  segue : OpOK P NoPre lo.segue
  exit_done : ∀ y s s', lo.exitAll y s = .ok s' → (s'.fr y).done = true

/-- `Sub ∧ Keep ∧ ownership afterwards` -/
def SKO (P : Prog) (i : Frid) (X : Frid → Prop) (s s' : St W) : Prop :=
  Sub P i X s s' ∧ Keep i s s' ∧ Owned P s'

/-- … given ownership before (the relation used along loops) -/
def SK (P : Prog) (i : Frid) (X : Frid → Prop) (s s' : St W) : Prop := Owned P s → SKO P i X s s'

theorem SK.refl {P : Prog} (i : Frid) (X : Frid → Prop) (s : St W) : SK P i X s s :=
  fun ho => ⟨Sub.refl _ _ _ _, Keep.refl _ _, ho⟩

theorem SK.trans {P : Prog} {i : Frid} {X : Frid → Prop} {a b c : St W} (h1 : SK P i X a b) (h2 : SK P i X b c) :
    SK P i X a c := fun ho =>
  have r1 := h1 ho
  have r2 := h2 r1.2.2
  ⟨r1.1.trans r2.1, r1.2.1.trans r2.2.1, r2.2.2⟩

theorem SK.mono {P : Prog} {i : Frid} {X Y : Frid → Prop} {s s' : St W} (h : SK P i X s s')
    (hxy : ∀ x, X x → Y x) : SK P i Y s s' := fun ho =>
  have r := h ho
  ⟨r.1.mono hxy, r.2⟩

section level
variable {P : Prog} {rank : Frid → Nat} (wf : WF P rank)
include wf

omit wf in
theorem reach_sub {i y : Frid} (hy : Child P i y) : ∀ j, Reach P y j → Reach P i j :=
  fun _ hj => Reach.step hy hj

/-- an entry point of the level below, called on a kid `y` of `i` -/
theorem lo_sub {pre : Frid → St W → Prop} {op : Frid → St W → Except Err (St W)} (hop : OpOK P pre op)
    {i y : Frid} (hy : Child P i y) {s s' : St W} (hpre : pre y s) (h : op y s = .ok s') :
    SK P i (fun x => x = y) s s' := by
  intro ho
  have hm := hop.mod y s s' ho hpre h
  have hi : ¬ Reach P y i := not_reach_parent wf hy
  refine ⟨⟨hm.mono (reach_sub hy), ?_, ?_⟩, ?_, hop.owned y s s' ho hpre h⟩
  · intro hb hbl y' hy' j hj
    by_cases e : y' = y
    · subst e; exact hop.inv _ s s' ho hpre h hb (hbl _ hy') j hj
    · have hnj : ¬ Reach P y j := siblings_disjoint wf hy' hy e hj
      have hji : j ≠ i := by
        intro e'; subst e'; exact not_reach_parent wf hy' hj
      have hp : ¬ Child P j y := fun hc => hji (parent_unique wf hc hy)
      exact (hbl y' hy' j hj).of_mod wf hm hnj hp
  · intro x hx hne
    apply core_done
    apply hm.same
    intro hr
    exact siblings_disjoint wf hx.child hy hne (Reach.refl x) hr
  · exact ⟨core_active (hm.same i hi), core_actives (hm.same i hi)⟩

/-- a plain auxiliary is not a conditional auxiliary -/
theorem plain_ne_cond {f : Fid} {y : Frid} (hy : y ∈ (P.frame f).auxes) {i x : Frid} (hx : CondKid P i x) : x ≠ y := by
  intro e; subst e
  obtain ⟨m, _, hm⟩ := hx
  have hf : x ∈ kids P f := List.mem_append_left _ hy
  have hm' : x ∈ kids P m := List.mem_append_right _ hm
  have := wf.unique f m x hf hm'
  subst this
  have hnd := wf.nodup f
  simp only [kids] at hnd
  exact (List.nodup_append.1 hnd).2.2 x hy x hm rfl

omit wf in
theorem plain_child {f : Fid} {y : Frid} (hy : y ∈ (P.frame f).auxes) : Child P (P.frame f).framer y :=
  ⟨f, rfl, List.mem_append_left _ hy⟩

theorem lo_sub_plain {pre : Frid → St W → Prop} {op : Frid → St W → Except Err (St W)} (hop : OpOK P pre op)
    {f : Fid} {y : Frid} (hy : y ∈ (P.frame f).auxes) {s s' : St W} (hpre : pre y s) (h : op y s = .ok s') :
    SK P (P.frame f).framer (fun _ => False) s s' := by
  intro ho
  have := lo_sub wf hop (plain_child hy) hpre h ho
  refine ⟨⟨this.1.mod, this.1.below, ?_⟩, this.2⟩
  intro x hx _
  exact this.1.kids x hx (plain_ne_cond wf hy hx)

theorem child_ne {i y : Frid} (hy : Child P i y) : y ≠ i := by
  intro e; subst e
  have := child_rank wf hy
  omega

theorem keep_of_step_other {i y : Frid} (hy : Child P i y) (f : FramerSt → FramerSt) (s : St W) :
    Keep i s (s.modFr y f) := by
  have : i ≠ y := fun e => child_ne wf hy e.symm
  simp [Keep, this]

/-- a frame claims an auxiliary that it names -/
theorem claim_step {y : Frid} {m : Fid} (hm : y ∈ kids P m) (s : St W) :
    Step P (P.frame m).framer s (claim P y m s) ∧ Keep (P.frame m).framer s (claim P y m s) := by
  have hy : Child P (P.frame m).framer y := ⟨m, rfl, hm⟩
  unfold claim
  split
  · refine ⟨step_main P _ y hy _ s ?_, keep_of_step_other wf hy _ s⟩
    intro h f x hx hox hd
    by_cases e : x = y
    · subst e
      have := wf.unique f m x hx hm
      subst this
      simp
    · simp only [fr_modFr, e, if_false] at hd ⊢
      exact h f x hx hox hd
  · exact ⟨Step.refl _ _ _, Keep.refl _ _⟩

theorem claim_claimed {y : Frid} {m : Fid} (hm : y ∈ kids P m) (s : St W) : Claimed P y (claim P y m s) := by
  intro f hf ho
  have := wf.unique f m y hf hm
  subst this
  simp [claim, ho]

/-- an auxiliary that is done is released -/
theorem release_step {i y : Frid} (hy : Child P i y) (s : St W) (hd : (s.fr y).done = true) :
    Step P i s (release P y s) ∧ Keep i s (release P y s) := by
  unfold release
  split
  · refine ⟨step_main P i y hy _ s ?_, keep_of_step_other wf hy _ s⟩
    intro h f x hx hox hdx
    by_cases e : x = y
    · subst e
      simp only [fr_modFr, if_true] at hdx
      rw [hd] at hdx; cases hdx
    · simp only [fr_modFr, e, if_false] at hdx ⊢
      exact h f x hx hox hdx
  · exact ⟨Step.refl _ _ _, Keep.refl _ _⟩

theorem SK.of_step {i : Frid} {s s' : St W} (h : Step P i s s' ∧ Keep i s s') (X : Frid → Prop) : SK P i X s s' :=
  fun ho => ⟨h.1.sub wf X, h.2, owned_of_step h.1 h.2 ho⟩

variable {sem : Sem W} {lo : Ops W} (hlo : LoSpec P lo)
include hlo

theorem frameEnter_sk {f : Fid} {s s' : St W} (h : frameEnter P sem lo f s = .ok s') :
    SK P (P.frame f).framer (fun _ => False) s s' := by
  unfold frameEnter at h
  have h1 : SK P (P.frame f).framer (fun _ => False) s
      (runActs sem .enter f (P.frame f).enacts (noteEnter f s)) :=
    SK.trans (b := noteEnter f s) (SK.of_step wf ⟨step_noteEnter P _ f s, Keep.refl _ _⟩ _)
      (SK.of_step wf (runActs_step P sem .enter f _ _ (wf.doneEn f) _) _)
  refine SK.trans h1 ?_
  refine forEach_rel (R := SK P (P.frame f).framer (fun _ => False)) (SK.refl _ _) (fun _ _ _ => SK.trans) _ _ ?_ _ _ h
  intro y hy s1 s2 h2
  have hk : y ∈ kids P f := List.mem_append_left _ hy
  exact SK.trans (SK.of_step wf (claim_step wf hk s1) _)
    (lo_sub_plain wf hlo.enterAll hy (claim_claimed wf hk s1) h2)

omit wf hlo in
theorem restartClocks_step (i : Frid) (s : St W) :
    Step P i s (restartClocks i s) ∧ Keep i s (restartClocks i s) :=
  ⟨step_modFr P i _ s, by simp [Keep, restartClocks]⟩

theorem enter_sk {i : Frid} {enters : List Fid} (hown : ∀ f, f ∈ enters → (P.frame f).framer = i)
    {s s' : St W} (h : enter P sem lo i enters s = .ok s') : SK P i (fun _ => False) s s' := by
  unfold enter at h
  have h0 : SK P i (fun _ => False) s (if enters.isEmpty then s else restartClocks i s) := by
    split
    · exact SK.refl _ _ _
    · exact SK.of_step wf (restartClocks_step i s) _
  refine SK.trans h0 ?_
  refine forEach_rel (R := SK P i (fun _ => False)) (SK.refl _ _) (fun _ _ _ => SK.trans) _ _ ?_ _ _ h
  intro f hf s1 s2 h2
  have := frameEnter_sk wf hlo h2
  rw [hown f hf] at this
  exact this

omit wf hlo in
theorem invR_iff (i : Frid) (s : St W) : InvR P i s ↔ FInv P i s ∧ Below P i s := by
  constructor
  · intro h
    exact ⟨h i (Reach.refl i), fun y hy j hj => h j (Reach.step hy hj)⟩
  · intro ⟨h1, h2⟩ j hj
    cases hj with
    | refl => exact h1
    | step hc hr => exact h2 _ hc j hr

omit wf hlo in
/-- `FInv i` is kept by a part of an operation that keeps `active`/`actives` and all conditional kids -/
theorem FInv.of_sko {i : Frid} {s s' : St W} (h : FInv P i s) (hsk : SKO P i (fun _ => False) s s') : FInv P i s' :=
  h.congr hsk.2.1.1 hsk.2.1.2 (fun m x hm hx => hsk.1.kids x ⟨m, hm, hx⟩ (fun hf => hf))

omit hlo in
theorem head_mem (m : Fid) : m ∈ (P.frame m).head :=
  List.mem_of_getLast? (wf.headLast m)

omit hlo in
/-- an inactive framer has no running conditional auxiliary -/
theorem FInv.no_running_of_inactive {i : Frid} {s : St W} (h : FInv P i s) (hn : (s.fr i).active = none)
    (m : Fid) (x : Frid) (hm : (P.frame m).framer = i) : ¬ Running P s m x := by
  intro hr
  have h1 := h.cut m x hm hr
  have h2 := h.none_nil hn
  have h3 := head_mem wf m
  rw [← h1, h2] at h3
  cases h3

omit wf hlo in
theorem owned_activate {i : Frid} {a : Fid} {s : St W} (ho : Owned P s)
    (ha : ∀ f, f ∈ (P.frame a).outline → (P.frame f).framer = i) (haa : (P.frame a).framer = i) :
    Owned P (activate P i a s) := by
  constructor
  · intro j f hf
    by_cases e : j = i
    · subst e
      simp only [activate, fr_emit, fr_modFr, if_true] at hf
      exact ha f hf
    · simp only [activate, fr_emit, fr_modFr, e, if_false] at hf
      exact ho.actives j f hf
  · intro j b hb
    by_cases e : j = i
    · subst e
      simp only [activate, fr_emit, fr_modFr, if_true, Option.some.injEq] at hb
      rw [← hb]; exact haa
    · simp only [activate, fr_emit, fr_modFr, e, if_false] at hb
      exact ho.active j b hb
  · have : MI P (s.modFr i (fun x => { x with active := some a, actives := (P.frame a).outline })) :=
      ho.main.modFr i _ rfl (fun h => h)
    exact this

/-- `Framer.enterAll` -/
theorem enterAll_spec {i : Frid} {s s' : St W} (ho : Owned P s) (hcl : Claimed P i s)
    (h : enterAll P sem lo i s = .ok s') :
    Mod (Reach P i) s s' ∧ Owned P s' ∧ (s'.bad = false → InvR P i s → InvR P i s') ∧
    (s'.fr i).active = some (P.framer i).first := by
  unfold enterAll at h
  -- name the intermediate states
  obtain ⟨s0, hs0⟩ : ∃ x, x = markReenter (s.fr i).active.isSome s := ⟨_, rfl⟩
  obtain ⟨s1, hs1⟩ : ∃ x, x = s0.modFr i (fun x => { x with done := false }) := ⟨_, rfl⟩
  obtain ⟨s2, hs2⟩ : ∃ x, x = activate P i (P.framer i).first s1 := ⟨_, rfl⟩
  replace h : enter P sem lo i (s2.fr i).actives s2 = .ok s' := by subst hs2 hs1 hs0; exact h
  have st0 : Step P i s s0 := hs0 ▸ step_markReenter P i _ s
  have st1 : Step P i s0 s1 := by
    rw [hs1]; exact step_undone P i s0 (by rw [hs0]; exact hcl)
  have st2 : Step P i s1 s2 := by
    rw [hs2]; unfold activate
    exact (step_modFr P i _ s1).trans (step_emit P i _ _)
  have hact : (s2.fr i).active = some (P.framer i).first ∧
      (s2.fr i).actives = (P.frame (P.framer i).first).outline := by
    rw [hs2]; simp [activate]
  have hfirst : ∀ f, f ∈ (P.frame (P.framer i).first).outline → (P.frame f).framer = i := by
    intro f hf
    rw [wf.outlineOwn _ f hf, wf.firstOwn i]
  have hown : ∀ f, f ∈ (s2.fr i).actives → (P.frame f).framer = i := by
    intro f hf; rw [hact.2] at hf; exact hfirst f hf
  have ho1 : Owned P s1 := owned_of_step (st0.trans st1) (by rw [hs1, hs0]; simp [Keep]) ho
  have ho2 : Owned P s2 := hs2 ▸ owned_activate ho1 hfirst (wf.firstOwn i)
  have hsk := enter_sk wf hlo hown h ho2
  have st02 : Step P i s s2 := (st0.trans st1).trans st2
  have hsub : Sub P i (fun _ => False) s s' := (st02.sub wf _).trans hsk.1
  refine ⟨hsub.mod, hsk.2.2, ?_, hsk.2.1.1.trans hact.1⟩
  intro hb hinv
  rw [invR_iff] at hinv ⊢
  refine ⟨?_, hsub.below hb hinv.2⟩
  -- the framer was inactive, otherwise the re-entry flag is up
  have hnone : (s.fr i).active = none := by
    cases ha : (s.fr i).active with
    | none => rfl
    | some a =>
      exfalso
      have : s0.bad = true := by
        rw [hs0, bad_markReenter, ha]; simp
      have := hsk.1.mod.flags (st2.flags (st1.flags this))
      rw [this] at hb; cases hb
  have hnr := hinv.1.no_running_of_inactive wf hnone
  have hkid : ∀ m x, (P.frame m).framer = i → IsSusp P m x → (s'.fr x).done = (s.fr x).done :=
    fun m x hm hx => hsub.kids x ⟨m, hm, hx⟩ (fun hf => hf)
  have hnr' : ∀ m x, (P.frame m).framer = i → ¬ Running P s' m x := by
    intro m x hm ⟨h1, h2⟩
    exact hnr m x hm ⟨h1, by rw [← hkid m x hm h1]; exact h2⟩
  have ha' : (s'.fr i).active = some (P.framer i).first := hsk.2.1.1.trans hact.1
  have hl' : (s'.fr i).actives = (P.frame (P.framer i).first).outline := hsk.2.1.2.trans hact.2
  constructor
  · intro hn; rw [ha'] at hn; cases hn
  · intro a hs; rw [ha'] at hs; cases hs; exact wf.firstOwn i
  · intro a hs _; rw [ha'] at hs; cases hs; exact hl'
  · intro m x hm hr; exact absurd hr (hnr' m x hm)
  · intro m x m' x' hm _ hr _; exact absurd hr (hnr' m x hm)

/-! #### exit -/

omit wf hlo in
theorem susp_condkid {f : Fid} {x : Frid} (hx : IsSusp P f x) : CondKid P (P.frame f).framer x := ⟨f, rfl, hx⟩

/-- `Suspender.deactivate(aux)` on a conditional kid -/
theorem deactivateAux_sk {i x : Frid} (hx : CondKid P i x) {s s' : St W} (ho : Owned P s)
    (h : deactivateAux P lo x s = .ok s') : SKO P i (fun z => z = x) s s' ∧ (s'.fr x).done = true := by
  unfold deactivateAux at h
  cases h1 : lo.exitAll x s with
  | error e => simp [h1] at h
  | ok s1 =>
    simp only [h1, Except.ok.injEq] at h
    subst h
    have hr := release_step wf hx.child s1 (hlo.exit_done x s s1 h1)
    refine ⟨SK.trans (lo_sub wf hlo.exitAll hx.child trivial h1) (SK.of_step wf hr _) ho, ?_⟩
    have : ((release P x s1).fr x).done = (s1.fr x).done := by
      unfold release; split <;> simp
    rw [this]; exact hlo.exit_done x s s1 h1

omit hlo in
/-- a conditional auxiliary that is not done belongs to the frame that names it (so the ownership test of the
repaired `deactivize` / `Suspender.action` never fails in a well-formed program) -/
theorem owner_of_running {f : Fid} {x : Frid} (hx : IsSusp P f x) {s : St W} (ho : Owned P s)
    (hd : (s.fr x).done = false) : notOwner P x f s = false := by
  unfold notOwner
  cases hor : (P.framer x).original with
  | false => rfl
  | true =>
    have := ho.main f x (List.mem_append_right _ hx) hor hd
    simp [this]

theorem deactivize_sk {f : Fid} {x : Frid} (hx : IsSusp P f x) {s s' : St W} (ho : Owned P s)
    (h : deactivize P lo f x s = .ok s') :
    SKO P (P.frame f).framer (fun z => z = x) s s' ∧ (s'.fr x).done = true := by
  unfold deactivize at h
  cases hd : (s.fr x).done with
  | true =>
    simp only [hd, Bool.true_or, if_true, Except.ok.injEq] at h; subst h
    exact ⟨SK.refl _ _ _ ho, hd⟩
  | false =>
    rw [hd, owner_of_running wf hx ho hd] at h
    exact deactivateAux_sk wf hlo (susp_condkid hx) ho h

/-- the `deactivize` side acts of one frame -/
theorem deactivize_all {f : Fid} (l : List Frid) (hl : ∀ x, x ∈ l → IsSusp P f x) (X : Frid → Prop)
    (hX : ∀ x, x ∈ l → X x) : ∀ s s', Owned P s → forEach (deactivize P lo f) l s = .ok s' →
      SKO P (P.frame f).framer X s s' ∧ (∀ x, x ∈ l → (s'.fr x).done = true) ∧
      (∀ z, CondKid P (P.frame f).framer z → (s.fr z).done = true → (s'.fr z).done = true) := by
  induction l with
  | nil =>
    intro s s' ho h; simp only [forEach, Except.ok.injEq] at h; subst h
    exact ⟨SK.refl _ _ _ ho, fun _ hx => by simp at hx, fun _ _ h => h⟩
  | cons x xs ih =>
    intro s s' ho h
    simp only [forEach] at h
    cases h1 : deactivize P lo f x s with
    | error e => simp [h1] at h
    | ok s1 =>
      simp only [h1] at h
      have hx := hl x (by simp)
      have d1 := deactivize_sk wf hlo hx ho h1
      have d2 := ih (fun y hy => hl y (by simp [hy])) (fun y hy => hX y (by simp [hy])) s1 s' d1.1.2.2 h
      have mono1 : ∀ z, CondKid P (P.frame f).framer z → (s.fr z).done = true → (s1.fr z).done = true := by
        intro z hz hd
        by_cases e : z = x
        · subst e; exact d1.2
        · rw [d1.1.1.kids z hz e]; exact hd
      refine ⟨⟨(d1.1.1.mono (fun z hz => hz ▸ hX x (by simp))).trans d2.1.1, d1.1.2.1.trans d2.1.2.1, d2.1.2.2⟩, ?_, ?_⟩
      · intro y hy
        rcases List.mem_cons.1 hy with e | hy'
        · subst e; exact d2.2.2 y (susp_condkid hx) d1.2
        · exact d2.2.1 y hy'
      · intro z hz hd; exact d2.2.2 z hz (mono1 z hz hd)

/-- `Frame.exit()` of a frame of framer `i` -/
theorem frameExit_sk {f : Fid} {s s' : St W} (ho : Owned P s) (h : frameExit P sem lo f s = .ok s') :
    SKO P (P.frame f).framer (fun x => IsSusp P f x) s s' ∧ (∀ x, IsSusp P f x → (s'.fr x).done = true) ∧
    (∀ z, CondKid P (P.frame f).framer z → (s.fr z).done = true → (s'.fr z).done = true) := by
  unfold frameExit at h
  cases h1 : forEach (deactivateAux P lo) (P.frame f).auxes (noteExit f s) with
  | error e => simp [h1] at h
  | ok s1 =>
    simp only [h1] at h
    have a1 : SK P (P.frame f).framer (fun _ => False) s s1 := by
      refine SK.trans (b := noteExit f s) (SK.of_step wf ⟨step_noteExit P _ f s, Keep.refl _ _⟩ _) ?_
      refine forEach_rel (R := SK P (P.frame f).framer (fun _ => False)) (SK.refl _ _)
        (fun _ _ _ => SK.trans) _ _ ?_ _ _ h1
      intro y hy t t' ht
      unfold deactivateAux at ht
      cases h2 : lo.exitAll y t with
      | error e => simp [h2] at ht
      | ok t1 =>
        simp only [h2, Except.ok.injEq] at ht
        subst ht
        exact SK.trans (lo_sub_plain wf hlo.exitAll hy trivial h2)
          (SK.of_step wf (release_step wf (plain_child hy) t1 (hlo.exit_done y t t1 h2)) _)
    have a2 : SK P (P.frame f).framer (fun _ => False) s1 (runActs sem .exit f (P.frame f).exacts s1) :=
      SK.of_step wf (runActs_step P sem .exit f _ _ (wf.doneEx f) s1) _
    have a12 := SK.trans a1 a2 ho
    have a3 := deactivize_all wf hlo (f := f) (suspAuxes (P.frame f).preacts) (fun x hx => hx)
      (fun x => IsSusp P f x) (fun x hx => hx) _ _ a12.2.2 h
    refine ⟨⟨(a12.1.mono (fun _ hf => hf.elim)).trans a3.1.1, a12.2.1.trans a3.1.2.1, a3.1.2.2⟩, a3.2.1, ?_⟩
    intro z hz hd
    apply a3.2.2 z hz
    rw [a12.1.kids z hz (fun hf => hf)]; exact hd

/-- `Framer.exit(exits)` -/
theorem exit_sk {i : Frid} (l : List Fid) (hown : ∀ f, f ∈ l → (P.frame f).framer = i) :
    ∀ s s', Owned P s → forEach (frameExit P sem lo) l s = .ok s' →
      SKO P i (fun x => ∃ f, f ∈ l ∧ IsSusp P f x) s s' ∧
      (∀ f x, f ∈ l → IsSusp P f x → (s'.fr x).done = true) ∧
      (∀ z, CondKid P i z → (s.fr z).done = true → (s'.fr z).done = true) := by
  induction l with
  | nil =>
    intro s s' ho h; simp only [forEach, Except.ok.injEq] at h; subst h
    exact ⟨SK.refl _ _ _ ho, fun _ _ hf => by simp at hf, fun _ _ h => h⟩
  | cons g gs ih =>
    intro s s' ho h
    simp only [forEach] at h
    cases h1 : frameExit P sem lo g s with
    | error e => simp [h1] at h
    | ok s1 =>
      simp only [h1] at h
      have hg := hown g (by simp)
      have d1 := frameExit_sk wf hlo ho h1
      rw [hg] at d1
      have d2 := ih (fun f hf => hown f (by simp [hf])) s1 s' d1.1.2.2 h
      refine ⟨⟨(d1.1.1.mono (fun x hx => ⟨g, by simp, hx⟩)).trans
                (d2.1.1.mono (fun x ⟨f, hf, hx⟩ => ⟨f, by simp [hf], hx⟩)),
              d1.1.2.1.trans d2.1.2.1, d2.1.2.2⟩, ?_, ?_⟩
      · intro f x hf hx
        rcases List.mem_cons.1 hf with e | hf'
        · subst e
          exact d2.2.2 x ⟨f, hg, hx⟩ (d1.2.1 x hx)
        · exact d2.2.1 f x hf' hx
      · intro z hz hd; exact d2.2.2 z hz (d1.2.2 z hz hd)

/-- `Framer.exitAll(abort)` -/
theorem exitAll_spec {i : Frid} {abort : Bool} {s s' : St W} (ho : Owned P s)
    (h : exitAll P sem lo abort i s = .ok s') :
    Mod (Reach P i) s s' ∧ Owned P s' ∧ (s'.bad = false → InvR P i s → InvR P i s') ∧
    (s'.fr i).active = none ∧ (s'.fr i).actives = [] ∧ (abort = false → (s'.fr i).done = true) := by
  unfold exitAll exit at h
  obtain ⟨s0, hs0⟩ : ∃ x, x = markLeft (truncated P i s) s := ⟨_, rfl⟩
  rw [← hs0] at h
  have st0 : Step P i s s0 := hs0 ▸ step_markLeft P i _ s
  have hfr0 : ∀ j, s0.fr j = s.fr j := fun j => by rw [hs0]; rfl
  have ho0 : Owned P s0 := owned_of_step st0 ⟨by rw [hfr0], by rw [hfr0]⟩ ho
  cases h1 : forEach (frameExit P sem lo) (s.fr i).actives.reverse s0 with
  | error e => simp [h1] at h
  | ok s1 =>
    simp only [h1, Except.ok.injEq] at h
    have hown : ∀ f, f ∈ (s.fr i).actives.reverse → (P.frame f).framer = i :=
      fun f hf => ho.actives i f (List.mem_reverse.1 hf)
    have d := exit_sk wf hlo _ hown s0 s1 ho0 h1
    obtain ⟨s2, hs2⟩ : ∃ x, x = deactivate i s1 := ⟨_, rfl⟩
    have st2 : Step P i s1 s2 := by
      rw [hs2]; unfold deactivate
      exact (step_modFr P i _ s1).trans (step_emit P i _ _)
    have hs' : s' = if abort then s2 else s2.modFr i (fun x => { x with done := true }) := by
      rw [hs2]; exact h.symm
    have st3 : Step P i s2 s' := by
      rw [hs']; split
      · exact Step.refl _ _ _
      · exact step_modFr P i _ s2
    have st : Step P i s1 s' := st2.trans st3
    have hact2 : (s2.fr i).active = none ∧ (s2.fr i).actives = [] := by
      rw [hs2]; simp [deactivate]
    have hact : (s'.fr i).active = none ∧ (s'.fr i).actives = [] := by
      rw [hs']; split
      · exact hact2
      · simpa using hact2
    have hsub : Sub P i (fun x => ∃ f, f ∈ (s.fr i).actives.reverse ∧ IsSusp P f x) s s' :=
      ((st0.sub wf _).trans d.1.1).trans (st.sub wf _)
    have hown' : Owned P s' := by
      constructor
      · intro j f hf
        by_cases e : j = i
        · subst e; rw [hact.2] at hf; cases hf
        · rw [st.actives j e] at hf; exact d.1.2.2.actives j f hf
      · intro j a ha
        by_cases e : j = i
        · subst e; rw [hact.1] at ha; cases ha
        · rw [st.active j e] at ha; exact d.1.2.2.active j a ha
      · exact st.mainI d.1.2.2.main
    refine ⟨hsub.mod, hown', ?_, hact.1, hact.2, ?_⟩
    · intro hb hinv
      rw [invR_iff] at hinv ⊢
      refine ⟨?_, hsub.below hb hinv.2⟩
      have hnr : ∀ m x, (P.frame m).framer = i → ¬ Running P s' m x := by
        intro m x hm ⟨hx, hd⟩
        have hck : CondKid P i x := ⟨m, hm, hx⟩
        have hxi : x ≠ i := child_ne wf hck.child
        rw [st.done x hxi] at hd
        have hrun : Running P s m x := by
          refine ⟨hx, ?_⟩
          cases hds : (s.fr x).done with
          | false => rfl
          | true => rw [d.2.2 x hck (by rw [hfr0]; exact hds)] at hd; cases hd
        have hcut := hinv.1.cut m x hm hrun
        have hmem : m ∈ (s.fr i).actives.reverse := by
          rw [List.mem_reverse, hcut]; exact head_mem wf m
        rw [d.2.1 m x hmem hx] at hd
        cases hd
      constructor
      · intro _; exact hact.2
      · intro a hs; rw [hact.1] at hs; cases hs
      · intro a hs; rw [hact.1] at hs; cases hs
      · intro m x hm hr; exact absurd hr (hnr m x hm)
      · intro m x m' x' hm _ hr _; exact absurd hr (hnr m x hm)
    · intro hab
      rw [hs', hab]; simp

/-! #### recur -/

theorem frameRecur_sk {f : Fid} {s s' : St W} (h : frameRecur P sem lo f s = .ok s') :
    SK P (P.frame f).framer (fun _ => False) s s' := by
  unfold frameRecur at h
  have h1 : SK P (P.frame f).framer (fun _ => False) s
      (runActs sem .recur f (P.frame f).reacts (s.emit (.recur f))) :=
    SK.trans (b := s.emit (.recur f)) (SK.of_step wf ⟨step_emit P _ _ s, Keep.refl _ _⟩ _)
      (SK.of_step wf (runActs_step P sem .recur f _ _ (wf.doneRe f) _) _)
  refine SK.trans h1 ?_
  refine forEach_rel (R := SK P (P.frame f).framer (fun _ => False)) (SK.refl _ _) (fun _ _ _ => SK.trans) _ _ ?_ _ _ h
  intro y hy s1 s2 h2
  exact lo_sub_plain wf hlo.recur hy trivial h2

omit wf hlo in
/-- a list of frame-level parts, all frames of framer `i` -/
theorem frames_sk {i : Frid} {X : Frid → Prop} (g : Fid → St W → Except Err (St W))
    (hg : ∀ f s s', g f s = .ok s' → SK P (P.frame f).framer X s s') (l : List Fid)
    (hown : ∀ f, f ∈ l → (P.frame f).framer = i) {s s' : St W} (h : forEach g l s = .ok s') : SK P i X s s' := by
  refine forEach_rel (R := SK P i X) (SK.refl _ _) (fun _ _ _ => SK.trans) _ _ ?_ _ _ h
  intro f hf s1 s2 h2
  have := hg f s1 s2 h2
  rw [hown f hf] at this
  exact this

omit wf hlo in
/-- the common shape of the specs of `recur` / `segue`: everything is kept -/
theorem spec_of_sk {i : Frid} {s s' : St W} (ho : Owned P s) (hsk : SK P i (fun _ => False) s s') :
    Mod (Reach P i) s s' ∧ Owned P s' ∧ (s'.bad = false → InvR P i s → InvR P i s') := by
  have r := hsk ho
  refine ⟨r.1.mod, r.2.2, ?_⟩
  intro hb hinv
  rw [invR_iff] at hinv ⊢
  exact ⟨hinv.1.of_sko r, r.1.below hb hinv.2⟩

theorem recur_sk {i : Frid} {s s' : St W} (ho : Owned P s) (h : recur P sem lo i s = .ok s') :
    SK P i (fun _ => False) s s' := by
  unfold recur at h
  exact frames_sk _ (fun f s s' h => frameRecur_sk wf hlo h) _ (fun f hf => ho.actives i f hf) h

/-! #### segue: transitions and conditional auxiliaries -/

/-- the invariant carried along the preacts of framer `i` -/
def Live (P : Prog) (i : Frid) (s : St W) : Prop :=
  FInv P i s ∧ Below P i s ∧ (s.fr i).active ≠ none

/-- a part of `segue` of framer `i` -/
def PStep (P : Prog) (i : Frid) (s s' : St W) : Prop :=
  Owned P s → Mod (Reach P i) s s' ∧ Owned P s' ∧ (s'.bad = false → Live P i s → Live P i s')

omit wf hlo in
theorem PStep.refl (i : Frid) (s : St W) : PStep P i s s := fun ho => ⟨Mod.refl _ _, ho, fun _ h => h⟩

omit wf hlo in
theorem PStep.trans {i : Frid} {a b c : St W} (h1 : PStep P i a b) (h2 : PStep P i b c) : PStep P i a c := by
  intro ho
  have r1 := h1 ho
  have r2 := h2 r1.2.1
  exact ⟨r1.1.trans r2.1, r2.2.1, fun hb hl => r2.2.2 hb (r1.2.2 (r2.1.bad_false hb) hl)⟩

omit wf hlo in
theorem PStep.of_sk {i : Frid} {s s' : St W} (h : SK P i (fun _ => False) s s') : PStep P i s s' := by
  intro ho
  have r := h ho
  refine ⟨r.1.mod, r.2.2, ?_⟩
  intro hb ⟨h1, h2, h3⟩
  exact ⟨h1.of_sko r, r.1.below hb h2, by rw [r.2.1.1]; exact h3⟩

omit wf hlo in
theorem susp_mem {needs : List NeedId} {aux : Frid} {tr : List Act} {l : List Preact}
    (h : Preact.suspend needs aux tr ∈ l) : aux ∈ suspAuxes l := by
  induction l with
  | nil => cases h
  | cons p ps ih =>
    rcases List.mem_cons.1 h with e | h'
    · subst e; simp [suspAuxes]
    · cases p <;> simp [suspAuxes, ih h']

omit hlo in
theorem rexit_step {i : Frid} (l : List Fid) (hown : ∀ f, f ∈ l → (P.frame f).framer = i) (s : St W) :
    Step P i s (rexit P sem l s) ∧ Keep i s (rexit P sem l s) := by
  unfold rexit
  have : ∀ (l : List Fid), (∀ f, f ∈ l → (P.frame f).framer = i) → ∀ s : St W,
      Step P i s (l.foldl (fun s f => runActs sem .rexit f (P.frame f).rexacts (s.emit (.rexit f))) s) ∧
      Keep i s (l.foldl (fun s f => runActs sem .rexit f (P.frame f).rexacts (s.emit (.rexit f))) s) := by
    intro l
    induction l with
    | nil => intro _ s; exact ⟨Step.refl _ _ _, Keep.refl _ _⟩
    | cons g gs ih =>
      intro hown s
      simp only [List.foldl_cons]
      have hg := hown g (by simp)
      have r1 := runActs_step P sem .rexit g i (P.frame g).rexacts (hg ▸ wf.doneRex g) (s.emit (.rexit g))
      have r2 := ih (fun f hf => hown f (by simp [hf])) (runActs sem .rexit g (P.frame g).rexacts (s.emit (.rexit g)))
      exact ⟨((step_emit P i _ s).trans r1.1).trans r2.1, (Keep.trans (Keep.refl _ _) r1.2).trans r2.2⟩
  exact this l.reverse (fun f hf => hown f (List.mem_reverse.1 hf)) s

omit hlo in
theorem renter_step {i : Frid} (l : List Fid) (hown : ∀ f, f ∈ l → (P.frame f).framer = i) (s : St W) :
    Step P i s (renter P sem l s) ∧ Keep i s (renter P sem l s) := by
  unfold renter
  induction l generalizing s with
  | nil => exact ⟨Step.refl _ _ _, Keep.refl _ _⟩
  | cons g gs ih =>
    simp only [List.foldl_cons]
    have hg := hown g (by simp)
    have r1 := runActs_step P sem .renter g i (P.frame g).renacts (hg ▸ wf.doneRen g) (s.emit (.renter g))
    have r2 := ih (fun f hf => hown f (by simp [hf])) (runActs sem .renter g (P.frame g).renacts (s.emit (.renter g)))
    exact ⟨((step_emit P i _ s).trans r1.1).trans r2.1, (Keep.trans (Keep.refl _ _) r1.2).trans r2.2⟩

/-- `Transiter.action` in a frame `f` of framer `i` -/
theorem transit_pstep {i : Frid} {f : Fid} (hf : (P.frame f).framer = i) {needs : List NeedId} {far : Fid}
    {tracts : List Act} (hp : Preact.transit needs far tracts ∈ (P.frame f).preacts) {s s' : St W} {b : Bool}
    (h : transit P sem lo i f needs far tracts s = .ok (b, s')) : PStep P i s s' := by
  intro ho
  unfold transit at h
  split at h
  · simp only [Except.ok.injEq, Prod.mk.injEq] at h; rw [← h.2]; exact PStep.refl _ _ ho
  · -- the needs hold
    obtain ⟨nears, hnears⟩ : ∃ x, x = (s.fr i).actives := ⟨_, rfl⟩
    obtain ⟨r, hr⟩ : ∃ x, x = exEn far nears (P.frame far).outline := ⟨_, rfl⟩
    rw [← hnears, ← hr] at h
    simp only [] at h
    cases hc : checkEnter P sem lo r.2.1 r.1 s with
    | error e => simp [hc] at h
    | ok c =>
      cases c with
      | false =>
        simp only [hc, Except.ok.injEq, Prod.mk.injEq] at h; rw [← h.2]; exact PStep.refl _ _ ho
      | true =>
        simp only [hc] at h
        have hfar : (P.frame far).framer = i := by rw [wf.farOwn f needs far tracts hp, hf]
        have hexits : ∀ g, g ∈ r.1 → (P.frame g).framer = i := by
          intro g hg; rw [hr] at hg
          exact ho.actives i g (hnears ▸ Outline.exEn_exits_mem _ _ _ g hg)
        have hre : ∀ g, g ∈ r.2.2 → (P.frame g).framer = i := by
          intro g hg; rw [hr] at hg
          exact ho.actives i g (hnears ▸ Outline.exEn_reexens_mem _ _ _ g hg)
        have hen : ∀ g, g ∈ r.2.1 → (P.frame g).framer = i := by
          intro g hg; rw [hr] at hg
          rw [wf.outlineOwn far g (Outline.exEn_enters_mem _ _ _ g hg), hfar]
        have hne : r.2.1 ≠ [] := by
          intro e
          unfold checkEnter checkEnterC at hc
          simp [e] at hc
        obtain ⟨sa, hsa⟩ : ∃ x, x = runActs sem .transit f tracts (markLeft (truncated P i s) s) := ⟨_, rfl⟩
        rw [← hsa] at h
        have tr := wf.donePre f _ hp
        simp only [PreactDoneOnly, hf] at tr
        have sta : Step P i s sa ∧ Keep i s sa := by
          have r0 := runActs_step P sem .transit f i tracts tr (markLeft (truncated P i s) s)
          rw [← hsa] at r0
          exact ⟨(step_markLeft P i _ s).trans r0.1, Keep.trans (Keep.refl _ _) r0.2⟩
        unfold exit at h
        cases hx : forEach (frameExit P sem lo) r.1.reverse sa with
        | error e => simp [hx] at h
        | ok sb =>
          simp only [hx] at h
          have ska := SK.of_step wf sta (fun _ => False) ho
          have dx := exit_sk wf hlo r.1.reverse (fun g hg => hexits g (List.mem_reverse.1 hg)) sa sb ska.2.2 hx
          obtain ⟨sd, hsd⟩ : ∃ x, x = renter P sem r.2.2 (rexit P sem r.2.2 sb) := ⟨_, rfl⟩
          rw [← hsd] at h
          have stc := rexit_step wf (sem := sem) r.2.2 hre sb
          have std := renter_step wf (sem := sem) r.2.2 hre (rexit P sem r.2.2 sb)
          have stbd : Step P i sb sd ∧ Keep i sb sd := by
            rw [hsd]; exact ⟨stc.1.trans std.1, stc.2.trans std.2⟩
          have skd := SK.of_step wf stbd (fun _ => False) dx.1.2.2
          cases he : enter P sem lo i r.2.1 sd with
          | error e => simp [he] at h
          | ok se =>
            simp only [he, Except.ok.injEq, Prod.mk.injEq] at h
            have ske := enter_sk wf hlo hen he skd.2.2
            have hs' : s' = activate P i far se := h.2.symm
            have stf : Step P i se s' := by
              rw [hs']; unfold activate
              exact (step_modFr P i _ se).trans (step_emit P i _ _)
            -- the whole transition as one `Sub`
            let X : Frid → Prop := fun x => ∃ g, g ∈ r.1.reverse ∧ IsSusp P g x
            have sub1 : Sub P i X s sb := (ska.1.mono (fun _ hh => hh.elim)).trans dx.1.1
            have sub2 : Sub P i (fun _ => False) sb s' := (skd.1.trans ske.1).trans (stf.sub wf _)
            have sub : Sub P i X s s' := sub1.trans (sub2.mono (fun _ hh => hh.elim))
            have hact : (s'.fr i).active = some far ∧ (s'.fr i).actives = (P.frame far).outline := by
              rw [hs']; simp [activate]
            have hown' : Owned P s' := by
              rw [hs']
              exact owned_activate ske.2.2 (fun g hg => by rw [wf.outlineOwn far g hg, hfar]) hfar
            refine ⟨sub.mod, hown', ?_⟩
            intro hb ⟨hinv, hbel, _⟩
            refine ⟨?_, sub.below hb hbel, by rw [hact.1]; simp⟩
            have hnr : ∀ m x, (P.frame m).framer = i → ¬ Running P s' m x := by
              intro m x hm ⟨hx', hd⟩
              have hck : CondKid P i x := ⟨m, hm, hx'⟩
              rw [sub2.kids x hck (fun hh => hh)] at hd
              have hrun : Running P s m x := by
                refine ⟨hx', ?_⟩
                cases hds : (s.fr x).done with
                | false => rfl
                | true =>
                  have h1 : (sa.fr x).done = true := by rw [ska.1.kids x hck (fun hh => hh)]; exact hds
                  rw [dx.2.2 x hck h1] at hd; cases hd
              have hcut := hinv.cut m x hm hrun
              have hlast : nears.getLast? = some m := by rw [hnears, hcut]; exact wf.headLast m
              have hmem : m ∈ r.1 := by
                rw [hr]; exact Outline.exEn_last_exited far nears _ m (hr ▸ hne) hlast
              rw [dx.2.1 m x (List.mem_reverse.2 hmem) hx'] at hd
              cases hd
            constructor
            · intro hn; rw [hact.1] at hn; cases hn
            · intro a hs; rw [hact.1] at hs; cases hs; exact hfar
            · intro a hs _; rw [hact.1] at hs; cases hs; exact hact.2
            · intro m x hm hr'; exact absurd hr' (hnr m x hm)
            · intro m x m' x' hm _ hr' _; exact absurd hr' (hnr m x hm)

omit hlo in
/-- `otherRunning = false`: every other conditional auxiliary of framer `i` is done -/
theorem otherRunning_false {i : Frid} {aux : Frid} {s : St W} (h : otherRunning P i aux s = false)
    {z : Frid} (hz : CondKid P i z) (hne : z ≠ aux) : (s.fr z).done = true := by
  obtain ⟨m, hm, hx⟩ := hz
  unfold otherRunning at h
  rw [List.any_eq_false] at h
  have hmem : (m, z) ∈ condAuxesOf P i := by
    unfold condAuxesOf
    rw [List.mem_flatMap]
    exact ⟨m, hm ▸ wf.framesComplete m, List.mem_map.2 ⟨z, hx, rfl⟩⟩
  have := h (m, z) hmem
  simp only [Bool.and_eq_true, bne_iff_ne, ne_eq, Bool.not_eq_true', not_and, Bool.not_eq_false] at this
  exact this hne

omit wf hlo in
theorem owned_truncate {i : Frid} {m : Fid} {s : St W} (ho : Owned P s)
    (hm : ∀ f, f ∈ (P.frame m).head → (P.frame f).framer = i) : Owned P (truncate P i m s) := by
  constructor
  · intro j f hf
    by_cases e : j = i
    · subst e
      simp only [truncate, fr_emit, fr_modFr, if_true] at hf
      exact hm f hf
    · simp only [truncate, fr_emit, fr_modFr, e, if_false] at hf
      exact ho.actives j f hf
  · intro j a ha
    by_cases e : j = i
    · subst e
      simp only [truncate, fr_emit, fr_modFr, if_true] at ha
      exact ho.active j a ha
    · simp only [truncate, fr_emit, fr_modFr, e, if_false] at ha
      exact ho.active j a ha
  · have : MI P (s.modFr i (fun x => { x with actives := (P.frame m).head })) :=
      ho.main.modFr i _ rfl (fun h => h)
    exact this


/-- facts about a conditional auxiliary clause `aux … if …` in frame `f` of framer `i` -/
structure Clause (P : Prog) (i : Frid) (f : Fid) (aux : Frid) : Prop where
  hf : (P.frame f).framer = i
  susp : IsSusp P f aux

omit wf hlo in
theorem Clause.kid {i : Frid} {f : Fid} {aux : Frid} (c : Clause P i f aux) : CondKid P i aux := ⟨f, c.hf, c.susp⟩

omit hlo in
theorem Clause.uniq {i : Frid} {f : Fid} {aux : Frid} (c : Clause P i f aux) {m : Fid} (hz : IsSusp P m aux) : m = f :=
  wf.unique m f aux (List.mem_append_right _ hz) (List.mem_append_right _ c.susp)

/-- the first run of a conditional auxiliary -/
theorem suspendEnter_pstep {i : Frid} {f : Fid} {aux : Frid} (c : Clause P i f aux) {tracts : List Act}
    (tr : ∀ a, a ∈ tracts → DoneOnly i a) {s s' : St W} {b : Bool} (hdone : (s.fr aux).done = true)
    (h : suspendEnter P sem lo i f aux tracts s = .ok (b, s')) : PStep P i s s' := by
  intro ho
  have hck := c.kid
  have hch := hck.child
  have hk : aux ∈ kids P f := List.mem_append_right _ c.susp
  unfold suspendEnter at h
  obtain ⟨sb, hsb⟩ : ∃ x, x = claim P aux f (runActs sem .transit f tracts s) := ⟨_, rfl⟩
  rw [← hsb] at h
  simp only [] at h
  have stb : Step P i s sb ∧ Keep i s sb := by
    rw [hsb]
    have r1 := runActs_step P sem .transit f i tracts tr s
    have r2 := claim_step wf hk (runActs sem .transit f tracts s)
    rw [c.hf] at r2
    exact ⟨r1.1.trans r2.1, r1.2.trans r2.2⟩
  have skb := SK.of_step wf stb (fun z => z = aux) ho
  cases h1 : lo.enterAll aux sb with
  | error e => simp [h1] at h
  | ok sc =>
    simp only [h1] at h
    have skc := lo_sub wf hlo.enterAll hch (hsb ▸ claim_claimed wf hk _) h1 skb.2.2
    cases h2 : lo.recur aux sc with
    | error e => simp [h2] at h
    | ok sd =>
      simp only [h2] at h
      have skd := lo_sub wf hlo.recur hch trivial h2 skc.2.2
      have subd : Sub P i (fun z => z = aux) s sd := (skb.1.trans skc.1).trans skd.1
      have keepd : Keep i s sd := (skb.2.1.trans skc.2.1).trans skd.2.1
      by_cases hd : (sd.fr aux).done = true
      · -- done after the first run: clean up, no truncation
        simp only [hd, if_true] at h
        cases h3 : deactivateAux P lo aux sd with
        | error e => simp [h3] at h
        | ok se =>
          simp only [h3, Except.ok.injEq, Prod.mk.injEq] at h
          have ske := deactivateAux_sk wf hlo hck skd.2.2 h3
          rw [← h.2]
          have sube : Sub P i (fun z => z = aux) s se := subd.trans ske.1.1
          have keepe : Keep i s se := keepd.trans ske.1.2.1
          refine ⟨sube.mod, ske.1.2.2, ?_⟩
          intro hb ⟨hinv, hbel, hact⟩
          refine ⟨?_, sube.below hb hbel, by rw [keepe.1]; exact hact⟩
          apply hinv.congr keepe.1 keepe.2
          intro m z hm hz
          by_cases e : z = aux
          · subst e; rw [ske.2, hdone]
          · exact sube.kids z ⟨m, hm, hz⟩ e
      · -- still running: truncate the outline at the main frame
        simp only [hd, if_false, Except.ok.injEq, Prod.mk.injEq, Bool.false_eq_true] at h
        obtain ⟨sm, hsm⟩ : ∃ x, x = markOverlap (otherRunning P i aux sd) sd := ⟨_, rfl⟩
        rw [← hsm] at h
        have stm : Step P i sd sm := hsm ▸ step_markOverlap P i _ sd
        have stt : Step P i sm s' := by
          rw [← h.2]; unfold truncate
          exact (step_modFr P i _ sm).trans (step_emit P i _ _)
        have subs : Sub P i (fun z => z = aux) s s' := subd.trans ((stm.trans stt).sub wf _)
        have hact' : (s'.fr i).active = (s.fr i).active ∧ (s'.fr i).actives = (P.frame f).head := by
          rw [← h.2, hsm]
          refine ⟨?_, by simp [truncate]⟩
          simp only [truncate, fr_emit, fr_modFr, if_true, fr_markOverlap]
          exact keepd.1
        have hown' : Owned P s' := by
          rw [← h.2]
          apply owned_truncate
          · rw [hsm]; exact ⟨fun j g hg => skd.2.2.actives j g hg, fun j a ha => skd.2.2.active j a ha, skd.2.2.main⟩
          · intro g hg; rw [wf.headOwn f g hg, c.hf]
        refine ⟨subs.mod, hown', ?_⟩
        intro hb ⟨hinv, hbel, hact⟩
        refine ⟨?_, subs.below hb hbel, by rw [hact'.1]; exact hact⟩
        -- no other conditional kid is running, otherwise the overlap flag is up
        have hother : otherRunning P i aux sd = false := by
          cases ho' : otherRunning P i aux sd with
          | false => rfl
          | true =>
            exfalso
            have : sm.bad = true := by rw [hsm, bad_markOverlap, ho']; simp
            rw [stt.flags this] at hb; cases hb
        have hdz : ∀ z, CondKid P i z → z ≠ aux → (s'.fr z).done = true := by
          intro z hz hne
          rw [(stm.trans stt).done z (child_ne wf hz.child)]
          exact otherRunning_false wf hother hz hne
        have hrun : ∀ m z, (P.frame m).framer = i → Running P s' m z → z = aux ∧ m = f := by
          intro m z hm ⟨hz, hd'⟩
          have hze : z = aux := by
            apply Classical.byContradiction
            intro hne
            rw [hdz z ⟨m, hm, hz⟩ hne] at hd'; cases hd'
          subst hze
          exact ⟨rfl, c.uniq wf hz⟩
        have hrunaux : Running P s' f aux := by
          refine ⟨c.susp, ?_⟩
          rw [(stm.trans stt).done aux (child_ne wf hch)]
          cases hq : (sd.fr aux).done with
          | false => rfl
          | true => exact absurd hq hd
        constructor
        · intro hn; rw [hact'.1] at hn; exact absurd hn hact
        · intro a hs; rw [hact'.1] at hs; exact hinv.own a hs
        · intro a _ hno; exact absurd hrunaux (hno f aux c.hf)
        · intro m z hm hr'
          obtain ⟨_, hmf⟩ := hrun m z hm hr'
          rw [hmf]; exact hact'.2
        · intro m z m' z' hm hm' hr1 hr2
          rw [(hrun m z hm hr1).1, (hrun m' z' hm' hr2).1]

theorem suspendStart_pstep {i : Frid} {f : Fid} {aux : Frid} (c : Clause P i f aux) {needs : List NeedId}
    {tracts : List Act} (tr : ∀ a, a ∈ tracts → DoneOnly i a) {s s' : St W} {b : Bool}
    (hdone : (s.fr aux).done = true)
    (h : suspendStart P sem lo i f needs aux tracts s = .ok (b, s')) : PStep P i s s' := by
  unfold suspendStart at h
  by_cases hn : needsHold sem needs s = true
  · simp only [hn, if_true] at h
    by_cases ho' : ownedElsewhere aux f s = true
    · simp only [ho', if_true, Except.ok.injEq, Prod.mk.injEq] at h; rw [← h.2]; exact PStep.refl _ _
    · simp only [ho', if_false, Bool.false_eq_true] at h
      cases hcs : lo.checkStart aux [] s with
      | error e => simp [hcs] at h
      | ok cs =>
        cases cs with
        | none => simp only [hcs, Except.ok.injEq, Prod.mk.injEq] at h; rw [← h.2]; exact PStep.refl _ _
        | some _ =>
          simp only [hcs] at h
          exact suspendEnter_pstep wf hlo c tr hdone h
  · simp only [hn, if_false, Except.ok.injEq, Prod.mk.injEq, Bool.false_eq_true] at h
    rw [← h.2]; exact PStep.refl _ _

/-- a further run of a running conditional auxiliary -/
theorem suspendRun_pstep {i : Frid} {f : Fid} {aux : Frid} (c : Clause P i f aux) {s s' : St W} {b : Bool}
    (hnd : (s.fr aux).done = false) (h : suspendRun P lo i aux s = .ok (b, s')) : PStep P i s s' := by
  intro ho
  have hck := c.kid
  have hch := hck.child
  unfold suspendRun at h
  cases h1 : lo.segue aux s with
  | error e => simp [h1] at h
  | ok sa =>
    simp only [h1] at h
    have ska := lo_sub wf hlo.segue hch trivial h1 ho
    cases h2 : lo.recur aux sa with
    | error e => simp [h2] at h
    | ok sb =>
      simp only [h2] at h
      have skb := lo_sub wf hlo.recur hch trivial h2 ska.2.2
      have subb : Sub P i (fun z => z = aux) s sb := ska.1.trans skb.1
      have keepb : Keep i s sb := ska.2.1.trans skb.2.1
      have hrun0 : Running P s f aux := ⟨c.susp, hnd⟩
      by_cases hd : (sb.fr aux).done = true
      · -- completed: exit it and restore the outline
        simp only [hd, if_true] at h
        cases h3 : deactivateAux P lo aux sb with
        | error e => simp [h3] at h
        | ok sc =>
          simp only [h3] at h
          have skc := deactivateAux_sk wf hlo hck skb.2.2 h3
          have subc : Sub P i (fun z => z = aux) s sc := subb.trans skc.1.1
          have keepc : Keep i s sc := keepb.trans skc.1.2.1
          unfold reactivate at h
          cases ha : (sc.fr i).active with
          | none => simp [ha] at h
          | some a =>
            simp only [ha, Except.ok.injEq, Prod.mk.injEq] at h
            have stf : Step P i sc s' := by
              rw [← h.2]
              exact (step_modFr P i _ sc).trans (step_emit P i _ _)
            have subs : Sub P i (fun z => z = aux) s s' := subc.trans (stf.sub wf _)
            have hact' : (s'.fr i).active = some a ∧ (s'.fr i).actives = (P.frame a).outline := by
              rw [← h.2]; simp [ha]
            have hai : (P.frame a).framer = i := skc.1.2.2.active i a ha
            have hown' : Owned P s' := by
              constructor
              · intro j g hg
                by_cases e : j = i
                · subst e
                  rw [hact'.2] at hg
                  rw [wf.outlineOwn a g hg, hai]
                · rw [stf.actives j e] at hg; exact skc.1.2.2.actives j g hg
              · intro j a' ha'
                by_cases e : j = i
                · subst e; rw [hact'.1] at ha'; cases ha'; exact hai
                · rw [stf.active j e] at ha'; exact skc.1.2.2.active j a' ha'
              · exact stf.mainI skc.1.2.2.main
            refine ⟨subs.mod, hown', ?_⟩
            intro hb ⟨hinv, hbel, _⟩
            refine ⟨?_, subs.below hb hbel, by rw [hact'.1]; simp⟩
            have hdone' : ∀ z, CondKid P i z → (s'.fr z).done = true := by
              intro z hz
              rw [stf.done z (child_ne wf hz.child)]
              by_cases e : z = aux
              · subst e; exact skc.2
              · rw [subc.kids z hz e]
                obtain ⟨m, hm, hzz⟩ := hz
                cases hq : (s.fr z).done with
                | true => rfl
                | false => exact absurd (hinv.single m z f aux hm c.hf ⟨hzz, hq⟩ hrun0) e
            have hnr : ∀ m z, (P.frame m).framer = i → ¬ Running P s' m z := by
              intro m z hm ⟨hz, hd'⟩
              rw [hdone' z ⟨m, hm, hz⟩] at hd'; cases hd'
            constructor
            · intro hn; rw [hact'.1] at hn; cases hn
            · intro a' hs; rw [hact'.1] at hs; cases hs; exact hai
            · intro a' hs _; rw [hact'.1] at hs; cases hs; exact hact'.2
            · intro m z hm hr'; exact absurd hr' (hnr m z hm)
            · intro m z m' z' hm _ hr' _; exact absurd hr' (hnr m z hm)
      · -- still running
        simp only [hd, if_false, Except.ok.injEq, Prod.mk.injEq, Bool.false_eq_true] at h
        rw [← h.2]
        refine ⟨subb.mod, skb.2.2, ?_⟩
        intro hb ⟨hinv, hbel, hact⟩
        refine ⟨?_, subb.below hb hbel, by rw [keepb.1]; exact hact⟩
        apply hinv.congr keepb.1 keepb.2
        intro m z hm hz
        by_cases e : z = aux
        · subst e
          cases hq : (sb.fr z).done with
          | true => exact absurd hq hd
          | false => rw [hnd]
        · exact subb.kids z ⟨m, hm, hz⟩ e

/-- `Suspender.action` in a frame `f` of framer `i` -/
theorem suspend_pstep {i : Frid} {f : Fid} (hf : (P.frame f).framer = i) {needs : List NeedId} {aux : Frid}
    {tracts : List Act} (hp : Preact.suspend needs aux tracts ∈ (P.frame f).preacts) {s s' : St W} {b : Bool}
    (h : suspend P sem lo i f needs aux tracts s = .ok (b, s')) : PStep P i s s' := by
  have c : Clause P i f aux := ⟨hf, susp_mem hp⟩
  have tr := wf.donePre f _ hp
  simp only [PreactDoneOnly, hf] at tr
  unfold suspend at h
  by_cases hpl : (P.frame f).auxes.contains aux = true
  · -- also a plain auxiliary of the frame: the clause does nothing (excluded by `WF.nodup` anyway)
    rw [if_pos hpl] at h
    simp only [Except.ok.injEq, Prod.mk.injEq] at h
    rw [← h.2]; exact PStep.refl _ _
  rw [if_neg hpl] at h
  by_cases hd : (s.fr aux).done = true
  · simp only [hd, if_true] at h
    exact suspendStart_pstep wf hlo c tr hd h
  · simp only [hd, if_false, Bool.false_eq_true] at h
    have : (s.fr aux).done = false := by
      cases hq : (s.fr aux).done with
      | true => exact absurd hq hd
      | false => rfl
    by_cases hno : notOwner P aux f s = true
    · -- in use by another frame: nothing happens (impossible in a well-formed program, see `owner_of_running`)
      simp only [hno, if_true, Except.ok.injEq, Prod.mk.injEq] at h
      rw [← h.2]; exact PStep.refl _ _
    · simp only [hno, if_false, Bool.false_eq_true] at h
      exact suspendRun_pstep wf hlo c this h

theorem runPreact_pstep {i : Frid} {f : Fid} (hf : (P.frame f).framer = i) {p : Preact}
    (hp : p ∈ (P.frame f).preacts) {s s' : St W} {b : Bool}
    (h : runPreact P sem lo i f p s = .ok (b, s')) : PStep P i s s' := by
  cases p with
  | act a =>
    simp only [runPreact, Except.ok.injEq, Prod.mk.injEq] at h
    rw [← h.2]
    have da := wf.donePre f _ hp
    simp only [PreactDoneOnly, hf] at da
    exact PStep.of_sk (SK.of_step wf (runAct_step P sem .precur f i a da s) _)
  | transit needs far tracts => exact transit_pstep wf hlo hf hp h
  | suspend needs aux tracts => exact suspend_pstep wf hlo hf hp h

theorem precurLoop_pstep {i : Frid} {f : Fid} (hf : (P.frame f).framer = i) (ps : List Preact)
    (hps : ∀ p, p ∈ ps → p ∈ (P.frame f).preacts) :
    ∀ (s s' : St W) (b : Bool), precurLoop P sem lo i f ps s = .ok (b, s') → PStep P i s s' := by
  induction ps with
  | nil =>
    intro s s' b h
    simp only [precurLoop, Except.ok.injEq, Prod.mk.injEq] at h
    rw [← h.2]; exact PStep.refl _ _
  | cons p ps ih =>
    intro s s' b h
    simp only [precurLoop] at h
    cases h1 : runPreact P sem lo i f p s with
    | error e => simp [h1] at h
    | ok r =>
      obtain ⟨b1, s1⟩ := r
      have p1 := runPreact_pstep wf hlo hf (hps p (by simp)) h1
      cases b1 with
      | true =>
        simp only [h1, Except.ok.injEq, Prod.mk.injEq] at h
        rw [← h.2]; exact p1
      | false =>
        simp only [h1] at h
        exact PStep.trans p1 (ih (fun q hq => hps q (by simp [hq])) s1 s' b h)

theorem segueLoop_pstep {i : Frid} (fs : List Fid) (hfs : ∀ f, f ∈ fs → (P.frame f).framer = i) :
    ∀ (s s' : St W), segueLoop P sem lo i fs s = .ok s' → PStep P i s s' := by
  induction fs with
  | nil =>
    intro s s' h
    simp only [segueLoop, Except.ok.injEq] at h
    rw [← h]; exact PStep.refl _ _
  | cons f fs ih =>
    intro s s' h
    simp only [segueLoop, framePrecur] at h
    cases h1 : precurLoop P sem lo i f (P.frame f).preacts s with
    | error e => simp [h1] at h
    | ok r =>
      obtain ⟨b1, s1⟩ := r
      have p1 := precurLoop_pstep wf hlo (hfs f (by simp)) _ (fun _ hp => hp) s s1 b1 h1
      cases b1 with
      | true =>
        simp only [h1, Except.ok.injEq] at h
        rw [← h]; exact p1
      | false =>
        simp only [h1] at h
        exact PStep.trans p1 (ih (fun g hg => hfs g (by simp [hg])) s1 s' h)

omit wf hlo in
theorem updateClocks_step (i : Frid) (s : St W) :
    Step P i s (updateClocks i s) ∧ Keep i s (updateClocks i s) :=
  ⟨step_modFr P i _ s, by simp [Keep, updateClocks]⟩

/-- `Framer.segue` -/
theorem segue_spec {i : Frid} {s s' : St W} (ho : Owned P s) (h : segue P sem lo i s = .ok s') :
    Mod (Reach P i) s s' ∧ Owned P s' ∧ (s'.bad = false → InvR P i s → InvR P i s') ∧
    (s'.bad = false → InvR P i s → (s.fr i).active ≠ none → (s'.fr i).active ≠ none) := by
  unfold segue at h
  obtain ⟨s0, hs0⟩ : ∃ x, x = updateClocks i s := ⟨_, rfl⟩
  rw [← hs0] at h
  simp only [] at h
  have sk0 : SK P i (fun _ => False) s s0 := hs0 ▸ SK.of_step wf (updateClocks_step i s) _
  cases h1 : forEach (fun f s => forEach lo.segue (P.frame f).auxes s) (s0.fr i).actives s0 with
  | error e => simp [h1] at h
  | ok s1 =>
    simp only [h1] at h
    have r0 := sk0 ho
    have sk1 : SK P i (fun _ => False) s0 s1 := by
      refine frames_sk _ ?_ _ (fun f hf => r0.2.2.actives i f hf) h1
      intro f t t' ht
      refine forEach_rel (R := SK P (P.frame f).framer (fun _ => False)) (SK.refl _ _)
        (fun _ _ _ => SK.trans) _ _ ?_ _ _ ht
      intro y hy u u' hu
      exact lo_sub_plain wf hlo.segue hy trivial hu
    have sk01 := SK.trans sk0 sk1
    have r1 := sk01 ho
    have p2 := segueLoop_pstep wf hlo (s1.fr i).actives (fun f hf => r1.2.2.actives i f hf) s1 s' h
    have p := PStep.trans (PStep.of_sk sk01) p2 ho
    refine ⟨p.1, p.2.1, ?_, ?_⟩
    · intro hb hinv
      rw [invR_iff] at hinv ⊢
      cases ha : (s.fr i).active with
      | some a =>
        have := p.2.2 hb ⟨hinv.1, hinv.2, by rw [ha]; simp⟩
        exact ⟨this.1, this.2.1⟩
      | none =>
        -- an inactive framer has no active frames: the transition loop does nothing
        have hnil : (s1.fr i).actives = [] := by rw [r1.2.1.2]; exact hinv.1.none_nil ha
        rw [hnil] at h
        simp only [segueLoop, Except.ok.injEq] at h
        rw [← h]
        have hb1 : s1.bad = false := by rw [h]; exact hb
        exact ⟨hinv.1.of_sko r1, r1.1.below hb1 hinv.2⟩
    · intro hb hinv hact
      rw [invR_iff] at hinv
      exact (p.2.2 hb ⟨hinv.1, hinv.2, hact⟩).2.2

/-- `Framer.recur` -/
theorem recur_spec {i : Frid} {s s' : St W} (ho : Owned P s) (h : recur P sem lo i s = .ok s') :
    Mod (Reach P i) s s' ∧ Owned P s' ∧ (s'.bad = false → InvR P i s → InvR P i s') ∧
    (s'.fr i).active = (s.fr i).active :=
  have sk := recur_sk wf hlo ho h
  have r := spec_of_sk ho sk
  ⟨r.1, r.2.1, r.2.2, (sk ho).2.1.1⟩

/-- the entry points of the next level satisfy the same specification -/
theorem nextOps_spec : LoSpec P (nextOps P sem lo) := by
  refine ⟨⟨?_, ?_, ?_⟩, ⟨?_, ?_, ?_⟩, ⟨?_, ?_, ?_⟩, ⟨?_, ?_, ?_⟩, ?_⟩
  · intro y s s' ho hc h; exact (enterAll_spec wf hlo ho hc h).1
  · intro y s s' ho hc h; exact (enterAll_spec wf hlo ho hc h).2.1
  · intro y s s' ho hc h; exact (enterAll_spec wf hlo ho hc h).2.2.1
  · intro y s s' ho _ h; exact (exitAll_spec wf hlo ho h).1
  · intro y s s' ho _ h; exact (exitAll_spec wf hlo ho h).2.1
  · intro y s s' ho _ h; exact (exitAll_spec wf hlo ho h).2.2.1
  · intro y s s' ho _ h; exact (recur_spec wf hlo ho h).1
  · intro y s s' ho _ h; exact (recur_spec wf hlo ho h).2.1
  · intro y s s' ho _ h; exact (recur_spec wf hlo ho h).2.2.1
  · intro y s s' ho _ h; exact (segue_spec wf hlo ho h).1
  · intro y s s' ho _ h; exact (segue_spec wf hlo ho h).2.1
  · intro y s s' ho _ h; exact (segue_spec wf hlo ho h).2.2.1
  · intro y s s' h
    -- `exitAll(abort = False)` sets `.done`
    simp only [nextOps, exitAll] at h
    cases h1 : exit P sem lo (s.fr y).actives (markLeft (truncated P y s) s) with
    | error e => simp [h1] at h
    | ok s1 =>
      simp only [h1, Except.ok.injEq, Bool.false_eq_true, if_false] at h
      rw [← h]; simp

end level

/-- the entry points at every depth satisfy the specification -/
theorem opsAt_spec {P : Prog} {rank : Frid → Nat} (wf : WF P rank) (sem : Sem W) :
    ∀ n, LoSpec P (opsAt P sem n)
  | 0 => by
    refine ⟨⟨?_, ?_, ?_⟩, ⟨?_, ?_, ?_⟩, ⟨?_, ?_, ?_⟩, ⟨?_, ?_, ?_⟩, ?_⟩ <;>
      intros <;> simp [opsAt, Ops.bottom] at *
  | n + 1 => nextOps_spec wf (opsAt_spec wf sem n)

end Ioflo.Flo
