import IofloModel.Model.FloClock
/-!
Helper lemmas for C11 (`Props/C11.lean`).  Core Lean only.
-/
namespace Ioflo.FloClock

section generic
variable {τ : Type} [Sub τ] [LE τ] [LT τ] [DecidableLE τ] [DecidableLT τ] [OfNat τ 0]

/-- the state the needs of a tick see -/
def evalState (now : τ) (s : St τ) : St τ :=
  { s with elapsed := now - s.stamp, recurred := s.recurred + 1 }

theorem segue_cases (tr : Nat → List (Trans τ)) (now : τ) (s : St τ) :
    (∃ t, firstTrans (evalState now s) (tr s.active) = some t ∧
      segue tr now s = ⟨now, some (now - s.stamp), some (s.recurred + 1), true, enter now t.far⟩) ∨
    (firstTrans (evalState now s) (tr s.active) = none ∧
      segue tr now s = ⟨now, some (now - s.stamp), some (s.recurred + 1), false, evalState now s⟩) := by
  cases h : firstTrans (evalState now s) (tr s.active) with
  | some t => left; refine ⟨t, rfl, ?_⟩; simp only [segue]; unfold evalState at h; rw [h]
  | none => right; refine ⟨rfl, ?_⟩; simp only [segue]; unfold evalState at h; rw [h]; rfl

theorem segue_now (tr : Nat → List (Trans τ)) (now : τ) (s : St τ) : (segue tr now s).now = now := by
  rcases segue_cases tr now s with ⟨t, _, h⟩ | ⟨_, h⟩ <;> rw [h]

theorem segue_eval (tr : Nat → List (Trans τ)) (now : τ) (s : St τ) :
    (segue tr now s).evalElapsed = some (now - s.stamp) ∧
    (segue tr now s).evalRecurred = some (s.recurred + 1) := by
  rcases segue_cases tr now s with ⟨t, _, h⟩ | ⟨_, h⟩ <;> rw [h] <;> exact ⟨rfl, rfl⟩

theorem segue_stay (tr : Nat → List (Trans τ)) (now : τ) (s : St τ)
    (h : (segue tr now s).entered = false) :
    (segue tr now s).after.stamp = s.stamp ∧ (segue tr now s).after.recurred = s.recurred + 1 ∧
    (segue tr now s).after.active = s.active ∧ (segue tr now s).after.elapsed = now - s.stamp := by
  rcases segue_cases tr now s with ⟨t, _, h'⟩ | ⟨_, h'⟩
  · rw [h'] at h; cases h
  · rw [h']; exact ⟨rfl, rfl, rfl, rfl⟩

theorem segue_enter (tr : Nat → List (Trans τ)) (now : τ) (s : St τ)
    (h : (segue tr now s).entered = true) :
    (segue tr now s).after.stamp = now ∧ (segue tr now s).after.recurred = 0 ∧
    (segue tr now s).after.elapsed = 0 := by
  rcases segue_cases tr now s with ⟨t, _, h'⟩ | ⟨_, h'⟩
  · rw [h']; exact ⟨rfl, rfl, rfl⟩
  · rw [h'] at h; cases h

/-- a suffix of a run is a run from the state the preceding observation left -/
theorem runFrom_split (tr : Nat → List (Trans τ)) :
    ∀ (pre : List (Obs τ)) (s : St τ) (nows : List τ) (o : Obs τ) (rest : List (Obs τ)),
    runFrom tr s nows = pre ++ o :: rest →
    ∃ s' now nows', o = segue tr now s' ∧ rest = runFrom tr o.after nows' := by
  intro pre
  induction pre with
  | nil =>
    intro s nows o rest h
    cases nows with
    | nil => simp [runFrom] at h
    | cons now nows' =>
      simp only [runFrom, List.nil_append, List.cons.injEq] at h
      exact ⟨s, now, nows', h.1.symm, by rw [← h.2, h.1]⟩
  | cons p pre ih =>
    intro s nows o rest h
    cases nows with
    | nil => simp [runFrom] at h
    | cons now nows' =>
      simp only [runFrom, List.cons_append, List.cons.injEq] at h
      exact ih _ _ _ _ h.2

/-- while the outline does not change, the needs see `now - stamp` and one more iteration each tick -/
theorem runFrom_segment (tr : Nat → List (Trans τ)) :
    ∀ (mid : List (Obs τ)) (s : St τ) (nows : List τ) (o : Obs τ) (post : List (Obs τ)),
    runFrom tr s nows = mid ++ o :: post → (∀ m ∈ mid, m.entered = false) →
    o.evalElapsed = some (o.now - s.stamp) ∧ o.evalRecurred = some (s.recurred + mid.length + 1) ∧
    ∃ s', s'.stamp = s.stamp ∧ s'.recurred = s.recurred + mid.length ∧ s'.active = s.active ∧
      o = segue tr o.now s' := by
  intro mid
  induction mid with
  | nil =>
    intro s nows o post h _
    cases nows with
    | nil => simp [runFrom] at h
    | cons now nows' =>
      simp only [runFrom, List.nil_append, List.cons.injEq] at h
      have ho := h.1.symm
      subst ho
      have := segue_eval tr now s
      rw [segue_now]
      exact ⟨this.1, by simpa using this.2, s, rfl, by simp, rfl, rfl⟩
  | cons m mid ih =>
    intro s nows o post h hm
    cases nows with
    | nil => simp [runFrom] at h
    | cons now nows' =>
      simp only [runFrom, List.cons_append, List.cons.injEq] at h
      have hm0 : (segue tr now s).entered = false := by
        rw [h.1]; exact hm m List.mem_cons_self
      obtain ⟨h1, h2, h3, _⟩ := segue_stay tr now s hm0
      have := ih _ _ _ _ h.2 (fun x hx => hm x (List.mem_cons_of_mem _ hx))
      rw [h1, h2, h3] at this
      obtain ⟨a, b, s', c1, c2, c3, c4⟩ := this
      refine ⟨a, ?_, s', c1, ?_, c3, c4⟩
      · rw [b]; simp only [List.length_cons]; congr 1; omega
      · rw [c2]; simp only [List.length_cons]; omega

end generic
section generic
variable {τ : Type} [Sub τ] [LE τ] [LT τ] [DecidableLE τ] [DecidableLT τ] [OfNat τ 0]

theorem runFrom_nows (tr : Nat → List (Trans τ)) (s : St τ) (nows : List τ) :
    (runFrom tr s nows).map (·.now) = nows := by
  induction nows generalizing s with
  | nil => rfl
  | cons now rest ih => simp only [runFrom, List.map_cons, segue_now, ih]

theorem run_nows (tr : Nat → List (Trans τ)) (nows : List τ) :
    (run tr nows).map (·.now) = nows := by
  cases nows with
  | nil => rfl
  | cons now rest => simp only [run, List.map_cons, runFrom_nows]

end generic

theorem stampAt_int (P : Int) (k : Nat) : stampAt P k = k * P := by
  induction k with
  | zero => simp [stampAt]
  | succ k ih =>
    simp only [stampAt, ih]
    rw [Int.natCast_succ, Int.add_mul, Int.one_mul]

theorem stamps_getElem? {τ : Type} [Add τ] [OfNat τ 0] (P : τ) (n i : Nat) (h : i < n) :
    (stamps P n)[i]? = some (stampAt P i) := by
  simp [stamps, h]

theorem getElem?_mid {α : Type} (a : List α) (x : α) (b : List α) : (a ++ x :: b)[a.length]? = some x := by
  simp

theorem stampsFrom_getElem? {τ : Type} [Add τ] [OfNat τ 0] (P : τ) (s n i : Nat) (h : i < n) :
    (stampsFrom P s n)[i]? = some (stampAt P (s + i)) := by
  simp [stampsFrom, stamps, h]

/-- the store stamp of the observation at position `pre.length` of an instance started at tick `s` -/
theorem now_at (tr : Nat → List (Trans Int)) (P : Int) (s n : Nat)
    (pre : List (Obs Int)) (o : Obs Int) (post : List (Obs Int))
    (h : run tr (stampsFrom P s n) = pre ++ o :: post) : o.now = ((s + pre.length : Nat) : Int) * P := by
  have h1 := run_nows tr (stampsFrom P s n)
  rw [h] at h1
  have h2 : (stampsFrom P s n)[pre.length]? = some o.now := by
    rw [← h1]; simp
  have hlt : pre.length < n := by
    have : (stampsFrom P s n).length = n := by simp [stampsFrom, stamps]
    have h3 : pre.length < (stampsFrom P s n).length := by
      rw [← h1]; simp
    omega
  rw [stampsFrom_getElem? P s n _ hlt] at h2
  rw [← stampAt_int]
  exact (Option.some.inj h2).symm

/-! ## the machine over an arbitrary decision function (conditional auxiliaries) -/

section generalMachine
variable {τ : Type} [Sub τ] [LE τ] [LT τ] [DecidableLE τ] [DecidableLT τ] [OfNat τ 0] {σ : Type}

theorem segueG_cases (d : τ → σ → St τ → Option Nat × σ) (now : τ) (s : St τ) (x : σ) :
    (∃ far x', d now x (evalState now s) = (some far, x') ∧
      segueG d now s x = (⟨now, some (now - s.stamp), some (s.recurred + 1), true, enter now far⟩, x')) ∨
    (∃ x', d now x (evalState now s) = (none, x') ∧
      segueG d now s x = (⟨now, some (now - s.stamp), some (s.recurred + 1), false, evalState now s⟩, x')) := by
  cases h : d now x (evalState now s) with
  | mk dec x' =>
    cases dec with
    | some far => left; refine ⟨far, x', rfl, ?_⟩; simp only [segueG]; unfold evalState at h; rw [h]
    | none => right; refine ⟨x', rfl, ?_⟩; simp only [segueG]; unfold evalState at h; rw [h]; rfl

theorem segueG_now (d : τ → σ → St τ → Option Nat × σ) (now : τ) (s : St τ) (x : σ) :
    (segueG d now s x).1.now = now := by
  rcases segueG_cases d now s x with ⟨_, _, _, h⟩ | ⟨_, _, h⟩ <;> rw [h]

theorem segueG_eval (d : τ → σ → St τ → Option Nat × σ) (now : τ) (s : St τ) (x : σ) :
    (segueG d now s x).1.evalElapsed = some (now - s.stamp) ∧
    (segueG d now s x).1.evalRecurred = some (s.recurred + 1) := by
  rcases segueG_cases d now s x with ⟨_, _, _, h⟩ | ⟨_, _, h⟩ <;> rw [h] <;> exact ⟨rfl, rfl⟩

theorem segueG_stay (d : τ → σ → St τ → Option Nat × σ) (now : τ) (s : St τ) (x : σ)
    (h : (segueG d now s x).1.entered = false) :
    (segueG d now s x).1.after.stamp = s.stamp ∧ (segueG d now s x).1.after.recurred = s.recurred + 1 ∧
    (segueG d now s x).1.after.active = s.active ∧ (segueG d now s x).1.after.elapsed = now - s.stamp := by
  rcases segueG_cases d now s x with ⟨_, _, _, h'⟩ | ⟨_, _, h'⟩
  · rw [h'] at h; cases h
  · rw [h']; exact ⟨rfl, rfl, rfl, rfl⟩

theorem segueG_enter (d : τ → σ → St τ → Option Nat × σ) (now : τ) (s : St τ) (x : σ)
    (h : (segueG d now s x).1.entered = true) :
    (segueG d now s x).1.after.stamp = now ∧ (segueG d now s x).1.after.recurred = 0 := by
  rcases segueG_cases d now s x with ⟨_, _, _, h'⟩ | ⟨_, _, h'⟩
  · rw [h']; exact ⟨rfl, rfl⟩
  · rw [h'] at h; cases h

theorem runFromG_split (d : τ → σ → St τ → Option Nat × σ) :
    ∀ (pre : List (Obs τ)) (s : St τ) (x : σ) (nows : List τ) (o : Obs τ) (rest : List (Obs τ)),
    runFromG d s x nows = pre ++ o :: rest →
    ∃ s' x' now nows', o = (segueG d now s' x').1 ∧ rest = runFromG d o.after (segueG d now s' x').2 nows' := by
  intro pre
  induction pre with
  | nil =>
    intro s x nows o rest h
    cases nows with
    | nil => simp [runFromG] at h
    | cons now nows' =>
      simp only [runFromG, List.nil_append, List.cons.injEq] at h
      exact ⟨s, x, now, nows', h.1.symm, by rw [← h.2, h.1]⟩
  | cons p pre ih =>
    intro s x nows o rest h
    cases nows with
    | nil => simp [runFromG] at h
    | cons now nows' =>
      simp only [runFromG, List.cons_append, List.cons.injEq] at h
      exact ih _ _ _ _ _ h.2

theorem runFromG_segment (d : τ → σ → St τ → Option Nat × σ) :
    ∀ (mid : List (Obs τ)) (s : St τ) (x : σ) (nows : List τ) (o : Obs τ) (post : List (Obs τ)),
    runFromG d s x nows = mid ++ o :: post → (∀ m ∈ mid, m.entered = false) →
    o.evalElapsed = some (o.now - s.stamp) ∧ o.evalRecurred = some (s.recurred + mid.length + 1) := by
  intro mid
  induction mid with
  | nil =>
    intro s x nows o post h _
    cases nows with
    | nil => simp [runFromG] at h
    | cons now nows' =>
      simp only [runFromG, List.nil_append, List.cons.injEq] at h
      have ho := h.1.symm
      subst ho
      have := segueG_eval d now s x
      rw [segueG_now]
      exact ⟨this.1, by simpa using this.2⟩
  | cons m mid ih =>
    intro s x nows o post h hm
    cases nows with
    | nil => simp [runFromG] at h
    | cons now nows' =>
      simp only [runFromG, List.cons_append, List.cons.injEq] at h
      have hm0 : (segueG d now s x).1.entered = false := by
        rw [h.1]; exact hm m List.mem_cons_self
      obtain ⟨h1, h2, _, _⟩ := segueG_stay d now s x hm0
      have := ih _ _ _ _ _ h.2 (fun y hy => hm y (List.mem_cons_of_mem _ hy))
      rw [h1, h2] at this
      refine ⟨this.1, ?_⟩
      rw [this.2]; simp only [List.length_cons]; congr 1; omega

/-- the machine of the first part is the instance without extra state -/
theorem runFromG_decideT (tr : Nat → List (Trans τ)) (s : St τ) (nows : List τ) :
    runFromG (decideT tr) s () nows = runFrom tr s nows := by
  induction nows generalizing s with
  | nil => rfl
  | cons now rest ih =>
    have h : (segueG (decideT tr) now s ()).1 = segue tr now s := by
      rcases segue_cases tr now s with ⟨t, ht, hs⟩ | ⟨ht, hs⟩
      · rw [hs]; unfold evalState at ht; simp [segueG, decideT, ht]
      · rw [hs]; unfold evalState at ht; simp [segueG, decideT, ht, evalState]
    simp only [runFromG, runFrom, h]
    have h2 : (segueG (decideT tr) now s ()).2 = () := rfl
    rw [h2, ih]

end generalMachine

/-! ## framer periods -/

theorem dvd_of_between (k i m : Nat) (h1 : i ≤ m * k) (h2 : m * k < i + k) : (k ∣ i) ↔ (m * k = i) := by
  constructor
  · rintro ⟨q, rfl⟩
    have a : q ≤ m := by
      by_cases h : q ≤ m
      · exact h
      · have : m + 1 ≤ q := by omega
        have := Nat.mul_le_mul_left k this
        rw [Nat.mul_comm k (m+1), Nat.mul_comm k q] at this
        rw [Nat.mul_comm k q] at h1 h2
        have e : (m + 1) * k = m * k + k := by rw [Nat.add_mul, Nat.one_mul]
        omega
    have b : m ≤ q := by
      by_cases h : m ≤ q
      · exact h
      · have : q + 1 ≤ m := by omega
        have := Nat.mul_le_mul_right k this
        have e : (q + 1) * k = q * k + k := by rw [Nat.add_mul, Nat.one_mul]
        rw [Nat.mul_comm k q] at h2
        omega
    have : q = m := by omega
    rw [this, Nat.mul_comm]
  · intro h; exact ⟨m, by rw [← h, Nat.mul_comm]⟩

theorem runsAt_multiple (P : Int) (hP : 0 < P) (k : Nat) :
    ∀ (n i m : Nat), i ≤ m * k → m * k < i + k →
      runsAt P ((k : Int) * P) n ((i : Int) * P) (((m * k : Nat) : Int) * P)
        = (List.range n).map (fun j => decide (k ∣ i + j)) := by
  intro n
  induction n with
  | zero => intro i m _ _; rfl
  | succ n ih =>
    intro i m h1 h2
    have hr : List.range (n + 1) = 0 :: (List.range n).map (· + 1) := List.range_succ_eq_map
    rw [hr]
    simp only [List.map_cons, List.map_map, Nat.add_zero]
    have hstep : (i : Int) * P + P = ((i + 1 : Nat) : Int) * P := by
      rw [Int.natCast_add, Int.add_mul]; simp
    have hcmp : ((i : Int) * P < ((m * k : Nat) : Int) * P) ↔ (i < m * k) := by
      constructor
      · intro h
        have := Int.lt_of_mul_lt_mul_right h (Int.le_of_lt hP)
        exact Int.ofNat_lt.mp this
      · intro h
        exact Int.mul_lt_mul_of_pos_right (Int.ofNat_lt.mpr h) hP
    have hdv := dvd_of_between k i m h1 h2
    unfold runsAt
    by_cases hlt : i < m * k
    · have hnd : ¬ k ∣ i := by rw [hdv]; omega
      simp only [hcmp.2 hlt, if_true, hnd, decide_false]
      rw [hstep, ih (i + 1) m (by omega) (by omega)]
      congr 1
      apply List.map_congr_left
      intro j _
      simp only [Function.comp]
      congr 2; omega
    · have heq : m * k = i := by omega
      have hd : k ∣ i := hdv.2 heq
      have hn : ¬ ((i : Int) * P < ((m * k : Nat) : Int) * P) := fun h => hlt (hcmp.1 h)
      simp only [hn, if_false, hd, decide_true]
      have hre : ((m * k : Nat) : Int) * P + (k : Int) * P = (((m + 1) * k : Nat) : Int) * P := by
        rw [Nat.add_mul, Nat.one_mul, Int.natCast_add, Int.add_mul]
      rw [hstep, hre, ih (i + 1) (m + 1) (by rw [Nat.add_mul, Nat.one_mul]; omega) (by rw [Nat.add_mul, Nat.one_mul]; omega)]
      congr 1
      apply List.map_congr_left
      intro j _
      simp only [Function.comp]
      congr 2; omega


theorem zip_filterMap_flag {α β : Type} (l : List α) (f : α → β) (g : α → Bool) :
    ((l.map f).zip (l.map g)).filterMap (fun sr => if sr.2 then some sr.1 else none) = (l.filter g).map f := by
  induction l with
  | nil => rfl
  | cons a l ih =>
    simp only [List.map_cons, List.zip_cons_cons, List.filterMap_cons, List.filter_cons]
    cases g a <;> simp [ih]

theorem runsAt_zero_period (P : Int) (hP : 0 ≤ P) : ∀ (n : Nat) (s : Int), 0 ≤ s →
    runsAt P 0 n s 0 = List.replicate n true := by
  intro n
  induction n with
  | zero => intro s _; rfl
  | succ n ih =>
    intro s hs
    have : ¬ s < 0 := by omega
    simp only [runsAt, this, if_false, Int.add_zero, List.replicate_succ]
    rw [ih (s + P) (by omega)]

end Ioflo.FloClock
