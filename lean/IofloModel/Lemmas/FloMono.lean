import IofloModel.Model.Flo
/-!
The auxiliary-depth fuel of the interpreter is harmless: a run that succeeds with the entry points of depth `n`
gives the same result with any greater depth (`opsAt_mono`).  Proved by showing every operation monotone in the
record `Ops` of lower-level entry points, for the order "whenever the left one returns a value the right one
returns the same value".
-/
namespace Ioflo.Flo
open Ioflo.Outline (Fid exEn)

variable {W : Type}

/-- `a` refines to `b`: when `a` succeeds, `b` succeeds with the same value -/
def Le {α : Type} (a b : Except Err α) : Prop := ∀ v, a = .ok v → b = .ok v

theorem Le.rfl {α : Type} (a : Except Err α) : Le a a := fun _ h => h

structure OpsLe (a b : Ops W) : Prop where
  enterAll : ∀ y s, Le (a.enterAll y s) (b.enterAll y s)
  exitAll : ∀ y s, Le (a.exitAll y s) (b.exitAll y s)
  recur : ∀ y s, Le (a.recur y s) (b.recur y s)
  segue : ∀ y s, Le (a.segue y s) (b.segue y s)
  checkStart : ∀ y cl s, Le (a.checkStart y cl s) (b.checkStart y cl s)

theorem forEach_le {α : Type} (f g : α → St W → Except Err (St W)) (h : ∀ x s, Le (f x s) (g x s)) :
    ∀ (l : List α) (s : St W), Le (forEach f l s) (forEach g l s) := by
  intro l
  induction l with
  | nil => intro s v hv; exact hv
  | cons x xs ih =>
    intro s v hv
    simp only [forEach] at hv ⊢
    cases hx : f x s with
    | error e => simp [hx] at hv
    | ok s1 =>
      simp only [hx] at hv
      rw [h x s s1 hx]
      exact ih s1 v hv

theorem allM_le {α : Type} (p q : α → Except Err Bool) (h : ∀ x, Le (p x) (q x)) :
    ∀ (l : List α), Le (allM p l) (allM q l) := by
  intro l
  induction l with
  | nil => intro v hv; exact hv
  | cons x xs ih =>
    intro v hv
    simp only [allM] at hv ⊢
    cases hx : p x with
    | error e => simp [hx] at hv
    | ok b =>
      rw [h x b hx]
      cases b with
      | false => simpa [hx] using hv
      | true => simp only [hx] at hv; exact ih v hv

theorem allC_le {α : Type} (p q : List Frid → α → Except Err (Option (List Frid))) (h : ∀ cl x, Le (p cl x) (q cl x)) :
    ∀ (l : List α) (cl : List Frid), Le (allC p l cl) (allC q l cl) := by
  intro l
  induction l with
  | nil => intro cl v hv; exact hv
  | cons x xs ih =>
    intro cl v hv
    simp only [allC] at hv ⊢
    cases hx : p cl x with
    | error e => simp [hx] at hv
    | ok b =>
      rw [h cl x b hx]
      cases b with
      | none => simpa [hx] using hv
      | some c1 => simp only [hx] at hv; exact ih c1 v hv

section mono
variable (P : Prog) (sem : Sem W) {lo lo' : Ops W} (hle : OpsLe lo lo')
include hle

theorem deactivateAux_le (aux : Frid) (s : St W) : Le (deactivateAux P lo aux s) (deactivateAux P lo' aux s) := by
  intro v hv
  unfold deactivateAux at hv ⊢
  cases hx : lo.exitAll aux s with
  | error e => simp [hx] at hv
  | ok s1 => rw [hle.exitAll aux s s1 hx]; simpa [hx] using hv

theorem deactivize_le (f : Fid) (aux : Frid) (s : St W) :
    Le (deactivize P lo f aux s) (deactivize P lo' f aux s) := by
  intro v hv
  unfold deactivize at hv ⊢
  split
  · simpa [*] using hv
  · rename_i hd
    simp only [hd] at hv
    exact deactivateAux_le P hle aux s v hv

theorem auxClaim_le (s : St W) (cl : List Frid) (aux : Frid) :
    Le (auxClaim P lo s cl aux) (auxClaim P lo' s cl aux) := by
  intro v hv
  unfold auxClaim at hv ⊢
  split
  · rename_i ho
    rw [if_pos ho] at hv
    split
    · rename_i hc; rw [if_pos hc] at hv; exact hv
    · rename_i hc; rw [if_neg hc] at hv
      exact hle.checkStart aux _ s v hv
  · rename_i ho
    rw [if_neg ho] at hv
    exact hle.checkStart aux cl s v hv

theorem auxCheck_le (f : Fid) (exits : List Fid) (s : St W) (cl : List Frid) (aux : Frid) :
    Le (auxCheck P lo f exits s cl aux) (auxCheck P lo' f exits s cl aux) := by
  intro v hv
  unfold auxCheck at hv ⊢
  cases hm : (s.fr aux).main with
  | none => simp only [hm] at hv ⊢; exact auxClaim_le P hle s cl aux v hv
  | some m =>
    simp only [hm] at hv ⊢
    split
    · simpa [*] using hv
    · rename_i hc
      simp only [hc, if_false] at hv
      exact auxClaim_le P hle s cl aux v hv

theorem frameCheckEnter_le (exits : List Fid) (s : St W) (cl : List Frid) (f : Fid) :
    Le (frameCheckEnter P sem lo exits s cl f) (frameCheckEnter P sem lo' exits s cl f) := by
  intro v hv
  unfold frameCheckEnter at hv ⊢
  split
  · rename_i hn
    simp only [hn, if_true] at hv
    exact allC_le _ _ (auxCheck_le P hle f exits s) _ cl v hv
  · rename_i hn
    simpa [hn] using hv

theorem checkEnterC_le (enters exits : List Fid) (cl : List Frid) (s : St W) :
    Le (checkEnterC P sem lo enters exits cl s) (checkEnterC P sem lo' enters exits cl s) := by
  intro v hv
  unfold checkEnterC at hv ⊢
  split
  · rename_i he; simpa [he] using hv
  · rename_i he
    simp only [he] at hv
    exact allC_le _ _ (frameCheckEnter_le P sem hle exits s) _ cl v hv

theorem checkEnter_le (enters exits : List Fid) (s : St W) :
    Le (checkEnter P sem lo enters exits s) (checkEnter P sem lo' enters exits s) := by
  intro v hv
  unfold checkEnter at hv ⊢
  cases hc : checkEnterC P sem lo enters exits [] s with
  | error e => simp [hc] at hv
  | ok r => rw [checkEnterC_le P sem hle enters exits [] s r hc]; simpa [hc] using hv

theorem frameEnter_le (f : Fid) (s : St W) : Le (frameEnter P sem lo f s) (frameEnter P sem lo' f s) := by
  unfold frameEnter
  exact forEach_le _ _ (fun aux t => hle.enterAll aux _) _ _

theorem enter_le (i : Frid) (l : List Fid) (s : St W) : Le (enter P sem lo i l s) (enter P sem lo' i l s) := by
  unfold enter
  exact forEach_le _ _ (frameEnter_le P sem hle) _ _

theorem frameExit_le (f : Fid) (s : St W) : Le (frameExit P sem lo f s) (frameExit P sem lo' f s) := by
  intro v hv
  unfold frameExit at hv ⊢
  cases hx : forEach (deactivateAux P lo) (P.frame f).auxes (noteExit f s) with
  | error e => simp [hx] at hv
  | ok s1 =>
    simp only [hx] at hv
    rw [forEach_le _ _ (deactivateAux_le P hle) _ _ s1 hx]
    exact forEach_le _ _ (deactivize_le P hle f) _ _ v hv

theorem exit_le (l : List Fid) (s : St W) : Le (exit P sem lo l s) (exit P sem lo' l s) := by
  unfold exit
  exact forEach_le _ _ (frameExit_le P sem hle) _ _

theorem enterAll_le (i : Frid) (s : St W) : Le (enterAll P sem lo i s) (enterAll P sem lo' i s) := by
  unfold enterAll
  exact enter_le P sem hle _ _ _

theorem exitAll_le (ab : Bool) (i : Frid) (s : St W) : Le (exitAll P sem lo ab i s) (exitAll P sem lo' ab i s) := by
  intro v hv
  unfold exitAll at hv ⊢
  cases hx : exit P sem lo (s.fr i).actives (markLeft (truncated P i s) s) with
  | error e => simp [hx] at hv
  | ok s1 => rw [exit_le P sem hle _ _ s1 hx]; simpa [hx] using hv

theorem frameRecur_le (f : Fid) (s : St W) : Le (frameRecur P sem lo f s) (frameRecur P sem lo' f s) := by
  unfold frameRecur
  exact forEach_le _ _ (fun aux t => hle.recur aux t) _ _

theorem recur_le (i : Frid) (s : St W) : Le (recur P sem lo i s) (recur P sem lo' i s) := by
  unfold recur
  exact forEach_le _ _ (frameRecur_le P sem hle) _ _

theorem checkStart_le (i : Frid) (s : St W) : Le (checkStart P sem lo i s) (checkStart P sem lo' i s) := by
  unfold checkStart
  exact checkEnter_le P sem hle _ _ _

theorem checkStartC_le (i : Frid) (cl : List Frid) (s : St W) :
    Le (checkStartC P sem lo i cl s) (checkStartC P sem lo' i cl s) := by
  unfold checkStartC
  exact checkEnterC_le P sem hle _ _ _ _

theorem transit_le (i : Frid) (f : Fid) (needs : List NeedId) (far : Fid) (tracts : List Act) (s : St W) :
    Le (transit P sem lo i f needs far tracts s) (transit P sem lo' i f needs far tracts s) := by
  intro v hv
  unfold transit at hv ⊢
  simp only [] at hv ⊢
  cases hn : needsHold sem needs s with
  | false => simpa [hn] using hv
  | true =>
    simp only [hn, Bool.not_true, Bool.false_eq_true, if_false] at hv ⊢
    cases hc : checkEnter P sem lo (exEn far (s.fr i).actives (P.frame far).outline).2.1
        (exEn far (s.fr i).actives (P.frame far).outline).1 s with
    | error e => simp [hc] at hv
    | ok b =>
      rw [checkEnter_le P sem hle _ _ s b hc]
      cases b with
      | false => simpa [hc] using hv
      | true =>
        simp only [hc] at hv ⊢
        cases hx : exit P sem lo (exEn far (s.fr i).actives (P.frame far).outline).1
            (runActs sem .transit f tracts (markLeft (truncated P i s) s)) with
        | error e => simp [hx] at hv
        | ok s1 =>
          rw [exit_le P sem hle _ _ s1 hx]
          simp only [hx] at hv ⊢
          cases he : enter P sem lo i (exEn far (s.fr i).actives (P.frame far).outline).2.1
              (renter P sem (exEn far (s.fr i).actives (P.frame far).outline).2.2
                (rexit P sem (exEn far (s.fr i).actives (P.frame far).outline).2.2 s1)) with
          | error e => simp [he] at hv
          | ok s2 => rw [enter_le P sem hle _ _ _ s2 he]; simpa [he] using hv

theorem suspendEnter_le (i : Frid) (f : Fid) (aux : Frid) (tracts : List Act) (s : St W) :
    Le (suspendEnter P sem lo i f aux tracts s) (suspendEnter P sem lo' i f aux tracts s) := by
  intro v hv
  unfold suspendEnter at hv ⊢
  simp only [] at hv ⊢
  cases h1 : lo.enterAll aux (claim P aux f (runActs sem .transit f tracts s)) with
  | error e => simp [h1] at hv
  | ok s1 =>
    rw [hle.enterAll _ _ s1 h1]
    simp only [h1] at hv ⊢
    cases h2 : lo.recur aux s1 with
    | error e => simp [h2] at hv
    | ok s2 =>
      rw [hle.recur _ _ s2 h2]
      simp only [h2] at hv ⊢
      split
      · rename_i hd
        simp only [hd, if_true] at hv
        cases h3 : deactivateAux P lo aux s2 with
        | error e => simp [h3] at hv
        | ok s3 => rw [deactivateAux_le P hle aux s2 s3 h3]; simpa [h3] using hv
      · rename_i hd; simpa [hd] using hv

theorem suspendStart_le (i : Frid) (f : Fid) (needs : List NeedId) (aux : Frid) (tracts : List Act) (s : St W) :
    Le (suspendStart P sem lo i f needs aux tracts s) (suspendStart P sem lo' i f needs aux tracts s) := by
  intro v hv
  unfold suspendStart at hv ⊢
  split
  · rename_i hn
    simp only [hn, if_true] at hv
    split
    · rename_i ho; simpa [ho] using hv
    · rename_i ho
      simp only [ho] at hv
      cases hc : lo.checkStart aux [] s with
      | error e => simp [hc] at hv
      | ok b =>
        rw [hle.checkStart aux [] s b hc]
        cases b with
        | none => simpa [hc] using hv
        | some _ => simp only [hc] at hv ⊢; exact suspendEnter_le P sem hle i f aux tracts s v hv
  · rename_i hn; simpa [hn] using hv

theorem suspendRun_le (i : Frid) (aux : Frid) (s : St W) :
    Le (suspendRun P lo i aux s) (suspendRun P lo' i aux s) := by
  intro v hv
  unfold suspendRun at hv ⊢
  cases h1 : lo.segue aux s with
  | error e => simp [h1] at hv
  | ok s1 =>
    rw [hle.segue _ _ s1 h1]
    simp only [h1] at hv ⊢
    cases h2 : lo.recur aux s1 with
    | error e => simp [h2] at hv
    | ok s2 =>
      rw [hle.recur _ _ s2 h2]
      simp only [h2] at hv ⊢
      split
      · rename_i hd
        simp only [hd, if_true] at hv
        cases h3 : deactivateAux P lo aux s2 with
        | error e => simp [h3] at hv
        | ok s3 => rw [deactivateAux_le P hle aux s2 s3 h3]; simpa [h3] using hv
      · rename_i hd; simpa [hd] using hv

theorem suspend_le (i : Frid) (f : Fid) (needs : List NeedId) (aux : Frid) (tracts : List Act) (s : St W) :
    Le (suspend P sem lo i f needs aux tracts s) (suspend P sem lo' i f needs aux tracts s) := by
  intro v hv
  unfold suspend at hv ⊢
  split
  · rename_i hpl; rw [if_pos hpl] at hv; exact hv
  rename_i hpl
  rw [if_neg hpl] at hv
  split
  · rename_i hd; simp only [hd, if_true] at hv; exact suspendStart_le P sem hle i f needs aux tracts s v hv
  · rename_i hd
    simp only [hd] at hv
    split
    · rename_i hno; simpa [hno] using hv
    · rename_i hno; simp only [hno] at hv; exact suspendRun_le P hle i aux s v hv

theorem runPreact_le (i : Frid) (f : Fid) (p : Preact) (s : St W) :
    Le (runPreact P sem lo i f p s) (runPreact P sem lo' i f p s) := by
  cases p with
  | act a => exact Le.rfl _
  | transit needs far tracts => exact transit_le P sem hle i f needs far tracts s
  | suspend needs aux tracts => exact suspend_le P sem hle i f needs aux tracts s

theorem precurLoop_le (i : Frid) (f : Fid) : ∀ (ps : List Preact) (s : St W),
    Le (precurLoop P sem lo i f ps s) (precurLoop P sem lo' i f ps s) := by
  intro ps
  induction ps with
  | nil => intro s v hv; exact hv
  | cons p ps ih =>
    intro s v hv
    simp only [precurLoop] at hv ⊢
    cases h1 : runPreact P sem lo i f p s with
    | error e => simp [h1] at hv
    | ok r =>
      obtain ⟨b, s1⟩ := r
      rw [runPreact_le P sem hle i f p s (b, s1) h1]
      cases b with
      | true => simpa [h1] using hv
      | false => simp only [h1] at hv ⊢; exact ih s1 v hv

theorem segueLoop_le (i : Frid) : ∀ (fs : List Fid) (s : St W),
    Le (segueLoop P sem lo i fs s) (segueLoop P sem lo' i fs s) := by
  intro fs
  induction fs with
  | nil => intro s v hv; exact hv
  | cons f fs ih =>
    intro s v hv
    simp only [segueLoop, framePrecur] at hv ⊢
    cases h1 : precurLoop P sem lo i f (P.frame f).preacts s with
    | error e => simp [h1] at hv
    | ok r =>
      obtain ⟨b, s1⟩ := r
      rw [precurLoop_le P sem hle i f _ s (b, s1) h1]
      cases b with
      | true => simpa [h1] using hv
      | false => simp only [h1] at hv ⊢; exact ih s1 v hv

theorem segue_le (i : Frid) (s : St W) : Le (segue P sem lo i s) (segue P sem lo' i s) := by
  intro v hv
  unfold segue at hv ⊢
  simp only [] at hv ⊢
  cases h1 : forEach (fun f s => forEach lo.segue (P.frame f).auxes s) ((updateClocks i s).fr i).actives
      (updateClocks i s) with
  | error e => simp [h1] at hv
  | ok s1 =>
    have : forEach (fun f s => forEach lo'.segue (P.frame f).auxes s) ((updateClocks i s).fr i).actives
        (updateClocks i s) = .ok s1 :=
      forEach_le _ _ (fun f t => forEach_le _ _ (fun aux u => hle.segue aux u) _ t) _ _ s1 h1
    rw [this]
    simp only [h1] at hv ⊢
    exact segueLoop_le P sem hle i _ s1 v hv

theorem nextOps_le : OpsLe (nextOps P sem lo) (nextOps P sem lo') :=
  ⟨enterAll_le P sem hle, exitAll_le P sem hle false, recur_le P sem hle, segue_le P sem hle, checkStartC_le P sem hle⟩

theorem framerStep_le (i : Frid) (c : Control) (s : St W) :
    Le (framerStep P sem lo i c s) (framerStep P sem lo' i c s) := by
  intro v hv
  unfold framerStep at hv ⊢
  simp only [] at hv ⊢
  cases c with
  | run =>
    simp only [] at hv ⊢
    split
    · rename_i hu
      simp only [hu, if_true] at hv
      cases h1 : segue P sem lo i s with
      | error e => simp [h1] at hv
      | ok s1 =>
        rw [segue_le P sem hle i s s1 h1]
        simp only [h1] at hv ⊢
        cases h2 : recur P sem lo i s1 with
        | error e => simp [h2] at hv
        | ok s2 => rw [recur_le P sem hle i s1 s2 h2]; simpa [h2] using hv
    · rename_i hu; simpa [hu] using hv
  | ready =>
    simp only [] at hv ⊢
    split
    · rename_i hd
      simp only [hd, if_true] at hv
      cases h1 : checkStart P sem lo i s with
      | error e => simp [h1] at hv
      | ok b => rw [checkStart_le P sem hle i s b h1]; simpa [h1] using hv
    · rename_i hd; simpa [hd] using hv
  | start =>
    simp only [] at hv ⊢
    split
    · rename_i hd
      simp only [hd, if_true] at hv
      cases h0 : checkStart P sem lo i s with
      | error e => simp [h0] at hv
      | ok b =>
        rw [checkStart_le P sem hle i s b h0]
        cases b with
        | false => simpa [h0] using hv
        | true =>
          simp only [h0] at hv ⊢
          cases h1 : enterAll P sem lo i (setDesire1 i .run s) with
          | error e => simp [h1] at hv
          | ok s1 =>
            rw [enterAll_le P sem hle i _ s1 h1]
            simp only [h1] at hv ⊢
            cases h2 : recur P sem lo i s1 with
            | error e => simp [h2] at hv
            | ok s2 => rw [recur_le P sem hle i s1 s2 h2]; simpa [h2] using hv
    · rename_i hd; simpa [hd] using hv
  | stop =>
    simp only [] at hv ⊢
    split
    · rename_i hu
      simp only [hu, if_true] at hv
      cases h1 : exitAll P sem lo true i (setDesire1 i .stop s) with
      | error e => simp [h1] at hv
      | ok s1 => rw [exitAll_le P sem hle true i _ s1 h1]; simpa [h1] using hv
    · rename_i hu; simpa [hu] using hv
  | abort =>
    simp only [] at hv ⊢
    split
    · rename_i hu
      simp only [hu, if_true] at hv
      cases h1 : exitAll P sem lo false i s with
      | error e => simp [h1] at hv
      | ok s1 => rw [exitAll_le P sem hle false i s s1 h1]; simpa [h1] using hv
    · rename_i hu; simpa [hu] using hv


theorem tickLoop_le (l : List Frid) : ∀ (r a : List Frid) (more : Bool) (s : St W),
    Le (tickLoop P sem lo l r a more s) (tickLoop P sem lo' l r a more s) := by
  induction l with
  | nil => intro r a more s v hv; exact hv
  | cons i rest ih =>
    intro r a more s v hv
    simp only [tickLoop] at hv ⊢
    cases h1 : framerStep P sem lo i (s.fr i).desire s with
    | error e => simp [h1] at hv
    | ok s1 =>
      rw [framerStep_le P sem hle i _ s s1 h1]
      simp only [h1] at hv ⊢
      split
      · rename_i hs; simp only [hs, if_true] at hv; exact ih _ _ _ _ v hv
      · rename_i hs; simp only [hs] at hv; exact ih _ _ _ _ v hv

theorem tick_le (k : Sked) (s : St W) : Le (tick P sem lo k s) (tick P sem lo' k s) := by
  intro v hv
  unfold tick at hv ⊢
  cases h1 : tickLoop P sem lo k.ready [] k.aborted false s with
  | error e => simp [h1] at hv
  | ok r => rw [tickLoop_le P sem hle _ _ _ _ s r h1]; simpa [h1] using hv

theorem finalize_le (k : Sked) (s : St W) : Le (finalize P sem lo k s) (finalize P sem lo' k s) := by
  unfold finalize
  exact forEach_le _ _ (fun i t => framerStep_le P sem hle i .abort t) _ _

end mono

theorem opsAt_le_succ (P : Prog) (sem : Sem W) : ∀ n, OpsLe (opsAt P sem n) (opsAt P sem (n + 1))
  | 0 => by
    refine ⟨?_, ?_, ?_, ?_, ?_⟩ <;> intros <;> intro v hv <;> simp [opsAt, Ops.bottom] at hv
  | n + 1 => nextOps_le P sem (opsAt_le_succ P sem n)

theorem OpsLe.trans {a b c : Ops W} (h1 : OpsLe a b) (h2 : OpsLe b c) : OpsLe a c :=
  ⟨fun y s v hv => h2.enterAll y s v (h1.enterAll y s v hv), fun y s v hv => h2.exitAll y s v (h1.exitAll y s v hv),
   fun y s v hv => h2.recur y s v (h1.recur y s v hv), fun y s v hv => h2.segue y s v (h1.segue y s v hv),
   fun y cl s v hv => h2.checkStart y cl s v (h1.checkStart y cl s v hv)⟩

theorem OpsLe.refl (a : Ops W) : OpsLe a a :=
  ⟨fun _ _ _ h => h, fun _ _ _ h => h, fun _ _ _ h => h, fun _ _ _ h => h, fun _ _ _ _ h => h⟩

theorem opsAt_mono (P : Prog) (sem : Sem W) (n : Nat) : ∀ k, OpsLe (opsAt P sem n) (opsAt P sem (n + k))
  | 0 => OpsLe.refl _
  | k + 1 => (opsAt_mono P sem n k).trans (opsAt_le_succ P sem (n + k))

end Ioflo.Flo
