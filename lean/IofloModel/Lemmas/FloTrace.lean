import IofloModel.Lemmas.Flo
/-!
Bracketing of `Frame.enter` / `Frame.exit` (C06, trace part): the ghost map `St.ent` (frames entered and not
exited) and the ghost flag `St.dbl` (an enter of an entered frame / an exit of a frame that is not entered) are
carried through every operation of every auxiliary level.

`EInv P i s`: a frame of framer `i` is entered iff it lies on the (full) outline of `i`'s active frame.
Hypotheses of the preservation lemmas: no ghost flag `left` (exit/transition on a truncated outline) and no
`reenter` (enterAll on an active framer) is up afterwards.
-/
namespace Ioflo.Flo
open Ioflo.Outline (Fid exEn)

variable {W : Type}

def St.bad2 (s : St W) : Bool := s.left || s.reenter

/-- a frame of framer `i` is entered exactly when it is on the outline of `i`'s active frame -/
def EInv (P : Prog) (i : Frid) (s : St W) : Prop :=
  ∀ f, (P.frame f).framer = i → (s.ent f = true ↔ ∃ a, (s.fr i).active = some a ∧ f ∈ (P.frame a).outline)

def EInvR (P : Prog) (i : Frid) (s : St W) : Prop := ∀ j, Reach P i j → EInv P j s
def EBelow (P : Prog) (i : Frid) (s : St W) : Prop := ∀ y, Child P i y → EInvR P y s

/-- additional static well-formedness: outlines have no repeated frame -/
structure WFE (P : Prog) : Prop where
  outlineNodup : ∀ a, (P.frame a).outline.Nodup

/-- strict descendants of `i` in the auxiliary tree -/
def Desc (P : Prog) (i j : Frid) : Prop := ∃ y, Child P i y ∧ Reach P y j

/-- frame condition on the ghost map: only frames of framers in `D` change; flags only rise -/
structure EMod (P : Prog) (D : Frid → Prop) (s s' : St W) : Prop where
  ent : ∀ f, ¬ D (P.frame f).framer → s'.ent f = s.ent f
  flags : s.bad2 = true → s'.bad2 = true
  dblUp : s.dbl = true → s'.dbl = true

theorem EMod.refl (P : Prog) (D : Frid → Prop) (s : St W) : EMod P D s s := ⟨fun _ _ => rfl, id, id⟩

theorem EMod.trans {P : Prog} {D : Frid → Prop} {a b c : St W} (h1 : EMod P D a b) (h2 : EMod P D b c) : EMod P D a c :=
  ⟨fun f hf => (h2.ent f hf).trans (h1.ent f hf), fun h => h2.flags (h1.flags h), fun h => h2.dblUp (h1.dblUp h)⟩

theorem EMod.mono {P : Prog} {D D' : Frid → Prop} {s s' : St W} (h : EMod P D s s') (hd : ∀ j, D j → D' j) :
    EMod P D' s s' :=
  ⟨fun f hf => h.ent f (fun hh => hf (hd _ hh)), h.flags, h.dblUp⟩

theorem EMod.bad2_false {P : Prog} {D : Frid → Prop} {s s' : St W} (h : EMod P D s s') (hb : s'.bad2 = false) :
    s.bad2 = false := by
  cases hq : s.bad2 with
  | false => rfl
  | true => rw [h.flags hq] at hb; cases hb

/-- a step that does not touch the ghost map nor `dbl` -/
structure EStep (s s' : St W) : Prop where
  ent : s'.ent = s.ent
  dbl : s'.dbl = s.dbl
  flags : s.bad2 = true → s'.bad2 = true

theorem EStep.refl (s : St W) : EStep s s := ⟨rfl, rfl, id⟩
theorem EStep.trans {a b c : St W} (h1 : EStep a b) (h2 : EStep b c) : EStep a c :=
  ⟨h2.ent.trans h1.ent, h2.dbl.trans h1.dbl, fun h => h2.flags (h1.flags h)⟩

theorem EStep.emod {s s' : St W} (h : EStep s s') (P : Prog) (D : Frid → Prop) : EMod P D s s' :=
  ⟨fun f _ => by rw [h.ent], h.flags, fun hd => by rw [h.dbl]; exact hd⟩

/-! ### primitives -/

theorem estep_modFr (i : Frid) (f : FramerSt → FramerSt) (s : St W) : EStep s (s.modFr i f) := ⟨rfl, rfl, id⟩
theorem estep_emit (e : Event) (s : St W) : EStep s (s.emit e) := ⟨rfl, rfl, id⟩
theorem estep_markOverlap (b : Bool) (s : St W) : EStep s (markOverlap b s) := ⟨rfl, rfl, id⟩

theorem estep_markReenter (b : Bool) (s : St W) : EStep s (markReenter b s) :=
  ⟨rfl, rfl, fun h => by
    simp only [St.bad2, markReenter] at h ⊢
    cases hl : s.left <;> cases hr : s.reenter <;> simp_all⟩

theorem estep_markLeft (b : Bool) (s : St W) : EStep s (markLeft b s) :=
  ⟨rfl, rfl, fun h => by
    simp only [St.bad2, markLeft] at h ⊢
    cases hl : s.left <;> cases hr : s.reenter <;> simp_all⟩

theorem estep_setDone (frs : List Frid) (s : St W) : EStep s (setDone frs s) := by
  induction frs generalizing s with
  | nil => exact EStep.refl s
  | cons k ks ih =>
    simp only [setDone, List.foldl_cons]
    exact (estep_modFr k _ s).trans (by simpa [setDone] using ih (s.modFr k (fun x => { x with done := true })))

theorem estep_setDesire (c : Control) (frs : List Frid) (s : St W) : EStep s (setDesire c frs s) := by
  induction frs generalizing s with
  | nil => exact EStep.refl s
  | cons k ks ih =>
    simp only [setDesire, List.foldl_cons]
    exact (estep_modFr k _ s).trans (by simpa [setDesire] using ih (s.modFr k (fun x => { x with desire := c })))

theorem estep_runAct (sem : Sem W) (ctx : Ctx) (f : Fid) (a : Act) (s : St W) : EStep s (runAct sem ctx f a s).1 := by
  cases a with
  | world aid => exact ⟨rfl, rfl, fun h => h⟩
  | done frs => exact estep_setDone frs s
  | bid c frs => exact estep_setDesire c frs s

theorem estep_runActs (sem : Sem W) (ctx : Ctx) (f : Fid) (acts : List Act) (s : St W) :
    EStep s (runActs sem ctx f acts s) := by
  induction acts generalizing s with
  | nil => exact EStep.refl s
  | cons a as ih =>
    simp only [runActs, List.foldl_cons]
    exact (estep_runAct sem ctx f a s).trans (by simpa [runActs] using ih (runAct sem ctx f a s).1)

theorem estep_claim (P : Prog) (aux : Frid) (m : Fid) (s : St W) : EStep s (claim P aux m s) := by
  unfold claim; split
  · exact estep_modFr _ _ s
  · exact EStep.refl s

theorem estep_release (P : Prog) (aux : Frid) (s : St W) : EStep s (release P aux s) := by
  unfold release; split
  · exact estep_modFr _ _ s
  · exact EStep.refl s

theorem estep_activate (P : Prog) (i : Frid) (a : Fid) (s : St W) : EStep s (activate P i a s) := ⟨rfl, rfl, id⟩
theorem estep_deactivate (i : Frid) (s : St W) : EStep s (deactivate i s) := ⟨rfl, rfl, id⟩
theorem estep_truncate (P : Prog) (i : Frid) (m : Fid) (s : St W) : EStep s (truncate P i m s) := ⟨rfl, rfl, id⟩
theorem estep_restartClocks (i : Frid) (s : St W) : EStep s (restartClocks i s) := ⟨rfl, rfl, id⟩
theorem estep_updateClocks (i : Frid) (s : St W) : EStep s (updateClocks i s) := ⟨rfl, rfl, id⟩

theorem estep_rexit (P : Prog) (sem : Sem W) (l : List Fid) (s : St W) : EStep s (rexit P sem l s) := by
  unfold rexit
  generalize l.reverse = r
  induction r generalizing s with
  | nil => exact EStep.refl s
  | cons g gs ih =>
    simp only [List.foldl_cons]
    exact ((estep_emit _ s).trans (estep_runActs sem .rexit g _ _)).trans (ih _)

theorem estep_renter (P : Prog) (sem : Sem W) (l : List Fid) (s : St W) : EStep s (renter P sem l s) := by
  unfold renter
  induction l generalizing s with
  | nil => exact EStep.refl s
  | cons g gs ih =>
    simp only [List.foldl_cons]
    exact ((estep_emit _ s).trans (estep_runActs sem .renter g _ _)).trans (ih _)

/-! ### `EInv` only looks at `active` of the framer and `ent` of its frames -/

theorem EInv.congr {P : Prog} {i : Frid} {s s' : St W} (h : EInv P i s)
    (ha : (s'.fr i).active = (s.fr i).active)
    (he : ∀ f, (P.frame f).framer = i → s'.ent f = s.ent f) : EInv P i s' := by
  intro f hf
  rw [he f hf, ha]
  exact h f hf

/-! ### what is assumed of the entry points of the level below (ghost map) -/

structure OpOKE (P : Prog) (op : Frid → St W → Except Err (St W)) : Prop where
  emod : ∀ y s s', Owned P s → op y s = .ok s' → EMod P (Reach P y) s s'
  einv : ∀ y s s', Owned P s → op y s = .ok s' → s'.bad2 = false → s.dbl = false → EInvR P y s →
    EInvR P y s' ∧ s'.dbl = false

structure LoSpecE (P : Prog) (lo : Ops W) : Prop where
  enterAll : OpOKE P lo.enterAll
  exitAll : OpOKE P lo.exitAll
  recur : OpOKE P lo.recur
  segue : OpOKE P lo.segue

/-- a part of an operation on framer `i` that enters / exits no frame of `i` and keeps `i`'s active frame -/
structure EQ (P : Prog) (i : Frid) (s s' : St W) : Prop where
  emod : EMod P (Desc P i) s s'
  below : s'.bad2 = false → s.dbl = false → EBelow P i s → EBelow P i s' ∧ s'.dbl = false
  act : (s'.fr i).active = (s.fr i).active

theorem EQ.refl (P : Prog) (i : Frid) (s : St W) : EQ P i s s :=
  ⟨EMod.refl _ _ _, fun _ hd hb => ⟨hb, hd⟩, rfl⟩

theorem EQ.trans {P : Prog} {i : Frid} {a b c : St W} (h1 : EQ P i a b) (h2 : EQ P i b c) : EQ P i a c :=
  ⟨h1.emod.trans h2.emod,
   fun hb hd hbl =>
     have r1 := h1.below (h2.emod.bad2_false hb) hd hbl
     h2.below hb r1.2 r1.1,
   h2.act.trans h1.act⟩

section walk
variable {P : Prog} {rank : Frid → Nat} (wf : WF P rank)
include wf

theorem desc_ne {i j : Frid} (h : Desc P i j) : j ≠ i := by
  obtain ⟨y, hy, hr⟩ := h
  intro e; subst e
  exact not_reach_parent wf hy hr

/-- a ghost-neutral step that keeps the framers below `i` and `i`'s active frame -/
theorem EQ.of_estep {i : Frid} {s s' : St W} (h : EStep s s') (hst : Step P i s s')
    (ha : (s'.fr i).active = (s.fr i).active) : EQ P i s s' := by
  refine ⟨h.emod P _, ?_, ha⟩
  intro _ hd hbl
  refine ⟨?_, by rw [h.dbl]; exact hd⟩
  intro y hy j hj
  have hji : j ≠ i := desc_ne wf ⟨y, hy, hj⟩
  exact (hbl y hy j hj).congr (hst.active j hji) (fun f _ => by rw [h.ent])

variable {lo : Ops W} (hlo : LoSpec P lo) (hle : LoSpecE P lo)
include hlo hle

omit hlo hle in
/-- an entry point of the level below, called on a kid `y` of `i` -/
theorem lo_eq {op : Frid → St W → Except Err (St W)} (hop : OpOK P op) (hope : OpOKE P op) {i y : Frid}
    (hy : Child P i y) {s s' : St W} (ho : Owned P s) (h : op y s = .ok s') : EQ P i s s' := by
  have hm := hop.mod y s s' ho h
  have he := hope.emod y s s' ho h
  refine ⟨he.mono (fun j hj => ⟨y, hy, hj⟩), ?_, core_active (hm.same i (not_reach_parent wf hy))⟩
  intro hb hd hbl
  have r := hope.einv y s s' ho h hb hd (hbl y hy)
  refine ⟨?_, r.2⟩
  intro y' hy' j hj
  by_cases e : y' = y
  · subst e; exact r.1 j hj
  · have hnj : ¬ Reach P y j := siblings_disjoint wf hy' hy e hj
    exact (hbl y' hy' j hj).congr (core_active (hm.same j hnj))
      (fun f hf => he.ent f (by rw [hf]; exact hnj))

/-- `EQ` together with ownership, for loops -/
def EQO (P : Prog) (i : Frid) (s s' : St W) : Prop := Owned P s → EQ P i s s' ∧ Owned P s'

omit wf hlo hle in
theorem EQO.refl (i : Frid) (s : St W) : EQO P i s s := fun ho => ⟨EQ.refl _ _ _, ho⟩
omit wf hlo hle in
theorem EQO.trans {i : Frid} {a b c : St W} (h1 : EQO P i a b) (h2 : EQO P i b c) : EQO P i a c := fun ho =>
  have r1 := h1 ho
  have r2 := h2 r1.2
  ⟨r1.1.trans r2.1, r2.2⟩

omit hlo hle in
theorem EQO.of_step {i : Frid} {s s' : St W} (hE : EStep s s') (hS : Step P i s s' ∧ Keep i s s') : EQO P i s s' :=
  fun ho => ⟨EQ.of_estep wf hE hS.1 hS.2.1, owned_of_step hS.1 hS.2 ho⟩

omit hlo hle in
theorem EQO.ofLo {op : Frid → St W → Except Err (St W)} (hop : OpOK P op) (hope : OpOKE P op) {i y : Frid}
    (hy : Child P i y) {s s' : St W} (h : op y s = .ok s') : EQO P i s s' :=
  fun ho => ⟨lo_eq wf hop hope hy ho h, hop.owned y s s' ho h⟩

omit hlo hle in
/-- entering / exiting a frame of `i` does not disturb the invariant below `i` -/
theorem ebelow_of_note {i : Frid} {s s1 : St W} (hfr : ∀ j, s1.fr j = s.fr j)
    (hent : ∀ g, (P.frame g).framer ≠ i → s1.ent g = s.ent g) (h : EBelow P i s) : EBelow P i s1 := by
  intro y hy j hj
  have hji : j ≠ i := desc_ne wf ⟨y, hy, hj⟩
  exact (h y hy j hj).congr (by rw [hfr]) (fun g hg => hent g (by rw [hg]; exact hji))

variable {sem : Sem W}

/-- what `Frame.enter` / `Frame.exit` of a frame `f` of framer `i` do to the ghost state (`v` = the new value of
`ent f`): the common shape of `frameEnter_e` and `frameExit_e` -/
structure Own (P : Prog) (f : Fid) (v : Bool) (s s' : St W) : Prop where
  owned : Owned P s'
  act : (s'.fr (P.frame f).framer).active = (s.fr (P.frame f).framer).active
  entf : s'.ent f = v
  others : ∀ g, g ≠ f → ¬ Desc P (P.frame f).framer (P.frame g).framer → s'.ent g = s.ent g
  flags : s.bad2 = true → s'.bad2 = true
  dblUp : s.dbl = true → s'.dbl = true
  below : s'.bad2 = false → s.dbl = false → s.ent f = !v → EBelow P (P.frame f).framer s →
    EBelow P (P.frame f).framer s' ∧ s'.dbl = false

omit hlo hle in
/-- from the state right after the `noteEnter` / `noteExit` of `f` on, only quiet parts follow -/
theorem own_of_note {f : Fid} {v : Bool} {s s1 s' : St W} (ho1 : Owned P s1)
    (hfr : ∀ j, s1.fr j = s.fr j) (hentf : s1.ent f = v) (hento : ∀ g, g ≠ f → s1.ent g = s.ent g)
    (hbad : s1.bad2 = s.bad2) (hdbl : s1.dbl = (s.dbl || (s.ent f == v)))
    (hq : EQO P (P.frame f).framer s1 s') : Own P f v s s' := by
  have r := hq ho1
  have hfi : ¬ Desc P (P.frame f).framer (P.frame f).framer := fun h => desc_ne wf h rfl
  refine ⟨r.2, ?_, ?_, ?_, ?_, ?_, ?_⟩
  · rw [r.1.act, hfr]
  · rw [r.1.emod.ent f hfi]; exact hentf
  · intro g hg hd; rw [r.1.emod.ent g hd]; exact hento g hg
  · intro h; exact r.1.emod.flags (by rw [hbad]; exact h)
  · intro h; exact r.1.emod.dblUp (by rw [hdbl, h]; rfl)
  · intro hb hd hef hbl
    have hd1 : s1.dbl = false := by
      rw [hdbl, hd, hef]; cases v <;> rfl
    have hbl1 : EBelow P (P.frame f).framer s1 :=
      ebelow_of_note wf hfr (fun g hg => hento g (fun e => hg (by rw [e]))) hbl
    exact r.1.below hb hd1 hbl1

theorem frameEnter_e {f : Fid} {s s' : St W} (ho : Owned P s) (h : frameEnter P sem lo f s = .ok s') :
    Own P f true s s' := by
  unfold frameEnter at h
  have ho1 : Owned P (noteEnter f s) := owned_of_step (step_noteEnter P (P.frame f).framer f s) (Keep.refl _ _) ho
  refine own_of_note wf ho1 (fun _ => rfl) (by simp [noteEnter, St.emit]) ?_ rfl ?_ ?_
  · intro g hg; simp [noteEnter, St.emit, hg]
  · simp [noteEnter, St.emit]
  · refine EQO.trans (EQO.of_step wf (estep_runActs sem .enter f _ _)
      (runActs_step P sem .enter f _ _ (wf.doneEn f) _)) ?_
    refine forEach_rel (R := EQO P (P.frame f).framer) (EQO.refl _) (fun _ _ _ => EQO.trans) _ _ ?_ _ _ h
    intro y hy t t' ht
    have hc := plain_child (P := P) hy
    exact EQO.trans (EQO.of_step wf (estep_claim P y f t) (claim_step wf hc f t))
      (EQO.ofLo wf hlo.enterAll hle.enterAll hc ht)

theorem deactivateAux_eqo {i y : Frid} (hy : Child P i y) {s s' : St W} (h : deactivateAux P lo y s = .ok s') :
    EQO P i s s' := by
  unfold deactivateAux at h
  cases h1 : lo.exitAll y s with
  | error e => simp [h1] at h
  | ok s1 =>
    simp only [h1, Except.ok.injEq] at h
    subst h
    exact EQO.trans (EQO.ofLo wf hlo.exitAll hle.exitAll hy h1)
      (EQO.of_step wf (estep_release P y s1) (release_step wf hy s1))

theorem deactivize_eqo {i y : Frid} (hy : Child P i y) {s s' : St W} (h : deactivize P lo y s = .ok s') :
    EQO P i s s' := by
  unfold deactivize at h
  split at h
  · simp only [Except.ok.injEq] at h; subst h; exact EQO.refl _ _
  · exact deactivateAux_eqo wf hlo hle hy h

theorem frameExit_e {f : Fid} {s s' : St W} (ho : Owned P s) (h : frameExit P sem lo f s = .ok s') :
    Own P f false s s' := by
  unfold frameExit at h
  cases h1 : forEach (deactivateAux P lo) (P.frame f).auxes (noteExit f s) with
  | error e => simp [h1] at h
  | ok s1 =>
    simp only [h1] at h
    have ho1 : Owned P (noteExit f s) := owned_of_step (step_noteExit P (P.frame f).framer f s) (Keep.refl _ _) ho
    refine own_of_note wf ho1 (fun _ => rfl) (by simp [noteExit, St.emit]) ?_ rfl ?_ ?_
    · intro g hg; simp [noteExit, St.emit, hg]
    · simp [noteExit, St.emit]
    · have q1 : EQO P (P.frame f).framer (noteExit f s) s1 := by
        refine forEach_rel (R := EQO P (P.frame f).framer) (EQO.refl _) (fun _ _ _ => EQO.trans) _ _ ?_ _ _ h1
        intro y hy t t' ht
        exact deactivateAux_eqo wf hlo hle (plain_child hy) ht
      have q2 : EQO P (P.frame f).framer s1 (runActs sem .exit f (P.frame f).exacts s1) :=
        EQO.of_step wf (estep_runActs sem .exit f _ _) (runActs_step P sem .exit f _ _ (wf.doneEx f) _)
      refine EQO.trans (EQO.trans q1 q2) ?_
      refine forEach_rel (R := EQO P (P.frame f).framer) (EQO.refl _) (fun _ _ _ => EQO.trans) _ _ ?_ _ _ h
      intro y hy t t' ht
      exact deactivize_eqo wf hlo hle (susp_condkid (P := P) hy).child ht

/-- a list of frames of framer `i`, entered (`v = true`) or exited (`v = false`) one after the other -/
structure OwnL (P : Prog) (i : Frid) (l : List Fid) (v : Bool) (s s' : St W) : Prop where
  owned : Owned P s'
  act : (s'.fr i).active = (s.fr i).active
  entl : ∀ f, f ∈ l → s'.ent f = v
  others : ∀ g, g ∉ l → ¬ Desc P i (P.frame g).framer → s'.ent g = s.ent g
  flags : s.bad2 = true → s'.bad2 = true
  dblUp : s.dbl = true → s'.dbl = true
  below : s'.bad2 = false → s.dbl = false → (∀ f, f ∈ l → s.ent f = !v) → EBelow P i s →
    EBelow P i s' ∧ s'.dbl = false

omit hlo hle in
theorem own_list {i : Frid} {v : Bool} (g : Fid → St W → Except Err (St W))
    (hg : ∀ f s s', Owned P s → g f s = .ok s' → Own P f v s s') :
    ∀ (l : List Fid), l.Nodup → (∀ f, f ∈ l → (P.frame f).framer = i) →
      ∀ s s', Owned P s → forEach g l s = .ok s' → OwnL P i l v s s' := by
  intro l
  induction l with
  | nil =>
    intro _ _ s s' ho h
    simp only [forEach, Except.ok.injEq] at h; subst h
    exact ⟨ho, rfl, fun _ hf => by simp at hf, fun _ _ _ => rfl, fun hq => hq, fun hq => hq,
      fun _ hd _ hb => ⟨hb, hd⟩⟩
  | cons f fs ih =>
    intro hnd hown s s' ho h
    simp only [forEach] at h
    cases h1 : g f s with
    | error e => simp [h1] at h
    | ok s1 =>
      simp only [h1] at h
      have hf : (P.frame f).framer = i := hown f (by simp)
      have o1' := hg f s s1 ho h1
      have o1act : (s1.fr i).active = (s.fr i).active := hf ▸ o1'.act
      have o1others : ∀ g, g ≠ f → ¬ Desc P i (P.frame g).framer → s1.ent g = s.ent g := hf ▸ o1'.others
      have o1below : s1.bad2 = false → s.dbl = false → s.ent f = !v → EBelow P i s → EBelow P i s1 ∧ s1.dbl = false :=
        hf ▸ o1'.below
      have o1 := o1'
      have hnd' := (List.nodup_cons.1 hnd)
      have o2 := ih hnd'.2 (fun x hx => hown x (by simp [hx])) s1 s' o1.owned h
      have hfi : ¬ Desc P i (P.frame f).framer := fun hd => desc_ne wf hd hf
      refine ⟨o2.owned, o2.act.trans o1act, ?_, ?_, fun hq => o2.flags (o1.flags hq),
        fun hq => o2.dblUp (o1.dblUp hq), ?_⟩
      · intro x hx
        rcases List.mem_cons.1 hx with e | hx'
        · subst e; rw [o2.others x hnd'.1 hfi]; exact o1.entf
        · exact o2.entl x hx'
      · intro x hx hd
        have hxf : x ≠ f := fun e => hx (by simp [e])
        have hxs : x ∉ fs := fun hh => hx (by simp [hh])
        rw [o2.others x hxs hd, o1others x hxf hd]
      · intro hb hd hent hbl
        have hb1 : s1.bad2 = false := by
          cases hq : s1.bad2 with
          | false => rfl
          | true => rw [o2.flags hq] at hb; cases hb
        have r1 := o1below hb1 hd (hent f (by simp)) hbl
        apply o2.below hb r1.2 _ r1.1
        intro x hx
        have hxf : x ≠ f := fun e => hnd'.1 (e ▸ hx)
        have hxi : ¬ Desc P i (P.frame x).framer := fun hd' => desc_ne wf hd' (hown x (by simp [hx]))
        rw [o1others x hxf hxi]; exact hent x (by simp [hx])

theorem enter_e {i : Frid} {l : List Fid} (hnd : l.Nodup) (hown : ∀ f, f ∈ l → (P.frame f).framer = i)
    {s s' : St W} (ho : Owned P s) (h : enter P sem lo i l s = .ok s') : OwnL P i l true s s' := by
  unfold enter at h
  obtain ⟨s0, hs0⟩ : ∃ x, x = (if l.isEmpty then s else restartClocks i s) := ⟨_, rfl⟩
  rw [← hs0] at h
  have q0 : EStep s s0 ∧ Step P i s s0 ∧ Keep i s s0 := by
    rw [hs0]; split
    · exact ⟨EStep.refl _, Step.refl _ _ _, Keep.refl _ _⟩
    · exact ⟨estep_restartClocks i s, (restartClocks_step (P := P) i s).1, (restartClocks_step (P := P) i s).2⟩
  have ho0 : Owned P s0 := owned_of_step q0.2.1 q0.2.2 ho
  have o := own_list wf (v := true) (frameEnter P sem lo) (fun f t t' hot ht => frameEnter_e wf hlo hle hot ht)
    l hnd hown s0 s' ho0 h
  have hfr : (s0.fr i).active = (s.fr i).active := q0.2.2.1
  refine ⟨o.owned, o.act.trans hfr, o.entl, ?_, fun hq => o.flags (q0.1.flags hq),
    fun hq => o.dblUp (by rw [q0.1.dbl]; exact hq), ?_⟩
  · intro g hg hd; rw [o.others g hg hd, q0.1.ent]
  · intro hb hd hent hbl
    have e0 := (EQ.of_estep wf q0.1 q0.2.1 hfr)
    have hb0 : s0.bad2 = false := by
      cases hq : s0.bad2 with
      | false => rfl
      | true => rw [o.flags hq] at hb; cases hb
    have r0 := e0.below hb0 hd hbl
    exact o.below hb r0.2 (fun f hf => by rw [q0.1.ent]; exact hent f hf) r0.1

theorem exit_e {i : Frid} {l : List Fid} (hnd : l.Nodup) (hown : ∀ f, f ∈ l → (P.frame f).framer = i)
    {s s' : St W} (ho : Owned P s) (h : exit P sem lo l s = .ok s') : OwnL P i l false s s' := by
  unfold exit at h
  have o := own_list wf (v := false) (frameExit P sem lo) (fun f t t' hot ht => frameExit_e wf hlo hle hot ht)
    l.reverse (List.nodup_reverse.2 hnd) (fun f hf => hown f (List.mem_reverse.1 hf)) s s' ho h
  exact ⟨o.owned, o.act, fun f hf => o.entl f (List.mem_reverse.2 hf),
    fun g hg hd => o.others g (fun hh => hg (List.mem_reverse.1 hh)) hd, o.flags, o.dblUp,
    fun hb hd hent hbl => o.below hb hd (fun f hf => hent f (List.mem_reverse.1 hf)) hbl⟩

end walk

end Ioflo.Flo
