import IofloModel.Lemmas.Flo
/-!
Bracketing of `Frame.enter` / `Frame.exit` (C06, trace part): the ghost map `St.ent` (frames entered and not
exited) and the ghost flag `St.dbl` (an enter of an entered frame / an exit of a frame that is not entered) are
carried through every operation of every auxiliary level.

`EInv P i s`: a frame of framer `i` is entered iff it lies on the (full) outline of `i`'s active frame.
Hypotheses of the preservation lemmas: no ghost flag `left` (exit/transition on a truncated outline) and no
`reenter` (enterAll on an active framer) is up afterwards.
-/
namespace Ioflo.Flo
open Ioflo.Outline (Fid exEn)

variable {W : Type}

def St.bad2 (s : St W) : Bool := s.left || s.reenter

/-- a frame of framer `i` is entered exactly when it is on the outline of `i`'s active frame -/
def EInv (P : Prog) (i : Frid) (s : St W) : Prop :=
  ∀ f, (P.frame f).framer = i → (s.ent f = true ↔ ∃ a, (s.fr i).active = some a ∧ f ∈ (P.frame a).outline)

def EInvR (P : Prog) (i : Frid) (s : St W) : Prop := ∀ j, Reach P i j → EInv P j s
def EBelow (P : Prog) (i : Frid) (s : St W) : Prop := ∀ y, Child P i y → EInvR P y s

/-- additional static well-formedness: outlines have no repeated frame -/
structure WFE (P : Prog) : Prop where
  outlineNodup : ∀ a, (P.frame a).outline.Nodup

/-- strict descendants of `i` in the auxiliary tree -/
def Desc (P : Prog) (i j : Frid) : Prop := ∃ y, Child P i y ∧ Reach P y j

/-- frame condition on the ghost map: only frames of framers in `D` change; flags only rise -/
structure EMod (P : Prog) (D : Frid → Prop) (s s' : St W) : Prop where
  ent : ∀ f, ¬ D (P.frame f).framer → s'.ent f = s.ent f
  flags : s.bad2 = true → s'.bad2 = true
  dblUp : s.dbl = true → s'.dbl = true

theorem EMod.refl (P : Prog) (D : Frid → Prop) (s : St W) : EMod P D s s := ⟨fun _ _ => rfl, id, id⟩

theorem EMod.trans {P : Prog} {D : Frid → Prop} {a b c : St W} (h1 : EMod P D a b) (h2 : EMod P D b c) : EMod P D a c :=
  ⟨fun f hf => (h2.ent f hf).trans (h1.ent f hf), fun h => h2.flags (h1.flags h), fun h => h2.dblUp (h1.dblUp h)⟩

theorem EMod.mono {P : Prog} {D D' : Frid → Prop} {s s' : St W} (h : EMod P D s s') (hd : ∀ j, D j → D' j) :
    EMod P D' s s' :=
  ⟨fun f hf => h.ent f (fun hh => hf (hd _ hh)), h.flags, h.dblUp⟩

theorem EMod.bad2_false {P : Prog} {D : Frid → Prop} {s s' : St W} (h : EMod P D s s') (hb : s'.bad2 = false) :
    s.bad2 = false := by
  cases hq : s.bad2 with
  | false => rfl
  | true => rw [h.flags hq] at hb; cases hb

/-- a step that does not touch the ghost map nor `dbl` -/
structure EStep (s s' : St W) : Prop where
  ent : s'.ent = s.ent
  dbl : s'.dbl = s.dbl
  flags : s.bad2 = true → s'.bad2 = true

theorem EStep.refl (s : St W) : EStep s s := ⟨rfl, rfl, id⟩
theorem EStep.trans {a b c : St W} (h1 : EStep a b) (h2 : EStep b c) : EStep a c :=
  ⟨h2.ent.trans h1.ent, h2.dbl.trans h1.dbl, fun h => h2.flags (h1.flags h)⟩

theorem EStep.emod {s s' : St W} (h : EStep s s') (P : Prog) (D : Frid → Prop) : EMod P D s s' :=
  ⟨fun f _ => by rw [h.ent], h.flags, fun hd => by rw [h.dbl]; exact hd⟩

/-! ### primitives -/

theorem estep_modFr (i : Frid) (f : FramerSt → FramerSt) (s : St W) : EStep s (s.modFr i f) := ⟨rfl, rfl, id⟩
theorem estep_emit (e : Event) (s : St W) : EStep s (s.emit e) := ⟨rfl, rfl, id⟩
theorem estep_markOverlap (b : Bool) (s : St W) : EStep s (markOverlap b s) := ⟨rfl, rfl, id⟩

theorem estep_markReenter (b : Bool) (s : St W) : EStep s (markReenter b s) :=
  ⟨rfl, rfl, fun h => by
    simp only [St.bad2, markReenter] at h ⊢
    cases hl : s.left <;> cases hr : s.reenter <;> simp_all⟩

theorem estep_markLeft (b : Bool) (s : St W) : EStep s (markLeft b s) :=
  ⟨rfl, rfl, fun h => by
    simp only [St.bad2, markLeft] at h ⊢
    cases hl : s.left <;> cases hr : s.reenter <;> simp_all⟩

theorem estep_setDone (frs : List Frid) (s : St W) : EStep s (setDone frs s) := by
  induction frs generalizing s with
  | nil => exact EStep.refl s
  | cons k ks ih =>
    simp only [setDone, List.foldl_cons]
    exact (estep_modFr k _ s).trans (by simpa [setDone] using ih (s.modFr k (fun x => { x with done := true })))

theorem estep_setDesire (c : Control) (frs : List Frid) (s : St W) : EStep s (setDesire c frs s) := by
  induction frs generalizing s with
  | nil => exact EStep.refl s
  | cons k ks ih =>
    simp only [setDesire, List.foldl_cons]
    exact (estep_modFr k _ s).trans (by simpa [setDesire] using ih (s.modFr k (fun x => { x with desire := c })))

theorem estep_runAct (sem : Sem W) (ctx : Ctx) (f : Fid) (a : Act) (s : St W) : EStep s (runAct sem ctx f a s).1 := by
  cases a with
  | world aid => exact ⟨rfl, rfl, fun h => h⟩
  | done frs => exact estep_setDone frs s
  | bid c frs => exact estep_setDesire c frs s

theorem estep_runActs (sem : Sem W) (ctx : Ctx) (f : Fid) (acts : List Act) (s : St W) :
    EStep s (runActs sem ctx f acts s) := by
  induction acts generalizing s with
  | nil => exact EStep.refl s
  | cons a as ih =>
    simp only [runActs, List.foldl_cons]
    exact (estep_runAct sem ctx f a s).trans (by simpa [runActs] using ih (runAct sem ctx f a s).1)

theorem estep_claim (P : Prog) (aux : Frid) (m : Fid) (s : St W) : EStep s (claim P aux m s) := by
  unfold claim; split
  · exact estep_modFr _ _ s
  · exact EStep.refl s

theorem estep_release (P : Prog) (aux : Frid) (s : St W) : EStep s (release P aux s) := by
  unfold release; split
  · exact estep_modFr _ _ s
  · exact EStep.refl s

theorem estep_activate (P : Prog) (i : Frid) (a : Fid) (s : St W) : EStep s (activate P i a s) := ⟨rfl, rfl, id⟩
theorem estep_deactivate (i : Frid) (s : St W) : EStep s (deactivate i s) := ⟨rfl, rfl, id⟩
theorem estep_truncate (P : Prog) (i : Frid) (m : Fid) (s : St W) : EStep s (truncate P i m s) := ⟨rfl, rfl, id⟩
theorem estep_restartClocks (i : Frid) (s : St W) : EStep s (restartClocks i s) := ⟨rfl, rfl, id⟩
theorem estep_updateClocks (i : Frid) (s : St W) : EStep s (updateClocks i s) := ⟨rfl, rfl, id⟩

theorem estep_rexit (P : Prog) (sem : Sem W) (l : List Fid) (s : St W) : EStep s (rexit P sem l s) := by
  unfold rexit
  generalize l.reverse = r
  induction r generalizing s with
  | nil => exact EStep.refl s
  | cons g gs ih =>
    simp only [List.foldl_cons]
    exact ((estep_emit _ s).trans (estep_runActs sem .rexit g _ _)).trans (ih _)

theorem estep_renter (P : Prog) (sem : Sem W) (l : List Fid) (s : St W) : EStep s (renter P sem l s) := by
  unfold renter
  induction l generalizing s with
  | nil => exact EStep.refl s
  | cons g gs ih =>
    simp only [List.foldl_cons]
    exact ((estep_emit _ s).trans (estep_runActs sem .renter g _ _)).trans (ih _)

/-! ### `EInv` only looks at `active` of the framer and `ent` of its frames -/

theorem EInv.congr {P : Prog} {i : Frid} {s s' : St W} (h : EInv P i s)
    (ha : (s'.fr i).active = (s.fr i).active)
    (he : ∀ f, (P.frame f).framer = i → s'.ent f = s.ent f) : EInv P i s' := by
  intro f hf
  rw [he f hf, ha]
  exact h f hf

/-! ### what is assumed of the entry points of the level below (ghost map) -/

structure OpOKE (P : Prog) (pre : Frid → St W → Prop) (op : Frid → St W → Except Err (St W)) : Prop where
  emod : ∀ y s s', Owned P s → pre y s → op y s = .ok s' → EMod P (Reach P y) s s'
  einv : ∀ y s s', Owned P s → pre y s → op y s = .ok s' → s'.bad2 = false → s.dbl = false → EInvR P y s →
    EInvR P y s' ∧ s'.dbl = false

structure LoSpecE (P : Prog) (lo : Ops W) : Prop where
  enterAll : OpOKE P (Claimed P) lo.enterAll
  exitAll : OpOKE P NoPre lo.exitAll
  recur : OpOKE P NoPre lo.recur
  segue : OpOKE P NoPre lo.segue

/-- a part of an operation on framer `i` that enters / exits no frame of `i` and keeps `i`'s active frame -/
structure EQ (P : Prog) (i : Frid) (s s' : St W) : Prop where
  emod : EMod P (Desc P i) s s'
  below : s'.bad2 = false → s.dbl = false → EBelow P i s → EBelow P i s' ∧ s'.dbl = false
  act : (s'.fr i).active = (s.fr i).active

theorem EQ.refl (P : Prog) (i : Frid) (s : St W) : EQ P i s s :=
  ⟨EMod.refl _ _ _, fun _ hd hb => ⟨hb, hd⟩, rfl⟩

theorem EQ.trans {P : Prog} {i : Frid} {a b c : St W} (h1 : EQ P i a b) (h2 : EQ P i b c) : EQ P i a c :=
  ⟨h1.emod.trans h2.emod,
   fun hb hd hbl =>
     have r1 := h1.below (h2.emod.bad2_false hb) hd hbl
     h2.below hb r1.2 r1.1,
   h2.act.trans h1.act⟩

section walk
variable {P : Prog} {rank : Frid → Nat} (wf : WF P rank)
include wf

theorem desc_ne {i j : Frid} (h : Desc P i j) : j ≠ i := by
  obtain ⟨y, hy, hr⟩ := h
  intro e; subst e
  exact not_reach_parent wf hy hr

/-- a ghost-neutral step that keeps the framers below `i` and `i`'s active frame -/
theorem EQ.of_estep {i : Frid} {s s' : St W} (h : EStep s s') (hst : Step P i s s')
    (ha : (s'.fr i).active = (s.fr i).active) : EQ P i s s' := by
  refine ⟨h.emod P _, ?_, ha⟩
  intro _ hd hbl
  refine ⟨?_, by rw [h.dbl]; exact hd⟩
  intro y hy j hj
  have hji : j ≠ i := desc_ne wf ⟨y, hy, hj⟩
  exact (hbl y hy j hj).congr (hst.active j hji) (fun f _ => by rw [h.ent])

variable {lo : Ops W} (hlo : LoSpec P lo) (hle : LoSpecE P lo)
include hlo hle

omit hlo hle in
/-- an entry point of the level below, called on a kid `y` of `i` -/
theorem lo_eq {pre : Frid → St W → Prop} {op : Frid → St W → Except Err (St W)} (hop : OpOK P pre op)
    (hope : OpOKE P pre op) {i y : Frid}
    (hy : Child P i y) {s s' : St W} (ho : Owned P s) (hpre : pre y s) (h : op y s = .ok s') : EQ P i s s' := by
  have hm := hop.mod y s s' ho hpre h
  have he := hope.emod y s s' ho hpre h
  refine ⟨he.mono (fun j hj => ⟨y, hy, hj⟩), ?_, core_active (hm.same i (not_reach_parent wf hy))⟩
  intro hb hd hbl
  have r := hope.einv y s s' ho hpre h hb hd (hbl y hy)
  refine ⟨?_, r.2⟩
  intro y' hy' j hj
  by_cases e : y' = y
  · subst e; exact r.1 j hj
  · have hnj : ¬ Reach P y j := siblings_disjoint wf hy' hy e hj
    exact (hbl y' hy' j hj).congr (core_active (hm.same j hnj))
      (fun f hf => he.ent f (by rw [hf]; exact hnj))

/-- `EQ` together with ownership, for loops -/
def EQO (P : Prog) (i : Frid) (s s' : St W) : Prop := Owned P s → EQ P i s s' ∧ Owned P s'

omit wf hlo hle in
theorem EQO.refl (i : Frid) (s : St W) : EQO P i s s := fun ho => ⟨EQ.refl _ _ _, ho⟩
omit wf hlo hle in
theorem EQO.trans {i : Frid} {a b c : St W} (h1 : EQO P i a b) (h2 : EQO P i b c) : EQO P i a c := fun ho =>
  have r1 := h1 ho
  have r2 := h2 r1.2
  ⟨r1.1.trans r2.1, r2.2⟩

omit hlo hle in
theorem EQO.of_step {i : Frid} {s s' : St W} (hE : EStep s s') (hS : Step P i s s' ∧ Keep i s s') : EQO P i s s' :=
  fun ho => ⟨EQ.of_estep wf hE hS.1 hS.2.1, owned_of_step hS.1 hS.2 ho⟩

omit hlo hle in
theorem EQO.ofLo {pre : Frid → St W → Prop} {op : Frid → St W → Except Err (St W)} (hop : OpOK P pre op)
    (hope : OpOKE P pre op) {i y : Frid}
    (hy : Child P i y) {s s' : St W} (hpre : pre y s) (h : op y s = .ok s') : EQO P i s s' :=
  fun ho => ⟨lo_eq wf hop hope hy ho hpre h, hop.owned y s s' ho hpre h⟩

omit hlo hle in
/-- entering / exiting a frame of `i` does not disturb the invariant below `i` -/
theorem ebelow_of_note {i : Frid} {s s1 : St W} (hfr : ∀ j, s1.fr j = s.fr j)
    (hent : ∀ g, (P.frame g).framer ≠ i → s1.ent g = s.ent g) (h : EBelow P i s) : EBelow P i s1 := by
  intro y hy j hj
  have hji : j ≠ i := desc_ne wf ⟨y, hy, hj⟩
  exact (h y hy j hj).congr (by rw [hfr]) (fun g hg => hent g (by rw [hg]; exact hji))

variable {sem : Sem W}

/-- what `Frame.enter` / `Frame.exit` of a frame `f` of framer `i` do to the ghost state (`v` = the new value of
`ent f`): the common shape of `frameEnter_e` and `frameExit_e` -/
structure Own (P : Prog) (f : Fid) (v : Bool) (s s' : St W) : Prop where
  owned : Owned P s'
  act : (s'.fr (P.frame f).framer).active = (s.fr (P.frame f).framer).active
  entf : s'.ent f = v
  others : ∀ g, g ≠ f → ¬ Desc P (P.frame f).framer (P.frame g).framer → s'.ent g = s.ent g
  flags : s.bad2 = true → s'.bad2 = true
  dblUp : s.dbl = true → s'.dbl = true
  below : s'.bad2 = false → s.dbl = false → s.ent f = !v → EBelow P (P.frame f).framer s →
    EBelow P (P.frame f).framer s' ∧ s'.dbl = false

omit hlo hle in
/-- from the state right after the `noteEnter` / `noteExit` of `f` on, only quiet parts follow -/
theorem own_of_note {f : Fid} {v : Bool} {s s1 s' : St W} (ho1 : Owned P s1)
    (hfr : ∀ j, s1.fr j = s.fr j) (hentf : s1.ent f = v) (hento : ∀ g, g ≠ f → s1.ent g = s.ent g)
    (hbad : s1.bad2 = s.bad2) (hdbl : s1.dbl = (s.dbl || (s.ent f == v)))
    (hq : EQO P (P.frame f).framer s1 s') : Own P f v s s' := by
  have r := hq ho1
  have hfi : ¬ Desc P (P.frame f).framer (P.frame f).framer := fun h => desc_ne wf h rfl
  refine ⟨r.2, ?_, ?_, ?_, ?_, ?_, ?_⟩
  · rw [r.1.act, hfr]
  · rw [r.1.emod.ent f hfi]; exact hentf
  · intro g hg hd; rw [r.1.emod.ent g hd]; exact hento g hg
  · intro h; exact r.1.emod.flags (by rw [hbad]; exact h)
  · intro h; exact r.1.emod.dblUp (by rw [hdbl, h]; rfl)
  · intro hb hd hef hbl
    have hd1 : s1.dbl = false := by
      rw [hdbl, hd, hef]; cases v <;> rfl
    have hbl1 : EBelow P (P.frame f).framer s1 :=
      ebelow_of_note wf hfr (fun g hg => hento g (fun e => hg (by rw [e]))) hbl
    exact r.1.below hb hd1 hbl1

theorem frameEnter_e {f : Fid} {s s' : St W} (ho : Owned P s) (h : frameEnter P sem lo f s = .ok s') :
    Own P f true s s' := by
  unfold frameEnter at h
  have ho1 : Owned P (noteEnter f s) := owned_of_step (step_noteEnter P (P.frame f).framer f s) (Keep.refl _ _) ho
  refine own_of_note wf ho1 (fun _ => rfl) (by simp [noteEnter, St.emit]) ?_ rfl ?_ ?_
  · intro g hg; simp [noteEnter, St.emit, hg]
  · simp [noteEnter, St.emit]
  · refine EQO.trans (EQO.of_step wf (estep_runActs sem .enter f _ _)
      (runActs_step P sem .enter f _ _ (wf.doneEn f) _)) ?_
    refine forEach_rel (R := EQO P (P.frame f).framer) (EQO.refl _) (fun _ _ _ => EQO.trans) _ _ ?_ _ _ h
    intro y hy t t' ht
    have hc := plain_child (P := P) hy
    have hk : y ∈ kids P f := List.mem_append_left _ hy
    exact EQO.trans (EQO.of_step wf (estep_claim P y f t) (claim_step wf hk t))
      (EQO.ofLo wf hlo.enterAll hle.enterAll hc (claim_claimed wf hk t) ht)

theorem deactivateAux_eqo {i y : Frid} (hy : Child P i y) {s s' : St W} (h : deactivateAux P lo y s = .ok s') :
    EQO P i s s' := by
  unfold deactivateAux at h
  cases h1 : lo.exitAll y s with
  | error e => simp [h1] at h
  | ok s1 =>
    simp only [h1, Except.ok.injEq] at h
    subst h
    exact EQO.trans (EQO.ofLo wf hlo.exitAll hle.exitAll hy trivial h1)
      (EQO.of_step wf (estep_release P y s1) (release_step wf hy s1 (hlo.exit_done y s s1 h1)))

theorem deactivize_eqo {i y : Frid} (hy : Child P i y) {f : Fid} {s s' : St W}
    (h : deactivize P lo f y s = .ok s') : EQO P i s s' := by
  unfold deactivize at h
  split at h
  · simp only [Except.ok.injEq] at h; subst h; exact EQO.refl _ _
  · exact deactivateAux_eqo wf hlo hle hy h

theorem frameExit_e {f : Fid} {s s' : St W} (ho : Owned P s) (h : frameExit P sem lo f s = .ok s') :
    Own P f false s s' := by
  unfold frameExit at h
  cases h1 : forEach (deactivateAux P lo) (P.frame f).auxes (noteExit f s) with
  | error e => simp [h1] at h
  | ok s1 =>
    simp only [h1] at h
    have ho1 : Owned P (noteExit f s) := owned_of_step (step_noteExit P (P.frame f).framer f s) (Keep.refl _ _) ho
    refine own_of_note wf ho1 (fun _ => rfl) (by simp [noteExit, St.emit]) ?_ rfl ?_ ?_
    · intro g hg; simp [noteExit, St.emit, hg]
    · simp [noteExit, St.emit]
    · have q1 : EQO P (P.frame f).framer (noteExit f s) s1 := by
        refine forEach_rel (R := EQO P (P.frame f).framer) (EQO.refl _) (fun _ _ _ => EQO.trans) _ _ ?_ _ _ h1
        intro y hy t t' ht
        exact deactivateAux_eqo wf hlo hle (plain_child hy) ht
      have q2 : EQO P (P.frame f).framer s1 (runActs sem .exit f (P.frame f).exacts s1) :=
        EQO.of_step wf (estep_runActs sem .exit f _ _) (runActs_step P sem .exit f _ _ (wf.doneEx f) _)
      refine EQO.trans (EQO.trans q1 q2) ?_
      refine forEach_rel (R := EQO P (P.frame f).framer) (EQO.refl _) (fun _ _ _ => EQO.trans) _ _ ?_ _ _ h
      intro y hy t t' ht
      exact deactivize_eqo wf hlo hle (susp_condkid (P := P) hy).child ht

/-- a list of frames of framer `i`, entered (`v = true`) or exited (`v = false`) one after the other -/
structure OwnL (P : Prog) (i : Frid) (l : List Fid) (v : Bool) (s s' : St W) : Prop where
  owned : Owned P s'
  act : (s'.fr i).active = (s.fr i).active
  entl : l.Nodup → ∀ f, f ∈ l → s'.ent f = v
  others : ∀ g, g ∉ l → ¬ Desc P i (P.frame g).framer → s'.ent g = s.ent g
  flags : s.bad2 = true → s'.bad2 = true
  dblUp : s.dbl = true → s'.dbl = true
  below : l.Nodup → s'.bad2 = false → s.dbl = false → (∀ f, f ∈ l → s.ent f = !v) → EBelow P i s →
    EBelow P i s' ∧ s'.dbl = false

omit hlo hle in
theorem own_list {i : Frid} {v : Bool} (g : Fid → St W → Except Err (St W))
    (hg : ∀ f s s', Owned P s → g f s = .ok s' → Own P f v s s') :
    ∀ (l : List Fid), (∀ f, f ∈ l → (P.frame f).framer = i) →
      ∀ s s', Owned P s → forEach g l s = .ok s' → OwnL P i l v s s' := by
  intro l
  induction l with
  | nil =>
    intro _ s s' ho h
    simp only [forEach, Except.ok.injEq] at h; subst h
    exact ⟨ho, rfl, fun _ _ hf => by simp at hf, fun _ _ _ => rfl, fun hq => hq, fun hq => hq,
      fun _ _ hd _ hb => ⟨hb, hd⟩⟩
  | cons f fs ih =>
    intro hown s s' ho h
    simp only [forEach] at h
    cases h1 : g f s with
    | error e => simp [h1] at h
    | ok s1 =>
      simp only [h1] at h
      have hf : (P.frame f).framer = i := hown f (by simp)
      have o1' := hg f s s1 ho h1
      have o1act : (s1.fr i).active = (s.fr i).active := hf ▸ o1'.act
      have o1others : ∀ g, g ≠ f → ¬ Desc P i (P.frame g).framer → s1.ent g = s.ent g := hf ▸ o1'.others
      have o1below : s1.bad2 = false → s.dbl = false → s.ent f = !v → EBelow P i s → EBelow P i s1 ∧ s1.dbl = false :=
        hf ▸ o1'.below
      have o1 := o1'
      have o2 := ih (fun x hx => hown x (by simp [hx])) s1 s' o1.owned h
      have hfi : ¬ Desc P i (P.frame f).framer := fun hd => desc_ne wf hd hf
      refine ⟨o2.owned, o2.act.trans o1act, ?_, ?_, fun hq => o2.flags (o1.flags hq),
        fun hq => o2.dblUp (o1.dblUp hq), ?_⟩
      · intro hnd x hx
        have hnd' := (List.nodup_cons.1 hnd)
        rcases List.mem_cons.1 hx with e | hx'
        · subst e; rw [o2.others x hnd'.1 hfi]; exact o1.entf
        · exact o2.entl hnd'.2 x hx'
      · intro x hx hd
        have hxf : x ≠ f := fun e => hx (by simp [e])
        have hxs : x ∉ fs := fun hh => hx (by simp [hh])
        rw [o2.others x hxs hd, o1others x hxf hd]
      · intro hnd hb hd hent hbl
        have hnd' := (List.nodup_cons.1 hnd)
        have hb1 : s1.bad2 = false := by
          cases hq : s1.bad2 with
          | false => rfl
          | true => rw [o2.flags hq] at hb; cases hb
        have r1 := o1below hb1 hd (hent f (by simp)) hbl
        apply o2.below hnd'.2 hb r1.2 _ r1.1
        intro x hx
        have hxf : x ≠ f := fun e => hnd'.1 (e ▸ hx)
        have hxi : ¬ Desc P i (P.frame x).framer := fun hd' => desc_ne wf hd' (hown x (by simp [hx]))
        rw [o1others x hxf hxi]; exact hent x (by simp [hx])

theorem enter_e {i : Frid} {l : List Fid} (hown : ∀ f, f ∈ l → (P.frame f).framer = i)
    {s s' : St W} (ho : Owned P s) (h : enter P sem lo i l s = .ok s') : OwnL P i l true s s' := by
  unfold enter at h
  obtain ⟨s0, hs0⟩ : ∃ x, x = (if l.isEmpty then s else restartClocks i s) := ⟨_, rfl⟩
  rw [← hs0] at h
  have q0 : EStep s s0 ∧ Step P i s s0 ∧ Keep i s s0 := by
    rw [hs0]; split
    · exact ⟨EStep.refl _, Step.refl _ _ _, Keep.refl _ _⟩
    · exact ⟨estep_restartClocks i s, (restartClocks_step (P := P) i s).1, (restartClocks_step (P := P) i s).2⟩
  have ho0 : Owned P s0 := owned_of_step q0.2.1 q0.2.2 ho
  have o := own_list wf (v := true) (frameEnter P sem lo) (fun f t t' hot ht => frameEnter_e wf hlo hle hot ht)
    l hown s0 s' ho0 h
  have hfr : (s0.fr i).active = (s.fr i).active := q0.2.2.1
  refine ⟨o.owned, o.act.trans hfr, o.entl, ?_, fun hq => o.flags (q0.1.flags hq),
    fun hq => o.dblUp (by rw [q0.1.dbl]; exact hq), ?_⟩
  · intro g hg hd; rw [o.others g hg hd, q0.1.ent]
  · intro hnd hb hd hent hbl
    have e0 := (EQ.of_estep wf q0.1 q0.2.1 hfr)
    have hb0 : s0.bad2 = false := by
      cases hq : s0.bad2 with
      | false => rfl
      | true => rw [o.flags hq] at hb; cases hb
    have r0 := e0.below hb0 hd hbl
    exact o.below hnd hb r0.2 (fun f hf => by rw [q0.1.ent]; exact hent f hf) r0.1

theorem exit_e {i : Frid} {l : List Fid} (hown : ∀ f, f ∈ l → (P.frame f).framer = i)
    {s s' : St W} (ho : Owned P s) (h : exit P sem lo l s = .ok s') : OwnL P i l false s s' := by
  unfold exit at h
  have o := own_list wf (v := false) (frameExit P sem lo) (fun f t t' hot ht => frameExit_e wf hlo hle hot ht)
    l.reverse (fun f hf => hown f (List.mem_reverse.1 hf)) s s' ho h
  exact ⟨o.owned, o.act, fun hnd f hf => o.entl ((List.reverse_perm l).nodup_iff.2 hnd) f (List.mem_reverse.2 hf),
    fun g hg hd => o.others g (fun hh => hg (List.mem_reverse.1 hh)) hd, o.flags, o.dblUp,
    fun hnd hb hd hent hbl => o.below ((List.reverse_perm l).nodup_iff.2 hnd) hb hd
      (fun f hf => hent f (List.mem_reverse.1 hf)) hbl⟩

omit wf hlo hle in
theorem not_desc_of_not_reach {i j : Frid} (h : ¬ Reach P i j) : ¬ Desc P i j :=
  fun ⟨_, hy, hr⟩ => h (Reach.step hy hr)

omit wf hlo hle in
theorem einvR_iff (i : Frid) (s : St W) : EInvR P i s ↔ EInv P i s ∧ EBelow P i s := by
  constructor
  · intro h
    exact ⟨h i (Reach.refl i), fun y hy j hj => h j (Reach.step hy hj)⟩
  · intro ⟨h1, h2⟩ j hj
    cases hj with
    | refl => exact h1
    | step hc hr => exact h2 _ hc j hr

variable (wfe : WFE P)
include wfe

/-- `Framer.enterAll` and the ghost map -/
theorem enterAll_e {i : Frid} {s s' : St W} (ho : Owned P s) (hcl : Claimed P i s)
    (h : enterAll P sem lo i s = .ok s') :
    EMod P (Reach P i) s s' ∧
    (s'.bad2 = false → s.dbl = false → EInvR P i s → EInvR P i s' ∧ s'.dbl = false) := by
  have hspec := enterAll_spec wf hlo ho hcl h
  unfold enterAll at h
  obtain ⟨s2, hs2⟩ : ∃ x, x = activate P i (P.framer i).first
      ((markReenter (s.fr i).active.isSome s).modFr i (fun x => { x with done := false })) := ⟨_, rfl⟩
  replace h : enter P sem lo i (s2.fr i).actives s2 = .ok s' := by subst hs2; exact h
  have e2 : EStep s s2 := by
    rw [hs2]
    exact ((estep_markReenter _ s).trans (estep_modFr i _ _)).trans (estep_activate P i _ _)
  have st2 : Step P i s s2 := by
    rw [hs2]; unfold activate
    exact ((step_markReenter P i _ s).trans (step_undone P i _ hcl)).trans
      ((step_modFr P i _ _).trans (step_emit P i _ _))
  have hact2 : (s2.fr i).active = some (P.framer i).first ∧
      (s2.fr i).actives = (P.frame (P.framer i).first).outline := by
    rw [hs2]; simp [activate]
  have hfirst : ∀ f, f ∈ (P.frame (P.framer i).first).outline → (P.frame f).framer = i := by
    intro f hf; rw [wf.outlineOwn _ f hf, wf.firstOwn i]
  have ho2 : Owned P s2 := by
    constructor
    · intro j f hf
      by_cases e : j = i
      · subst e; rw [hact2.2] at hf; exact hfirst f hf
      · rw [st2.actives j e] at hf; exact ho.actives j f hf
    · intro j a ha
      by_cases e : j = i
      · subst e; rw [hact2.1] at ha; cases ha; exact wf.firstOwn j
      · rw [st2.active j e] at ha; exact ho.active j a ha
    · exact st2.mainI ho.main
  have o := enter_e wf hlo hle (l := (s2.fr i).actives) (by rw [hact2.2]; exact hfirst) ho2 h
  rw [hact2.2] at o
  have hnd := wfe.outlineNodup (P.framer i).first
  constructor
  · refine ⟨?_, fun hq => o.flags (e2.flags hq), fun hq => o.dblUp (by rw [e2.dbl]; exact hq)⟩
    intro f hf
    have hfl : f ∉ (P.frame (P.framer i).first).outline := fun hm => hf (by rw [hfirst f hm]; exact Reach.refl i)
    rw [o.others f hfl (not_desc_of_not_reach hf), e2.ent]
  · intro hb hd hinv
    rw [einvR_iff] at hinv ⊢
    have hb2 : s2.bad2 = false := by
      cases hq : s2.bad2 with
      | false => rfl
      | true => rw [o.flags hq] at hb; cases hb
    -- the framer was inactive: otherwise the re-entry flag is up
    have hnone : (s.fr i).active = none := by
      cases ha : (s.fr i).active with
      | none => rfl
      | some a =>
        exfalso
        have : (markReenter (s.fr i).active.isSome s).bad2 = true := by
          simp only [St.bad2, markReenter, ha, Option.isSome_some]
          cases s.left <;> simp
        have h2 : s2.bad2 = true := by
          rw [hs2]
          exact ((estep_modFr i _ _).trans (estep_activate P i _ _)).flags this
        rw [h2] at hb2; cases hb2
    have hentfalse : ∀ f, (P.frame f).framer = i → s.ent f = false := by
      intro f hf
      cases hq : s.ent f with
      | false => rfl
      | true =>
        obtain ⟨a, ha, _⟩ := (hinv.1 f hf).1 hq
        rw [hnone] at ha; cases ha
    have hbl2 : EBelow P i s2 := by
      intro y hy j hj
      have hji : j ≠ i := desc_ne wf ⟨y, hy, hj⟩
      exact (hinv.2 y hy j hj).congr (st2.active j hji) (fun f _ => by rw [e2.ent])
    have r := o.below hnd hb (by rw [e2.dbl]; exact hd)
      (fun f hf => by rw [e2.ent]; simpa using hentfalse f (hfirst f hf)) hbl2
    refine ⟨⟨?_, r.1⟩, r.2⟩
    intro f hf
    have ha' : (s'.fr i).active = some (P.framer i).first := hspec.2.2.2
    rw [ha']
    constructor
    · intro he
      refine ⟨_, rfl, ?_⟩
      apply Classical.byContradiction
      intro hnm
      have hfi : ¬ Desc P i (P.frame f).framer := fun hd' => desc_ne wf hd' hf
      rw [o.others f hnm hfi, e2.ent, hentfalse f hf] at he
      cases he
    · intro ⟨a, ha, hm⟩
      cases ha
      exact o.entl hnd f hm

omit wf hlo hle wfe in
theorem truncated_false {i : Frid} {s : St W} (h : truncated P i s = false) :
    ((s.fr i).active = none ∧ (s.fr i).actives = []) ∨
    ∃ a, (s.fr i).active = some a ∧ (s.fr i).actives = (P.frame a).outline := by
  unfold truncated at h
  cases ha : (s.fr i).active with
  | none =>
    rw [ha] at h
    left; exact ⟨rfl, by simpa using h⟩
  | some a =>
    rw [ha] at h
    right; exact ⟨a, rfl, by simpa using h⟩

/-- `Framer.exitAll` and the ghost map -/
theorem exitAll_e {i : Frid} {abort : Bool} {s s' : St W} (ho : Owned P s)
    (h : exitAll P sem lo abort i s = .ok s') :
    EMod P (Reach P i) s s' ∧
    (s'.bad2 = false → s.dbl = false → EInvR P i s → EInvR P i s' ∧ s'.dbl = false) := by
  have hspec := exitAll_spec wf hlo ho h
  unfold exitAll at h
  obtain ⟨s0, hs0⟩ : ∃ x, x = markLeft (truncated P i s) s := ⟨_, rfl⟩
  rw [← hs0] at h
  have e0 : EStep s s0 := hs0 ▸ estep_markLeft _ s
  have hfr0 : ∀ j, s0.fr j = s.fr j := fun j => by rw [hs0]; rfl
  have ho0 : Owned P s0 := ⟨fun j f hf => ho.actives j f (by rw [← hfr0]; exact hf),
    fun j a ha => ho.active j a (by rw [← hfr0]; exact ha), hs0 ▸ ho.main⟩
  cases h1 : exit P sem lo (s.fr i).actives s0 with
  | error e => simp [h1] at h
  | ok s1 =>
    simp only [h1, Except.ok.injEq] at h
    have hown : ∀ f, f ∈ (s.fr i).actives → (P.frame f).framer = i := fun f hf => ho.actives i f hf
    have o := exit_e wf hlo hle hown ho0 h1
    have e13 : EStep s1 s' := by
      rw [← h]; split
      · exact estep_deactivate i s1
      · exact (estep_deactivate i s1).trans (estep_modFr i _ _)
    constructor
    · refine ⟨?_, fun hq => e13.flags (o.flags (e0.flags hq)),
        fun hq => by rw [e13.dbl]; exact o.dblUp (by rw [e0.dbl]; exact hq)⟩
      intro f hf
      have hfl : f ∉ (s.fr i).actives := fun hm => hf (by rw [hown f hm]; exact Reach.refl i)
      rw [e13.ent, o.others f hfl (not_desc_of_not_reach hf), e0.ent]
    · intro hb hd hinv
      rw [einvR_iff] at hinv ⊢
      have hb1 : s1.bad2 = false := by
        cases hq : s1.bad2 with
        | false => rfl
        | true => rw [e13.flags hq] at hb; cases hb
      have hb0 : s0.bad2 = false := by
        cases hq : s0.bad2 with
        | false => rfl
        | true => rw [o.flags hq] at hb1; cases hb1
      have htr : truncated P i s = false := by
        cases hq : truncated P i s with
        | false => rfl
        | true =>
          exfalso
          have : s0.bad2 = true := by
            rw [hs0]; simp only [St.bad2, markLeft, hq]; simp
          rw [this] at hb0; cases hb0
      have hbl0 : EBelow P i s0 := ebelow_of_note wf hfr0 (fun g _ => by rw [e0.ent]) hinv.2
      have hact' : (s'.fr i).active = none := hspec.2.2.2.1
      -- the exited frames are exactly the entered frames of `i`
      have hall : ∀ f, f ∈ (s.fr i).actives → s0.ent f = !false := by
        intro f hf
        rw [e0.ent]
        rcases truncated_false htr with ⟨_, hnil⟩ | ⟨a, ha, hl⟩
        · rw [hnil] at hf; cases hf
        · simpa using (hinv.1 f (hown f hf)).2 ⟨a, ha, hl ▸ hf⟩
      have hnd : (s.fr i).actives.Nodup := by
        rcases truncated_false htr with ⟨_, hnil⟩ | ⟨a, _, hl⟩
        · rw [hnil]; exact List.nodup_nil
        · rw [hl]; exact wfe.outlineNodup a
      have r := o.below hnd hb1 (by rw [e0.dbl]; exact hd) hall hbl0
      have hbl' : EBelow P i s' := by
        intro y hy j hj
        have hji : j ≠ i := desc_ne wf ⟨y, hy, hj⟩
        have hstep : (s'.fr j).active = (s1.fr j).active := by
          rw [← h]; split <;> simp [deactivate, hji]
        exact (r.1 y hy j hj).congr hstep (fun f _ => by rw [e13.ent])
      refine ⟨⟨?_, hbl'⟩, by rw [e13.dbl]; exact r.2⟩
      intro f hf
      rw [hact']
      constructor
      · intro he
        exfalso
        rw [e13.ent] at he
        by_cases hm : f ∈ (s.fr i).actives
        · rw [o.entl hnd f hm] at he; cases he
        · have hfi : ¬ Desc P i (P.frame f).framer := fun hd' => desc_ne wf hd' hf
          rw [o.others f hm hfi, e0.ent] at he
          obtain ⟨a, ha, hma⟩ := (hinv.1 f hf).1 he
          rcases truncated_false htr with ⟨hn, _⟩ | ⟨a', ha', hl⟩
          · rw [hn] at ha; cases ha
          · rw [ha'] at ha; cases ha; exact hm (hl ▸ hma)
      · intro ⟨a, ha, _⟩; cases ha

/-! #### recur, segue -/

/-- a part of an operation of framer `i`, as seen by the bracket invariant of `i` and everything below -/
def EP (P : Prog) (i : Frid) (s s' : St W) : Prop :=
  Owned P s → EMod P (Reach P i) s s' ∧ Owned P s' ∧
    (s'.bad2 = false → s.dbl = false → EInvR P i s → EInvR P i s' ∧ s'.dbl = false)

omit wf hlo hle wfe in
theorem EP.refl (i : Frid) (s : St W) : EP P i s s := fun ho => ⟨EMod.refl _ _ _, ho, fun _ hd h => ⟨h, hd⟩⟩

omit wf hlo hle wfe in
theorem EP.trans {i : Frid} {a b c : St W} (h1 : EP P i a b) (h2 : EP P i b c) : EP P i a c := by
  intro ho
  have r1 := h1 ho
  have r2 := h2 r1.2.1
  refine ⟨r1.1.trans r2.1, r2.2.1, ?_⟩
  intro hb hd hinv
  have q1 := r1.2.2 (r2.1.bad2_false hb) hd hinv
  exact r2.2.2 hb q1.2 q1.1

omit hlo hle wfe in
theorem EP.of_eqo {i : Frid} {s s' : St W} (h : EQO P i s s') : EP P i s s' := by
  intro ho
  have r := h ho
  refine ⟨r.1.emod.mono (fun j ⟨y, hy, hr⟩ => Reach.step hy hr), r.2, ?_⟩
  intro hb hd hinv
  rw [einvR_iff] at hinv ⊢
  have q := r.1.below hb hd hinv.2
  refine ⟨⟨?_, q.1⟩, q.2⟩
  exact hinv.1.congr r.1.act (fun f hf => r.1.emod.ent f (fun hd' => desc_ne wf hd' hf))

omit wfe in
theorem frameRecur_eqo {f : Fid} {s s' : St W} (h : frameRecur P sem lo f s = .ok s') :
    EQO P (P.frame f).framer s s' := by
  unfold frameRecur at h
  refine EQO.trans (b := s.emit (.recur f)) (EQO.of_step wf (estep_emit _ s) ⟨step_emit P _ _ s, Keep.refl _ _⟩) ?_
  refine EQO.trans (EQO.of_step wf (estep_runActs sem .recur f _ _)
    (runActs_step P sem .recur f _ _ (wf.doneRe f) _)) ?_
  refine forEach_rel (R := EQO P (P.frame f).framer) (EQO.refl _) (fun _ _ _ => EQO.trans) _ _ ?_ _ _ h
  intro y hy t t' ht
  exact EQO.ofLo wf hlo.recur hle.recur (plain_child hy) trivial ht

omit wf hlo hle wfe in
theorem frames_eqo {i : Frid} (g : Fid → St W → Except Err (St W))
    (hg : ∀ f s s', g f s = .ok s' → EQO P (P.frame f).framer s s') :
    ∀ (l : List Fid) (s s' : St W), (Owned P s → ∀ f, f ∈ l → (P.frame f).framer = i) →
      forEach g l s = .ok s' → EQO P i s s' := by
  intro l s s' hown h ho
  have hown' := hown ho
  have : EQO P i s s' := by
    refine forEach_rel (R := EQO P i) (EQO.refl _) (fun _ _ _ => EQO.trans) _ _ ?_ _ _ h
    intro f hf t t' ht
    have := hg f t t' ht
    rw [hown' f hf] at this
    exact this
  exact this ho

omit wfe in
theorem recur_eqo {i : Frid} {s s' : St W} (h : recur P sem lo i s = .ok s') : EQO P i s s' := by
  unfold recur at h
  exact frames_eqo _ (fun f t t' ht => frameRecur_eqo wf hlo hle ht) _ s s' (fun ho f hf => ho.actives i f hf) h

omit wfe in
/-- the Suspender never enters or exits a frame of its own framer and keeps the active frame -/
theorem suspend_eqo {i : Frid} {f : Fid} (hf : (P.frame f).framer = i) {needs : List NeedId} {aux : Frid}
    {tracts : List Act} (hp : Preact.suspend needs aux tracts ∈ (P.frame f).preacts) {s s' : St W} {b : Bool}
    (h : suspend P sem lo i f needs aux tracts s = .ok (b, s')) : EQO P i s s' := by
  have c : Clause P i f aux := ⟨hf, susp_mem hp⟩
  have hch := c.kid.child
  have hk : aux ∈ kids P f := List.mem_append_right _ c.susp
  have tr := wf.donePre f _ hp
  simp only [PreactDoneOnly, hf] at tr
  unfold suspend at h
  by_cases hpl : (P.frame f).auxes.contains aux = true
  · rw [if_pos hpl] at h
    simp only [Except.ok.injEq, Prod.mk.injEq] at h
    rw [← h.2]; exact EQO.refl _ _
  rw [if_neg hpl] at h
  by_cases hd : (s.fr aux).done = true
  · simp only [hd, if_true] at h
    unfold suspendStart at h
    by_cases hn : needsHold sem needs s = true
    · simp only [hn, if_true] at h
      by_cases ho' : ownedElsewhere aux f s = true
      · simp only [ho', if_true, Except.ok.injEq, Prod.mk.injEq] at h; rw [← h.2]; exact EQO.refl _ _
      · simp only [ho', if_false, Bool.false_eq_true] at h
        cases hcs : lo.checkStart aux [] s with
        | error e => simp [hcs] at h
        | ok cs =>
          cases cs with
          | none => simp only [hcs, Except.ok.injEq, Prod.mk.injEq] at h; rw [← h.2]; exact EQO.refl _ _
          | some _ =>
            simp only [hcs] at h
            unfold suspendEnter at h
            obtain ⟨sb, hsb⟩ : ∃ x, x = claim P aux f (runActs sem .transit f tracts s) := ⟨_, rfl⟩
            rw [← hsb] at h
            simp only [] at h
            have qb : EQO P i s sb := by
              rw [hsb]
              exact EQO.trans (EQO.of_step wf (estep_runActs sem .transit f tracts s) (runActs_step P sem .transit f i tracts tr s))
                (EQO.of_step wf (estep_claim P aux f _) (hf ▸ claim_step wf hk _))
            cases h1 : lo.enterAll aux sb with
            | error e => simp [h1] at h
            | ok sc =>
              simp only [h1] at h
              cases h2 : lo.recur aux sc with
              | error e => simp [h2] at h
              | ok sd =>
                simp only [h2] at h
                have qd : EQO P i s sd :=
                  EQO.trans qb (EQO.trans (EQO.ofLo wf hlo.enterAll hle.enterAll hch (hsb ▸ claim_claimed wf hk _) h1)
                    (EQO.ofLo wf hlo.recur hle.recur hch trivial h2))
                by_cases hdd : (sd.fr aux).done = true
                · simp only [hdd, if_true] at h
                  cases h3 : deactivateAux P lo aux sd with
                  | error e => simp [h3] at h
                  | ok se =>
                    simp only [h3, Except.ok.injEq, Prod.mk.injEq] at h
                    rw [← h.2]
                    exact EQO.trans qd (deactivateAux_eqo wf hlo hle hch h3)
                · simp only [hdd, if_false, Except.ok.injEq, Prod.mk.injEq, Bool.false_eq_true] at h
                  rw [← h.2]
                  refine EQO.trans qd ?_
                  intro hod
                  have e1 : EStep sd (truncate P i f (markOverlap (otherRunning P i aux sd) sd)) :=
                    (estep_markOverlap _ sd).trans (estep_truncate P i f _)
                  have st1 : Step P i sd (truncate P i f (markOverlap (otherRunning P i aux sd) sd)) := by
                    unfold truncate
                    exact (step_markOverlap P i _ sd).trans ((step_modFr P i _ _).trans (step_emit P i _ _))
                  refine ⟨EQ.of_estep wf e1 st1 (by simp [truncate]), ?_⟩
                  apply owned_truncate
                  · exact ⟨fun j g hg => hod.actives j g hg, fun j a ha => hod.active j a ha, hod.main⟩
                  · intro g hg; rw [wf.headOwn f g hg, hf]
    · simp only [hn, if_false, Except.ok.injEq, Prod.mk.injEq, Bool.false_eq_true] at h
      rw [← h.2]; exact EQO.refl _ _
  · simp only [hd, if_false, Bool.false_eq_true] at h
    by_cases hno : notOwner P aux f s = true
    · simp only [hno, if_true, Except.ok.injEq, Prod.mk.injEq] at h; rw [← h.2]; exact EQO.refl _ _
    simp only [hno, if_false, Bool.false_eq_true] at h
    unfold suspendRun at h
    cases h1 : lo.segue aux s with
    | error e => simp [h1] at h
    | ok sa =>
      simp only [h1] at h
      cases h2 : lo.recur aux sa with
      | error e => simp [h2] at h
      | ok sb =>
        simp only [h2] at h
        have qb : EQO P i s sb :=
          EQO.trans (EQO.ofLo wf hlo.segue hle.segue hch trivial h1) (EQO.ofLo wf hlo.recur hle.recur hch trivial h2)
        by_cases hdd : (sb.fr aux).done = true
        · simp only [hdd, if_true] at h
          cases h3 : deactivateAux P lo aux sb with
          | error e => simp [h3] at h
          | ok sc =>
            simp only [h3] at h
            unfold reactivate at h
            cases ha : (sc.fr i).active with
            | none => simp [ha] at h
            | some a =>
              simp only [ha, Except.ok.injEq, Prod.mk.injEq] at h
              rw [← h.2]
              refine EQO.trans (EQO.trans qb (deactivateAux_eqo wf hlo hle hch h3)) ?_
              intro hoc
              have e1 : EStep sc ((sc.modFr i (fun x => { x with actives := (P.frame a).outline })).emit (.reactivate i)) :=
                (estep_modFr i _ sc).trans (estep_emit _ _)
              have st1 : Step P i sc ((sc.modFr i (fun x => { x with actives := (P.frame a).outline })).emit (.reactivate i)) :=
                (step_modFr P i _ sc).trans (step_emit P i _ _)
              refine ⟨EQ.of_estep wf e1 st1 (by simp), ?_⟩
              have hai := hoc.active i a ha
              constructor
              · intro j g hg
                by_cases e : j = i
                · subst e
                  simp only [fr_emit, fr_modFr, if_true] at hg
                  rw [wf.outlineOwn a g hg, hai]
                · simp only [fr_emit, fr_modFr, e, if_false] at hg
                  exact hoc.actives j g hg
              · intro j a' ha'
                by_cases e : j = i
                · subst e
                  simp only [fr_emit, fr_modFr, if_true] at ha'
                  exact hoc.active j a' ha'
                · simp only [fr_emit, fr_modFr, e, if_false] at ha'
                  exact hoc.active j a' ha'
              · exact st1.mainI hoc.main
        · simp only [hdd, if_false, Except.ok.injEq, Prod.mk.injEq, Bool.false_eq_true] at h
          rw [← h.2]; exact qb

/-- `Transiter.action` and the ghost map -/
theorem transit_ep {i : Frid} {f : Fid} (hf : (P.frame f).framer = i) {needs : List NeedId} {far : Fid}
    {tracts : List Act} (hp : Preact.transit needs far tracts ∈ (P.frame f).preacts) {s s' : St W} {b : Bool}
    (h : transit P sem lo i f needs far tracts s = .ok (b, s')) : EP P i s s' := by
  intro ho
  unfold transit at h
  split at h
  · simp only [Except.ok.injEq, Prod.mk.injEq] at h; rw [← h.2]; exact EP.refl _ _ ho
  · obtain ⟨nears, hnears⟩ : ∃ x, x = (s.fr i).actives := ⟨_, rfl⟩
    obtain ⟨r, hr⟩ : ∃ x, x = exEn far nears (P.frame far).outline := ⟨_, rfl⟩
    rw [← hnears, ← hr] at h
    simp only [] at h
    cases hc : checkEnter P sem lo r.2.1 r.1 s with
    | error e => simp [hc] at h
    | ok c =>
      cases c with
      | false => simp only [hc, Except.ok.injEq, Prod.mk.injEq] at h; rw [← h.2]; exact EP.refl _ _ ho
      | true =>
        simp only [hc] at h
        have hfar : (P.frame far).framer = i := by rw [wf.farOwn f needs far tracts hp, hf]
        have hexits : ∀ g, g ∈ r.1 → (P.frame g).framer = i := by
          intro g hg; rw [hr] at hg
          exact ho.actives i g (hnears ▸ Outline.exEn_exits_mem _ _ _ g hg)
        have hen : ∀ g, g ∈ r.2.1 → (P.frame g).framer = i := by
          intro g hg; rw [hr] at hg
          rw [wf.outlineOwn far g (Outline.exEn_enters_mem _ _ _ g hg), hfar]
        have hre : ∀ g, g ∈ r.2.2 → (P.frame g).framer = i := by
          intro g hg; rw [hr] at hg
          exact ho.actives i g (hnears ▸ Outline.exEn_reexens_mem _ _ _ g hg)
        have hne : r.2.1 ≠ [] := by
          intro e
          unfold checkEnter checkEnterC at hc
          simp [e] at hc
        obtain ⟨k, hk1, hk2, hk3, hk4⟩ := Outline.exEn_decomp far nears (P.frame far).outline (hr ▸ hne)
        rw [← hr] at hk1 hk2 hk3
        obtain ⟨sa, hsa⟩ : ∃ x, x = runActs sem .transit f tracts (markLeft (truncated P i s) s) := ⟨_, rfl⟩
        rw [← hsa] at h
        have tr := wf.donePre f _ hp
        simp only [PreactDoneOnly, hf] at tr
        have ea : EStep s sa := by
          rw [hsa]; exact (estep_markLeft _ s).trans (estep_runActs sem .transit f tracts _)
        have sta : Step P i s sa ∧ Keep i s sa := by
          have r0 := runActs_step P sem .transit f i tracts tr (markLeft (truncated P i s) s)
          rw [← hsa] at r0
          exact ⟨(step_markLeft P i _ s).trans r0.1, Keep.trans (Keep.refl _ _) r0.2⟩
        have hoa : Owned P sa := owned_of_step sta.1 sta.2 ho
        cases hx : exit P sem lo r.1 sa with
        | error e => simp [hx] at h
        | ok sb =>
          simp only [hx] at h
          have ox := exit_e wf hlo hle hexits hoa hx
          obtain ⟨sd, hsd⟩ : ∃ x, x = renter P sem r.2.2 (rexit P sem r.2.2 sb) := ⟨_, rfl⟩
          rw [← hsd] at h
          have ed : EStep sb sd := hsd ▸ (estep_rexit P sem r.2.2 sb).trans (estep_renter P sem r.2.2 _)
          have std : Step P i sb sd ∧ Keep i sb sd := by
            have c1 := rexit_step wf (sem := sem) r.2.2 hre sb
            have c2 := renter_step wf (sem := sem) r.2.2 hre (rexit P sem r.2.2 sb)
            rw [hsd]; exact ⟨c1.1.trans c2.1, c1.2.trans c2.2⟩
          have hod : Owned P sd := owned_of_step std.1 std.2 ox.owned
          cases he : enter P sem lo i r.2.1 sd with
          | error e => simp [he] at h
          | ok se =>
            simp only [he, Except.ok.injEq, Prod.mk.injEq] at h
            have oe := enter_e wf hlo hle hen hod he
            have hs' : s' = activate P i far se := h.2.symm
            have ef : EStep se s' := hs' ▸ estep_activate P i far se
            have hact' : (s'.fr i).active = some far := by rw [hs']; simp [activate]
            have hown' : Owned P s' := by
              rw [hs']
              exact owned_activate oe.owned (fun g hg => by rw [wf.outlineOwn far g hg, hfar]) hfar
            refine ⟨?_, hown', ?_⟩
            · refine ⟨?_, fun hq => ef.flags (oe.flags (ed.flags (ox.flags (ea.flags hq)))),
                fun hq => by rw [ef.dbl]; exact oe.dblUp (by rw [ed.dbl]; exact ox.dblUp (by rw [ea.dbl]; exact hq))⟩
              intro g hg
              have hnd := not_desc_of_not_reach hg
              have h1 : g ∉ r.1 := fun hm => hg (by rw [hexits g hm]; exact Reach.refl i)
              have h2 : g ∉ r.2.1 := fun hm => hg (by rw [hen g hm]; exact Reach.refl i)
              rw [ef.ent, oe.others g h2 hnd, ed.ent, ox.others g h1 hnd, ea.ent]
            · intro hb hd hinv
              rw [einvR_iff] at hinv ⊢
              have hbe : se.bad2 = false := by
                cases hq : se.bad2 with
                | false => rfl
                | true => rw [ef.flags hq] at hb; cases hb
              have hbd : sd.bad2 = false := by
                cases hq : sd.bad2 with
                | false => rfl
                | true => rw [oe.flags hq] at hbe; cases hbe
              have hbb : sb.bad2 = false := by
                cases hq : sb.bad2 with
                | false => rfl
                | true => rw [ed.flags hq] at hbd; cases hbd
              have hba : sa.bad2 = false := by
                cases hq : sa.bad2 with
                | false => rfl
                | true => rw [ox.flags hq] at hbb; cases hbb
              have htr : truncated P i s = false := by
                cases hq : truncated P i s with
                | false => rfl
                | true =>
                  exfalso
                  have : (markLeft (truncated P i s) s).bad2 = true := by
                    simp only [St.bad2, markLeft, hq]; simp
                  have := (estep_runActs sem .transit f tracts _).flags this
                  rw [← hsa, hba] at this; cases this
              -- the outline is not truncated: the current frames are the outline of the active frame
              obtain ⟨a, ha, hl⟩ : ∃ a, (s.fr i).active = some a ∧ nears = (P.frame a).outline := by
                rcases truncated_false htr with ⟨_, hnil⟩ | ⟨a, ha, hl⟩
                · exfalso
                  rw [hnears, hnil] at hr
                  rw [hr, Outline.exEn_nil_left] at hne
                  exact hne rfl
                · exact ⟨a, ha, by rw [hnears, hl]⟩
              have hnn : nears.Nodup := hl ▸ wfe.outlineNodup a
              have hfn : (P.frame far).outline.Nodup := wfe.outlineNodup far
              have hbla : EBelow P i sa := by
                intro y hy j hj
                have hji : j ≠ i := desc_ne wf ⟨y, hy, hj⟩
                exact (hinv.2 y hy j hj).congr (sta.1.active j hji) (fun g _ => by rw [ea.ent])
              have hentn : ∀ g, (P.frame g).framer = i → (s.ent g = true ↔ g ∈ nears) := by
                intro g hg
                rw [hinv.1 g hg, ha, hl]
                constructor
                · intro ⟨a', ha', hm⟩; cases ha'; exact hm
                · intro hm; exact ⟨a, rfl, hm⟩
              have hndx : r.1.Nodup := by rw [hk1]; exact hnn.sublist (List.drop_sublist k nears)
              have hnde : r.2.1.Nodup := by rw [hk2]; exact hfn.sublist (List.drop_sublist k _)
              have rx := ox.below hndx hbb (by rw [ea.dbl]; exact hd)
                (fun g hg => by
                  rw [ea.ent]
                  have : g ∈ nears := by rw [hk1] at hg; exact List.mem_of_mem_drop hg
                  simpa using (hentn g (hexits g hg)).2 this) hbla
              have hbld : EBelow P i sd := by
                intro y hy j hj
                have hji : j ≠ i := desc_ne wf ⟨y, hy, hj⟩
                exact (rx.1 y hy j hj).congr (std.1.active j hji) (fun g _ => by rw [ed.ent])
              -- every frame to be entered is not entered at that point
              have hentd : ∀ g, (P.frame g).framer = i → g ∈ r.2.1 → sd.ent g = false := by
                intro g hg hm
                rw [ed.ent]
                by_cases hxm : g ∈ r.1
                · simpa using ox.entl hndx g hxm
                · have hgi : ¬ Desc P i (P.frame g).framer := fun hd' => desc_ne wf hd' hg
                  rw [ox.others g hxm hgi, ea.ent]
                  cases hq : s.ent g with
                  | false => rfl
                  | true =>
                    exfalso
                    have hgn : g ∈ nears := (hentn g hg).1 hq
                    rw [← List.take_append_drop k nears, List.mem_append] at hgn
                    rcases hgn with ht | hdp
                    · rw [hk4] at ht
                      rw [hk2] at hm
                      have := hfn
                      rw [← List.take_append_drop k (P.frame far).outline] at this
                      exact (List.nodup_append.1 this).2.2 g ht g hm rfl
                    · exact hxm (hk1 ▸ hdp)
              have re := oe.below hnde hbe (by rw [ed.dbl]; exact rx.2)
                (fun g hg => by simpa using hentd g (hen g hg) hg) hbld
              have hbl' : EBelow P i s' := by
                intro y hy j hj
                have hji : j ≠ i := desc_ne wf ⟨y, hy, hj⟩
                have : (s'.fr j).active = (se.fr j).active := by rw [hs']; simp [activate, hji]
                exact (re.1 y hy j hj).congr this (fun g _ => by rw [ef.ent])
              refine ⟨⟨?_, hbl'⟩, by rw [ef.dbl]; exact re.2⟩
              intro g hg
              have hgi : ¬ Desc P i (P.frame g).framer := fun hd' => desc_ne wf hd' hg
              have key := Outline.entered_after_transit nears (P.frame far).outline k hnn hfn hk4
                s.ent sb.ent s'.ent g (hentn g hg)
                ⟨fun hm => by simpa using ox.entl hndx g (hk1 ▸ hm),
                 fun hm => by rw [ox.others g (fun hh => hm (hk1 ▸ hh)) hgi, ea.ent]⟩
                ⟨fun hm => by rw [ef.ent]; exact oe.entl hnde g (hk2 ▸ hm),
                 fun hm => by rw [ef.ent, oe.others g (fun hh => hm (hk2 ▸ hh)) hgi, ed.ent]⟩
              rw [key, hact']
              constructor
              · intro hm; exact ⟨far, rfl, hm⟩
              · intro ⟨a', ha', hm⟩; cases ha'; exact hm

theorem runPreact_ep {i : Frid} {f : Fid} (hf : (P.frame f).framer = i) {p : Preact}
    (hp : p ∈ (P.frame f).preacts) {s s' : St W} {b : Bool}
    (h : runPreact P sem lo i f p s = .ok (b, s')) : EP P i s s' := by
  cases p with
  | act a =>
    simp only [runPreact, Except.ok.injEq, Prod.mk.injEq] at h
    rw [← h.2]
    have da := wf.donePre f _ hp
    simp only [PreactDoneOnly, hf] at da
    exact EP.of_eqo wf (EQO.of_step wf (estep_runAct sem .precur f a s) (runAct_step P sem .precur f i a da s))
  | transit needs far tracts => exact transit_ep wf hlo hle wfe hf hp h
  | suspend needs aux tracts => exact EP.of_eqo wf (suspend_eqo wf hlo hle hf hp h)

theorem precurLoop_ep {i : Frid} {f : Fid} (hf : (P.frame f).framer = i) (ps : List Preact)
    (hps : ∀ p, p ∈ ps → p ∈ (P.frame f).preacts) :
    ∀ (s s' : St W) (b : Bool), precurLoop P sem lo i f ps s = .ok (b, s') → EP P i s s' := by
  induction ps with
  | nil =>
    intro s s' b h
    simp only [precurLoop, Except.ok.injEq, Prod.mk.injEq] at h
    rw [← h.2]; exact EP.refl _ _
  | cons p ps ih =>
    intro s s' b h
    simp only [precurLoop] at h
    cases h1 : runPreact P sem lo i f p s with
    | error e => simp [h1] at h
    | ok r =>
      obtain ⟨b1, s1⟩ := r
      have p1 := runPreact_ep wf hlo hle wfe hf (hps p (by simp)) h1
      cases b1 with
      | true =>
        simp only [h1, Except.ok.injEq, Prod.mk.injEq] at h
        rw [← h.2]; exact p1
      | false =>
        simp only [h1] at h
        exact EP.trans p1 (ih (fun q hq => hps q (by simp [hq])) s1 s' b h)

theorem segueLoop_ep {i : Frid} (fs : List Fid) (hfs : ∀ f, f ∈ fs → (P.frame f).framer = i) :
    ∀ (s s' : St W), segueLoop P sem lo i fs s = .ok s' → EP P i s s' := by
  induction fs with
  | nil =>
    intro s s' h
    simp only [segueLoop, Except.ok.injEq] at h
    rw [← h]; exact EP.refl _ _
  | cons f fs ih =>
    intro s s' h
    simp only [segueLoop, framePrecur] at h
    cases h1 : precurLoop P sem lo i f (P.frame f).preacts s with
    | error e => simp [h1] at h
    | ok r =>
      obtain ⟨b1, s1⟩ := r
      have p1 := precurLoop_ep wf hlo hle wfe (hfs f (by simp)) _ (fun _ hp => hp) s s1 b1 h1
      cases b1 with
      | true =>
        simp only [h1, Except.ok.injEq] at h
        rw [← h]; exact p1
      | false =>
        simp only [h1] at h
        exact EP.trans p1 (ih (fun g hg => hfs g (by simp [hg])) s1 s' h)

theorem segue_ep {i : Frid} {s s' : St W} (h : segue P sem lo i s = .ok s') : EP P i s s' := by
  intro ho
  unfold segue at h
  obtain ⟨s0, hs0⟩ : ∃ x, x = updateClocks i s := ⟨_, rfl⟩
  rw [← hs0] at h
  simp only [] at h
  have q0 : EQO P i s s0 := hs0 ▸ EQO.of_step wf (estep_updateClocks i s) (updateClocks_step i s)
  cases h1 : forEach (fun f s => forEach lo.segue (P.frame f).auxes s) (s0.fr i).actives s0 with
  | error e => simp [h1] at h
  | ok s1 =>
    simp only [h1] at h
    have r0 := q0 ho
    have q1 : EQO P i s0 s1 := by
      refine frames_eqo _ ?_ _ s0 s1 (fun ho0 f hf => ho0.actives i f hf) h1
      intro f t t' ht
      refine forEach_rel (R := EQO P (P.frame f).framer) (EQO.refl _) (fun _ _ _ => EQO.trans) _ _ ?_ _ _ ht
      intro y hy u u' hu
      exact EQO.ofLo wf hlo.segue hle.segue (plain_child hy) trivial hu
    have r1 := (EQO.trans q0 q1) ho
    have p2 := segueLoop_ep wf hlo hle wfe (s1.fr i).actives (fun f hf => r1.2.actives i f hf) s1 s' h
    exact EP.trans (EP.of_eqo wf (EQO.trans q0 q1)) p2 ho

/-- the entry points of the next level satisfy the ghost-map specification too -/
theorem nextOps_specE : LoSpecE P (nextOps P sem lo) := by
  refine ⟨⟨?_, ?_⟩, ⟨?_, ?_⟩, ⟨?_, ?_⟩, ⟨?_, ?_⟩⟩
  · intro y s s' ho hc h; exact (enterAll_e wf hlo hle wfe ho hc h).1
  · intro y s s' ho hc h; exact (enterAll_e wf hlo hle wfe ho hc h).2
  · intro y s s' ho _ h; exact (exitAll_e wf hlo hle wfe ho h).1
  · intro y s s' ho _ h; exact (exitAll_e wf hlo hle wfe ho h).2
  · intro y s s' ho _ h; exact (EP.of_eqo wf (recur_eqo wf hlo hle h) ho).1
  · intro y s s' ho _ h; exact (EP.of_eqo wf (recur_eqo wf hlo hle h) ho).2.2
  · intro y s s' ho _ h; exact (segue_ep wf hlo hle wfe h ho).1
  · intro y s s' ho _ h; exact (segue_ep wf hlo hle wfe h ho).2.2

end walk

theorem opsAt_specE {P : Prog} {rank : Frid → Nat} (wf : WF P rank) (wfe : WFE P) (sem : Sem W) :
    ∀ n, LoSpecE P (opsAt P sem n)
  | 0 => by
    refine ⟨⟨?_, ?_⟩, ⟨?_, ?_⟩, ⟨?_, ?_⟩, ⟨?_, ?_⟩⟩ <;> intros <;> simp [opsAt, Ops.bottom] at *
  | n + 1 => nextOps_specE wf (opsAt_spec wf sem n) (opsAt_specE wf wfe sem n) wfe

end Ioflo.Flo
