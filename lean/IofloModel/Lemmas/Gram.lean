import IofloModel.Model.Gram
/-! Helper lemmas for C35: what one `serviceTxPkts` pass does (loop invariants). -/
namespace Ioflo.Gram

theorem sentPkts_append (a b : List Event) : sentPkts (a ++ b) = sentPkts a ++ sentPkts b := by
  induction a with
  | nil => rfl
  | cons e a ih => cases e <;> simp [sentPkts, ih]

theorem failedDsts_append (a b : List Event) : failedDsts (a ++ b) = failedDsts a ++ failedDsts b := by
  induction a with
  | nil => rfl
  | cons e a ih => cases e <;> simp [failedDsts, ih]

theorem toDst_append (d : Nat) (a b : List Pkt) : toDst d (a ++ b) = toDst d a ++ toDst d b := by
  simp [toDst]

theorem toDst_cons_eq (d : Nat) (p : Pkt) (l : List Pkt) (h : p.dst = d) :
    toDst d (p :: l) = p :: toDst d l := by
  simp [toDst, h]

theorem toDst_cons_ne (d : Nat) (p : Pkt) (l : List Pkt) (h : p.dst ≠ d) :
    toDst d (p :: l) = toDst d l := by
  simp [toDst, h]

theorem toDst_nil (d : Nat) : toDst d [] = [] := rfl

theorem toDst_eq_nil_of_forall (d : Nat) (l : List Pkt) (h : ∀ p ∈ l, p.dst ≠ d) : toDst d l = [] := by
  simp only [toDst, List.filter_eq_nil_iff]
  intro p hp; simpa using h p hp

theorem mem_toDst {d : Nat} {p : Pkt} {l : List Pkt} : p ∈ toDst d l ↔ p ∈ l ∧ p.dst = d := by
  simp [toDst]

/-- a transient-only script stays transient-only after one answer, and its head is classified -/
theorem nextOutcome_transient {env : List Outcome} (h : env.all Outcome.transientOnly = true) :
    (nextOutcome env).2.all Outcome.transientOnly = true ∧
    (∀ e, (nextOutcome env).1 = .err e → e ∈ transientErrnos) := by
  cases env with
  | nil => simp [nextOutcome]
  | cons o r =>
    simp only [List.all_cons, Bool.and_eq_true] at h
    refine ⟨h.2, ?_⟩
    intro e he
    simp only [nextOutcome] at he
    subst he
    simpa [Outcome.transientOnly] using h.1

/-- The three ways `_serviceOneTxPkt` can end under a transient-only script. -/
theorem oneTxPkt_cases (p : Pkt) (L : List Pkt) (B : List Nat) (env : List Outcome)
    (h : env.all Outcome.transientOnly = true) :
    (p.dst ∈ B ∧ oneTxPkt p L B env = .ret false (L ++ [p]) B env []) ∨
    (p.dst ∉ B ∧ ∃ env', env'.all Outcome.transientOnly = true ∧
        oneTxPkt p L B env = .ret true L B env' [.sent p]) ∨
    (p.dst ∉ B ∧ ∃ env' e, env'.all Outcome.transientOnly = true ∧
        oneTxPkt p L B env = .ret true (L ++ [p]) (B ++ [p.dst]) env' [.failed p e]) := by
  by_cases hb : p.dst ∈ B
  · left; exact ⟨hb, by simp [oneTxPkt, hb]⟩
  · right
    have ht := nextOutcome_transient h
    unfold oneTxPkt
    rw [if_neg hb]
    generalize hno : nextOutcome env = no at ht
    obtain ⟨o, env'⟩ := no
    cases o with
    | ok => left; exact ⟨hb, env', ht.1, rfl⟩
    | err e =>
      right
      have : e ∈ transientErrnos := ht.2 e rfl
      exact ⟨hb, env', e, ht.1, by simp [this]⟩

/-- **Loop invariant of the repaired pass** under a transient-only script:
nothing escapes, the new queue is `laters ++ K`, and for every destination the packets
sent followed by the packets kept are exactly that destination's packets of the old queue,
in the old order; a kept packet's destination was blocked or has failed in this pass; nothing
is sent to a destination that is blocked; a destination fails at most once. -/
theorem txLoop_repaired_spec (q : List Pkt) : ∀ (L : List Pkt) (B : List Nat) (env : List Outcome),
    env.all Outcome.transientOnly = true →
    (txLoop .repaired q L B env).raised = none ∧
    ∃ K, (txLoop .repaired q L B env).txPkts = L ++ K ∧
      (∀ d, toDst d (sentPkts (txLoop .repaired q L B env).events) ++ toDst d K = toDst d q) ∧
      (∀ p ∈ K, p.dst ∈ B ∨ p.dst ∈ failedDsts (txLoop .repaired q L B env).events) ∧
      (∀ p ∈ sentPkts (txLoop .repaired q L B env).events, p.dst ∉ B) ∧
      (∀ d ∈ failedDsts (txLoop .repaired q L B env).events, d ∉ B) ∧
      (failedDsts (txLoop .repaired q L B env).events).Nodup := by
  induction q with
  | nil =>
    intro L B env _
    refine ⟨rfl, [], by simp [txLoop], ?_, ?_, ?_, ?_, ?_⟩ <;> simp [txLoop, sentPkts, failedDsts, toDst]
  | cons p rest ih =>
    intro L B env henv
    rcases oneTxPkt_cases p L B env henv with ⟨hb, h1⟩ | ⟨hb, env', henv', h1⟩ | ⟨hb, env', e, henv', h1⟩
    · -- already blocked: goes to laters, loop continues
      have hl : txLoop .repaired (p :: rest) L B env = txLoop .repaired rest (L ++ [p]) B env := by
        simp [txLoop, h1]
      obtain ⟨hr, K, hK, hord, hkept, hsent, hfail, hnd⟩ := ih (L ++ [p]) B env henv
      rw [hl]
      refine ⟨hr, p :: K, by simp [hK], ?_, ?_, hsent, hfail, hnd⟩
      · intro d
        by_cases hd : p.dst = d
        · have hs : toDst d (sentPkts (txLoop .repaired rest (L ++ [p]) B env).events) = [] := by
            apply toDst_eq_nil_of_forall
            intro x hx hxd
            exact hsent x hx (by rw [hxd, ← hd]; exact hb)
          have := hord d
          rw [hs] at this ⊢
          simp only [List.nil_append] at this ⊢
          rw [toDst_cons_eq d p K hd, toDst_cons_eq d p rest hd, this]
        · rw [toDst_cons_ne d p K hd, toDst_cons_ne d p rest hd]; exact hord d
      · intro x hx
        rcases List.mem_cons.mp hx with rfl | hx
        · exact Or.inl hb
        · exact hkept x hx
    · -- sent
      have hl : txLoop .repaired (p :: rest) L B env =
          { txLoop .repaired rest L B env' with
            events := [.sent p] ++ (txLoop .repaired rest L B env').events } := by
        simp [txLoop, h1]
      obtain ⟨hr, K, hK, hord, hkept, hsent, hfail, hnd⟩ := ih L B env' henv'
      rw [hl]
      refine ⟨hr, K, hK, ?_, ?_, ?_, ?_, ?_⟩
      · intro d
        simp only [List.singleton_append, sentPkts]
        by_cases hd : p.dst = d
        · rw [toDst_cons_eq d p _ hd, toDst_cons_eq d p rest hd, List.cons_append, hord d]
        · rw [toDst_cons_ne d p _ hd, toDst_cons_ne d p rest hd]; exact hord d
      · intro x hx
        simpa [failedDsts] using hkept x hx
      · intro x hx
        simp only [List.singleton_append, sentPkts, List.mem_cons] at hx
        rcases hx with rfl | hx
        · exact hb
        · exact hsent x hx
      · simpa [failedDsts] using hfail
      · simpa [failedDsts] using hnd
    · -- transient failure: goes to laters, destination becomes blocked
      have hl : txLoop .repaired (p :: rest) L B env =
          { txLoop .repaired rest (L ++ [p]) (B ++ [p.dst]) env' with
            events := [.failed p e] ++ (txLoop .repaired rest (L ++ [p]) (B ++ [p.dst]) env').events } := by
        simp [txLoop, h1]
      obtain ⟨hr, K, hK, hord, hkept, hsent, hfail, hnd⟩ := ih (L ++ [p]) (B ++ [p.dst]) env' henv'
      rw [hl]
      refine ⟨hr, p :: K, by simp [hK], ?_, ?_, ?_, ?_, ?_⟩
      · intro d
        simp only [List.singleton_append, sentPkts]
        by_cases hd : p.dst = d
        · have hs : toDst d (sentPkts (txLoop .repaired rest (L ++ [p]) (B ++ [p.dst]) env').events) = [] := by
            apply toDst_eq_nil_of_forall
            intro x hx hxd
            exact hsent x hx (by simp [hxd, hd])
          have := hord d
          rw [hs] at this ⊢
          simp only [List.nil_append] at this ⊢
          rw [toDst_cons_eq d p K hd, toDst_cons_eq d p rest hd, this]
        · rw [toDst_cons_ne d p K hd, toDst_cons_ne d p rest hd]; exact hord d
      · intro x hx
        simp only [List.singleton_append, failedDsts, List.mem_cons]
        rcases List.mem_cons.mp hx with rfl | hx
        · exact Or.inr (Or.inl rfl)
        · rcases hkept x hx with h | h
          · rcases List.mem_append.mp h with h | h
            · exact Or.inl h
            · exact Or.inr (Or.inl (by simpa using h))
          · exact Or.inr (Or.inr h)
      · intro x hx
        simp only [List.singleton_append, sentPkts] at hx
        intro hxb
        exact hsent x hx (List.mem_append.mpr (Or.inl hxb))
      · intro d hd
        simp only [List.singleton_append, failedDsts, List.mem_cons] at hd
        rcases hd with rfl | hd
        · exact hb
        · intro hdb; exact hfail d hd (List.mem_append.mpr (Or.inl hdb))
      · simp only [List.singleton_append, failedDsts, List.nodup_cons]
        refine ⟨?_, hnd⟩
        intro hm
        exact hfail p.dst hm (by simp)

/-- **No loss, no duplication in one pass** (either variant): what was sent plus what is left
is a permutation of what was there. -/
theorem txLoop_perm (v : Variant) (q : List Pkt) : ∀ (L : List Pkt) (B : List Nat) (env : List Outcome),
    env.all Outcome.transientOnly = true →
    (sentPkts (txLoop v q L B env).events ++ (txLoop v q L B env).txPkts).Perm (L ++ q) := by
  induction q with
  | nil => intro L B env _; simp [txLoop, sentPkts]
  | cons p rest ih =>
    intro L B env henv
    rcases oneTxPkt_cases p L B env henv with ⟨_, h1⟩ | ⟨_, env', henv', h1⟩ | ⟨_, env', e, henv', h1⟩
    · cases v with
      | asIs =>
        have hl : txLoop .asIs (p :: rest) L B env = ⟨rest ++ (L ++ [p]), env, [], none⟩ := by
          simp [txLoop, h1]
        rw [hl]
        simp only [sentPkts, List.nil_append]
        have : (rest ++ (L ++ [p])).Perm ((L ++ [p]) ++ rest) := List.perm_append_comm
        refine this.trans ?_
        simp only [List.append_assoc, List.singleton_append]
        exact List.Perm.refl _
      | repaired =>
        have hl : txLoop .repaired (p :: rest) L B env = txLoop .repaired rest (L ++ [p]) B env := by
          simp [txLoop, h1]
        rw [hl]
        refine (ih (L ++ [p]) B env henv).trans ?_
        simp
    · have hl : txLoop v (p :: rest) L B env =
          { txLoop v rest L B env' with events := [.sent p] ++ (txLoop v rest L B env').events } := by
        cases v <;> simp [txLoop, h1]
      rw [hl]
      simp only [sentPkts, List.cons_append]
      refine ((ih L B env' henv').cons p).trans ?_
      exact List.perm_middle.symm
    · have hl : txLoop v (p :: rest) L B env =
          { txLoop v rest (L ++ [p]) (B ++ [p.dst]) env' with
            events := [.failed p e] ++ (txLoop v rest (L ++ [p]) (B ++ [p.dst]) env').events } := by
        cases v <;> simp [txLoop, h1]
      rw [hl]
      simp only [List.singleton_append, sentPkts]
      refine (ih (L ++ [p]) (B ++ [p.dst]) env' henv').trans ?_
      simp

/-- With an all-`ok` script nothing fails. -/
theorem txLoop_allok_no_failure (v : Variant) (q : List Pkt) : ∀ (L : List Pkt) (B : List Nat) (env : List Outcome),
    env.all (· == Outcome.ok) = true → failedDsts (txLoop v q L B env).events = [] := by
  induction q with
  | nil => intro L B env _; simp [txLoop, failedDsts]
  | cons p rest ih =>
    intro L B env henv
    by_cases hb : p.dst ∈ B
    · cases v with
      | asIs => simp [txLoop, oneTxPkt, hb, failedDsts]
      | repaired =>
        have : txLoop .repaired (p :: rest) L B env = txLoop .repaired rest (L ++ [p]) B env := by
          simp [txLoop, oneTxPkt, hb]
        rw [this]; exact ih _ _ _ henv
    · have hno : ∃ env', nextOutcome env = (.ok, env') ∧ env'.all (· == Outcome.ok) = true := by
        cases env with
        | nil => exact ⟨[], rfl, rfl⟩
        | cons o r =>
          simp only [List.all_cons, Bool.and_eq_true, beq_iff_eq] at henv
          exact ⟨r, by simp [nextOutcome, henv.1], by simpa using henv.2⟩
      obtain ⟨env', hno, henv'⟩ := hno
      have : txLoop v (p :: rest) L B env =
          { txLoop v rest L B env' with events := [.sent p] ++ (txLoop v rest L B env').events } := by
        cases v <;> simp [txLoop, oneTxPkt, hb, hno]
      rw [this]
      simpa [failedDsts] using ih L B env' henv'

/-! ### histories -/

/-- per-destination order in one repaired pass -/
theorem pass_order (s : State) (env : List Outcome)
    (henv : env.all Outcome.transientOnly = true) (d : Nat) :
    toDst d (sentPkts (serviceTxPkts .repaired s env).2)
      ++ toDst d (serviceTxPkts .repaired s env).1.txPkts = toDst d s.txPkts := by
  unfold serviceTxPkts
  by_cases ho : s.opened = true
  · obtain ⟨_, K, hK, hord, _⟩ := txLoop_repaired_spec s.txPkts [] [] env henv
    simp only [ho, if_true, hK, List.nil_append]
    exact hord d
  · simp [ho, sentPkts, toDst]

/-- every packet handed to `transmit` / `message`, in call order -/
def submitted : List Op → List Pkt
  | [] => []
  | .transmit p :: ops => p :: submitted ops
  | .message p :: ops => p :: submitted ops
  | _ :: ops => submitted ops

theorem once_perm (s : State) (env : List Outcome) (henv : env.all Outcome.transientOnly = true) :
    (sentPkts (serviceTxPktsOnce s env).2 ++ (serviceTxPktsOnce s env).1.txPkts).Perm s.txPkts ∧
    (serviceTxPktsOnce s env).1.txMsgs = s.txMsgs := by
  unfold serviceTxPktsOnce
  by_cases ho : s.opened = true
  · simp only [ho, if_true]
    cases hq : s.txPkts with
    | nil => simp [sentPkts, hq]
    | cons p rest =>
      rcases oneTxPkt_cases p [] [] env henv with ⟨hb, _⟩ | ⟨_, env', _, h1⟩ | ⟨_, env', e, _, h1⟩
      · cases hb
      · simp [h1, sentPkts]
      · simp only [h1, sentPkts, List.nil_append, and_true]
        exact List.perm_append_comm
  · simp [ho, sentPkts]

theorem pass_perm (v : Variant) (s : State) (env : List Outcome)
    (henv : env.all Outcome.transientOnly = true) :
    (sentPkts (serviceTxPkts v s env).2 ++ (serviceTxPkts v s env).1.txPkts).Perm s.txPkts ∧
    (serviceTxPkts v s env).1.txMsgs = s.txMsgs := by
  unfold serviceTxPkts
  by_cases ho : s.opened = true
  · simp only [ho, if_true, and_true]
    simpa using txLoop_perm v s.txPkts [] [] env henv
  · simp [ho, sentPkts]

theorem run_perm (v : Variant) (ops : List Op) : ∀ (s : State), transientOnlyOps ops = true →
    (sentPkts (run v s ops).2 ++ (run v s ops).1.txPkts ++ (run v s ops).1.txMsgs).Perm
      (s.txPkts ++ s.txMsgs ++ submitted ops) := by
  induction ops with
  | nil => intro s _; simp [run, sentPkts, submitted]
  | cons op ops ih =>
    intro s hT
    simp only [transientOnlyOps, List.all_cons, Bool.and_eq_true] at hT
    have ih' := fun s' => ih s' (by simpa [transientOnlyOps] using hT.2)
    have hrun : run v s (op :: ops) = ((run v (step v s op).1 ops).1, (step v s op).2 ++ (run v (step v s op).1 ops).2) := rfl
    rw [hrun]
    simp only [sentPkts_append]
    -- what one step does to `sent ++ txPkts ++ txMsgs`
    have hstep : (sentPkts (step v s op).2 ++ (step v s op).1.txPkts ++ (step v s op).1.txMsgs ++ submitted ops).Perm
        (s.txPkts ++ s.txMsgs ++ submitted (op :: ops)) := by
      cases op with
      | transmit p =>
        simp only [step, sentPkts, submitted, List.nil_append, List.append_assoc, List.singleton_append]
        refine List.Perm.append_left _ ?_
        exact List.perm_middle.symm
      | message p => simp [step, sentPkts, submitted]
      | serviceTxMsgs => simp [step, serviceTxMsgs, sentPkts, submitted]
      | serviceTxPkts env =>
        obtain ⟨hp, hm⟩ := pass_perm v s env (by simpa [envOf] using hT.1)
        simp only [step, submitted, hm]
        exact (hp.append_right _).append_right _
      | serviceTxPktsOnce env =>
        obtain ⟨hp, hm⟩ := once_perm s env (by simpa [envOf] using hT.1)
        simp only [step, submitted, hm]
        exact (hp.append_right _).append_right _
      | serviceAllTx env =>
        obtain ⟨hp, hm⟩ := pass_perm v (serviceTxMsgs s) env (by simpa [envOf] using hT.1)
        simp only [step, submitted, hm]
        refine ((hp.append_right _).append_right _).trans ?_
        simp [serviceTxMsgs]
      | close => simp [step, sentPkts, submitted]
      | reopen => simp [step, sentPkts, submitted]
    refine List.Perm.trans ?_ hstep
    have := (ih' (step v s op).1).append_left (sentPkts (step v s op).2)
    simpa [List.append_assoc] using this

theorem once_order (s : State) (env : List Outcome) (henv : env.all Outcome.transientOnly = true)
    (hR : onceReorders .repaired s [.serviceTxPktsOnce env] = false) (d : Nat) :
    toDst d (sentPkts (serviceTxPktsOnce s env).2) ++ toDst d (serviceTxPktsOnce s env).1.txPkts
      = toDst d s.txPkts ∧ (serviceTxPktsOnce s env).1.txMsgs = s.txMsgs := by
  unfold serviceTxPktsOnce
  by_cases ho : s.opened = true
  · simp only [ho, if_true]
    cases hq : s.txPkts with
    | nil => simp [sentPkts, hq, toDst]
    | cons p rest =>
      simp only [onceReorders, ho, hq, Bool.true_and, Bool.or_false] at hR
      unfold oneTxPkt
      simp only [List.not_mem_nil, if_false]
      generalize hno : nextOutcome env = no at hR
      have ht := nextOutcome_transient henv
      rw [hno] at ht
      obtain ⟨o, env'⟩ := no
      cases o with
      | ok =>
        simp only [sentPkts, List.append_nil, and_true]
        by_cases hd : p.dst = d
        · rw [toDst_cons_eq d p _ hd, toDst_cons_eq d p _ hd]; simp [toDst]
        · rw [toDst_cons_ne d p _ hd, toDst_cons_ne d p _ hd]; simp [toDst]
      | err e =>
        have he : e ∈ transientErrnos := ht.2 e rfl
        simp only [he, if_true, sentPkts, List.nil_append, and_true, toDst_nil]
        have hc : transientErrnos.contains e = true := by simpa using he
        simp only [hc, Bool.true_and] at hR
        rw [toDst_append]
        by_cases hd : p.dst = d
        · have hr : toDst d rest = [] := by
            apply toDst_eq_nil_of_forall
            intro x hx hxd
            have : rest.any (fun q => q.dst == p.dst) = true := by
              rw [List.any_eq_true]; exact ⟨x, hx, by simp [hxd, hd]⟩
            rw [this] at hR; cases hR
          rw [toDst_cons_eq d p _ hd, toDst_cons_eq d p _ hd, hr]; rfl
        · rw [toDst_cons_ne d p _ hd, toDst_cons_ne d p _ hd]; simp [toDst]
  · simp [ho, sentPkts, toDst]

theorem run_order (ops : List Op) : ∀ (s : State), transientOnlyOps ops = true →
    onceReorders .repaired s ops = false → ∀ d : Nat,
    toDst d (sentPkts (run .repaired s ops).2) ++ toDst d (run .repaired s ops).1.txPkts
      = toDst d s.txPkts ++ toDst d (entered s.txMsgs ops) := by
  induction ops with
  | nil => intro s _ _ d; simp [run, sentPkts, entered, toDst]
  | cons op ops ih =>
    intro s hT hR d
    simp only [transientOnlyOps, List.all_cons, Bool.and_eq_true] at hT
    have hR1 : onceReorders .repaired s [op] = false ∧
        onceReorders .repaired (step .repaired s op).1 ops = false := by
      cases op <;> simp_all [onceReorders]
    have ih' := ih (step .repaired s op).1 (by simpa [transientOnlyOps] using hT.2) hR1.2 d
    have hrun : run .repaired s (op :: ops) = ((run .repaired (step .repaired s op).1 ops).1,
        (step .repaired s op).2 ++ (run .repaired (step .repaired s op).1 ops).2) := rfl
    rw [hrun]
    simp only [sentPkts_append, toDst_append, List.append_assoc]
    rw [ih']
    cases op with
    | transmit p =>
      simp only [step, sentPkts, entered, toDst_nil, List.nil_append, toDst_append, List.append_assoc]
      by_cases hd : p.dst = d
      · rw [toDst_cons_eq d p _ hd, toDst_cons_eq d p _ hd]; simp [toDst]
      · rw [toDst_cons_ne d p _ hd, toDst_cons_ne d p _ hd]; simp [toDst]
    | message p => simp [step, sentPkts, entered, toDst]
    | serviceTxMsgs => simp [step, serviceTxMsgs, sentPkts, entered, toDst]
    | serviceTxPkts env =>
      have h := pass_order s env (by simpa [envOf] using hT.1) d
      have hm := (pass_perm .repaired s env (by simpa [envOf] using hT.1)).2
      simp only [step, entered, hm]
      rw [← List.append_assoc, h]
    | serviceTxPktsOnce env =>
      obtain ⟨h, hm⟩ := once_order s env (by simpa [envOf] using hT.1) hR1.1 d
      simp only [step, entered, hm]
      rw [← List.append_assoc, h]
    | serviceAllTx env =>
      have h := pass_order (serviceTxMsgs s) env (by simpa [envOf] using hT.1) d
      have hm := (pass_perm .repaired (serviceTxMsgs s) env (by simpa [envOf] using hT.1)).2
      simp only [step, entered, hm]
      rw [← List.append_assoc, h]
      simp [serviceTxMsgs, toDst]
    | close => simp [step, sentPkts, entered, toDst]
    | reopen => simp [step, sentPkts, entered, toDst]

theorem onceReorders_of_not_usesOnce (ops : List Op) : ∀ s, usesOnce ops = false →
    onceReorders .repaired s ops = false := by
  induction ops with
  | nil => intro s _; rfl
  | cons op ops ih =>
    intro s h
    cases op <;> simp_all [usesOnce, onceReorders]


/-! ### receive side -/

/-- receive-side invariant: packets taken off `.rxPkts` followed by those still on it are the datagrams
the socket handed over, in order; the messages are a subsequence of the packets taken off, all from
sources that have a remote -/
def RxInv (s : RxState) : Prop :=
  s.popped ++ s.rxPkts = s.taken ∧ s.rxMsgs.Sublist s.popped ∧ ∀ p ∈ s.rxMsgs, s.remotes.contains p.dst = true

theorem rxLoop_inv (env : List Recv) : ∀ (s : RxState), RxInv s → RxInv (rxLoop env s).1 := by
  induction env with
  | nil => intro s h; exact h
  | cons r rest ih =>
    intro s h
    unfold rxLoop
    cases r with
    | dgram p =>
      apply ih
      obtain ⟨h1, h2, h3⟩ := h
      exact ⟨by simp only []; rw [← List.append_assoc, h1], h2, h3⟩
    | empty src => exact h
    | nothing => exact h
    | err e =>
      simp only
      split <;> exact h

theorem rstep_inv (s : RxState) (op : ROp) (h : RxInv s) : RxInv (rstep s op).1 := by
  obtain ⟨h1, h2, h3⟩ := h
  cases op with
  | addRemote src =>
    simp only [rstep]
    refine ⟨h1, h2, ?_⟩
    intro p hp
    have := h3 p hp
    split
    · exact this
    · simp only [List.contains_eq_mem, List.mem_append, decide_eq_true_eq] at this ⊢
      exact Or.inl this
  | serviceReceives env =>
    simp only [rstep, serviceReceives]
    split
    · exact rxLoop_inv env s ⟨h1, h2, h3⟩
    · exact ⟨h1, h2, h3⟩
  | serviceReceivesOnce env =>
    simp only [rstep, serviceReceivesOnce]
    split
    · cases env with
      | nil => exact ⟨h1, h2, h3⟩
      | cons r rest => exact rxLoop_inv [r] s ⟨h1, h2, h3⟩
    · exact ⟨h1, h2, h3⟩
  | serviceRxPkts =>
    simp only [rstep, serviceRxPkts]
    refine ⟨by simpa using h1, ?_, ?_⟩
    · exact List.Sublist.append h2 List.filter_sublist
    · intro p hp
      rcases List.mem_append.mp hp with hp | hp
      · exact h3 p hp
      · exact (List.mem_filter.mp hp).2
  | close => exact ⟨h1, h2, h3⟩
  | reopen => exact ⟨h1, h2, h3⟩

theorem rrun_inv (ops : List ROp) : ∀ (s : RxState), RxInv s → RxInv (rrun s ops).1 := by
  induction ops with
  | nil => intro s h; exact h
  | cons op ops ih => intro s h; exact ih _ (rstep_inv s op h)


end Ioflo.Gram
