import IofloModel.Model.HttpLex
/-! What the line functions of the HTTP parser read in canonically written lines:
`name ":" OWS value OWS` header lines, `METHOD SP target SP version` request lines. -/
namespace Ioflo.Http

/-! ### strip -/

theorem dropWhile_all {p : Nat → Bool} {a : Bytes} (ha : ∀ x ∈ a, p x = true) (r : Bytes) :
    (a ++ r).dropWhile p = r.dropWhile p := by
  induction a with
  | nil => rfl
  | cons x a ih =>
    have hx := ha x (by simp)
    simp [hx, ih (fun y hy => ha y (by simp [hy]))]

/-- a value with no white space at either end (maybe empty) -/
def trimmed (p : Nat → Bool) (v : Bytes) : Prop :=
  (∀ x, v.head? = some x → p x = false) ∧ (∀ x, v.getLast? = some x → p x = false)

theorem dropWhile_trimmed_head {p : Nat → Bool} {v : Bytes} (h : ∀ x, v.head? = some x → p x = false) (r : Bytes)
    (hv : v ≠ []) : (v ++ r).dropWhile p = v ++ r := by
  cases v with
  | nil => exact absurd rfl hv
  | cons x v => simp [h x rfl]

theorem stripWith_pad {p : Nat → Bool} {a v b : Bytes} (ha : ∀ x ∈ a, p x = true)
    (hb : ∀ x ∈ b, p x = true) (hv : trimmed p v) : stripWith p (a ++ (v ++ b)) = v := by
  unfold stripWith
  rw [dropWhile_all ha]
  by_cases hne : v = []
  · subst hne
    have : b.dropWhile p = [] := by
      have := dropWhile_all (p := p) hb []
      simpa using this
    simp [this]
  · rw [dropWhile_trimmed_head hv.1 b hne, List.reverse_append]
    have hb' : ∀ x ∈ b.reverse, p x = true := fun x hx => hb x (by simpa using hx)
    rw [dropWhile_all hb']
    have : v.reverse.dropWhile p = v.reverse := by
      have hr : v.reverse ≠ [] := by simpa using hne
      have := dropWhile_trimmed_head (p := p) (v := v.reverse)
        (fun x hx => hv.2 x (by rw [List.getLast?_eq_head?_reverse]; exact hx)) [] hr
      simpa using this
    rw [this, List.reverse_reverse]

/-! ### header lines: `name ":" OWS value OWS` -/

theorem partition_name {sep : Nat} {name : Bytes} (hn : ∀ b ∈ name, b ≠ sep) (v : Bytes) :
    partition sep (name ++ sep :: v) = (name, true, v) := by
  induction name with
  | nil => simp [partition]
  | cons c name ih =>
    have hc := hn c (by simp)
    have := ih (fun b hb => hn b (by simp [hb]))
    simp [partition, hc, this]

/-- **Optional white space around the value**: a header line `name:` OWS `value` OWS is read as
the pair (lower-cased name, value), whatever white space (none, blanks, tabs) surrounds the value. -/
theorem headerLine_ows {h : Hdrs} {name ows1 value ows2 : Bytes}
    (hn : ∀ b ∈ name, b ≠ 58) (h1 : ∀ x ∈ ows1, isWs x = true) (h2 : ∀ x ∈ ows2, isWs x = true)
    (hv : trimmed isWs value) (hmax : (h.set name value).length ≤ MAX_HEADERS) :
    headerLine h (name ++ 58 :: (ows1 ++ (value ++ ows2))) = .ok (h.set name value) := by
  unfold headerLine
  simp only [partition_name hn, strip, stripWith_pad h1 h2 hv]
  simp; omega

/-! ### start lines: tokens separated by single blanks -/

/-- a non-empty word without white space -/
def token (t : Bytes) : Prop := t ≠ [] ∧ ∀ x ∈ t, isWs x = false

theorem splitWsAux_token {t : Bytes} (ht : ∀ x ∈ t, isWs x = false) (r cur : Bytes) :
    splitWsAux (t ++ r) cur = splitWsAux r (t.reverse ++ cur) := by
  induction t generalizing cur with
  | nil => rfl
  | cons x t ih =>
    have hx := ht x (by simp)
    simp only [List.cons_append, splitWsAux, hx]
    simp [ih (fun y hy => ht y (by simp [hy]))]

theorem splitWs_three {a b c : Bytes} (ha : token a) (hb : token b) (hc : token c) :
    splitWs (a ++ 32 :: (b ++ 32 :: c)) = [a, b, c] := by
  unfold splitWs
  have h32 : isWs 32 = true := by decide
  have ra : a.reverse ≠ [] := by simpa using ha.1
  have rb : b.reverse ≠ [] := by simpa using hb.1
  have rc : c.reverse ≠ [] := by simpa using hc.1
  rw [splitWsAux_token ha.2]
  simp only [List.append_nil, splitWsAux, h32, if_true, ra, if_false, List.reverse_reverse]
  rw [splitWsAux_token hb.2]
  simp only [List.append_nil, splitWsAux, h32, if_true, rb, if_false, List.reverse_reverse]
  have := splitWsAux_token hc.2 [] []
  simp only [List.append_nil] at this
  rw [this]
  simp [splitWsAux, rc]

/-- **Request line**: `METHOD SP target SP version` is read as its three tokens. -/
theorem parseRequestLine_canon {m u v : Bytes} (hm : methods.contains m = true) (hu : token u) (hv : token v)
    (hver : startsWith sHTTP v = true) :
    parseRequestLine (m ++ 32 :: (u ++ 32 :: v)) = .ok (m, u, v) := by
  have hmt : token m := by
    simp only [methods, List.contains_cons, List.contains_nil, Bool.or_false, Bool.or_eq_true, beq_iff_eq] at hm
    rcases hm with rfl | rfl | rfl | rfl | rfl | rfl | rfl | rfl | rfl <;> exact ⟨by simp, by decide⟩
  unfold parseRequestLine
  have hne : m ++ 32 :: (u ++ 32 :: v) ≠ [] := by simp
  have hm' : m ∈ methods := by simpa using hm
  simp [hne, splitWs_three hmt hu hv, nth, hver, hm']

end Ioflo.Http
