import IofloModel.Model.HttpLex
/-! What the line functions of the HTTP parser read in canonically written lines:
`name ":" OWS value OWS` header lines, `METHOD SP target SP version` request lines. -/
namespace Ioflo.Http

/-! ### strip -/

theorem dropWhile_all {p : Nat → Bool} {a : Bytes} (ha : ∀ x ∈ a, p x = true) (r : Bytes) :
    (a ++ r).dropWhile p = r.dropWhile p := by
  induction a with
  | nil => rfl
  | cons x a ih =>
    have hx := ha x (by simp)
    simp [hx, ih (fun y hy => ha y (by simp [hy]))]

/-- a value with no white space at either end (maybe empty) -/
def trimmed (p : Nat → Bool) (v : Bytes) : Prop :=
  (∀ x, v.head? = some x → p x = false) ∧ (∀ x, v.getLast? = some x → p x = false)

theorem dropWhile_trimmed_head {p : Nat → Bool} {v : Bytes} (h : ∀ x, v.head? = some x → p x = false) (r : Bytes)
    (hv : v ≠ []) : (v ++ r).dropWhile p = v ++ r := by
  cases v with
  | nil => exact absurd rfl hv
  | cons x v => simp [h x rfl]

theorem stripWith_pad {p : Nat → Bool} {a v b : Bytes} (ha : ∀ x ∈ a, p x = true)
    (hb : ∀ x ∈ b, p x = true) (hv : trimmed p v) : stripWith p (a ++ (v ++ b)) = v := by
  unfold stripWith
  rw [dropWhile_all ha]
  by_cases hne : v = []
  · subst hne
    have : b.dropWhile p = [] := by
      have := dropWhile_all (p := p) hb []
      simpa using this
    simp [this]
  · rw [dropWhile_trimmed_head hv.1 b hne, List.reverse_append]
    have hb' : ∀ x ∈ b.reverse, p x = true := fun x hx => hb x (by simpa using hx)
    rw [dropWhile_all hb']
    have : v.reverse.dropWhile p = v.reverse := by
      have hr : v.reverse ≠ [] := by simpa using hne
      have := dropWhile_trimmed_head (p := p) (v := v.reverse)
        (fun x hx => hv.2 x (by rw [List.getLast?_eq_head?_reverse]; exact hx)) [] hr
      simpa using this
    rw [this, List.reverse_reverse]

/-! ### header lines: `name ":" OWS value OWS` -/

theorem partition_name {sep : Nat} {name : Bytes} (hn : ∀ b ∈ name, b ≠ sep) (v : Bytes) :
    partition sep (name ++ sep :: v) = (name, true, v) := by
  induction name with
  | nil => simp [partition]
  | cons c name ih =>
    have hc := hn c (by simp)
    have := ih (fun b hb => hn b (by simp [hb]))
    simp [partition, hc, this]

/-- **Optional white space around the value**: a header line `name:` OWS `value` OWS is read as
the pair (lower-cased name, value), whatever white space (none, blanks, tabs) surrounds the value. -/
theorem headerLine_ows {h : Hdrs} {name ows1 value ows2 : Bytes}
    (hn : ∀ b ∈ name, b ≠ 58) (h1 : ∀ x ∈ ows1, isWs x = true) (h2 : ∀ x ∈ ows2, isWs x = true)
    (hv : trimmed isWs value) (hmax : (h.set name value).length ≤ MAX_HEADERS) :
    headerLine h (name ++ 58 :: (ows1 ++ (value ++ ows2))) = .ok (h.set name value) := by
  unfold headerLine
  simp only [partition_name hn, strip, stripWith_pad h1 h2 hv]
  simp; omega

/-! ### start lines: tokens separated by single blanks -/

/-- a non-empty word without white space -/
def token (t : Bytes) : Prop := t ≠ [] ∧ ∀ x ∈ t, isWs x = false

theorem splitWsAux_token {t : Bytes} (ht : ∀ x ∈ t, isWs x = false) (r cur : Bytes) :
    splitWsAux (t ++ r) cur = splitWsAux r (t.reverse ++ cur) := by
  induction t generalizing cur with
  | nil => rfl
  | cons x t ih =>
    have hx := ht x (by simp)
    simp only [List.cons_append, splitWsAux, hx]
    simp [ih (fun y hy => ht y (by simp [hy]))]

theorem splitWs_three {a b c : Bytes} (ha : token a) (hb : token b) (hc : token c) :
    splitWs (a ++ 32 :: (b ++ 32 :: c)) = [a, b, c] := by
  unfold splitWs
  have h32 : isWs 32 = true := by decide
  have ra : a.reverse ≠ [] := by simpa using ha.1
  have rb : b.reverse ≠ [] := by simpa using hb.1
  have rc : c.reverse ≠ [] := by simpa using hc.1
  rw [splitWsAux_token ha.2]
  simp only [List.append_nil, splitWsAux, h32, if_true, ra, if_false, List.reverse_reverse]
  rw [splitWsAux_token hb.2]
  simp only [List.append_nil, splitWsAux, h32, if_true, rb, if_false, List.reverse_reverse]
  have := splitWsAux_token hc.2 [] []
  simp only [List.append_nil] at this
  rw [this]
  simp [splitWsAux, rc]

/-- **Request line**: `METHOD SP target SP version` is read as its three tokens. -/
theorem parseRequestLine_canon {m u v : Bytes} (hm : methods.contains m = true) (hu : token u) (hv : token v)
    (hver : startsWith sHTTP v = true) :
    parseRequestLine (m ++ 32 :: (u ++ 32 :: v)) = .ok (m, u, v) := by
  have hmt : token m := by
    simp only [methods, List.contains_cons, List.contains_nil, Bool.or_false, Bool.or_eq_true, beq_iff_eq] at hm
    rcases hm with rfl | rfl | rfl | rfl | rfl | rfl | rfl | rfl | rfl <;> exact ⟨by simp, by decide⟩
  unfold parseRequestLine
  have hne : m ++ 32 :: (u ++ 32 :: v) ≠ [] := by simp
  have hm' : m ∈ methods := by simpa using hm
  simp [hne, splitWs_three hmt hu hv, nth, hver, hm']

/-! ### chunk size lines: hexadecimal digits -/

/-- lower-case hexadecimal digit character of a value below 16 -/
def hexChar (d : Nat) : Nat := if d < 10 then 48 + d else 87 + d

def hexValue (ds : List Nat) : Nat := ds.foldl (fun a d => a * 16 + d) 0

theorem digitVal_hexChar {d : Nat} (h : d < 16) : digitVal 16 (hexChar d) = some d := by
  unfold digitVal hexVal hexChar
  by_cases h10 : d < 10
  · have h1 : 48 ≤ 48 + d ∧ 48 + d ≤ 57 := by omega
    simp [h10, h1, h]
  · have h1 : ¬ (48 ≤ 87 + d ∧ 87 + d ≤ 57) := by omega
    have h2 : 97 ≤ 87 + d ∧ 87 + d ≤ 102 := by omega
    have h3 : 87 + d - 87 = d := by omega
    simp [h10, h1, h2, h3, h]

theorem digitsB_hex : ∀ (ds : List Nat) (acc cnt : Nat), (∀ d ∈ ds, d < 16) → 0 < cnt + ds.length →
    digitsB 16 (ds.map hexChar) acc cnt false =
      some (ds.foldl (fun a d => a * 16 + d) acc, cnt + ds.length) := by
  intro ds
  induction ds with
  | nil => intro acc cnt _ h; simp at h; simp [digitsB]; omega
  | cons d ds ih =>
    intro acc cnt hd _
    simp only [List.map_cons, digitsB, digitVal_hexChar (hd d (by simp)), List.foldl_cons]
    rw [ih _ _ (fun x hx => hd x (by simp [hx])) (by omega)]
    simp; omega

theorem hexChar_not_special {d : Nat} (h : d < 16) :
    isAsciiWs (hexChar d) = false ∧ hexChar d ≠ 59 ∧ hexChar d ≠ 45 ∧ hexChar d ≠ 43 ∧
    hexChar d ≠ 120 ∧ hexChar d ≠ 88 ∧ hexChar d < 128 := by
  unfold hexChar isAsciiWs
  by_cases h10 : d < 10
  · simp only [h10, if_true]
    refine ⟨?_, ?_, ?_, ?_, ?_, ?_, ?_⟩ <;> (try simp) <;> omega
  · simp only [h10, if_false]
    refine ⟨?_, ?_, ?_, ?_, ?_, ?_, ?_⟩ <;> (try simp) <;> omega

theorem partition_absent {sep : Nat} {s : Bytes} (h : ∀ b ∈ s, b ≠ sep) : partition sep s = (s, false, []) := by
  induction s with
  | nil => rfl
  | cons c s ih =>
    have hc := h c (by simp)
    simp [partition, hc, ih (fun b hb => h b (by simp [hb]))]

theorem stripWith_id {p : Nat → Bool} {s : Bytes} (h : ∀ b ∈ s, p b = false) : stripWith p s = s := by
  have ht : trimmed p s := ⟨fun x hx => h x (List.mem_of_mem_head? hx), fun x hx => h x (List.mem_of_mem_getLast? hx)⟩
  have := stripWith_pad (p := p) (a := []) (b := []) (v := s) (by simp) (by simp) ht
  simpa using this

/-- **Chunk size line**: the size written in lower-case hexadecimal digits (no extension) is read
as that number. -/
theorem chunkLine_hex {ds : List Nat} (hne : ds ≠ []) (hd : ∀ d ∈ ds, d < 16) :
    chunkLine (ds.map hexChar) = .ok ((hexValue ds : Int), []) := by
  have hs : ∀ b ∈ ds.map hexChar, isAsciiWs b = false ∧ b ≠ 59 ∧ b ≠ 45 ∧ b ≠ 43 ∧ b ≠ 120 ∧ b ≠ 88 ∧ b < 128 := by
    intro b hb
    obtain ⟨d, hdm, rfl⟩ := List.mem_map.mp hb
    exact hexChar_not_special (hd d hdm)
  unfold chunkLine
  rw [partition_absent (fun b hb => (hs b hb).2.1)]
  have hstrip : bstrip (ds.map hexChar) = ds.map hexChar := stripWith_id (fun b hb => (hs b hb).1)
  simp only [hstrip]
  have hany : (ds.map hexChar).any (fun b => decide (128 ≤ b)) = false := by
    rw [List.any_eq_false]; intro b hb; have := (hs b hb).2.2.2.2.2.2; simp; omega
  simp only [hany, Bool.false_eq_true, if_false]
  -- int(s, 16)
  have hint : pyIntHex (ds.map hexChar) = some (hexValue ds : Int) := by
    unfold pyIntHex
    have h1 : stripWith isAsciiWs (ds.map hexChar) = ds.map hexChar := hstrip
    simp only [h1]
    cases hds : ds with
    | nil => exact absurd hds hne
    | cons d0 dr =>
      have h0 := hs (hexChar d0) (by simp [hds])
      have hsign : takeSign (hexChar d0 :: dr.map hexChar) = (false, hexChar d0 :: dr.map hexChar) := by
        simp [takeSign, h0.2.2.1, h0.2.2.2.1]
      have hpre : dropHexPrefix (hexChar d0 :: dr.map hexChar) = hexChar d0 :: dr.map hexChar := by
        cases dr with
        | nil => rfl
        | cons d1 dr' =>
          have h1' := hs (hexChar d1) (by simp [hds])
          simp [dropHexPrefix, h1'.2.2.2.2.1, h1'.2.2.2.2.2.1]
      simp only [List.map_cons, hsign, hpre]
      have := digitsB_hex (d0 :: dr) 0 0 (by rw [← hds]; exact hd) (by simp)
      simp only [List.map_cons] at this
      rw [this]
      simp [hexValue]
  simp [hint]

/-! ### status lines: `version SP 3DIGIT [SP reason]` -/

def decChar (d : Nat) : Nat := 48 + d

def decValue (ds : List Nat) : Nat := ds.foldl (fun a d => a * 10 + d) 0

theorem digitVal_decChar {d : Nat} (h : d < 10) : digitVal 10 (decChar d) = some d := by
  unfold digitVal hexVal decChar
  have h1 : 48 ≤ 48 + d ∧ 48 + d ≤ 57 := by omega
  simp [h1, h]

theorem digitsB_dec : ∀ (ds : List Nat) (acc cnt : Nat), (∀ d ∈ ds, d < 10) → 0 < cnt + ds.length →
    digitsB 10 (ds.map decChar) acc cnt false =
      some (ds.foldl (fun a d => a * 10 + d) acc, cnt + ds.length) := by
  intro ds
  induction ds with
  | nil => intro acc cnt _ h; simp at h; simp [digitsB]; omega
  | cons d ds ih =>
    intro acc cnt hd _
    simp only [List.map_cons, digitsB, digitVal_decChar (hd d (by simp)), List.foldl_cons]
    rw [ih _ _ (fun x hx => hd x (by simp [hx])) (by omega)]
    simp; omega

theorem decChar_plain {d : Nat} (h : d < 10) :
    isAsciiWs (decChar d) = false ∧ isWs (decChar d) = false ∧ decChar d ≠ 45 ∧ decChar d ≠ 43 ∧
    decChar d ≠ 0x85 ∧ decChar d ≠ 0xA0 := by
  unfold decChar isAsciiWs isWs
  refine ⟨?_, ?_, ?_, ?_, ?_, ?_⟩ <;> (try simp) <;> omega

/-- `int(text)` of a decimal numeral of at most 4300 digits -/
theorem pyInt_dec {ds : List Nat} (hne : ds ≠ []) (hd : ∀ d ∈ ds, d < 10) (hlen : ds.length ≤ maxStrDigits) :
    pyInt (ds.map decChar) = some (decValue ds : Int) := by
  have hs : ∀ b ∈ ds.map decChar, isAsciiWs b = false ∧ isWs b = false ∧ b ≠ 45 ∧ b ≠ 43 ∧ b ≠ 0x85 ∧ b ≠ 0xA0 := by
    intro b hb
    obtain ⟨d, hdm, rfl⟩ := List.mem_map.mp hb
    exact decChar_plain (hd d hdm)
  unfold pyInt
  have hmap : (ds.map decChar).map (fun b => if b = 0x85 ∨ b = 0xA0 then 32 else b) = ds.map decChar := by
    rw [List.map_congr_left (g := id)]
    · simp
    · intro b hb; have := hs b hb; simp [this.2.2.2.2.1, this.2.2.2.2.2]
  simp only [hmap]
  have hstrip : stripWith isAsciiWs (ds.map decChar) = ds.map decChar := stripWith_id (fun b hb => (hs b hb).1)
  simp only [hstrip]
  cases hds : ds with
  | nil => exact absurd hds hne
  | cons d0 dr =>
    have h0 := hs (decChar d0) (by simp [hds])
    have hsign : takeSign (decChar d0 :: dr.map decChar) = (false, decChar d0 :: dr.map decChar) := by
      simp [takeSign, h0.2.2.1, h0.2.2.2.1]
    simp only [List.map_cons, hsign]
    have := digitsB_dec (d0 :: dr) 0 0 (by rw [← hds]; exact hd) (by simp)
    simp only [List.map_cons] at this
    rw [this]
    have hl : dr.length + 1 ≤ maxStrDigits := by have := hlen; rw [hds] at this; simpa using this
    simp [decValue]; exact hl

theorem decChar_token {ds : List Nat} (hne : ds ≠ []) (hd : ∀ d ∈ ds, d < 10) : token (ds.map decChar) := by
  refine ⟨by simpa using hne, ?_⟩
  intro x hx
  obtain ⟨d, hdm, rfl⟩ := List.mem_map.mp hx
  exact (decChar_plain (hd d hdm)).2.1

theorem splitWs_two_rest {a b : Bytes} (ha : token a) (hb : token b) (r : Bytes) :
    splitWs (a ++ 32 :: (b ++ 32 :: r)) = a :: b :: splitWs r := by
  unfold splitWs
  have h32 : isWs 32 = true := by decide
  have ra : a.reverse ≠ [] := by simpa using ha.1
  have rb : b.reverse ≠ [] := by simpa using hb.1
  rw [splitWsAux_token ha.2]
  simp only [List.append_nil, splitWsAux, h32, if_true, ra, if_false, List.reverse_reverse]
  rw [splitWsAux_token hb.2]
  simp only [List.append_nil, splitWsAux, h32, if_true, rb, if_false, List.reverse_reverse]

theorem splitWs_two {a b : Bytes} (ha : token a) (hb : token b) :
    splitWs (a ++ 32 :: b) = [a, b] := by
  unfold splitWs
  have h32 : isWs 32 = true := by decide
  have ra : a.reverse ≠ [] := by simpa using ha.1
  have rb : b.reverse ≠ [] := by simpa using hb.1
  rw [splitWsAux_token ha.2]
  simp only [List.append_nil, splitWsAux, h32, if_true, ra, if_false, List.reverse_reverse]
  have := splitWsAux_token hb.2 [] []
  simp only [List.append_nil] at this
  rw [this]
  simp [splitWsAux, rb]

/-- **Status line** `version SP code SP reason`: version token starting with `HTTP/`, a decimal code
of any number of digits with value 100…999 (three digits), `reason` ANY bytes (the parser re-joins
its words with single blanks). -/
theorem parseStatusLine_canon {v reason : Bytes} {ds : List Nat} (hv : token v) (hver : startsWith sHTTP v = true)
    (hne : ds ≠ []) (hd : ∀ d ∈ ds, d < 10) (hlen : ds.length ≤ maxStrDigits)
    (hlo : 100 ≤ decValue ds) (hhi : decValue ds ≤ 999) :
    parseStatusLine (v ++ 32 :: (ds.map decChar ++ 32 :: reason)) =
      .ok (v, decValue ds, joinSp (splitWs reason)) := by
  unfold parseStatusLine
  have hne' : v ++ 32 :: (ds.map decChar ++ 32 :: reason) ≠ [] := by simp
  have hsp := splitWs_two_rest hv (decChar_token hne hd) reason
  simp only [hne', if_false, hsp, nth]
  simp [hver, pyInt_dec hne hd hlen]
  omega

/-- … and without a reason phrase -/
theorem parseStatusLine_canon_noreason {v : Bytes} {ds : List Nat} (hv : token v) (hver : startsWith sHTTP v = true)
    (hne : ds ≠ []) (hd : ∀ d ∈ ds, d < 10) (hlen : ds.length ≤ maxStrDigits)
    (hlo : 100 ≤ decValue ds) (hhi : decValue ds ≤ 999) :
    parseStatusLine (v ++ 32 :: ds.map decChar) = .ok (v, decValue ds, []) := by
  unfold parseStatusLine
  have hne' : v ++ 32 :: ds.map decChar ≠ [] := by simp
  have hsp := splitWs_two hv (decChar_token hne hd)
  simp only [hne', if_false, hsp, nth]
  simp [hver, pyInt_dec hne hd hlen, joinSp]
  omega

/-! ### chunk size lines with extensions -/

theorem chunkSize_part {ds : List Nat} (hne : ds ≠ []) (hd : ∀ d ∈ ds, d < 16) :
    bstrip (ds.map hexChar) = ds.map hexChar ∧
    (ds.map hexChar).any (fun b => decide (128 ≤ b)) = false ∧
    pyIntHex (ds.map hexChar) = some (hexValue ds : Int) := by
  have h := chunkLine_hex hne hd
  have hs : ∀ b ∈ ds.map hexChar, isAsciiWs b = false ∧ b ≠ 59 ∧ b ≠ 45 ∧ b ≠ 43 ∧ b ≠ 120 ∧ b ≠ 88 ∧ b < 128 := by
    intro b hb
    obtain ⟨d, hdm, rfl⟩ := List.mem_map.mp hb
    exact hexChar_not_special (hd d hdm)
  have hstrip : bstrip (ds.map hexChar) = ds.map hexChar := stripWith_id (fun b hb => (hs b hb).1)
  have hany : (ds.map hexChar).any (fun b => decide (128 ≤ b)) = false := by
    rw [List.any_eq_false]; intro b hb; have := (hs b hb).2.2.2.2.2.2; simp; omega
  refine ⟨hstrip, hany, ?_⟩
  unfold chunkLine at h
  rw [partition_absent (fun b hb => (hs b hb).2.1)] at h
  simp only [hstrip, hany, Bool.false_eq_true, if_false] at h
  cases hp : pyIntHex (ds.map hexChar) with
  | none => simp [hp] at h
  | some n => simp [hp] at h; simp [h]

/-- **Chunk size line with extensions**: `hex ; ext` is read as the size `hex`, whatever the
extension text is, and the extensions as the parser's `parseExts` of that text. -/
theorem chunkLine_ext {ds : List Nat} (hne : ds ≠ []) (hd : ∀ d ∈ ds, d < 16) (ext : Bytes) :
    chunkLine (ds.map hexChar ++ 59 :: ext) =
      .ok ((hexValue ds : Int), if ext = [] then [] else parseExts ext) := by
  obtain ⟨h1, h2, h3⟩ := chunkSize_part hne hd
  have hs : ∀ b ∈ ds.map hexChar, b ≠ 59 := by
    intro b hb
    obtain ⟨d, hdm, rfl⟩ := List.mem_map.mp hb
    exact (hexChar_not_special (hd d hdm)).2.1
  unfold chunkLine
  rw [partition_name hs]
  simp only [h1, h2, Bool.false_eq_true, if_false, h3]

end Ioflo.Http
