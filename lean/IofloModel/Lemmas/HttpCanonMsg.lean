import IofloModel.Lemmas.HttpScript
import IofloModel.Lemmas.HttpCanon
/-! Canonically written HTTP messages: the reading hypotheses of the C29 theorems (`ReqHead`,
`RspHead`, `Chunk.wf`, framing) discharged from the way the message is written. -/
namespace Ioflo.Http

/-! ### header lines -/

/-- a header line as written: `name ":" OWS value OWS` -/
structure HLine where
  name : Bytes
  ows1 : Bytes
  value : Bytes
  ows2 : Bytes

def HLine.bytes (h : HLine) : Bytes := h.name ++ 58 :: (h.ows1 ++ (h.value ++ h.ows2))

/-- blanks and tabs -/
def blank (o : Bytes) : Prop := ∀ x ∈ o, x = 32 ∨ x = 9

/-- field name without colon, CR, LF; optional white space of blanks and tabs; a value without CR, LF
and without white space at its ends -/
def HLine.ok (h : HLine) : Prop :=
  (∀ b ∈ h.name, b ≠ 58 ∧ b ≠ 10 ∧ b ≠ 13) ∧ blank h.ows1 ∧ blank h.ows2 ∧ cleanLine h.value ∧
  trimmed isWs h.value

/-- the header dictionary the lines denote: lower-cased names, later lines replace earlier ones -/
def hdrsOf (H0 : Hdrs) (hs : List HLine) : Hdrs := hs.foldl (fun H h => H.set h.name h.value) H0

theorem blank_isWs {o : Bytes} (h : blank o) : ∀ x ∈ o, isWs x = true := by
  intro x hx; rcases h x hx with rfl | rfl <;> decide

theorem blank_clean {o : Bytes} (h : blank o) : cleanLine o := by
  intro x hx; rcases h x hx with rfl | rfl <;> decide

theorem cleanLine_append {a b : Bytes} (ha : cleanLine a) (hb : cleanLine b) : cleanLine (a ++ b) := by
  intro x hx; rcases List.mem_append.mp hx with h | h
  · exact ha x h
  · exact hb x h

theorem HLine.clean {h : HLine} (hk : h.ok) : cleanLine h.bytes := by
  obtain ⟨h1, h2, h3, h4, _⟩ := hk
  unfold HLine.bytes
  apply cleanLine_append (fun b hb => ⟨(h1 b hb).2.1, (h1 b hb).2.2⟩)
  intro x hx
  rcases List.mem_cons.mp hx with rfl | hx
  · decide
  · exact cleanLine_append (blank_clean h2) (cleanLine_append h4 (blank_clean h3)) x hx

theorem setKey_length_le {β : Type} (k : Bytes) (v : β) (l : List (Bytes × β)) :
    (setKey k v l).length ≤ l.length + 1 := by
  induction l with
  | nil => simp [setKey]
  | cons p l ih =>
    obtain ⟨k', v'⟩ := p
    by_cases hk : k' = k <;> simp [setKey, hk]; omega

theorem foldHdr_canon : ∀ (hs : List HLine) (H0 : Hdrs), (∀ h ∈ hs, h.ok) → H0.length + hs.length ≤ MAX_HEADERS →
    foldHdr H0 (hs.map HLine.bytes) = some (hdrsOf H0 hs) := by
  intro hs
  induction hs with
  | nil => intro H0 _ _; rfl
  | cons h hs ih =>
    intro H0 hok hlen
    have hk := hok h (by simp)
    have hlen1 : (H0.set h.name h.value).length ≤ H0.length + 1 := setKey_length_le _ _ _
    simp only [List.length_cons] at hlen
    have hl := headerLine_ows (h := H0) (fun b hb => (hk.1 b hb).1) (blank_isWs hk.2.1) (blank_isWs hk.2.2.1)
      hk.2.2.2.2 (by omega)
    simp only [List.map_cons, foldHdr, HLine.bytes, hl, hdrsOf, List.foldl_cons]
    exact ih _ (fun g hg => hok g (by simp [hg])) (by omega)

theorem goodLine_canon {max : Nat} {h : HLine} (hk : h.ok) (hlen : h.bytes.length < max) : goodLine max h.bytes :=
  ⟨HLine.clean hk, by simp [HLine.bytes], hlen⟩

/-! ### looking a name up in the dictionary of the lines -/

theorem find_setKey_ne {k k' : Bytes} (hne : k' ≠ k) (v : Bytes) (l : Hdrs) :
    (setKey k' v l).find? (fun p => p.1 = k) = l.find? (fun p => p.1 = k) := by
  induction l with
  | nil => simp [setKey, hne]
  | cons p l ih =>
    obtain ⟨a, b⟩ := p
    by_cases ha : a = k'
    · subst ha; simp [setKey, hne]
    · by_cases hak : a = k
      · subst hak; simp [setKey, ha]
      · simp [setKey, ha, hak, ih]

theorem get_hdrsOf_other {k : Bytes} : ∀ (hs : List HLine) (H0 : Hdrs), (∀ h ∈ hs, lower h.name ≠ k) →
    (hdrsOf H0 hs).get k = H0.get k := by
  intro hs
  induction hs with
  | nil => intro H0 _; rfl
  | cons h hs ih =>
    intro H0 hne
    simp only [hdrsOf, List.foldl_cons]
    have := ih (H0.set h.name h.value) (fun g hg => hne g (by simp [hg]))
    simp only [hdrsOf] at this
    rw [this]
    unfold Hdrs.get Hdrs.set
    rw [find_setKey_ne (hne h (by simp))]

theorem hget_first {k : Bytes} (f : HLine) (hs : List HLine) (hf : lower f.name = k) (hv : f.value ≠ [])
    (hne : ∀ h ∈ hs, lower h.name ≠ k) : hget (hdrsOf [] (f :: hs)) k = some f.value := by
  unfold hget
  simp only [hdrsOf, List.foldl_cons]
  have := get_hdrsOf_other hs (Hdrs.set [] f.name f.value) hne
  simp only [hdrsOf] at this
  rw [this]
  simp [Hdrs.get, Hdrs.set, setKey, hf, hv]

theorem hget_absent {k : Bytes} (hs : List HLine) (hne : ∀ h ∈ hs, lower h.name ≠ k) :
    hget (hdrsOf [] hs) k = none := by
  unfold hget
  rw [get_hdrsOf_other hs [] hne]
  simp [Hdrs.get]

/-! ### start lines -/

theorem token_clean {t : Bytes} (h : token t) : cleanLine t := by
  intro b hb
  have := h.2 b hb
  constructor <;> (intro e; subst e; simp [isWs] at this)

/-- `HTTP/1.1` or `HTTP/1.0` -/
def verBytes (v11 : Bool) : Bytes := if v11 then [72, 84, 84, 80, 47, 49, 46, 49] else [72, 84, 84, 80, 47, 49, 46, 48]

theorem verBytes_facts (v11 : Bool) : token (verBytes v11) ∧ startsWith sHTTP (verBytes v11) = true ∧
    startsWith sHTTP1 (verBytes v11) = true ∧ rspVersion (verBytes v11) = some (if v11 then (1, 1) else (1, 0)) ∧
    reqVersion (verBytes v11) = some (if v11 then (1, 1) else (1, 0)) := by
  cases v11 <;> refine ⟨⟨by decide, by decide⟩, by decide, by decide, by decide, by decide⟩

/-- an origin-form request target: starts with one `/` -/
def originForm (u : Bytes) : Prop := token u ∧ ∃ r, u = 47 :: r ∧ r.head? ≠ some 47

theorem urlCheck_origin {u : Bytes} (h : originForm u) : urlCheck (strip u) = .ok := by
  obtain ⟨ht, r, rfl, hr⟩ := h
  have hs : strip (47 :: r) = 47 :: r := stripWith_id (fun b hb => ht.2 b hb)
  rw [hs]
  unfold urlCheck
  have hd : (47 :: r).dropWhile (fun b => decide (b ≤ 32)) = 47 :: r := by simp
  simp only [hd]
  have hp : (partition 58 (47 :: r)).1 = 47 :: (partition 58 r).1 := by simp [partition]
  have halpha : isAlpha 47 = false := by decide
  simp only [hp, halpha, Bool.and_false, Bool.false_and, Bool.false_eq_true, if_false]
  cases r with
  | nil => rfl
  | cons c r' =>
    have : c ≠ 47 := by simpa using hr
    split
    · rename_i heq; simp at heq; exact absurd heq.1 this
    · rfl

theorem reqLine_canon {max : Nat} {m u : Bytes} (v11 : Bool) (hm : methods.contains m = true) (hu : originForm u)
    (hlen : (m ++ 32 :: (u ++ 32 :: verBytes v11)).length < max) (ls : List Bytes) (H : Hdrs)
    (hls : ∀ l ∈ ls, goodLine max l) (hH : foldHdr [] ls = some H) :
    ReqHead max (m ++ 32 :: (u ++ 32 :: verBytes v11)) ls m u (verBytes v11) H := by
  obtain ⟨hvt, hv1, hv2, _, _⟩ := verBytes_facts v11
  have hmt : token m := by
    simp only [methods, List.contains_cons, List.contains_nil, Bool.or_false, Bool.or_eq_true, beq_iff_eq] at hm
    rcases hm with rfl | rfl | rfl | rfl | rfl | rfl | rfl | rfl | rfl <;> exact ⟨by simp, by decide⟩
  refine ⟨?_, hlen, parseRequestLine_canon hm hu.1 hvt hv1, hv2, urlCheck_origin hu, hls, hH⟩
  apply cleanLine_append (token_clean hmt)
  intro x hx
  rcases List.mem_cons.mp hx with rfl | hx
  · decide
  · refine cleanLine_append (token_clean hu.1) ?_ x hx
    intro y hy
    rcases List.mem_cons.mp hy with rfl | hy
    · decide
    · exact token_clean hvt y hy

/-! ### framing headers -/

/-- the `Content-Length` line: any spelling of the name, a decimal numeral -/
def isCLLine (f : HLine) (ds : List Nat) : Prop :=
  lower f.name = sCL ∧ f.value = ds.map decChar ∧ ds ≠ [] ∧ (∀ d ∈ ds, d < 10) ∧ ds.length ≤ maxStrDigits

/-- the `Transfer-Encoding: chunked` line, any spelling of name and value -/
def isTELine (f : HLine) : Prop := lower f.name = sTE ∧ lower f.value = sChunked

/-- lines that do not touch framing or content type -/
def plainLines (hs : List HLine) : Prop :=
  ∀ h ∈ hs, lower h.name ≠ sCL ∧ lower h.name ≠ sTE ∧ lower h.name ≠ sCT

theorem framing_length {f : HLine} {ds : List Nat} {hs : List HLine} (hf : isCLLine f ds) (hp : plainLines hs) :
    isChunked (hdrsOf [] (f :: hs)) = false ∧ reqLen (hdrsOf [] (f :: hs)) = some (decValue ds) ∧
    hget (hdrsOf [] (f :: hs)) sCL = some f.value ∧ isEvented (hdrsOf [] (f :: hs)) = false := by
  obtain ⟨h1, h2, h3, h4, h5⟩ := hf
  have hvne : f.value ≠ [] := by rw [h2]; simpa using h3
  have hcl := hget_first f hs h1 hvne (fun h hh => (hp h hh).1)
  have hte : hget (hdrsOf [] (f :: hs)) sTE = none := by
    apply hget_absent
    intro h hh
    rcases List.mem_cons.mp hh with rfl | hh
    · rw [h1]; decide
    · exact (hp h hh).2.1
  have hct : hget (hdrsOf [] (f :: hs)) sCT = none := by
    apply hget_absent
    intro h hh
    rcases List.mem_cons.mp hh with rfl | hh
    · rw [h1]; decide
    · exact (hp h hh).2.2
  refine ⟨by simp [isChunked, hte], ?_, hcl, by simp [isEvented, hct]⟩
  simp only [reqLen, hcl, lengthOf, h2, pyInt_dec h3 h4 h5]
  simp

theorem framing_chunked {f : HLine} {hs : List HLine} (hf : isTELine f) (hp : plainLines hs) :
    isChunked (hdrsOf [] (f :: hs)) = true ∧ isEvented (hdrsOf [] (f :: hs)) = false := by
  obtain ⟨h1, h2⟩ := hf
  have hvne : f.value ≠ [] := by
    intro e; rw [e] at h2; simp [lower, sChunked] at h2
  have hte := hget_first f hs h1 hvne (fun h hh => (hp h hh).2.1)
  have hct : hget (hdrsOf [] (f :: hs)) sCT = none := by
    apply hget_absent
    intro h hh
    rcases List.mem_cons.mp hh with rfl | hh
    · rw [h1]; decide
    · exact (hp h hh).2.2
  exact ⟨by simp [isChunked, hte, h2], by simp [isEvented, hct]⟩

/-- head lines of a canonical message: framing line first, then plain lines -/
theorem head_lines {max : Nat} (f : HLine) (hs : List HLine) (hok : ∀ h ∈ f :: hs, h.ok ∧ h.bytes.length < max)
    (hn : hs.length < MAX_HEADERS) :
    (∀ l ∈ (f :: hs).map HLine.bytes, goodLine max l) ∧
    foldHdr [] ((f :: hs).map HLine.bytes) = some (hdrsOf [] (f :: hs)) := by
  constructor
  · intro l hl
    obtain ⟨h, hh, rfl⟩ := List.mem_map.mp hl
    exact goodLine_canon (hok h hh).1 (hok h hh).2
  · exact foldHdr_canon (f :: hs) [] (fun h hh => (hok h hh).1) (by simp; omega)

/-! ### chunks -/

/-- a chunk as written: hexadecimal size, maybe `;` and extension text, the data -/
structure CChunk where
  ds : List Nat
  ext : Option Bytes
  data : Bytes

def CChunk.sizeLine (k : CChunk) : Bytes :=
  match k.ext with
  | none => k.ds.map hexChar
  | some e => k.ds.map hexChar ++ 59 :: e

def CChunk.pm (k : CChunk) : Parms :=
  match k.ext with
  | none => []
  | some e => if e = [] then [] else parseExts e

def CChunk.toChunk (k : CChunk) : Chunk := ⟨k.sizeLine, k.pm, k.data⟩

/-- hex digits, size = length of the data, extension text without CR / LF -/
def CChunk.ok (max : Nat) (k : CChunk) : Prop :=
  k.ds ≠ [] ∧ (∀ d ∈ k.ds, d < 16) ∧ hexValue k.ds = k.data.length ∧
  (∀ e, k.ext = some e → cleanLine e) ∧ k.sizeLine.length < max

theorem hex_clean {ds : List Nat} (hd : ∀ d ∈ ds, d < 16) : cleanLine (ds.map hexChar) := by
  intro b hb
  obtain ⟨d, hdm, rfl⟩ := List.mem_map.mp hb
  have := (hexChar_not_special (hd d hdm)).1
  constructor <;> (intro e; rw [e] at this; simp [isAsciiWs] at this)

theorem CChunk.line {max : Nat} {k : CChunk} (hk : k.ok max) :
    cleanLine k.sizeLine ∧ chunkLine k.sizeLine = .ok ((k.data.length : Int), k.pm) := by
  obtain ⟨h1, h2, h3, h4, _⟩ := hk
  unfold CChunk.sizeLine CChunk.pm
  cases he : k.ext with
  | none =>
    simp only []
    refine ⟨hex_clean h2, ?_⟩
    rw [chunkLine_hex h1 h2, h3]
  | some e =>
    simp only []
    refine ⟨?_, ?_⟩
    · apply cleanLine_append (hex_clean h2)
      intro x hx
      rcases List.mem_cons.mp hx with rfl | hx
      · decide
      · exact h4 e he x hx
    · rw [chunkLine_ext h1 h2, h3]

theorem CChunk.wf {max : Nat} {k : CChunk} (hk : k.ok max) (hne : k.data ≠ []) : k.toChunk.wf max := by
  obtain ⟨h1, h2⟩ := CChunk.line hk
  exact ⟨h1, hk.2.2.2.2, h2, hne⟩

/-! ### status line -/

theorem rspLine_clean {reason : Bytes} {ds : List Nat} (v11 : Bool) (hd : ∀ d ∈ ds, d < 10) (hne : ds ≠ [])
    (hr : cleanLine reason) : cleanLine (verBytes v11 ++ 32 :: (ds.map decChar ++ 32 :: reason)) := by
  apply cleanLine_append (token_clean (verBytes_facts v11).1)
  intro x hx
  rcases List.mem_cons.mp hx with rfl | hx
  · decide
  · refine cleanLine_append (token_clean (decChar_token hne hd)) ?_ x hx
    intro y hy
    rcases List.mem_cons.mp hy with rfl | hy
    · decide
    · exact hr y hy

end Ioflo.Http
