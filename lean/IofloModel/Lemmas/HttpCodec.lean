import IofloModel.Model.HttpCodec
/-!
Helper lemmas for C30 (HTTP codec model): line splitting, hexadecimal sizes, header lines.
-/
namespace Ioflo.HttpCodec

scoped instance {ε α : Type} [DecidableEq ε] [DecidableEq α] : DecidableEq (Except ε α) := fun a b =>
  match a, b with
  | .ok x, .ok y => if h : x = y then isTrue (by rw [h]) else isFalse (fun he => h (by cases he; rfl))
  | .error x, .error y => if h : x = y then isTrue (by rw [h]) else isFalse (fun he => h (by cases he; rfl))
  | .ok _, .error _ => isFalse (fun he => by cases he)
  | .error _, .ok _ => isFalse (fun he => by cases he)

theorem splitCRLF_append (l rest : Bytes) (h : 13 ∉ l) : splitCRLF (l ++ 13 :: 10 :: rest) = some (l, rest) := by
  induction l with
  | nil => simp [splitCRLF]
  | cons a l ih =>
    have ha : a ≠ 13 := fun e => h (by simp [e])
    have hl : 13 ∉ l := fun e => h (by simp [e])
    cases l with
    | nil => simp [splitCRLF, ha]
    | cons b l' =>
      have := ih hl
      simp only [List.cons_append] at this ⊢
      simp [splitCRLF, ha, this]

theorem dropWhile_all_false {α : Type} (p : α → Bool) (l : List α) (h : ∀ x ∈ l, p x = false) : l.dropWhile p = l := by
  cases l with
  | nil => rfl
  | cons a t => simp [List.dropWhile, h a (by simp)]

theorem stripN_id (t : Bytes) (h : ∀ b ∈ t, isWsN b = false) : stripN t = t := by
  unfold stripN
  rw [dropWhile_all_false _ _ h, dropWhile_all_false _ _ (by intro x hx; exact h x (by simpa using hx))]
  simp

def isHexLower (b : Nat) : Prop := (48 ≤ b ∧ b ≤ 57) ∨ (97 ≤ b ∧ b ≤ 102)

theorem hexDigitN_lower (d : Nat) (h : d < 16) : isHexLower (hexDigitN d) := by
  unfold isHexLower hexDigitN; split <;> omega

theorem toHex_lower (n : Nat) : ∀ b ∈ toHex n, isHexLower b := by
  induction n using Nat.strongRecOn with
  | _ n ih =>
    rw [toHex]
    split
    · intro b hb; simp at hb; subst hb; exact hexDigitN_lower _ (by assumption)
    · intro b hb
      simp only [List.mem_append, List.mem_singleton] at hb
      rcases hb with hb | hb
      · exact ih (n / 16) (by omega) b hb
      · subst hb; exact hexDigitN_lower _ (by omega)

theorem hexVal_hexDigitN (d : Nat) (h : d < 16) : hexVal? (hexDigitN d) = some d := by
  unfold hexVal? hexDigitN
  split <;> (split <;> (try split) <;> (try split) <;> simp <;> omega)


theorem hexDigits_append (xs ys : Bytes) (a : Nat) :
    hexDigits? (xs ++ ys) a = (hexDigits? xs a).bind (fun v => hexDigits? ys v) := by
  induction xs generalizing a with
  | nil => simp [hexDigits?]
  | cons x xs ih =>
    simp only [List.cons_append, hexDigits?]
    cases hexVal? x with
    | none => simp
    | some v => simp [ih]

theorem hexDigits_toHex (n : Nat) : hexDigits? (toHex n) 0 = some n := by
  induction n using Nat.strongRecOn with
  | _ n ih =>
    rw [toHex]
    split
    · rename_i h
      simp [hexDigits?, hexVal_hexDigitN n h]
    · rename_i h
      rw [hexDigits_append, ih (n / 16) (by omega)]
      simp [hexDigits?, hexVal_hexDigitN (n % 16) (by omega)]
      omega

theorem toHex_ne_nil (n : Nat) : toHex n ≠ [] := by
  rw [toHex]; split <;> simp


theorem toHex_length_le (k n : Nat) (h : n < 16 ^ (k + 1)) : (toHex n).length ≤ k + 1 := by
  induction k generalizing n with
  | zero =>
    rw [toHex]
    have : n < 16 := by simpa using h
    simp [this]
  | succ k ih =>
    rw [toHex]
    split
    · simp
    · have : n / 16 < 16 ^ (k + 1) := by
        rw [Nat.div_lt_iff_lt_mul (by decide)]
        rw [Nat.pow_succ] at h
        omega
      have := ih (n / 16) this
      simp; omega

theorem partitionN_not_mem (c : Nat) (l : Bytes) (h : c ∉ l) : partitionN c l = (l, false, []) := by
  induction l with
  | nil => rfl
  | cons a l ih =>
    have ha : a ≠ c := fun e => h (by simp [e])
    have hl : c ∉ l := fun e => h (by simp [e])
    simp [partitionN, ha, ih hl]


theorem partitionN_append (c : Nat) (l r : Bytes) (h : c ∉ l) : partitionN c (l ++ c :: r) = (l, true, r) := by
  induction l with
  | nil => simp [partitionN]
  | cons a l ih =>
    have ha : a ≠ c := fun e => h (by simp [e])
    have hl : c ∉ l := fun e => h (by simp [e])
    simp [partitionN, ha, ih hl]

theorem splitEol_append (l rest : Bytes) (h13 : 13 ∉ l) (h10 : 10 ∉ l) :
    splitEol (l ++ 13 :: 10 :: rest) = some (l, rest) := by
  induction l with
  | nil => simp [splitEol]
  | cons a l ih =>
    have ha13 : a ≠ 13 := fun e => h13 (by simp [e])
    have ha10 : a ≠ 10 := fun e => h10 (by simp [e])
    have := ih (fun e => h13 (by simp [e])) (fun e => h10 (by simp [e]))
    simp [splitEol, ha13, ha10, this]

theorem dropWhile_head_false {α : Type} (p : α → Bool) (l : List α) (h : ∀ a as, l = a :: as → p a = false) :
    l.dropWhile p = l := by
  cases l with
  | nil => rfl
  | cons a as => simp [List.dropWhile, h a as rfl]

theorem stripC_id (t : Str) (h : ∀ c ∈ t, isSpaceC c = false) : stripC t = t := by
  unfold stripC
  rw [dropWhile_all_false _ _ h, dropWhile_all_false _ _ (by intro x hx; exact h x (by simpa using hx))]
  simp

/-- text without a blank at either end -/
def Trimmed (v : Str) : Prop :=
  (match v.head? with | some a => isSpaceC a | none => false) = false
  ∧ (match v.reverse.head? with | some a => isSpaceC a | none => false) = false

/-- `" " + v` stripped is `v` again when `v` carries no blank at its ends -/
theorem stripC_space_cons (v : Str) (h : Trimmed v) : stripC (' ' :: v) = v := by
  unfold stripC
  have hsp : isSpaceC ' ' = true := by decide
  have h1 : (' ' :: v).dropWhile isSpaceC = v := by
    simp only [List.dropWhile, hsp]
    apply dropWhile_head_false
    intro a as e
    have := h.1
    rw [e] at this
    simpa using this
  rw [h1]
  have h2 : v.reverse.dropWhile isSpaceC = v.reverse := by
    apply dropWhile_head_false
    intro a as e
    have := h.2
    rw [e] at this
    simpa using this
  rw [h2]; simp

theorem titleAux_not_mem (c : Nat) (hc : isAlphaN c = false) (b : Bool) (l : Bytes) (h : c ∉ l) : c ∉ titleAux b l := by
  induction l generalizing b with
  | nil => simp [titleAux]
  | cons a l ih =>
    have ha : a ≠ c := fun e => h (by simp [e])
    have hl : c ∉ l := fun e => h (by simp [e])
    simp only [titleAux, List.mem_cons, not_or]
    refine ⟨?_, ih _ hl⟩
    intro e
    by_cases hal : isAlphaN a = true
    · simp only [hal, if_true] at e
      -- the image of a cased byte is cased, c is not
      have : isAlphaN c = true := by
        subst e
        unfold isAlphaN asciiLowerN asciiUpperN at *
        simp at hal ⊢
        split <;> (split <;> omega)
      simp [this] at hc
    · simp only [hal] at e
      exact ha (by simpa using e.symm)

theorem titleAux_length (b : Bool) (l : Bytes) : (titleAux b l).length = l.length := by
  induction l generalizing b with
  | nil => rfl
  | cons a l ih => simp [titleAux, ih]

/-- on ASCII, lower-casing undoes whatever `title` did -/
theorem lower_title_char : ∀ n, n < 128 →
    lowerC (Char.ofNat (asciiLowerN n)) = lowerC (Char.ofNat n) ∧ lowerC (Char.ofNat (asciiUpperN n)) = lowerC (Char.ofNat n) := by
  decide +kernel

theorem lower_decode_titleAux (b : Bool) (l : Bytes) (h : ∀ x ∈ l, x < 128) :
    lower (decodeLatin1 (titleAux b l)) = lower (decodeLatin1 l) := by
  induction l generalizing b with
  | nil => rfl
  | cons a l ih =>
    have ha : a < 128 := h a (by simp)
    have hl : ∀ x ∈ l, x < 128 := fun x hx => h x (by simp [hx])
    simp only [titleAux, decodeLatin1, lower, List.map_cons] at ih ⊢
    rw [ih _ hl]
    congr 1
    have := lower_title_char a ha
    split
    · split
      · exact this.1
      · exact this.2
    · rfl

theorem decode_encode (s : Str) : decodeLatin1 (s.map Char.toNat) = s := by
  unfold decodeLatin1
  induction s with
  | nil => rfl
  | cons c s ih => simp [List.map, ih, Char.ofNat_toNat]

theorem odSet_length_le {β : Type} (d : List (Str × β)) (k : Str) (v : β) : (odSet d k v).length ≤ d.length + 1 := by
  induction d with
  | nil => simp [odSet]
  | cons a d ih =>
    obtain ⟨k', v'⟩ := a
    simp only [odSet]
    split
    · simp
    · simp; omega


theorem parseLine_crlf (crlfOnly : Bool) (l rest : Bytes) (h13 : 13 ∉ l) (h10 : crlfOnly = false → 10 ∉ l)
    (hlen : l.length ≤ MAX_LINE_SIZE) :
    parseLine crlfOnly (l ++ 13 :: 10 :: rest) = .done l rest := by
  unfold parseLine lineRes
  have : ¬ l.length > MAX_LINE_SIZE := by omega
  cases crlfOnly with
  | true => simp [splitCRLF_append l rest h13, this]
  | false => simp [splitEol_append l rest h13 (h10 rfl), this]

theorem leaderLine_crlf (l rest : Bytes) (h13 : 13 ∉ l) (hlen : l.length ≤ MAX_LINE_SIZE) :
    leaderLine (l ++ 13 :: 10 :: rest) = .done l rest := by
  unfold leaderLine lineRes
  have : ¬ l.length > MAX_LINE_SIZE := by omega
  simp [splitCRLF_append l rest h13, this]

/-- a header name that `packHeader` and `parseLeader` agree on: ASCII without colon, CR, LF -/
def GoodName (n : Str) : Prop := ∀ c ∈ n, c.toNat < 128 ∧ c.toNat ≠ 58 ∧ c.toNat ≠ 13 ∧ c.toNat ≠ 10
/-- a header value: Latin-1 without CR, LF and without a blank at either end -/
def GoodValue (v : Str) : Prop := (∀ c ∈ v, c.toNat < 256 ∧ c.toNat ≠ 13 ∧ c.toNat ≠ 10) ∧ Trimmed v

/-- the line `packHeader(name, value)` writes -/
def headerLine (n v : Str) : Bytes := title (n.map Char.toNat) ++ [58, 32] ++ v.map Char.toNat

theorem packHeader_good {n v : Str} (hn : GoodName n) (hv : GoodValue v) :
    packHeader n [.str v] = .ok (headerLine n v) := by
  have h1 : n.all (fun c => decide (c.toNat < 128)) = true := by
    rw [List.all_eq_true]; intro c hc; simpa using (hn c hc).1
  have h2 : v.all (fun c => decide (c.toNat < 256)) = true := by
    rw [List.all_eq_true]; intro c hc; simpa using (hv.1 c hc).1
  simp [packHeader, encodeAscii, encodeHVals, encodeHVal, encodeLatin1, h1, h2, joinBytes, headerLine]

def headerBlock (hs : List (Str × Str)) : Bytes := hs.flatMap (fun kv => headerLine kv.1 kv.2 ++ [13, 10])

theorem headerLine_no13 {n v : Str} (hn : GoodName n) (hv : GoodValue v) : 13 ∉ headerLine n v := by
  unfold headerLine title
  simp only [List.mem_append, not_or]
  refine ⟨⟨?_, by simp⟩, ?_⟩
  · apply titleAux_not_mem 13 (by decide)
    intro h
    obtain ⟨c, hc, e⟩ := List.mem_map.1 h
    exact (hn c hc).2.2.1 e
  · intro h
    obtain ⟨c, hc, e⟩ := List.mem_map.1 h
    exact (hv.1 c hc).2.1 e

theorem title_no58 {n : Str} (hn : GoodName n) : 58 ∉ title (n.map Char.toNat) := by
  unfold title
  apply titleAux_not_mem 58 (by decide)
  intro h
  obtain ⟨c, hc, e⟩ := List.mem_map.1 h
  exact (hn c hc).2.1 e

theorem lower_key {n : Str} (hn : GoodName n) : lower (decodeLatin1 (title (n.map Char.toNat))) = lower n := by
  unfold title
  rw [lower_decode_titleAux]
  · rw [decode_encode]
  · intro x hx
    obtain ⟨c, hc, e⟩ := List.mem_map.1 hx
    rw [← e]; exact (hn c hc).1

theorem parseLeaderAux_block (hs : List (Str × Str)) :
    ∀ (fuel : Nat) (d : List (Str × Str)) (rest : Bytes), hs.length < fuel →
      (∀ kv ∈ hs, GoodName kv.1 ∧ GoodValue kv.2 ∧ (headerLine kv.1 kv.2).length ≤ MAX_LINE_SIZE) →
      d.length + hs.length ≤ MAX_HEADERS →
      parseLeaderAux fuel d (headerBlock hs ++ 13 :: 10 :: rest)
        = .done (hs.foldl (fun d kv => loSet d kv.1 kv.2) d) rest := by
  induction hs with
  | nil =>
    intro fuel d rest hf _ hc
    cases fuel with
    | zero => omega
    | succ f =>
      have hpl : leaderLine (13 :: 10 :: rest) = .done [] rest := by
        simpa using leaderLine_crlf [] rest (by simp) (by simp [MAX_LINE_SIZE])
      have : ¬ d.length > MAX_HEADERS := by simp at hc; omega
      simp [headerBlock, parseLeaderAux, hpl, this]
  | cons kv hs ih =>
    intro fuel d rest hf hgood hc
    cases fuel with
    | zero => omega
    | succ f =>
      obtain ⟨hn, hv, hl⟩ := hgood kv (by simp)
      have hblock : headerBlock (kv :: hs) ++ 13 :: 10 :: rest
          = headerLine kv.1 kv.2 ++ 13 :: 10 :: (headerBlock hs ++ 13 :: 10 :: rest) := by
        simp [headerBlock]
      have hpl := leaderLine_crlf (headerLine kv.1 kv.2) (headerBlock hs ++ 13 :: 10 :: rest)
        (headerLine_no13 hn hv) hl
      have hne : (headerLine kv.1 kv.2).isEmpty = false := by
        unfold headerLine; cases title (kv.1.map Char.toNat) <;> simp
      have hsplit : partitionN 58 (headerLine kv.1 kv.2) = (title (kv.1.map Char.toNat), true, 32 :: kv.2.map Char.toNat) := by
        have := partitionN_append 58 (title (kv.1.map Char.toNat)) (32 :: kv.2.map Char.toNat) (title_no58 hn)
        simpa [headerLine] using this
      have hval : stripC (decodeLatin1 (32 :: kv.2.map Char.toNat)) = kv.2 := by
        have : decodeLatin1 (32 :: kv.2.map Char.toNat) = ' ' :: kv.2 := by
          have := decode_encode kv.2
          unfold decodeLatin1 at this ⊢
          simp only [List.map_cons, this]
        rw [this, stripC_space_cons _ hv.2]
      have hset : loSet d (decodeLatin1 (title (kv.1.map Char.toNat))) (stripC (decodeLatin1 (32 :: kv.2.map Char.toNat)))
          = loSet d kv.1 kv.2 := by
        unfold loSet
        rw [lower_key hn, hval]
      have hlen : (loSet d kv.1 kv.2).length ≤ d.length + 1 := odSet_length_le _ _ _
      have hnot : ¬ (loSet d kv.1 kv.2).length > MAX_HEADERS := by
        simp only [List.length_cons] at hc; omega
      rw [hblock]
      simp only [parseLeaderAux, hpl, hne, hsplit, hset, hnot]
      simp only [Bool.false_eq_true, if_false, Bool.not_true]
      rw [List.foldl_cons]
      apply ih f (loSet d kv.1 kv.2) rest (by simp at hf; omega) (fun kv' h' => hgood kv' (by simp [h']))
      simp only [List.length_cons] at hc; omega


def isDigitC (c : Char) : Prop := '0' ≤ c ∧ c ≤ '9'

theorem digit_char : ∀ d, d < 10 → ('0' ≤ Char.ofNat (48 + d) ∧ Char.ofNat (48 + d) ≤ '9') ∧ (Char.ofNat (48 + d)).toNat - 48 = d
    ∧ isSpaceC (Char.ofNat (48 + d)) = false ∧ (Char.ofNat (48 + d)).toNat < 128
    ∧ Char.ofNat (48 + d) ≠ '-' ∧ Char.ofNat (48 + d) ≠ '+' := by
  decide +kernel

theorem natStr_digits (n : Nat) : ∀ c ∈ natStr n, isDigitC c ∧ isSpaceC c = false ∧ c.toNat < 128 := by
  induction n using Nat.strongRecOn with
  | _ n ih =>
    rw [natStr]
    split
    · rename_i h
      intro c hc
      simp only [List.mem_singleton] at hc
      subst hc
      have := digit_char n h
      exact ⟨this.1, this.2.2.1, this.2.2.2.1⟩
    · intro c hc
      simp only [List.mem_append, List.mem_singleton] at hc
      rcases hc with hc | hc
      · exact ih (n / 10) (by omega) c hc
      · subst hc
        have := digit_char (n % 10) (by omega)
        exact ⟨this.1, this.2.2.1, this.2.2.2.1⟩

theorem digitsVal_append (xs ys : Str) (a : Nat) :
    digitsVal (xs ++ ys) a = (digitsVal xs a).bind (fun v => digitsVal ys v) := by
  induction xs generalizing a with
  | nil => simp [digitsVal]
  | cons x xs ih =>
    simp only [List.cons_append, digitsVal]
    split
    · exact ih _
    · simp

theorem digitsVal_natStr (n : Nat) : digitsVal (natStr n) 0 = some n := by
  induction n using Nat.strongRecOn with
  | _ n ih =>
    rw [natStr]
    split
    · rename_i h
      have := digit_char n h
      simp [digitsVal, this.1, this.2.1]
    · rename_i h
      have := digit_char (n % 10) (by omega)
      rw [digitsVal_append, ih (n / 10) (by omega)]
      simp [digitsVal, this.1, this.2.1]
      omega

theorem natStr_ne_nil (n : Nat) : natStr n ≠ [] := by
  rw [natStr]; split <;> simp

theorem natStr_head (n : Nat) : ∃ c cs, natStr n = c :: cs ∧ c ≠ '-' ∧ c ≠ '+' := by
  induction n using Nat.strongRecOn with
  | _ n ih =>
    rw [natStr]
    split
    · rename_i h
      have := digit_char n h
      exact ⟨_, [], rfl, this.2.2.2.2.1, this.2.2.2.2.2⟩
    · obtain ⟨c, cs, he, h1, h2⟩ := ih (n / 10) (by omega)
      exact ⟨c, cs ++ [Char.ofNat (48 + n % 10)], by rw [he]; rfl, h1, h2⟩

theorem pyIntDec_natStr (n : Nat) : pyIntDec (natStr n) = .ok (some (n : Int)) := by
  unfold pyIntDec
  have hd := natStr_digits n
  have h128 : (natStr n).any (fun c => decide (c.toNat ≥ 256)) = false := by
    rw [List.any_eq_false]; intro c hc; have := (hd c hc).2.2; simp; omega
  simp only [h128, Bool.false_eq_true, if_false]
  rw [stripC_id _ (fun c hc => (hd c hc).2.1)]
  obtain ⟨c, cs, he, h1, h2⟩ := natStr_head n
  have hdv := digitsVal_natStr n
  rw [he] at hdv ⊢
  have : signSplit (c :: cs) = (false, c :: cs) := by
    unfold signSplit
    split
    · rename_i r heq; cases heq; exact absurd rfl h1
    · rename_i r heq; cases heq; exact absurd rfl h2
    · rfl
  simp [this, hdv]

theorem contentLength_natStr (n : Nat) : contentLength (some (natStr n)) = .ok (some n) := by
  unfold contentLength
  have hne : (natStr n).isEmpty = false := by
    cases h : natStr n with
    | nil => exact absurd h (natStr_ne_nil n)
    | cons _ _ => rfl
  simp [hne, pyIntDec_natStr]


theorem splitWsGo_word (w rest cur : Str) (hw : ∀ c ∈ w, isSpaceC c = false) :
    splitWsGo (w ++ rest) cur = splitWsGo rest (w.reverse ++ cur) := by
  induction w generalizing cur with
  | nil => rfl
  | cons c w ih =>
    have hc : isSpaceC c = false := hw c (by simp)
    simp only [List.cons_append, splitWsGo, hc, Bool.false_eq_true, if_false]
    rw [ih _ (fun x hx => hw x (by simp [hx]))]
    simp

theorem splitWsGo_space (rest cur : Str) (hcur : cur ≠ []) :
    splitWsGo (' ' :: rest) cur = cur.reverse :: splitWsGo rest [] := by
  have : isSpaceC ' ' = true := by decide
  have hc : cur.isEmpty = false := by cases cur <;> simp_all
  simp [splitWsGo, this, hc]

/-- three blank-free, non-empty words separated by single spaces -/
theorem splitWs_three (a b c : Str) (ha : ∀ x ∈ a, isSpaceC x = false) (hb : ∀ x ∈ b, isSpaceC x = false)
    (hc : ∀ x ∈ c, isSpaceC x = false) (hane : a ≠ []) (hbne : b ≠ []) (hcne : c ≠ []) :
    splitWs (a ++ ' ' :: (b ++ ' ' :: c)) = [a, b, c] := by
  unfold splitWs
  rw [splitWsGo_word a _ [] ha, splitWsGo_space _ _ (by simpa using hane)]
  rw [splitWsGo_word b _ [] hb, splitWsGo_space _ _ (by simpa using hbne)]
  have := splitWsGo_word c [] [] hc
  simp only [List.append_nil] at this
  rw [this]
  have hce : c.reverse.isEmpty = false := by cases c <;> simp_all
  simp [splitWsGo, hce]


/-- a request on the wire: request line, header lines, empty line, body -/
def requestBytes (method target : Str) (hs : List (Str × Str)) (body : Bytes) : Bytes :=
  (method ++ ' ' :: (target ++ ' ' :: "HTTP/1.1".toList)).map Char.toNat ++ crlf ++ headerBlock hs ++ crlf ++ body

/-- printable ASCII without blanks -/
def Visible (s : Str) : Prop := s ≠ [] ∧ ∀ c ∈ s, 33 ≤ c.toNat ∧ c.toNat < 127

theorem visible_nospace {s : Str} (h : Visible s) : ∀ c ∈ s, isSpaceC c = false := by
  intro c hc
  have := h.2 c hc
  unfold isSpaceC
  simp
  omega

theorem methods_visible : ∀ m ∈ METHODS, Visible m := by
  intro m hm
  simp only [METHODS, List.map_cons, List.map_nil, List.mem_cons, List.not_mem_nil, or_false] at hm
  rcases hm with rfl | rfl | rfl | rfl | rfl | rfl | rfl | rfl | rfl <;> (unfold Visible; decide)


theorem joinStr_ne_nil (w : Str) (ws : List Str) (hw : w ≠ []) : joinStr [' '] (w :: ws) ≠ [] := by
  cases ws with
  | nil => simpa [joinStr] using hw
  | cons b rest => cases w <;> simp_all [joinStr]

theorem splitWsGo_join (ws : List Str) (h : ∀ w ∈ ws, Visible w) (hne : ws ≠ []) :
    splitWsGo (joinStr [' '] ws) [] = ws := by
  induction ws with
  | nil => exact absurd rfl hne
  | cons a rest ih =>
    have ha := h a (by simp)
    cases rest with
    | nil =>
      have := splitWsGo_word a [] [] (visible_nospace ha)
      simp only [List.append_nil] at this
      have hre : a.reverse.isEmpty = false := by cases a <;> simp_all [Visible]
      simp [joinStr, this, splitWsGo, hre]
    | cons b rest' =>
      have hrest := ih (fun w hw => h w (by simp [hw])) (by simp)
      simp only [joinStr, List.append_assoc, List.singleton_append]
      rw [splitWsGo_word a _ [] (visible_nospace ha), splitWsGo_space _ _ (by simpa using ha.1)]
      simp [hrest]

theorem joinStr_ends (ws : List Str) (h : ∀ w ∈ ws, Visible w) :
    (∀ a as, joinStr [' '] ws = a :: as → isSpaceC a = false)
    ∧ (∀ a as, (joinStr [' '] ws).reverse = a :: as → isSpaceC a = false) := by
  induction ws with
  | nil => simp [joinStr]
  | cons w rest ih =>
    have hw := h w (by simp)
    have ihr := ih (fun x hx => h x (by simp [hx]))
    cases rest with
    | nil =>
      simp only [joinStr]
      constructor
      · intro a as e
        exact visible_nospace hw a (by rw [e]; simp)
      · intro a as e
        exact visible_nospace hw a (by have : a ∈ w.reverse := by rw [e]; simp
                                       simpa using this)
    | cons b rest' =>
      simp only [joinStr, List.append_assoc, List.singleton_append]
      constructor
      · intro a as e
        obtain ⟨c, cs, hc⟩ : ∃ c cs, w = c :: cs := by
          cases w with
          | nil => exact absurd rfl hw.1
          | cons c cs => exact ⟨c, cs, rfl⟩
        rw [hc] at e
        simp only [List.cons_append, List.cons.injEq] at e
        exact visible_nospace hw a (by rw [hc, ← e.1]; simp)
      · intro a as e
        simp only [List.reverse_append, List.reverse_cons, List.append_assoc] at e
        have hb := h b (by simp)
        have hJ := joinStr_ne_nil b rest' hb.1
        obtain ⟨c, cs, hc⟩ : ∃ c cs, (joinStr [' '] (b :: rest')).reverse = c :: cs := by
          cases hr : (joinStr [' '] (b :: rest')).reverse with
          | nil => simp at hr; exact absurd hr hJ
          | cons c cs => exact ⟨c, cs, rfl⟩
        rw [hc] at e
        simp only [List.cons_append, List.cons.injEq] at e
        rw [← e.1]
        exact ihr.2 c cs hc

theorem stripC_join (ws : List Str) (h : ∀ w ∈ ws, Visible w) : stripC (joinStr [' '] ws) = joinStr [' '] ws := by
  unfold stripC
  have := joinStr_ends ws h
  rw [dropWhile_head_false _ _ this.1, dropWhile_head_false _ _ this.2]
  simp


theorem digit_visible : ∀ d, d < 10 → 33 ≤ (Char.ofNat (48 + d)).toNat ∧ (Char.ofNat (48 + d)).toNat < 127 := by
  decide +kernel

theorem natStr_visible (n : Nat) : Visible (natStr n) := by
  refine ⟨natStr_ne_nil n, ?_⟩
  induction n using Nat.strongRecOn with
  | _ n ih =>
    rw [natStr]
    split
    · rename_i h
      intro c hc
      simp only [List.mem_singleton] at hc
      subst hc
      exact digit_visible n h
    · intro c hc
      simp only [List.mem_append, List.mem_singleton] at hc
      rcases hc with hc | hc
      · exact ih (n / 10) (by omega) c hc
      · subst hc; exact digit_visible (n % 10) (by omega)

/-- the status line the responder writes for status `code reason-words…` -/
def statusText (code : Nat) (reasonWords : List Str) : Str :=
  joinStr [' '] ("HTTP/1.1".toList :: natStr code :: reasonWords)

/-- head of a response on the wire: status line, header lines, empty line -/
def responseHead (code : Nat) (reasonWords : List Str) (hs : List (Str × Str)) : Bytes :=
  (statusText code reasonWords).map Char.toNat ++ crlf ++ headerBlock hs ++ crlf

theorem statusWords_visible (code : Nat) (reasonWords : List Str) (hw : ∀ w ∈ reasonWords, Visible w) :
    ∀ w ∈ "HTTP/1.1".toList :: natStr code :: reasonWords, Visible w := by
  intro w hm
  simp only [List.mem_cons] at hm
  rcases hm with rfl | rfl | hm
  · unfold Visible; decide
  · exact natStr_visible code
  · exact hw w hm

theorem parseStatusLine_text (code : Nat) (reasonWords : List Str) (hw : ∀ w ∈ reasonWords, Visible w)
    (hc : 100 ≤ code ∧ code ≤ 999) :
    parseStatusLine ((statusText code reasonWords).map Char.toNat)
      = .ok ("HTTP/1.1".toList, code, joinStr [' '] reasonWords) := by
  unfold parseStatusLine
  rw [decode_encode]
  have hvis := statusWords_visible code reasonWords hw
  have hne : (statusText code reasonWords).isEmpty = false := by
    have := joinStr_ne_nil "HTTP/1.1".toList (natStr code :: reasonWords) (by decide)
    unfold statusText
    cases h : joinStr [' '] ("HTTP/1.1".toList :: natStr code :: reasonWords) with
    | nil => exact absurd h this
    | cons _ _ => rfl
  have hsplit : splitWs (statusText code reasonWords) = "HTTP/1.1".toList :: natStr code :: reasonWords := by
    unfold splitWs statusText
    exact splitWsGo_join _ hvis (by simp)
  have hsw : startsWith ['H', 'T', 'T', 'P', '/'] ['H', 'T', 'T', 'P', '/', '1', '.', '1'] = true := by decide
  have h1 : ¬ ((code : Int) < 100 ∨ (code : Int) > 999) := by omega
  simp [hne, hsplit, hsw, pyIntDec_natStr, h1]

theorem status_noeol (code : Nat) (reasonWords : List Str) (hw : ∀ w ∈ reasonWords, Visible w) :
    13 ∉ (statusText code reasonWords).map Char.toNat ∧ 10 ∉ (statusText code reasonWords).map Char.toNat := by
  have hvis := statusWords_visible code reasonWords hw
  -- every character of the joined text is visible or a blank
  have key : ∀ (ws : List Str), (∀ w ∈ ws, Visible w) → ∀ c ∈ joinStr [' '] ws, c.toNat ≠ 13 ∧ c.toNat ≠ 10 := by
    intro ws
    induction ws with
    | nil => intro _ c hc; simp [joinStr] at hc
    | cons a rest ih =>
      intro h c hc
      cases rest with
      | nil =>
        simp only [joinStr] at hc
        have := (h a (by simp)).2 c hc; omega
      | cons b rest' =>
        simp only [joinStr, List.append_assoc, List.singleton_append, List.mem_append, List.mem_cons] at hc
        rcases hc with hc | rfl | hc
        · have := (h a (by simp)).2 c hc; omega
        · decide
        · exact ih (fun w hw' => h w (by simp [hw'])) c hc
  constructor
  · intro h
    obtain ⟨c, hc, e⟩ := List.mem_map.1 h
    exact (key _ hvis c hc).1 e
  · intro h
    obtain ⟨c, hc, e⟩ := List.mem_map.1 h
    exact (key _ hvis c hc).2 e

theorem parseStatus_head (fuel : Nat) (closed : Bool) (code : Nat) (reasonWords : List Str) (X : Bytes)
    (hw : ∀ w ∈ reasonWords, Visible w) (hc : 100 ≤ code ∧ code ≤ 999) (h100 : code ≠ 100)
    (hlen : (statusText code reasonWords).length ≤ MAX_LINE_SIZE) :
    parseStatus (fuel + 1) closed ((statusText code reasonWords).map Char.toNat ++ 13 :: 10 :: X)
      = .done ("HTTP/1.1".toList, code, joinStr [' '] reasonWords) X := by
  have hpl := parseLine_crlf false _ X (status_noeol code reasonWords hw).1 (fun _ => (status_noeol code reasonWords hw).2)
    (by rw [List.length_map]; exact hlen)
  simp [parseStatus, hpl, parseStatusLine_text code reasonWords hw hc, h100]


theorem odGet_odSet {β : Type} (d : List (Str × β)) (k k' : Str) (v : β) :
    odGet (odSet d k' v) k = if k' = k then some v else odGet d k := by
  induction d with
  | nil => simp [odSet, odGet]
  | cons a d ih =>
    obtain ⟨ka, va⟩ := a
    simp only [odSet]
    by_cases h1 : ka = k'
    · subst h1
      simp only [if_true, odGet]
      by_cases h2 : ka = k <;> simp [h2]
    · simp only [h1, if_false, odGet, ih]
      by_cases h2 : ka = k
      · subst h2; simp [h1]; intro h; exact absurd h.symm h1
      · simp [h2]

def envKey (name : Str) : Str := "HTTP_".toList ++ upper (replaceC '-' '_' name)

theorem env_fold_other (hs : List (Str × Str)) (base : List (Str × EVal)) (k : Str)
    (hk : ¬ ("HTTP_".toList).isPrefixOf k) :
    odGet (hs.foldl (fun env kv => odSet env (envKey kv.1) (.str kv.2)) base) k = odGet base k := by
  induction hs generalizing base with
  | nil => rfl
  | cons kv hs ih =>
    simp only [List.foldl_cons]
    rw [ih, odGet_odSet]
    have : envKey kv.1 ≠ k := by
      intro e; apply hk; rw [← e]; simp [envKey]
    simp [this]

theorem env_fold_header (hs : List (Str × Str)) (base : List (Str × EVal)) (n v : Str) (h : (n, v) ∈ hs) :
    ∃ v', odGet (hs.foldl (fun env kv => odSet env (envKey kv.1) (.str kv.2)) base) (envKey n) = some (.str v') := by
  induction hs generalizing base with
  | nil => cases h
  | cons kv hs ih =>
    simp only [List.foldl_cons]
    by_cases hin : (n, v) ∈ hs
    · exact ih _ hin
    · have : kv = (n, v) := by
        simp only [List.mem_cons] at h
        rcases h with h | h
        · exact h.symm
        · exact absurd h hin
      subst this
      -- the entry is set now; later headers either leave it or overwrite it with another text
      have key : ∀ (rest : List (Str × Str)) (b : List (Str × EVal)), (∃ v', odGet b (envKey n) = some (.str v')) →
          ∃ v', odGet (rest.foldl (fun env kv => odSet env (envKey kv.1) (.str kv.2)) b) (envKey n) = some (.str v') := by
        intro rest
        induction rest with
        | nil => intro b hb; exact hb
        | cons x xs ihx =>
          intro b hb
          simp only [List.foldl_cons]
          apply ihx
          rw [odGet_odSet]
          by_cases hx : envKey x.1 = envKey n
          · exact ⟨x.2, by simp [hx]⟩
          · simpa [hx] using hb
      exact key hs _ ⟨v, by rw [odGet_odSet]; simp⟩


theorem odGet_mem_keys {β : Type} (d : List (Str × β)) (k : Str) (v : β) (h : odGet d k = some v) :
    k ∈ d.map Prod.fst := by
  induction d with
  | nil => cases h
  | cons a d ih =>
    obtain ⟨ka, va⟩ := a
    simp only [odGet] at h
    by_cases hk : ka = k
    · simp [hk]
    · simp only [hk, if_false] at h
      simp [ih h]

/-- converse of `env_fold_header`: a key the header loop made appear (or changed) is the `HTTP_` key of a header -/
theorem env_fold_only (hs : List (Str × Str)) (base : List (Str × EVal)) (k : Str) (v : EVal)
    (h : odGet (hs.foldl (fun env kv => odSet env (envKey kv.1) (.str kv.2)) base) k = some v) :
    odGet base k = some v ∨ ∃ n t, (n, t) ∈ hs ∧ k = envKey n ∧ v = .str t := by
  induction hs generalizing base with
  | nil => exact Or.inl h
  | cons kv hs ih =>
    simp only [List.foldl_cons] at h
    rcases ih _ h with h1 | ⟨n, t, hm, hk, hv⟩
    · rw [odGet_odSet] at h1
      by_cases he : envKey kv.1 = k
      · simp only [he, if_true, Option.some.injEq] at h1
        exact Or.inr ⟨kv.1, kv.2, by simp, he.symm, h1.symm⟩
      · simp only [he, if_false] at h1
        exact Or.inl h1
    · exact Or.inr ⟨n, t, by simp [hm], hk, hv⟩

instance (s : Str) : Decidable (Visible s) := by unfold Visible; infer_instance
instance (s : Str) : Decidable (GoodName s) := by unfold GoodName; infer_instance
instance (s : Str) : Decidable (Trimmed s) := by unfold Trimmed; infer_instance
instance (s : Str) : Decidable (GoodValue s) := by unfold GoodValue; infer_instance

end Ioflo.HttpCodec
