import IofloModel.Model.HttpMsg
/-! Helper lemmas for C29 / C32: `pump` cannot run out of fuel (`run_unfold`), the generic
script theorem (`feedAll_script`), the line searches on well-formed segments. -/
namespace Ioflo.Http

/-! ### what a successful search says about the buffer -/

theorem splitCRLF_eq {raw l r : Bytes} (h : splitCRLF raw = some (l, r)) :
    raw = l ++ 13 :: 10 :: r := by
  fun_induction splitCRLF raw generalizing l
  case case1 => simp at h
  case case2 => simp at h
  case case3 a b r hc => simp at h; obtain ⟨rfl, rfl⟩ := h; simp [hc.1, hc.2]
  case case4 => simp at h
  case case5 x ih => simp at h; obtain ⟨rfl, rfl⟩ := h; simp [← ih x]

theorem splitByte_eq {c : Nat} {raw l r : Bytes} (h : splitByte c raw = some (l, r)) :
    raw = l ++ c :: r := by
  fun_induction splitByte c raw generalizing l
  case case1 => simp at h
  case case2 => simp at h; obtain ⟨rfl, rfl⟩ := h; simp
  case case3 => simp at h
  case case4 x ih => simp at h; obtain ⟨rfl, rfl⟩ := h; simp [← ih x]

theorem earliest_eq {lf : Bool} {raw l r : Bytes} (h : earliest lf raw = some (l, r)) :
    raw = l ++ 13 :: 10 :: r ∨ raw = l ++ 10 :: r := by
  fun_induction earliest lf raw generalizing l
  case case1 => simp at h
  case case2 a b r' hc => simp at h; obtain ⟨rfl, rfl⟩ := h; simp [hc.1, hc.2]
  case case3 a b r' _ hc => simp at h; obtain ⟨rfl, rfl⟩ := h; simp [hc.2]
  case case4 x ih => simp [x] at h
  case case5 x ih =>
    simp [x] at h; obtain ⟨rfl, rfl⟩ := h
    rcases ih x with h' | h' <;> simp [← h']
  case case6 a hc => simp at h; obtain ⟨rfl, rfl⟩ := h; simp [hc.2]
  case case7 => simp at h

theorem earliest_length {lf : Bool} {raw l r : Bytes} (h : earliest lf raw = some (l, r)) :
    l.length + r.length < raw.length := by
  rcases earliest_eq h with h' | h' <;> (rw [h']; simp; try omega)

theorem leaderSearch_eq {raw l r : Bytes} (h : leaderSearch raw = some (l, r)) :
    raw = l ++ 13 :: 10 :: r ∨ raw = l ++ 10 :: r := by
  unfold leaderSearch at h
  split at h
  · rename_i x hx; simp at h; subst h; exact Or.inl (splitCRLF_eq hx)
  · exact Or.inr (splitByte_eq h)

theorem leaderSearch_length {raw l r : Bytes} (h : leaderSearch raw = some (l, r)) :
    l.length + r.length < raw.length := by
  rcases leaderSearch_eq h with h' | h' <;> (rw [h']; simp; try omega)

theorem lineRes_line {max : Nat} {raw : Bytes} {o : Option (Bytes × Bytes)} {l rest : Bytes}
    (h : lineRes max raw o = .line l rest) : o = some (l, rest) ∧ l.length ≤ max := by
  unfold lineRes at h
  split at h
  · split at h <;> simp at h
  · split at h
    · simp at h
    · simp at h; obtain ⟨rfl, rfl⟩ := h; exact ⟨rfl, by omega⟩

theorem lineTry_line {max : Nat} {lf : Bool} {buf l rest : Bytes}
    (h : lineTry max lf buf = .line l rest) : l.length + rest.length < buf.length :=
  earliest_length (lineRes_line h).1

theorem leaderTry_line {max : Nat} {buf l rest : Bytes}
    (h : leaderTry max buf = .line l rest) : l.length + rest.length < buf.length :=
  leaderSearch_length (lineRes_line h).1

theorem leaderIter_more {max : Nat} {h h' : Hdrs} {buf rest : Bytes}
    (hh : leaderIter max h buf = .more h' rest) : rest.length < buf.length := by
  unfold leaderIter at hh
  split at hh
  · simp at hh
  · simp at hh
  · rename_i l r hl
    have := leaderTry_line hl
    split at hh
    · split at hh <;> simp at hh; obtain ⟨_, rfl⟩ := hh; omega
    · split at hh <;> simp at hh

theorem leaderIter_done {max : Nat} {h h' : Hdrs} {buf rest : Bytes}
    (hh : leaderIter max h buf = .done h' rest) : rest.length < buf.length := by
  unfold leaderIter at hh
  split at hh
  · simp at hh
  · simp at hh
  · rename_i l r hl
    have := leaderTry_line hl
    split at hh
    · split at hh <;> simp at hh
    · split at hh <;> simp at hh; obtain ⟨_, rfl⟩ := hh; omega

/-! ### the helpers that end or continue the generator -/

@[simp] theorem raise_ne_cont (c : Core) (e : Exc) (buf : Bytes) (c' : Core) (b' : Bytes) :
    raise c e buf ≠ .cont c' b' := by
  unfold raise httpFail escape; split <;> simp

@[simp] theorem finishBody_ne_cont (c : Core) (buf : Bytes) (c' : Core) (b' : Bytes) :
    finishBody c buf ≠ .cont c' b' := by
  simp [finishBody]

/-- rank of a position: how many steps it can take without consuming a byte -/
def rank : Gen → Nat
  | .fresh => 3
  | .waitStart => 2
  | .startLine => 1
  | .chunkData _ _ => 1
  | _ => 0

def mu (c : Core) (buf : Bytes) : Nat := 4 * buf.length + rank c.gen

theorem enterLeader_cont {c c' : Core} {g : Gen} {buf b' : Bytes}
    (h : enterLeader c g buf = .cont c' b') : b' = buf ∧ c'.gen = g := by
  unfold enterLeader at h
  split at h
  · simp at h
  · simp at h; obtain ⟨rfl, rfl⟩ := h; exact ⟨rfl, rfl⟩

theorem startBody_cont {c c' : Core} {buf b' : Bytes}
    (h : startBody c buf = .cont c' b') : b' = buf ∧ rank c'.gen = 0 := by
  unfold startBody at h
  simp only [] at h
  split at h
  · split at h
    · simp at h
    · simp at h; obtain ⟨rfl, rfl⟩ := h; exact ⟨rfl, rfl⟩
  · split at h
    · simp at h; obtain ⟨rfl, rfl⟩ := h; exact ⟨rfl, rfl⟩
    · split at h
      · simp at h
      · simp at h; obtain ⟨rfl, rfl⟩ := h; exact ⟨rfl, rfl⟩

/-- the event-stream part of a body step continues only through the rest `k` of the step -/
theorem esStep_cont {c c' : Core} {buf b' : Bytes} {k : Core → Res}
    (h : esStep c buf k = .cont c' b') : ∃ c1, k c1 = .cont c' b' := by
  unfold esStep at h
  split at h
  · split at h
    · exact ⟨_, h⟩
    · split at h
      · simp [escape] at h
      · exact absurd h (raise_ne_cont _ _ _ _ _)
    · simp at h
  · exact ⟨_, h⟩

theorem chunkDone_cont {c c' : Core} {pm : Parms} {chunk buf b' : Bytes}
    (h : chunkDone c pm chunk buf = .cont c' b') : b' = buf ∧ rank c'.gen = 0 := by
  unfold chunkDone at h
  obtain ⟨c1, h⟩ := esStep_cont h
  split at h
  · simp at h
  · simp at h; obtain ⟨rfl, rfl⟩ := h; exact ⟨rfl, rfl⟩

theorem reqHeadDone_cont {c c' : Core} {h : Hdrs} {buf b' : Bytes}
    (hh : reqHeadDone c h buf = .cont c' b') : b' = buf ∧ rank c'.gen = 0 := by
  unfold reqHeadDone at hh; exact startBody_cont hh

theorem rspHeadDone_cont {c c' : Core} {h : Hdrs} {buf b' : Bytes}
    (hh : rspHeadDone c h buf = .cont c' b') : b' = buf ∧ rank c'.gen = 0 := by
  unfold rspHeadDone at hh
  simp only [] at hh
  split at hh
  · exact startBody_cont hh
  · exact startBody_cont hh

theorem sliceTo_length (raw : Bytes) (size : Int) : (sliceTo raw size).2.length ≤ raw.length := by
  unfold sliceTo; split <;> simp

/-- every step that does not return to the caller makes progress -/
theorem stepOn_cont_mu {c c' : Core} {buf b' : Bytes} (h : stepOn c buf = .cont c' b') :
    mu c' b' < mu c buf := by
  unfold stepOn at h
  split at h
  case h_1 => simp at h
  case h_2 => simp at h
  case h_3 => simp at h
  case h_4 hg =>   -- fresh
    simp at h; obtain ⟨rfl, rfl⟩ := h; simp [mu, hg, rank]
  case h_5 hg =>   -- waitStart
    split at h
    · simp at h
    · simp at h; obtain ⟨rfl, rfl⟩ := h; simp [mu, hg, rank]
  case h_6 hg =>   -- startLine
    split at h
    · simp at h
    · split at h
      · simp at h
      · simp at h
      · rename_i l rest hl
        have hlen := lineTry_line hl
        split at h
        · -- request
          split at h
          · simp at h
          · simp only [] at h
            split at h
            · simp at h
            · split at h
              · simp at h
              · simp at h
              · obtain ⟨rfl, hg'⟩ := enterLeader_cont h
                simp [mu, hg, hg', rank]; omega
        · -- response
          split at h
          · simp at h
          · simp only [] at h
            split at h
            · obtain ⟨rfl, hg'⟩ := enterLeader_cont h
              simp [mu, hg, hg', rank]; omega
            · split at h
              · obtain ⟨rfl, hg'⟩ := enterLeader_cont h
                simp [mu, hg, hg', rank]; omega
              · split at h
                · obtain ⟨rfl, hg'⟩ := enterLeader_cont h
                  simp [mu, hg, hg', rank]; omega
                · simp at h
  case h_7 hg =>   -- contHdrs
    split at h
    · simp at h
    · simp at h
    · rename_i h' rest hi
      have := leaderIter_more hi
      simp at h; obtain ⟨rfl, rfl⟩ := h; simp [mu, hg, rank]; omega
    · rename_i h' rest hi
      have := leaderIter_done hi
      simp at h; obtain ⟨rfl, rfl⟩ := h; simp [mu, hg, rank]; omega
  case h_8 hg =>   -- hdrs
    split at h
    · simp at h
    · simp at h
    · rename_i h' rest hi
      have := leaderIter_more hi
      simp at h; obtain ⟨rfl, rfl⟩ := h; simp [mu, hg, rank]; omega
    · rename_i h' rest hi
      have := leaderIter_done hi
      unfold headDone at h
      split at h
      · obtain ⟨rfl, hg'⟩ := reqHeadDone_cont h
        unfold mu; rw [hg']; simp [hg, rank]; omega
      · obtain ⟨rfl, hg'⟩ := rspHeadDone_cont h
        unfold mu; rw [hg']; simp [hg, rank]; omega
  case h_9 hg =>   -- chunkSize
    split at h
    · simp at h
    · simp at h
    · rename_i l rest hl
      have hlen := lineTry_line hl
      split at h
      · simp at h
      · split at h <;> (simp at h; obtain ⟨rfl, rfl⟩ := h; simp [mu, hg, rank]; omega)
  case h_10 hg =>  -- chunkTrailer
    split at h
    · simp at h
    · simp at h
    · rename_i h' rest hi
      have := leaderIter_more hi
      simp at h; obtain ⟨rfl, rfl⟩ := h; simp [mu, hg, rank]; omega
    · simp at h
  case h_11 hg =>  -- chunkData
    split at h
    · simp at h
    · simp at h; obtain ⟨rfl, rfl⟩ := h
      have := sliceTo_length buf ‹Int›
      simp [mu, hg, rank]; omega
  case h_12 hg =>  -- chunkEnd
    split at h
    · simp at h
    · simp at h
    · rename_i l rest hl
      have hlen := lineTry_line hl
      split at h
      · simp at h
      · obtain ⟨rfl, hg'⟩ := chunkDone_cont h
        unfold mu; rw [hg']; simp [hg, rank]; omega
  case h_13 hg =>  -- bodyLength
    simp only [] at h
    split at h
    · split at h <;> simp at h
    · simp at h
  case h_14 hg =>  -- bodyClose
    obtain ⟨c1, h⟩ := esStep_cont h
    split at h <;> simp at h

/-! ### fuel -/

theorem pump_fuel : ∀ (n m : Nat) (c : Core) (buf : Bytes), mu c buf < n → mu c buf < m →
    pump n c buf = pump m c buf := by
  intro n
  induction n with
  | zero => intro m c buf h; omega
  | succ n ih =>
    intro m c buf hn hm
    cases m with
    | zero => omega
    | succ m =>
      simp only [pump]
      cases hs : stepOn c buf with
      | stop c' b' => rfl
      | cont c' b' =>
        have := stepOn_cont_mu hs
        exact ih m c' b' (by omega) (by omega)

/-- the loop of one `parse()` call, fuel-free -/
def run (c : Core) (buf : Bytes) : St := pump (mu c buf + 1) c buf

theorem run_unfold (c : Core) (buf : Bytes) :
    run c buf = match stepOn c buf with
      | .stop c' b' => { core := c', msg := b' }
      | .cont c' b' => run c' b' := by
  unfold run
  rw [pump]
  cases hs : stepOn c buf with
  | stop c' b' => rfl
  | cont c' b' =>
    have := stepOn_cont_mu hs
    exact pump_fuel _ _ c' b' (by omega) (by omega)

theorem rank_le (g : Gen) : rank g ≤ 3 := by cases g <;> simp [rank]

theorem pump_fuelFor (c : Core) (buf : Bytes) : pump (fuelFor buf) c buf = run c buf := by
  apply pump_fuel
  · have := rank_le c.gen; simp [mu, fuelFor]; omega
  · omega

/-- `parse()` with the fuel-free loop -/
theorem parse_eq (s : St) :
    parse s = if resumeCheck s.core s.msg then
        (match raise s.core .prematureClosure s.msg with
         | .stop c b => { core := c, msg := b }
         | .cont c b => { core := c, msg := b })
      else run s.core s.msg := by
  unfold parse; rw [pump_fuelFor]; rfl

/-! ### scripts: a stream as a sequence of segments the parser consumes one after the other -/

/-- one segment of the stream: its bytes, the parser cores that may be waiting for it, and the
core that has consumed it -/
structure Elem where
  seg : Bytes
  W : Core → Prop
  next : Core

/-- the parser consumes the complete segment whatever follows it, and waits (staying among the
cores `W`) on every proper prefix of it -/
def Elem.ok (e : Elem) : Prop :=
  e.seg ≠ [] ∧
  (∀ c, e.W c → ∀ tail, run c (e.seg ++ tail) = run e.next tail) ∧
  (∀ c, e.W c → ∀ p, p <+: e.seg → p ≠ e.seg → ∃ c', e.W c' ∧ run c p = { core := c', msg := p }) ∧
  (∀ c, e.W c → ∀ buf, resumeCheck c buf = false)

def Chain (f : Core) : Core → List Elem → Prop
  | c, [] => c = f
  | c, e :: es => e.W c ∧ e.ok ∧ Chain f e.next es

def segsOf : List Elem → Bytes
  | [] => []
  | e :: es => e.seg ++ segsOf es

/-- where the parser is after some receives: waiting inside the first segment of a remaining
chain, or past the script (`T t` = the state that has seen `t` after the script).
`R` = the bytes still to come. -/
def Good (f : Core) (T : Bytes → St) (rest : Bytes) (s : St) (R : Bytes) : Prop :=
  (∃ c e es, s.core = c ∧ Chain f c (e :: es) ∧ s.msg <+: e.seg ∧ s.msg ≠ e.seg ∧
      s.msg ++ R = segsOf (e :: es) ++ rest) ∨
  (∃ t, s = T t ∧ t ++ R = rest)

theorem run_chain {f : Core} {T : Bytes → St} {rest : Bytes} (hT1 : ∀ t, run f t = T t) :
    ∀ (es : List Elem) (e : Elem) (c : Core) (B R : Bytes), Chain f c (e :: es) →
      B ++ R = segsOf (e :: es) ++ rest → Good f T rest (run c B) R := by
  intro es
  induction es with
  | nil =>
    intro e c B R hch hB
    obtain ⟨hW, hok, hf⟩ := hch
    simp only [Chain] at hf
    simp only [segsOf, List.append_nil] at hB
    have hp1 : B <+: e.seg ++ rest := ⟨R, hB⟩
    have hp2 : e.seg <+: e.seg ++ rest := List.prefix_append _ _
    rcases List.prefix_or_prefix_of_prefix hp1 hp2 with h | h
    · by_cases heq : B = e.seg
      · subst heq
        have := hok.2.1 c hW []
        simp only [List.append_nil] at this
        rw [this, hf, hT1]
        exact Or.inr ⟨[], rfl, by simpa using hB⟩
      · obtain ⟨c', hW', hr⟩ := hok.2.2.1 c hW B h heq
        rw [hr]
        exact Or.inl ⟨c', e, [], rfl, ⟨hW', hok, by simp [Chain, hf]⟩, h, heq, by simpa [segsOf] using hB⟩
    · obtain ⟨tail, rfl⟩ := h
      rw [hok.2.1 c hW tail, hf, hT1]
      refine Or.inr ⟨tail, rfl, ?_⟩
      simpa [List.append_assoc] using hB
  | cons e2 es ih =>
    intro e c B R hch hB
    obtain ⟨hW, hok, hnext⟩ := hch
    have hp1 : B <+: e.seg ++ (segsOf (e2 :: es) ++ rest) := ⟨R, by simpa [segsOf, List.append_assoc] using hB⟩
    have hp2 : e.seg <+: e.seg ++ (segsOf (e2 :: es) ++ rest) := List.prefix_append _ _
    rcases List.prefix_or_prefix_of_prefix hp1 hp2 with h | h
    · by_cases heq : B = e.seg
      · subst heq
        have := hok.2.1 c hW []
        simp only [List.append_nil] at this
        rw [this]
        apply ih e2 e.next [] R hnext
        simpa [segsOf, List.append_assoc] using hB
      · obtain ⟨c', hW', hr⟩ := hok.2.2.1 c hW B h heq
        rw [hr]
        exact Or.inl ⟨c', e, e2 :: es, rfl, ⟨hW', hok, hnext⟩, h, heq, hB⟩
    · obtain ⟨tail, rfl⟩ := h
      rw [hok.2.1 c hW tail]
      apply ih e2 e.next tail R hnext
      simpa [segsOf, List.append_assoc] using hB

theorem feed_good {f : Core} {T : Bytes → St} {rest : Bytes} (hT1 : ∀ t, run f t = T t)
    (hT2 : ∀ t x, feed (T t) x = T (t ++ x)) {s : St} {x R : Bytes}
    (h : Good f T rest s (x ++ R)) : Good f T rest (feed s x) R := by
  rcases h with ⟨c, e, es, hc, hch, _, _, hB⟩ | ⟨t, rfl, ht⟩
  · have hrc := hch.2.1.2.2.2 c hch.1 (s.msg ++ x)
    have : feed s x = run c (s.msg ++ x) := by
      unfold feed; rw [parse_eq]; simp [hc, hrc]
    rw [this]
    exact run_chain hT1 es e c (s.msg ++ x) R hch (by simpa [List.append_assoc] using hB)
  · rw [hT2]
    exact Or.inr ⟨t ++ x, rfl, by simpa [List.append_assoc] using ht⟩

theorem feedAll_good {f : Core} {T : Bytes → St} {rest : Bytes} (hT1 : ∀ t, run f t = T t)
    (hT2 : ∀ t x, feed (T t) x = T (t ++ x)) (ps : List Bytes) (s : St) (R : Bytes)
    (h : Good f T rest s (ps.flatten ++ R)) : Good f T rest (feedAll s ps) R := by
  induction ps generalizing s with
  | nil => simpa [feedAll] using h
  | cons p ps ih =>
    simp only [feedAll, List.foldl_cons]
    apply ih
    apply feed_good hT1 hT2
    simpa [List.append_assoc] using h

/-- **Script theorem.**  If the stream is `segs ++ rest` and the parser follows the chain of
segments, then however the stream is cut into receives the parser ends in `T rest`. -/
theorem feedAll_script {f c0 : Core} {T : Bytes → St} {rest : Bytes} {e : Elem} {es : List Elem}
    (hT1 : ∀ t, run f t = T t) (hT2 : ∀ t x, feed (T t) x = T (t ++ x))
    (hch : Chain f c0 (e :: es)) (ps : List Bytes)
    (hps : ps.flatten = segsOf (e :: es) ++ rest) :
    feedAll { core := c0, msg := [] } ps = T rest := by
  have h0 : Good f T rest { core := c0, msg := [] } (ps.flatten ++ []) := by
    refine Or.inl ⟨c0, e, es, rfl, hch, List.nil_prefix, ?_, by simpa using hps⟩
    exact fun h => hch.2.1.1 h.symm
  rcases feedAll_good hT1 hT2 ps _ [] h0 with ⟨c, e', es', _, hch', hpre, hne, hB⟩ | ⟨t, ht, hr⟩
  · exfalso
    simp only [List.append_nil, segsOf] at hB
    have h2 : e'.seg <+: (feedAll { core := c0, msg := [] } ps).msg := by
      rw [hB, List.append_assoc]; exact List.prefix_append _ _
    exact hne (List.IsPrefix.eq_of_length hpre (Nat.le_antisymm hpre.length_le h2.length_le))
  · rw [ht]; simp at hr; rw [hr]

end Ioflo.Http
