import IofloModel.Model.HttpMsg
/-! Helper lemmas for C29 / C32: `pump` cannot run out of fuel (`run_unfold`), the generic
script theorem (`feedAll_script`), the line searches on well-formed segments. -/
namespace Ioflo.Http

/-! ### what a successful search says about the buffer -/

theorem splitCRLF_eq {raw l r : Bytes} (h : splitCRLF raw = some (l, r)) :
    raw = l ++ 13 :: 10 :: r := by
  fun_induction splitCRLF raw generalizing l
  case case1 => simp at h
  case case2 => simp at h
  case case3 a b r hc => simp at h; obtain ⟨rfl, rfl⟩ := h; simp [hc.1, hc.2]
  case case4 => simp at h
  case case5 x ih => simp at h; obtain ⟨rfl, rfl⟩ := h; simp [← ih x]

theorem splitByte_eq {c : Nat} {raw l r : Bytes} (h : splitByte c raw = some (l, r)) :
    raw = l ++ c :: r := by
  fun_induction splitByte c raw generalizing l
  case case1 => simp at h
  case case2 => simp at h; obtain ⟨rfl, rfl⟩ := h; simp
  case case3 => simp at h
  case case4 x ih => simp at h; obtain ⟨rfl, rfl⟩ := h; simp [← ih x]

theorem earliest_eq {lf : Bool} {raw l r : Bytes} (h : earliest lf raw = some (l, r)) :
    raw = l ++ 13 :: 10 :: r ∨ raw = l ++ 10 :: r := by
  fun_induction earliest lf raw generalizing l
  case case1 => simp at h
  case case2 a b r' hc => simp at h; obtain ⟨rfl, rfl⟩ := h; simp [hc.1, hc.2]
  case case3 a b r' _ hc => simp at h; obtain ⟨rfl, rfl⟩ := h; simp [hc.2]
  case case4 x ih => simp [x] at h
  case case5 x ih =>
    simp [x] at h; obtain ⟨rfl, rfl⟩ := h
    rcases ih x with h' | h' <;> simp [← h']
  case case6 a hc => simp at h; obtain ⟨rfl, rfl⟩ := h; simp [hc.2]
  case case7 => simp at h

theorem earliest_length {lf : Bool} {raw l r : Bytes} (h : earliest lf raw = some (l, r)) :
    l.length + r.length < raw.length := by
  rcases earliest_eq h with h' | h' <;> (rw [h']; simp; try omega)

theorem leaderSearch_eq {raw l r : Bytes} (h : leaderSearch raw = some (l, r)) :
    raw = l ++ 13 :: 10 :: r ∨ raw = l ++ 10 :: r := by
  unfold leaderSearch at h
  split at h
  · rename_i x hx; simp at h; subst h; exact Or.inl (splitCRLF_eq hx)
  · exact Or.inr (splitByte_eq h)

theorem leaderSearch_length {raw l r : Bytes} (h : leaderSearch raw = some (l, r)) :
    l.length + r.length < raw.length := by
  rcases leaderSearch_eq h with h' | h' <;> (rw [h']; simp; try omega)

theorem lineRes_line {max : Nat} {raw : Bytes} {o : Option (Bytes × Bytes)} {l rest : Bytes}
    (h : lineRes max raw o = .line l rest) : o = some (l, rest) ∧ l.length ≤ max := by
  unfold lineRes at h
  split at h
  · split at h <;> simp at h
  · split at h
    · simp at h
    · simp at h; obtain ⟨rfl, rfl⟩ := h; exact ⟨rfl, by omega⟩

theorem lineTry_line {max : Nat} {lf : Bool} {buf l rest : Bytes}
    (h : lineTry max lf buf = .line l rest) : l.length + rest.length < buf.length :=
  earliest_length (lineRes_line h).1

theorem leaderTry_line {max : Nat} {buf l rest : Bytes}
    (h : leaderTry max buf = .line l rest) : l.length + rest.length < buf.length :=
  leaderSearch_length (lineRes_line h).1

theorem leaderIter_more {max : Nat} {h h' : Hdrs} {buf rest : Bytes}
    (hh : leaderIter max h buf = .more h' rest) : rest.length < buf.length := by
  unfold leaderIter at hh
  split at hh
  · simp at hh
  · simp at hh
  · rename_i l r hl
    have := leaderTry_line hl
    split at hh
    · split at hh <;> simp at hh; obtain ⟨_, rfl⟩ := hh; omega
    · split at hh <;> simp at hh

theorem leaderIter_done {max : Nat} {h h' : Hdrs} {buf rest : Bytes}
    (hh : leaderIter max h buf = .done h' rest) : rest.length < buf.length := by
  unfold leaderIter at hh
  split at hh
  · simp at hh
  · simp at hh
  · rename_i l r hl
    have := leaderTry_line hl
    split at hh
    · split at hh <;> simp at hh
    · split at hh <;> simp at hh; obtain ⟨_, rfl⟩ := hh; omega

/-! ### the helpers that end or continue the generator -/

@[simp] theorem raise_ne_cont (c : Core) (e : Exc) (buf : Bytes) (c' : Core) (b' : Bytes) :
    raise c e buf ≠ .cont c' b' := by
  unfold raise httpFail escape; split <;> simp

@[simp] theorem finishBody_ne_cont (c : Core) (buf : Bytes) (c' : Core) (b' : Bytes) :
    finishBody c buf ≠ .cont c' b' := by
  simp [finishBody]

/-- rank of a position: how many steps it can take without consuming a byte -/
def rank : Gen → Nat
  | .fresh => 3
  | .waitStart => 2
  | .startLine => 1
  | .chunkData _ _ => 1
  | _ => 0

def mu (c : Core) (buf : Bytes) : Nat := 4 * buf.length + rank c.gen

theorem enterLeader_cont {c c' : Core} {g : Gen} {buf b' : Bytes}
    (h : enterLeader c g buf = .cont c' b') : b' = buf ∧ c'.gen = g := by
  unfold enterLeader at h
  split at h
  · simp at h
  · simp at h; obtain ⟨rfl, rfl⟩ := h; exact ⟨rfl, rfl⟩

theorem startBody_cont {c c' : Core} {buf b' : Bytes}
    (h : startBody c buf = .cont c' b') : b' = buf ∧ rank c'.gen = 0 := by
  unfold startBody at h
  simp only [] at h
  split at h
  · split at h
    · simp at h
    · simp at h; obtain ⟨rfl, rfl⟩ := h; exact ⟨rfl, rfl⟩
  · split at h
    · simp at h; obtain ⟨rfl, rfl⟩ := h; exact ⟨rfl, rfl⟩
    · split at h
      · simp at h
      · simp at h; obtain ⟨rfl, rfl⟩ := h; exact ⟨rfl, rfl⟩

theorem chunkDone_cont {c c' : Core} {pm : Parms} {chunk buf b' : Bytes}
    (h : chunkDone c pm chunk buf = .cont c' b') : b' = buf ∧ rank c'.gen = 0 := by
  unfold chunkDone at h
  simp only [] at h
  split at h
  · simp at h
  · simp at h; obtain ⟨rfl, rfl⟩ := h; exact ⟨rfl, rfl⟩

theorem reqHeadDone_cont {c c' : Core} {h : Hdrs} {buf b' : Bytes}
    (hh : reqHeadDone c h buf = .cont c' b') : b' = buf ∧ rank c'.gen = 0 := by
  unfold reqHeadDone at hh; exact startBody_cont hh

theorem rspHeadDone_cont {c c' : Core} {h : Hdrs} {buf b' : Bytes}
    (hh : rspHeadDone c h buf = .cont c' b') : b' = buf ∧ rank c'.gen = 0 := by
  unfold rspHeadDone at hh
  simp only [] at hh
  split at hh
  · simp at hh
  · exact startBody_cont hh

theorem sliceTo_length (raw : Bytes) (size : Int) : (sliceTo raw size).2.length ≤ raw.length := by
  unfold sliceTo; split <;> simp

/-- every step that does not return to the caller makes progress -/
theorem stepOn_cont_mu {c c' : Core} {buf b' : Bytes} (h : stepOn c buf = .cont c' b') :
    mu c' b' < mu c buf := by
  unfold stepOn at h
  split at h
  case h_1 => simp at h
  case h_2 => simp at h
  case h_3 => simp at h
  case h_4 hg =>   -- fresh
    simp at h; obtain ⟨rfl, rfl⟩ := h; simp [mu, hg, rank]
  case h_5 hg =>   -- waitStart
    split at h
    · simp at h
    · simp at h; obtain ⟨rfl, rfl⟩ := h; simp [mu, hg, rank]
  case h_6 hg =>   -- startLine
    split at h
    · simp at h
    · split at h
      · simp at h
      · simp at h
      · rename_i l rest hl
        have hlen := lineTry_line hl
        split at h
        · -- request
          split at h
          · simp at h
          · simp only [] at h
            split at h
            · simp at h
            · split at h
              · simp at h
              · simp at h
              · obtain ⟨rfl, hg'⟩ := enterLeader_cont h
                simp [mu, hg, hg', rank]; omega
        · -- response
          split at h
          · simp at h
          · simp only [] at h
            split at h
            · obtain ⟨rfl, hg'⟩ := enterLeader_cont h
              simp [mu, hg, hg', rank]; omega
            · split at h
              · obtain ⟨rfl, hg'⟩ := enterLeader_cont h
                simp [mu, hg, hg', rank]; omega
              · split at h
                · obtain ⟨rfl, hg'⟩ := enterLeader_cont h
                  simp [mu, hg, hg', rank]; omega
                · simp at h
  case h_7 hg =>   -- contHdrs
    split at h
    · simp at h
    · simp at h
    · rename_i h' rest hi
      have := leaderIter_more hi
      simp at h; obtain ⟨rfl, rfl⟩ := h; simp [mu, hg, rank]; omega
    · rename_i h' rest hi
      have := leaderIter_done hi
      simp at h; obtain ⟨rfl, rfl⟩ := h; simp [mu, hg, rank]; omega
  case h_8 hg =>   -- hdrs
    split at h
    · simp at h
    · simp at h
    · rename_i h' rest hi
      have := leaderIter_more hi
      simp at h; obtain ⟨rfl, rfl⟩ := h; simp [mu, hg, rank]; omega
    · rename_i h' rest hi
      have := leaderIter_done hi
      split at h
      · obtain ⟨rfl, hg'⟩ := reqHeadDone_cont h
        simp [mu, hg, hg', rank]; omega
      · obtain ⟨rfl, hg'⟩ := rspHeadDone_cont h
        simp [mu, hg, hg', rank]; omega
  case h_9 hg =>   -- chunkSize
    split at h
    · simp at h
    · simp at h
    · rename_i l rest hl
      have hlen := lineTry_line hl
      split at h
      · simp at h
      · split at h <;> (simp at h; obtain ⟨rfl, rfl⟩ := h; simp [mu, hg, rank]; omega)
  case h_10 hg =>  -- chunkTrailer
    split at h
    · simp at h
    · simp at h
    · rename_i h' rest hi
      have := leaderIter_more hi
      simp at h; obtain ⟨rfl, rfl⟩ := h; simp [mu, hg, rank]; omega
    · simp at h
  case h_11 hg =>  -- chunkData
    split at h
    · simp at h
    · simp at h; obtain ⟨rfl, rfl⟩ := h
      have := sliceTo_length buf ‹Int›
      simp [mu, hg, rank]; omega
  case h_12 hg =>  -- chunkEnd
    split at h
    · simp at h
    · simp at h
    · rename_i l rest hl
      have hlen := lineTry_line hl
      split at h
      · simp at h
      · obtain ⟨rfl, hg'⟩ := chunkDone_cont h
        simp [mu, hg, hg', rank]; omega
  case h_13 hg =>  -- bodyLength
    simp only [] at h
    split at h
    · split at h <;> simp at h
    · simp at h
  case h_14 hg =>  -- bodyClose
    simp only [] at h
    split at h <;> simp at h

end Ioflo.Http
