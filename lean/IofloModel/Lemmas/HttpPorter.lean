import IofloModel.Lemmas.HttpSafe
import IofloModel.Model.HttpPorter
/-! A loop over the connection table whose body is safe per connection does not raise and treats
every connection by itself; instantiated for `Porter.serviceStewards`. -/
namespace Ioflo.Http

/-- the per-connection body keeps safe parsers safe and does not raise on them -/
def StepSafe (f : Conn → Option Conn × Bool) : Prop :=
  ∀ c, Safe c.req.core → (f c).2 = false ∧ ∀ c', (f c).1 = some c' → Safe c'.req.core

theorem stepWith_spec {f : Conn → Option Conn × Bool} (hf : StepSafe f) {v : Valet} {ca : Nat}
    (hr : v.raised = false) (hs : AllSafe v.conns) (hn : (keysOf v.conns).Nodup) :
    (v.stepWith f ca).raised = false ∧ AllSafe (v.stepWith f ca).conns ∧ (keysOf (v.stepWith f ca).conns).Nodup ∧
    lookup ca (v.stepWith f ca).conns = (lookup ca v.conns).bind (fun c => (f c).1) ∧
    ∀ ca', ca' ≠ ca → lookup ca' (v.stepWith f ca).conns = lookup ca' v.conns := by
  unfold Valet.stepWith
  simp only [hr, Bool.false_eq_true, if_false]
  cases hl : lookup ca v.conns with
  | none => exact ⟨hr, hs, hn, by simp [hl], fun _ _ => rfl⟩
  | some c =>
    obtain ⟨h2, h1⟩ := hf c (hs ca c hl)
    simp only []
    cases hc : f c with
    | mk oc r =>
      rw [hc] at h1 h2
      simp only [] at h2
      subst h2
      cases oc with
      | some c' =>
        simp only []
        refine ⟨trivial, ?_, by rw [keysOf_setConn]; exact hn, ?_, ?_⟩
        · intro k ck hk
          by_cases hkc : k = ca
          · subst hkc
            rw [lookup_setConn_eq c' v.conns (by simp [hl])] at hk
            simp at hk; subst hk; exact h1 c' rfl
          · rw [lookup_setConn_ne hkc] at hk; exact hs k ck hk
        · rw [lookup_setConn_eq c' v.conns (by simp [hl])]; simp [hc]
        · intro ca' hne; exact lookup_setConn_ne hne c' v.conns
      | none =>
        simp only []
        refine ⟨trivial, ?_, (keysOf_erase_sublist ca v.conns).nodup hn, ?_, ?_⟩
        · intro k ck hk
          by_cases hkc : k = ca
          · subst hkc; rw [lookup_erase_eq v.conns hn] at hk; simp at hk
          · rw [lookup_erase_ne hkc] at hk; exact hs k ck hk
        · rw [lookup_erase_eq v.conns hn]; simp [hc]
        · intro ca' hne; exact lookup_erase_ne hne v.conns

theorem foldl_stepWith_spec {f : Conn → Option Conn × Bool} (hf : StepSafe f) :
    ∀ (ks : List Nat) (v : Valet), ks.Nodup → v.raised = false → AllSafe v.conns → (keysOf v.conns).Nodup →
    (ks.foldl (Valet.stepWith f) v).raised = false ∧ AllSafe (ks.foldl (Valet.stepWith f) v).conns ∧
    (keysOf (ks.foldl (Valet.stepWith f) v).conns).Nodup ∧
    ∀ ca, lookup ca (ks.foldl (Valet.stepWith f) v).conns =
      if ca ∈ ks then (lookup ca v.conns).bind (fun c => (f c).1) else lookup ca v.conns := by
  intro ks
  induction ks with
  | nil => intro v _ hr hs hn; exact ⟨hr, hs, hn, fun ca => by simp⟩
  | cons k ks ih =>
    intro v hnd hr hs hn
    obtain ⟨h1, h2, h3, h5, h6⟩ := stepWith_spec hf (ca := k) hr hs hn
    have hnd' := List.nodup_cons.mp hnd
    obtain ⟨i1, i2, i3, i4⟩ := ih (v.stepWith f k) hnd'.2 h1 h2 h3
    simp only [List.foldl_cons]
    refine ⟨i1, i2, i3, ?_⟩
    intro ca
    rw [i4 ca]
    by_cases hck : ca = k
    · subst hck; simp [hnd'.1, h5]
    · by_cases hm : ca ∈ ks <;> simp [hm, hck, h6 ca hck]

theorem stewardStepConn_safe : StepSafe stewardStepConn := by
  intro c h
  unfold stewardStepConn
  have hs := safe_parse h
  have hnr : parseRaises c.req (parse c.req) = false := by simp [parseRaises, h.2.1, hs.2.1]
  simp only [hnr, Bool.false_eq_true, if_false]
  by_cases he : (parse c.req).core.ended = some true
  · by_cases hx : (parse c.req).core.errored = true
    · simp [he, hx]
    · by_cases hp : (parse c.req).core.persisted = some true
      · simp only [he, hx, hp, if_true]
        exact ⟨rfl, fun c' hc' => by simp at hc'; subst hc'; exact safe_makeParser hs⟩
      · simp [he, hx, hp]
  · simp only [he, if_false]
    exact ⟨trivial, fun c' hc' => by simp at hc'; subst hc'; exact hs⟩

end Ioflo.Http
