import IofloModel.Lemmas.HttpMsg
import IofloModel.Model.HttpValet
/-! No exception leaves `parse()` in the repaired parsers: the invariant `Safe` is kept by every
step, whatever the bytes. -/
namespace Ioflo.Http

/-- the event source kept by the parser has not been killed by an exception -/
def esAlive (c : Core) : Prop := ∀ st, c.es = some st → ∀ e, st.ev.status ≠ .dead e

/-- nothing has escaped `parse()` and the generator is not dead; the tree is the repaired one;
the event source, if any, is not a dead one -/
def Safe (c : Core) : Prop :=
  c.escaped = none ∧ c.gen ≠ .dead ∧ c.stopIter = false ∧ c.catchVE = true ∧ esAlive c

def Res.core : Res → Core
  | .stop c _ => c
  | .cont c _ => c

/-- a step that leaves the safety fields and the event source alone, ending in a live position -/
theorem safe_of {c c' : Core} (h : Safe c) (he : c'.escaped = c.escaped) (hg : c'.gen ≠ .dead)
    (hs : c'.stopIter = c.stopIter) (hc : c'.catchVE = c.catchVE) (hes : c'.es = c.es) : Safe c' := by
  obtain ⟨h1, h2, h3, h4, h5⟩ := h
  refine ⟨he ▸ h1, hg, hs ▸ h3, hc ▸ h4, ?_⟩
  intro st hst; rw [hes] at hst; exact h5 st hst

theorem safe_raise {c : Core} (h : Safe c) (e : Exc) (buf : Bytes) : Safe (raise c e buf).core := by
  have h4 := h.2.2.2.1
  have hc : (e.isHttp || c.catchVE) = true := by rw [h4]; simp
  unfold raise
  rw [if_pos hc]
  exact safe_of h rfl (by simp [httpFail, Res.core]) rfl rfl rfl

theorem safe_finishBody {c : Core} (h : Safe c) (buf : Bytes) : Safe (finishBody c buf).core := by
  simp only [finishBody, Res.core]
  exact safe_of h rfl (by simp) rfl rfl rfl

theorem safe_enterLeader {c : Core} (h : Safe c) (g : Gen) (hg : g ≠ .dead) (buf : Bytes) :
    Safe (enterLeader c g buf).core := by
  unfold enterLeader
  split
  · exact safe_raise h _ _
  · exact safe_of h rfl hg rfl rfl rfl

theorem safe_startBody {c : Core} (h : Safe c) (buf : Bytes) : Safe (startBody c buf).core := by
  have hb : Safe { c with body := [] } := safe_of h rfl h.2.1 rfl rfl rfl
  have hp : Safe { c with body := [], parms := some [] } := safe_of h rfl h.2.1 rfl rfl rfl
  unfold startBody
  simp only []
  split
  · split
    · exact safe_raise hp _ _
    · exact safe_of h rfl (by simp [Res.core]) rfl rfl rfl
  · split
    · exact safe_of h rfl (by simp [Res.core]) rfl rfl rfl
    · split
      · exact safe_raise hb _ _
      · exact safe_of h rfl (by simp [Res.core]) rfl rfl rfl

theorem safe_newEs {c : Core} (h : Safe c) : Safe (newEs c) := by
  obtain ⟨h1, h2, h3, h4, _⟩ := h
  refine ⟨h1, h2, h3, h4, ?_⟩
  intro st hst e
  unfold newEs at hst
  simp only [Option.some.injEq] at hst
  subst hst
  simp

theorem safe_headDone {c : Core} (h : Safe c) (H : Hdrs) (buf : Bytes) : Safe (headDone c H buf).core := by
  unfold headDone
  split
  · unfold reqHeadDone
    exact safe_startBody (c := reqHeadCore c H) (safe_of h rfl h.2.1 rfl rfl rfl) buf
  · unfold rspHeadDone
    simp only []
    split
    · apply safe_startBody
      apply safe_newEs
      exact safe_of h rfl h.2.1 rfl rfl rfl
    · apply safe_startBody
      exact safe_of h rfl h.2.1 rfl rfl rfl

/-- the event source after `parse()`: alive, or dropped because it died in this call; a dead one is
never consulted (`runtimeError` does not occur) -/
theorem safe_evParse {c : Core} (h : Safe c) :
    Safe (evParse c).1 ∧ (evParse c).2 ≠ .exc .runtimeError ∧ (evParse c).1.gen = c.gen := by
  obtain ⟨h1, h2, h3, h4, h5⟩ := h
  unfold evParse
  cases hes : c.es with
  | none => exact ⟨⟨h1, h2, h3, h4, by intro st hst; simp [hes] at hst⟩, by simp, rfl⟩
  | some st =>
    have hst := h5 st hes
    simp only []
    have hr : Sse.raised st (Sse.feed c.max { st with raw := c.body } []) ≠ .stopIteration := by
      unfold Sse.raised
      cases hs : st.ev.status with
      | dead e => exact absurd hs (hst e)
      | running => split <;> simp_all
      | finished => split <;> simp_all
      | unmodelled => split <;> simp_all
    cases hrr : Sse.raised st (Sse.feed c.max { st with raw := c.body } []) with
    | stopIteration => exact absurd hrr hr
    | err e =>
      cases e <;> refine ⟨⟨h1, h2, h3, h4, by intro st' hst'; simp at hst'⟩, by simp, rfl⟩
    | none =>
      have halive : ∀ e, (Sse.feed c.max { st with raw := c.body } []).ev.status ≠ .dead e := by
        intro e he
        unfold Sse.raised at hrr
        cases hs : st.ev.status with
        | dead e' => exact absurd hs (hst e')
        | running => simp [hs, he] at hrr
        | finished => simp [hs, he] at hrr
        | unmodelled => simp [hs, he] at hrr
      simp only []
      split
      · refine ⟨⟨h1, h2, h3, h4, ?_⟩, by simp, rfl⟩
        intro st' hst'; simp at hst'; subst hst'; exact halive
      · refine ⟨⟨h1, h2, h3, h4, ?_⟩, by simp, rfl⟩
        intro st' hst'; simp at hst'; subst hst'; exact halive

theorem safe_esStep {c : Core} (h : Safe c) (buf : Bytes) (k : Core → Res)
    (hk : ∀ c1, Safe c1 → c1.gen = c.gen → Safe (k c1).core) : Safe (esStep c buf k).core := by
  unfold esStep
  split
  · obtain ⟨hs, hne, hg⟩ := safe_evParse h
    cases hp : evParse c with
    | mk c' o =>
      rw [hp] at hs hne hg
      cases o with
      | ok => exact hk c' hs hg
      | exc e =>
        simp only []
        split
        · rename_i he; subst he; exact absurd rfl hne
        · exact safe_raise hs _ _
      | outside => exact safe_of hs rfl (by simp [Res.core]) rfl rfl rfl
  · exact hk c h rfl

theorem safe_chunkDone {c : Core} (h : Safe c) (pm : Parms) (chunk buf : Bytes) :
    Safe (chunkDone c pm chunk buf).core := by
  unfold chunkDone
  have hc : Safe { c with parms := updParms c.parms pm, body := c.body ++ chunk } := safe_of h rfl h.2.1 rfl rfl rfl
  refine safe_esStep hc _ _ ?_
  intro c1 h1 _
  split
  · exact safe_finishBody h1 _
  · exact safe_of h1 rfl (by simp [Res.core]) rfl rfl rfl

theorem safe_stepOn {c : Core} (h : Safe c) (buf : Bytes) : Safe (stepOn c buf).core := by
  unfold stepOn
  split
  case h_2 hg => exact absurd hg h.2.1
  case h_14 hg =>
    have hc : Safe { c with body := c.body ++ buf } := safe_of h rfl h.2.1 rfl rfl rfl
    refine safe_esStep hc _ _ ?_
    intro c1 h1 _
    split
    · exact safe_finishBody h1 _
    · exact h1
  all_goals (repeat' (first | split | (simp only []; split)))
  all_goals first
    | (apply safe_raise; exact safe_of h rfl h.2.1 rfl rfl rfl)
    | (apply safe_enterLeader
       · exact safe_of h rfl h.2.1 rfl rfl rfl
       · simp)
    | (apply safe_headDone; exact safe_of h rfl h.2.1 rfl rfl rfl)
    | (apply safe_chunkDone; exact safe_of h rfl h.2.1 rfl rfl rfl)
    | (apply safe_finishBody; exact safe_of h rfl h.2.1 rfl rfl rfl)
    | exact h
    | (refine safe_of h rfl ?_ rfl rfl rfl; simp [Res.core]; done)
    | (refine safe_of h rfl ?_ rfl rfl rfl; simp_all [Res.core]; done)

theorem safe_pump : ∀ (n : Nat) (c : Core) (buf : Bytes), Safe c → Safe (pump n c buf).core := by
  intro n
  induction n with
  | zero => intro c buf h; exact h
  | succ n ih =>
    intro c buf h
    have hs := safe_stepOn h buf
    simp only [pump]
    cases hst : stepOn c buf with
    | stop c' b' => rw [hst] at hs; exact hs
    | cont c' b' => rw [hst] at hs; exact ih c' b' hs

theorem safe_parse {s : St} (h : Safe s.core) : Safe (parse s).core := by
  unfold parse
  split
  · have := safe_raise h .prematureClosure s.msg
    cases hr : raise s.core Exc.prematureClosure s.msg <;> (rw [hr] at this; exact this)
  · exact safe_pump _ _ _ h

theorem safe_feed {s : St} (h : Safe s.core) (b : Bytes) : Safe (feed s b).core :=
  safe_parse (s := { s with msg := s.msg ++ b }) h

theorem safe_close {s : St} (h : Safe s.core) : Safe (close s).core := by
  obtain ⟨h1, h2, h3, h4, h5⟩ := h
  refine ⟨h1, h2, h3, h4, ?_⟩
  intro st hst e
  simp only [close] at hst
  cases hk : s.core.kind with
  | req => simp only [hk] at hst; exact h5 st hst e
  | rsp =>
    simp only [hk] at hst
    cases hes : s.core.es with
    | none => simp [hes] at hst
    | some st0 =>
      simp [hes] at hst
      subst hst
      simpa [Sse.close] using h5 st0 hes e

theorem safe_makeParser {s : St} (h : Safe s.core) : Safe (makeParser s).core :=
  safe_of h rfl (by simp [makeParser]) rfl rfl rfl

theorem safe_init (kind : Kind) (m : Bytes) (max : Nat) : Safe (init kind m max).core := by
  refine ⟨rfl, by simp [init], rfl, rfl, ?_⟩
  intro st hst; simp [init] at hst

/-! ### the connection table -/

theorem lookup_setConn_ne {ca ca' : Nat} (h : ca' ≠ ca) (c : Conn) (l : List (Nat × Conn)) :
    lookup ca' (setConn ca c l) = lookup ca' l := by
  induction l with
  | nil => rfl
  | cons p l ih =>
    obtain ⟨k, c'⟩ := p
    by_cases hk : k = ca
    · subst hk; simp [setConn, lookup, Ne.symm h]
    · by_cases hk' : k = ca'
      · subst hk'; simp [setConn, lookup, hk]
      · simp [setConn, lookup, hk, hk', ih]

theorem lookup_erase_ne {ca ca' : Nat} (h : ca' ≠ ca) (l : List (Nat × Conn)) :
    lookup ca' (erase ca l) = lookup ca' l := by
  induction l with
  | nil => rfl
  | cons p l ih =>
    obtain ⟨k, c'⟩ := p
    by_cases hk : k = ca
    · subst hk; simp [erase, lookup, Ne.symm h]
    · by_cases hk' : k = ca'
      · subst hk'; simp [erase, lookup, hk]
      · simp [erase, lookup, hk, hk', ih]

theorem lookup_setConn_eq {ca : Nat} (c : Conn) (l : List (Nat × Conn)) (h : lookup ca l ≠ none) :
    lookup ca (setConn ca c l) = some c := by
  induction l with
  | nil => simp [lookup] at h
  | cons p l ih =>
    obtain ⟨k, c'⟩ := p
    by_cases hk : k = ca
    · subst hk; simp [setConn, lookup]
    · simp only [lookup, hk, if_false] at h
      simp [setConn, lookup, hk, ih h]

def keysOf (l : List (Nat × Conn)) : List Nat := l.map (·.1)

theorem lookup_none_of_not_mem {ca : Nat} {l : List (Nat × Conn)} (h : ca ∉ keysOf l) : lookup ca l = none := by
  induction l with
  | nil => rfl
  | cons p l ih =>
    obtain ⟨k, c'⟩ := p
    simp only [keysOf, List.map_cons, List.mem_cons, not_or] at h
    have hk : ¬ k = ca := fun e => h.1 e.symm
    simp [lookup, hk, ih h.2]

theorem lookup_erase_eq {ca : Nat} (l : List (Nat × Conn)) (h : (keysOf l).Nodup) :
    lookup ca (erase ca l) = none := by
  induction l with
  | nil => rfl
  | cons p l ih =>
    obtain ⟨k, c'⟩ := p
    simp only [keysOf, List.map_cons, List.nodup_cons] at h
    by_cases hk : k = ca
    · subst hk; simp only [erase, if_true]; exact lookup_none_of_not_mem h.1
    · simp [erase, lookup, hk, ih h.2]

theorem keysOf_setConn (ca : Nat) (c : Conn) (l : List (Nat × Conn)) : keysOf (setConn ca c l) = keysOf l := by
  induction l with
  | nil => rfl
  | cons p l ih =>
    obtain ⟨k, c'⟩ := p
    by_cases hk : k = ca
    · simp [setConn, keysOf, hk]
    · simp only [setConn, hk, if_false, keysOf, List.map_cons] at ih ⊢; rw [ih]

theorem keysOf_erase_sublist (ca : Nat) (l : List (Nat × Conn)) : (keysOf (erase ca l)).Sublist (keysOf l) := by
  induction l with
  | nil => exact List.Sublist.refl _
  | cons p l ih =>
    obtain ⟨k, c'⟩ := p
    by_cases hk : k = ca
    · simp only [erase, hk, if_true, keysOf, List.map_cons]; exact List.sublist_cons_self _ _
    · simp only [erase, hk, if_false, keysOf, List.map_cons]; exact List.Sublist.cons_cons _ ih

theorem mem_keysOf_of_lookup {ca : Nat} {l : List (Nat × Conn)} {c : Conn} (h : lookup ca l = some c) :
    ca ∈ keysOf l := by
  rcases Classical.em (ca ∈ keysOf l) with hm | hm
  · exact hm
  · rw [lookup_none_of_not_mem hm] at h; simp at h

theorem lookup_ne_none_of_mem {ca : Nat} {l : List (Nat × Conn)} (h : ca ∈ keysOf l) : lookup ca l ≠ none := by
  induction l with
  | nil => simp [keysOf] at h
  | cons p l ih =>
    obtain ⟨k, c'⟩ := p
    by_cases hk : k = ca
    · simp [lookup, hk]
    · simp only [keysOf, List.map_cons, List.mem_cons] at h
      rcases h with h | h
      · exact absurd h.symm hk
      · simp only [lookup, hk, if_false]; exact ih h

theorem lookup_append_single (k ca : Nat) (c : Conn) (l : List (Nat × Conn)) :
    lookup k (l ++ [(ca, c)]) = match lookup k l with
      | some x => some x
      | none => if ca = k then some c else none := by
  induction l with
  | nil => simp [lookup]
  | cons p l ih =>
    obtain ⟨k', c'⟩ := p
    by_cases hk : k' = k
    · simp [lookup, hk]
    · simp only [List.cons_append, lookup, hk, if_false]; exact ih

/-! ### `serviceReqs` treats every connection by itself -/

/-- all parsers of the table are safe -/
def AllSafe (l : List (Nat × Conn)) : Prop := ∀ ca c, lookup ca l = some c → Safe c.req.core

theorem reqStepConn_safe {c : Conn} (h : Safe c.req.core) :
    (reqStepConn c).2 = false ∧ ∀ c', (reqStepConn c).1 = some c' → Safe c'.req.core := by
  unfold reqStepConn
  split
  · exact ⟨rfl, fun c' hc' => by simp at hc'; subst hc'; exact h⟩
  · have hs := safe_parse h
    have hnr : parseRaises c.req (parse c.req) = false := by
      simp [parseRaises, h.2.1, hs.2.1]
    simp only [hnr, Bool.false_eq_true, if_false]
    by_cases he : (parse c.req).core.ended = some true
    · by_cases hx : (parse c.req).core.errored = true
      · simp [he, hx]
      · simp only [he, hx, if_true]
        exact ⟨rfl, fun c' hc' => by simp at hc'; subst hc'; exact hs⟩
    · simp only [he, if_false]
      exact ⟨trivial, fun c' hc' => by simp at hc'; subst hc'; exact hs⟩

/-- what one connection becomes in `serviceReqs` -/
def reqFate (c : Conn) : Option Conn := (reqStepConn c).1

theorem reqStep_spec {v : Valet} {ca : Nat} (hr : v.raised = false) (hs : AllSafe v.conns)
    (hn : (keysOf v.conns).Nodup) :
    (v.reqStep ca).raised = false ∧ AllSafe (v.reqStep ca).conns ∧ (keysOf (v.reqStep ca).conns).Nodup ∧
    (keysOf (v.reqStep ca).conns).Sublist (keysOf v.conns) ∧
    lookup ca (v.reqStep ca).conns = (lookup ca v.conns).bind reqFate ∧
    ∀ ca', ca' ≠ ca → lookup ca' (v.reqStep ca).conns = lookup ca' v.conns := by
  unfold Valet.reqStep
  simp only [hr, Bool.false_eq_true, if_false]
  cases hl : lookup ca v.conns with
  | none => exact ⟨hr, hs, hn, List.Sublist.refl _, by simp [hl], fun _ _ => rfl⟩
  | some c =>
    obtain ⟨h2, h1⟩ := reqStepConn_safe (hs ca c hl)
    simp only []
    cases hc : reqStepConn c with
    | mk oc r =>
      rw [hc] at h1 h2
      simp only [] at h2
      subst h2
      cases oc with
      | some c' =>
        simp only []
        refine ⟨trivial, ?_, by rw [keysOf_setConn]; exact hn, by rw [keysOf_setConn]; exact List.Sublist.refl _, ?_, ?_⟩
        · intro k ck hk
          by_cases hkc : k = ca
          · subst hkc
            rw [lookup_setConn_eq c' v.conns (by simp [hl])] at hk
            simp at hk; subst hk; exact h1 c' rfl
          · rw [lookup_setConn_ne hkc] at hk; exact hs k ck hk
        · rw [lookup_setConn_eq c' v.conns (by simp [hl])]; simp [reqFate, hc]
        · intro ca' hne; exact lookup_setConn_ne hne c' v.conns
      | none =>
        simp only []
        refine ⟨trivial, ?_, (keysOf_erase_sublist ca v.conns).nodup hn, keysOf_erase_sublist ca v.conns, ?_, ?_⟩
        · intro k ck hk
          by_cases hkc : k = ca
          · subst hkc; rw [lookup_erase_eq v.conns hn] at hk; simp at hk
          · rw [lookup_erase_ne hkc] at hk; exact hs k ck hk
        · rw [lookup_erase_eq v.conns hn]; simp [reqFate, hc]
        · intro ca' hne; exact lookup_erase_ne hne v.conns

theorem foldl_reqStep_spec : ∀ (ks : List Nat) (v : Valet), ks.Nodup → v.raised = false → AllSafe v.conns →
    (keysOf v.conns).Nodup →
    (ks.foldl Valet.reqStep v).raised = false ∧ AllSafe (ks.foldl Valet.reqStep v).conns ∧
    (keysOf (ks.foldl Valet.reqStep v).conns).Nodup ∧
    ∀ ca, lookup ca (ks.foldl Valet.reqStep v).conns =
      if ca ∈ ks then (lookup ca v.conns).bind reqFate else lookup ca v.conns := by
  intro ks
  induction ks with
  | nil => intro v _ hr hs hn; exact ⟨hr, hs, hn, fun ca => by simp⟩
  | cons k ks ih =>
    intro v hnd hr hs hn
    obtain ⟨h1, h2, h3, _, h5, h6⟩ := reqStep_spec (ca := k) hr hs hn
    have hnd' := List.nodup_cons.mp hnd
    obtain ⟨i1, i2, i3, i4⟩ := ih (v.reqStep k) hnd'.2 h1 h2 h3
    simp only [List.foldl_cons]
    refine ⟨i1, i2, i3, ?_⟩
    intro ca
    rw [i4 ca]
    by_cases hck : ca = k
    · subst hck
      simp [hnd'.1, h5]
    · by_cases hm : ca ∈ ks <;> simp [hm, hck, h6 ca hck]

end Ioflo.Http

namespace Ioflo.Http

/-! ### `serviceReps`, `drain`, `serviceAll` keep the table safe and do not raise -/

/-- what a service method needs and keeps: nothing raised, safe parsers, distinct keys -/
def TableOk (v : Valet) : Prop := v.raised = false ∧ AllSafe v.conns ∧ (keysOf v.conns).Nodup

theorem repStepConn_req {c c' : Conn} (hc : repStepConn c = some c') :
    c'.req = c.req ∨ c'.req = makeParser c.req := by
  unfold repStepConn at hc
  cases hrep : c.rep with
  | none => simp [hrep] at hc; subst hc; exact Or.inl rfl
  | some ended =>
    simp only [hrep] at hc
    cases ended <;> by_cases hp : c.req.core.persisted = some true <;>
      by_cases hg : c.req.core.gen = .none <;> by_cases ht : c.txPending = true <;>
      simp [hp, hg, ht] at hc <;> (try subst hc) <;> simp

theorem repStepConn_safe {c c' : Conn} (h : Safe c.req.core) (hc : repStepConn c = some c') :
    Safe c'.req.core := by
  rcases repStepConn_req hc with e | e <;> rw [e]
  · exact h
  · exact safe_makeParser h

theorem repStep_ok {v : Valet} (h : TableOk v) (ca : Nat) : TableOk (v.repStep ca) := by
  obtain ⟨hr, hs, hn⟩ := h
  unfold Valet.repStep
  simp only [hr, Bool.false_eq_true, if_false]
  cases hl : lookup ca v.conns with
  | none => exact ⟨hr, hs, hn⟩
  | some c =>
    simp only []
    cases hc : repStepConn c with
    | some c' =>
      refine ⟨by simp, ?_, by simp only []; rw [keysOf_setConn]; exact hn⟩
      intro k ck hk
      simp only [] at hk
      by_cases hkc : k = ca
      · subst hkc
        rw [lookup_setConn_eq c' v.conns (by simp [hl])] at hk
        simp at hk; subst hk; exact repStepConn_safe (hs k c hl) hc
      · rw [lookup_setConn_ne hkc] at hk; exact hs k ck hk
    | none =>
      refine ⟨by simp, ?_, (keysOf_erase_sublist ca v.conns).nodup hn⟩
      intro k ck hk
      simp only [] at hk
      by_cases hkc : k = ca
      · subst hkc; rw [lookup_erase_eq v.conns hn] at hk; simp at hk
      · rw [lookup_erase_ne hkc] at hk; exact hs k ck hk

theorem foldl_repStep_ok (ks : List Nat) (v : Valet) (h : TableOk v) : TableOk (ks.foldl Valet.repStep v) := by
  induction ks generalizing v with
  | nil => exact h
  | cons k ks ih => exact ih _ (repStep_ok h k)

theorem lookup_map_tx (ca : Nat) (l : List (Nat × Conn)) :
    lookup ca (l.map (fun p => (p.1, { p.2 with txPending := p.2.txPending && p.2.stalled }))) =
      (lookup ca l).map (fun c => { c with txPending := c.txPending && c.stalled }) := by
  induction l with
  | nil => rfl
  | cons p l ih =>
    obtain ⟨k, c⟩ := p
    by_cases hk : k = ca <;> simp [lookup, hk, ih]

theorem drain_ok {v : Valet} (h : TableOk v) : TableOk v.drain := by
  obtain ⟨hr, hs, hn⟩ := h
  unfold Valet.drain
  simp only [hr, Bool.false_eq_true, if_false]
  refine ⟨by simp, ?_, ?_⟩
  · intro k c hk
    simp only [] at hk
    rw [lookup_map_tx] at hk
    cases hl : lookup k v.conns with
    | none => simp [hl] at hk
    | some c0 => simp [hl] at hk; subst hk; exact hs k c0 hl
  · simpa [keysOf, List.map_map, Function.comp_def] using hn

theorem serviceReqs_ok {v : Valet} (h : TableOk v) : TableOk v.serviceReqs := by
  obtain ⟨hr, hs, hn⟩ := h
  obtain ⟨h1, h2, h3, _⟩ := foldl_reqStep_spec (keysOf v.conns) v hn hr hs hn
  exact ⟨h1, h2, h3⟩

theorem serviceAll_ok {v : Valet} (h : TableOk v) : TableOk v.serviceAll := by
  unfold Valet.serviceAll Valet.serviceReps
  exact drain_ok (foldl_repStep_ok _ _ (serviceReqs_ok h))

end Ioflo.Http
