import IofloModel.Lemmas.HttpMsg
import IofloModel.Model.HttpValet
/-! No exception leaves `parse()` in the repaired parsers: the invariant `Safe` is kept by every
step, whatever the bytes. -/
namespace Ioflo.Http

/-- nothing has escaped `parse()` and the generator is not dead; the tree is the repaired one -/
def Safe (c : Core) : Prop :=
  c.escaped = none ∧ c.gen ≠ .dead ∧ c.stopIter = false ∧ c.catchVE = true

def Res.core : Res → Core
  | .stop c _ => c
  | .cont c _ => c

theorem safe_raise {c : Core} (h : Safe c) (e : Exc) (buf : Bytes) : Safe (raise c e buf).core := by
  obtain ⟨h1, h2, h3, h4⟩ := h
  simp [raise, h4, httpFail, Res.core, Safe, h1, h3]

theorem safe_finishBody {c : Core} (h : Safe c) (buf : Bytes) : Safe (finishBody c buf).core := by
  obtain ⟨h1, h2, h3, h4⟩ := h
  simp [finishBody, Res.core, Safe, h1, h3, h4]

theorem safe_enterLeader {c : Core} (h : Safe c) (g : Gen) (hg : g ≠ .dead) (buf : Bytes) :
    Safe (enterLeader c g buf).core := by
  unfold enterLeader
  split
  · exact safe_raise h _ _
  · obtain ⟨h1, h2, h3, h4⟩ := h
    simp [Res.core, Safe, h1, h3, h4, hg]

theorem safe_startBody {c : Core} (h : Safe c) (buf : Bytes) : Safe (startBody c buf).core := by
  have hb : Safe { c with body := [] } := h
  have hp : Safe { c with body := [], parms := some [] } := h
  unfold startBody
  simp only []
  split
  · split
    · exact safe_raise hp _ _
    · obtain ⟨h1, h2, h3, h4⟩ := h
      simp [Res.core, Safe, h1, h3, h4]
  · split
    · obtain ⟨h1, h2, h3, h4⟩ := h
      simp [Res.core, Safe, h1, h3, h4]
    · split
      · exact safe_raise hb _ _
      · obtain ⟨h1, h2, h3, h4⟩ := h
        simp [Res.core, Safe, h1, h3, h4]

theorem safe_headDone {c : Core} (h : Safe c) (H : Hdrs) (buf : Bytes) : Safe (headDone c H buf).core := by
  unfold headDone
  split
  · unfold reqHeadDone
    exact safe_startBody (c := reqHeadCore c H) h buf
  · unfold rspHeadDone
    simp only []
    split
    · obtain ⟨h1, h2, h3, h4⟩ := h
      simp [Res.core, Safe, rspHeadCore, h1, h3, h4]
    · exact safe_startBody (c := { rspHeadCore c H with
        persisted := rspPersisted (rspHeadCore c H).version H (isChunked H) (rspHeadCore c H).length }) h buf

theorem safe_chunkDone {c : Core} (h : Safe c) (pm : Parms) (chunk buf : Bytes) :
    Safe (chunkDone c pm chunk buf).core := by
  have hc : Safe { c with parms := updParms c.parms pm, body := c.body ++ chunk } := h
  unfold chunkDone
  simp only []
  split
  · exact safe_finishBody hc _
  · obtain ⟨h1, h2, h3, h4⟩ := h
    simp [Res.core, Safe, h1, h3, h4]

theorem safe_stepOn {c : Core} (h : Safe c) (buf : Bytes) : Safe (stepOn c buf).core := by
  unfold stepOn
  split
  case h_2 hg => exact absurd hg h.2.1
  all_goals (repeat' (first | split | (simp only []; split)))
  all_goals first
    | (apply safe_raise; exact h)
    | (apply safe_enterLeader
       · exact h
       · simp)
    | (apply safe_headDone; exact h)
    | (apply safe_chunkDone; exact h)
    | (apply safe_finishBody; exact h)
    | (obtain ⟨h1, h2, h3, h4⟩ := h; simp [Res.core, Safe, h1, h3, h4]; done)
    | (obtain ⟨h1, h2, h3, h4⟩ := h; simp_all [Res.core, Safe]; done)

theorem safe_pump : ∀ (n : Nat) (c : Core) (buf : Bytes), Safe c → Safe (pump n c buf).core := by
  intro n
  induction n with
  | zero => intro c buf h; exact h
  | succ n ih =>
    intro c buf h
    have hs := safe_stepOn h buf
    simp only [pump]
    cases hst : stepOn c buf with
    | stop c' b' => rw [hst] at hs; exact hs
    | cont c' b' => rw [hst] at hs; exact ih c' b' hs

theorem safe_parse {s : St} (h : Safe s.core) : Safe (parse s).core := by
  unfold parse
  split
  · have := safe_raise h .prematureClosure s.msg
    cases hr : raise s.core Exc.prematureClosure s.msg <;> (rw [hr] at this; exact this)
  · exact safe_pump _ _ _ h

theorem safe_feed {s : St} (h : Safe s.core) (b : Bytes) : Safe (feed s b).core :=
  safe_parse (s := { s with msg := s.msg ++ b }) h

theorem safe_close {s : St} (h : Safe s.core) : Safe (close s).core := h

theorem safe_makeParser {s : St} (h : Safe s.core) : Safe (makeParser s).core := by
  obtain ⟨h1, h2, h3, h4⟩ := h
  simp [makeParser, Safe, h1, h3, h4]

theorem safe_init (kind : Kind) (m : Bytes) (max : Nat) : Safe (init kind m max).core := by
  simp [init, Safe]

/-! ### the connection table -/

theorem lookup_setConn_ne {ca ca' : Nat} (h : ca' ≠ ca) (c : Conn) (l : List (Nat × Conn)) :
    lookup ca' (setConn ca c l) = lookup ca' l := by
  induction l with
  | nil => rfl
  | cons p l ih =>
    obtain ⟨k, c'⟩ := p
    by_cases hk : k = ca
    · subst hk; simp [setConn, lookup, Ne.symm h]
    · by_cases hk' : k = ca'
      · subst hk'; simp [setConn, lookup, hk]
      · simp [setConn, lookup, hk, hk', ih]

theorem lookup_erase_ne {ca ca' : Nat} (h : ca' ≠ ca) (l : List (Nat × Conn)) :
    lookup ca' (erase ca l) = lookup ca' l := by
  induction l with
  | nil => rfl
  | cons p l ih =>
    obtain ⟨k, c'⟩ := p
    by_cases hk : k = ca
    · subst hk; simp [erase, lookup, Ne.symm h]
    · by_cases hk' : k = ca'
      · subst hk'; simp [erase, lookup, hk]
      · simp [erase, lookup, hk, hk', ih]

end Ioflo.Http
