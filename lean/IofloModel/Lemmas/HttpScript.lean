import IofloModel.Lemmas.HttpMsg
/-! The segments of a well-formed HTTP message as script elements (`Elem.ok`) of the parser model:
CRLF-terminated lines, chunk data, fixed-length bodies. -/
namespace Ioflo.Http

/-- a line: no CR, no LF inside -/
def cleanLine (l : Bytes) : Prop := ∀ b ∈ l, b ≠ 10 ∧ b ≠ 13

instance (l : Bytes) : Decidable (cleanLine l) := by unfold cleanLine; infer_instance

def crlf : Bytes := [13, 10]

/-! ### the searches on `line ++ CRLF ++ tail` and on proper prefixes of `line ++ CRLF` -/

theorem earliest_cons2 (lf : Bool) (a b : Nat) (r : Bytes) :
    earliest lf (a :: b :: r) =
      if a = 13 ∧ b = 10 then some ([], r)
      else if lf = true ∧ a = 10 then some ([], b :: r)
      else match earliest lf (b :: r) with
        | none => none
        | some (l, r'') => some (a :: l, r'') := by
  conv => lhs; unfold earliest
  rfl

theorem splitCRLF_cons2 (a b : Nat) (r : Bytes) :
    splitCRLF (a :: b :: r) =
      if a = 13 ∧ b = 10 then some ([], r)
      else match splitCRLF (b :: r) with
        | none => none
        | some (l, r') => some (a :: l, r') := by
  conv => lhs; unfold splitCRLF
  rfl

theorem earliest_clean {l : Bytes} (hl : cleanLine l) (lf : Bool) (tail : Bytes) :
    earliest lf (l ++ 13 :: 10 :: tail) = some (l, tail) := by
  induction l with
  | nil => simp [earliest]
  | cons a l ih =>
    have ha := hl a (by simp)
    have hl' : cleanLine l := fun b hb => hl b (by simp [hb])
    have ih' := ih hl'
    cases hl2 : l ++ 13 :: 10 :: tail with
    | nil => simp at hl2
    | cons b r =>
      rw [hl2] at ih'
      simp only [List.cons_append, hl2, earliest_cons2]
      simp [ha.1, ha.2, ih']

theorem earliest_no_lf {p : Bytes} (hp : ∀ b ∈ p, b ≠ 10) (lf : Bool) : earliest lf p = none := by
  induction p with
  | nil => rfl
  | cons a p ih =>
    have ha := hp a (by simp)
    have ih' := ih (fun b hb => hp b (by simp [hb]))
    cases p with
    | nil => simp [earliest, ha]
    | cons b r =>
      have hb := hp b (by simp)
      simp only [earliest_cons2]
      simp [ha, hb, ih']

theorem splitCRLF_clean {l : Bytes} (hl : cleanLine l) (tail : Bytes) :
    splitCRLF (l ++ 13 :: 10 :: tail) = some (l, tail) := by
  induction l with
  | nil => simp [splitCRLF]
  | cons a l ih =>
    have ha := hl a (by simp)
    have ih' := ih (fun b hb => hl b (by simp [hb]))
    cases hl2 : l ++ 13 :: 10 :: tail with
    | nil => simp at hl2
    | cons b r =>
      rw [hl2] at ih'
      simp only [List.cons_append, hl2, splitCRLF_cons2]
      simp [ha.2, ih']

theorem splitCRLF_no_lf {p : Bytes} (hp : ∀ b ∈ p, b ≠ 10) : splitCRLF p = none := by
  induction p with
  | nil => rfl
  | cons a p ih =>
    have ih' := ih (fun b hb => hp b (by simp [hb]))
    cases p with
    | nil => simp [splitCRLF]
    | cons b r =>
      have hb := hp b (by simp)
      simp only [splitCRLF_cons2]
      simp [hb, ih']

theorem splitByte_none {c : Nat} {p : Bytes} (hp : ∀ b ∈ p, b ≠ c) : splitByte c p = none := by
  induction p with
  | nil => rfl
  | cons a p ih =>
    have ha := hp a (by simp)
    simp [splitByte, ha, ih (fun b hb => hp b (by simp [hb]))]

/-- a proper prefix of `l ++ CRLF` holds no LF and is at most one byte longer than `l` -/
theorem proper_prefix_line {l p : Bytes} (hl : cleanLine l) (hp : p <+: l ++ crlf) (hne : p ≠ l ++ crlf) :
    (∀ b ∈ p, b ≠ 10) ∧ p.length ≤ l.length + 1 := by
  have hlen : p.length ≤ l.length + 1 := by
    have h1 := hp.length_le
    simp [crlf] at h1
    rcases Nat.lt_or_ge p.length (l.length + 2) with h | h
    · omega
    · exact absurd (hp.eq_of_length (by simp [crlf]; omega)) hne
  refine ⟨?_, hlen⟩
  have hp' : p <+: l ++ [13] := by
    have : l ++ crlf = (l ++ [13]) ++ [10] := by simp [crlf]
    rw [this] at hp
    rcases List.prefix_or_prefix_of_prefix hp (List.prefix_append (l ++ [13]) [10]) with h | h
    · exact h
    · have := h.length_le; simp at this
      exact List.IsPrefix.eq_of_length h (by simp; omega) ▸ List.prefix_refl _
  intro b hb
  have := hp'.subset hb
  simp at this
  rcases this with h | h
  · exact (hl b h).1
  · subst h; decide

theorem lineTry_clean {max : Nat} {l : Bytes} (hl : cleanLine l) (hlen : l.length ≤ max) (lf : Bool)
    (tail : Bytes) : lineTry max lf (l ++ (crlf ++ tail)) = .line l tail := by
  have : l ++ (crlf ++ tail) = l ++ 13 :: 10 :: tail := by simp [crlf]
  rw [this, lineTry, earliest_clean hl, lineRes]
  simp; omega

theorem lineTry_proper {max : Nat} {l p : Bytes} (hl : cleanLine l) (hlen : l.length < max) (lf : Bool)
    (hp : p <+: l ++ crlf) (hne : p ≠ l ++ crlf) : lineTry max lf p = .wait := by
  obtain ⟨h1, h2⟩ := proper_prefix_line hl hp hne
  rw [lineTry, earliest_no_lf h1, lineRes]
  simp; omega

theorem leaderTry_clean {max : Nat} {l : Bytes} (hl : cleanLine l) (hlen : l.length ≤ max)
    (tail : Bytes) : leaderTry max (l ++ (crlf ++ tail)) = .line l tail := by
  have : l ++ (crlf ++ tail) = l ++ 13 :: 10 :: tail := by simp [crlf]
  rw [this, leaderTry, leaderSearch, splitCRLF_clean hl, lineRes]
  simp; omega

theorem leaderTry_proper {max : Nat} {l p : Bytes} (hl : cleanLine l) (hlen : l.length < max)
    (hp : p <+: l ++ crlf) (hne : p ≠ l ++ crlf) : leaderTry max p = .wait := by
  obtain ⟨h1, h2⟩ := proper_prefix_line hl hp hne
  rw [leaderTry, leaderSearch, splitCRLF_no_lf h1, splitByte_none h1, lineRes]
  simp; omega

/-! ### header lines in the three places a leader is parsed -/

inductive LCtx | head | cont | trailer (pm : Parms)

def LCtx.gen : LCtx → Hdrs → Gen
  | .head, h => .hdrs h
  | .cont, h => .contHdrs h
  | .trailer pm, h => .chunkTrailer pm h

theorem closedCond_false {c : Core} (h : c.closed = false) (buf : Bytes) : closedCond c buf = false := by
  unfold closedCond; cases c.kind <;> simp [h]

theorem leaderIter_line {max : Nat} {h h' : Hdrs} {l : Bytes} (hl : cleanLine l) (hne : l ≠ [])
    (hlen : l.length ≤ max) (hh : headerLine h l = .ok h') (tail : Bytes) :
    leaderIter max h (l ++ (crlf ++ tail)) = .more h' tail := by
  unfold leaderIter
  rw [leaderTry_clean hl hlen]
  simp [hne, hh]

theorem leaderIter_proper {max : Nat} {h : Hdrs} {l p : Bytes} (hl : cleanLine l) (hlen : l.length < max)
    (hp : p <+: l ++ crlf) (hne : p ≠ l ++ crlf) : leaderIter max h p = .wait := by
  unfold leaderIter
  rw [leaderTry_proper hl hlen hp hne]

theorem leaderLine_ok (c : Core) (x : LCtx) (h h' : Hdrs) (l : Bytes)
    (hg : c.gen = x.gen h) (hcl : c.closed = false) (hl : cleanLine l) (hne : l ≠ [])
    (hlen : l.length < c.max) (hh : headerLine h l = .ok h') :
    Elem.ok ⟨l ++ crlf, (· = c), { c with gen := x.gen h' }⟩ := by
  refine ⟨by simp [crlf], ?_, ?_, ?_⟩
  · intro c' hc' tail
    subst hc'
    rw [run_unfold]
    have hi := leaderIter_line (max := c'.max) hl hne (Nat.le_of_lt hlen) hh tail
    cases x <;> simp [stepOn, hg, LCtx.gen, hi]
  · intro c' hc' p hp hpne
    subst hc'
    refine ⟨c', rfl, ?_⟩
    rw [run_unfold]
    have hi := leaderIter_proper (max := c'.max) (h := h) hl hlen hp hpne
    cases x <;> simp [stepOn, hg, LCtx.gen, hi]
  · intro c' hc' buf
    subst hc'
    cases x <;> simp [resumeCheck, hg, LCtx.gen, closedCond_false hcl] <;> cases c'.kind <;> rfl

/-- the header lines of a leader read one after the other -/
def foldHdr : Hdrs → List Bytes → Option Hdrs
  | h, [] => some h
  | h, l :: ls =>
    match headerLine h l with
    | .ok h' => foldHdr h' ls
    | .error _ => none

def goodLine (max : Nat) (l : Bytes) : Prop := cleanLine l ∧ l ≠ [] ∧ l.length < max

def leaderElems (c : Core) (x : LCtx) : Hdrs → List Bytes → List Elem
  | _, [] => []
  | h, l :: ls =>
    match headerLine h l with
    | .ok h' =>
      ⟨l ++ crlf, (· = { c with gen := x.gen h }), { c with gen := x.gen h' }⟩ :: leaderElems c x h' ls
    | .error _ => []

def linesBytes : List Bytes → Bytes
  | [] => []
  | l :: ls => l ++ (crlf ++ linesBytes ls)

theorem segsOf_append (a b : List Elem) : segsOf (a ++ b) = segsOf a ++ segsOf b := by
  induction a with
  | nil => rfl
  | cons e a ih => simp [segsOf, ih]

theorem chain_leader {f : Core} (c : Core) (x : LCtx) (hcl : c.closed = false) :
    ∀ (ls : List Bytes) (h H : Hdrs) (more : List Elem), (∀ l ∈ ls, goodLine c.max l) →
      foldHdr h ls = some H → Chain f { c with gen := x.gen H } more →
      Chain f { c with gen := x.gen h } (leaderElems c x h ls ++ more) ∧
      segsOf (leaderElems c x h ls ++ more) = linesBytes ls ++ segsOf more := by
  intro ls
  induction ls with
  | nil =>
    intro h H more _ hf hm
    simp only [foldHdr, Option.some.injEq] at hf
    subst hf
    exact ⟨hm, by simp [leaderElems, linesBytes]⟩
  | cons l ls ih =>
    intro h H more hgood hf hm
    have hg := hgood l (by simp)
    simp only [foldHdr] at hf
    cases hh : headerLine h l with
    | error e => simp [hh] at hf
    | ok h' =>
      simp only [hh] at hf
      obtain ⟨ih1, ih2⟩ := ih h' H more (fun l' hl' => hgood l' (by simp [hl'])) hf hm
      simp only [leaderElems, hh, List.cons_append]
      refine ⟨⟨rfl, ?_, ih1⟩, ?_⟩
      · exact leaderLine_ok { c with gen := x.gen h } x h h' l rfl hcl hg.1 hg.2.1 hg.2.2 hh
      · simp [segsOf, ih2, linesBytes, List.append_assoc]

/-! ### the start line, from a fresh parser -/

/-- the generator after its first `next()` on an empty buffer -/
def cWait (c0 : Core) : Core :=
  { c0 with ended := some false, closed := false, errored := false,
            parms := resetOf c0.resetPT c0.parms, trails := resetOf c0.resetPT c0.trails, gen := .waitStart }

/-- the generator once the first bytes have arrived, inside `parseHead` -/
def cStarted (c0 : Core) : Core :=
  { cWait c0 with started := true, headers := some [], gen := .startLine }

/-- `Requestant` after the request line -/
def reqAfterStart (c0 : Core) (m u v : Bytes) : Core :=
  { cStarted c0 with method := m, url := strip u, version := reqVersion v, gen := .hdrs [] }

def rspVersion (v : Bytes) : Option (Nat × Nat) :=
  if v = sHTTP10 ∨ v = sHTTP09 then some (1, 0)
  else if startsWith sHTTP1 v then some (1, 1) else none

/-- `Respondent` after the status line -/
def rspAfterStart (c0 : Core) (ver : Nat × Nat) (status : Nat) (reason : Bytes) : Core :=
  { cStarted c0 with status := some status, reason := some (strip reason), version := some ver,
                     gen := .hdrs [] }

theorem run_fresh (c0 : Core) (hg : c0.gen = .fresh) (buf : Bytes) : run c0 buf = run (cWait c0) buf := by
  rw [run_unfold]; simp [stepOn, hg, cWait]

theorem run_wait_nil (c0 : Core) (hst : c0.started = false) :
    run (cWait c0) [] = { core := cWait c0, msg := [] } := by
  rw [run_unfold]; simp [stepOn, cWait, hst]

theorem run_wait_cons (c0 : Core) (b : Nat) (r : Bytes) :
    run (cWait c0) (b :: r) = run (cStarted c0) (b :: r) := by
  rw [run_unfold]; simp [stepOn, cWait, cStarted]

theorem reqStart_ok (c0 : Core) (hk : c0.kind = .req) (hg : c0.gen = .fresh) (hst : c0.started = false)
    (sl m u v : Bytes) (hl : cleanLine sl) (hlen : sl.length < c0.max)
    (hp : parseRequestLine sl = .ok (m, u, v)) (hv : startsWith sHTTP1 v = true)
    (hu : urlCheck (strip u) = .ok) :
    Elem.ok ⟨sl ++ crlf, (fun c => c = c0 ∨ c = cWait c0 ∨ c = cStarted c0), reqAfterStart c0 m u v⟩ := by
  have hstarted : ∀ tail, run (cStarted c0) (sl ++ (crlf ++ tail)) = run (reqAfterStart c0 m u v) tail := by
    intro tail
    rw [run_unfold]
    have hlt := lineTry_clean (max := c0.max) hl (Nat.le_of_lt hlen) true tail
    simp [stepOn, cStarted, cWait, closedCond, hk, hlt, hp, hv, hu, enterLeader, reqAfterStart, reqVersion]
  have hne : ∀ tail, sl ++ (crlf ++ tail) ≠ [] := by intro tail; simp [crlf]
  have hproper : ∀ p, p <+: sl ++ crlf → p ≠ sl ++ crlf →
      run (cStarted c0) p = { core := cStarted c0, msg := p } := by
    intro p hp' hpne
    rw [run_unfold]
    have hlt := lineTry_proper (max := c0.max) hl hlen true hp' hpne
    simp [stepOn, cStarted, cWait, closedCond, hk, hlt]
  refine ⟨by simp [crlf], ?_, ?_, ?_⟩
  · intro c hc tail
    simp only [List.append_assoc]
    cases hb : sl ++ (crlf ++ tail) with
    | nil => exact absurd hb (hne tail)
    | cons b r =>
      rcases hc with rfl | rfl | rfl
      · rw [run_fresh _ hg, run_wait_cons, ← hb, hstarted]
      · rw [run_wait_cons, ← hb, hstarted]
      · rw [← hb, hstarted]
  · intro c hc p hp' hpne
    cases p with
    | nil =>
      rcases hc with rfl | rfl | rfl
      · exact ⟨cWait c, Or.inr (Or.inl rfl), by rw [run_fresh _ hg, run_wait_nil _ hst]⟩
      · exact ⟨cWait c0, Or.inr (Or.inl rfl), run_wait_nil _ hst⟩
      · exact ⟨cStarted c0, Or.inr (Or.inr rfl), hproper [] hp' hpne⟩
    | cons b r =>
      refine ⟨cStarted c0, Or.inr (Or.inr rfl), ?_⟩
      rcases hc with rfl | rfl | rfl
      · rw [run_fresh _ hg, run_wait_cons, hproper _ hp' hpne]
      · rw [run_wait_cons, hproper _ hp' hpne]
      · exact hproper _ hp' hpne
  · intro c hc buf
    rcases hc with rfl | rfl | rfl <;> simp [resumeCheck, hg, cWait, cStarted]

theorem rspStart_ok (c0 : Core) (hk : c0.kind = .rsp) (hg : c0.gen = .fresh) (hst : c0.started = false)
    (sl v reason : Bytes) (status : Nat) (ver : Nat × Nat) (hl : cleanLine sl) (hlen : sl.length < c0.max)
    (hp : parseStatusLine sl = .ok (v, status, reason)) (h100 : status ≠ 100)
    (hv : rspVersion v = some ver) :
    Elem.ok ⟨sl ++ crlf, (fun c => c = c0 ∨ c = cWait c0 ∨ c = cStarted c0),
      rspAfterStart c0 ver status reason⟩ := by
  have hstarted : ∀ tail, run (cStarted c0) (sl ++ (crlf ++ tail)) = run (rspAfterStart c0 ver status reason) tail := by
    intro tail
    rw [run_unfold]
    have hlt := lineTry_clean (max := c0.max) hl (Nat.le_of_lt hlen) true tail
    unfold rspVersion at hv
    by_cases h1 : v = sHTTP10 ∨ v = sHTTP09
    · simp only [h1, if_true, Option.some.injEq] at hv
      subst hv
      simp [stepOn, cStarted, cWait, closedCond, hk, hlt, hp, h100, h1, enterLeader, rspAfterStart]
    · simp only [h1, if_false] at hv
      by_cases h2 : startsWith sHTTP1 v = true
      · simp only [h2, if_true, Option.some.injEq] at hv
        subst hv
        simp [stepOn, cStarted, cWait, closedCond, hk, hlt, hp, h100, h1, h2, enterLeader, rspAfterStart]
      · simp [h2] at hv
  have hne : ∀ tail, sl ++ (crlf ++ tail) ≠ [] := by intro tail; simp [crlf]
  have hproper : ∀ p, p <+: sl ++ crlf → p ≠ sl ++ crlf →
      run (cStarted c0) p = { core := cStarted c0, msg := p } := by
    intro p hp' hpne
    rw [run_unfold]
    have hlt := lineTry_proper (max := c0.max) hl hlen true hp' hpne
    simp [stepOn, cStarted, cWait, closedCond, hk, hlt]
  refine ⟨by simp [crlf], ?_, ?_, ?_⟩
  · intro c hc tail
    simp only [List.append_assoc]
    cases hb : sl ++ (crlf ++ tail) with
    | nil => exact absurd hb (hne tail)
    | cons b r =>
      rcases hc with rfl | rfl | rfl
      · rw [run_fresh _ hg, run_wait_cons, ← hb, hstarted]
      · rw [run_wait_cons, ← hb, hstarted]
      · rw [← hb, hstarted]
  · intro c hc p hp' hpne
    cases p with
    | nil =>
      rcases hc with rfl | rfl | rfl
      · exact ⟨cWait c, Or.inr (Or.inl rfl), by rw [run_fresh _ hg, run_wait_nil _ hst]⟩
      · exact ⟨cWait c0, Or.inr (Or.inl rfl), run_wait_nil _ hst⟩
      · exact ⟨cStarted c0, Or.inr (Or.inr rfl), hproper [] hp' hpne⟩
    | cons b r =>
      refine ⟨cStarted c0, Or.inr (Or.inr rfl), ?_⟩
      rcases hc with rfl | rfl | rfl
      · rw [run_fresh _ hg, run_wait_cons, hproper _ hp' hpne]
      · rw [run_wait_cons, hproper _ hp' hpne]
      · exact hproper _ hp' hpne
  · intro c hc buf
    rcases hc with rfl | rfl | rfl <;> simp [resumeCheck, hg, cWait, cStarted]

/-! ### the empty line that ends the head -/

theorem leaderIter_blank {max : Nat} {H : Hdrs} (hH : H.length ≤ MAX_HEADERS) (tail : Bytes) :
    leaderIter max H (crlf ++ tail) = .done H tail := by
  unfold leaderIter
  have := leaderTry_clean (max := max) (l := []) (by simp [cleanLine]) (by simp) tail
  simp only [List.nil_append] at this
  rw [this]
  simp; omega

theorem proper_crlf {p : Bytes} (hp : p <+: crlf) (hne : p ≠ crlf) : p <+: [] ++ crlf ∧ p ≠ [] ++ crlf := by
  simpa using ⟨hp, hne⟩

theorem headEnd_ok (c cB : Core) (H : Hdrs) (hg : c.gen = .hdrs H) (hcl : c.closed = false)
    (hH : H.length ≤ MAX_HEADERS) (hmax : 0 < c.max)
    (hd : ∀ tail, headDone c H tail = .cont cB tail) :
    Elem.ok ⟨crlf, (· = c), cB⟩ := by
  refine ⟨by simp [crlf], ?_, ?_, ?_⟩
  · intro c' hc' tail
    subst hc'
    rw [run_unfold]
    simp only [stepOn, hg, leaderIter_blank hH, hd tail]
  · intro c' hc' p hp hpne
    subst hc'
    refine ⟨c', rfl, ?_⟩
    rw [run_unfold]
    obtain ⟨h1, h2⟩ := proper_crlf hp hpne
    have hi := leaderIter_proper (max := c'.max) (h := H) (l := []) (by simp [cleanLine]) hmax h1 h2
    simp [stepOn, hg, hi]
  · intro c' hc' buf
    subst hc'
    simp [resumeCheck, hg, closedCond_false hcl]

/-! ### a body of known length -/

/-- the parser after the message: `parseBody` and `parseMessage` finished -/
def doneCore (c : Core) (body : Bytes) : Core :=
  { c with body := body, length := some body.length, ended := some true, started := false, gen := .none }

theorem run_done (c : Core) (hg : c.gen = .none) (buf : Bytes) : run c buf = { core := c, msg := buf } := by
  rw [run_unfold]; simp [stepOn, hg]

theorem bodyLength_ok (c : Core) (data : Bytes) (hg : c.gen = .bodyLength) (hcl : c.closed = false)
    (hn : c.length = some data.length) (hne : data ≠ []) :
    Elem.ok ⟨data, (· = c), doneCore c data⟩ := by
  refine ⟨hne, ?_, ?_, ?_⟩
  · intro c' hc' tail
    subst hc'
    rw [run_unfold, run_done _ rfl]
    have : ¬ (data.length + tail.length < data.length) := by omega
    simp [stepOn, hg, hn, finishBody, doneCore, this]
  · intro c' hc' p hp hpne
    subst hc'
    refine ⟨c', rfl, ?_⟩
    rw [run_unfold]
    have : p.length < data.length := by
      rcases Nat.lt_or_ge p.length data.length with h | h
      · exact h
      · exact absurd (hp.eq_of_length (Nat.le_antisymm hp.length_le h)) hpne
    simp [stepOn, hg, hn, this, closedCond_false hcl]
  · intro c' hc' buf
    subst hc'
    simp [resumeCheck, hg]

/-- a body of length 0 ends the message as soon as the head is done -/
theorem run_bodyLength_zero (c : Core) (hg : c.gen = .bodyLength) (hn : c.length = some 0) (t : Bytes) :
    run c t = { core := doneCore c [], msg := t } := by
  rw [run_unfold]
  simp [stepOn, hg, hn, finishBody, doneCore]

/-! ### chunks -/

theorem chunkSize_ok (c : Core) (sl : Bytes) (n : Int) (pm : Parms) (hg : c.gen = .chunkSize)
    (hcl : c.closed = false) (hl : cleanLine sl) (hlen : sl.length < c.max)
    (hc : chunkLine sl = .ok (n, pm)) :
    Elem.ok ⟨sl ++ crlf, (· = c),
      { c with gen := if n = 0 then .chunkTrailer pm [] else .chunkData n pm }⟩ := by
  refine ⟨by simp [crlf], ?_, ?_, ?_⟩
  · intro c' hc' tail
    subst hc'
    rw [run_unfold]
    have hlt := lineTry_clean (max := c'.max) hl (Nat.le_of_lt hlen) false tail
    by_cases h0 : n = 0 <;> simp [stepOn, hg, hlt, hc, h0]
  · intro c' hc' p hp hpne
    subst hc'
    refine ⟨c', rfl, ?_⟩
    rw [run_unfold]
    have hlt := lineTry_proper (max := c'.max) hl hlen false hp hpne
    simp [stepOn, hg, hlt]
  · intro c' hc' buf
    subst hc'
    simp [resumeCheck, hg, closedCond_false hcl]; cases c'.kind <;> rfl

theorem sliceTo_append (d tail : Bytes) : sliceTo (d ++ tail) (d.length : Int) = (d, tail) := by
  unfold sliceTo
  simp

theorem chunkData_ok (c : Core) (d : Bytes) (pm : Parms) (hg : c.gen = .chunkData d.length pm)
    (hcl : c.closed = false) (hne : d ≠ []) :
    Elem.ok ⟨d, (· = c), { c with gen := .chunkEnd pm d }⟩ := by
  refine ⟨hne, ?_, ?_, ?_⟩
  · intro c' hc' tail
    subst hc'
    rw [run_unfold]
    have : ¬ (((d ++ tail).length : Int) < (d.length : Int)) := by simp; omega
    simp only [stepOn, hg, this, if_false, sliceTo_append]
  · intro c' hc' p hp hpne
    subst hc'
    refine ⟨c', rfl, ?_⟩
    rw [run_unfold]
    have : p.length < d.length := by
      rcases Nat.lt_or_ge p.length d.length with h | h
      · exact h
      · exact absurd (hp.eq_of_length (Nat.le_antisymm hp.length_le h)) hpne
    have : ((p.length : Int) < (d.length : Int)) := by omega
    simp [stepOn, hg, this]
  · intro c' hc' buf
    subst hc'
    simp [resumeCheck, hg, closedCond_false hcl]; cases c'.kind <;> rfl

theorem esStep_off {c : Core} (h : usesEs c = false) (buf : Bytes) (k : Core → Res) : esStep c buf k = k c := by
  simp [esStep, h]

theorem chunkEnd_ok (c : Core) (d : Bytes) (pm : Parms) (hg : c.gen = .chunkEnd pm d)
    (hcl : c.closed = false) (hmax : 0 < c.max) (hes : usesEs c = false) :
    Elem.ok ⟨crlf, (· = c),
      { c with parms := updParms c.parms pm, body := c.body ++ d, gen := .chunkSize }⟩ := by
  refine ⟨by simp [crlf], ?_, ?_, ?_⟩
  · intro c' hc' tail
    subst hc'
    rw [run_unfold]
    have hlt := lineTry_clean (max := c'.max) (l := []) (by simp [cleanLine]) (by simp) false tail
    simp only [List.nil_append] at hlt
    have hcc : ∀ (x : Core) , x.closed = false → closedCond x tail = false := fun x hx => closedCond_false hx tail
    have hes' : usesEs { c' with parms := updParms c'.parms pm, body := c'.body ++ d } = false := hes
    have hcd : chunkDone c' pm d tail =
        .cont { c' with parms := updParms c'.parms pm, body := c'.body ++ d, gen := .chunkSize } tail := by
      unfold chunkDone
      rw [esStep_off hes']
      simp [closedCond_false (c := { c' with parms := updParms c'.parms pm, body := c'.body ++ d }) hcl]
    simp [stepOn, hg, hlt, hcd]
  · intro c' hc' p hp hpne
    subst hc'
    refine ⟨c', rfl, ?_⟩
    rw [run_unfold]
    obtain ⟨h1, h2⟩ := proper_crlf hp hpne
    have hlt := lineTry_proper (max := c'.max) (l := []) (by simp [cleanLine]) hmax false h1 h2
    simp [stepOn, hg, hlt]
  · intro c' hc' buf
    subst hc'
    simp [resumeCheck, hg, closedCond_false hcl]; cases c'.kind <;> rfl

/-- the empty line after the trailers of the last chunk: the message is complete -/
theorem trailerEnd_ok (c : Core) (pm : Parms) (Tr : Hdrs) (hg : c.gen = .chunkTrailer pm Tr)
    (hcl : c.closed = false) (hT : Tr.length ≤ MAX_HEADERS) (hmax : 0 < c.max) :
    Elem.ok ⟨crlf, (· = c),
      doneCore { c with parms := updParms c.parms pm, trails := trailsOf c.trails Tr } c.body⟩ := by
  refine ⟨by simp [crlf], ?_, ?_, ?_⟩
  · intro c' hc' tail
    subst hc'
    rw [run_unfold, run_done _ rfl]
    simp [stepOn, hg, leaderIter_blank hT, finishBody, doneCore]
  · intro c' hc' p hp hpne
    subst hc'
    refine ⟨c', rfl, ?_⟩
    rw [run_unfold]
    obtain ⟨h1, h2⟩ := proper_crlf hp hpne
    have hi := leaderIter_proper (max := c'.max) (h := Tr) (l := []) (by simp [cleanLine]) hmax h1 h2
    simp [stepOn, hg, hi]
  · intro c' hc' buf
    subst hc'
    simp [resumeCheck, hg, closedCond_false hcl]; cases c'.kind <;> rfl

/-! ### a sequence of chunks -/

/-- a chunk as written on the wire: the size line (hex size and extensions), what the parser's own
`chunkLine` reads in it, and the data -/
structure Chunk where
  sizeLine : Bytes
  pm : Parms
  data : Bytes

def Chunk.wf (max : Nat) (k : Chunk) : Prop :=
  cleanLine k.sizeLine ∧ k.sizeLine.length < max ∧
  chunkLine k.sizeLine = .ok ((k.data.length : Int), k.pm) ∧ k.data ≠ []

def Chunk.bytes (k : Chunk) : Bytes := k.sizeLine ++ (crlf ++ (k.data ++ crlf))

def chunksBytes : List Chunk → Bytes
  | [] => []
  | k :: ks => k.bytes ++ chunksBytes ks

def chunksData : List Chunk → Bytes
  | [] => []
  | k :: ks => k.data ++ chunksData ks

def chunksParms (P : Option Parms) : List Chunk → Option Parms
  | [] => P
  | k :: ks => chunksParms (updParms P k.pm) ks

def chunkElems (c : Core) : List Chunk → List Elem
  | [] => []
  | k :: ks =>
    let c1 : Core := { c with gen := .chunkData k.data.length k.pm }
    let c2 : Core := { c with gen := .chunkEnd k.pm k.data }
    let c3 : Core := { c with parms := updParms c.parms k.pm, body := c.body ++ k.data }
    ⟨k.sizeLine ++ crlf, (· = c), c1⟩ :: ⟨k.data, (· = c1), c2⟩ :: ⟨crlf, (· = c2), c3⟩ :: chunkElems c3 ks

theorem chain_chunks {f : Core} : ∀ (ks : List Chunk) (c : Core) (more : List Elem),
    c.gen = .chunkSize → c.closed = false → 0 < c.max → usesEs c = false → (∀ k ∈ ks, k.wf c.max) →
    Chain f { c with parms := chunksParms c.parms ks, body := c.body ++ chunksData ks } more →
    Chain f c (chunkElems c ks ++ more) ∧
    segsOf (chunkElems c ks ++ more) = chunksBytes ks ++ segsOf more := by
  intro ks
  induction ks with
  | nil =>
    intro c more hg hcl hmax _ _ hm
    simp only [chunksParms, chunksData, List.append_nil] at hm
    exact ⟨hm, by simp [chunkElems, chunksBytes]⟩
  | cons k ks ih =>
    intro c more hg hcl hmax hes hwf hm
    obtain ⟨hk1, hk2, hk3, hk4⟩ := hwf k (by simp)
    have hn0 : ((k.data.length : Int) = 0) = False := by
      simp; exact hk4
    have e1 := chunkSize_ok c k.sizeLine k.data.length k.pm hg hcl hk1 hk2 hk3
    simp only [hn0, if_false] at e1
    have e2 := chunkData_ok { c with gen := .chunkData k.data.length k.pm } k.data k.pm rfl hcl hk4
    have e3 := chunkEnd_ok { c with gen := .chunkEnd k.pm k.data } k.data k.pm rfl hcl hmax hes
    obtain ⟨ih1, ih2⟩ := ih { c with parms := updParms c.parms k.pm, body := c.body ++ k.data } more
      hg hcl hmax hes (fun k' hk' => hwf k' (by simp [hk']))
      (by simpa [chunksParms, chunksData, List.append_assoc] using hm)
    refine ⟨?_, ?_⟩
    · simp only [chunkElems, List.cons_append]
      exact ⟨rfl, e1, rfl, e2, rfl, by simpa [hg] using e3, by simpa [hg] using ih1⟩
    · simp only [chunkElems, List.cons_append, segsOf]
      simp only [hg] at ih2 ⊢
      rw [ih2]
      simp [chunksBytes, Chunk.bytes, List.append_assoc]

theorem headerLine_length {h h' : Hdrs} {l : Bytes} (hh : headerLine h l = .ok h') :
    h'.length ≤ MAX_HEADERS := by
  unfold headerLine at hh
  simp only [] at hh
  split at hh
  · simp at hh
  · split at hh
    · simp at hh
    · simp at hh; subst hh; omega

theorem foldHdr_length : ∀ (ls : List Bytes) (h H : Hdrs), h.length ≤ MAX_HEADERS → foldHdr h ls = some H →
    H.length ≤ MAX_HEADERS := by
  intro ls
  induction ls with
  | nil => intro h H hh hf; simp [foldHdr] at hf; subst hf; exact hh
  | cons l ls ih =>
    intro h H hh hf
    simp only [foldHdr] at hf
    cases hl : headerLine h l with
    | error e => simp [hl] at hf
    | ok h' => simp only [hl] at hf; exact ih h' H (headerLine_length hl) hf

/-! ### interpretation of the head -/

theorem req_headDone_chunked {c : Core} {H : Hdrs} (hk : c.kind = .req) (hcl : c.closed = false)
    (hch : isChunked H = true) (tail : Bytes) :
    headDone c H tail = .cont { reqHeadCore c H with body := [], parms := some [], gen := .chunkSize } tail := by
  simp [headDone, hk, reqHeadDone, startBody, hch, closedCond, hcl, reqHeadCore]

theorem req_headDone_length {c : Core} {H : Hdrs} {n : Nat} (hk : c.kind = .req)
    (hch : isChunked H = false) (hn : reqLen H = some n) (tail : Bytes) :
    headDone c H tail = .cont { reqHeadCore c H with body := [], gen := .bodyLength } tail := by
  simp [headDone, hk, reqHeadDone, startBody, hch, reqHeadCore, hn]

/-- `Respondent` after `parseHead` -/
def rspHeadCore' (c : Core) (H : Hdrs) : Core :=
  { rspHeadCore c H with persisted := rspPersisted c.version H (isChunked H) (rspLen c H) }

theorem rsp_headDone_chunked {c : Core} {H : Hdrs} (hk : c.kind = .rsp) (hcl : c.closed = false)
    (hev : isEvented H = false) (hch : isChunked H = true) (tail : Bytes) :
    headDone c H tail = .cont { rspHeadCore' c H with body := [], parms := some [], gen := .chunkSize } tail := by
  simp [headDone, hk, rspHeadDone, hev, startBody, hch, rspHeadCore, rspHeadCore', closedCond, hcl]

theorem rsp_headDone_length {c : Core} {H : Hdrs} {n : Nat} (hk : c.kind = .rsp)
    (hev : isEvented H = false) (hch : isChunked H = false) (hn : rspLen c H = some n) (tail : Bytes) :
    headDone c H tail = .cont { rspHeadCore' c H with body := [], gen := .bodyLength } tail := by
  simp [headDone, hk, rspHeadDone, hev, startBody, hch, rspHeadCore, rspHeadCore', hn]

theorem rsp_headDone_close {c : Core} {H : Hdrs} (hk : c.kind = .rsp)
    (hev : isEvented H = false) (hch : isChunked H = false) (hn : rspLen c H = none) (tail : Bytes) :
    headDone c H tail = .cont { rspHeadCore' c H with body := [], gen := .bodyClose } tail := by
  simp [headDone, hk, rspHeadDone, hev, startBody, hch, rspHeadCore, rspHeadCore', hn]

/-! ### ends of a script -/

/-- a script that ends in a finished message: the rest of the stream stays in the buffer -/
theorem script_done {f d c0 : Core} {e : Elem} {es : List Elem} {rest : Bytes}
    (hf : ∀ t, run f t = { core := d, msg := t }) (hd : d.gen = .none)
    (hch : Chain f c0 (e :: es)) (ps : List Bytes) (hps : ps.flatten = segsOf (e :: es) ++ rest) :
    feedAll { core := c0, msg := [] } ps = { core := d, msg := rest } := by
  apply feedAll_script (T := fun t => { core := d, msg := t }) hf _ hch ps hps
  intro t x
  unfold feed
  rw [parse_eq]
  simp [resumeCheck, hd, run_done d hd]

/-- a script that ends in a body read until the connection closes: everything that follows is body -/
theorem script_close {f c0 : Core} {e : Elem} {es : List Elem} {rest : Bytes}
    (hg : f.gen = .bodyClose) (hb : f.body = []) (hcl : f.closed = false) (hes : usesEs f = false)
    (hch : Chain f c0 (e :: es)) (ps : List Bytes) (hps : ps.flatten = segsOf (e :: es) ++ rest) :
    feedAll { core := c0, msg := [] } ps = { core := { f with body := rest }, msg := [] } := by
  apply feedAll_script (T := fun t => { core := { f with body := t }, msg := [] }) _ _ hch ps hps
  · intro t
    rw [run_unfold]
    have hes' := hes
    unfold usesEs at hes'
    simp [stepOn, hg, esStep, usesEs, hes', hb, hcl]
  · intro t x
    unfold feed
    rw [parse_eq]
    simp only [resumeCheck, hg]
    rw [run_unfold]
    have hes' := hes
    unfold usesEs at hes'
    simp [stepOn, hg, esStep, usesEs, hes', hcl]

/-! ### whole messages -/

/-- head of a message on the wire: start line, header lines, empty line -/
def headBytes (sl : Bytes) (ls : List Bytes) : Bytes := sl ++ (crlf ++ (linesBytes ls ++ crlf))

/-- start line and header lines of a request as the parser's own line functions read them -/
structure ReqHead (max : Nat) (sl : Bytes) (ls : List Bytes) (m u v : Bytes) (H : Hdrs) : Prop where
  clean : cleanLine sl
  short : sl.length < max
  parsed : parseRequestLine sl = .ok (m, u, v)
  version : startsWith sHTTP1 v = true
  url : urlCheck (strip u) = .ok
  lines : ∀ l ∈ ls, goodLine max l
  hdrs : foldHdr [] ls = some H

/-- start line and header lines of a response as the parser's own line functions read them -/
structure RspHead (max : Nat) (sl : Bytes) (ls : List Bytes) (ver : Nat × Nat) (status : Nat)
    (reason : Bytes) (H : Hdrs) : Prop where
  clean : cleanLine sl
  short : sl.length < max
  parsed : ∃ v, parseStatusLine sl = .ok (v, status, reason) ∧ rspVersion v = some ver
  not100 : status ≠ 100
  lines : ∀ l ∈ ls, goodLine max l
  hdrs : foldHdr [] ls = some H
  notEvented : isEvented H = false

/-- a parser whose generator has just been made: a new `Requestant` / `Respondent`, or a reused one
after `makeParser()` (fields of the previous message may still be there); the tree is the one
repaired by fixes/D29c (parms / trails are reset) -/
structure Fresh (kind : Kind) (c0 : Core) : Prop where
  kind : c0.kind = kind
  gen : c0.gen = .fresh
  started : c0.started = false
  resetPT : c0.resetPT = true
  escaped : c0.escaped = none

theorem fresh_init (kind : Kind) (m0 : Bytes) (max : Nat) : Fresh kind (init kind m0 max).core :=
  ⟨rfl, rfl, rfl, rfl, rfl⟩

/-- `Requestant` when the empty line after the headers is reached -/
def reqAtHeadEnd (c0 : Core) (m u v : Bytes) (H : Hdrs) : Core :=
  { reqAfterStart c0 m u v with gen := .hdrs H }

/-- `Respondent` when the empty line after the headers is reached -/
def rspAtHeadEnd (c0 : Core) (ver : Nat × Nat) (status : Nat) (reason : Bytes) (H : Hdrs) : Core :=
  { rspAfterStart c0 ver status reason with gen := .hdrs H }

/-- chain of the head of a request followed by `more` -/
theorem chain_reqHead {f : Core} {c0 : Core} (hfr : Fresh .req c0) (hmax : 0 < c0.max) {sl m u v : Bytes} {ls : List Bytes} {H : Hdrs}
    (w : ReqHead c0.max sl ls m u v H) (cB : Core) (more : List Elem)
    (hd : ∀ tail, headDone (reqAtHeadEnd c0 m u v H) H tail = .cont cB tail)
    (hm : Chain f cB more) :
    ∃ e es, Chain f c0 (e :: es) ∧
      segsOf (e :: es) = headBytes sl ls ++ segsOf more := by
  have e1 := reqStart_ok c0 hfr.kind hfr.gen hfr.started sl m u v w.clean w.short w.parsed w.version w.url
  have hHlen := foldHdr_length ls [] H (by simp) w.hdrs
  have e3 := headEnd_ok (reqAtHeadEnd c0 m u v H) cB H rfl rfl hHlen hmax hd
  obtain ⟨ch, sg⟩ := chain_leader (f := f) (reqAfterStart c0 m u v) .head rfl ls [] H
    (⟨crlf, (· = reqAtHeadEnd c0 m u v H), cB⟩ :: more) w.lines w.hdrs ⟨rfl, e3, hm⟩
  refine ⟨_, _, ⟨Or.inl rfl, e1, ch⟩, ?_⟩
  simp only [segsOf] at sg ⊢
  rw [sg]
  simp [headBytes, List.append_assoc]

/-- the cores a fresh parser can be in before its start line is complete -/
def W3 (c0 : Core) (c : Core) : Prop := c = c0 ∨ c = cWait c0 ∨ c = cStarted c0

/-- chain of the head of a response followed by `more`, from any of the start cores -/
theorem chain_rspHead' {f : Core} {c0 : Core} (hfr : Fresh .rsp c0) (hmax : 0 < c0.max) {sl reason : Bytes} {ver : Nat × Nat}
    {status : Nat} {ls : List Bytes} {H : Hdrs}
    (w : RspHead c0.max sl ls ver status reason H) (cB : Core) (more : List Elem)
    (hd : ∀ tail, headDone (rspAtHeadEnd c0 ver status reason H) H tail = .cont cB tail)
    (hm : Chain f cB more) :
    ∃ e es, (∀ c, W3 c0 c → Chain f c (e :: es)) ∧
      segsOf (e :: es) = headBytes sl ls ++ segsOf more := by
  obtain ⟨v, hp, hv⟩ := w.parsed
  have e1 := rspStart_ok c0 hfr.kind hfr.gen hfr.started sl v reason status ver w.clean w.short hp w.not100 hv
  have hHlen := foldHdr_length ls [] H (by simp) w.hdrs
  have e3 := headEnd_ok (rspAtHeadEnd c0 ver status reason H) cB H rfl rfl hHlen hmax hd
  obtain ⟨ch, sg⟩ := chain_leader (f := f) (rspAfterStart c0 ver status reason) .head rfl ls [] H
    (⟨crlf, (· = rspAtHeadEnd c0 ver status reason H), cB⟩ :: more) w.lines w.hdrs ⟨rfl, e3, hm⟩
  refine ⟨_, _, fun c hc => ⟨hc, e1, ch⟩, ?_⟩
  simp only [segsOf] at sg ⊢
  rw [sg]
  simp [headBytes, List.append_assoc]

/-! ### interim `100 Continue` responses before the response -/

/-- an interim response on the wire: status line with status 100, header lines -/
structure Interim where
  sl : Bytes
  ls : List Bytes

def Interim.ok (max : Nat) (i : Interim) : Prop :=
  cleanLine i.sl ∧ i.sl.length < max ∧ (∃ v r, parseStatusLine i.sl = .ok (v, 100, r)) ∧
  (∀ l ∈ i.ls, goodLine max l) ∧ (∃ h, foldHdr [] i.ls = some h)

def interimBytes : List Interim → Bytes
  | [] => []
  | i :: r => headBytes i.sl i.ls ++ interimBytes r

theorem rspStart100_ok (c0 : Core) (hk : c0.kind = .rsp) (hg : c0.gen = .fresh) (hst : c0.started = false)
    (sl v reason : Bytes) (hl : cleanLine sl) (hlen : sl.length < c0.max)
    (hp : parseStatusLine sl = .ok (v, 100, reason)) :
    Elem.ok ⟨sl ++ crlf, W3 c0, { cStarted c0 with gen := .contHdrs [] }⟩ := by
  have hstarted : ∀ tail, run (cStarted c0) (sl ++ (crlf ++ tail)) = run { cStarted c0 with gen := .contHdrs [] } tail := by
    intro tail
    rw [run_unfold]
    have hlt := lineTry_clean (max := c0.max) hl (Nat.le_of_lt hlen) true tail
    simp [stepOn, cStarted, cWait, closedCond, hk, hlt, hp, enterLeader]
  have hne : ∀ tail, sl ++ (crlf ++ tail) ≠ [] := by intro tail; simp [crlf]
  have hproper : ∀ p, p <+: sl ++ crlf → p ≠ sl ++ crlf →
      run (cStarted c0) p = { core := cStarted c0, msg := p } := by
    intro p hp' hpne
    rw [run_unfold]
    have hlt := lineTry_proper (max := c0.max) hl hlen true hp' hpne
    simp [stepOn, cStarted, cWait, closedCond, hk, hlt]
  refine ⟨by simp [crlf], ?_, ?_, ?_⟩
  · intro c hc tail
    simp only [List.append_assoc]
    cases hb : sl ++ (crlf ++ tail) with
    | nil => exact absurd hb (hne tail)
    | cons b r =>
      rcases hc with rfl | rfl | rfl
      · rw [run_fresh _ hg, run_wait_cons, ← hb, hstarted]
      · rw [run_wait_cons, ← hb, hstarted]
      · rw [← hb, hstarted]
  · intro c hc p hp' hpne
    cases p with
    | nil =>
      rcases hc with rfl | rfl | rfl
      · exact ⟨cWait c, Or.inr (Or.inl rfl), by rw [run_fresh _ hg, run_wait_nil _ hst]⟩
      · exact ⟨cWait c0, Or.inr (Or.inl rfl), run_wait_nil _ hst⟩
      · exact ⟨cStarted c0, Or.inr (Or.inr rfl), hproper [] hp' hpne⟩
    | cons b r =>
      refine ⟨cStarted c0, Or.inr (Or.inr rfl), ?_⟩
      rcases hc with rfl | rfl | rfl
      · rw [run_fresh _ hg, run_wait_cons, hproper _ hp' hpne]
      · rw [run_wait_cons, hproper _ hp' hpne]
      · exact hproper _ hp' hpne
  · intro c hc buf
    rcases hc with rfl | rfl | rfl <;> simp [resumeCheck, hg, cWait, cStarted]

/-- the empty line that ends an interim response: back to the status line -/
theorem contEnd_ok (c : Core) (h : Hdrs) (hg : c.gen = .contHdrs h) (hcl : c.closed = false)
    (hH : h.length ≤ MAX_HEADERS) (hmax : 0 < c.max) :
    Elem.ok ⟨crlf, (· = c), { c with gen := .startLine }⟩ := by
  refine ⟨by simp [crlf], ?_, ?_, ?_⟩
  · intro c' hc' tail
    subst hc'
    rw [run_unfold]
    simp only [stepOn, hg, leaderIter_blank hH]
  · intro c' hc' p hp hpne
    subst hc'
    refine ⟨c', rfl, ?_⟩
    rw [run_unfold]
    obtain ⟨h1, h2⟩ := proper_crlf hp hpne
    have hi := leaderIter_proper (max := c'.max) (h := h) (l := []) (by simp [cleanLine]) hmax h1 h2
    simp [stepOn, hg, hi]
  · intro c' hc' buf
    subst hc'
    simp [resumeCheck, hg, closedCond_false hcl]

/-- any number of interim responses in front of a chain that starts at the status line -/
theorem chain_interims {f : Core} {c0 : Core} (hfr : Fresh .rsp c0) (hmax : 0 < c0.max) (more : List Elem)
    (hm : ∀ c, W3 c0 c → Chain f c more) :
    ∀ (pre : List Interim), (∀ i ∈ pre, i.ok c0.max) →
      ∃ els, (∀ c, W3 c0 c → Chain f c (els ++ more)) ∧
        segsOf (els ++ more) = interimBytes pre ++ segsOf more ∧ (pre ≠ [] → els ≠ []) := by
  intro pre
  induction pre with
  | nil => intro _; exact ⟨[], hm, by simp [interimBytes], by simp⟩
  | cons i pre ih =>
    intro hok
    obtain ⟨els, hch, hsg, _⟩ := ih (fun j hj => hok j (by simp [hj]))
    obtain ⟨h1, h2, ⟨v, r, h3⟩, h4, ⟨h, h5⟩⟩ := hok i (by simp)
    have e1 := rspStart100_ok c0 hfr.kind hfr.gen hfr.started i.sl v r h1 h2 h3
    have hHlen := foldHdr_length i.ls [] h (by simp) h5
    have e3 := contEnd_ok { cStarted c0 with gen := .contHdrs h } h rfl rfl hHlen hmax
    have hnext : Chain f { cStarted c0 with gen := .startLine } (els ++ more) := hch _ (Or.inr (Or.inr rfl))
    obtain ⟨A, hA⟩ : ∃ A, A = leaderElems (cStarted c0) .cont [] i.ls := ⟨_, rfl⟩
    obtain ⟨x, hx⟩ : ∃ x : Elem, x = ⟨crlf, (· = { cStarted c0 with gen := .contHdrs h }),
      { cStarted c0 with gen := .startLine }⟩ := ⟨_, rfl⟩
    obtain ⟨ch, sg⟩ := chain_leader (f := f) (cStarted c0) .cont rfl i.ls [] h (x :: (els ++ more))
      h4 h5 (by rw [hx]; exact ⟨rfl, e3, hnext⟩)
    rw [← hA] at ch sg
    have heq : (A ++ x :: els) ++ more = A ++ x :: (els ++ more) := by simp
    refine ⟨⟨i.sl ++ crlf, W3 c0, { cStarted c0 with gen := .contHdrs [] }⟩ :: (A ++ x :: els), ?_, ?_, by simp⟩
    · intro c hc
      refine ⟨hc, e1, ?_⟩
      show Chain f _ ((A ++ x :: els) ++ more)
      rw [heq]
      exact ch
    · show segsOf (_ :: ((A ++ x :: els) ++ more)) = _
      rw [heq]
      simp only [segsOf]
      rw [sg]
      simp only [segsOf, hx]
      rw [hsg]
      simp [interimBytes, headBytes, List.append_assoc]

/-- chain of interim responses and the head of a response followed by `more` -/
theorem chain_rspHead {f : Core} {c0 : Core} (hfr : Fresh .rsp c0) (hmax : 0 < c0.max) {sl reason : Bytes} {ver : Nat × Nat}
    {status : Nat} {ls : List Bytes} {H : Hdrs} (pre : List Interim) (hpre : ∀ i ∈ pre, i.ok c0.max)
    (w : RspHead c0.max sl ls ver status reason H) (cB : Core) (more : List Elem)
    (hd : ∀ tail, headDone (rspAtHeadEnd c0 ver status reason H) H tail = .cont cB tail)
    (hm : Chain f cB more) :
    ∃ e es, Chain f c0 (e :: es) ∧
      segsOf (e :: es) = interimBytes pre ++ (headBytes sl ls ++ segsOf more) := by
  obtain ⟨e, es, hch, hsg⟩ := chain_rspHead' (f := f) hfr hmax w cB more hd hm
  obtain ⟨els, hch', hsg', _⟩ := chain_interims hfr hmax (e :: es) hch pre hpre
  cases hels : els ++ e :: es with
  | nil => simp at hels
  | cons e' es' =>
    refine ⟨e', es', ?_, ?_⟩
    · rw [← hels]; exact hch' _ (Or.inl rfl)
    · rw [← hels, hsg', hsg]

/-! ### bodies -/

/-- a body of announced length -/
theorem tail_length (cB : Core) (data : Bytes) (hg : cB.gen = .bodyLength) (hcl : cB.closed = false)
    (hn : cB.length = some data.length) :
    ∃ f more, Chain f cB more ∧ (∀ t, run f t = { core := doneCore cB data, msg := t }) ∧
      segsOf more = data := by
  cases data with
  | nil =>
    exact ⟨cB, [], rfl, fun t => run_bodyLength_zero cB hg (by simpa using hn) t, rfl⟩
  | cons b r =>
    refine ⟨doneCore cB (b :: r), [⟨b :: r, (· = cB), doneCore cB (b :: r)⟩], ?_, ?_, by simp [segsOf]⟩
    · exact ⟨rfl, bodyLength_ok cB (b :: r) hg hcl hn (by simp), rfl⟩
    · intro t; exact run_done _ rfl t

/-- the last chunk as written on the wire: size line (size 0, maybe extensions), trailer lines -/
def lastBytes (ll : Bytes) (ts : List Bytes) : Bytes := ll ++ (crlf ++ (linesBytes ts ++ crlf))

/-- the parser after a complete chunked body -/
def chunkedDone (cB : Core) (ks : List Chunk) (pm0 : Parms) (Tr : Hdrs) : Core :=
  doneCore
    { cB with parms := updParms (chunksParms cB.parms ks) pm0,
              trails := trailsOf cB.trails Tr }
    (cB.body ++ chunksData ks)

theorem tail_chunked (cB : Core) (hg : cB.gen = .chunkSize) (hcl : cB.closed = false) (hmax : 0 < cB.max)
    (hes : usesEs cB = false)
    (ks : List Chunk) (hks : ∀ k ∈ ks, k.wf cB.max)
    (ll : Bytes) (pm0 : Parms) (hll : cleanLine ll) (hlls : ll.length < cB.max)
    (hl0 : chunkLine ll = .ok (0, pm0))
    (ts : List Bytes) (Tr : Hdrs) (hts : ∀ l ∈ ts, goodLine cB.max l) (hTr : foldHdr [] ts = some Tr) :
    ∃ more, Chain (chunkedDone cB ks pm0 Tr) cB more ∧
      segsOf more = chunksBytes ks ++ lastBytes ll ts ∧ more ≠ [] := by
  -- the core after all data chunks
  let cN : Core := { cB with parms := chunksParms cB.parms ks, body := cB.body ++ chunksData ks }
  have eL := chunkSize_ok cN ll 0 pm0 hg hcl hll hlls hl0
  simp only [if_true] at eL
  let cT : Core := { cN with gen := .chunkTrailer pm0 [] }
  have hTrlen := foldHdr_length ts [] Tr (by simp) hTr
  have eE := trailerEnd_ok { cT with gen := .chunkTrailer pm0 Tr } pm0 Tr rfl hcl hTrlen hmax
  obtain ⟨chT, sgT⟩ := chain_leader (f := chunkedDone cB ks pm0 Tr) cT (.trailer pm0) hcl ts [] Tr
    [⟨crlf, (· = { cT with gen := .chunkTrailer pm0 Tr }), chunkedDone cB ks pm0 Tr⟩] hts hTr
    ⟨rfl, eE, rfl⟩
  have chT' : Chain (chunkedDone cB ks pm0 Tr) cT (leaderElems cT (.trailer pm0) [] ts ++
      [⟨crlf, (· = { cT with gen := .chunkTrailer pm0 Tr }), chunkedDone cB ks pm0 Tr⟩]) := chT
  obtain ⟨chK, sgK⟩ := chain_chunks (f := chunkedDone cB ks pm0 Tr) ks cB
    (⟨ll ++ crlf, (· = cN), cT⟩ :: (leaderElems cT (.trailer pm0) [] ts ++
      [⟨crlf, (· = { cT with gen := .chunkTrailer pm0 Tr }), chunkedDone cB ks pm0 Tr⟩]))
    hg hcl hmax hes hks ⟨rfl, eL, chT'⟩
  refine ⟨_, chK, ?_, by simp⟩
  rw [sgK]
  simp only [segsOf] at sgT ⊢
  rw [sgT]
  simp [lastBytes, List.append_assoc]

/-! ### the five shapes of a well-formed message, for every way of cutting the stream -/

theorem request_length_any_split {c0 : Core} (hfr : Fresh .req c0) (hmax : 0 < c0.max) {sl m u v : Bytes} {ls : List Bytes}
    {H : Hdrs} (w : ReqHead c0.max sl ls m u v H) (hch : isChunked H = false)
    (data rest : Bytes) (hn : reqLen H = some data.length) (ps : List Bytes)
    (hps : ps.flatten = headBytes sl ls ++ (data ++ rest)) :
    feedAll ({ core := c0, msg := [] }) ps =
      { core := doneCore { reqHeadCore (reqAtHeadEnd c0 m u v H) H with body := [], gen := .bodyLength } data,
        msg := rest } := by
  have hd := fun tail => req_headDone_length (c := reqAtHeadEnd c0 m u v H) hfr.kind hch hn tail
  obtain ⟨f, more, hm, hf, hs⟩ := tail_length
    { reqHeadCore (reqAtHeadEnd c0 m u v H) H with body := [], gen := .bodyLength } data rfl rfl
    (by simp [reqHeadCore, hch, hn])
  obtain ⟨e, es, hch', hsg⟩ := chain_reqHead (f := f) hfr hmax w _ more hd hm
  exact script_done hf rfl hch' ps (by rw [hsg, hs, hps]; simp [List.append_assoc])

theorem response_length_any_split {c0 : Core} (hfr : Fresh .rsp c0) (hmax : 0 < c0.max) {sl reason : Bytes} {ver : Nat × Nat}
    {status : Nat} {ls : List Bytes} {H : Hdrs} (pre : List Interim) (hpre : ∀ i ∈ pre, i.ok c0.max)
    (w : RspHead c0.max sl ls ver status reason H)
    (hch : isChunked H = false) (data rest : Bytes)
    (hn : rspLen (rspAtHeadEnd c0 ver status reason H) H = some data.length) (ps : List Bytes)
    (hps : ps.flatten = interimBytes pre ++ (headBytes sl ls ++ (data ++ rest))) :
    feedAll ({ core := c0, msg := [] }) ps =
      { core := doneCore { rspHeadCore' (rspAtHeadEnd c0 ver status reason H) H with
                            body := [], gen := .bodyLength } data,
        msg := rest } := by
  have hd := fun tail => rsp_headDone_length (c := rspAtHeadEnd c0 ver status reason H) hfr.kind
    w.notEvented hch hn tail
  obtain ⟨f, more, hm, hf, hs⟩ := tail_length
    { rspHeadCore' (rspAtHeadEnd c0 ver status reason H) H with body := [], gen := .bodyLength } data rfl rfl
    (by simp [rspHeadCore', rspHeadCore, hn])
  obtain ⟨e, es, hch', hsg⟩ := chain_rspHead (f := f) hfr hmax pre hpre w _ more hd hm
  exact script_done hf rfl hch' ps (by rw [hsg, hs, hps]; simp [List.append_assoc])

theorem request_chunked_any_split {c0 : Core} (hfr : Fresh .req c0) (hmax : 0 < c0.max) {sl m u v : Bytes} {ls : List Bytes}
    {H : Hdrs} (w : ReqHead c0.max sl ls m u v H) (hch : isChunked H = true)
    (ks : List Chunk) (hks : ∀ k ∈ ks, k.wf c0.max)
    (ll : Bytes) (pm0 : Parms) (hll : cleanLine ll) (hlls : ll.length < c0.max) (hl0 : chunkLine ll = .ok (0, pm0))
    (ts : List Bytes) (Tr : Hdrs) (hts : ∀ l ∈ ts, goodLine c0.max l) (hTr : foldHdr [] ts = some Tr)
    (rest : Bytes) (ps : List Bytes)
    (hps : ps.flatten = headBytes sl ls ++ (chunksBytes ks ++ (lastBytes ll ts ++ rest))) :
    feedAll ({ core := c0, msg := [] }) ps =
      { core := chunkedDone { reqHeadCore (reqAtHeadEnd c0 m u v H) H with
                               body := [], parms := some [], gen := .chunkSize } ks pm0 Tr,
        msg := rest } := by
  have hd := fun tail => req_headDone_chunked (c := reqAtHeadEnd c0 m u v H) hfr.kind rfl hch tail
  obtain ⟨more, hm, hs, _⟩ := tail_chunked
    { reqHeadCore (reqAtHeadEnd c0 m u v H) H with body := [], parms := some [], gen := .chunkSize }
    rfl rfl hmax (by simp [usesEs, reqHeadCore, reqAtHeadEnd, reqAfterStart, cStarted, cWait, hfr.kind])
    ks hks ll pm0 hll hlls hl0 ts Tr hts hTr
  obtain ⟨e, es, hch', hsg⟩ := chain_reqHead hfr hmax w _ more hd hm
  exact script_done (fun t => run_done _ rfl t) rfl hch' ps (by rw [hsg, hs, hps]; simp [List.append_assoc])

theorem response_chunked_any_split {c0 : Core} (hfr : Fresh .rsp c0) (hmax : 0 < c0.max) {sl reason : Bytes} {ver : Nat × Nat}
    {status : Nat} {ls : List Bytes} {H : Hdrs} (pre : List Interim) (hpre : ∀ i ∈ pre, i.ok c0.max)
    (w : RspHead c0.max sl ls ver status reason H)
    (hch : isChunked H = true)
    (ks : List Chunk) (hks : ∀ k ∈ ks, k.wf c0.max)
    (ll : Bytes) (pm0 : Parms) (hll : cleanLine ll) (hlls : ll.length < c0.max) (hl0 : chunkLine ll = .ok (0, pm0))
    (ts : List Bytes) (Tr : Hdrs) (hts : ∀ l ∈ ts, goodLine c0.max l) (hTr : foldHdr [] ts = some Tr)
    (rest : Bytes) (ps : List Bytes)
    (hps : ps.flatten = interimBytes pre ++ (headBytes sl ls ++ (chunksBytes ks ++ (lastBytes ll ts ++ rest)))) :
    feedAll ({ core := c0, msg := [] }) ps =
      { core := chunkedDone { rspHeadCore' (rspAtHeadEnd c0 ver status reason H) H with
                               body := [], parms := some [], gen := .chunkSize } ks pm0 Tr,
        msg := rest } := by
  have hd := fun tail => rsp_headDone_chunked (c := rspAtHeadEnd c0 ver status reason H) hfr.kind rfl
    w.notEvented hch tail
  obtain ⟨more, hm, hs, _⟩ := tail_chunked
    { rspHeadCore' (rspAtHeadEnd c0 ver status reason H) H with body := [], parms := some [], gen := .chunkSize }
    rfl rfl hmax (by simp [usesEs, rspHeadCore', rspHeadCore, w.notEvented, rspAtHeadEnd, rspAfterStart, cStarted, cWait, hfr.kind])
    ks hks ll pm0 hll hlls hl0 ts Tr hts hTr
  obtain ⟨e, es, hch', hsg⟩ := chain_rspHead hfr hmax pre hpre w _ more hd hm
  exact script_done (fun t => run_done _ rfl t) rfl hch' ps (by rw [hsg, hs, hps]; simp [List.append_assoc])

/-- a response whose body ends when the connection closes: all bytes after the head are body,
and `close(); parse()` completes the message -/
theorem response_close_any_split {c0 : Core} (hfr : Fresh .rsp c0) (hmax : 0 < c0.max) {sl reason : Bytes} {ver : Nat × Nat}
    {status : Nat} {ls : List Bytes} {H : Hdrs} (pre : List Interim) (hpre : ∀ i ∈ pre, i.ok c0.max)
    (w : RspHead c0.max sl ls ver status reason H)
    (hch : isChunked H = false)
    (hn : rspLen (rspAtHeadEnd c0 ver status reason H) H = none) (body : Bytes) (ps : List Bytes)
    (hps : ps.flatten = interimBytes pre ++ (headBytes sl ls ++ body)) :
    feedAll ({ core := c0, msg := [] }) ps =
      { core := { rspHeadCore' (rspAtHeadEnd c0 ver status reason H) H with
                   body := body, gen := .bodyClose },
        msg := [] } ∧
    parse (close (feedAll ({ core := c0, msg := [] }) ps)) =
      { core := doneCore (close { core := { rspHeadCore' (rspAtHeadEnd c0 ver status reason H) H with
                                               gen := .bodyClose } }).core body,
        msg := [] } := by
  have hd := fun tail => rsp_headDone_close (c := rspAtHeadEnd c0 ver status reason H) hfr.kind
    w.notEvented hch hn tail
  obtain ⟨e, es, hch', hsg⟩ := chain_rspHead
    (f := { rspHeadCore' (rspAtHeadEnd c0 ver status reason H) H with body := [], gen := .bodyClose })
    hfr hmax pre hpre w _ [] hd rfl
  have h1 := script_close (rest := body) rfl rfl rfl
    (by simp [usesEs, rspHeadCore', rspHeadCore, w.notEvented, rspAtHeadEnd, rspAfterStart, cStarted, cWait, hfr.kind]) hch' ps (by rw [hsg, hps]; simp [segsOf])
  refine ⟨h1, ?_⟩
  rw [h1, parse_eq]
  simp only [close, resumeCheck]
  rw [run_unfold]
  have hk : (rspAtHeadEnd c0 ver status reason H).kind = .rsp := hfr.kind
  simp [stepOn, esStep, usesEs, rspHeadCore', rspHeadCore, w.notEvented, finishBody, doneCore, hk]

end Ioflo.Http
