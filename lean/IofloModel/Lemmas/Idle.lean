import IofloModel.Model.Idle
/-! Helper lemmas for C28: the per-connection invariants and their preservation by every operation. -/
namespace Ioflo.Idle

/-- the parameters of a server never change -/
theorem step_params (s : State) (op : Op) :
    (step s op).v = s.v ∧ (step s op).tls = s.tls ∧ (step s op).front = s.front ∧ (step s op).T = s.T := by
  cases op <;> exact ⟨rfl, rfl, rfl, rfl⟩

theorem run_params (s : State) (ops : List Op) :
    (run s ops).v = s.v ∧ (run s ops).tls = s.tls ∧ (run s ops).front = s.front ∧ (run s ops).T = s.T := by
  induction ops generalizing s with
  | nil => exact ⟨rfl, rfl, rfl, rfl⟩
  | cons op ops ih =>
    obtain ⟨a, b, c, d⟩ := ih (step s op)
    obtain ⟨a', b', c', d'⟩ := step_params s op
    exact ⟨a.trans a', b.trans b', c.trans c', d.trans d'⟩

theorem refreshes_step (s : State) (op : Op) : refreshes (step s op) = refreshes s := by
  obtain ⟨a, b, _, _⟩ := step_params s op
  unfold refreshes; rw [a, b]

/-- holds in both versions: a persisted connection has its idle check switched off -/
def ConnP (c : Conn) : Prop := c.persisted = some true → c.timeout = 0

/-- holds when receive / send refresh the timer: the timer always stops `T` after the last byte -/
def ConnT (T now : Nat) (c : Conn) : Prop :=
  c.duration = T ∧ c.stop = c.last + T ∧ c.last ≤ now

/-- what may be said of a closed connection: it was cut off (Valet), or it had been idle for `T` -/
def ClosedOk (front : Front) (T : Nat) (e : Closed) : Prop :=
  (e.cutoff = true ∧ front = .valet) ∨
  (0 < e.timeout ∧ e.last + T ≤ e.at_ ∧ e.persisted ≠ some true)

structure InvP (s : State) : Prop where
  conns : ∀ c ∈ s.conns, ConnP c

structure InvT (s : State) : Prop where
  conns : ∀ c ∈ s.conns, ConnT s.T s.now c
  log : ∀ e ∈ s.closedLog, ClosedOk s.front s.T e

theorem connP_checkPersisted (c : Conn) (ver : HttpVer) (cl ka ch ln : Bool) (_h : ConnP c) :
    ConnP (checkPersisted c ver cl ka ch ln) := by
  unfold checkPersisted
  split
  · intro _; rfl
  · next hp => intro hq; exact absurd hq hp

theorem connP_moved (c : Conn) (r : Bool) (now : Nat) (h : ConnP c) : ConnP (c.moved r now) := by
  unfold Conn.moved Conn.refresh
  cases r <;> exact h

theorem connP_newConn (T now id : Nat) : ConnP (newConn T now id) := fun h => nomatch h

theorem mem_onConn {s : State} {id : Nat} {f : Conn → Conn} {c : Conn} (h : c ∈ (onConn s id f).conns) :
    ∃ c0 ∈ s.conns, c = f c0 ∨ c = c0 := by
  simp only [onConn, List.mem_map] at h
  obtain ⟨c0, hc0, rfl⟩ := h
  exact ⟨c0, hc0, by split <;> simp⟩

theorem invP_step (s : State) (op : Op) (h : InvP s) : InvP (step s op) := by
  constructor
  cases op with
  | tick d => exact h.conns
  | tickApp d => exact h.conns
  | arrive => exact h.conns
  | serviceConnects =>
    intro c hc
    simp only [step, serviceConnects, List.mem_filter, List.mem_append, List.mem_map] at hc
    rcases hc.1 with hc | ⟨id, _, rfl⟩
    · exact h.conns c hc
    · exact connP_newConn _ _ id
  | rx id n =>
    intro c hc
    obtain ⟨c0, hc0, rfl | rfl⟩ := mem_onConn hc
    · split
      · exact h.conns c0 hc0
      · exact connP_moved _ _ _ (h.conns c0 hc0)
    · exact h.conns _ hc0
  | eof id =>
    intro c hc
    obtain ⟨c0, hc0, rfl | rfl⟩ := mem_onConn hc
    · exact h.conns c0 hc0
    · exact h.conns _ hc0
  | tx id n =>
    intro c hc
    obtain ⟨c0, hc0, rfl | rfl⟩ := mem_onConn hc
    · split
      · exact h.conns c0 hc0
      · exact connP_moved _ _ _ (h.conns c0 hc0)
    · exact h.conns _ hc0
  | txBlocked id n => exact h.conns
  | checkPersisted id ver cl ka ch ln =>
    intro c hc
    obtain ⟨c0, hc0, rfl | rfl⟩ := mem_onConn hc
    · exact connP_checkPersisted _ _ _ _ _ _ (h.conns c0 hc0)
    · exact h.conns _ hc0
  | request id n ver cl ka ch ln =>
    intro c hc
    obtain ⟨c0, hc0, rfl | rfl⟩ := mem_onConn hc
    · split
      · exact h.conns c0 hc0
      · exact connP_checkPersisted _ _ _ _ _ _ (connP_moved _ _ _ (h.conns c0 hc0))
    · exact h.conns _ hc0

theorem invP_run (s : State) (ops : List Op) (h : InvP s) : InvP (run s ops) := by
  induction ops generalizing s with
  | nil => exact h
  | cons op ops ih => exact ih _ (invP_step s op h)

theorem connT_moved {T now : Nat} (c : Conn) (h : ConnT T now c) : ConnT T now (c.moved true now) := by
  obtain ⟨hd, _, _⟩ := h
  exact ⟨hd, by simp [Conn.moved, Conn.refresh, hd], Nat.le_refl _⟩

theorem connT_checkPersisted {T now : Nat} (c : Conn) (ver : HttpVer) (cl ka ch ln : Bool)
    (h : ConnT T now c) : ConnT T now (checkPersisted c ver cl ka ch ln) := by
  unfold checkPersisted
  split <;> exact h

theorem invT_step (s : State) (op : Op) (hr : refreshes s = true) (hp : InvP s) (h : InvT s) :
    InvT (step s op) := by
  cases op with
  | tick d =>
    exact ⟨fun c hc => let ⟨a, b, c'⟩ := h.conns c hc; ⟨a, b, Nat.le_trans c' (Nat.le_add_right _ _)⟩, h.log⟩
  | arrive => exact ⟨h.conns, h.log⟩
  | tickApp d => exact ⟨h.conns, h.log⟩
  | serviceConnects =>
    have hall : ∀ c ∈ s.conns ++ s.pending.map (newConn s.T s.now), ConnT s.T s.now c ∧ ConnP c := by
      intro c hc
      rcases List.mem_append.mp hc with hc | hc
      · exact ⟨h.conns c hc, hp.conns c hc⟩
      · obtain ⟨id, _, rfl⟩ := List.mem_map.mp hc
        exact ⟨⟨rfl, by simp [newConn, Nat.add_comm], Nat.le_refl _⟩, connP_newConn _ _ id⟩
    constructor
    · intro c hc
      have hc' : c ∈ (s.conns ++ s.pending.map (newConn s.T s.now)).filter (fun c => !closes s.front s.now c) := hc
      exact (hall c (List.mem_filter.mp hc').1).1
    · intro e he
      have he' : e ∈ s.closedLog ++
          ((s.conns ++ s.pending.map (newConn s.T s.now)).filter (closes s.front s.now)).map (·.toClosed s.now) := he
      rcases List.mem_append.mp he' with he | he
      · exact h.log e he
      obtain ⟨c, hcf, rfl⟩ := List.mem_map.mp he
      obtain ⟨hc, hcl⟩ := List.mem_filter.mp hcf
      obtain ⟨⟨_, hstop, _⟩, hpc⟩ := hall c hc
      simp only [closes, Bool.or_eq_true, Bool.and_eq_true, beq_iff_eq, decide_eq_true_eq] at hcl
      rcases hcl with ⟨hf, hcut⟩ | ⟨hto, hexp⟩
      · exact Or.inl ⟨hcut, hf⟩
      · refine Or.inr ⟨hto, ?_, ?_⟩
        · show c.last + s.T ≤ s.now
          rw [← hstop]; exact hexp
        · intro hper
          have := hpc hper
          omega
  | rx id n =>
    refine ⟨?_, h.log⟩
    intro c hc
    obtain ⟨c0, hc0, rfl | rfl⟩ := mem_onConn hc
    · split
      · exact h.conns c0 hc0
      · simp only [hr]; exact connT_moved c0 (h.conns c0 hc0)
    · exact h.conns _ hc0
  | eof id =>
    refine ⟨?_, h.log⟩
    intro c hc
    obtain ⟨c0, hc0, rfl | rfl⟩ := mem_onConn hc
    · exact h.conns c0 hc0
    · exact h.conns _ hc0
  | tx id n =>
    refine ⟨?_, h.log⟩
    intro c hc
    obtain ⟨c0, hc0, rfl | rfl⟩ := mem_onConn hc
    · split
      · exact h.conns c0 hc0
      · simp only [hr]; exact connT_moved c0 (h.conns c0 hc0)
    · exact h.conns _ hc0
  | txBlocked id n => exact ⟨h.conns, h.log⟩
  | checkPersisted id ver cl ka ch ln =>
    refine ⟨?_, h.log⟩
    intro c hc
    obtain ⟨c0, hc0, rfl | rfl⟩ := mem_onConn hc
    · exact connT_checkPersisted _ _ _ _ _ _ (h.conns c0 hc0)
    · exact h.conns _ hc0
  | request id n ver cl ka ch ln =>
    refine ⟨?_, h.log⟩
    intro c hc
    obtain ⟨c0, hc0, rfl | rfl⟩ := mem_onConn hc
    · split
      · exact h.conns c0 hc0
      · simp only [hr]; exact connT_checkPersisted _ _ _ _ _ _ (connT_moved c0 (h.conns c0 hc0))
    · exact h.conns _ hc0

theorem invT_run (s : State) (ops : List Op) (hr : refreshes s = true) (hp : InvP s) (h : InvT s) :
    InvT (run s ops) := by
  induction ops generalizing s with
  | nil => exact h
  | cons op ops ih =>
    exact ih _ (by rw [refreshes_step]; exact hr) (invP_step s op hp) (invT_step s op hr hp h)

theorem closes_false {front : Front} {now : Nat} {c : Conn}
    (h1 : c.cutoff = false ∨ front = .porter) (h2 : c.timeout = 0 ∨ now < c.stop) :
    closes front now c = false := by
  unfold closes
  have a : (front == Front.valet && c.cutoff) = false := by
    rcases h1 with h1 | h1
    · rw [h1]; simp
    · rw [h1]; rfl
  have b : (decide (0 < c.timeout) && decide (c.stop ≤ now)) = false := by
    rcases h2 with h2 | h2
    · rw [h2]; rfl
    · have : decide (c.stop ≤ now) = false := by simp; omega
      rw [this]; simp
  rw [a, b]; rfl

theorem invP_init (v : Version) (tls : Bool) (front : Front) (T : Nat) : InvP (init v tls front T) :=
  ⟨fun _ h => (nomatch h)⟩

theorem invT_init (v : Version) (tls : Bool) (front : Front) (T : Nat) : InvT (init v tls front T) :=
  ⟨fun _ h => (nomatch h), fun _ h => (nomatch h)⟩

end Ioflo.Idle
