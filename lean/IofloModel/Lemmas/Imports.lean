import IofloModel.Lemmas.ImportsVia
import IofloModel.Lemmas.ImportsMono
/-!
Helper lemmas for C01 (generic, any graph): what the chunk check of the table establishes, and imports of
modules that are already present.
-/
namespace Ioflo.Imports

theorem cold_of_chunk (g : Graph) (r : Mod) (skip : Mod → Bool) (ms : List Mod)
    (h : coldChunkOk g r skip ms = true) :
    ∀ m ∈ ms, skip m = false → (cold g m).2 = none := by
  intro m hm hskip
  unfold coldChunkOk at h
  split at h
  · rename_i s1 hroot
    simp only [Bool.and_eq_true, List.all_eq_true] at h
    obtain ⟨hr, hall⟩ := h
    have hm' := hall m hm
    simp only [viaOk, hskip, Bool.false_or, Bool.and_eq_true] at hm'
    obtain ⟨⟨⟨hend, habs⟩, hup⟩, hok⟩ := hm'
    have e := findAndLoad_via g (runBody g) g.main 0 (fresh g) s1 r hroot hr (g.chain m) hend habs hup
    unfold cold importModule importChain
    rw [e]
    simpa [okB, importChain] using hok
  · cases h

/-- what the chunk check establishes about the cold imports themselves: they all go through one and the same
state `s1` = the result of importing the root package cold -/
theorem cold_eq_of_chunk (g : Graph) (r : Mod) (skip : Mod → Bool) (ms : List Mod)
    (h : coldChunkOk g r skip ms = true) :
    (importChain g (fresh g) [r]).2 = none ∧
    ∀ m ∈ ms, cold g m = importChain g (importChain g (fresh g) [r]).1 (g.chain m) := by
  unfold coldChunkOk at h
  split at h
  · rename_i s1 hroot
    simp only [Bool.and_eq_true, List.all_eq_true] at h
    obtain ⟨hr, hall⟩ := h
    refine ⟨by rw [hroot], ?_⟩
    intro m hm
    have hm' := hall m hm
    simp only [viaOk, Bool.and_eq_true] at hm'
    obtain ⟨⟨⟨hend, habs⟩, hup⟩, _⟩ := hm'
    have e := findAndLoad_via g (runBody g) g.main 0 (fresh g) s1 r hroot hr (g.chain m) hend habs hup
    unfold cold importModule
    rw [hroot]
    exact e
  · cases h

/-! ## importing what is already there -/

theorem chainOf_cons (g : Graph) (f : Nat) (m : Mod) : ∃ rest, g.chainOf f m = m :: rest := by
  cases f with
  | zero => exact ⟨[], rfl⟩
  | succ f =>
    unfold Graph.chainOf
    split
    · split
      · exact ⟨_, rfl⟩
      · exact ⟨[], rfl⟩
    · exact ⟨[], rfl⟩

/-- `import m` when `m` is in `sys.modules`: nothing happens -/
theorem importModule_present (g : Graph) (s : State) (m : Mod) (h : s.isPresent m = true) :
    importModule g s m = (s, none) := by
  obtain ⟨rest, hc⟩ := chainOf_cons g 32 m
  unfold importModule importChain Graph.chain
  rw [hc]
  exact findAndLoad_present g (runBody g) g.main 0 s m rest h

theorem importChain_present (g : Graph) (s : State) (m : Mod) (h : s.isPresent m = true) :
    importChain g s (g.chain m) = (s, none) := importModule_present g s m h

theorem importAll_present (g : Graph) (s : State) :
    ∀ ms : List Mod, (∀ m ∈ ms, s.isPresent m = true) →
      importAll g s ms = (s, ms.map (fun _ => none))
  | [], _ => rfl
  | m :: ms, h => by
    have hm := importModule_present g s m (h m (List.mem_cons_self ..))
    have ih := importAll_present g s ms (fun x hx => h x (List.mem_cons_of_mem _ hx))
    simp only [importAll, hm, ih, List.map_cons]

/-- once imported, always importable: after a successful `import m` and any further imports (successful or
not), `import m` succeeds again (it finds `m` in `sys.modules`) -/
theorem importModule_again (g : Graph) (s : State) (m : Mod) (ms : List Mod)
    (h : (importModule g s m).2 = none) :
    importModule g (importAll g (importModule g s m).1 ms).1 m
      = ((importAll g (importModule g s m).1 ms).1, none) :=
  importModule_present g _ m (importAll_mono g ms _ m (importModule_ok_present g s m h))

/-- in a state that contains everything `s0` contains, importing a list of modules: every module that is
present in `s0` imports successfully, wherever it stands in the list and whatever the other imports do -/
theorem importAll_over (g : Graph) (s0 : State) :
    ∀ (ms : List Mod) (s : State), PresMono s0 s →
      ∀ p ∈ ms.zip (importAll g s ms).2, s0.isPresent p.1 = true → p.2 = none
  | [], _, _, p, hp, _ => by simp [importAll] at hp
  | m :: ms, s, hs, p, hp, hcore => by
    simp only [importAll, List.zip_cons_cons, List.mem_cons] at hp
    rcases hp with rfl | hp
    · have := importModule_present g s m (hs m hcore)
      simp [this]
    · exact importAll_over g s0 ms _ (PresMono.trans hs (importModule_mono g s m)) p hp hcore

/-! ## histories over a set of loaded modules plus two more -/

theorem importModule_ok_state_present (g : Graph) (s : State) (x y : Mod) (hy : s.isPresent y = true) :
    (importModule g s x).1.isPresent y = true := importModule_mono g s x y hy

/-- Let every module of `U` be present in `s0`, and let `a` and `m` import from `s0` in either order.  Then every
import of every sequence over `U ∪ {a, m}` (any order, any repetitions) started in `s0` succeeds. -/
theorem importAll_two (g : Graph) (s0 : State) (U : Mod → Prop) (a m : Mod)
    (hU : ∀ x, U x → s0.isPresent x = true)
    (ha : (importModule g s0 a).2 = none) (hm : (importModule g s0 m).2 = none)
    (ham : (importModule g (importModule g s0 a).1 m).2 = none)
    (hma : (importModule g (importModule g s0 m).1 a).2 = none) :
    ∀ (h : List Mod), (∀ x ∈ h, U x ∨ x = a ∨ x = m) → ∀ e ∈ (importAll g s0 h).2, e = none := by
  -- the states a run can be in
  let Both : State → Prop := fun s => PresMono s0 s ∧ s.isPresent a = true ∧ s.isPresent m = true
  have hboth : ∀ (h : List Mod) (s : State), Both s → (∀ x ∈ h, U x ∨ x = a ∨ x = m) →
      ∀ e ∈ (importAll g s h).2, e = none := by
    intro h s hb hh e he
    have hall : ∀ x ∈ h, s.isPresent x = true := by
      intro x hx
      rcases hh x hx with hu | rfl | rfl
      · exact hb.1 x (hU x hu)
      · exact hb.2.1
      · exact hb.2.2
    rw [importAll_present g s h hall] at he
    simp only [List.mem_map] at he
    obtain ⟨_, _, rfl⟩ := he
    rfl
  -- after `a` (resp. `m`) alone
  have hone : ∀ (b c : Mod), (b = a ∧ c = m) ∨ (b = m ∧ c = a) →
      ∀ (h : List Mod), (∀ x ∈ h, U x ∨ x = a ∨ x = m) →
      ∀ e ∈ (importAll g (importModule g s0 b).1 h).2, e = none := by
    intro b c hbc h
    have hb2 : (importModule g s0 b).2 = none := by rcases hbc with ⟨rfl, _⟩ | ⟨rfl, _⟩ <;> assumption
    have hbc2 : (importModule g (importModule g s0 b).1 c).2 = none := by
      rcases hbc with ⟨rfl, rfl⟩ | ⟨rfl, rfl⟩ <;> assumption
    have hbp : (importModule g s0 b).1.isPresent b = true := importModule_ok_present g s0 b hb2
    have hmono : PresMono s0 (importModule g s0 b).1 := importModule_mono g s0 b
    induction h with
    | nil => intro _ e he; simp [importAll] at he
    | cons x rest ih =>
      intro hh e he
      have hx := hh x (List.mem_cons_self ..)
      have hrest : ∀ y ∈ rest, U y ∨ y = a ∨ y = m := fun y hy => hh y (List.mem_cons_of_mem _ hy)
      simp only [importAll, List.mem_cons] at he
      -- is x present already?
      by_cases hxc : x = c
      · subst hxc
        rcases he with rfl | he
        · exact hbc2
        · refine hboth rest _ ⟨?_, ?_, ?_⟩ hrest e he
          · exact PresMono.trans hmono (importModule_mono g _ x)
          · rcases hbc with ⟨rfl, rfl⟩ | ⟨rfl, rfl⟩
            · exact importModule_mono g _ _ _ hbp
            · exact importModule_ok_present g _ _ hbc2
          · rcases hbc with ⟨rfl, rfl⟩ | ⟨rfl, rfl⟩
            · exact importModule_ok_present g _ _ hbc2
            · exact importModule_mono g _ _ _ hbp
      · have hxp : (importModule g s0 b).1.isPresent x = true := by
          rcases hx with hu | rfl | rfl
          · exact hmono x (hU x hu)
          · rcases hbc with ⟨rfl, rfl⟩ | ⟨rfl, rfl⟩
            · exact hbp
            · exact absurd rfl hxc
          · rcases hbc with ⟨rfl, rfl⟩ | ⟨rfl, rfl⟩
            · exact absurd rfl hxc
            · exact hbp
        have hnoop := importModule_present g (importModule g s0 b).1 x hxp
        rw [hnoop] at he
        rcases he with rfl | he
        · rfl
        · exact ih hrest e he
  intro h
  induction h with
  | nil => intro _ e he; simp [importAll] at he
  | cons x rest ih =>
    intro hh e he
    have hx := hh x (List.mem_cons_self ..)
    have hrest : ∀ y ∈ rest, U y ∨ y = a ∨ y = m := fun y hy => hh y (List.mem_cons_of_mem _ hy)
    simp only [importAll, List.mem_cons] at he
    by_cases hxa : x = a
    · subst hxa
      rcases he with rfl | he
      · exact ha
      · exact hone x m (Or.inl ⟨rfl, rfl⟩) rest hrest e he
    · by_cases hxm : x = m
      · subst hxm
        rcases he with rfl | he
        · exact hm
        · exact hone x a (Or.inr ⟨rfl, rfl⟩) rest hrest e he
      · have hu : U x := by
          rcases hx with hu | e1 | e1
          · exact hu
          · exact absurd e1 hxa
          · exact absurd e1 hxm
        have hnoop := importModule_present g s0 x (hU x hu)
        rw [hnoop] at he
        rcases he with rfl | he
        · rfl
        · exact ih hrest e he

theorem cold_of_optOk (g : Graph) (r : Mod) (skip : Mod → Bool) (p : Mod × List Mod)
    (h : optOk g r skip p = true) :
    ∀ k ∈ optKinds g p.1, ∀ m ∈ p.2, skip m = false → (cold (g.withOpt p.1 k) m).2 = none := by
  intro k hk m hm hs
  unfold optOk at h
  simp only [List.all_eq_true] at h
  exact cold_of_chunk (g.withOpt p.1 k) r skip p.2 (h k hk) m hm hs

end Ioflo.Imports
