import IofloModel.Lemmas.ImportsVia
import IofloModel.Generated.ImportGraph
/-! C01 table: the whole tree (every module outside the region of D01c) imported into ONE interpreter, sorted by name
(kernel evaluation; started from the state after the cold import of the root package). -/
namespace Ioflo.Imports
set_option maxRecDepth 1000000 in
theorem sweep0 : sweepOk Gen.graph Gen.root (Gen.graph.domain.filter (fun m => !staleFrom Gen.graph m)) = true := by
  decide +kernel
end Ioflo.Imports
