import IofloModel.Lemmas.ImportsVia
import IofloModel.Generated.ImportGraph
/-! C01 table: the whole tree (every module outside the region of D01c) imported into ONE interpreter, in reverse order
(kernel evaluation; started from the state after the cold import of the root package). -/
namespace Ioflo.Imports
set_option maxRecDepth 1000000 in
theorem sweep1 : sweepOk Gen.graph Gen.root (Gen.graph.domain.filter (fun m => !staleFrom Gen.graph m)).reverse = true := by
  decide +kernel
end Ioflo.Imports
