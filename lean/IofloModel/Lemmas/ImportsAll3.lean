import IofloModel.Lemmas.ImportsVia
import IofloModel.Generated.ImportGraph
/-! C01 table: importing the whole tree (outside D01c) in the order of the sha1 of the names succeeds for every module and ends in the same
interpreter state as importing it in name order: the same modules loaded and finished, the same names bound in every
module, bound to the same modules (kernel evaluation of both sweeps). -/
namespace Ioflo.Imports
set_option maxRecDepth 1000000 in
theorem sweeps_agree3 : sweepsAgree Gen.graph Gen.root (Gen.graph.domain.filter (fun m => !staleFrom Gen.graph m))
    ((Gen.sweepOrders.getD 0 []).filter (fun m => !staleFrom Gen.graph m)) = true := by
  decide +kernel
end Ioflo.Imports
