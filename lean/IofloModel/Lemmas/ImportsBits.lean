import IofloModel.Model.Imports
/-! bit-matrix layer: what `Mat.get` sees after each matrix operation -/
namespace Ioflo.Imports

theorem idx_inj {w m n x k : Nat} (hn : n < w) (hk : k < w) (h : m * w + n = x * w + k) : m = x ∧ n = k := by
  have hw : 0 < w := Nat.lt_of_le_of_lt (Nat.zero_le _) hn
  have h1 : (m * w + n) / w = m := by
    rw [Nat.mul_comm, Nat.mul_add_div hw, Nat.div_eq_of_lt hn, Nat.add_zero]
  have h2 : (x * w + k) / w = x := by
    rw [Nat.mul_comm, Nat.mul_add_div hw, Nat.div_eq_of_lt hk, Nat.add_zero]
  have hmx : m = x := by rw [← h1, ← h2, h]
  subst hmx
  exact ⟨rfl, Nat.add_left_cancel h⟩

theorem ones_lt (w : Nat) : ones w < 2 ^ w := by
  unfold ones
  have := Nat.two_pow_pos w
  omega

theorem testBit_ones (w k : Nat) : (ones w).testBit k = decide (k < w) := by
  unfold ones
  exact Nat.testBit_two_pow_sub_one w k

/-- a `w` bit value shifted into row `m` only has bits in row `m` -/
theorem shl_row_testBit (Y w m x k : Nat) (hY : Y < 2 ^ w) (hk : k < w) :
    (Y <<< (m * w)).testBit (x * w + k) = (decide (x = m) && Y.testBit k) := by
  rw [Nat.testBit_shiftLeft]
  rcases Nat.lt_trichotomy x m with hlt | heq | hgt
  · have h1 : (x + 1) * w ≤ m * w := Nat.mul_le_mul_right w hlt
    have h2 : x * w + k < m * w := by
      have : (x + 1) * w = x * w + w := by rw [Nat.add_mul, Nat.one_mul]
      omega
    have hne : ¬ x = m := Nat.ne_of_lt hlt
    simp [hne, Nat.not_le.mpr h2]
  · subst heq
    simp
  · have h1 : (m + 1) * w ≤ x * w := Nat.mul_le_mul_right w hgt
    have h2 : (m + 1) * w = m * w + w := by rw [Nat.add_mul, Nat.one_mul]
    have hge : x * w + k ≥ m * w := by omega
    have hbig : w ≤ x * w + k - m * w := by omega
    have hne : ¬ x = m := Nat.ne_of_gt hgt
    have hY' : Y < 2 ^ (x * w + k - m * w) := Nat.lt_of_lt_of_le hY (Nat.pow_le_pow_right (by decide) hbig)
    simp [hne, hge, Nat.testBit_lt_two_pow hY']

namespace Mat

theorem row_lt (M w m : Nat) : row M w m < 2 ^ w := by
  unfold row
  exact Nat.and_lt_two_pow _ (ones_lt w)

theorem testBit_row (M w m k : Nat) : (row M w m).testBit k = (decide (k < w) && M.testBit (m * w + k)) := by
  unfold row
  rw [Nat.testBit_and, Nat.testBit_shiftRight, testBit_ones, Bool.and_comm]

theorem testBit_row_eq_get (M w m k : Nat) : (row M w m).testBit k = get M w m k := by
  rw [testBit_row]; rfl

theorem get_set (M w m n x k : Nat) (hn : n < w) :
    get (set M w m n) w x k = (get M w x k || (decide (x = m) && decide (k = n))) := by
  unfold get set
  simp only [hn, if_true]
  by_cases hk : k < w
  · simp only [hk, decide_true, Bool.true_and, Nat.testBit_or, Nat.one_shiftLeft, Nat.testBit_two_pow]
    congr 1
    by_cases h : m * w + n = x * w + k
    · have := idx_inj hn hk h
      simp [this.1, this.2]
    · have : ¬ (x = m ∧ k = n) := by
        intro ⟨h1, h2⟩; subst h1; subst h2; exact h rfl
      simp only [h, decide_false]
      by_cases hx : x = m
      · by_cases hkn : k = n
        · exact absurd ⟨hx, hkn⟩ this
        · simp [hkn]
      · simp [hx]
  · have : ¬ k = n := by intro h; subst h; exact hk hn
    simp [hk, this]

theorem get_orRow (M w m mask x k : Nat) :
    get (orRow M w m mask) w x k = (get M w x k || (decide (x = m) && decide (k < w) && mask.testBit k)) := by
  unfold get orRow
  by_cases hk : k < w
  · have hY : mask &&& ones w < 2 ^ w := Nat.and_lt_two_pow _ (ones_lt w)
    simp only [hk, decide_true, Bool.true_and, Nat.testBit_or, shl_row_testBit _ w m x k hY hk,
      Nat.testBit_and, testBit_ones, Bool.and_true]
  · simp [hk]

theorem get_clearMask (M w m mask x k : Nat) :
    get (clearMask M w m mask) w x k = (get M w x k && !(decide (x = m) && mask.testBit k)) := by
  unfold clearMask
  by_cases hk : k < w
  · have hY : row M w m &&& mask < 2 ^ w :=
      Nat.lt_of_le_of_lt Nat.and_le_left (row_lt M w m)
    unfold get
    simp only [hk, decide_true, Bool.true_and, Nat.testBit_xor, shl_row_testBit _ w m x k hY hk,
      Nat.testBit_and, testBit_row]
    by_cases hx : x = m
    · subst hx
      cases M.testBit (x * w + k) <;> cases mask.testBit k <;> simp
    · simp [hx]
  · simp [get, hk]

theorem get_clearRow (M w m x k : Nat) :
    get (clearRow M w m) w x k = (get M w x k && !decide (x = m)) := by
  unfold clearRow
  by_cases hk : k < w
  · unfold get
    simp only [hk, decide_true, Bool.true_and, Nat.testBit_xor, shl_row_testBit _ w m x k (row_lt M w m) hk,
      testBit_row]
    by_cases hx : x = m
    · subst hx
      cases M.testBit (x * w + k) <;> simp
    · simp [hx]
  · simp [get, hk]

theorem get_clear (M w m n x k : Nat) :
    get (clear M w m n) w x k = (get M w x k && !(decide (x = m) && decide (k = n))) := by
  unfold clear
  split
  · rw [get_clearMask, Nat.one_shiftLeft, Nat.testBit_two_pow]
    by_cases h : n = k
    · simp [h]
    · have : ¬ k = n := fun e => h e.symm
      simp [h, this]
  · rename_i hn
    by_cases hk : k = n
    · subst hk; simp [get, hn]
    · simp [hk]

end Mat
end Ioflo.Imports
