import IofloModel.Lemmas.ImportsVia
import IofloModel.Generated.ImportGraph
/-! C01 table, chunk 1 of 8 (kernel evaluation of the import interpreter on the generated graph; one file per
chunk so that lake checks the chunks in parallel). -/
namespace Ioflo.Imports
set_option maxRecDepth 1000000 in
theorem coldChunk1 :
    coldChunkOk Gen.graph Gen.root (staleFrom Gen.graph) (Gen.domainChunks.getD 1 []) = true := by
  decide +kernel
end Ioflo.Imports
