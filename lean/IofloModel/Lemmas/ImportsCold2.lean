import IofloModel.Lemmas.ImportsVia
import IofloModel.Generated.ImportGraph
/-! C01 table, chunk 2 of 8 (kernel evaluation of the import interpreter on the generated graph; one file per
chunk so that lake checks the chunks in parallel): the cold import of every module of the chunk, and for every
module `a` of the chunk's pair table the import of each sibling module after `a`. -/
namespace Ioflo.Imports
set_option maxRecDepth 1000000 in
theorem chunk2 :
    chunkOk Gen.graph Gen.root (staleFrom Gen.graph) (Gen.domainChunks.getD 2 []) (Gen.pairChunks.getD 2 []) = true := by
  decide +kernel
theorem coldChunk2 :
    coldChunkOk Gen.graph Gen.root (staleFrom Gen.graph) (Gen.domainChunks.getD 2 []) = true :=
  cold_of_chunkOk _ _ _ _ _ chunk2
end Ioflo.Imports
