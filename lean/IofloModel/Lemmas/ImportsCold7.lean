import IofloModel.Lemmas.ImportsVia
import IofloModel.Generated.ImportGraph
/-! C01 table, chunk 7 of 8 (kernel evaluation of the import interpreter on the generated graph; one file per
chunk so that lake checks the chunks in parallel). -/
namespace Ioflo.Imports
set_option maxRecDepth 1000000 in
theorem coldChunk7 :
    coldChunkOk Gen.graph Gen.root (staleFrom Gen.graph) (Gen.domainChunks.getD 7 []) = true := by
  decide +kernel
end Ioflo.Imports
