import IofloModel.Lemmas.ImportsMono
import IofloModel.Lemmas.ImportsRows
/-!
Generic theorem for C01 (any graph): **the namespace of a module whose body has finished is never modified by
later imports, except that sub-modules get bound as attributes of their package.**
-/
namespace Ioflo.Imports

/-- `done ⊆ present` -/
def WF (s : State) : Prop := ∀ x, s.isDone x = true → s.isPresent x = true

/-- `k` is the attribute name under which child `c` is bound on its parent `x` -/
def isKid (g : Graph) (x : Mod) (k : Name) (c : Mod) : Prop :=
  ∃ nd, g.node? c = some nd ∧ nd.parent = some x ∧ nd.last = k

/-- cell (x, k) in `s'` compared with `s`: unchanged, or now the binding of a loaded sub-module -/
def CellOK (g : Graph) (s s' : State) (x : Mod) (k : Name) : Prop :=
  (s'.bound g x k = s.bound g x k ∧ s'.val g x k = s.val g x k) ∨
  (∃ c, isKid g x k c ∧ s'.isPresent c = true ∧ s'.isDone c = true ∧ s'.val g x k = some (.mod c))

structure Frame (g : Graph) (s s' : State) : Prop where
  mono : PresMono s s'
  done : ∀ x, s.isPresent x = true → s'.isDone x = s.isDone x
  cells : ∀ x, s.isPresent x = true → s.isDone x = true → ∀ k, CellOK g s s' x k
  wf : WF s'

theorem Frame.refl (g : Graph) (s : State) (h : WF s) : Frame g s s :=
  ⟨PresMono.refl s, fun _ _ => rfl, fun _ _ _ _ => Or.inl ⟨rfl, rfl⟩, h⟩

theorem Frame.trans {g : Graph} {a b c : State} (h1 : Frame g a b) (h2 : Frame g b c) : Frame g a c := by
  refine ⟨PresMono.trans h1.mono h2.mono, ?_, ?_, h2.wf⟩
  · intro x hx
    rw [h2.done x (h1.mono x hx), h1.done x hx]
  · intro x hx hd k
    have hxb := h1.mono x hx
    have hdb : b.isDone x = true := by rw [h1.done x hx]; exact hd
    rcases h1.cells x hx hd k with ⟨e1, e2⟩ | ⟨c', hk, hp, hdn, hv⟩
    · rcases h2.cells x hxb hdb k with ⟨f1, f2⟩ | hkid
      · exact Or.inl ⟨f1.trans e1, f2.trans e2⟩
      · exact Or.inr hkid
    · rcases h2.cells x hxb hdb k with ⟨_, f2⟩ | hkid
      · refine Or.inr ⟨c', hk, h2.mono c' hp, ?_, f2.trans hv⟩
        rw [h2.done c' hp]; exact hdn
      · exact Or.inr hkid

/-- an operation that only touches row `cur` (which is not done) and leaves `present` and `done` alone -/
theorem Frame.of_rowop {g : Graph} {s s' : State} (cur : Mod) (hwf : WF s)
    (hp : s'.present = s.present) (hd : s'.done = s.done)
    (hr : ∀ x, x ≠ cur → RowEq g s s' x) (hcur : s.isDone cur = false) : Frame g s s' := by
  refine ⟨PresMono.of_eq hp, ?_, ?_, ?_⟩
  · intro x _; simp [State.isDone, hd]
  · intro x _ hdx k
    have hx : x ≠ cur := by
      intro e; subst e; rw [hcur] at hdx; cases hdx
    exact Or.inl ⟨(hr x hx).1 k, (hr x hx).2 k⟩
  · intro x hx
    have : s.isDone x = true := by simpa [State.isDone, hd] using hx
    simpa [State.isPresent, hp] using hwf x this

end Ioflo.Imports

namespace Ioflo.Imports

/-- `s'` differs from `s` only inside row `y` -/
structure OnlyRow (g : Graph) (s s' : State) (y : Mod) : Prop where
  present : s'.present = s.present
  done : s'.done = s.done
  rows : ∀ x, x ≠ y → RowEq g s s' x

theorem OnlyRow.refl (g : Graph) (s : State) (y : Mod) : OnlyRow g s s y :=
  ⟨rfl, rfl, fun x _ => RowEq.refl g s x⟩

theorem OnlyRow.trans {g : Graph} {a b c : State} {y : Mod} (h1 : OnlyRow g a b y) (h2 : OnlyRow g b c y) :
    OnlyRow g a c y :=
  ⟨h2.present.trans h1.present, h2.done.trans h1.done, fun x hx => RowEq.trans (h1.rows x hx) (h2.rows x hx)⟩

theorem OnlyRow.isPresent {g : Graph} {s s' : State} {y : Mod} (h : OnlyRow g s s' y) (x : Mod) :
    s'.isPresent x = s.isPresent x := by simp [State.isPresent, h.present]

theorem OnlyRow.isDone {g : Graph} {s s' : State} {y : Mod} (h : OnlyRow g s s' y) (x : Mod) :
    s'.isDone x = s.isDone x := by simp [State.isDone, h.done]

/-- writes into the row of the (unfinished) current module -/
theorem Frame.of_onlyRow {g : Graph} {s s' : State} {cur : Mod} (hwf : WF s) (h : OnlyRow g s s' cur)
    (hcur : s.isDone cur = false) : Frame g s s' :=
  Frame.of_rowop cur hwf h.present h.done h.rows hcur

/-- writes into the row of a module that was absent in the reference state -/
theorem Frame.then_onlyRow {g : Graph} {s t t' : State} {y : Mod} (h1 : Frame g s t) (h2 : OnlyRow g t t' y)
    (hy : s.isPresent y = false) : Frame g s t' := by
  refine ⟨fun x hx => by rw [h2.isPresent]; exact h1.mono x hx, ?_, ?_, ?_⟩
  · intro x hx; rw [h2.isDone]; exact h1.done x hx
  · intro x hx hd k
    have hxy : x ≠ y := by intro e; subst e; rw [hy] at hx; cases hx
    have hr := h2.rows x hxy
    rcases h1.cells x hx hd k with ⟨e1, e2⟩ | ⟨c, hk, hp, hdn, hv⟩
    · exact Or.inl ⟨(hr.1 k).trans e1, (hr.2 k).trans e2⟩
    · exact Or.inr ⟨c, hk, by rw [h2.isPresent]; exact hp, by rw [h2.isDone]; exact hdn, (hr.2 k).trans hv⟩
  · intro x hx
    rw [h2.isDone] at hx; rw [h2.isPresent]; exact h1.wf x hx

theorem Frame.enter {g : Graph} {s t : State} (h1 : Frame g s t) (y : Mod) : Frame g s (t.enter y) := by
  refine ⟨PresMono.trans h1.mono (enter_mono t y), h1.done, ?_, ?_⟩
  · intro x hx hd k
    rcases h1.cells x hx hd k with h | ⟨c, hk, hp, hdn, hv⟩
    · exact Or.inl h
    · exact Or.inr ⟨c, hk, enter_mono t y c hp, hdn, hv⟩
  · intro x hx; exact enter_mono t y x (h1.wf x hx)

theorem Frame.finish {g : Graph} {s t : State} (h1 : Frame g s t) (m : Mod)
    (hm : s.isPresent m = false) (hmt : t.isPresent m = true) : Frame g s (t.finish m) := by
  refine ⟨h1.mono, ?_, ?_, ?_⟩
  · intro x hx
    have hxm : x ≠ m := by intro e; subst e; rw [hm] at hx; cases hx
    rw [finish_isDone, h1.done x hx]; simp [hxm]
  · intro x hx hd k
    rcases h1.cells x hx hd k with h | ⟨c, hk, hp, hdn, hv⟩
    · exact Or.inl h
    · exact Or.inr ⟨c, hk, hp, by rw [finish_isDone, hdn]; rfl, hv⟩
  · intro x hx
    rw [finish_isDone] at hx
    by_cases hxm : x = m
    · subst hxm; exact hmt
    · simp only [hxm, decide_false, Bool.or_false] at hx
      exact h1.wf x hx

theorem Frame.remove {g : Graph} {s t : State} (h1 : Frame g s t) (m : Mod)
    (hm : s.isPresent m = false) (hmd : t.isDone m = false) : Frame g s (t.remove g m) := by
  have hne : ∀ x, s.isPresent x = true → x ≠ m := by
    intro x hx e; subst e; rw [hm] at hx; cases hx
  refine ⟨?_, ?_, ?_, ?_⟩
  · intro x hx; rw [remove_isPresent g t m x (hne x hx)]; exact h1.mono x hx
  · intro x hx; rw [remove_isDone g t m x (hne x hx)]; exact h1.done x hx
  · intro x hx hd k
    have hr := remove_other g t m x (hne x hx)
    rcases h1.cells x hx hd k with ⟨e1, e2⟩ | ⟨c, hk, hp, hdn, hv⟩
    · exact Or.inl ⟨(hr.1 k).trans e1, (hr.2 k).trans e2⟩
    · have hcm : c ≠ m := by intro e; subst e; rw [hmd] at hdn; cases hdn
      exact Or.inr ⟨c, hk, by rw [remove_isPresent g t m c hcm]; exact hp,
        by rw [remove_isDone g t m c hcm]; exact hdn, (hr.2 k).trans hv⟩
  · intro x hx
    by_cases hxm : x = m
    · subst hxm
      -- the done bit of m is cleared
      exfalso
      simp only [State.isDone, State.remove] at hx
      split at hx
      · rename_i hbit
        rw [Nat.testBit_xor, Nat.one_shiftLeft, Nat.testBit_two_pow] at hx
        simp [hbit] at hx
      · rename_i hbit; exact hbit hx
    · rw [remove_isDone g t m x hxm] at hx
      rw [remove_isPresent g t m x hxm]; exact h1.wf x hx

/-- the `setattr` of a finished sub-module on its parent -/
theorem Frame.kidbind {g : Graph} {s t : State} (h1 : Frame g s t) (m p : Mod) (nd : Node)
    (hnode : g.node? m = some nd) (hpar : nd.parent = some p) (hb : g.modBindable nd.last m = true)
    (hmp : t.isPresent m = true) (hmd : t.isDone m = true) : Frame g s (t.bindMod g p nd.last m) := by
  refine ⟨h1.mono, h1.done, ?_, h1.wf⟩
  intro x hx hd k
  by_cases hxp : x = p
  · subst hxp
    by_cases hk : k = nd.last
    · subst hk
      exact Or.inr ⟨m, ⟨nd, hnode, hpar, rfl⟩, hmp, hmd, bindMod_same g t x nd.last m hb⟩
    · have hs := bindMod_samerow g t x nd.last m k hb hk
      rcases h1.cells x hx hd k with ⟨e1, e2⟩ | ⟨c, hkid, hp, hdn, hv⟩
      · exact Or.inl ⟨hs.1.trans e1, hs.2.trans e2⟩
      · exact Or.inr ⟨c, hkid, hp, hdn, hs.2.trans hv⟩
  · have hr := bindMod_other g t p nd.last m x hb hxp
    rcases h1.cells x hx hd k with ⟨e1, e2⟩ | ⟨c, hkid, hp, hdn, hv⟩
    · exact Or.inl ⟨(hr.1 k).trans e1, (hr.2 k).trans e2⟩
    · exact Or.inr ⟨c, hkid, hp, hdn, (hr.2 k).trans hv⟩

end Ioflo.Imports

namespace Ioflo.Imports

/-! ### the row operations as `OnlyRow` -/

theorem onlyRow_bindObj (g : Graph) (s : State) (m n : Nat) : OnlyRow g s (s.bindObj g m n) m :=
  ⟨by simp, by simp, fun x hx => bindObj_other g s m n x hx⟩

theorem onlyRow_bindMod (g : Graph) (s : State) (m n t : Nat) (hb : g.modBindable n t = true) :
    OnlyRow g s (s.bindMod g m n t) m :=
  ⟨rfl, rfl, fun x hx => bindMod_other g s m n t x hb hx⟩

theorem onlyRow_bindObjs (g : Graph) (s : State) (m : Nat) (a b : List Name) :
    OnlyRow g s (s.bindObjs g m a b) m :=
  ⟨rfl, rfl, fun x hx => bindObjs_other g s m x a b hx⟩

theorem onlyRow_unbind (g : Graph) (s : State) (m n : Nat) : OnlyRow g s (s.unbind g m n) m :=
  ⟨by simp, by simp, fun x hx => unbind_other g s m n x hx⟩

theorem onlyRow_copyPublic (g : Graph) (cur t : Mod) (s : State) : OnlyRow g s (copyPublic g cur t s) cur :=
  ⟨by simp, by simp, fun x hx => copyPublic_other g cur t x s hx⟩

/-- replacing the `__all__` table changes no binding -/
theorem onlyRow_withAlls (g : Graph) (s : State) (a : List (Mod × List (Name × Mod))) (m : Mod) :
    OnlyRow g s { s with alls := a } m :=
  ⟨rfl, rfl, fun _ _ => ⟨fun _ => rfl, fun _ => rfl⟩⟩

theorem onlyRow_bind (g : Graph) (s s' : State) (m n : Nat) (v : Val) (h : s.bind g m n v = some s') :
    OnlyRow g s s' m := by
  cases v with
  | obj => simp [State.bind] at h; subst h; exact onlyRow_bindObj g s m n
  | mod t =>
    simp only [State.bind] at h
    split at h
    · rename_i hb; simp at h; subst h; exact onlyRow_bindMod g s m n t hb
    · cases h

theorem onlyRow_applyDefs (g : Graph) (m : Mod) :
    ∀ (es : List Ev) (s s' : State), applyDefs g m s es = some s' → OnlyRow g s s' m
  | [], s, s', h => by simp [applyDefs] at h; subst h; exact OnlyRow.refl g s m
  | e :: es, s, s', h => by
    cases e with
    | defs rel other =>
      simp only [applyDefs] at h
      exact OnlyRow.trans (onlyRow_bindObjs g s m rel other) (onlyRow_applyDefs g m es _ _ h)
    | defMod n t =>
      simp only [applyDefs] at h
      split at h
      · rename_i hb
        exact OnlyRow.trans (onlyRow_bindMod g s m n t hb) (onlyRow_applyDefs g m es _ _ h)
      · cases h
    | defAll l =>
      simp only [applyDefs] at h
      exact OnlyRow.trans (OnlyRow.trans (onlyRow_bindObj g s m g.allName) (onlyRow_withAlls g _ _ m))
        (onlyRow_applyDefs g m es _ _ h)
    | imp _ _ _ _ => simp only [applyDefs] at h; exact onlyRow_applyDefs g m es _ _ h
    | from_ _ _ _ => simp only [applyDefs] at h; exact onlyRow_applyDefs g m es _ _ h
    | star _ _ => simp only [applyDefs] at h; exact onlyRow_applyDefs g m es _ _ h
    | use _ _ _ => simp only [applyDefs] at h; exact onlyRow_applyDefs g m es _ _ h
    | del_ _ _ => simp only [applyDefs] at h; exact onlyRow_applyDefs g m es _ _ h
    | ext _ => simp only [applyDefs] at h; exact onlyRow_applyDefs g m es _ _ h
    | raise_ _ _ => simp only [applyDefs] at h; exact onlyRow_applyDefs g m es _ _ h
    | try_ _ _ _ _ => simp only [applyDefs] at h; exact onlyRow_applyDefs g m es _ _ h
    | unknown _ => simp only [applyDefs] at h; exact onlyRow_applyDefs g m es _ _ h

theorem finish_isDone_self (s : State) (m : Mod) : (s.finish m).isDone m = true := by
  rw [finish_isDone]; simp

/-- interpreter start-up / the body of a non-ioflo module: new modules appear complete, and get bound on
their parents -/
theorem extLoad_frame (g : Graph) :
    ∀ (ys : List Mod) (s s' : State), WF s → extLoad g s ys = some s' → Frame g s s'
  | [], s, s', hwf, h => by simp [extLoad] at h; subst h; exact Frame.refl g s hwf
  | y :: ys, s, s', hwf, h => by
    unfold extLoad at h
    split at h
    · exact extLoad_frame g ys s s' hwf h
    · rename_i hy
      have hy' : s.isPresent y = false := by simpa using hy
      split at h
      · exact extLoad_frame g ys s s' hwf h
      · rename_i nd hnode
        split at h
        · cases h
        · rename_i s2 hs2
          -- s → enter y → finish y → (defs into row y) = s2
          have f1 : Frame g s ((s.enter y).finish y) :=
            Frame.finish (Frame.enter (Frame.refl g s hwf) y) y hy' (enter_isPresent s y)
          have o2 := onlyRow_applyDefs g y nd.body _ _ hs2
          have f2 : Frame g s s2 := Frame.then_onlyRow f1 o2 hy'
          have hyp : s2.isPresent y = true := by
            rw [o2.isPresent]; simpa [State.isPresent] using enter_isPresent s y
          have hyd : s2.isDone y = true := by rw [o2.isDone]; exact finish_isDone_self _ y
          split at h
          · rename_i p hpar
            split at h
            · split at h
              · rename_i hb
                have f3 := Frame.kidbind f2 y p nd hnode hpar hb hyp hyd
                exact Frame.trans f3 (extLoad_frame g ys _ s' f3.wf h)
              · cases h
            · exact Frame.trans f2 (extLoad_frame g ys _ s' f2.wf h)
          · exact Frame.trans f2 (extLoad_frame g ys _ s' f2.wf h)

end Ioflo.Imports

namespace Ioflo.Imports

/-- the executing module is in `sys.modules` and not finished -/
structure Cur (s : State) (cur : Mod) : Prop where
  wf : WF s
  present : s.isPresent cur = true
  notDone : s.isDone cur = false

theorem Cur.step {g : Graph} {s s' : State} {cur : Mod} (h : Cur s cur) (f : Frame g s s') : Cur s' cur :=
  ⟨f.wf, f.mono cur h.present, by rw [f.done cur h.present]; exact h.notDone⟩

theorem runEvs_frame (g : Graph) (cur : Mod) (step : State → Ev → Res)
    (hstep : ∀ s e, Cur s cur → Frame g s (step s e).1) :
    ∀ (es : List Ev) (s : State), Cur s cur → Frame g s (runEvs step s es).1
  | [], s, h => Frame.refl g s h.wf
  | e :: es, s, h => by
    unfold runEvs
    have h1 := hstep s e h
    split
    · rename_i s' heq
      rw [heq] at h1
      exact Frame.trans h1 (runEvs_frame g cur step hstep es s' (h.step h1))
    · exact h1

theorem importFrom_frame (g : Graph) (cur line : Nat) (t : Mod) :
    ∀ (items : List (Name × Option Name × Mod)) (s : State), Cur s cur →
      Frame g s (importFrom g cur line t s items).1
  | [], s, h => Frame.refl g s h.wf
  | (n, b, cand) :: rest, s, h => by
    unfold importFrom
    simp only
    split
    · exact Frame.refl g s h.wf
    · split
      · exact importFrom_frame g cur line t rest s h
      · split
        · rename_i s' hs'
          have f1 := Frame.of_onlyRow h.wf (onlyRow_bind g s s' _ _ _ hs') h.notDone
          exact Frame.trans f1 (importFrom_frame g cur line t rest s' (h.step f1))
        · exact Frame.refl g s h.wf

theorem copyAll_frame (g : Graph) (cur line : Nat) (t : Mod) :
    ∀ (l : List Name) (s : State), Cur s cur → Frame g s (copyAll g cur line t s l).1
  | [], s, h => Frame.refl g s h.wf
  | n :: rest, s, h => by
    unfold copyAll
    split
    · exact Frame.refl g s h.wf
    · split
      · rename_i s' hs'
        have f1 := Frame.of_onlyRow h.wf (onlyRow_bind g s s' _ _ _ hs') h.notDone
        exact Frame.trans f1 (copyAll_frame g cur line t rest s' (h.step f1))
      · exact Frame.refl g s h.wf

section
variable (g : Graph) (run : State → Mod → List Ev → Res)
  (hrun : ∀ s m body, Cur s m → Frame g s (run s m body).1)

include hrun in
theorem loadOne_frame (cur line : Nat) (s : State) (m : Mod) (nd : Node) (hwf : WF s)
    (hm : s.isPresent m = false) (hnode : g.node? m = some nd) :
    Frame g s (loadOne g run cur line s m nd).1 := by
  unfold loadOne
  dsimp only
  have hmd : s.isDone m = false := by
    cases hd : s.isDone m with
    | false => rfl
    | true => have := hwf m hd; rw [hm] at this; cases this
  have f1 : Frame g s ((s.enter m).bindObjs g m nd.init nd.initOther) :=
    Frame.then_onlyRow (Frame.enter (Frame.refl g s hwf) m) (onlyRow_bindObjs g _ m _ _) hm
  have c1 : Cur ((s.enter m).bindObjs g m nd.init nd.initOther) m :=
    ⟨f1.wf, by simpa [State.isPresent] using enter_isPresent s m, by simpa [State.isDone] using hmd⟩
  have h2 := hrun ((s.enter m).bindObjs g m nd.init nd.initOther) m nd.body c1
  split
  · rename_i s2 err heq
    rw [heq] at h2
    exact Frame.remove (Frame.trans f1 h2) m hm (c1.step h2).notDone
  · rename_i s2 heq
    rw [heq] at h2
    have f2 := Frame.trans f1 h2
    have f3 := Frame.finish f2 m hm (c1.step h2).present
    split
    · rename_i p hpar
      split
      · rename_i hb
        exact Frame.kidbind f3 m p nd hnode hpar hb (c1.step h2).present (finish_isDone_self s2 m)
      · exact f3
    · exact f3

include hrun in
theorem findAndLoad_frame (cur line : Nat) :
    ∀ (c : List Mod) (s : State), WF s → Frame g s (findAndLoad g run cur line s c).1
  | [], s, hwf => Frame.refl g s hwf
  | m :: anc, s, hwf => by
    unfold findAndLoad
    dsimp only
    split
    · exact Frame.refl g s hwf
    · have hpar : ∀ s1 e, (match anc with
          | [] => (s, none)
          | p :: _ => if s.isPresent p = true then (s, none) else findAndLoad g run cur line s anc : Res) = (s1, e) →
          Frame g s s1 := by
        intro s1 e heq
        cases anc with
        | nil => simp only [Prod.mk.injEq] at heq; rw [← heq.1]; exact Frame.refl g s hwf
        | cons p rest =>
          dsimp only at heq
          split at heq
          · simp only [Prod.mk.injEq] at heq; rw [← heq.1]; exact Frame.refl g s hwf
          · have := findAndLoad_frame cur line (p :: rest) s hwf
            rw [heq] at this; exact this
      split
      · rename_i s1 err heq
        exact hpar s1 _ heq
      · rename_i s1 heq
        have hp := hpar s1 _ heq
        repeat' split
        all_goals first
          | exact hp
          | exact Frame.trans hp
              (loadOne_frame g run hrun cur line s1 m _ hp.wf (by simpa using ‹¬s1.isPresent m = true›)
                (by assumption))

include hrun in
theorem fromlist_frame (cur line : Nat) (t : Mod) (tchain : List Mod) :
    ∀ (items : List (Name × Option Name × Mod)) (s : State), WF s →
      Frame g s (fromlist g run cur line t tchain s items).1
  | [], s, hwf => Frame.refl g s hwf
  | (n, b, cand) :: rest, s, hwf => by
    unfold fromlist
    split
    · exact fromlist_frame cur line t tchain rest s hwf
    · have h1 := findAndLoad_frame g run hrun cur line (cand :: tchain) s hwf
      generalize findAndLoad g run cur line s (cand :: tchain) = r at h1
      obtain ⟨s', e⟩ := r
      cases e with
      | none => exact Frame.trans h1 (fromlist_frame cur line t tchain rest s' h1.wf)
      | some err =>
        simp only
        split
        · exact Frame.trans h1 (fromlist_frame cur line t tchain rest s' h1.wf)
        · exact h1

end

end Ioflo.Imports

namespace Ioflo.Imports

theorem execEv_frame (g : Graph) :
    ∀ (f : Nat) (cur : Mod) (s : State) (ev : Ev), Cur s cur → Frame g s (execEv g f cur s ev).1
  | 0, cur, s, ev, h => Frame.refl g s h.wf
  | f + 1, cur, s, ev, h => by
    have hrun : ∀ s m body, Cur s m →
        Frame g s ((fun s m body => runEvs (execEv g f m) s body) s m body).1 :=
      fun s m body hc => runEvs_frame g m _ (fun s e hc' => execEv_frame g f m s e hc') body s hc
    have hcur : ∀ s body, Cur s cur → Frame g s (runEvs (execEv g f cur) s body).1 :=
      fun s body hc => runEvs_frame g cur _ (fun s e hc' => execEv_frame g f cur s e hc') body s hc
    unfold execEv
    cases ev with
    | imp line chain bind asT =>
      simp only
      have h1 := findAndLoad_frame g _ hrun cur line chain s h.wf
      generalize findAndLoad g (fun s m body => runEvs (execEv g f m) s body) cur line s chain = r at h1
      obtain ⟨s1, e⟩ := r
      cases e with
      | some err => exact h1
      | none =>
        dsimp only
        have c1 := h.step h1
        repeat' split
        all_goals first
          | exact h1
          | exact Frame.trans h1 (Frame.of_onlyRow c1.wf (onlyRow_bindMod g s1 cur _ _ (by assumption)) c1.notDone)
    | from_ line chain items =>
      simp only
      have h1 := findAndLoad_frame g _ hrun cur line chain s h.wf
      generalize findAndLoad g (fun s m body => runEvs (execEv g f m) s body) cur line s chain = r at h1
      obtain ⟨s1, e⟩ := r
      cases e with
      | some err => exact h1
      | none =>
        simp only
        have h2 : Frame g s1 (if s1.bound g (chain.headD 0) g.pathName = true then
            fromlist g (fun s m body => runEvs (execEv g f m) s body) cur line (chain.headD 0) chain s1 items
            else (s1, none) : Res).1 := by
          split
          · exact fromlist_frame g _ hrun cur line _ chain items s1 h1.wf
          · exact Frame.refl g s1 h1.wf
        generalize (if s1.bound g (chain.headD 0) g.pathName = true then
            fromlist g (fun s m body => runEvs (execEv g f m) s body) cur line (chain.headD 0) chain s1 items
            else (s1, none) : Res) = r2 at h2
        obtain ⟨s2, e2⟩ := r2
        cases e2 with
        | some err => exact Frame.trans h1 h2
        | none =>
          have f12 := Frame.trans h1 h2
          exact Frame.trans f12 (importFrom_frame g cur line _ items s2 (h.step f12))
    | star line chain =>
      simp only
      have h1 := findAndLoad_frame g _ hrun cur line chain s h.wf
      generalize findAndLoad g (fun s m body => runEvs (execEv g f m) s body) cur line s chain = r at h1
      obtain ⟨s1, e⟩ := r
      cases e with
      | some err => exact h1
      | none =>
        dsimp only
        have c1 := h.step h1
        split
        · split
          · rename_i l _
            have h2 : Frame g s1 (if s1.bound g (chain.headD 0) g.pathName = true then
                fromlist g (fun s m body => runEvs (execEv g f m) s body) cur line (chain.headD 0) chain s1
                  (l.map fun p => (p.1, none, p.2))
                else (s1, none) : Res).1 := by
              split
              · exact fromlist_frame g _ hrun cur line _ chain _ s1 h1.wf
              · exact Frame.refl g s1 h1.wf
            generalize (if s1.bound g (chain.headD 0) g.pathName = true then
                fromlist g (fun s m body => runEvs (execEv g f m) s body) cur line (chain.headD 0) chain s1
                  (l.map fun p => (p.1, none, p.2))
                else (s1, none) : Res) = r2 at h2
            obtain ⟨s2, e2⟩ := r2
            cases e2 with
            | some err => exact Frame.trans h1 h2
            | none =>
              have f12 := Frame.trans h1 h2
              exact Frame.trans f12 (copyAll_frame g cur line _ _ s2 (h.step f12))
          · exact h1
        · exact Frame.trans h1 (Frame.of_onlyRow c1.wf (onlyRow_copyPublic g cur _ s1) c1.notDone)
    | use line root path =>
      simp only
      split
      · split <;> exact Frame.refl g s h.wf
      · split <;> exact Frame.refl g s h.wf
    | defs rel other => exact Frame.of_onlyRow h.wf (onlyRow_bindObjs g s cur rel other) h.notDone
    | defMod n t =>
      simp only
      split
      · rename_i hb
        exact Frame.of_onlyRow h.wf (onlyRow_bindMod g s cur n t hb) h.notDone
      · exact Frame.refl g s h.wf
    | defAll l =>
      exact Frame.of_onlyRow h.wf
        (OnlyRow.trans (onlyRow_bindObj g s cur g.allName) (onlyRow_withAlls g _ _ cur)) h.notDone
    | del_ line n =>
      simp only
      split
      · exact Frame.of_onlyRow h.wf (onlyRow_unbind g s cur n) h.notDone
      · exact Frame.refl g s h.wf
    | ext loads =>
      simp only
      split
      · rename_i s' hs'
        exact extLoad_frame g loads s s' h.wf hs'
      · exact Frame.refl g s h.wf
    | raise_ line exc => exact Frame.refl g s h.wf
    | unknown line => exact Frame.refl g s h.wf
    | try_ body hs orelse fin =>
      dsimp only
      have hb := hcur s body h
      generalize runEvs (execEv g f cur) s body = rb at hb ⊢
      obtain ⟨s1, e1⟩ := rb
      have c1 := h.step hb
      cases e1 with
      | none =>
        dsimp only
        have h2 := hcur s1 orelse c1
        generalize runEvs (execEv g f cur) s1 orelse = r2 at h2 ⊢
        have h3 := hcur r2.1 fin (c1.step h2)
        generalize runEvs (execEv g f cur) r2.1 fin = r3 at h3 ⊢
        obtain ⟨s3, e3⟩ := r3
        cases e3 <;> exact Frame.trans (Frame.trans hb h2) h3
      | some err =>
        dsimp only
        generalize hs.find? (fun h => handles h.1 err.exc) = fo
        cases fo with
        | some hd =>
          dsimp only
          have h2 := hcur s1 hd.2 c1
          generalize runEvs (execEv g f cur) s1 hd.2 = r2 at h2 ⊢
          have h3 := hcur r2.1 fin (c1.step h2)
          generalize runEvs (execEv g f cur) r2.1 fin = r3 at h3 ⊢
          obtain ⟨s3, e3⟩ := r3
          cases e3 <;> exact Frame.trans (Frame.trans hb h2) h3
        | none =>
          dsimp only
          have h3 := hcur s1 fin c1
          generalize runEvs (execEv g f cur) s1 fin = r3 at h3 ⊢
          obtain ⟨s3, e3⟩ := r3
          cases e3 <;> exact Frame.trans hb h3

/-- **`import m` never modifies the namespace of a module that has finished initialising, except for binding
loaded sub-modules on their packages** (and never removes or un-finishes a module) -/
theorem importModule_frame (g : Graph) (s : State) (m : Mod) (hwf : WF s) : Frame g s (importModule g s m).1 := by
  unfold importModule importChain
  exact findAndLoad_frame g (runBody g)
    (fun s m body hc => runEvs_frame g m _ (fun s e hc' => execEv_frame g g.fuel m s e hc') body s hc)
    g.main 0 _ s hwf

theorem importAll_frame (g : Graph) : ∀ (ms : List Mod) (s : State), WF s → Frame g s (importAll g s ms).1
  | [], s, hwf => Frame.refl g s hwf
  | m :: ms, s, hwf => by
    simp only [importAll]
    have f1 := importModule_frame g s m hwf
    exact Frame.trans f1 (importAll_frame g ms _ f1.wf)

theorem emptyState_wf : WF emptyState := by
  intro x hx
  simp [State.isDone, emptyState] at hx

theorem fresh_wf (g : Graph) : WF (fresh g) := by
  unfold fresh fresh?
  split
  · rename_i s hs
    exact (extLoad_frame g g.preloaded emptyState s emptyState_wf hs).wf
  · exact emptyState_wf

end Ioflo.Imports
