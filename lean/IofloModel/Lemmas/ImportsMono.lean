import IofloModel.Model.Imports
/-!
Generic lemma for C01 (any graph): **an import never removes a module that was in `sys.modules` before.**
The only place the interpreter clears a `present` bit is `State.remove g m` in `loadOne`, for the module `m`
whose own body just failed, and `loadOne` is only entered for a module that is absent.
-/
namespace Ioflo.Imports

/-- everything present in `s` is present in `s'` -/
def PresMono (s s' : State) : Prop := ∀ x, s.isPresent x = true → s'.isPresent x = true

theorem PresMono.refl (s : State) : PresMono s s := fun _ h => h

theorem PresMono.trans {a b c : State} (h1 : PresMono a b) (h2 : PresMono b c) : PresMono a c :=
  fun x h => h2 x (h1 x h)

theorem PresMono.of_eq {s s' : State} (h : s'.present = s.present) : PresMono s s' := by
  intro x hx
  simpa [State.isPresent, h] using hx

/-! ### primitives that do not touch `present` -/

@[simp] theorem bindObj_present (g : Graph) (s : State) (m n : Nat) :
    (s.bindObj g m n).present = s.present := by
  unfold State.bindObj; split <;> rfl

@[simp] theorem bindMod_present (g : Graph) (s : State) (m n t : Nat) :
    (s.bindMod g m n t).present = s.present := rfl

@[simp] theorem bindObjs_present (g : Graph) (s : State) (m : Nat) (a b : List Name) :
    (s.bindObjs g m a b).present = s.present := rfl

@[simp] theorem unbind_present (g : Graph) (s : State) (m n : Nat) :
    (s.unbind g m n).present = s.present := by
  unfold State.unbind; split <;> rfl

@[simp] theorem finish_present (s : State) (m : Nat) : (s.finish m).present = s.present := rfl

theorem bind_present (g : Graph) (s s' : State) (m n : Nat) (v : Val) (h : s.bind g m n v = some s') :
    s'.present = s.present := by
  cases v with
  | obj => simp [State.bind] at h; subst h; simp
  | mod t =>
    simp only [State.bind] at h
    split at h
    · simp at h; subst h; simp
    · cases h

theorem copyVals_present (g : Graph) (t cur : Mod) :
    ∀ (f : Nat) (s : State) (mask : Nat), (copyVals g t cur f s mask).present = s.present
  | 0, _, _ => rfl
  | f + 1, s, mask => by
    unfold copyVals
    split
    · rfl
    · rw [copyVals_present g t cur f]

@[simp] theorem copyPublic_present (g : Graph) (cur t : Mod) (s : State) :
    (copyPublic g cur t s).present = s.present := by
  unfold copyPublic
  simp only [copyVals_present]

theorem enter_mono (s : State) (m : Mod) : PresMono s (s.enter m) := by
  intro x hx
  simp only [State.isPresent, State.enter, Nat.testBit_or] at hx ⊢
  simp [hx]

/-- removing `m` keeps every other module -/
theorem remove_isPresent (g : Graph) (s : State) (m x : Mod) (hx : x ≠ m) :
    (s.remove g m).isPresent x = s.isPresent x := by
  simp only [State.isPresent, State.remove]
  split
  · rw [Nat.testBit_xor, Nat.one_shiftLeft, Nat.testBit_two_pow]
    have : decide (m = x) = false := by simp [Ne.symm hx]
    simp [this]
  · rfl

/-! ### recursive helpers -/

theorem applyDefs_present (g : Graph) (m : Mod) :
    ∀ (es : List Ev) (s s' : State), applyDefs g m s es = some s' → s'.present = s.present
  | [], s, s', h => by simp [applyDefs] at h; subst h; rfl
  | e :: es, s, s', h => by
    cases e with
    | defs rel other =>
      simp only [applyDefs] at h
      rw [applyDefs_present g m es _ _ h]; simp
    | defMod n t =>
      simp only [applyDefs] at h
      split at h
      · rw [applyDefs_present g m es _ _ h]; simp
      · cases h
    | defAll l =>
      simp only [applyDefs] at h
      rw [applyDefs_present g m es _ _ h]; simp
    | imp _ _ _ _ => simp only [applyDefs] at h; exact applyDefs_present g m es _ _ h
    | from_ _ _ _ => simp only [applyDefs] at h; exact applyDefs_present g m es _ _ h
    | star _ _ => simp only [applyDefs] at h; exact applyDefs_present g m es _ _ h
    | use _ _ _ => simp only [applyDefs] at h; exact applyDefs_present g m es _ _ h
    | del_ _ _ => simp only [applyDefs] at h; exact applyDefs_present g m es _ _ h
    | ext _ => simp only [applyDefs] at h; exact applyDefs_present g m es _ _ h
    | raise_ _ _ => simp only [applyDefs] at h; exact applyDefs_present g m es _ _ h
    | try_ _ _ _ _ => simp only [applyDefs] at h; exact applyDefs_present g m es _ _ h
    | unknown _ => simp only [applyDefs] at h; exact applyDefs_present g m es _ _ h

theorem extLoad_mono (g : Graph) :
    ∀ (ys : List Mod) (s s' : State), extLoad g s ys = some s' → PresMono s s'
  | [], s, s', h => by simp [extLoad] at h; subst h; exact PresMono.refl _
  | y :: ys, s, s', h => by
    unfold extLoad at h
    split at h
    · exact extLoad_mono g ys s s' h
    · split at h
      · exact extLoad_mono g ys s s' h
      · rename_i nd _
        split at h
        · cases h
        · rename_i s2 hs2
          have e2 : s2.present = ((s.enter y).finish y).present := applyDefs_present g y _ _ _ hs2
          have m2 : PresMono s s2 :=
            PresMono.trans (enter_mono s y) (PresMono.of_eq (by rw [e2]; rfl))
          split at h
          · split at h
            · split at h
              · exact PresMono.trans (PresMono.trans m2 (PresMono.of_eq (by simp))) (extLoad_mono g ys _ s' h)
              · cases h
            · exact PresMono.trans m2 (extLoad_mono g ys _ s' h)
          · exact PresMono.trans m2 (extLoad_mono g ys _ s' h)

theorem runEvs_mono (step : State → Ev → Res) (hstep : ∀ s e, PresMono s (step s e).1) :
    ∀ (es : List Ev) (s : State), PresMono s (runEvs step s es).1
  | [], s => PresMono.refl s
  | e :: es, s => by
    unfold runEvs
    have h1 := hstep s e
    split
    · rename_i s' heq
      rw [heq] at h1
      exact PresMono.trans h1 (runEvs_mono step hstep es s')
    · exact h1

section
variable (g : Graph) (run : State → Mod → List Ev → Res)
  (hrun : ∀ s m body, PresMono s (run s m body).1)

include hrun in
theorem loadOne_mono (cur line : Nat) (s : State) (m : Mod) (nd : Node) (hm : s.isPresent m = false) :
    PresMono s (loadOne g run cur line s m nd).1 := by
  unfold loadOne
  dsimp only
  have h1 : PresMono s ((s.enter m).bindObjs g m nd.init nd.initOther) :=
    PresMono.trans (enter_mono s m) (PresMono.of_eq (by simp))
  have h2 := hrun ((s.enter m).bindObjs g m nd.init nd.initOther) m nd.body
  split
  · rename_i s2 err heq
    rw [heq] at h2
    intro x hx
    have hxm : x ≠ m := by
      intro h; subst h; rw [hm] at hx; cases hx
    show ((s2.remove g m).isPresent x) = true
    rw [remove_isPresent g s2 m x hxm]
    exact h2 x (h1 x hx)
  · rename_i s2 heq
    rw [heq] at h2
    have h3 : PresMono s (s2.finish m) := PresMono.trans (PresMono.trans h1 h2) (PresMono.of_eq (by simp))
    split
    · split
      · exact PresMono.trans h3 (PresMono.of_eq (by simp))
      · exact h3
    · exact h3

include hrun in
theorem findAndLoad_mono (cur line : Nat) :
    ∀ (c : List Mod) (s : State), PresMono s (findAndLoad g run cur line s c).1
  | [], s => PresMono.refl s
  | m :: anc, s => by
    unfold findAndLoad
    dsimp only
    split
    · exact PresMono.refl s
    · -- the parent part
      have hpar : ∀ s1 e, (match anc with
          | [] => (s, none)
          | p :: _ => if s.isPresent p = true then (s, none) else findAndLoad g run cur line s anc : Res) = (s1, e) →
          PresMono s s1 := by
        intro s1 e heq
        cases anc with
        | nil => simp only [Prod.mk.injEq] at heq; rw [← heq.1]; exact PresMono.refl s
        | cons p rest =>
          dsimp only at heq
          split at heq
          · simp only [Prod.mk.injEq] at heq; rw [← heq.1]; exact PresMono.refl s
          · have := findAndLoad_mono cur line (p :: rest) s
            rw [heq] at this; exact this
      split
      · rename_i s1 err heq
        exact hpar s1 _ heq
      · rename_i s1 heq
        have hp := hpar s1 _ heq
        repeat' split
        all_goals first
          | exact hp
          | exact PresMono.trans hp
              (loadOne_mono g run hrun cur line s1 m _ (by simpa using ‹¬s1.isPresent m = true›))

include hrun in
theorem fromlist_mono (cur line : Nat) (t : Mod) (tchain : List Mod) :
    ∀ (items : List (Name × Option Name × Mod)) (s : State),
      PresMono s (fromlist g run cur line t tchain s items).1
  | [], s => PresMono.refl s
  | (n, b, cand) :: rest, s => by
    unfold fromlist
    split
    · exact fromlist_mono cur line t tchain rest s
    · have h1 := findAndLoad_mono g run hrun cur line (cand :: tchain) s
      generalize findAndLoad g run cur line s (cand :: tchain) = r at h1
      obtain ⟨s', e⟩ := r
      cases e with
      | none => exact PresMono.trans h1 (fromlist_mono cur line t tchain rest s')
      | some err =>
        simp only
        split
        · exact PresMono.trans h1 (fromlist_mono cur line t tchain rest s')
        · exact h1

end

theorem importFrom_mono (g : Graph) (cur line : Nat) (t : Mod) :
    ∀ (items : List (Name × Option Name × Mod)) (s : State), PresMono s (importFrom g cur line t s items).1
  | [], s => PresMono.refl s
  | (n, b, cand) :: rest, s => by
    unfold importFrom
    simp only
    split
    · exact PresMono.refl s
    · split
      · exact importFrom_mono g cur line t rest s
      · split
        · rename_i s' hs'
          exact PresMono.trans (PresMono.of_eq (bind_present g s s' _ _ _ hs')) (importFrom_mono g cur line t rest s')
        · exact PresMono.refl s

theorem copyAll_mono (g : Graph) (cur line : Nat) (t : Mod) :
    ∀ (l : List Name) (s : State), PresMono s (copyAll g cur line t s l).1
  | [], s => PresMono.refl s
  | n :: rest, s => by
    unfold copyAll
    split
    · exact PresMono.refl s
    · split
      · rename_i s' hs'
        exact PresMono.trans (PresMono.of_eq (bind_present g s s' _ _ _ hs')) (copyAll_mono g cur line t rest s')
      · exact PresMono.refl s

/-- **an import-time event never removes a module from `sys.modules`** -/
theorem execEv_mono (g : Graph) : ∀ (f : Nat) (cur : Mod) (s : State) (ev : Ev), PresMono s (execEv g f cur s ev).1
  | 0, cur, s, ev => PresMono.refl s
  | f + 1, cur, s, ev => by
    have hrun : ∀ s m body, PresMono s ((fun s m body => runEvs (execEv g f m) s body) s m body).1 :=
      fun s m body => runEvs_mono _ (fun s e => execEv_mono g f m s e) body s
    have hcur : ∀ s body, PresMono s (runEvs (execEv g f cur) s body).1 :=
      fun s body => runEvs_mono _ (fun s e => execEv_mono g f cur s e) body s
    unfold execEv
    cases ev with
    | imp line chain bind asT =>
      simp only
      have h1 := findAndLoad_mono g _ hrun cur line chain s
      generalize findAndLoad g (fun s m body => runEvs (execEv g f m) s body) cur line s chain = r at h1
      obtain ⟨s1, e⟩ := r
      cases e with
      | some err => exact h1
      | none =>
        dsimp only
        repeat' split
        all_goals first
          | exact h1
          | exact PresMono.trans h1 (PresMono.of_eq (by simp))
    | from_ line chain items =>
      simp only
      have h1 := findAndLoad_mono g _ hrun cur line chain s
      generalize findAndLoad g (fun s m body => runEvs (execEv g f m) s body) cur line s chain = r at h1
      obtain ⟨s1, e⟩ := r
      cases e with
      | some err => exact h1
      | none =>
        simp only
        have h2 : PresMono s1 (if s1.bound g (chain.headD 0) g.pathName = true then
            fromlist g (fun s m body => runEvs (execEv g f m) s body) cur line (chain.headD 0) chain s1 items
            else (s1, none) : Res).1 := by
          split
          · exact fromlist_mono g _ hrun cur line _ chain items s1
          · exact PresMono.refl s1
        generalize (if s1.bound g (chain.headD 0) g.pathName = true then
            fromlist g (fun s m body => runEvs (execEv g f m) s body) cur line (chain.headD 0) chain s1 items
            else (s1, none) : Res) = r2 at h2
        obtain ⟨s2, e2⟩ := r2
        cases e2 with
        | some err => exact PresMono.trans h1 h2
        | none => exact PresMono.trans (PresMono.trans h1 h2) (importFrom_mono g cur line _ items s2)
    | star line chain =>
      simp only
      have h1 := findAndLoad_mono g _ hrun cur line chain s
      generalize findAndLoad g (fun s m body => runEvs (execEv g f m) s body) cur line s chain = r at h1
      obtain ⟨s1, e⟩ := r
      cases e with
      | some err => exact h1
      | none =>
        dsimp only
        split
        · split
          · rename_i l _
            have h2 : PresMono s1 (if s1.bound g (chain.headD 0) g.pathName = true then
                fromlist g (fun s m body => runEvs (execEv g f m) s body) cur line (chain.headD 0) chain s1
                  (l.map fun p => (p.1, none, p.2))
                else (s1, none) : Res).1 := by
              split
              · exact fromlist_mono g _ hrun cur line _ chain _ s1
              · exact PresMono.refl s1
            generalize (if s1.bound g (chain.headD 0) g.pathName = true then
                fromlist g (fun s m body => runEvs (execEv g f m) s body) cur line (chain.headD 0) chain s1
                  (l.map fun p => (p.1, none, p.2))
                else (s1, none) : Res) = r2 at h2
            obtain ⟨s2, e2⟩ := r2
            cases e2 with
            | some err => exact PresMono.trans h1 h2
            | none => exact PresMono.trans (PresMono.trans h1 h2) (copyAll_mono g cur line _ _ s2)
          · exact h1
        · exact PresMono.trans h1 (PresMono.of_eq (by simp))
    | use line root path =>
      simp only
      split
      · split <;> exact PresMono.refl s
      · split <;> exact PresMono.refl s
    | defs rel other => exact PresMono.of_eq (by simp)
    | defMod n t =>
      simp only
      split
      · exact PresMono.of_eq (by simp)
      · exact PresMono.refl s
    | defAll l => exact PresMono.of_eq (by simp)
    | del_ line n =>
      simp only
      split
      · exact PresMono.of_eq (by simp)
      · exact PresMono.refl s
    | ext loads =>
      simp only
      split
      · rename_i s' hs'
        exact extLoad_mono g loads s s' hs'
      · exact PresMono.refl s
    | raise_ line exc => exact PresMono.refl s
    | unknown line => exact PresMono.refl s
    | try_ body hs orelse fin =>
      dsimp only
      have hb := hcur s body
      generalize runEvs (execEv g f cur) s body = rb at hb ⊢
      obtain ⟨s1, e1⟩ := rb
      cases e1 with
      | none =>
        dsimp only
        have h2 := hcur s1 orelse
        generalize runEvs (execEv g f cur) s1 orelse = r2 at h2 ⊢
        have h3 := hcur r2.1 fin
        generalize runEvs (execEv g f cur) r2.1 fin = r3 at h3 ⊢
        obtain ⟨s3, e3⟩ := r3
        cases e3 <;> exact PresMono.trans (PresMono.trans hb h2) h3
      | some err =>
        dsimp only
        generalize hs.find? (fun h => handles h.1 err.exc) = fo
        cases fo with
        | some h =>
          dsimp only
          have h2 := hcur s1 h.2
          generalize runEvs (execEv g f cur) s1 h.2 = r2 at h2 ⊢
          have h3 := hcur r2.1 fin
          generalize runEvs (execEv g f cur) r2.1 fin = r3 at h3 ⊢
          obtain ⟨s3, e3⟩ := r3
          cases e3 <;> exact PresMono.trans (PresMono.trans hb h2) h3
        | none =>
          dsimp only
          have h3 := hcur s1 fin
          generalize runEvs (execEv g f cur) s1 fin = r3 at h3 ⊢
          obtain ⟨s3, e3⟩ := r3
          cases e3 <;> exact PresMono.trans hb h3

/-- **`import m` never removes a module from `sys.modules`**, whether it succeeds or fails -/
theorem importModule_mono (g : Graph) (s : State) (m : Mod) : PresMono s (importModule g s m).1 := by
  unfold importModule importChain
  exact findAndLoad_mono g (runBody g)
    (fun s m body => runEvs_mono _ (fun s e => execEv_mono g g.fuel m s e) body s) g.main 0 _ s

theorem importAll_mono (g : Graph) : ∀ (ms : List Mod) (s : State), PresMono s (importAll g s ms).1
  | [], s => PresMono.refl s
  | m :: ms, s => by
    simp only [importAll]
    exact PresMono.trans (importModule_mono g s m) (importAll_mono g ms _)

/-! ## a successful import leaves the module in `sys.modules` -/

theorem enter_isPresent (s : State) (m : Mod) : (s.enter m).isPresent m = true := by
  simp [State.isPresent, State.enter, Nat.testBit_or, Nat.one_shiftLeft]

section
variable (g : Graph) (run : State → Mod → List Ev → Res)
  (hrun : ∀ s m body, PresMono s (run s m body).1)

include hrun in
theorem loadOne_ok_present (cur line : Nat) (s : State) (m : Mod) (nd : Node)
    (h : (loadOne g run cur line s m nd).2 = none) : (loadOne g run cur line s m nd).1.isPresent m = true := by
  unfold loadOne at h ⊢
  dsimp only at h ⊢
  have h1 : ((s.enter m).bindObjs g m nd.init nd.initOther).isPresent m = true := by
    have := enter_isPresent s m
    simpa [State.isPresent] using this
  have h2 := hrun ((s.enter m).bindObjs g m nd.init nd.initOther) m nd.body
  generalize run ((s.enter m).bindObjs g m nd.init nd.initOther) m nd.body = r at h h2 ⊢
  obtain ⟨s2, e⟩ := r
  cases e with
  | some err => cases h
  | none =>
    have h3 : s2.isPresent m = true := h2 m h1
    dsimp only at h ⊢
    repeat' split
    all_goals first
      | (simpa [State.isPresent] using h3)
      | (simp_all)

include hrun in
theorem findAndLoad_ok_present (cur line : Nat) (m : Mod) (anc : List Mod) (s : State)
    (h : (findAndLoad g run cur line s (m :: anc)).2 = none) :
    (findAndLoad g run cur line s (m :: anc)).1.isPresent m = true := by
  unfold findAndLoad at h ⊢
  dsimp only at h ⊢
  split
  · assumption
  · rename_i hm
    simp only [hm] at h
    split
    · rename_i s1 err heq
      rw [heq] at h; cases h
    · rename_i s1 heq
      rw [heq] at h
      dsimp only at h
      split
      · assumption
      · rename_i hm1
        simp only [hm1] at h
        repeat' split
        all_goals first
          | (simp_all; done)
          | (rename_i nd _ _
             apply loadOne_ok_present g run hrun
             simp_all)

end

/-- after a successful `import m`, `m` is in `sys.modules` -/
theorem importModule_ok_present (g : Graph) (s : State) (m : Mod) (h : (importModule g s m).2 = none) :
    (importModule g s m).1.isPresent m = true := by
  unfold importModule importChain Graph.chain at h ⊢
  cases hc : g.chainOf 32 m with
  | nil =>
    cases hf : (32 : Nat) with
    | zero => cases hf
    | succ f =>
      rw [hf] at hc
      unfold Graph.chainOf at hc
      split at hc
      · split at hc <;> cases hc
      · cases hc
  | cons x rest =>
    have hx : x = m := by
      unfold Graph.chainOf at hc
      split at hc
      · split at hc
        · injection hc with h1 _; exact h1.symm
        · injection hc with h1 _; exact h1.symm
      · injection hc with h1 _; exact h1.symm
    subst hx
    rw [hc] at h
    exact findAndLoad_ok_present g (runBody g)
      (fun s m body => runEvs_mono _ (fun s e => execEv_mono g g.fuel m s e) body s) g.main 0 x rest s h

end Ioflo.Imports
