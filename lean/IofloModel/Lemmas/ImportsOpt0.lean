import IofloModel.Lemmas.ImportsVia
import IofloModel.Generated.ImportGraph
/-! C01 table, optional third-party modules, chunk 0 of 4: on every host variant of every optional module of the chunk
(absent / importable / raises ImportError / raises ModuleNotFoundError for another module) every module of the tree that
tries to import it inside a `try` imports cold (kernel evaluation of the interpreter on the variant graphs). -/
namespace Ioflo.Imports
set_option maxRecDepth 1000000 in
theorem optChunk0 : (Gen.optChunks.getD 0 []).all (optOk Gen.graph Gen.root (staleFrom Gen.graph)) = true := by
  decide +kernel
end Ioflo.Imports
