import IofloModel.Model.Imports
import IofloModel.Lemmas.ImportsBits
/-! what the observers `bound`, `val`, `isDone` see in OTHER rows after each state operation -/
namespace Ioflo.Imports

theorem Mat.row_ext (M M' w m m' : Nat) (h : ∀ k, Mat.get M w m k = Mat.get M' w m' k) :
    Mat.row M w m = Mat.row M' w m' := by
  apply Nat.eq_of_testBit_eq
  intro k
  rw [Mat.testBit_row_eq_get, Mat.testBit_row_eq_get, h]

/-- the observable content of row `x`: which names are bound, and to what -/
def RowEq (g : Graph) (s s' : State) (x : Mod) : Prop :=
  (∀ k, s'.bound g x k = s.bound g x k) ∧ (∀ k, s'.val g x k = s.val g x k)

theorem State.field_eq_row (g : Graph) (s : State) (m n : Nat) :
    s.field g m n = Mat.row s.vals valBits (m * g.nMN + n) := rfl

/-- `val` is a function of `bound`, the `isMod` entry and the `vals` field -/
theorem val_congr (g : Graph) (s s' : State) (x k : Nat)
    (hb : s'.bound g x k = s.bound g x k)
    (hm : Mat.get s'.isMod g.nMN x k = Mat.get s.isMod g.nMN x k)
    (hf : Mat.get s.isMod g.nMN x k = true → s'.field g x k = s.field g x k) :
    s'.val g x k = s.val g x k := by
  unfold State.val
  rw [hb, hm]
  by_cases h1 : s.bound g x k = true
  · by_cases h2 : Mat.get s.isMod g.nMN x k = true
    · simp [h1, h2, hf h2]
    · simp [h1, h2]
  · simp [h1]

end Ioflo.Imports

namespace Ioflo.Imports

/-! ### writes into row `m` leave every other row alone -/

theorem bound_of_lo_hi (g : Graph) (s s' : State) (x k : Nat)
    (hlo : Mat.get s'.lo g.nRel x k = Mat.get s.lo g.nRel x k)
    (hhi : Mat.get s'.hi g.nHi x (k - g.nRel) = Mat.get s.hi g.nHi x (k - g.nRel)) :
    s'.bound g x k = s.bound g x k := by
  unfold State.bound
  split <;> assumption

/-- a state whose matrices agree with `s` on row `x` (and whose `vals` fields agree there) has the same row -/
theorem rowEq_of_mats (g : Graph) (s s' : State) (x : Nat)
    (hlo : ∀ k, Mat.get s'.lo g.nRel x k = Mat.get s.lo g.nRel x k)
    (hhi : ∀ k, Mat.get s'.hi g.nHi x k = Mat.get s.hi g.nHi x k)
    (hmod : ∀ k, Mat.get s'.isMod g.nMN x k = Mat.get s.isMod g.nMN x k)
    (hval : ∀ k, k < g.nMN → s'.field g x k = s.field g x k) :
    RowEq g s s' x := by
  have hb : ∀ k, s'.bound g x k = s.bound g x k := fun k => bound_of_lo_hi g s s' x k (hlo k) (hhi _)
  refine ⟨hb, fun k => val_congr g s s' x k (hb k) (hmod k) ?_⟩
  intro h
  have hk : k < g.nMN := by
    unfold Mat.get at h
    simp only [Bool.and_eq_true, decide_eq_true_eq] at h
    exact h.1
  exact hval k hk

theorem RowEq.refl (g : Graph) (s : State) (x : Nat) : RowEq g s s x := ⟨fun _ => rfl, fun _ => rfl⟩

theorem RowEq.trans {g : Graph} {a b c : State} {x : Nat} (h1 : RowEq g a b x) (h2 : RowEq g b c x) :
    RowEq g a c x :=
  ⟨fun k => (h2.1 k).trans (h1.1 k), fun k => (h2.2 k).trans (h1.2 k)⟩

/-- writing field `i` of `vals` (clear, then or) leaves field `j ≠ i` alone -/
theorem field_write_other (V i j t : Nat) (ht : t < 2 ^ valBits) (hij : j ≠ i) :
    Mat.row ((V ^^^ (Mat.row V valBits i <<< (i * valBits))) ||| (t <<< (i * valBits))) valBits j
      = Mat.row V valBits j := by
  apply Mat.row_ext
  intro k
  unfold Mat.get
  by_cases hk : k < valBits
  · simp only [hk, decide_true, Bool.true_and, Nat.testBit_or, Nat.testBit_xor]
    rw [shl_row_testBit _ valBits i j k (Mat.row_lt V valBits i) hk, shl_row_testBit _ valBits i j k ht hk]
    simp [hij]
  · simp [hk]

theorem field_write_same (V i t : Nat) (ht : t < 2 ^ valBits) :
    Mat.row ((V ^^^ (Mat.row V valBits i <<< (i * valBits))) ||| (t <<< (i * valBits))) valBits i = t := by
  apply Nat.eq_of_testBit_eq
  intro k
  rw [Mat.testBit_row]
  by_cases hk : k < valBits
  · simp only [hk, decide_true, Bool.true_and, Nat.testBit_or, Nat.testBit_xor]
    rw [shl_row_testBit _ valBits i i k (Mat.row_lt V valBits i) hk, shl_row_testBit _ valBits i i k ht hk]
    simp only [decide_true, Bool.true_and, Mat.testBit_row, hk]
    cases V.testBit (i * valBits + k) <;> simp
  · have : t.testBit k = false := by
      have hk' : valBits ≤ k := Nat.le_of_not_lt hk
      exact Nat.testBit_lt_two_pow (Nat.lt_of_lt_of_le ht (Nat.pow_le_pow_right (by decide) hk'))
    simp [hk, this]

/-- field indices of different rows differ -/
theorem fidx_ne (g : Graph) {m n x k : Nat} (hn : n < g.nMN) (hk : k < g.nMN) (hx : x ≠ m) :
    x * g.nMN + k ≠ m * g.nMN + n := by
  intro h
  exact hx (idx_inj hk hn h).1

theorem Mat.get_set_other (M w m n x k : Nat) (hx : x ≠ m) :
    Mat.get (Mat.set M w m n) w x k = Mat.get M w x k := by
  by_cases hn : n < w
  · simp [Mat.get_set _ _ _ _ _ _ hn, hx]
  · simp [Mat.set, hn]

/-! #### the individual operations -/

theorem bindObj_other (g : Graph) (s : State) (m n x : Nat) (hx : x ≠ m) : RowEq g s (s.bindObj g m n) x := by
  unfold State.bindObj
  split
  · rename_i hn
    apply rowEq_of_mats
    · intro k; simp [Mat.get_set _ _ _ _ _ _ hn, hx]
    · intro k; rfl
    · intro k
      show Mat.get (if Mat.get s.isMod g.nMN m n = true then Mat.clear s.isMod g.nMN m n else s.isMod) g.nMN x k = _
      split
      · simp [Mat.get_clear, hx]
      · rfl
    · intro k _; rfl
  · apply rowEq_of_mats
    · intro k; rfl
    · intro k
      exact Mat.get_set_other _ _ _ _ _ _ hx
    · intro k; rfl
    · intro k _; rfl

theorem bindMod_other (g : Graph) (s : State) (m n t x : Nat) (hb : g.modBindable n t = true) (hx : x ≠ m) :
    RowEq g s (s.bindMod g m n t) x := by
  unfold Graph.modBindable at hb
  simp only [Bool.and_eq_true, decide_eq_true_eq] at hb
  obtain ⟨⟨hn1, hn2⟩, ht⟩ := hb
  apply rowEq_of_mats
  · intro k; simp [State.bindMod, Mat.get_set _ _ _ _ _ _ hn2, hx]
  · intro k; rfl
  · intro k; simp [State.bindMod, Mat.get_set _ _ _ _ _ _ hn1, hx]
  · intro k hk
    show Mat.row _ valBits (x * g.nMN + k) = Mat.row s.vals valBits (x * g.nMN + k)
    exact field_write_other s.vals (m * g.nMN + n) (x * g.nMN + k) t ht (fidx_ne g hn1 hk hx)

theorem bindObjs_other (g : Graph) (s : State) (m x : Nat) (a b : List Name) (hx : x ≠ m) :
    RowEq g s (s.bindObjs g m a b) x := by
  apply rowEq_of_mats
  · intro k; simp [State.bindObjs, Mat.get_orRow, hx]
  · intro k; simp [State.bindObjs, Mat.get_orRow, hx]
  · intro k; simp [State.bindObjs, Mat.get_clearMask, hx]
  · intro k _; rfl

theorem unbind_other (g : Graph) (s : State) (m n x : Nat) (hx : x ≠ m) : RowEq g s (s.unbind g m n) x := by
  unfold State.unbind
  split
  · apply rowEq_of_mats
    · intro k; simp [Mat.get_clear, hx]
    · intro k; rfl
    · intro k
      show Mat.get (if Mat.get s.isMod g.nMN m n = true then Mat.clear s.isMod g.nMN m n else s.isMod) g.nMN x k = _
      split
      · simp [Mat.get_clear, hx]
      · rfl
    · intro k _; rfl
  · apply rowEq_of_mats
    · intro k; rfl
    · intro k; simp [Mat.get_clear, hx]
    · intro k; rfl
    · intro k _; rfl

theorem remove_other (g : Graph) (s : State) (m x : Nat) (hx : x ≠ m) : RowEq g s (s.remove g m) x := by
  apply rowEq_of_mats
  · intro k; simp [State.remove, Mat.get_clearRow, hx]
  · intro k; simp [State.remove, Mat.get_clearRow, hx]
  · intro k; simp [State.remove, Mat.get_clearRow, hx]
  · intro k _; rfl

theorem enter_other (g : Graph) (s : State) (m x : Nat) : RowEq g s (s.enter m) x := RowEq.refl g s x
theorem finish_other (g : Graph) (s : State) (m x : Nat) : RowEq g s (s.finish m) x := RowEq.refl g s x

end Ioflo.Imports

namespace Ioflo.Imports

/-- the cell just written by `bindMod` -/
theorem bindMod_same (g : Graph) (s : State) (m n t : Nat) (hb : g.modBindable n t = true) :
    (s.bindMod g m n t).val g m n = some (.mod t) := by
  unfold Graph.modBindable at hb
  simp only [Bool.and_eq_true, decide_eq_true_eq] at hb
  obtain ⟨⟨hn1, hn2⟩, ht⟩ := hb
  have hbound : (s.bindMod g m n t).bound g m n = true := by
    simp [State.bound, State.bindMod, hn2, Mat.get_set _ _ _ _ _ _ hn2]
  have hmod : Mat.get (s.bindMod g m n t).isMod g.nMN m n = true := by
    simp [State.bindMod, Mat.get_set _ _ _ _ _ _ hn1]
  have hf : (s.bindMod g m n t).field g m n = t := by
    show Mat.row _ valBits (m * g.nMN + n) = t
    exact field_write_same s.vals (m * g.nMN + n) t ht
  simp [State.val, hbound, hmod, hf]

theorem copyVals_other (g : Graph) (t cur x : Mod) (hx : x ≠ cur) :
    ∀ (f : Nat) (s : State) (mask : Nat), mask < 2 ^ g.nMN → RowEq g s (copyVals g t cur f s mask) x
  | 0, s, _, _ => RowEq.refl g s x
  | f + 1, s, mask, hm => by
    unfold copyVals
    split
    · exact RowEq.refl g s x
    · rename_i h0
      dsimp only
      have hlog : mask.log2 < g.nMN := (Nat.log2_lt h0).mpr hm
      have hmask' : mask ^^^ (1 <<< mask.log2) < 2 ^ g.nMN := by
        apply Nat.xor_lt_two_pow hm
        rw [Nat.one_shiftLeft]
        exact Nat.pow_lt_pow_right (by decide) hlog
      refine RowEq.trans ?_ (copyVals_other g t cur x hx f _ _ hmask')
      apply rowEq_of_mats
      · intro k; rfl
      · intro k; rfl
      · intro k; rfl
      · intro k hk
        show Mat.row _ valBits (x * g.nMN + k) = Mat.row s.vals valBits (x * g.nMN + k)
        exact field_write_other s.vals (cur * g.nMN + mask.log2) (x * g.nMN + k) _
          (Mat.row_lt _ _ _) (fidx_ne g hlog hk hx)

theorem copyPublic_other (g : Graph) (cur t x : Mod) (s : State) (hx : x ≠ cur) :
    RowEq g s (copyPublic g cur t s) x := by
  unfold copyPublic
  dsimp only
  refine RowEq.trans ?_ (copyVals_other g t cur x hx g.nMN _ _ ?_)
  · apply rowEq_of_mats
    · intro k; simp [Mat.get_orRow, hx]
    · intro k; simp [Mat.get_orRow, hx]
    · intro k; simp [Mat.get_orRow, Mat.get_clearMask, hx]
    · intro k _; rfl
  · exact Nat.lt_of_le_of_lt Nat.and_le_left (Mat.row_lt _ _ _)

/-! ### `done` bits -/

@[simp] theorem bindObj_done (g : Graph) (s : State) (m n : Nat) : (s.bindObj g m n).done = s.done := by
  unfold State.bindObj; split <;> rfl
@[simp] theorem bindMod_done (g : Graph) (s : State) (m n t : Nat) : (s.bindMod g m n t).done = s.done := rfl
@[simp] theorem bindObjs_done (g : Graph) (s : State) (m : Nat) (a b : List Name) :
    (s.bindObjs g m a b).done = s.done := rfl
@[simp] theorem unbind_done (g : Graph) (s : State) (m n : Nat) : (s.unbind g m n).done = s.done := by
  unfold State.unbind; split <;> rfl
@[simp] theorem enter_done (s : State) (m : Nat) : (s.enter m).done = s.done := rfl

theorem copyVals_done (g : Graph) (t cur : Mod) :
    ∀ (f : Nat) (s : State) (mask : Nat), (copyVals g t cur f s mask).done = s.done
  | 0, _, _ => rfl
  | f + 1, s, mask => by
    unfold copyVals
    split
    · rfl
    · rw [copyVals_done g t cur f]

@[simp] theorem copyPublic_done (g : Graph) (cur t : Mod) (s : State) : (copyPublic g cur t s).done = s.done := by
  unfold copyPublic
  simp only [copyVals_done]

theorem finish_isDone (s : State) (m x : Mod) : (s.finish m).isDone x = (s.isDone x || decide (x = m)) := by
  simp only [State.isDone, State.finish, Nat.testBit_or, Nat.one_shiftLeft, Nat.testBit_two_pow]
  by_cases h : m = x
  · simp [h]
  · have : ¬ x = m := fun e => h e.symm
    simp [h, this]

theorem remove_isDone (g : Graph) (s : State) (m x : Mod) (hx : x ≠ m) :
    (s.remove g m).isDone x = s.isDone x := by
  simp only [State.isDone, State.remove]
  split
  · rw [Nat.testBit_xor, Nat.one_shiftLeft, Nat.testBit_two_pow]
    have : decide (m = x) = false := by simp [Ne.symm hx]
    simp [this]
  · rfl

end Ioflo.Imports

namespace Ioflo.Imports

/-- `bindMod` on cell (m, n): the other cells of row m -/
theorem bindMod_samerow (g : Graph) (s : State) (m n t k : Nat) (hb : g.modBindable n t = true) (hk : k ≠ n) :
    (s.bindMod g m n t).bound g m k = s.bound g m k ∧ (s.bindMod g m n t).val g m k = s.val g m k := by
  unfold Graph.modBindable at hb
  simp only [Bool.and_eq_true, decide_eq_true_eq] at hb
  obtain ⟨⟨hn1, hn2⟩, ht⟩ := hb
  have hlo : Mat.get (s.bindMod g m n t).lo g.nRel m k = Mat.get s.lo g.nRel m k := by
    simp [State.bindMod, Mat.get_set _ _ _ _ _ _ hn2, hk]
  have hb' : (s.bindMod g m n t).bound g m k = s.bound g m k :=
    bound_of_lo_hi g s _ m k hlo rfl
  have hmod : Mat.get (s.bindMod g m n t).isMod g.nMN m k = Mat.get s.isMod g.nMN m k := by
    simp [State.bindMod, Mat.get_set _ _ _ _ _ _ hn1, hk]
  refine ⟨hb', val_congr g s _ m k hb' hmod ?_⟩
  intro h
  have hk' : k < g.nMN := by
    unfold Mat.get at h
    simp only [Bool.and_eq_true, decide_eq_true_eq] at h
    exact h.1
  show Mat.row _ valBits (m * g.nMN + k) = Mat.row s.vals valBits (m * g.nMN + k)
  apply field_write_other s.vals (m * g.nMN + n) (m * g.nMN + k) t ht
  intro e
  exact hk (Nat.add_left_cancel e)

end Ioflo.Imports
