import IofloModel.Model.Imports
/-!
Helper definitions and the sharing lemma for the C01 table (generic, any graph).  Kept small and stable: the
eight chunk files of the table import only this file and the generated graph.

`findAndLoad_via`: importing a dotted name whose top-level package `r` is absent first imports `r`
(yielding `s1`) and then behaves exactly like the same import started in `s1`.  This is what lets the
table theorem share the (expensive) cold import of the root package between all modules.
-/
namespace Ioflo.Imports

def okB (r : Res) : Bool := r.2.isNone

/-- in `s`, along the chain (module :: ancestors), a present module has a present parent -/
def upClosed (s : State) : List Mod → Bool
  | x :: p :: rest => (!s.isPresent x || s.isPresent p) && upClosed s (p :: rest)
  | _ => true

/-- the chain ends in `r` -/
def endsIn (r : Mod) : List Mod → Bool
  | [] => false
  | [x] => x == r
  | _ :: rest => endsIn r rest

theorem findAndLoad_present (g : Graph) (run : State → Mod → List Ev → Res) (cur line : Nat)
    (s : State) (m : Mod) (anc : List Mod) (h : s.isPresent m = true) :
    findAndLoad g run cur line s (m :: anc) = (s, none) := by
  simp [findAndLoad, h]

theorem findAndLoad_via (g : Graph) (run : State → Mod → List Ev → Res) (cur line : Nat)
    (s s1 : State) (r : Mod)
    (hroot : findAndLoad g run cur line s [r] = (s1, none)) (hr : s1.isPresent r = true) :
    ∀ c : List Mod, endsIn r c = true → (c.all fun x => !s.isPresent x) = true → upClosed s1 c = true →
      findAndLoad g run cur line s c = findAndLoad g run cur line s1 c
  | [], h, _, _ => by simp [endsIn] at h
  | [x], h, _, _ => by
    have hx : x = r := by simpa [endsIn] using h
    subst hx
    rw [hroot, findAndLoad_present g run cur line s1 x [] hr]
  | m :: p :: rest, h, habs, hup => by
    have hend : endsIn r (p :: rest) = true := by simpa [endsIn] using h
    have habs' : ((p :: rest).all fun x => !s.isPresent x) = true := by
      simp only [List.all_cons, Bool.and_eq_true] at habs ⊢
      exact habs.2
    have hm : s.isPresent m = false := by
      simp only [List.all_cons, Bool.and_eq_true, Bool.not_eq_true'] at habs
      exact habs.1
    have hp : s.isPresent p = false := by
      simp only [List.all_cons, Bool.and_eq_true, Bool.not_eq_true'] at habs
      exact habs.2.1
    have hup' : upClosed s1 (p :: rest) = true := by
      simp only [upClosed, Bool.and_eq_true] at hup
      exact hup.2
    have hmp : s1.isPresent m = true → s1.isPresent p = true := by
      intro hm1
      simp only [upClosed, Bool.and_eq_true, Bool.or_eq_true, Bool.not_eq_true'] at hup
      rcases hup.1 with h0 | h0
      · rw [hm1] at h0; cases h0
      · exact h0
    have ih := findAndLoad_via g run cur line s s1 r hroot hr (p :: rest) hend habs' hup'
    by_cases hm1 : s1.isPresent m = true
    · -- the root import already brought `m` (and therefore its parent) in
      have hp1 := hmp hm1
      have e1 : findAndLoad g run cur line s1 (p :: rest) = (s1, none) :=
        findAndLoad_present g run cur line s1 p rest hp1
      rw [findAndLoad_present g run cur line s1 m (p :: rest) hm1]
      rw [findAndLoad]
      simp only [hm, hp, Bool.false_eq_true, if_false, ih, e1, hm1, if_true]
    · have hm1' : s1.isPresent m = false := by simpa using hm1
      rw [findAndLoad, findAndLoad]
      simp only [hm, hp, hm1', Bool.false_eq_true, if_false, ih]
      by_cases hp1 : s1.isPresent p = true
      · simp only [hp1, if_true, findAndLoad_present g run cur line s1 p rest hp1]
      · have hp1' : s1.isPresent p = false := by simpa using hp1
        simp only [hp1', Bool.false_eq_true, if_false]

/-! ## the shared-root table check -/

/-- decidable side conditions of `findAndLoad_via` for the cold import of `m` through the root package `r` -/
def viaOk (g : Graph) (s0 s1 : State) (r m : Mod) : Bool :=
  endsIn r (g.chain m) && (g.chain m).all (fun x => !s0.isPresent x) && upClosed s1 (g.chain m)

/-- the root package imports cold (giving `s1`), and every module of `ms` outside the region `skip`
imports from `s1`; with the side conditions that make this the same as its own cold import -/
def coldChunkOk (g : Graph) (r : Mod) (skip : Mod → Bool) (ms : List Mod) : Bool :=
  match importChain g (fresh g) [r] with
  | (s1, none) =>
    s1.isPresent r && ms.all (fun m => viaOk g (fresh g) s1 r m && (skip m || okB (importChain g s1 (g.chain m))))
  | _ => false

end Ioflo.Imports
