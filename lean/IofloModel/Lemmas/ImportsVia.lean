import IofloModel.Model.Imports
/-!
Helper definitions and the sharing lemma for the C01 table (generic, any graph).  Kept small and stable: the
eight chunk files of the table import only this file and the generated graph.

`findAndLoad_via`: importing a dotted name whose top-level package `r` is absent first imports `r`
(yielding `s1`) and then behaves exactly like the same import started in `s1`.  This is what lets the
table theorem share the (expensive) cold import of the root package between all modules.
-/
namespace Ioflo.Imports

def okB (r : Res) : Bool := r.2.isNone

/-- in `s`, along the chain (module :: ancestors), a present module has a present parent -/
def upClosed (s : State) : List Mod → Bool
  | x :: p :: rest => (!s.isPresent x || s.isPresent p) && upClosed s (p :: rest)
  | _ => true

/-- the chain ends in `r` -/
def endsIn (r : Mod) : List Mod → Bool
  | [] => false
  | [x] => x == r
  | _ :: rest => endsIn r rest

theorem findAndLoad_present (g : Graph) (run : State → Mod → List Ev → Res) (cur line : Nat)
    (s : State) (m : Mod) (anc : List Mod) (h : s.isPresent m = true) :
    findAndLoad g run cur line s (m :: anc) = (s, none) := by
  simp [findAndLoad, h]

theorem findAndLoad_via (g : Graph) (run : State → Mod → List Ev → Res) (cur line : Nat)
    (s s1 : State) (r : Mod)
    (hroot : findAndLoad g run cur line s [r] = (s1, none)) (hr : s1.isPresent r = true) :
    ∀ c : List Mod, endsIn r c = true → (c.all fun x => !s.isPresent x) = true → upClosed s1 c = true →
      findAndLoad g run cur line s c = findAndLoad g run cur line s1 c
  | [], h, _, _ => by simp [endsIn] at h
  | [x], h, _, _ => by
    have hx : x = r := by simpa [endsIn] using h
    subst hx
    rw [hroot, findAndLoad_present g run cur line s1 x [] hr]
  | m :: p :: rest, h, habs, hup => by
    have hend : endsIn r (p :: rest) = true := by simpa [endsIn] using h
    have habs' : ((p :: rest).all fun x => !s.isPresent x) = true := by
      simp only [List.all_cons, Bool.and_eq_true] at habs ⊢
      exact habs.2
    have hm : s.isPresent m = false := by
      simp only [List.all_cons, Bool.and_eq_true, Bool.not_eq_true'] at habs
      exact habs.1
    have hp : s.isPresent p = false := by
      simp only [List.all_cons, Bool.and_eq_true, Bool.not_eq_true'] at habs
      exact habs.2.1
    have hup' : upClosed s1 (p :: rest) = true := by
      simp only [upClosed, Bool.and_eq_true] at hup
      exact hup.2
    have hmp : s1.isPresent m = true → s1.isPresent p = true := by
      intro hm1
      simp only [upClosed, Bool.and_eq_true, Bool.or_eq_true, Bool.not_eq_true'] at hup
      rcases hup.1 with h0 | h0
      · rw [hm1] at h0; cases h0
      · exact h0
    have ih := findAndLoad_via g run cur line s s1 r hroot hr (p :: rest) hend habs' hup'
    by_cases hm1 : s1.isPresent m = true
    · -- the root import already brought `m` (and therefore its parent) in
      have hp1 := hmp hm1
      have e1 : findAndLoad g run cur line s1 (p :: rest) = (s1, none) :=
        findAndLoad_present g run cur line s1 p rest hp1
      rw [findAndLoad_present g run cur line s1 m (p :: rest) hm1]
      rw [findAndLoad]
      simp only [hm, hp, Bool.false_eq_true, if_false, ih, e1, hm1, if_true]
    · have hm1' : s1.isPresent m = false := by simpa using hm1
      rw [findAndLoad, findAndLoad]
      simp only [hm, hp, hm1', Bool.false_eq_true, if_false, ih]
      by_cases hp1 : s1.isPresent p = true
      · simp only [hp1, if_true, findAndLoad_present g run cur line s1 p rest hp1]
      · have hp1' : s1.isPresent p = false := by simpa using hp1
        simp only [hp1', Bool.false_eq_true, if_false]

/-! ## the shared-root table check -/

/-- decidable side conditions of `findAndLoad_via` for the cold import of `m` through the root package `r` -/
def viaOk (g : Graph) (s0 s1 : State) (r m : Mod) : Bool :=
  endsIn r (g.chain m) && (g.chain m).all (fun x => !s0.isPresent x) && upClosed s1 (g.chain m)

/-- the root package imports cold (giving `s1`), and every module of `ms` outside the region `skip`
imports from `s1`; with the side conditions that make this the same as its own cold import -/
def coldChunkOk (g : Graph) (r : Mod) (skip : Mod → Bool) (ms : List Mod) : Bool :=
  match importChain g (fresh g) [r] with
  | (s1, none) =>
    s1.isPresent r && ms.all (fun m => viaOk g (fresh g) s1 r m && (skip m || okB (importChain g s1 (g.chain m))))
  | _ => false

/-! ## pairs: a second import after a first one -/

/-- for every `(a, ms)` of `pairs` with `a` outside `skip` and not already loaded by the root package: `a` imports
from `s1`, and from the resulting state every `m ∈ ms` outside `skip` imports -/
def pairsOk (g : Graph) (s1 : State) (skip : Mod → Bool) (pairs : List (Mod × List Mod)) : Bool :=
  pairs.all (fun p => skip p.1 || s1.isPresent p.1 ||
    match importChain g s1 (g.chain p.1) with
    | (sa, none) => p.2.all (fun m => skip m || okB (importChain g sa (g.chain m)))
    | _ => false)

/-- `coldChunkOk` and `pairsOk` with one shared cold import of the root package -/
def chunkOk (g : Graph) (r : Mod) (skip : Mod → Bool) (ms : List Mod) (pairs : List (Mod × List Mod)) : Bool :=
  match importChain g (fresh g) [r] with
  | (s1, none) =>
    (s1.isPresent r && ms.all (fun m => viaOk g (fresh g) s1 r m && (skip m || okB (importChain g s1 (g.chain m)))))
      && pairsOk g s1 skip pairs
  | _ => false

theorem cold_of_chunkOk (g : Graph) (r : Mod) (skip : Mod → Bool) (ms : List Mod) (pairs : List (Mod × List Mod))
    (h : chunkOk g r skip ms pairs = true) : coldChunkOk g r skip ms = true := by
  unfold chunkOk at h
  unfold coldChunkOk
  split at h
  · rename_i s1 heq
    rw [Bool.and_eq_true] at h
    exact h.1
  · cases h

theorem pairs_of_chunkOk (g : Graph) (r : Mod) (skip : Mod → Bool) (ms : List Mod) (pairs : List (Mod × List Mod))
    (h : chunkOk g r skip ms pairs = true) :
    ∀ p ∈ pairs, skip p.1 = false → (importChain g (fresh g) [r]).1.isPresent p.1 = false →
      (importChain g (importChain g (fresh g) [r]).1 (g.chain p.1)).2 = none ∧
      ∀ m ∈ p.2, skip m = false →
        (importChain g (importChain g (importChain g (fresh g) [r]).1 (g.chain p.1)).1 (g.chain m)).2 = none := by
  unfold chunkOk at h
  split at h
  · rename_i s1 heq
    simp only [Bool.and_eq_true] at h
    have hp := h.2
    unfold pairsOk at hp
    simp only [List.all_eq_true] at hp
    intro p hpm hsk hpr
    rw [heq] at hpr ⊢
    have := hp p hpm
    simp only [hsk, Bool.false_or, Bool.or_eq_true] at this
    rcases this with habs | hload
    · simp only at hpr; rw [hpr] at habs; cases habs
    · split at hload
      · rename_i sa heqa
        simp only at heqa ⊢
        rw [heqa]
        refine ⟨rfl, ?_⟩
        intro m hm hskm
        simp only [List.all_eq_true] at hload
        have := hload m hm
        simpa [hskm, okB] using this
      · cases hload
  · cases h

/-! ## a whole sequence in one interpreter -/

/-- the root package imports cold, and then every import of the sequence succeeds -/
def sweepOk (g : Graph) (r : Mod) (ms : List Mod) : Bool :=
  match importChain g (fresh g) [r] with
  | (s1, none) => (importAll g s1 ms).2.all (·.isNone)
  | _ => false

theorem all_of_sweepOk (g : Graph) (r : Mod) (ms : List Mod) (h : sweepOk g r ms = true) :
    ∀ e ∈ (importAll g (importChain g (fresh g) [r]).1 ms).2, e = none := by
  unfold sweepOk at h
  split at h
  · rename_i s1 heq
    rw [heq]
    simp only [List.all_eq_true] at h
    intro e he
    have := h e he
    cases e with
    | none => rfl
    | some _ => simp at this
  · cases h

/-! ## two sequences ending in the same state -/

/-- the observable part of two states is identical: the same modules loaded and finished, the same names bound in
every module, bound to the same modules -/
def sameNs (a b : State) : Bool :=
  a.present == b.present && a.done == b.done && a.lo == b.lo && a.hi == b.hi && a.isMod == b.isMod && a.vals == b.vals

/-- after the cold import of the root package: every import of `ms'` succeeds, and importing `ms` and importing `ms'`
end in the same state -/
def sweepsAgree (g : Graph) (r : Mod) (ms ms' : List Mod) : Bool :=
  match importChain g (fresh g) [r] with
  | (s1, none) => (importAll g s1 ms').2.all (·.isNone) && sameNs (importAll g s1 ms).1 (importAll g s1 ms').1
  | _ => false

theorem sameNs_val (g : Graph) (a b : State) (h : sameNs a b = true) :
    (∀ x, a.isPresent x = b.isPresent x) ∧ (∀ x, a.isDone x = b.isDone x) ∧
    (∀ x k, a.bound g x k = b.bound g x k) ∧ (∀ x k, a.val g x k = b.val g x k) := by
  unfold sameNs at h
  simp only [Bool.and_eq_true, beq_iff_eq] at h
  obtain ⟨⟨⟨⟨⟨h1, h2⟩, h3⟩, h4⟩, h5⟩, h6⟩ := h
  refine ⟨fun x => by simp [State.isPresent, h1], fun x => by simp [State.isDone, h2],
    fun x k => by simp [State.bound, h3, h4], fun x k => by simp [State.val, State.bound, State.field, h3, h4, h5, h6]⟩

theorem of_sweepsAgree (g : Graph) (r : Mod) (ms ms' : List Mod) (h : sweepsAgree g r ms ms' = true) :
    (∀ e ∈ (importAll g (importChain g (fresh g) [r]).1 ms').2, e = none) ∧
    sameNs (importAll g (importChain g (fresh g) [r]).1 ms).1 (importAll g (importChain g (fresh g) [r]).1 ms').1 = true := by
  unfold sweepsAgree at h
  split at h
  · rename_i s1 heq
    rw [heq]
    simp only [Bool.and_eq_true, List.all_eq_true] at h
    refine ⟨?_, h.2⟩
    intro e he
    have := h.1 e he
    cases e with
    | none => rfl
    | some _ => simp at this
  · cases h

/-! ## optional third-party modules

A module of the tree that does `try: import X … except …:` must import whatever the host's `X` does: be absent,
import fine, raise ImportError (installed but broken), or raise ModuleNotFoundError for one of its own dependencies.
`Graph.withOpt g x k` is the same tree on such a host. -/

/-- the host variants that make sense for `x`: when the measured interpreter has `x` (it then imports fine as
measured) there is no separate "stub" variant -/
def optKinds (g : Graph) (x : Mod) : List OptKind :=
  match g.baseNode? x with
  | some nd => if nd.exists_ then [.absent, .importError, .notFoundOther]
               else [.absent, .stub, .importError, .notFoundOther]
  | none => [.absent, .stub, .importError, .notFoundOther]

/-- on every host variant of `p.1`, every module of `p.2` outside `skip` imports cold -/
def optOk (g : Graph) (r : Mod) (skip : Mod → Bool) (p : Mod × List Mod) : Bool :=
  (optKinds g p.1).all (fun k => coldChunkOk (g.withOpt p.1 k) r skip p.2)

end Ioflo.Imports
