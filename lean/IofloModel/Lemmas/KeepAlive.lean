import IofloModel.Model.KeepAlive
/-!
Helper lemmas for C31 (keep-alive model).
-/
namespace Ioflo.KeepAlive

/-- a responder that has not written its head yet will write a delimiting one -/
def WillFrame (r : Responder) : Prop := r.length.isSome = true ∨ r.chunkable = true

theorem write_heads (r : Responder) (tag : Tag) (msg : Bytes) :
    (r.headed = true → (r.write tag msg).2.2 = [])
    ∧ (r.headed = false → WillFrame r → ∀ f ∈ (r.write tag msg).2.2, f ≠ Framing.untilClose)
    ∧ (r.write tag msg).1.headed = true := by
  unfold Responder.write WillFrame
  cases hh : r.headed <;> cases hl : r.length <;> cases hc : r.chunkable <;> cases hk : r.chunked <;>
    simp_all <;> (try split) <;> simp_all

theorem start_willFrame (r : Responder) (cl : Option Nat) (h : r.chunkable = true) : WillFrame (r.start cl) := by
  unfold Responder.start WillFrame
  cases cl <;> simp [h]

theorem start_headed (r : Responder) (cl : Option Nat) : (r.start cl).headed = r.headed := by
  unfold Responder.start; cases cl <;> rfl

/-- `serviceOnce`: heads written are delimiting; afterwards either headed or still able to frame -/
theorem serviceOnce_heads (r : Responder) (tag : Tag) (script : List Bytes) (h : r.headed = false → WillFrame r) :
    (∀ f ∈ (r.serviceOnce tag script).2.2.2, f ≠ Framing.untilClose)
    ∧ ((r.serviceOnce tag script).1.headed = false → WillFrame (r.serviceOnce tag script).1) := by
  cases script with
  | nil =>
    simp only [Responder.serviceOnce]
    have hw := write_heads r tag []
    constructor
    · intro f hf
      cases hh : r.headed with
      | true => rw [hw.1 hh] at hf; simp at hf
      | false => exact hw.2.1 hh (h hh) f hf
    · intro hn; simp [hw.2.2] at hn
  | cons p ps =>
    simp only [Responder.serviceOnce]
    split
    · exact ⟨by simp, h⟩
    · have hw := write_heads r tag p
      constructor
      · intro f hf
        cases hh : r.headed with
        | true => rw [hw.1 hh] at hf; simp at hf
        | false => exact hw.2.1 hh (h hh) f hf
      · intro hn; simp [hw.2.2] at hn

/-- continuing the parser with more items -/
def Outcome.andThen (o : Outcome) (b : List Item) : Outcome :=
  match o with
  | .more cur => feed cur b
  | .done t body rest => .done t body (rest ++ b)
  | .stuck => .stuck

/-- the parser does not care how the items arrive: parsing `a ++ b` is parsing `a`, then `b` -/
theorem feed_append (a b : List Item) : ∀ cur, feed cur (a ++ b) = (feed cur a).andThen b := by
  induction a with
  | nil => intro cur; simp [feed, Outcome.andThen]
  | cons x xs ih =>
    intro cur
    match cur, x with
    | none, Item.head t f =>
      simp only [List.cons_append, feed]
      cases he : effective f t.2 with
      | length n =>
        cases n with
        | zero => simp [Outcome.andThen]
        | succ m => simp only []; exact ih _
      | chunked => simp only []; exact ih _
      | untilClose => simp only []; exact ih _
    | none, Item.data _ => simp [feed, Outcome.andThen]
    | none, Item.term => simp [feed, Outcome.andThen]
    | some (t, .length n, acc), Item.data d =>
      simp only [List.cons_append, feed]
      split
      · simp only [Outcome.andThen]
        split <;> simp
      · exact ih _
    | some (t, .length n, acc), Item.head _ _ => simp [feed, Outcome.andThen]
    | some (t, .length n, acc), Item.term => simp [feed, Outcome.andThen]
    | some (t, .chunked, acc), Item.data d => simp only [List.cons_append, feed]; exact ih _
    | some (t, .chunked, acc), Item.term => simp [feed, Outcome.andThen]
    | some (t, .chunked, acc), Item.head _ _ => simp [feed, Outcome.andThen]
    | some (t, .untilClose, acc), Item.data d => simp only [List.cons_append, feed]; exact ih _
    | some (t, .untilClose, acc), Item.term => simp only [List.cons_append, feed]; exact ih _
    | some (t, .untilClose, acc), Item.head _ _ => simp only [List.cons_append, feed]; exact ih _


/-- everything a started responder will still queue while the application runs through `script` -/
def futureFrom (r : Responder) (tag : Tag) : List Bytes → List Item
  | [] => (r.serviceOnce tag []).2.2.1
  | p :: ps =>
    (r.serviceOnce tag (p :: ps)).2.2.1 ++
      (if (r.serviceOnce tag (p :: ps)).1.ended then [] else futureFrom (r.serviceOnce tag (p :: ps)).1 tag ps)

/-- the framing a responder announces in its head -/
def framingOf (r : Responder) : Framing :=
  match r.length with
  | some n => .length n
  | none => if r.chunkable then .chunked else .untilClose

/-- the responder once its head is written -/
def headedOf (r : Responder) : Responder := { r with headed := true, chunked := r.chunked || r.chunkable }

theorem write_unheaded (r : Responder) (tag : Tag) (msg : Bytes) (h : r.headed = false) :
    (r.write tag msg).1 = ((headedOf r).write tag msg).1
    ∧ (r.write tag msg).2.1 = Item.head tag (framingOf r) :: ((headedOf r).write tag msg).2.1 := by
  unfold Responder.write headedOf framingOf
  simp only [h]
  cases r.length <;> cases r.chunkable <;> cases r.chunked <;> simp <;> (try split) <;> (try simp) <;> (split <;> simp)

theorem serviceOnce_unheaded (r : Responder) (tag : Tag) (script : List Bytes) (h : r.headed = false)
    (hne : ∀ p ps, script = p :: ps → p ≠ []) :
    (r.serviceOnce tag script).1 = ((headedOf r).serviceOnce tag script).1
    ∧ (r.serviceOnce tag script).2.2.1 = Item.head tag (framingOf r) :: ((headedOf r).serviceOnce tag script).2.2.1 := by
  cases script with
  | nil =>
    have := write_unheaded r tag [] h
    simp only [Responder.serviceOnce, this.1, this.2]
    trivial
  | cons p ps =>
    have hp : p.isEmpty = false := by
      have := hne p ps rfl
      cases p <;> simp_all
    have := write_unheaded r tag p h
    simp only [Responder.serviceOnce, hp, Bool.false_eq_true, if_false, this.1, this.2]
    trivial

/-- an unheaded responder queues its head first, then what the headed one would queue -/
theorem futureFrom_unheaded (tag : Tag) (script : List Bytes) : ∀ (r : Responder), r.headed = false → r.ended = false →
    futureFrom r tag script = Item.head tag (framingOf r) :: futureFrom (headedOf r) tag script := by
  induction script with
  | nil =>
    intro r h _
    have := serviceOnce_unheaded r tag [] h (by intro p ps e; cases e)
    simp only [futureFrom, this.2]
  | cons p ps ih =>
    intro r h he
    by_cases hp : p = []
    · subst hp
      have e1 : r.serviceOnce tag ([] :: ps) = (r, ps, [], []) := by simp [Responder.serviceOnce]
      have e2 : (headedOf r).serviceOnce tag ([] :: ps) = (headedOf r, ps, [], []) := by simp [Responder.serviceOnce]
      have he' : (headedOf r).ended = false := by simpa [headedOf] using he
      simp only [futureFrom, e1, e2, he, he', List.nil_append, Bool.false_eq_true, if_false]
      exact ih r h he
    · have := serviceOnce_unheaded r tag (p :: ps) h (by intro p' ps' e; cases e; exact hp)
      simp only [futureFrom, this.1, this.2, List.cons_append]


theorem write_chunked (r : Responder) (tag : Tag) (msg : Bytes) (hh : r.headed = true) (hc : r.chunked = true) :
    r.write tag msg = (r, [if msg.isEmpty then Item.term else Item.data msg], []) := by
  unfold Responder.write
  simp [hh, hc]

/-- chunked mode, head already written: the remaining yields arrive as data items, then the terminator -/
theorem feed_future_chunked (t : Nat) (tag : Tag) (ps : List Bytes) : ∀ (r : Responder) (acc : Bytes),
    r.headed = true → r.chunked = true → r.length = none → r.ended = false →
    feed (some (t, .chunked, acc)) (futureFrom r tag ps) = .done t (acc ++ ps.flatten) [] := by
  induction ps with
  | nil =>
    intro r acc hh hc _ _
    simp [futureFrom, Responder.serviceOnce, write_chunked r tag [] hh hc, feed]
  | cons p ps ih =>
    intro r acc hh hc hl he
    by_cases hp : p = []
    · subst hp
      have e1 : r.serviceOnce tag ([] :: ps) = (r, ps, [], []) := by simp [Responder.serviceOnce]
      simp only [futureFrom, e1, he, List.nil_append, Bool.false_eq_true, if_false]
      simpa using ih r acc hh hc hl he
    · have hpe : p.isEmpty = false := by cases p <;> simp_all
      have e1 : r.serviceOnce tag (p :: ps) = ({ r with ended := false }, ps, [Item.data p], []) := by
        simp [Responder.serviceOnce, hpe, write_chunked r tag p hh hc, hl, he]
      simp only [futureFrom, e1, Bool.false_eq_true, if_false, List.singleton_append, feed]
      have := ih { r with ended := false } (acc ++ p) hh hc hl rfl
      simpa using this

theorem write_length (r : Responder) (tag : Tag) (msg : Bytes) (L : Nat) (hh : r.headed = true) (hc : r.chunked = false)
    (hl : r.length = some L) (hs : r.size ≤ L) :
    r.write tag msg = ({ r with size := r.size + (msg.take (L - r.size)).length },
                       (if (msg.take (L - r.size)).isEmpty then [] else [Item.data (msg.take (L - r.size))]), []) := by
  unfold Responder.write
  simp only [hh, hc, hl, if_true, Bool.false_eq_true, if_false, List.nil_append]
  by_cases hgt : r.size + msg.length > L
  · have e : msg.length - (r.size + msg.length - L) = L - r.size := by omega
    simp only [hgt, if_true, e]
  · have e : msg.take (L - r.size) = msg := by
      apply List.take_of_length_le; omega
    simp only [hgt, if_false, e]

/-- Content-Length mode, head already written: the client gets exactly the first `L` bytes -/
theorem feed_future_length (t : Nat) (tag : Tag) (L : Nat) (ps : List Bytes) : ∀ (r : Responder) (acc : Bytes),
    r.headed = true → r.chunked = false → r.length = some L → r.ended = false →
    r.size = acc.length → acc.length < L → L ≤ acc.length + ps.flatten.length →
    feed (some (t, .length L, acc)) (futureFrom r tag ps) = .done t ((acc ++ ps.flatten).take L) [] := by
  induction ps with
  | nil => intro r acc _ _ _ _ _ h1 h2; simp at h2; omega
  | cons p ps ih =>
    intro r acc hh hc hl he hsz hlt hle
    by_cases hp : p = []
    · subst hp
      have e1 : r.serviceOnce tag ([] :: ps) = (r, ps, [], []) := by simp [Responder.serviceOnce]
      simp only [futureFrom, e1, he, List.nil_append, Bool.false_eq_true, if_false]
      simpa using ih r acc hh hc hl he hsz hlt (by simpa using hle)
    · have hpe : p.isEmpty = false := by cases p <;> simp_all
      have hplen : 0 < p.length := by cases p <;> simp_all
      have hw := write_length r tag p L hh hc hl (by omega)
      have hmsg : (p.take (L - r.size)).isEmpty = false := by
        have : 0 < (p.take (L - r.size)).length := by rw [List.length_take]; omega
        cases h : p.take (L - r.size) with
        | nil => rw [h] at this; simp at this
        | cons _ _ => rfl
      by_cases hfin : L ≤ r.size + p.length
      · -- this write completes the body: the responder ends
        have hlen : (p.take (L - r.size)).length = L - r.size := by rw [List.length_take]; omega
        have e1 : (r.serviceOnce tag (p :: ps)).2.2.1 = [Item.data (p.take (L - r.size))]
            ∧ (r.serviceOnce tag (p :: ps)).1.ended = true := by
          simp only [Responder.serviceOnce, hpe, Bool.false_eq_true, if_false, hw, hmsg, hl, hlen]
          refine ⟨trivial, ?_⟩
          simp; omega
        simp only [futureFrom, e1.1, e1.2, if_true, List.append_nil, feed]
        have hacc : (acc ++ p.take (L - r.size)).length = L := by rw [List.length_append, hlen]; omega
        have hge : (acc ++ p.take (L - r.size)).length ≥ L := by omega
        simp only [hge, if_true]
        have hdrop : ((acc ++ p.take (L - r.size)).drop L) = [] := by
          apply List.drop_of_length_le; omega
        have htake : (acc ++ p.take (L - r.size)).take L = (acc ++ (p :: ps).flatten).take L := by
          rw [List.take_of_length_le (by omega)]
          simp only [List.flatten_cons]
          rw [List.take_append, List.take_append]
          have h1 : acc.take L = acc := List.take_of_length_le (by omega)
          rw [h1, hsz]
          congr 1
          have : L - acc.length - p.length = 0 := by omega
          simp [this]
        simp [hdrop, htake]
      · -- more to come
        have htk : p.take (L - r.size) = p := List.take_of_length_le (by omega)
        have e1 : r.serviceOnce tag (p :: ps) = ({ r with size := r.size + p.length, ended := false }, ps, [Item.data p], []) := by
          simp only [Responder.serviceOnce, hpe, Bool.false_eq_true, if_false, hw, htk, hl, he]
          have : ¬ (r.size + p.length ≥ L) := by omega
          simp [this]
        simp only [futureFrom, e1, Bool.false_eq_true, if_false, List.singleton_append, feed]
        have hnge : ¬ ((acc ++ p).length ≥ L) := by rw [List.length_append]; omega
        simp only [hnge, if_false]
        have := ih { r with size := r.size + p.length, ended := false } (acc ++ p) hh hc hl rfl
          (by simp [hsz]) (by rw [List.length_append]; omega)
          (by simp only [List.flatten_cons, List.length_append] at hle ⊢; omega)
        simpa using this

theorem future_length_zero (tag : Tag) (ps : List Bytes) : ∀ (r : Responder),
    r.headed = true → r.chunked = false → r.length = some 0 → r.size = 0 → r.ended = false →
    futureFrom r tag ps = [] := by
  induction ps with
  | nil =>
    intro r hh hc hl hs _
    simp [futureFrom, Responder.serviceOnce, write_length r tag [] 0 hh hc hl (by omega)]
  | cons p ps ih =>
    intro r hh hc hl hs he
    by_cases hp : p = []
    · subst hp
      have e1 : r.serviceOnce tag ([] :: ps) = (r, ps, [], []) := by simp [Responder.serviceOnce]
      simp only [futureFrom, e1, he, List.nil_append, Bool.false_eq_true, if_false]
      exact ih r hh hc hl hs he
    · have hpe : p.isEmpty = false := by cases p <;> simp_all
      have hw := write_length r tag p 0 hh hc hl (by omega)
      simp [futureFrom, Responder.serviceOnce, hpe, hw, hs, hl]

/-- the body a response is supposed to carry -/
def bodyOf (a : AppResp) : Bytes :=
  match a.cl with
  | none => a.pieces.flatten
  | some L => a.pieces.flatten.take L

/-- the application yields at least as many bytes as the Content-Length it announces -/
def WFApp (a : AppResp) : Prop :=
  match a.cl with
  | none => True
  | some L => L ≤ a.pieces.flatten.length

/-- is the response to request `q` body-less for the client (status 204 / 304, or `q` is a HEAD request)? -/
def bodylessFor (app : Req → AppResp) (q : Req) : Bool := q.head || (app q).bodyless

/-- the tag the server puts on the response to `q` -/
def tagOf (app : Req → AppResp) (q : Req) : Tag := (q.id, bodylessFor app q)

/-- well-formed application behaviour for `q`: a body-less response has no body bytes; any other yields at least
the Content-Length it announces -/
def WFReq (app : Req → AppResp) (q : Req) : Prop :=
  if bodylessFor app q then (app q).pieces.flatten = [] else WFApp (app q)

/-- the body the client is supposed to deliver for `q` -/
def bodyFor (app : Req → AppResp) (q : Req) : Bytes :=
  if bodylessFor app q then [] else bodyOf (app q)

/-- the responder `Valet` hands to the application for an HTTP/1.1 request (new or `reset`) -/
def fresh : Responder := { chunkable := true }

/-- Content-Length mode with nothing to write: after the head nothing more is queued -/
theorem future_length_empty (tag : Tag) (L : Nat) (ps : List Bytes) : ∀ (r : Responder),
    r.headed = true → r.chunked = false → r.length = some L → r.size ≤ L → r.ended = false → ps.flatten = [] →
    futureFrom r tag ps = [] := by
  induction ps with
  | nil =>
    intro r hh hc hl hs _ _
    simp [futureFrom, Responder.serviceOnce, write_length r tag [] L hh hc hl hs]
  | cons p ps ih =>
    intro r hh hc hl hs he hfl
    have hp : p = [] := by
      simp only [List.flatten_cons, List.append_eq_nil_iff] at hfl; exact hfl.1
    subst hp
    have e1 : r.serviceOnce tag ([] :: ps) = (r, ps, [], []) := by simp [Responder.serviceOnce]
    simp only [futureFrom, e1, he, List.nil_append, Bool.false_eq_true, if_false]
    exact ih r hh hc hl hs he (by simpa using hfl)

/-- **the response stream round trip**: everything the responder queues for one request, fed to the client's
parser from its initial state, is exactly one response with the right tag and body, nothing left over -/
theorem stream_roundtrip (tag : Tag) (a : AppResp)
    (h : if tag.2 then a.pieces.flatten = [] else WFApp a) :
    feed none (futureFrom (fresh.start a.cl) tag a.pieces) = .done tag.1 (if tag.2 then [] else bodyOf a) [] := by
  cases hb : tag.2 with
  | false =>
    simp only [hb, Bool.false_eq_true, if_false] at h ⊢
    cases hcl : a.cl with
    | none =>
      rw [futureFrom_unheaded tag a.pieces (fresh.start none) rfl rfl]
      have hf : framingOf (fresh.start none) = .chunked := rfl
      rw [hf]
      simp only [feed, effective, hb, Bool.false_eq_true, if_false]
      have := feed_future_chunked tag.1 tag a.pieces (headedOf (fresh.start none)) [] rfl rfl rfl rfl
      simpa [bodyOf, hcl] using this
    | some L =>
      rw [futureFrom_unheaded tag a.pieces (fresh.start (some L)) rfl rfl]
      have hf : framingOf (fresh.start (some L)) = .length L := rfl
      rw [hf]
      have hwf : L ≤ a.pieces.flatten.length := by simpa [WFApp, hcl] using h
      cases L with
      | zero =>
        simp only [feed, effective, hb, Bool.false_eq_true, if_false]
        rw [future_length_zero tag a.pieces (headedOf (fresh.start (some 0))) rfl rfl rfl rfl rfl]
        simp [bodyOf, hcl]
      | succ m =>
        simp only [feed, effective, hb, Bool.false_eq_true, if_false]
        have := feed_future_length tag.1 tag (m + 1) a.pieces (headedOf (fresh.start (some (m + 1)))) [] rfl rfl rfl rfl rfl
          (by simp) (by simpa using hwf)
        simpa [bodyOf, hcl] using this
  | true =>
    simp only [hb, if_true] at h ⊢
    cases hcl : a.cl with
    | none =>
      rw [futureFrom_unheaded tag a.pieces (fresh.start none) rfl rfl]
      have hf : framingOf (fresh.start none) = .chunked := rfl
      rw [hf]
      simp only [feed, effective, hb, if_true]
      have := feed_future_chunked tag.1 tag a.pieces (headedOf (fresh.start none)) [] rfl rfl rfl rfl
      simpa [h] using this
    | some L =>
      rw [futureFrom_unheaded tag a.pieces (fresh.start (some L)) rfl rfl]
      have hf : framingOf (fresh.start (some L)) = .length L := rfl
      rw [hf]
      simp only [feed, effective, hb, if_true]
      rw [future_length_empty tag L a.pieces (headedOf (fresh.start (some L))) rfl rfl rfl (by simp [headedOf, Responder.start, fresh]) rfl h]

theorem serviceOnce_nil_ended (r : Responder) (tag : Tag) : (r.serviceOnce tag []).1.ended = true := by
  simp [Responder.serviceOnce]

theorem serviceOnce_cons_script (r : Responder) (tag : Tag) (p : Bytes) (ps : List Bytes) :
    (r.serviceOnce tag (p :: ps)).2.1 = ps := by
  simp only [Responder.serviceOnce]; split <;> rfl

theorem serviceOnce_nil_script (r : Responder) (tag : Tag) : (r.serviceOnce tag []).2.1 = [] := by
  simp [Responder.serviceOnce]

/-- one service call queues a prefix of the future; the rest is the future of the new state -/
theorem futureFrom_step (r : Responder) (tag : Tag) (script : List Bytes) :
    futureFrom r tag script = (r.serviceOnce tag script).2.2.1 ++
      (if (r.serviceOnce tag script).1.ended then [] else futureFrom (r.serviceOnce tag script).1 tag (r.serviceOnce tag script).2.1) := by
  cases script with
  | nil => simp [futureFrom, serviceOnce_nil_ended]
  | cons p ps => simp only [futureFrom, serviceOnce_cons_script]

/-- what the server will still queue for the response it is producing -/
def future (s : Server) : List Item :=
  match s.resp with
  | none => []
  | some r => if r.ended then [] else futureFrom (if s.appStarted then r else r.start s.cl) s.tag s.script

theorem rearm_tx (s : Server) : s.rearm.tx = s.tx := by
  unfold Server.rearm; split <;> (try split) <;> rfl

theorem rearm_future (s : Server) : future s.rearm = future s := by
  unfold Server.rearm; split <;> (try split) <;> simp_all [future]

/-- `serviceRun` only moves items from the future into the transmit queue -/
theorem serviceRun_pipe (s : Server) : s.serviceRun.tx ++ future s.serviceRun = s.tx ++ future s := by
  unfold Server.serviceRun
  cases hr : s.resp with
  | none => simp
  | some r =>
    simp only []
    cases he : r.ended with
    | true => simp
    | false =>
      simp only [Bool.false_eq_true, if_false]
      have hf : future s = futureFrom (if s.appStarted then r else r.start s.cl) s.tag s.script := by
        simp [future, hr, he]
      rw [hf, futureFrom_step]
      simp [future, List.append_assoc]

theorem serviceReps_pipe (s : Server) : s.serviceReps.tx ++ future s.serviceReps = s.tx ++ future s := by
  unfold Server.serviceReps
  rw [rearm_tx, rearm_future, serviceRun_pipe]


/-- the responder (started, not ended) is in a state from which the rest of the response will come out right -/
def Good (r : Responder) (script : List Bytes) : Prop :=
  if r.headed then
    (r.chunked = true ∧ r.length = none)
    ∨ (r.chunked = false ∧ ∃ L, r.length = some L ∧ r.size < L ∧ L ≤ r.size + script.flatten.length)
  else
    r.size = 0 ∧ r.chunked = false ∧
      (match r.length with
       | some L => (L ≤ script.flatten.length ∨ script.flatten = []) ∧ r.chunkable = false
       | none => r.chunkable = true)

theorem good_fresh (a : AppResp) (h : WFApp a ∨ a.pieces.flatten = []) : Good (fresh.start a.cl) a.pieces := by
  unfold Good WFApp at *
  cases hcl : a.cl with
  | none => simp [Responder.start, fresh]
  | some L =>
    simp only [hcl] at h
    simp only [Responder.start, fresh, Bool.false_eq_true, if_false, true_and, and_true]
    exact h

theorem good_skip (r : Responder) (ps : List Bytes) (h : Good r ([] :: ps)) : Good r ps := by
  simpa [Good] using h

theorem good_headedOf (r : Responder) (script : List Bytes) (hu : r.headed = false) (h : Good r script) :
    (headedOf r).headed = true ∧
    (((headedOf r).chunked = true ∧ (headedOf r).length = none)
     ∨ ((headedOf r).chunked = false ∧ ∃ L, (headedOf r).length = some L ∧ (headedOf r).size = 0
          ∧ (L ≤ script.flatten.length ∨ script.flatten = []))) := by
  unfold Good at h
  simp only [hu, Bool.false_eq_true, if_false] at h
  obtain ⟨hs, hc, hm⟩ := h
  refine ⟨rfl, ?_⟩
  cases hl : r.length with
  | none =>
    simp only [hl] at hm
    left; simp [headedOf, hm, hl]
  | some L =>
    simp only [hl] at hm
    right; exact ⟨by simp [headedOf, hc, hm.2], L, by simp [headedOf, hl], by simp [headedOf, hs], hm.1⟩

/-- a live responder has something left to say -/
theorem good_future_ne (tag : Tag) (script : List Bytes) : ∀ (r : Responder), Good r script → r.ended = false →
    futureFrom r tag script ≠ [] := by
  induction script with
  | nil =>
    intro r hg he
    cases hh : r.headed with
    | false => rw [futureFrom_unheaded tag [] r hh he]; simp
    | true =>
      unfold Good at hg
      simp only [hh, if_true] at hg
      rcases hg with ⟨hc, _⟩ | ⟨_, L, _, h1, h2⟩
      · simp [futureFrom, Responder.serviceOnce, write_chunked r tag [] hh hc]
      · simp at h2; omega
  | cons p ps ih =>
    intro r hg he
    cases hh : r.headed with
    | false => rw [futureFrom_unheaded tag (p :: ps) r hh he]; simp
    | true =>
      by_cases hp : p = []
      · subst hp
        have e1 : r.serviceOnce tag ([] :: ps) = (r, ps, [], []) := by simp [Responder.serviceOnce]
        simp only [futureFrom, e1, he, List.nil_append, Bool.false_eq_true, if_false]
        exact ih r (good_skip r ps hg) he
      · have hpe : p.isEmpty = false := by cases p <;> simp_all
        have hplen : 0 < p.length := by cases p <;> simp_all
        unfold Good at hg
        simp only [hh, if_true] at hg
        rcases hg with ⟨hc, _⟩ | ⟨hc, L, hl, h1, h2⟩
        · simp [futureFrom, Responder.serviceOnce, hpe, write_chunked r tag p hh hc]
        · have hw := write_length r tag p L hh hc hl (by omega)
          have hmsg : (p.take (L - r.size)).isEmpty = false := by
            have : 0 < (p.take (L - r.size)).length := by rw [List.length_take]; omega
            cases h : p.take (L - r.size) with
            | nil => rw [h] at this; simp at this
            | cons _ _ => rfl
          simp [futureFrom, Responder.serviceOnce, hpe, hw, hmsg]

/-- headed responders: one service call keeps the responder good as long as it has not ended -/
theorem good_step_headed (tag : Tag) (r : Responder) (script : List Bytes) (hh : r.headed = true)
    (hg : Good r script) (he : r.ended = false) (hne : (r.serviceOnce tag script).1.ended = false) :
    Good (r.serviceOnce tag script).1 (r.serviceOnce tag script).2.1 := by
  cases script with
  | nil => simp [Responder.serviceOnce] at hne
  | cons p ps =>
    by_cases hp : p = []
    · subst hp
      have e1 : r.serviceOnce tag ([] :: ps) = (r, ps, [], []) := by simp [Responder.serviceOnce]
      rw [e1]; exact good_skip r ps hg
    · have hpe : p.isEmpty = false := by cases p <;> simp_all
      have hplen : 0 < p.length := by cases p <;> simp_all
      have hg' := hg
      unfold Good at hg'
      simp only [hh, if_true] at hg'
      rcases hg' with ⟨hc, hl⟩ | ⟨hc, L, hl, h1, h2⟩
      · have e1 : r.serviceOnce tag (p :: ps) = ({ r with ended := false }, ps, [Item.data p], []) := by
          simp [Responder.serviceOnce, hpe, write_chunked r tag p hh hc, hl, he]
        rw [e1]
        unfold Good
        simp [hh, hc, hl]
      · have hw := write_length r tag p L hh hc hl (by omega)
        have hlen : (p.take (L - r.size)).length = min (L - r.size) p.length := List.length_take
        simp only [Responder.serviceOnce, hpe, Bool.false_eq_true, if_false, hw, hl] at hne ⊢
        simp only [he, Bool.false_or, decide_eq_false_iff_not, Nat.not_le, ge_iff_le] at hne
        unfold Good
        simp only [hh, if_true, hc, Bool.false_eq_true, false_and, false_or, true_and]
        refine ⟨L, rfl, hne, ?_⟩
        simp only [List.flatten_cons, List.length_append] at h2
        rw [hlen] at hne ⊢
        omega

/-- any started responder: one service call keeps it good as long as it has not ended -/
theorem good_step (tag : Tag) (r : Responder) (script : List Bytes)
    (hg : Good r script) (he : r.ended = false) (hne : (r.serviceOnce tag script).1.ended = false) :
    Good (r.serviceOnce tag script).1 (r.serviceOnce tag script).2.1 := by
  cases hh : r.headed with
  | true => exact good_step_headed tag r script hh hg he hne
  | false =>
    cases script with
    | nil => simp [Responder.serviceOnce] at hne
    | cons p ps =>
      by_cases hp : p = []
      · subst hp
        have e1 : r.serviceOnce tag ([] :: ps) = (r, ps, [], []) := by simp [Responder.serviceOnce]
        rw [e1]; exact good_skip r ps hg
      · -- the head goes out with this write: same state and script as for the headed responder
        have hso := serviceOnce_unheaded r tag (p :: ps) hh (by intro p' ps' e; cases e; exact hp)
        have hscript : (r.serviceOnce tag (p :: ps)).2.1 = ((headedOf r).serviceOnce tag (p :: ps)).2.1 := by
          rw [serviceOnce_cons_script, serviceOnce_cons_script]
        rw [hso.1, hscript]
        have hgh := good_headedOf r (p :: ps) hh hg
        have hgood : Good (headedOf r) (p :: ps) ∨ ((headedOf r).chunked = false ∧ (headedOf r).length = some 0 ∧ (headedOf r).size = 0) := by
          rcases hgh.2 with h1 | ⟨hc, L, hl, hs, hle⟩
          · left; unfold Good; simp only [hgh.1, if_true]; left; exact h1
          · cases L with
            | zero => right; exact ⟨hc, hl, hs⟩
            | succ m =>
              have hle' : m + 1 ≤ (p :: ps).flatten.length := by
                rcases hle with h | h
                · exact h
                · exfalso
                  simp only [List.flatten_cons, List.append_eq_nil_iff] at h
                  exact hp h.1
              left; unfold Good; simp only [hgh.1, if_true]
              right; exact ⟨hc, m + 1, hl, by omega, by omega⟩
        rcases hgood with hgood | ⟨hc, hl, hs⟩
        · exact good_step_headed tag (headedOf r) (p :: ps) hgh.1 hgood (by simpa [headedOf] using he) (by rw [← hso.1]; exact hne)
        · -- Content-Length 0: the write ends the response
          exfalso
          have hpe : p.isEmpty = false := by cases p <;> simp_all
          have hw := write_length (headedOf r) tag p 0 hgh.1 hc hl (by omega)
          rw [hso.1] at hne
          simp [Responder.serviceOnce, hpe, hw, hs, hl] at hne


/-- the response the client is supposed to deliver for a request -/
def expected (app : Req → AppResp) (q : Req) : Delivered := ⟨q.id, q.id, bodyFor app q⟩

/-- number of `service()` calls the server still needs for the response it is producing -/
def serverWork (s : Server) : Nat :=
  match s.resp with
  | some r => if r.ended then 0 else s.script.length + 1
  | none => 0

/-- the server has nothing queued and nothing more to say; if a connection exists its request parser is armed -/
def Quiet (s : Server) : Prop :=
  s.tx = [] ∧ (∀ r, s.resp = some r → r.ended = true) ∧ (s.accepted = true → s.parsing = true)
  ∧ (s.accepted = false → s.rx = [] ∧ s.resp = none)

/-- facts that hold in every phase -/
structure Base (y : Sys) : Prop where
  ctx : y.c.tx = []
  nostuck : y.c.stuck = false
  conn : y.c.connected = true → (y.s.pending = true ∨ y.s.accepted = true)
  excl : y.s.pending = true → y.s.accepted = false
  unconn : y.c.connected = false → y.s.pending = false ∧ y.s.accepted = false
  stx : y.s.tx = []

/-- `k` responses delivered, nothing in flight -/
def Idle (app : Req → AppResp) (reqs : List Req) (y : Sys) (k : Nat) : Prop :=
  k ≤ reqs.length ∧ y.c.waited = false ∧ y.c.queue = reqs.drop k ∧ y.c.responses = (reqs.take k).map (expected app)
  ∧ y.c.cur = none ∧ y.c.rx = [] ∧ y.c2s = [] ∧ y.s2c = [] ∧ y.s.rx = [] ∧ Quiet y.s

/-- request `k` is on its way to the server -/
def Requested (app : Req → AppResp) (reqs : List Req) (y : Sys) (k : Nat) (q : Req) : Prop :=
  reqs[k]? = some q ∧ y.c.connected = true ∧ y.c.waited = true ∧ y.c.latest = some q ∧ y.c.queue = reqs.drop (k + 1)
  ∧ y.c.responses = (reqs.take k).map (expected app)
  ∧ y.c.cur = none ∧ y.c.rx = [] ∧ y.s2c = [] ∧ y.s.rx ++ y.c2s = [q]
  ∧ y.s.tx = [] ∧ (∀ r, y.s.resp = some r → r.ended = true) ∧ (y.s.accepted = true → y.s.parsing = true)
  ∧ (y.s.accepted = false → y.s.rx = [] ∧ y.s.resp = none)

/-- the server is answering request `k`; whatever is parsed, buffered, on the wire, queued or still to be produced
adds up to exactly the expected response -/
def Responding (app : Req → AppResp) (reqs : List Req) (y : Sys) (k : Nat) (q : Req) : Prop :=
  reqs[k]? = some q ∧ y.c.connected = true ∧ y.c.waited = true ∧ y.c.latest = some q ∧ y.c.queue = reqs.drop (k + 1)
  ∧ y.c.responses = (reqs.take k).map (expected app)
  ∧ y.c2s = [] ∧ y.s.rx = [] ∧ y.s.accepted = true ∧ y.s.tag = tagOf app q
  ∧ ∃ r, y.s.resp = some r ∧ (r.ended = true → y.s.parsing = true)
      ∧ (r.ended = false → Good (if y.s.appStarted then r else r.start y.s.cl) y.s.script)
      ∧ feed y.c.cur (y.c.rx ++ y.s2c ++ y.s.tx ++ future y.s) = .done q.id (bodyFor app q) []

def Inv (app : Req → AppResp) (reqs : List Req) (y : Sys) : Prop :=
  Base y ∧ ∃ k, Idle app reqs y k ∨ (∃ q, Requested app reqs y k q) ∨ (∃ q, Responding app reqs y k q)

theorem inv_init (app : Req → AppResp) (reqs : List Req) : Inv app reqs (initSys reqs) := by
  refine ⟨⟨rfl, rfl, by simp [initSys], by simp [initSys], by simp [initSys], rfl⟩, 0, Or.inl ?_⟩
  simp [Idle, initSys, Quiet]

theorem take_succ_map (app : Req → AppResp) (reqs : List Req) (k : Nat) (q : Req) (hq : reqs[k]? = some q) :
    (reqs.take (k + 1)).map (expected app) = (reqs.take k).map (expected app) ++ [expected app q] := by
  rw [List.take_add_one, hq]; simp

theorem drop_of_get (reqs : List Req) (k : Nat) (q : Req) (hq : reqs[k]? = some q) :
    reqs.drop k = q :: reqs.drop (k + 1) := by
  have hk : k < reqs.length := by
    rcases Nat.lt_or_ge k reqs.length with h | h
    · exact h
    · rw [List.getElem?_eq_none h] at hq; cases hq
  rw [List.drop_eq_getElem_cons hk]
  rw [List.getElem?_eq_getElem hk] at hq
  cases hq; rfl

theorem connect_base (y : Sys) (hb : Base y) :
    (connect y).1.connected = true ∧ ((connect y).2.pending = true ∨ (connect y).2.accepted = true)
    ∧ ((connect y).2.pending = true → (connect y).2.accepted = false) := by
  unfold connect
  cases hc : y.c.connected with
  | true => simp only [if_true]; exact ⟨hc, hb.conn hc, hb.excl⟩
  | false =>
    have := (hb.unconn hc).2
    simp [this]

theorem connect_c (y : Sys) : (connect y).1 = { y.c with connected := true } ∨ ((connect y).1 = y.c ∧ y.c.connected = true) := by
  unfold connect
  cases hc : y.c.connected with
  | true => right; simp [hc]
  | false => left; simp

/-- fields of the client that `connect` does not touch -/
theorem connect_fields (y : Sys) :
    (connect y).1.waited = y.c.waited ∧ (connect y).1.queue = y.c.queue ∧ (connect y).1.responses = y.c.responses
    ∧ (connect y).1.cur = y.c.cur ∧ (connect y).1.rx = y.c.rx ∧ (connect y).1.tx = y.c.tx ∧ (connect y).1.stuck = y.c.stuck
    ∧ (connect y).1.latest = y.c.latest
    ∧ (connect y).2.rx = y.s.rx ∧ (connect y).2.tx = y.s.tx ∧ (connect y).2.resp = y.s.resp
    ∧ (connect y).2.accepted = y.s.accepted ∧ (connect y).2.parsing = y.s.parsing ∧ (connect y).2.tag = y.s.tag
    ∧ (connect y).2.script = y.s.script ∧ (connect y).2.cl = y.s.cl ∧ (connect y).2.appStarted = y.s.appStarted
    ∧ future (connect y).2 = future y.s := by
  unfold connect
  split <;> simp [future]

theorem base_stepClient (y : Sys) (hb : Base y) (hstuck : (stepClient y).c.stuck = false) : Base (stepClient y) := by
  have hcb := connect_base y hb
  refine ⟨?_, hstuck, ?_, ?_, ?_, ?_⟩
  · simp only [stepClient, Client.serviceResponse]
    split
    · split <;> rfl
    · rfl
  · intro _; exact hcb.2.1
  · exact hcb.2.2
  · intro h
    exfalso
    have : (stepClient y).c.connected = true := by
      simp only [stepClient, Client.serviceResponse, Client.serviceRequests]
      split <;> (try split) <;> (try split) <;> (try split) <;> simp [hcb.1]
    rw [this] at h; cases h
  · show (connect y).2.tx = []
    rw [(connect_fields y).2.2.2.2.2.2.2.2.2.1]; exact hb.stx

theorem quiet_connect (y : Sys) (h : Quiet y.s) : Quiet (connect y).2 := by
  have f := connect_fields y
  unfold Quiet at *
  rw [f.2.2.2.2.2.2.2.2.2.1, f.2.2.2.2.2.2.2.2.2.2.1, f.2.2.2.2.2.2.2.2.2.2.2.1, f.2.2.2.2.2.2.2.2.2.2.2.2.1, f.2.2.2.2.2.2.2.2.1]
  exact h

theorem stepClient_idle (app : Req → AppResp) (reqs : List Req) (y : Sys) (k : Nat) (hb : Base y)
    (h : Idle app reqs y k) :
    Base (stepClient y) ∧ ((k = reqs.length ∧ Idle app reqs (stepClient y) k)
      ∨ (∃ q, reqs[k]? = some q ∧ Requested app reqs (stepClient y) k q)) := by
  obtain ⟨hk, hw, hq, hresp, hcur, hrx, hc2s, hs2c, hsrx, hquiet⟩ := h
  have f := connect_fields y
  have hcb := connect_base y hb
  by_cases hlast : k = reqs.length
  · -- nothing left to send
    have hq' : (connect y).1.queue = [] := by rw [f.2.1, hq, hlast]; simp
    have hsc : stepClient y = { c := { (connect y).1 with tx := [], rx := (connect y).1.rx ++ y.s2c },
                                s := (connect y).2, c2s := y.c2s ++ (connect y).1.tx, s2c := [] } := by
      simp [stepClient, Client.serviceRequests, Client.serviceResponse, f.1, hw, hq']
    have hst : (stepClient y).c.stuck = false := by rw [hsc]; simp [f.2.2.2.2.2.2.1, hb.nostuck]
    refine ⟨base_stepClient y hb hst, Or.inl ⟨hlast, ?_⟩⟩
    rw [hsc]
    refine ⟨hk, ?_, ?_, ?_, ?_, ?_, ?_, rfl, ?_, quiet_connect y hquiet⟩
    · simp [f.1, hw]
    · simp [f.2.1, hq]
    · simp [f.2.2.1, hresp]
    · simp [f.2.2.2.1, hcur]
    · simp [f.2.2.2.2.1, hrx, hs2c]
    · simp [f.2.2.2.2.2.1, hb.ctx, hc2s]
    · simp [f.2.2.2.2.2.2.2.2.1, hsrx]
  · -- request k goes out
    have hklt : k < reqs.length := by omega
    have hget : reqs[k]? = some reqs[k] := List.getElem?_eq_getElem hklt
    have hq' : (connect y).1.queue = reqs[k] :: reqs.drop (k + 1) := by rw [f.2.1, hq]; exact drop_of_get reqs k _ hget
    have hsr : (connect y).1.serviceRequests
        = { (connect y).1 with queue := reqs.drop (k + 1), latest := some reqs[k], tx := [reqs[k]], waited := true } := by
      unfold Client.serviceRequests
      rw [hq']
      simp [f.1, hw, f.2.2.2.2.2.1, hb.ctx]
    have hsc : stepClient y =
        { c := { (connect y).1 with queue := reqs.drop (k + 1), latest := some reqs[k], tx := [], waited := true, cur := none, rx := [] },
          s := (connect y).2, c2s := [reqs[k]], s2c := [] } := by
      unfold stepClient
      rw [hsr]
      simp [Client.serviceResponse, hc2s, f.2.2.2.2.2.2.1, hb.nostuck, f.2.2.2.1, hcur, f.2.2.2.2.1, hrx, hs2c, feed]
    have hst : (stepClient y).c.stuck = false := by rw [hsc]; simp [f.2.2.2.2.2.2.1, hb.nostuck]
    refine ⟨base_stepClient y hb hst, Or.inr ⟨reqs[k], hget, ?_⟩⟩
    rw [hsc]
    have hq2 := quiet_connect y hquiet
    refine ⟨hget, hcb.1, rfl, rfl, rfl, ?_, rfl, rfl, rfl, ?_, hq2.1, hq2.2.1, hq2.2.2.1, hq2.2.2.2⟩
    · simp [f.2.2.1, hresp]
    · simp [f.2.2.2.2.2.2.2.2.1, hsrx]

theorem serviceRequests_waited (c : Client) (h : c.waited = true) : c.serviceRequests = c := by
  simp [Client.serviceRequests, h]

theorem stepClient_requested (app : Req → AppResp) (reqs : List Req) (y : Sys) (k : Nat) (q : Req) (hb : Base y)
    (h : Requested app reqs y k q) : Base (stepClient y) ∧ Requested app reqs (stepClient y) k q := by
  obtain ⟨hget, hconn, hw, hlat, hq, hresp, hcur, hrx, hs2c, hwire, hstx, hended, hpars, hnacc⟩ := h
  have f := connect_fields y
  have hcb := connect_base y hb
  have hsr := serviceRequests_waited (connect y).1 (by rw [f.1, hw])
  have hsc : stepClient y = { c := { (connect y).1 with tx := [], cur := none, rx := [] },
                              s := (connect y).2, c2s := y.c2s, s2c := [] } := by
    unfold stepClient
    rw [hsr]
    simp [Client.serviceResponse, f.1, hw, f.2.2.2.2.2.2.1, hb.nostuck, f.2.2.2.1, hcur, f.2.2.2.2.1, hrx, hs2c, feed,
      f.2.2.2.2.2.1, hb.ctx]
  have hst : (stepClient y).c.stuck = false := by rw [hsc]; simp [f.2.2.2.2.2.2.1, hb.nostuck]
  refine ⟨base_stepClient y hb hst, ?_⟩
  rw [hsc]
  refine ⟨hget, hcb.1, ?_, ?_, ?_, ?_, rfl, rfl, rfl, ?_, ?_, ?_, ?_, ?_⟩
  · simp [f.1, hw]
  · simp [f.2.2.2.2.2.2.2.1, hlat]
  · simp [f.2.1, hq]
  · simp [f.2.2.1, hresp]
  · simp [f.2.2.2.2.2.2.2.2.1, hwire]
  · simp [f.2.2.2.2.2.2.2.2.2.1, hstx]
  · simpa [f.2.2.2.2.2.2.2.2.2.2.1] using hended
  · simpa [f.2.2.2.2.2.2.2.2.2.2.2.1, f.2.2.2.2.2.2.2.2.2.2.2.2.1] using hpars
  · simpa [f.2.2.2.2.2.2.2.2.2.2.2.1, f.2.2.2.2.2.2.2.2.1, f.2.2.2.2.2.2.2.2.2.2.1] using hnacc

theorem future_nil_ended (s : Server) (r : Responder) (hr : s.resp = some r)
    (hg : r.ended = false → Good (if s.appStarted then r else r.start s.cl) s.script) (hf : future s = []) :
    r.ended = true := by
  cases he : r.ended with
  | true => rfl
  | false =>
    exfalso
    have hne : (if s.appStarted then r else r.start s.cl).ended = false := by
      split
      · exact he
      · unfold Responder.start; cases s.cl <;> exact he
    have := good_future_ne s.tag s.script _ (hg he) hne
    simp [future, hr, he] at hf
    exact this hf

theorem stepClient_responding (app : Req → AppResp) (reqs : List Req) (y : Sys) (k : Nat) (q : Req) (hb : Base y)
    (h : Responding app reqs y k q) :
    Base (stepClient y) ∧ (Idle app reqs (stepClient y) (k + 1)
      ∨ (Responding app reqs (stepClient y) k q ∧ serverWork (stepClient y).s = serverWork y.s
          ∧ ∃ r, (stepClient y).s.resp = some r ∧ r.ended = false)) := by
  obtain ⟨hget, hconn, hw, hlat, hq, hresp, hc2s, hsrx, hacc, htag, r, hr, hpars, hgood, hfeed⟩ := h
  have f := connect_fields y
  have hcb := connect_base y hb
  have hsr := serviceRequests_waited (connect y).1 (by rw [f.1, hw])
  -- what the parser makes of what has arrived
  have happ : feed y.c.cur (y.c.rx ++ y.s2c ++ y.s.tx ++ future y.s)
      = (feed y.c.cur (y.c.rx ++ y.s2c)).andThen (y.s.tx ++ future y.s) := by
    rw [← feed_append]; simp [List.append_assoc]
  rw [happ] at hfeed
  cases hout : feed y.c.cur (y.c.rx ++ y.s2c) with
  | stuck => rw [hout] at hfeed; simp [Outcome.andThen] at hfeed
  | more cur' =>
    rw [hout] at hfeed
    simp only [Outcome.andThen] at hfeed
    have hsc : stepClient y = { c := { (connect y).1 with tx := [], cur := cur', rx := [] },
                                s := (connect y).2, c2s := y.c2s, s2c := [] } := by
      unfold stepClient
      rw [hsr]
      simp [Client.serviceResponse, f.1, hw, f.2.2.2.2.2.2.1, hb.nostuck, f.2.2.2.1, f.2.2.2.2.1, hout, f.2.2.2.2.2.1, hb.ctx]
    have hst : (stepClient y).c.stuck = false := by rw [hsc]; simp [f.2.2.2.2.2.2.1, hb.nostuck]
    -- the server still has something to say: otherwise the response would be complete
    have hne : r.ended = false := by
      cases he : r.ended with
      | false => rfl
      | true =>
        exfalso
        have : future y.s = [] := by simp [future, hr, he]
        rw [this, hb.stx] at hfeed
        simp [feed] at hfeed
    have hwork : serverWork (stepClient y).s = serverWork y.s := by
      rw [hsc]; simp [serverWork, f.2.2.2.2.2.2.2.2.2.2.1, f.2.2.2.2.2.2.2.2.2.2.2.2.2.2.1]
    have hr1 : (stepClient y).s.resp = some r := by rw [hsc]; simp [f.2.2.2.2.2.2.2.2.2.2.1, hr]
    refine ⟨base_stepClient y hb hst, Or.inr ⟨?_, hwork, r, hr1, hne⟩⟩
    rw [hsc]
    refine ⟨hget, hcb.1, ?_, ?_, ?_, ?_, hc2s, ?_, ?_, ?_, r, ?_, ?_, ?_, ?_⟩
    · simp [f.1, hw]
    · simp [f.2.2.2.2.2.2.2.1, hlat]
    · simp [f.2.1, hq]
    · simp [f.2.2.1, hresp]
    · simp [f.2.2.2.2.2.2.2.2.1, hsrx]
    · simp [f.2.2.2.2.2.2.2.2.2.2.2.1, hacc]
    · simp [f.2.2.2.2.2.2.2.2.2.2.2.2.2.1, htag]
    · simp [f.2.2.2.2.2.2.2.2.2.2.1, hr]
    · simpa [f.2.2.2.2.2.2.2.2.2.2.2.2.1] using hpars
    · simpa [f.2.2.2.2.2.2.2.2.2.2.2.2.2.2.1, f.2.2.2.2.2.2.2.2.2.2.2.2.2.2.2.1, f.2.2.2.2.2.2.2.2.2.2.2.2.2.2.2.2.1] using hgood
    · simpa [f.2.2.2.2.2.2.2.2.2.1, f.2.2.2.2.2.2.2.2.2.2.2.2.2.2.2.2.2] using hfeed
  | done t body rest =>
    rw [hout] at hfeed
    simp only [Outcome.andThen, Outcome.done.injEq, List.append_eq_nil_iff] at hfeed
    obtain ⟨ht, hbody, hrest, hstx, hfut⟩ := hfeed
    have hended := future_nil_ended y.s r hr hgood hfut
    have hsc : stepClient y =
        { c := { (connect y).1 with tx := [], cur := none, rx := [], waited := false, latest := none, responses := y.c.responses ++ [expected app q] },
          s := (connect y).2, c2s := y.c2s, s2c := [] } := by
      unfold stepClient
      rw [hsr]
      simp [Client.serviceResponse, f.1, hw, f.2.2.2.2.2.2.1, hb.nostuck, f.2.2.2.1, f.2.2.2.2.1, hout, f.2.2.2.2.2.1, hb.ctx,
        f.2.2.2.2.2.2.2.1, hlat, f.2.2.1, expected, ht, hbody, hrest]
    have hst : (stepClient y).c.stuck = false := by rw [hsc]; simp [f.2.2.2.2.2.2.1, hb.nostuck]
    have hklt : k < reqs.length := by
      rcases Nat.lt_or_ge k reqs.length with h | h
      · exact h
      · rw [List.getElem?_eq_none h] at hget; cases hget
    refine ⟨base_stepClient y hb hst, Or.inl ?_⟩
    rw [hsc]
    refine ⟨by omega, rfl, ?_, ?_, rfl, rfl, hc2s, rfl, ?_, ?_⟩
    · simp [f.2.1, hq]
    · simp [hresp, take_succ_map app reqs k q hget]
    · simp [f.2.2.2.2.2.2.2.2.1, hsrx]
    · refine ⟨?_, ?_, ?_, ?_⟩
      · simp [f.2.2.2.2.2.2.2.2.2.1, hstx]
      · intro r' hr'
        rw [f.2.2.2.2.2.2.2.2.2.2.1, hr] at hr'
        cases hr'; exact hended
      · intro _; rw [f.2.2.2.2.2.2.2.2.2.2.2.2.1]; exact hpars hended
      · intro hna; rw [f.2.2.2.2.2.2.2.2.2.2.2.1, hacc] at hna; cases hna

/-! ### server step -/

theorem serviceReqs_nil (app : Req → AppResp) (s : Server) (h : s.rx = []) : s.serviceReqs app = s := by
  unfold Server.serviceReqs; split <;> simp [h]

theorem serviceRun_quiet (s : Server) (h : ∀ r, s.resp = some r → r.ended = true) : s.serviceRun = s := by
  unfold Server.serviceRun
  split
  · rfl
  · rename_i r hr; simp [h r hr]

theorem rearm_armed (s : Server) (h : ∀ r, s.resp = some r → r.ended = true → s.parsing = true) : s.rearm = s := by
  unfold Server.rearm
  split
  · rename_i r hr
    cases he : r.ended with
    | true => simp [h r hr he]
    | false => simp
  · rfl

theorem rearm_fields (s : Server) :
    s.rearm.pending = s.pending ∧ s.rearm.accepted = s.accepted ∧ s.rearm.rx = s.rx ∧ s.rearm.resp = s.resp
    ∧ s.rearm.tag = s.tag ∧ s.rearm.script = s.script ∧ s.rearm.cl = s.cl ∧ s.rearm.appStarted = s.appStarted := by
  unfold Server.rearm; split <;> (try split) <;> simp

theorem rearm_parsing (s : Server) (r : Responder) (hr : s.resp = some r) (he : r.ended = true) : s.rearm.parsing = true := by
  unfold Server.rearm
  simp only [hr, he, Bool.true_and]
  cases hp : s.parsing <;> simp [hp]

theorem serviceRun_fields (s : Server) :
    s.serviceRun.pending = s.pending ∧ s.serviceRun.accepted = s.accepted ∧ s.serviceRun.rx = s.rx
    ∧ s.serviceRun.tag = s.tag ∧ s.serviceRun.cl = s.cl ∧ s.serviceRun.parsing = s.parsing := by
  unfold Server.serviceRun; split <;> (try split) <;> simp

theorem base_stepServer (app : Req → AppResp) (y : Sys) (hb : Base y) : Base (stepServer app y) := by
  have hp : (stepServer app y).s.pending = y.s.accept.pending ∧ (stepServer app y).s.accepted = y.s.accept.accepted := by
    simp only [stepServer, Server.serviceReps]
    have h1 := rearm_fields ((y.s.accept.receive y.c2s).1.serviceReqs app).serviceRun
    have h2 := serviceRun_fields ((y.s.accept.receive y.c2s).1.serviceReqs app)
    have h3 : ((y.s.accept.receive y.c2s).1.serviceReqs app).pending = y.s.accept.pending
        ∧ ((y.s.accept.receive y.c2s).1.serviceReqs app).accepted = y.s.accept.accepted := by
      unfold Server.serviceReqs Server.receive
      split <;> split <;> (try split) <;> simp
    simp [h1.1, h1.2.1, h2.1, h2.2.1, h3.1, h3.2]
  have hc : (stepServer app y).c = y.c := rfl
  refine ⟨by rw [hc]; exact hb.ctx, by rw [hc]; exact hb.nostuck, ?_, ?_, ?_, rfl⟩
  · intro h
    rw [hc] at h
    rw [hp.1, hp.2]
    unfold Server.accept
    rcases hb.conn h with h1 | h1
    · simp [h1]
    · have : y.s.pending = false := by
        cases hpd : y.s.pending with
        | false => rfl
        | true => have := hb.excl hpd; rw [h1] at this; cases this
      simp [this, h1]
  · rw [hp.1, hp.2]
    unfold Server.accept
    cases hpd : y.s.pending with
    | true => simp
    | false => simp [hpd]
  · intro h
    rw [hc] at h
    have := hb.unconn h
    rw [hp.1, hp.2]
    unfold Server.accept
    simp [this.1, this.2]

theorem tx_nil_eq (s : Server) (h : s.tx = []) : ({ s with tx := [] } : Server) = s := by
  cases s; simp_all

theorem receive_nil (s : Server) : s.receive [] = (s, []) := by
  unfold Server.receive
  split
  · have : ({ s with rx := s.rx ++ [] } : Server) = s := by cases s; simp
    rw [this]
  · rfl

theorem accept_fields (s : Server) :
    s.accept.rx = s.rx ∧ s.accept.tx = s.tx ∧ s.accept.resp = s.resp ∧ s.accept.tag = s.tag ∧ s.accept.script = s.script
    ∧ s.accept.cl = s.cl ∧ s.accept.appStarted = s.appStarted ∧ future s.accept = future s
    ∧ (s.pending = true → s.accept.accepted = true ∧ s.accept.parsing = true)
    ∧ (s.pending = false → s.accept = s) := by
  unfold Server.accept
  cases hp : s.pending <;> simp [future]

theorem stepServer_idle (app : Req → AppResp) (reqs : List Req) (y : Sys) (k : Nat) (hb : Base y)
    (h : Idle app reqs y k) : Base (stepServer app y) ∧ Idle app reqs (stepServer app y) k := by
  obtain ⟨hk, hw, hq, hresp, hcur, hrx, hc2s, hs2c, hsrx, hquiet⟩ := h
  have fa := accept_fields y.s
  have hqa : Quiet y.s.accept := by
    obtain ⟨h1, h2, h3, h4⟩ := hquiet
    refine ⟨by rw [fa.2.1]; exact h1, by rw [fa.2.2.1]; exact h2, ?_, ?_⟩
    · intro ha
      cases hp : y.s.pending with
      | true => exact (fa.2.2.2.2.2.2.2.2.1 hp).2
      | false => rw [fa.2.2.2.2.2.2.2.2.2 hp] at ha ⊢; exact h3 ha
    · intro ha
      cases hp : y.s.pending with
      | true => rw [(fa.2.2.2.2.2.2.2.2.1 hp).1] at ha; cases ha
      | false => rw [fa.2.2.2.2.2.2.2.2.2 hp] at ha ⊢; exact h4 ha
  have hsame : ((y.s.accept.receive y.c2s).1.serviceReqs app).serviceReps = y.s.accept := by
    rw [hc2s, receive_nil]
    simp only []
    rw [serviceReqs_nil app _ (by rw [fa.1]; exact hsrx)]
    unfold Server.serviceReps
    rw [serviceRun_quiet _ hqa.2.1]
    apply rearm_armed
    intro r hr he
    cases ha : y.s.accept.accepted with
    | true => exact hqa.2.2.1 ha
    | false => have := (hqa.2.2.2 ha).2; rw [this] at hr; cases hr
  have hst : stepServer app y = { y with s := y.s.accept, c2s := [], s2c := [] } := by
    unfold stepServer
    simp only [hsame]
    rw [tx_nil_eq _ hqa.1, hqa.1, hc2s, receive_nil, hs2c]
    rfl
  refine ⟨base_stepServer app y hb, ?_⟩
  rw [hst]
  exact ⟨hk, hw, hq, hresp, hcur, hrx, rfl, rfl, by simpa [fa.1] using hsrx, hqa⟩

theorem serviceRun_live (s : Server) (r : Responder) (hr : s.resp = some r) (he : r.ended = false) :
    s.serviceRun = { s with resp := some ((if s.appStarted then r else r.start s.cl).serviceOnce s.tag s.script).1,
                            script := ((if s.appStarted then r else r.start s.cl).serviceOnce s.tag s.script).2.1,
                            tx := s.tx ++ ((if s.appStarted then r else r.start s.cl).serviceOnce s.tag s.script).2.2.1,
                            heads := s.heads ++ ((if s.appStarted then r else r.start s.cl).serviceOnce s.tag s.script).2.2.2,
                            appStarted := true } := by
  unfold Server.serviceRun
  simp [hr, he]

theorem start_ended (r : Responder) (cl : Option Nat) : (r.start cl).ended = r.ended := by
  unfold Responder.start; cases cl <;> rfl

/-- after `serviceReps` on a server that is answering: the responder, its flags and the `Good` invariant -/
theorem serviceReps_answering (s : Server) (r : Responder) (hr : s.resp = some r)
    (hpars : r.ended = true → s.parsing = true)
    (hgood : r.ended = false → Good (if s.appStarted then r else r.start s.cl) s.script) :
    ∃ r', s.serviceReps.resp = some r' ∧ (r'.ended = true → s.serviceReps.parsing = true)
      ∧ (r'.ended = false → Good (if s.serviceReps.appStarted then r' else r'.start s.serviceReps.cl) s.serviceReps.script) := by
  unfold Server.serviceReps
  cases he : r.ended with
  | true =>
    have h1 : s.serviceRun = s := by unfold Server.serviceRun; simp [hr, he]
    rw [h1]
    have hf := rearm_fields s
    refine ⟨r, by rw [hf.2.2.2.1]; exact hr, fun _ => rearm_parsing s r hr he, ?_⟩
    intro h; rw [he] at h; cases h
  | false =>
    have h1 := serviceRun_live s r hr he
    have hf := rearm_fields s.serviceRun
    have hresp : s.serviceRun.resp = some ((if s.appStarted then r else r.start s.cl).serviceOnce s.tag s.script).1 := by
      rw [h1]
    refine ⟨_, by rw [hf.2.2.2.1]; exact hresp, fun h => rearm_parsing _ _ hresp h, ?_⟩
    intro hne
    rw [hf.2.2.2.2.2.2.2, hf.2.2.2.2.2.2.1, hf.2.2.2.2.2.1]
    have hstarted : s.serviceRun.appStarted = true := by rw [h1]
    have hscript : s.serviceRun.script = ((if s.appStarted then r else r.start s.cl).serviceOnce s.tag s.script).2.1 := by rw [h1]
    rw [hstarted, hscript]
    simp only [if_true]
    have hr0 : (if s.appStarted then r else r.start s.cl).ended = false := by
      split
      · exact he
      · rw [start_ended]; exact he
    exact good_step s.tag _ s.script (hgood he) hr0 hne

theorem serviceReps_fields (s : Server) :
    s.serviceReps.pending = s.pending ∧ s.serviceReps.accepted = s.accepted ∧ s.serviceReps.rx = s.rx
    ∧ s.serviceReps.tag = s.tag ∧ s.serviceReps.cl = s.cl := by
  unfold Server.serviceReps
  have h1 := rearm_fields s.serviceRun
  have h2 := serviceRun_fields s
  exact ⟨by rw [h1.1, h2.1], by rw [h1.2.1, h2.2.1], by rw [h1.2.2.1, h2.2.2.1], by rw [h1.2.2.2.2.1, h2.2.2.2.1],
    by rw [h1.2.2.2.2.2.2.1, h2.2.2.2.2.1]⟩

theorem future_tx (s : Server) (t : List Item) : future ({ s with tx := t } : Server) = future s := by
  simp [future]

theorem serviceReps_work (s : Server) (r : Responder) (hr : s.resp = some r) :
    (r.ended = true → serverWork s.serviceReps = serverWork s)
    ∧ (r.ended = false → serverWork s.serviceReps + 1 ≤ serverWork s) := by
  have hf := rearm_fields s.serviceRun
  have hw : serverWork s.serviceReps = serverWork s.serviceRun := by
    unfold Server.serviceReps serverWork
    rw [hf.2.2.2.1, hf.2.2.2.2.2.1]
  constructor
  · intro he
    rw [hw, serviceRun_quiet s]
    intro r' hr'; rw [hr] at hr'; cases hr'; exact he
  · intro he
    rw [hw, serviceRun_live s r hr he]
    simp only [serverWork, hr, he, Bool.false_eq_true, if_false]
    cases hs : s.script with
    | nil => simp [serviceOnce_nil_ended]
    | cons p ps =>
      rw [serviceOnce_cons_script]
      split <;> simp <;> split <;> omega

/-- the server state right after `serviceReqs` has parsed request `q` -/
def answering (app : Req → AppResp) (s : Server) (q : Req) : Server :=
  { s with rx := [], parsing := false, resp := some fresh, cl := (app q).cl, script := (app q).pieces, appStarted := false, tag := tagOf app q, served := s.served + 1 }

theorem stepServer_requested (app : Req → AppResp) (reqs : List Req) (hwf : ∀ q ∈ reqs, WFReq app q)
    (y : Sys) (k : Nat) (q : Req) (hb : Base y)
    (h : Requested app reqs y k q) :
    Base (stepServer app y) ∧ Responding app reqs (stepServer app y) k q
      ∧ serverWork (stepServer app y).s ≤ (app q).pieces.length := by
  obtain ⟨hget, hconn, hw, hlat, hq, hresp, hcur, hrx, hs2c, hwire, hstx, hended, hpars, hnacc⟩ := h
  have fa := accept_fields y.s
  have hqmem : q ∈ reqs := List.mem_of_getElem? hget
  -- after accepting: accepted and parsing
  have hacc : y.s.accept.accepted = true ∧ y.s.accept.parsing = true := by
    cases hp : y.s.pending with
    | true => exact fa.2.2.2.2.2.2.2.2.1 hp
    | false =>
      rw [fa.2.2.2.2.2.2.2.2.2 hp]
      rcases hb.conn hconn with h1 | h1
      · rw [hp] at h1; cases h1
      · exact ⟨h1, hpars h1⟩
  -- the request is received and parsed
  have hrecv : y.s.accept.receive y.c2s = ({ y.s.accept with rx := [q] }, []) := by
    unfold Server.receive
    simp [hacc.1, fa.1, hwire]
  have hreqs : ({ y.s.accept with rx := [q] } : Server).serviceReqs app = answering app y.s.accept q := by
    unfold Server.serviceReqs answering
    simp [hacc.1, hacc.2, fresh, tagOf, bodylessFor]
  generalize hs3 : answering app y.s.accept q = s3 at hreqs
  have h3 : s3.rx = [] ∧ s3.resp = some fresh ∧ s3.cl = (app q).cl ∧ s3.script = (app q).pieces ∧ s3.appStarted = false
      ∧ s3.tag = tagOf app q ∧ s3.tx = [] ∧ s3.accepted = true := by
    subst hs3; exact ⟨rfl, rfl, rfl, rfl, rfl, rfl, by simp [answering, fa.2.1, hstx], hacc.1⟩
  have hst : stepServer app y = { y with s := { s3.serviceReps with tx := [] }, c2s := [], s2c := y.s2c ++ s3.serviceReps.tx } := by
    unfold stepServer
    simp only [hrecv, hreqs]
  have hfs3 : future s3 = futureFrom (fresh.start (app q).cl) (tagOf app q) (app q).pieces := by
    simp [future, h3.2.1, h3.2.2.2.2.1, h3.2.2.1, h3.2.2.2.1, h3.2.2.2.2.2.1, fresh]
  have hpipe := serviceReps_pipe s3
  rw [h3.2.2.2.2.2.2.1, List.nil_append, hfs3] at hpipe
  have hgood3 : fresh.ended = false → Good (if s3.appStarted then fresh else fresh.start s3.cl) s3.script := by
    intro _
    rw [h3.2.2.2.2.1, h3.2.2.1, h3.2.2.2.1]
    have := hwf q hqmem
    unfold WFReq at this
    split at this
    · exact good_fresh (app q) (Or.inr this)
    · exact good_fresh (app q) (Or.inl this)
  obtain ⟨r', hr', hpars', hgood'⟩ := serviceReps_answering s3 fresh h3.2.1 (by intro h; cases h) hgood3
  have hf := serviceReps_fields s3
  have hwork : serverWork (stepServer app y).s ≤ (app q).pieces.length := by
    rw [hst]
    have h1 := (serviceReps_work s3 fresh h3.2.1).2 rfl
    have h2 : serverWork s3 = (app q).pieces.length + 1 := by simp [serverWork, h3.2.1, h3.2.2.2.1, fresh]
    have h4 : serverWork ({ s3.serviceReps with tx := [] } : Server) = serverWork s3.serviceReps := by simp [serverWork]
    simp only [h4]
    omega
  refine ⟨base_stepServer app y hb, ?_, hwork⟩
  rw [hst]
  refine ⟨hget, hconn, hw, hlat, hq, hresp, rfl, ?_, ?_, ?_, r', hr', hpars', hgood', ?_⟩
  · simp [hf.2.2.1, h3.1]
  · simp [hf.2.1, h3.2.2.2.2.2.2.2]
  · simp [hf.2.2.2.1, h3.2.2.2.2.2.1]
  · simp only [hcur, hrx, hs2c, List.nil_append, List.append_nil, future_tx]
    rw [hpipe]
    have hsr := stream_roundtrip (tagOf app q) (app q) (hwf q hqmem)
    exact hsr

theorem stepServer_responding (app : Req → AppResp) (reqs : List Req) (y : Sys) (k : Nat) (q : Req) (hb : Base y)
    (h : Responding app reqs y k q) :
    Base (stepServer app y) ∧ Responding app reqs (stepServer app y) k q
      ∧ serverWork (stepServer app y).s ≤ serverWork y.s
      ∧ (∀ r, y.s.resp = some r → r.ended = false → serverWork (stepServer app y).s + 1 ≤ serverWork y.s) := by
  obtain ⟨hget, hconn, hw, hlat, hq, hresp, hc2s, hsrx, hacc, htag, r, hr, hpars, hgood, hfeed⟩ := h
  have fa := accept_fields y.s
  have hnp : y.s.pending = false := by
    cases hp : y.s.pending with
    | false => rfl
    | true => have := hb.excl hp; rw [hacc] at this; cases this
  have haccept : y.s.accept = y.s := fa.2.2.2.2.2.2.2.2.2 hnp
  have hsame : (y.s.accept.receive y.c2s).1.serviceReqs app = y.s := by
    rw [haccept, hc2s, receive_nil]
    exact serviceReqs_nil app y.s hsrx
  have hst : stepServer app y = { y with s := { y.s.serviceReps with tx := [] }, c2s := [], s2c := y.s2c ++ y.s.serviceReps.tx } := by
    unfold stepServer
    simp only [hsame]
    rw [haccept, hc2s, receive_nil]
  obtain ⟨r', hr', hpars', hgood'⟩ := serviceReps_answering y.s r hr hpars hgood
  have hf := serviceReps_fields y.s
  have hpipe := serviceReps_pipe y.s
  have hwk := serviceReps_work y.s r hr
  have h4 : serverWork (stepServer app y).s = serverWork y.s.serviceReps := by rw [hst]; simp [serverWork]
  refine ⟨base_stepServer app y hb, ?_, ?_, ?_⟩
  rotate_left
  · rw [h4]
    cases he : r.ended with
    | true => rw [hwk.1 he]; exact Nat.le_refl _
    | false => have := hwk.2 he; omega
  · intro r2 hr2 he2
    rw [hr] at hr2; cases hr2
    rw [h4]; exact hwk.2 he2
  rw [hst]
  refine ⟨hget, hconn, hw, hlat, hq, hresp, rfl, ?_, ?_, ?_, r', hr', hpars', hgood', ?_⟩
  · simp [hf.2.2.1, hsrx]
  · simp [hf.2.1, hacc]
  · simp [hf.2.2.2.1, htag]
  · simp only [List.append_nil, future_tx]
    have : y.c.rx ++ (y.s2c ++ y.s.serviceReps.tx) ++ future y.s.serviceReps = y.c.rx ++ y.s2c ++ y.s.tx ++ future y.s := by
      simp only [List.append_assoc]
      rw [hpipe]
    rw [this]; exact hfeed

/-- **the invariant is preserved by every step of either party** -/
theorem inv_step (app : Req → AppResp) (reqs : List Req) (hwf : ∀ q ∈ reqs, WFReq app q) (y : Sys) (w : Who)
    (h : Inv app reqs y) : Inv app reqs (step app y w) := by
  obtain ⟨hb, k, h1 | ⟨q, h2⟩ | ⟨q, h3⟩⟩ := h
  · cases w
    · obtain ⟨hb', ⟨_, hi⟩ | ⟨q, _, hr⟩⟩ := stepClient_idle app reqs y k hb h1
      · exact ⟨hb', k, Or.inl hi⟩
      · exact ⟨hb', k, Or.inr (Or.inl ⟨q, hr⟩)⟩
    · obtain ⟨hb', hi⟩ := stepServer_idle app reqs y k hb h1
      exact ⟨hb', k, Or.inl hi⟩
  · cases w
    · obtain ⟨hb', hr⟩ := stepClient_requested app reqs y k q hb h2
      exact ⟨hb', k, Or.inr (Or.inl ⟨q, hr⟩)⟩
    · obtain ⟨hb', hr, _⟩ := stepServer_requested app reqs hwf y k q hb h2
      exact ⟨hb', k, Or.inr (Or.inr ⟨q, hr⟩)⟩
  · cases w
    · obtain ⟨hb', hi | ⟨hr, _⟩⟩ := stepClient_responding app reqs y k q hb h3
      · exact ⟨hb', k + 1, Or.inl hi⟩
      · exact ⟨hb', k, Or.inr (Or.inr ⟨q, hr⟩)⟩
    · obtain ⟨hb', hr, _⟩ := stepServer_responding app reqs y k q hb h3
      exact ⟨hb', k, Or.inr (Or.inr ⟨q, hr⟩)⟩

/-! ### progress -/

/-- service rounds a request costs at most -/
def cost (app : Req → AppResp) (q : Req) : Nat := (app q).pieces.length + 4

/-- rounds still needed for the requests from position `k` on -/
def tailCost (app : Req → AppResp) (reqs : List Req) (k : Nat) : Nat := ((reqs.drop k).map (cost app)).sum

theorem tailCost_get (app : Req → AppResp) (reqs : List Req) (k : Nat) (q : Req) (hq : reqs[k]? = some q) :
    tailCost app reqs k = cost app q + tailCost app reqs (k + 1) := by
  unfold tailCost; rw [drop_of_get reqs k q hq]; simp

theorem tailCost_end (app : Req → AppResp) (reqs : List Req) : tailCost app reqs reqs.length = 0 := by
  simp [tailCost]

/-- the phase the connection is in, with a bound `m` on the alternations still needed -/
def Rank (app : Req → AppResp) (reqs : List Req) (y : Sys) (m : Nat) : Prop :=
  ∃ k, (Idle app reqs y k ∧ tailCost app reqs k ≤ m)
    ∨ (∃ q, Requested app reqs y k q ∧ cost app q - 1 + tailCost app reqs (k + 1) ≤ m)
    ∨ (∃ q, Responding app reqs y k q ∧ serverWork y.s + 1 + tailCost app reqs (k + 1) ≤ m)

/-- no step of either party increases the bound -/
theorem step_rank (app : Req → AppResp) (reqs : List Req) (hwf : ∀ q ∈ reqs, WFReq app q) (y : Sys) (w : Who) (m : Nat)
    (hb : Base y) (h : Rank app reqs y m) : Base (step app y w) ∧ Rank app reqs (step app y w) m := by
  obtain ⟨k, ⟨h1, hm⟩ | ⟨q, h2, hm⟩ | ⟨q, h3, hm⟩⟩ := h
  · cases w
    · obtain ⟨hb', ⟨_, hi⟩ | ⟨q, hget, hr⟩⟩ := stepClient_idle app reqs y k hb h1
      · exact ⟨hb', k, Or.inl ⟨hi, hm⟩⟩
      · refine ⟨hb', k, Or.inr (Or.inl ⟨q, hr, ?_⟩)⟩
        rw [tailCost_get app reqs k q hget] at hm
        unfold cost at *; omega
    · obtain ⟨hb', hi⟩ := stepServer_idle app reqs y k hb h1
      exact ⟨hb', k, Or.inl ⟨hi, hm⟩⟩
  · cases w
    · obtain ⟨hb', hr⟩ := stepClient_requested app reqs y k q hb h2
      exact ⟨hb', k, Or.inr (Or.inl ⟨q, hr, hm⟩)⟩
    · obtain ⟨hb', hr, hwk⟩ := stepServer_requested app reqs hwf y k q hb h2
      refine ⟨hb', k, Or.inr (Or.inr ⟨q, hr, ?_⟩)⟩
      simp only [step]
      unfold cost at hm; omega
  · cases w
    · obtain ⟨hb', hi | ⟨hr, hwk, _⟩⟩ := stepClient_responding app reqs y k q hb h3
      · exact ⟨hb', k + 1, Or.inl ⟨hi, by omega⟩⟩
      · refine ⟨hb', k, Or.inr (Or.inr ⟨q, hr, ?_⟩)⟩
        simp only [step]; omega
    · obtain ⟨hb', hr, hwk, _⟩ := stepServer_responding app reqs y k q hb h3
      refine ⟨hb', k, Or.inr (Or.inr ⟨q, hr, ?_⟩)⟩
      simp only [step]; omega

/-- a client round followed by a server round lowers the bound by one -/
theorem pair_rank (app : Req → AppResp) (reqs : List Req) (hwf : ∀ q ∈ reqs, WFReq app q) (y : Sys) (m : Nat)
    (hb : Base y) (h : Rank app reqs y (m + 1)) :
    Base (stepServer app (stepClient y)) ∧ Rank app reqs (stepServer app (stepClient y)) m := by
  obtain ⟨k, ⟨h1, hm⟩ | ⟨q, h2, hm⟩ | ⟨q, h3, hm⟩⟩ := h
  · obtain ⟨hb', ⟨hk, hi⟩ | ⟨q, hget, hr⟩⟩ := stepClient_idle app reqs y k hb h1
    · -- everything delivered already
      have : Rank app reqs (stepClient y) m := ⟨k, Or.inl ⟨hi, by rw [hk, tailCost_end]; omega⟩⟩
      exact step_rank app reqs hwf _ Who.server m hb' this
    · have : Rank app reqs (stepClient y) m := by
        refine ⟨k, Or.inr (Or.inl ⟨q, hr, ?_⟩)⟩
        rw [tailCost_get app reqs k q hget] at hm
        unfold cost at *; omega
      exact step_rank app reqs hwf _ Who.server m hb' this
  · obtain ⟨hb', hr⟩ := stepClient_requested app reqs y k q hb h2
    obtain ⟨hb'', hr', hwk⟩ := stepServer_requested app reqs hwf _ k q hb' hr
    refine ⟨hb'', k, Or.inr (Or.inr ⟨q, hr', ?_⟩)⟩
    unfold cost at hm; omega
  · obtain ⟨hb', hi | ⟨hr, hwk, r, hr1, hne⟩⟩ := stepClient_responding app reqs y k q hb h3
    · have : Rank app reqs (stepClient y) m := ⟨k + 1, Or.inl ⟨hi, by omega⟩⟩
      exact step_rank app reqs hwf _ Who.server m hb' this
    · obtain ⟨hb'', hr', _, hstrict⟩ := stepServer_responding app reqs _ k q hb' hr
      have := hstrict r hr1 hne
      exact ⟨hb'', k, Or.inr (Or.inr ⟨q, hr', by omega⟩)⟩

/-- with bound 0 everything has been delivered -/
theorem rank_zero (app : Req → AppResp) (reqs : List Req) (y : Sys) (h : Rank app reqs y 0) :
    y.c.responses = reqs.map (expected app) ∧ y.c.waited = false := by
  obtain ⟨k, ⟨h1, hm⟩ | ⟨q, h2, hm⟩ | ⟨q, h3, hm⟩⟩ := h
  · have hk : k = reqs.length := by
      rcases Nat.lt_or_ge k reqs.length with hlt | hge
      · exfalso
        have hget : reqs[k]? = some reqs[k] := List.getElem?_eq_getElem hlt
        rw [tailCost_get app reqs k _ hget] at hm
        unfold cost at hm; omega
      · have := h1.1; omega
    refine ⟨?_, h1.2.1⟩
    rw [h1.2.2.2.1, hk, List.take_length]
  · unfold cost at hm; omega
  · omega

end Ioflo.KeepAlive
