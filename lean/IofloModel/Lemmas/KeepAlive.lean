import IofloModel.Model.KeepAlive
/-!
Helper lemmas for C31 (keep-alive model).
-/
namespace Ioflo.KeepAlive

/-- a responder that has not written its head yet will write a delimiting one -/
def WillFrame (r : Responder) : Prop := r.length.isSome = true ∨ r.chunkable = true

theorem write_heads (r : Responder) (tag : Nat) (msg : Bytes) :
    (r.headed = true → (r.write tag msg).2.2 = [])
    ∧ (r.headed = false → WillFrame r → ∀ f ∈ (r.write tag msg).2.2, f ≠ Framing.untilClose)
    ∧ (r.write tag msg).1.headed = true := by
  unfold Responder.write WillFrame
  cases hh : r.headed <;> cases hl : r.length <;> cases hc : r.chunkable <;> cases hk : r.chunked <;>
    simp_all <;> (try split) <;> simp_all

theorem start_willFrame (r : Responder) (cl : Option Nat) (h : r.chunkable = true) : WillFrame (r.start cl) := by
  unfold Responder.start WillFrame
  cases cl <;> simp [h]

theorem start_headed (r : Responder) (cl : Option Nat) : (r.start cl).headed = r.headed := by
  unfold Responder.start; cases cl <;> rfl

/-- `serviceOnce`: heads written are delimiting; afterwards either headed or still able to frame -/
theorem serviceOnce_heads (r : Responder) (tag : Nat) (script : List Bytes) (h : r.headed = false → WillFrame r) :
    (∀ f ∈ (r.serviceOnce tag script).2.2.2, f ≠ Framing.untilClose)
    ∧ ((r.serviceOnce tag script).1.headed = false → WillFrame (r.serviceOnce tag script).1) := by
  cases script with
  | nil =>
    simp only [Responder.serviceOnce]
    have hw := write_heads r tag []
    constructor
    · intro f hf
      cases hh : r.headed with
      | true => rw [hw.1 hh] at hf; simp at hf
      | false => exact hw.2.1 hh (h hh) f hf
    · intro hn; simp [hw.2.2] at hn
  | cons p ps =>
    simp only [Responder.serviceOnce]
    split
    · exact ⟨by simp, h⟩
    · have hw := write_heads r tag p
      constructor
      · intro f hf
        cases hh : r.headed with
        | true => rw [hw.1 hh] at hf; simp at hf
        | false => exact hw.2.1 hh (h hh) f hf
      · intro hn; simp [hw.2.2] at hn

/-- continuing the parser with more items -/
def Outcome.andThen (o : Outcome) (b : List Item) : Outcome :=
  match o with
  | .more cur => feed cur b
  | .done t body rest => .done t body (rest ++ b)
  | .stuck => .stuck

/-- the parser does not care how the items arrive: parsing `a ++ b` is parsing `a`, then `b` -/
theorem feed_append (a b : List Item) : ∀ cur, feed cur (a ++ b) = (feed cur a).andThen b := by
  induction a with
  | nil => intro cur; simp [feed, Outcome.andThen]
  | cons x xs ih =>
    intro cur
    match cur, x with
    | none, Item.head t f =>
      cases f with
      | length n =>
        cases n with
        | zero => simp [feed, Outcome.andThen]
        | succ m => simp only [List.cons_append, feed]; exact ih _
      | chunked => simp only [List.cons_append, feed]; exact ih _
      | untilClose => simp only [List.cons_append, feed]; exact ih _
    | none, Item.data _ => simp [feed, Outcome.andThen]
    | none, Item.term => simp [feed, Outcome.andThen]
    | some (t, .length n, acc), Item.data d =>
      simp only [List.cons_append, feed]
      split
      · simp only [Outcome.andThen]
        split <;> simp
      · exact ih _
    | some (t, .length n, acc), Item.head _ _ => simp [feed, Outcome.andThen]
    | some (t, .length n, acc), Item.term => simp [feed, Outcome.andThen]
    | some (t, .chunked, acc), Item.data d => simp only [List.cons_append, feed]; exact ih _
    | some (t, .chunked, acc), Item.term => simp [feed, Outcome.andThen]
    | some (t, .chunked, acc), Item.head _ _ => simp [feed, Outcome.andThen]
    | some (t, .untilClose, acc), Item.data d => simp only [List.cons_append, feed]; exact ih _
    | some (t, .untilClose, acc), Item.term => simp only [List.cons_append, feed]; exact ih _
    | some (t, .untilClose, acc), Item.head _ _ => simp only [List.cons_append, feed]; exact ih _


/-- everything a started responder will still queue while the application runs through `script` -/
def futureFrom (r : Responder) (tag : Nat) : List Bytes → List Item
  | [] => (r.serviceOnce tag []).2.2.1
  | p :: ps =>
    (r.serviceOnce tag (p :: ps)).2.2.1 ++
      (if (r.serviceOnce tag (p :: ps)).1.ended then [] else futureFrom (r.serviceOnce tag (p :: ps)).1 tag ps)

/-- the framing a responder announces in its head -/
def framingOf (r : Responder) : Framing :=
  match r.length with
  | some n => .length n
  | none => if r.chunkable then .chunked else .untilClose

/-- the responder once its head is written -/
def headedOf (r : Responder) : Responder := { r with headed := true, chunked := r.chunked || r.chunkable }

theorem write_unheaded (r : Responder) (tag : Nat) (msg : Bytes) (h : r.headed = false) :
    (r.write tag msg).1 = ((headedOf r).write tag msg).1
    ∧ (r.write tag msg).2.1 = Item.head tag (framingOf r) :: ((headedOf r).write tag msg).2.1 := by
  unfold Responder.write headedOf framingOf
  simp only [h]
  cases r.length <;> cases r.chunkable <;> cases r.chunked <;> simp <;> (try split) <;> (try simp) <;> (split <;> simp)

theorem serviceOnce_unheaded (r : Responder) (tag : Nat) (script : List Bytes) (h : r.headed = false)
    (hne : ∀ p ps, script = p :: ps → p ≠ []) :
    (r.serviceOnce tag script).1 = ((headedOf r).serviceOnce tag script).1
    ∧ (r.serviceOnce tag script).2.2.1 = Item.head tag (framingOf r) :: ((headedOf r).serviceOnce tag script).2.2.1 := by
  cases script with
  | nil =>
    have := write_unheaded r tag [] h
    simp only [Responder.serviceOnce, this.1, this.2]
    trivial
  | cons p ps =>
    have hp : p.isEmpty = false := by
      have := hne p ps rfl
      cases p <;> simp_all
    have := write_unheaded r tag p h
    simp only [Responder.serviceOnce, hp, Bool.false_eq_true, if_false, this.1, this.2]
    trivial

/-- an unheaded responder queues its head first, then what the headed one would queue -/
theorem futureFrom_unheaded (tag : Nat) (script : List Bytes) : ∀ (r : Responder), r.headed = false → r.ended = false →
    futureFrom r tag script = Item.head tag (framingOf r) :: futureFrom (headedOf r) tag script := by
  induction script with
  | nil =>
    intro r h _
    have := serviceOnce_unheaded r tag [] h (by intro p ps e; cases e)
    simp only [futureFrom, this.2]
  | cons p ps ih =>
    intro r h he
    by_cases hp : p = []
    · subst hp
      have e1 : r.serviceOnce tag ([] :: ps) = (r, ps, [], []) := by simp [Responder.serviceOnce]
      have e2 : (headedOf r).serviceOnce tag ([] :: ps) = (headedOf r, ps, [], []) := by simp [Responder.serviceOnce]
      have he' : (headedOf r).ended = false := by simpa [headedOf] using he
      simp only [futureFrom, e1, e2, he, he', List.nil_append, Bool.false_eq_true, if_false]
      exact ih r h he
    · have := serviceOnce_unheaded r tag (p :: ps) h (by intro p' ps' e; cases e; exact hp)
      simp only [futureFrom, this.1, this.2, List.cons_append]


theorem write_chunked (r : Responder) (tag : Nat) (msg : Bytes) (hh : r.headed = true) (hc : r.chunked = true) :
    r.write tag msg = (r, [if msg.isEmpty then Item.term else Item.data msg], []) := by
  unfold Responder.write
  simp [hh, hc]

/-- chunked mode, head already written: the remaining yields arrive as data items, then the terminator -/
theorem feed_future_chunked (tag : Nat) (ps : List Bytes) : ∀ (r : Responder) (acc : Bytes),
    r.headed = true → r.chunked = true → r.length = none → r.ended = false →
    feed (some (tag, .chunked, acc)) (futureFrom r tag ps) = .done tag (acc ++ ps.flatten) [] := by
  induction ps with
  | nil =>
    intro r acc hh hc _ _
    simp [futureFrom, Responder.serviceOnce, write_chunked r tag [] hh hc, feed]
  | cons p ps ih =>
    intro r acc hh hc hl he
    by_cases hp : p = []
    · subst hp
      have e1 : r.serviceOnce tag ([] :: ps) = (r, ps, [], []) := by simp [Responder.serviceOnce]
      simp only [futureFrom, e1, he, List.nil_append, Bool.false_eq_true, if_false]
      simpa using ih r acc hh hc hl he
    · have hpe : p.isEmpty = false := by cases p <;> simp_all
      have e1 : r.serviceOnce tag (p :: ps) = ({ r with ended := false }, ps, [Item.data p], []) := by
        simp [Responder.serviceOnce, hpe, write_chunked r tag p hh hc, hl, he]
      simp only [futureFrom, e1, Bool.false_eq_true, if_false, List.singleton_append, feed]
      have := ih { r with ended := false } (acc ++ p) hh hc hl rfl
      simpa using this

theorem write_length (r : Responder) (tag : Nat) (msg : Bytes) (L : Nat) (hh : r.headed = true) (hc : r.chunked = false)
    (hl : r.length = some L) (hs : r.size ≤ L) :
    r.write tag msg = ({ r with size := r.size + (msg.take (L - r.size)).length },
                       (if (msg.take (L - r.size)).isEmpty then [] else [Item.data (msg.take (L - r.size))]), []) := by
  unfold Responder.write
  simp only [hh, hc, hl, if_true, Bool.false_eq_true, if_false, List.nil_append]
  by_cases hgt : r.size + msg.length > L
  · have e : msg.length - (r.size + msg.length - L) = L - r.size := by omega
    simp only [hgt, if_true, e]
  · have e : msg.take (L - r.size) = msg := by
      apply List.take_of_length_le; omega
    simp only [hgt, if_false, e]

/-- Content-Length mode, head already written: the client gets exactly the first `L` bytes -/
theorem feed_future_length (tag L : Nat) (ps : List Bytes) : ∀ (r : Responder) (acc : Bytes),
    r.headed = true → r.chunked = false → r.length = some L → r.ended = false →
    r.size = acc.length → acc.length < L → L ≤ acc.length + ps.flatten.length →
    feed (some (tag, .length L, acc)) (futureFrom r tag ps) = .done tag ((acc ++ ps.flatten).take L) [] := by
  induction ps with
  | nil => intro r acc _ _ _ _ _ h1 h2; simp at h2; omega
  | cons p ps ih =>
    intro r acc hh hc hl he hsz hlt hle
    by_cases hp : p = []
    · subst hp
      have e1 : r.serviceOnce tag ([] :: ps) = (r, ps, [], []) := by simp [Responder.serviceOnce]
      simp only [futureFrom, e1, he, List.nil_append, Bool.false_eq_true, if_false]
      simpa using ih r acc hh hc hl he hsz hlt (by simpa using hle)
    · have hpe : p.isEmpty = false := by cases p <;> simp_all
      have hplen : 0 < p.length := by cases p <;> simp_all
      have hw := write_length r tag p L hh hc hl (by omega)
      have hmsg : (p.take (L - r.size)).isEmpty = false := by
        have : 0 < (p.take (L - r.size)).length := by rw [List.length_take]; omega
        cases h : p.take (L - r.size) with
        | nil => rw [h] at this; simp at this
        | cons _ _ => rfl
      by_cases hfin : L ≤ r.size + p.length
      · -- this write completes the body: the responder ends
        have hlen : (p.take (L - r.size)).length = L - r.size := by rw [List.length_take]; omega
        have e1 : (r.serviceOnce tag (p :: ps)).2.2.1 = [Item.data (p.take (L - r.size))]
            ∧ (r.serviceOnce tag (p :: ps)).1.ended = true := by
          simp only [Responder.serviceOnce, hpe, Bool.false_eq_true, if_false, hw, hmsg, hl, hlen]
          refine ⟨trivial, ?_⟩
          simp; omega
        simp only [futureFrom, e1.1, e1.2, if_true, List.append_nil, feed]
        have hacc : (acc ++ p.take (L - r.size)).length = L := by rw [List.length_append, hlen]; omega
        have hge : (acc ++ p.take (L - r.size)).length ≥ L := by omega
        simp only [hge, if_true]
        have hdrop : ((acc ++ p.take (L - r.size)).drop L) = [] := by
          apply List.drop_of_length_le; omega
        have htake : (acc ++ p.take (L - r.size)).take L = (acc ++ (p :: ps).flatten).take L := by
          rw [List.take_of_length_le (by omega)]
          simp only [List.flatten_cons]
          rw [List.take_append, List.take_append]
          have h1 : acc.take L = acc := List.take_of_length_le (by omega)
          rw [h1, hsz]
          congr 1
          have : L - acc.length - p.length = 0 := by omega
          simp [this]
        simp [hdrop, htake]
      · -- more to come
        have htk : p.take (L - r.size) = p := List.take_of_length_le (by omega)
        have e1 : r.serviceOnce tag (p :: ps) = ({ r with size := r.size + p.length, ended := false }, ps, [Item.data p], []) := by
          simp only [Responder.serviceOnce, hpe, Bool.false_eq_true, if_false, hw, htk, hl, he]
          have : ¬ (r.size + p.length ≥ L) := by omega
          simp [this]
        simp only [futureFrom, e1, Bool.false_eq_true, if_false, List.singleton_append, feed]
        have hnge : ¬ ((acc ++ p).length ≥ L) := by rw [List.length_append]; omega
        simp only [hnge, if_false]
        have := ih { r with size := r.size + p.length, ended := false } (acc ++ p) hh hc hl rfl
          (by simp [hsz]) (by rw [List.length_append]; omega)
          (by simp only [List.flatten_cons, List.length_append] at hle ⊢; omega)
        simpa using this

theorem future_length_zero (tag : Nat) (ps : List Bytes) : ∀ (r : Responder),
    r.headed = true → r.chunked = false → r.length = some 0 → r.size = 0 → r.ended = false →
    futureFrom r tag ps = [] := by
  induction ps with
  | nil =>
    intro r hh hc hl hs _
    simp [futureFrom, Responder.serviceOnce, write_length r tag [] 0 hh hc hl (by omega)]
  | cons p ps ih =>
    intro r hh hc hl hs he
    by_cases hp : p = []
    · subst hp
      have e1 : r.serviceOnce tag ([] :: ps) = (r, ps, [], []) := by simp [Responder.serviceOnce]
      simp only [futureFrom, e1, he, List.nil_append, Bool.false_eq_true, if_false]
      exact ih r hh hc hl hs he
    · have hpe : p.isEmpty = false := by cases p <;> simp_all
      have hw := write_length r tag p 0 hh hc hl (by omega)
      simp [futureFrom, Responder.serviceOnce, hpe, hw, hs, hl]

/-- the body a response is supposed to carry -/
def bodyOf (a : AppResp) : Bytes :=
  match a.cl with
  | none => a.pieces.flatten
  | some L => a.pieces.flatten.take L

/-- the application yields at least as many bytes as the Content-Length it announces -/
def WFApp (a : AppResp) : Prop :=
  match a.cl with
  | none => True
  | some L => L ≤ a.pieces.flatten.length

/-- the responder `Valet` hands to the application for an HTTP/1.1 request (new or `reset`) -/
def fresh : Responder := { chunkable := true }

/-- **the response stream round trip**: everything the responder queues for one request, fed to the client's
parser from its initial state, is exactly one response with the right tag and body, nothing left over -/
theorem stream_roundtrip (tag : Nat) (a : AppResp) (h : WFApp a) :
    feed none (futureFrom (fresh.start a.cl) tag a.pieces) = .done tag (bodyOf a) [] := by
  cases hcl : a.cl with
  | none =>
    have hr : fresh.start none = { fresh with length := none, started := true } := rfl
    rw [futureFrom_unheaded tag a.pieces (fresh.start none) rfl rfl]
    have hf : framingOf (fresh.start none) = .chunked := rfl
    rw [hf]
    simp only [feed]
    have := feed_future_chunked tag a.pieces (headedOf (fresh.start none)) [] rfl rfl rfl rfl
    simpa [bodyOf, hcl] using this
  | some L =>
    rw [futureFrom_unheaded tag a.pieces (fresh.start (some L)) rfl rfl]
    have hf : framingOf (fresh.start (some L)) = .length L := rfl
    rw [hf]
    have hwf : L ≤ a.pieces.flatten.length := by simpa [WFApp, hcl] using h
    cases L with
    | zero =>
      simp only [feed]
      rw [future_length_zero tag a.pieces (headedOf (fresh.start (some 0))) rfl rfl rfl rfl rfl]
      simp [bodyOf, hcl]
    | succ m =>
      simp only [feed]
      have := feed_future_length tag (m + 1) a.pieces (headedOf (fresh.start (some (m + 1)))) [] rfl rfl rfl rfl rfl
        (by simp) (by simpa using hwf)
      simpa [bodyOf, hcl] using this


theorem serviceOnce_nil_ended (r : Responder) (tag : Nat) : (r.serviceOnce tag []).1.ended = true := by
  simp [Responder.serviceOnce]

theorem serviceOnce_cons_script (r : Responder) (tag : Nat) (p : Bytes) (ps : List Bytes) :
    (r.serviceOnce tag (p :: ps)).2.1 = ps := by
  simp only [Responder.serviceOnce]; split <;> rfl

theorem serviceOnce_nil_script (r : Responder) (tag : Nat) : (r.serviceOnce tag []).2.1 = [] := by
  simp [Responder.serviceOnce]

/-- one service call queues a prefix of the future; the rest is the future of the new state -/
theorem futureFrom_step (r : Responder) (tag : Nat) (script : List Bytes) :
    futureFrom r tag script = (r.serviceOnce tag script).2.2.1 ++
      (if (r.serviceOnce tag script).1.ended then [] else futureFrom (r.serviceOnce tag script).1 tag (r.serviceOnce tag script).2.1) := by
  cases script with
  | nil => simp [futureFrom, serviceOnce_nil_ended]
  | cons p ps => simp only [futureFrom, serviceOnce_cons_script]

/-- what the server will still queue for the response it is producing -/
def future (s : Server) : List Item :=
  match s.resp with
  | none => []
  | some r => if r.ended then [] else futureFrom (if s.appStarted then r else r.start s.cl) s.tag s.script

theorem rearm_tx (s : Server) : s.rearm.tx = s.tx := by
  unfold Server.rearm; split <;> (try split) <;> rfl

theorem rearm_future (s : Server) : future s.rearm = future s := by
  unfold Server.rearm; split <;> (try split) <;> simp_all [future]

/-- `serviceRun` only moves items from the future into the transmit queue -/
theorem serviceRun_pipe (s : Server) : s.serviceRun.tx ++ future s.serviceRun = s.tx ++ future s := by
  unfold Server.serviceRun
  cases hr : s.resp with
  | none => simp
  | some r =>
    simp only []
    cases he : r.ended with
    | true => simp
    | false =>
      simp only [Bool.false_eq_true, if_false]
      have hf : future s = futureFrom (if s.appStarted then r else r.start s.cl) s.tag s.script := by
        simp [future, hr, he]
      rw [hf, futureFrom_step]
      simp [future, List.append_assoc]

theorem serviceReps_pipe (s : Server) : s.serviceReps.tx ++ future s.serviceReps = s.tx ++ future s := by
  unfold Server.serviceReps
  rw [rearm_tx, rearm_future, serviceRun_pipe]


/-- the responder (started, not ended) is in a state from which the rest of the response will come out right -/
def Good (r : Responder) (script : List Bytes) : Prop :=
  if r.headed then
    (r.chunked = true ∧ r.length = none)
    ∨ (r.chunked = false ∧ ∃ L, r.length = some L ∧ r.size < L ∧ L ≤ r.size + script.flatten.length)
  else
    r.size = 0 ∧ r.chunked = false ∧
      (match r.length with
       | some L => L ≤ script.flatten.length ∧ r.chunkable = false
       | none => r.chunkable = true)

theorem good_fresh (a : AppResp) (h : WFApp a) : Good (fresh.start a.cl) a.pieces := by
  unfold Good WFApp at *
  cases hcl : a.cl with
  | none => simp [Responder.start, fresh]
  | some L => simp [hcl] at h; simp [Responder.start, fresh, h]

theorem good_skip (r : Responder) (ps : List Bytes) (h : Good r ([] :: ps)) : Good r ps := by
  simpa [Good] using h

theorem good_headedOf (r : Responder) (script : List Bytes) (hu : r.headed = false) (h : Good r script) :
    (headedOf r).headed = true ∧
    (((headedOf r).chunked = true ∧ (headedOf r).length = none)
     ∨ ((headedOf r).chunked = false ∧ ∃ L, (headedOf r).length = some L ∧ (headedOf r).size = 0 ∧ L ≤ script.flatten.length)) := by
  unfold Good at h
  simp only [hu, Bool.false_eq_true, if_false] at h
  obtain ⟨hs, hc, hm⟩ := h
  refine ⟨rfl, ?_⟩
  cases hl : r.length with
  | none =>
    simp only [hl] at hm
    left; simp [headedOf, hm, hl]
  | some L =>
    simp only [hl] at hm
    right; exact ⟨by simp [headedOf, hc, hm.2], L, by simp [headedOf, hl], by simp [headedOf, hs], hm.1⟩

/-- a live responder has something left to say -/
theorem good_future_ne (tag : Nat) (script : List Bytes) : ∀ (r : Responder), Good r script → r.ended = false →
    futureFrom r tag script ≠ [] := by
  induction script with
  | nil =>
    intro r hg he
    cases hh : r.headed with
    | false => rw [futureFrom_unheaded tag [] r hh he]; simp
    | true =>
      unfold Good at hg
      simp only [hh, if_true] at hg
      rcases hg with ⟨hc, _⟩ | ⟨_, L, _, h1, h2⟩
      · simp [futureFrom, Responder.serviceOnce, write_chunked r tag [] hh hc]
      · simp at h2; omega
  | cons p ps ih =>
    intro r hg he
    cases hh : r.headed with
    | false => rw [futureFrom_unheaded tag (p :: ps) r hh he]; simp
    | true =>
      by_cases hp : p = []
      · subst hp
        have e1 : r.serviceOnce tag ([] :: ps) = (r, ps, [], []) := by simp [Responder.serviceOnce]
        simp only [futureFrom, e1, he, List.nil_append, Bool.false_eq_true, if_false]
        exact ih r (good_skip r ps hg) he
      · have hpe : p.isEmpty = false := by cases p <;> simp_all
        have hplen : 0 < p.length := by cases p <;> simp_all
        unfold Good at hg
        simp only [hh, if_true] at hg
        rcases hg with ⟨hc, _⟩ | ⟨hc, L, hl, h1, h2⟩
        · simp [futureFrom, Responder.serviceOnce, hpe, write_chunked r tag p hh hc]
        · have hw := write_length r tag p L hh hc hl (by omega)
          have hmsg : (p.take (L - r.size)).isEmpty = false := by
            have : 0 < (p.take (L - r.size)).length := by rw [List.length_take]; omega
            cases h : p.take (L - r.size) with
            | nil => rw [h] at this; simp at this
            | cons _ _ => rfl
          simp [futureFrom, Responder.serviceOnce, hpe, hw, hmsg]

/-- headed responders: one service call keeps the responder good as long as it has not ended -/
theorem good_step_headed (tag : Nat) (r : Responder) (script : List Bytes) (hh : r.headed = true)
    (hg : Good r script) (he : r.ended = false) (hne : (r.serviceOnce tag script).1.ended = false) :
    Good (r.serviceOnce tag script).1 (r.serviceOnce tag script).2.1 := by
  cases script with
  | nil => simp [Responder.serviceOnce] at hne
  | cons p ps =>
    by_cases hp : p = []
    · subst hp
      have e1 : r.serviceOnce tag ([] :: ps) = (r, ps, [], []) := by simp [Responder.serviceOnce]
      rw [e1]; exact good_skip r ps hg
    · have hpe : p.isEmpty = false := by cases p <;> simp_all
      have hplen : 0 < p.length := by cases p <;> simp_all
      have hg' := hg
      unfold Good at hg'
      simp only [hh, if_true] at hg'
      rcases hg' with ⟨hc, hl⟩ | ⟨hc, L, hl, h1, h2⟩
      · have e1 : r.serviceOnce tag (p :: ps) = ({ r with ended := false }, ps, [Item.data p], []) := by
          simp [Responder.serviceOnce, hpe, write_chunked r tag p hh hc, hl, he]
        rw [e1]
        unfold Good
        simp [hh, hc, hl]
      · have hw := write_length r tag p L hh hc hl (by omega)
        have hlen : (p.take (L - r.size)).length = min (L - r.size) p.length := List.length_take
        simp only [Responder.serviceOnce, hpe, Bool.false_eq_true, if_false, hw, hl] at hne ⊢
        simp only [he, Bool.false_or, decide_eq_false_iff_not, Nat.not_le, ge_iff_le] at hne
        unfold Good
        simp only [hh, if_true, hc, Bool.false_eq_true, false_and, false_or, true_and]
        refine ⟨L, rfl, hne, ?_⟩
        simp only [List.flatten_cons, List.length_append] at h2
        rw [hlen] at hne ⊢
        omega

/-- any started responder: one service call keeps it good as long as it has not ended -/
theorem good_step (tag : Nat) (r : Responder) (script : List Bytes)
    (hg : Good r script) (he : r.ended = false) (hne : (r.serviceOnce tag script).1.ended = false) :
    Good (r.serviceOnce tag script).1 (r.serviceOnce tag script).2.1 := by
  cases hh : r.headed with
  | true => exact good_step_headed tag r script hh hg he hne
  | false =>
    cases script with
    | nil => simp [Responder.serviceOnce] at hne
    | cons p ps =>
      by_cases hp : p = []
      · subst hp
        have e1 : r.serviceOnce tag ([] :: ps) = (r, ps, [], []) := by simp [Responder.serviceOnce]
        rw [e1]; exact good_skip r ps hg
      · -- the head goes out with this write: same state and script as for the headed responder
        have hso := serviceOnce_unheaded r tag (p :: ps) hh (by intro p' ps' e; cases e; exact hp)
        have hscript : (r.serviceOnce tag (p :: ps)).2.1 = ((headedOf r).serviceOnce tag (p :: ps)).2.1 := by
          rw [serviceOnce_cons_script, serviceOnce_cons_script]
        rw [hso.1, hscript]
        have hgh := good_headedOf r (p :: ps) hh hg
        have hgood : Good (headedOf r) (p :: ps) ∨ ((headedOf r).chunked = false ∧ (headedOf r).length = some 0 ∧ (headedOf r).size = 0) := by
          rcases hgh.2 with h1 | ⟨hc, L, hl, hs, hle⟩
          · left; unfold Good; simp only [hgh.1, if_true]; left; exact h1
          · cases L with
            | zero => right; exact ⟨hc, hl, hs⟩
            | succ m =>
              left; unfold Good; simp only [hgh.1, if_true]
              right; exact ⟨hc, m + 1, hl, by omega, by omega⟩
        rcases hgood with hgood | ⟨hc, hl, hs⟩
        · exact good_step_headed tag (headedOf r) (p :: ps) hgh.1 hgood (by simpa [headedOf] using he) (by rw [← hso.1]; exact hne)
        · -- Content-Length 0: the write ends the response
          exfalso
          have hpe : p.isEmpty = false := by cases p <;> simp_all
          have hw := write_length (headedOf r) tag p 0 hgh.1 hc hl (by omega)
          rw [hso.1] at hne
          simp [Responder.serviceOnce, hpe, hw, hs, hl] at hne


end Ioflo.KeepAlive
