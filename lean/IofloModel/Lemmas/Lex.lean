import IofloModel.Model.Lex
/-!
Helper lemmas for C16 (layout independence of the FloScript reader).
Three layers: characters (`rstripBy`, `strip`, `chunks`), runs (`gather`/`tokenize` on the physical
lines of one logical line), grouping (`contLoop`/`mainLoop` over runs), plus `fileLines ∘ flatten`.
-/
namespace Ioflo.Lex

/-! ## rstripBy / strip -/

theorem rstripBy_eq_nil_of_all {p : Char → Bool} {s : Str} (h : ∀ c ∈ s, p c = true) :
    rstripBy p s = [] := by
  induction s with
  | nil => rfl
  | cons c cs ih =>
    have h1 := ih (fun x hx => h x (List.mem_cons_of_mem _ hx))
    have h2 := h c (List.mem_cons_self ..)
    simp [rstripBy, h1, h2]

theorem all_of_rstripBy_eq_nil {p : Char → Bool} {s : Str} (h : rstripBy p s = []) :
    ∀ c ∈ s, p c = true := by
  induction s with
  | nil => intro c hc; cases hc
  | cons c cs ih =>
    unfold rstripBy at h
    split at h
    · rename_i hh
      simp at hh
      intro x hx
      rcases List.mem_cons.mp hx with rfl | hx
      · exact hh.2
      · exact ih (by simpa using hh.1) x hx
    · cases h

theorem rstripBy_append_all {p : Char → Bool} (s : Str) {t : Str} (h : ∀ c ∈ t, p c = true) :
    rstripBy p (s ++ t) = rstripBy p s := by
  induction s with
  | nil => simp [rstripBy_eq_nil_of_all h, rstripBy]
  | cons c cs ih => simp [rstripBy, ih]

theorem rstripBy_append_of_ne {p : Char → Bool} (s : Str) {t : Str} (h : rstripBy p t ≠ []) :
    rstripBy p (s ++ t) = s ++ rstripBy p t := by
  induction s with
  | nil => rfl
  | cons c cs ih =>
    have : rstripBy p (cs ++ t) ≠ [] := by rw [ih]; simp [h]
    rw [List.cons_append, rstripBy]
    have e : (rstripBy p (cs ++ t)).isEmpty = false := by simpa using this
    rw [e, ih]; simp

theorem mem_of_mem_rstripBy {p : Char → Bool} {s : Str} {x : Char} (h : x ∈ rstripBy p s) : x ∈ s := by
  induction s with
  | nil => simp [rstripBy] at h
  | cons c cs ih =>
    unfold rstripBy at h
    split at h
    · cases h
    · rcases List.mem_cons.mp h with rfl | h
      · exact List.mem_cons_self ..
      · exact List.mem_cons_of_mem _ (ih h)

/-- a string whose last character (if any) does not satisfy `p` is unchanged -/
theorem rstripBy_eq_self {p : Char → Bool} {s : Str} (h : ∀ c, s.getLast? = some c → p c = false) :
    rstripBy p s = s := by
  induction s with
  | nil => rfl
  | cons c cs ih =>
    cases cs with
    | nil =>
      have := h c (by simp)
      simp [rstripBy, this]
    | cons d ds =>
      have h' : ∀ x, (d :: ds).getLast? = some x → p x = false := by
        intro x hx; apply h; simpa [List.getLast?_cons_cons] using hx
      have e := ih h'
      rw [rstripBy, e]; simp

theorem strip_append_ws (x : Str) {r : Str} (hr : ∀ c ∈ r, isPySpace c = true) :
    strip (x ++ r) = strip x := by
  unfold strip rstrip; rw [rstripBy_append_all x hr]

theorem lstrip_ws_append {l : Str} (hl : ∀ c ∈ l, isPySpace c = true) (x : Str) :
    lstrip (l ++ x) = lstrip x := by
  unfold lstrip; rw [List.dropWhile_append_of_pos hl]

theorem strip_ws_append {l : Str} (hl : ∀ c ∈ l, isPySpace c = true) (x : Str) :
    strip (l ++ x) = strip x := by
  unfold strip rstrip
  by_cases h : rstripBy isPySpace x = []
  · have hx := all_of_rstripBy_eq_nil h
    have : rstripBy isPySpace (l ++ x) = [] := by
      apply rstripBy_eq_nil_of_all
      intro c hc; rcases List.mem_append.mp hc with hc | hc
      · exact hl c hc
      · exact hx c hc
    rw [this, h]
  · rw [rstripBy_append_of_ne l h, lstrip_ws_append hl]

/-! ## facts about well-formed tokens -/

structure TokFacts (t : Str) : Prop where
  head : ∃ c cs, t = c :: cs ∧ isPySpace c = false ∧ c ≠ '#'
  last : ∀ c, t.getLast? = some c → isPySpace c = false ∧ c ≠ '\\'
  nonl : ∀ c ∈ t, c ≠ '\n' ∧ c ≠ '\r'
  chunk : ∀ s, (s = [] ∨ ∃ s', s = ' ' :: s') → chunks (t ++ s) = t :: chunks s

theorem isPySpace_nl : isPySpace '\n' = true := by decide
theorem isPySpace_cr : isPySpace '\r' = true := by decide
theorem isPySpace_sp : isPySpace ' ' = true := by decide

theorem takeWhile_plain_stop {s : Str} (h : s = [] ∨ ∃ s', s = ' ' :: s') :
    s.takeWhile isPlain = [] ∧ s.dropWhile isPlain = s := by
  rcases h with rfl | ⟨s', rfl⟩
  · simp
  · constructor <;> simp [isPlain]

theorem plain_facts {t : Str} (h : plainOK t = true) : TokFacts t := by
  unfold plainOK at h
  simp only [Bool.and_eq_true, Bool.not_eq_true', bne_iff_ne, ne_eq, List.all_eq_true] at h
  obtain ⟨⟨⟨hne, hall⟩, hhd⟩, hlast⟩ := h
  cases t with
  | nil => simp at hne
  | cons c cs =>
    have hc := hall c (List.mem_cons_self ..)
    have hcs : ∀ x ∈ cs, isPlain x = true := fun x hx => (hall x (List.mem_cons_of_mem _ hx)).1
    have hhash : c ≠ '#' := by intro e; subst e; simp at hhd
    refine ⟨⟨c, cs, rfl, hc.2, hhash⟩, ?_, ?_, ?_⟩
    · intro x hx
      have hm : x ∈ c :: cs := List.mem_of_getLast? hx
      refine ⟨(hall x hm).2, ?_⟩
      intro e; subst e; exact hlast hx
    · intro x hx
      have := (hall x hx).2
      constructor
      · intro e; subst e; simp [isPySpace_nl] at this
      · intro e; subst e; simp [isPySpace_cr] at this
    · intro s hs
      have ⟨e1, e2⟩ := takeWhile_plain_stop hs
      have hp := hc.1
      simp only [isPlain, Bool.and_eq_true, bne_iff_ne, ne_eq] at hp
      rw [List.cons_append, chunks]
      have h1 : (c == '#') = false := by simpa using hhash
      have h2 : (c == '"' || c == '\'') = false := by simp [hp.1.2, hp.2]
      have h3 : (c == ' ') = false := by simpa using hp.1.1
      simp only [h1, h2, h3, Bool.false_eq_true, if_false]
      rw [List.takeWhile_append_of_pos hcs, List.dropWhile_append_of_pos hcs, e1, e2]
      simp

theorem closeQuote_append {q : Char} {ins : Str} (h : ∀ x ∈ ins, x ≠ q) (s : Str) :
    closeQuote q (ins ++ q :: s) = some (ins, s) := by
  induction ins with
  | nil => simp [closeQuote]
  | cons c cs ih =>
    have hc : (c == q) = false := by simpa using h c (List.mem_cons_self ..)
    rw [List.cons_append, closeQuote, hc, ih (fun x hx => h x (List.mem_cons_of_mem _ hx))]
    simp

theorem quoted_facts {t : Str} (h : quotedOK t = true) : TokFacts t := by
  unfold quotedOK at h
  cases t with
  | nil => simp at h
  | cons q rest =>
    simp only [Bool.and_eq_true, Bool.or_eq_true, beq_iff_eq, List.all_eq_true, bne_iff_ne, ne_eq] at h
    obtain ⟨⟨hq, hl⟩, hall⟩ := h
    obtain ⟨ins, rfl⟩ := List.getLast?_eq_some_iff.mp hl
    have hins : ∀ x ∈ ins, x ≠ q ∧ x ≠ '\n' ∧ x ≠ '\r' := by
      intro x hx; have := hall x (by simpa using hx); exact ⟨this.1.1, this.1.2, this.2⟩
    have hqs : isPySpace q = false ∧ q ≠ '#' ∧ q ≠ '\\' ∧ q ≠ '\n' ∧ q ≠ '\r' := by
      rcases hq with rfl | rfl <;> decide
    refine ⟨⟨q, ins ++ [q], rfl, hqs.1, hqs.2.1⟩, ?_, ?_, ?_⟩
    · intro x hx
      have : x = q := by
        have e : (q :: (ins ++ [q])).getLast? = some q := by
          rw [← List.cons_append, List.getLast?_concat]
        rw [e] at hx; exact (Option.some.inj hx).symm
      subst this; exact ⟨hqs.1, hqs.2.2.1⟩
    · intro x hx
      rcases List.mem_cons.mp hx with rfl | hx
      · exact ⟨hqs.2.2.2.1, hqs.2.2.2.2⟩
      · rcases List.mem_append.mp hx with hx | hx
        · exact (hins x hx).2
        · simp at hx; subst hx; exact ⟨hqs.2.2.2.1, hqs.2.2.2.2⟩
    · intro s _
      rw [List.cons_append, chunks]
      have h1 : (q == '#') = false := by simpa using hqs.2.1
      have h2 : (q == '"' || q == '\'') = true := by simpa using hq
      simp only [h1, h2, Bool.false_eq_true, if_false, if_true]
      have hc := closeQuote_append (fun x hx => (hins x hx).1) s
      rw [List.append_assoc, List.singleton_append]
      split
      · rename_i i a he; rw [hc] at he; cases he; rfl
      · rename_i he; rw [hc] at he; cases he

theorem tok_facts {t : Str} (h : tokOK t = true) : TokFacts t := by
  unfold tokOK at h
  rcases Bool.or_eq_true_iff.mp h with h | h
  · exact plain_facts h
  · exact quoted_facts h

/-! ## spaced token strings

`Sp b ts s`: the string `s` consists of the well-formed tokens `ts`, each followed by the end or a
space, with any number of spaces around them; when `b` it may end in a `#` comment. -/

inductive Sp (b : Bool) : List Str → Str → Prop
  | nil : Sp b [] []
  | sp {ts s} : Sp b ts s → Sp b ts (' ' :: s)
  | com {c} : b = true → (∀ x ∈ c, x ≠ '\n') → Sp b [] ('#' :: c)
  | tok {t ts s} : tokOK t = true → Sp b ts s → (s = [] ∨ ∃ s', s = ' ' :: s') → Sp b (t :: ts) (t ++ s)

theorem Sp.mono {ts s} (h : Sp false ts s) : Sp true ts s := by
  induction h with
  | nil => exact .nil
  | sp _ ih => exact .sp ih
  | com hb _ => cases hb
  | tok ht _ hs ih => exact .tok ht ih hs

theorem Sp.spaces {b ts s} (n : Nat) (h : Sp b ts s) : Sp b ts (List.replicate n ' ' ++ s) := by
  induction n with
  | zero => simpa using h
  | succ n ih => rw [List.replicate_succ, List.cons_append]; exact .sp ih

/-- what the scanner and the comment cut make of a spaced token string -/
theorem Sp.lex {b ts s} (h : Sp b ts s) : cutComment (chunks s) = ts := by
  induction h with
  | nil => simp [chunks, cutComment]
  | sp _ ih =>
    rw [chunks]; simpa using ih
  | @com c _ hc =>
    rw [chunks]
    have hp : ∀ x ∈ c, (fun x => x != '\n') x = true := by intro x hx; simpa using hc x hx
    have e1 : List.takeWhile (fun x => x != '\n') c = c := by
      have := List.takeWhile_append_of_pos (l₂ := []) hp; simpa using this
    have e2 : List.dropWhile (fun x => x != '\n') c = [] := by
      have := List.dropWhile_append_of_pos (l₂ := []) hp; simpa using this
    simp [e1, e2, chunks, cutComment]
  | @tok t ts s ht _ hs ih =>
    have f := tok_facts ht
    rw [f.chunk s hs]
    obtain ⟨c, cs, rfl, _, hh⟩ := f.head
    simp [cutComment, hh, ih]

/-- appending: the first string has no comment, the second is empty or starts with a space -/
theorem Sp.append {b ts₁ s₁ ts₂ s₂} (h₁ : Sp false ts₁ s₁) (h₂ : Sp b ts₂ s₂)
    (hs : s₂ = [] ∨ ∃ s', s₂ = ' ' :: s') : Sp b (ts₁ ++ ts₂) (s₁ ++ s₂) := by
  induction h₁ with
  | nil => simpa using h₂
  | sp _ ih => exact .sp ih
  | com hb _ => cases hb
  | @tok t ts s ht _ hss ih =>
    rw [List.cons_append, List.append_assoc]
    refine .tok ht ih ?_
    rcases hss with rfl | ⟨s', rfl⟩
    · simpa using hs
    · right; exact ⟨s' ++ s₂, rfl⟩

theorem Sp.of_lstrip {b ts s} (h : Sp b ts s) : Sp b ts (Lex.lstrip s) := by
  induction h with
  | nil => exact .nil
  | sp _ ih => simpa [Lex.lstrip, isPySpace_sp] using ih
  | com hb hc => simpa [Lex.lstrip, show isPySpace '#' = false by decide] using Sp.com hb hc
  | @tok t ts s ht hsp hs _ =>
    obtain ⟨c, cs, rfl, hc, _⟩ := (tok_facts ht).head
    have : Lex.lstrip (c :: cs ++ s) = c :: cs ++ s := by simp [Lex.lstrip, hc]
    rw [this]; exact .tok ht hsp hs

theorem Sp.nil_of_nil' {b ts s} (h : Sp b ts s) : s = [] → ts = [] := by
  cases h with
  | nil => intro _; rfl
  | sp _ => intro e; cases e
  | com _ _ => intro e; cases e
  | tok ht _ _ =>
    obtain ⟨c, cs, rfl, _, _⟩ := (tok_facts ht).head
    intro e; simp at e

theorem Sp.nil_of_nil {b ts} (h : Sp b ts []) : ts = [] := Sp.nil_of_nil' h rfl

theorem rstrip_tok_append {t : Str} (ht : tokOK t = true) (s : Str) :
    rstrip (t ++ s) = t ++ rstrip s := by
  have f := tok_facts ht
  have ht' : rstripBy isPySpace t = t := rstripBy_eq_self (fun c hc => (f.last c hc).1)
  unfold rstrip
  by_cases h : rstripBy isPySpace s = []
  · rw [rstripBy_append_all t (all_of_rstripBy_eq_nil h), ht', h]; simp
  · exact rstripBy_append_of_ne t h

theorem Sp.of_rstrip {b ts s} (h : Sp b ts s) : Sp b ts (Lex.rstrip s) := by
  induction h with
  | nil => exact .nil
  | @sp ts s _ ih =>
    unfold Lex.rstrip at ih ⊢
    rw [rstripBy]
    split
    · rename_i hh
      simp at hh
      rw [hh.1] at ih
      rw [Sp.nil_of_nil ih]; exact .nil
    · exact .sp ih
  | @com c hb hc =>
    unfold Lex.rstrip
    rw [rstripBy]
    simp only [show isPySpace '#' = false by decide, Bool.and_false, Bool.false_eq_true, if_false]
    exact .com hb (fun x hx => hc x (mem_of_mem_rstripBy hx))
  | @tok t ts s ht _ hs ih =>
    rw [rstrip_tok_append ht]
    refine .tok ht ih ?_
    rcases hs with rfl | ⟨s', rfl⟩
    · left; rfl
    · unfold Lex.rstrip; rw [rstripBy]
      split
      · left; rfl
      · right; exact ⟨_, rfl⟩

theorem Sp.of_strip {b ts s} (h : Sp b ts s) : Sp b ts (Lex.strip s) := h.of_rstrip.of_lstrip

/-- the tokenizer's last three steps on a spaced token string -/
theorem Sp.tokensOf_eq {b ts s} (h : Sp b ts s) : Lex.tokensOf s = ts := h.of_strip.lex

theorem Sp.of_body {toks : List (Nat × Str)} (h : ∀ p ∈ toks, tokOK p.2 = true) :
    Sp false (toks.map (·.2)) (Lex.body toks) := by
  fun_induction Lex.body toks with
  | case1 => exact .nil
  | case2 n t =>
    have := Sp.tok (b := false) (h (n, t) (by simp)) .nil (Or.inl rfl)
    simpa using this
  | case3 m t n u rest ih =>
    have ih' := ih (fun p hp => h p (List.mem_cons_of_mem _ hp))
    have h2 : Sp false (((n, u) :: rest).map (·.2)) (List.replicate (n + 1) ' ' ++ Lex.body ((n, u) :: rest)) :=
      Sp.spaces _ ih'
    refine .tok (h (m, t) (by simp)) h2 ?_
    right; exact ⟨_, by rw [List.replicate_succ]; rfl⟩

/-! ## one run (logical line) -/

/-- does not end with a backslash -/
def LastOK (x : Str) : Prop := ∀ c, x.getLast? = some c → c ≠ '\\'
/-- contains no line end -/
def NoNl (x : Str) : Prop := ∀ c ∈ x, c ≠ '\n' ∧ c ≠ '\r'

theorem LastOK.append {a b : Str} (ha : LastOK a) (hb : LastOK b) : LastOK (a ++ b) := by
  intro c hc
  rw [List.getLast?_append] at hc
  cases h : b.getLast? with
  | none => rw [h] at hc; exact ha c (by simpa using hc)
  | some d => rw [h] at hc; simp at hc; subst hc; exact hb d h

theorem LastOK.of_all {x : Str} (h : ∀ c ∈ x, c ≠ '\\') : LastOK x :=
  fun c hc => h c (List.mem_of_getLast? hc)

theorem NoNl.append {a b : Str} (ha : NoNl a) (hb : NoNl b) : NoNl (a ++ b) := by
  intro c hc; rcases List.mem_append.mp hc with h | h
  · exact ha c h
  · exact hb c h

theorem indent_facts {c : Char} (h : isIndent c = true) :
    isPySpace c = true ∧ c ≠ '\n' ∧ c ≠ '\r' ∧ c ≠ '\\' := by
  simp only [isIndent, Bool.and_eq_true, bne_iff_ne, ne_eq] at h
  refine ⟨h.1.1, h.1.2, h.2, ?_⟩
  intro e; subst e; have := h.1.1; revert this; decide

theorem spaces_facts (n : Nat) :
    LastOK (List.replicate n ' ') ∧ NoNl (List.replicate n ' ') := by
  constructor
  · apply LastOK.of_all; intro c hc; rw [List.mem_replicate] at hc; rw [hc.2]; decide
  · intro c hc; rw [List.mem_replicate] at hc; rw [hc.2]; decide

theorem body_facts {toks : List (Nat × Str)} (h : ∀ p ∈ toks, tokOK p.2 = true) :
    LastOK (body toks) ∧ NoNl (body toks) := by
  fun_induction body toks with
  | case1 => exact ⟨fun c hc => by simp at hc, fun c hc => by simp at hc⟩
  | case2 n t =>
    have f := tok_facts (h (n, t) (by simp))
    exact ⟨fun c hc => (f.last c hc).2, f.nonl⟩
  | case3 m t n u rest ih =>
    have f := tok_facts (h (m, t) (by simp))
    have ih' := ih (fun p hp => h p (List.mem_cons_of_mem _ hp))
    have sp := spaces_facts (n + 1)
    exact ⟨LastOK.append (fun c hc => (f.last c hc).2) (LastOK.append sp.1 ih'.1),
           NoNl.append f.nonl (NoNl.append sp.2 ih'.2)⟩

structure SegFacts (s : Seg) : Prop where
  lead : ∀ c ∈ s.lead, isPySpace c = true
  trail : ∀ c ∈ s.trail, isPySpace c = true
  toks : ∀ p ∈ s.toks, tokOK p.2 = true
  leadOK : LastOK s.lead ∧ NoNl s.lead
  trailOK : LastOK s.trail ∧ NoNl s.trail

theorem seg_facts {s : Seg} (h : s.ok = true) : SegFacts s := by
  simp only [Seg.ok, Bool.and_eq_true, List.all_eq_true] at h
  obtain ⟨⟨hl, ht⟩, hk⟩ := h
  exact ⟨fun c hc => (indent_facts (hl c hc)).1, fun c hc => (indent_facts (ht c hc)).1, hk,
    ⟨LastOK.of_all (fun c hc => (indent_facts (hl c hc)).2.2.2),
      fun c hc => ⟨(indent_facts (hl c hc)).2.1, (indent_facts (hl c hc)).2.2.1⟩⟩,
    ⟨LastOK.of_all (fun c hc => (indent_facts (ht c hc)).2.2.2),
      fun c hc => ⟨(indent_facts (ht c hc)).2.1, (indent_facts (ht c hc)).2.2.1⟩⟩⟩

theorem seg_text_facts {s : Seg} (h : s.ok = true) :
    LastOK s.text ∧ NoNl s.text ∧ Sp false s.tokens (strip s.text) := by
  have f := seg_facts h
  have b := body_facts f.toks
  refine ⟨LastOK.append f.leadOK.1 (LastOK.append b.1 f.trailOK.1),
          NoNl.append f.leadOK.2 (NoNl.append b.2 f.trailOK.2), ?_⟩
  unfold Seg.text
  rw [strip_ws_append f.lead, strip_append_ws _ f.trail]
  exact (Sp.of_body f.toks).of_strip

theorem endsBsNl_nl {x : Str} (h : endsBsNl (x ++ ['\n']) = true) : x.getLast? = some '\\' := by
  unfold endsBsNl at h
  rw [List.isSuffixOf_iff_suffix] at h
  obtain ⟨p, hp⟩ := h
  have : (p ++ ['\\']) ++ ['\n'] = x ++ ['\n'] := by simpa using hp
  have := List.append_inj_left' this rfl
  rw [← this]; simp

theorem endsBsNl_false_of_lastOK {x : Str} (h : LastOK x) (hn : NoNl x) : endsBsNl (x ++ ['\n']) = false := by
  cases e : endsBsNl (x ++ ['\n']) with
  | false => rfl
  | true => exact absurd rfl (h _ (endsBsNl_nl e))

/-- the segment `tokenize` saves for a physical line ending in backslashes -/
def segOf (line : Str) : Str := strip (rstripBs (rstrip line))

theorem midLine_facts {m : Seg × Nat} (h : m.1.ok = true) :
    endsBsNl (midLine m) = true ∧ Sp false m.1.tokens (segOf (midLine m)) := by
  obtain ⟨hl, hn, hsp⟩ := seg_text_facts h
  constructor
  · unfold endsBsNl midLine
    rw [List.isSuffixOf_iff_suffix]
    refine ⟨m.1.text ++ List.replicate m.2 '\\', ?_⟩
    rw [List.replicate_succ']; simp
  · unfold segOf midLine
    have e1 : rstrip (m.1.text ++ (List.replicate (m.2 + 1) '\\' ++ ['\n']))
        = m.1.text ++ List.replicate (m.2 + 1) '\\' := by
      unfold rstrip
      rw [← List.append_assoc, rstripBy_append_all _ (by intro c hc; simp at hc; subst hc; decide)]
      apply rstripBy_eq_self
      intro c hc
      rw [List.replicate_succ', ← List.append_assoc, List.getLast?_concat] at hc
      cases hc; decide
    have e2 : rstripBs (m.1.text ++ List.replicate (m.2 + 1) '\\') = m.1.text := by
      unfold rstripBs
      rw [rstripBy_append_all _ (by intro c hc; rw [List.mem_replicate] at hc; simp [hc.2])]
      apply rstripBy_eq_self
      intro c hc; simpa using hl c hc
    rw [e1, e2]; exact hsp

theorem comment_sp {toks : List (Nat × Str)} {gap : Nat} {text : Str}
    (ht : ∀ p ∈ toks, tokOK p.2 = true) (hg : (toks.isEmpty || gap != 0) = true)
    (hc : ∀ x ∈ text, x ≠ '\n') :
    Sp true (toks.map (·.2)) (body toks ++ (List.replicate gap ' ' ++ '#' :: text)) := by
  have h1 : Sp true [] (List.replicate gap ' ' ++ '#' :: text) := Sp.spaces _ (.com rfl hc)
  cases toks with
  | nil => simpa [body] using h1
  | cons p ps =>
    have : gap ≠ 0 := by simpa using hg
    obtain ⟨g, rfl⟩ := Nat.exists_eq_succ_of_ne_zero this
    have := Sp.append (Sp.of_body ht) h1 (Or.inr ⟨_, by rw [List.replicate_succ]; rfl⟩)
    simpa using this

theorem ending_facts {r : Run} (h : r.ok = true) :
    LastOK r.lastText ∧ NoNl r.lastText ∧ Sp true r.last.tokens (strip (r.lastText ++ ['\n'])) := by
  simp only [Run.ok, Bool.and_eq_true] at h
  obtain ⟨⟨⟨_, hs⟩, he⟩, hg⟩ := h
  have hnl : ∀ c ∈ ['\n'], isPySpace c = true := by intro c hc; simp at hc; subst hc; decide
  rw [strip_append_ws _ hnl]
  unfold Run.lastText
  cases hE : r.ending with
  | plain =>
    obtain ⟨a, b, c⟩ := seg_text_facts hs
    exact ⟨a, b, c.mono⟩
  | comment gap text =>
    rw [hE] at he
    simp only [Ending.ok, Bool.and_eq_true, List.all_eq_true, bne_iff_ne, ne_eq] at he
    have f := seg_facts hs
    have b := body_facts f.toks
    have sp := spaces_facts gap
    have hcom : LastOK ('#' :: text) := by
      intro c hc
      cases text with
      | nil => simp at hc; subst hc; decide
      | cons d ds =>
        rw [List.getLast?_cons_cons] at hc
        intro e; subst e; exact he.2 hc
    have hcomN : NoNl ('#' :: text) := by
      intro c hc
      rcases List.mem_cons.mp hc with rfl | hc
      · decide
      · exact he.1 c hc
    refine ⟨LastOK.append f.leadOK.1 (LastOK.append b.1 (LastOK.append sp.1 hcom)),
            NoNl.append f.leadOK.2 (NoNl.append b.2 (NoNl.append sp.2 hcomN)), ?_⟩
    simp only []
    rw [strip_ws_append f.lead]
    apply Sp.of_strip
    exact comment_sp f.toks (by rw [Run.gapOK, hE] at hg; exact hg) (fun x hx => (he.1 x hx).1)

theorem joinSp_cons {a : Str} {l : List Str} (h : l ≠ []) : joinSp (a :: l) = a ++ ' ' :: joinSp l := by
  cases l with
  | nil => exact absurd rfl h
  | cons b l => rfl

theorem joinSp_sp {mids : List (Seg × Nat)} {lastSeg : Str} {lastToks : List Str}
    (hm : ∀ m ∈ mids, m.1.ok = true) (hl : Sp true lastToks lastSeg) :
    Sp true (mids.flatMap (·.1.tokens) ++ lastToks)
      (joinSp (mids.map (fun m => segOf (midLine m)) ++ [lastSeg])) := by
  induction mids with
  | nil => simpa [joinSp] using hl
  | cons m ms ih =>
    have ih' := ih (fun x hx => hm x (List.mem_cons_of_mem _ hx))
    rw [List.map_cons, List.cons_append, joinSp_cons (by simp), List.flatMap_cons, List.append_assoc]
    exact Sp.append (midLine_facts (hm m (List.mem_cons_self ..))).2 (.sp ih') (Or.inr ⟨_, rfl⟩)

theorem gather_run (fix : Bool) {mids : List (Seg × Nat)} {x : Str} (hm : ∀ m ∈ mids, m.1.ok = true)
    (hx : LastOK x) (hn : NoNl x) (rest : List Str) :
    ∀ l ls, mids.map midLine ++ [x ++ ['\n']] = l :: ls →
      gather fix l (ls ++ rest)
        = (mids.map (fun m => segOf (midLine m)) ++
            [if fix then strip (x ++ ['\n']) else rstrip (x ++ ['\n'])], rest) := by
  induction mids with
  | nil =>
    intro l ls e
    simp at e; obtain ⟨rfl, rfl⟩ := e
    unfold gather
    rw [endsBsNl_false_of_lastOK hx hn]; simp
  | cons m ms ih =>
    intro l ls e
    simp only [List.map_cons, List.cons_append, List.cons.injEq] at e
    obtain ⟨rfl, rfl⟩ := e
    have hms : ∀ m ∈ ms, m.1.ok = true := fun x hx => hm x (List.mem_cons_of_mem _ hx)
    unfold gather
    rw [(midLine_facts (hm m (List.mem_cons_self ..))).1]
    simp only [if_true]
    cases hh : ms.map midLine ++ [x ++ ['\n']] with
    | nil => simp at hh
    | cons l' ls' =>
      have := ih hms l' ls' hh
      simp only [List.cons_append]
      rw [this]; simp [segOf]

theorem run_mids_ok {r : Run} (h : r.ok = true) : ∀ m ∈ r.mids, m.1.ok = true := by
  simp only [Run.ok, Bool.and_eq_true, List.all_eq_true] at h
  exact h.1.1.1

/-- **run lemma** (repaired `tokenize`): one call on the physical lines of a well-formed run returns
the run's tokens and leaves exactly the lines after the run. -/
theorem tokenize_run {r : Run} (h : r.ok = true) (rest : List Str) :
    ∀ l ls, r.lines = l :: ls → tokenizeG true l (ls ++ rest) = (r.tokens, rest) := by
  intro l ls e
  obtain ⟨hx, hn, hsp⟩ := ending_facts h
  have hm := run_mids_ok h
  unfold tokenizeG
  rw [gather_run true hm hx hn rest l ls e]
  simp only [if_true]
  rw [(joinSp_sp hm hsp).tokensOf_eq]; rfl

theorem rstripBy_idem (p : Char → Bool) (s : Str) : rstripBy p (rstripBy p s) = rstripBy p s := by
  induction s with
  | nil => rfl
  | cons c cs ih =>
    rw [rstripBy]
    split
    · rfl
    · rename_i hh
      rw [rstripBy, ih]
      simp only [hh]; rfl

theorem Sp.lead_spaces {b ts s} {l : Str} (hl : ∀ c ∈ l, c = ' ') (h : Sp b ts s) : Sp b ts (l ++ s) := by
  induction l with
  | nil => exact h
  | cons c cs ih =>
    have := hl c (List.mem_cons_self ..); subst this
    exact .sp (ih (fun x hx => hl x (List.mem_cons_of_mem _ hx)))

theorem ending_facts_old {r : Run} (h : r.ok = true) (hl : ∀ c ∈ r.last.lead, c = ' ') :
    Sp true r.last.tokens (rstrip (r.lastText ++ ['\n'])) := by
  simp only [Run.ok, Bool.and_eq_true] at h
  obtain ⟨⟨⟨_, hs⟩, he⟩, hg⟩ := h
  have hnl : ∀ c ∈ ['\n'], isPySpace c = true := by intro c hc; simp at hc; subst hc; decide
  unfold rstrip
  rw [rstripBy_append_all _ hnl]
  have f := seg_facts hs
  unfold Run.lastText
  cases hE : r.ending with
  | plain =>
    simp only [Seg.text]
    rw [← List.append_assoc, rstripBy_append_all _ f.trail]
    exact (Sp.lead_spaces hl (Sp.of_body f.toks)).mono.of_rstrip
  | comment gap text =>
    rw [hE] at he
    simp only [Ending.ok, Bool.and_eq_true, List.all_eq_true, bne_iff_ne, ne_eq] at he
    simp only []
    apply Sp.of_rstrip
    apply Sp.lead_spaces hl
    exact comment_sp f.toks (by rw [Run.gapOK, hE] at hg; exact hg) (fun x hx => (he.1 x hx).1)

/-- **run lemma for `tokenize` as found**: needs the last line of a backslash run to be indented
with spaces only. -/
theorem tokenize_run_old {r : Run} (h : r.ok = true) (hs : r.spaceLead = true) (rest : List Str) :
    ∀ l ls, r.lines = l :: ls → tokenizeG false l (ls ++ rest) = (r.tokens, rest) := by
  intro l ls e
  obtain ⟨hx, hn, hsp⟩ := ending_facts h
  have hm := run_mids_ok h
  unfold tokenizeG
  rw [gather_run false hm hx hn rest l ls e]
  simp only [Bool.false_eq_true, if_false]
  cases hmid : r.mids with
  | nil =>
    simp only [List.map_nil, List.nil_append, joinSp]
    have : tokensOf (rstrip (r.lastText ++ ['\n'])) = tokensOf (r.lastText ++ ['\n']) := by
      unfold tokensOf strip rstrip; rw [rstripBy_idem]
    rw [this]
    have := hsp.lex
    unfold Run.tokens; rw [hmid]; simpa [tokensOf] using this
  | cons m ms =>
    have hl : ∀ c ∈ r.last.lead, c = ' ' := by
      simp only [Run.spaceLead, hmid, Bool.or_eq_true, List.all_eq_true] at hs
      rcases hs with hs | hs
      · simp at hs
      · intro c hc; simpa using hs c hc
    rw [← hmid]
    rw [(joinSp_sp hm (ending_facts_old h hl)).tokensOf_eq]; rfl

/-! ## grouping runs into commands -/

theorem contLoop_nil (fix : Bool) (toks : List Str) : contLoop fix toks [] = (toks, [], []) := by
  rw [contLoop]

theorem contLoop_blank {fix : Bool} {toks : List Str} {l : Str} {rest f' : List Str}
    (h : tokenizeG fix l rest = ([], f')) : contLoop fix toks (l :: rest) = contLoop fix toks f' := by
  rw [contLoop]; split
  · rename_i f'' h'; rw [h] at h'; cases h'; rfl
  · rename_i t ts f'' h'; rw [h] at h'; cases h'

theorem contLoop_more {fix : Bool} {toks : List Str} {l : Str} {rest f' : List Str} {t : Str} {ts : List Str}
    (h : tokenizeG fix l rest = (t :: ts, f')) (hr : isReserved t = true) :
    contLoop fix toks (l :: rest) = contLoop fix (toks ++ t :: ts) f' := by
  rw [contLoop]; split
  · rename_i f'' h'; rw [h] at h'; cases h'
  · rename_i t' ts' f'' h'; rw [h] at h'; cases h'; simp [hr]

theorem contLoop_stop {fix : Bool} {toks : List Str} {l : Str} {rest f' : List Str} {t : Str} {ts : List Str}
    (h : tokenizeG fix l rest = (t :: ts, f')) (hr : isReserved t = false) :
    contLoop fix toks (l :: rest) = (toks, t :: ts, f') := by
  rw [contLoop]; split
  · rename_i f'' h'; rw [h] at h'; cases h'
  · rename_i t' ts' f'' h'; rw [h] at h'; cases h'; simp [hr]

theorem mainLoop_nil (fix : Bool) : mainLoop fix [] [] = [] := by rw [mainLoop]

theorem mainLoop_blank {fix : Bool} {l : Str} {rest f' : List Str}
    (h : tokenizeG fix l rest = ([], f')) : mainLoop fix [] (l :: rest) = mainLoop fix [] f' := by
  conv => lhs; rw [mainLoop]
  split
  · rename_i f'' h'; rw [h] at h'; cases h'; rfl
  · rename_i t ts f'' h'; rw [h] at h'; cases h'

theorem mainLoop_toks {fix : Bool} {l : Str} {rest f' : List Str} {t : Str} {ts : List Str}
    (h : tokenizeG fix l rest = (t :: ts, f')) :
    mainLoop fix [] (l :: rest) = mainLoop fix (t :: ts) f' := by
  conv => lhs; rw [mainLoop]
  split
  · rename_i f'' h'; rw [h] at h'; cases h'
  · rename_i t' ts' f'' h'; rw [h] at h'; cases h'; rfl

theorem mainLoop_load {fix : Bool} {t : Str} {ts : List Str} {file : List Str} (h : inLoad t = true) :
    mainLoop fix (t :: ts) file = (t :: ts) :: mainLoop fix [] file := by
  conv => lhs; rw [mainLoop]
  simp [h]

theorem mainLoop_cont {fix : Bool} {t : Str} {ts : List Str} {file : List Str} (h : inLoad t = false) :
    mainLoop fix (t :: ts) file
      = (contLoop fix (t :: ts) file).1 :: mainLoop fix (contLoop fix (t :: ts) file).2.1 (contLoop fix (t :: ts) file).2.2 := by
  conv => lhs; rw [mainLoop]
  simp only [h, Bool.false_eq_true, if_false]

theorem run_lines_ne (r : Run) : ∃ l ls, r.lines = l :: ls := by
  unfold Run.lines
  cases h : r.mids.map midLine ++ [r.lastText ++ ['\n']] with
  | nil => simp at h
  | cons l ls => exact ⟨l, ls, rfl⟩

/-- a run on which one `tokenize` call returns the run's tokens and leaves exactly the lines after it -/
def TokRun (fix : Bool) (r : Run) : Prop :=
  ∀ (rest : List Str) l ls, r.lines = l :: ls → tokenizeG fix l (ls ++ rest) = (r.tokens, rest)

def TokCmd (fix : Bool) (c : Cmd) : Prop := TokRun fix c.head ∧ ∀ r ∈ c.conts, TokRun fix r

/-- filler runs are skipped at command level -/
theorem mainLoop_fillers {fix : Bool} {rs : List Run} (h : ∀ r ∈ rs, TokRun fix r ∧ r.isFiller = true)
    (rest : List Str) :
    mainLoop fix [] (rs.flatMap Run.lines ++ rest) = mainLoop fix [] rest := by
  induction rs with
  | nil => rfl
  | cons r rs ih =>
    obtain ⟨hok, hf⟩ := h r (List.mem_cons_self ..)
    obtain ⟨l, ls, e⟩ := run_lines_ne r
    have ht := hok (rs.flatMap Run.lines ++ rest) l ls e
    have : r.tokens = [] := by simpa [Run.isFiller] using hf
    rw [this] at ht
    rw [List.flatMap_cons, e, List.append_assoc, List.cons_append, mainLoop_blank ht]
    exact ih (fun x hx => h x (List.mem_cons_of_mem _ hx))

/-- continuation and filler runs are absorbed by the connective loop -/
theorem contLoop_conts {fix : Bool} {rs : List Run} (h : ∀ r ∈ rs, TokRun fix r ∧ r.isCont = true)
    (toks : List Str) (rest : List Str) :
    contLoop fix toks (rs.flatMap Run.lines ++ rest)
      = contLoop fix (toks ++ rs.flatMap Run.tokens) rest := by
  induction rs generalizing toks with
  | nil => simp
  | cons r rs ih =>
    obtain ⟨hok, hc⟩ := h r (List.mem_cons_self ..)
    obtain ⟨l, ls, e⟩ := run_lines_ne r
    have ht := hok (rs.flatMap Run.lines ++ rest) l ls e
    have ih' := ih (fun x hx => h x (List.mem_cons_of_mem _ hx))
    rw [List.flatMap_cons, e, List.append_assoc, List.cons_append, List.flatMap_cons]
    unfold Run.isCont at hc
    cases ht' : r.tokens with
    | nil => rw [ht'] at ht; rw [contLoop_blank ht, ih']; simp
    | cons t ts =>
      rw [ht'] at ht hc
      rw [contLoop_more ht (by simpa using hc), ih']; simp

theorem contLoop_head {fix : Bool} {r : Run} (hok : TokRun fix r) (hh : r.isHead = true)
    (toks : List Str) (rest : List Str) :
    contLoop fix toks (r.lines ++ rest) = (toks, r.tokens, rest) := by
  obtain ⟨l, ls, e⟩ := run_lines_ne r
  have ht := hok rest l ls e
  unfold Run.isHead at hh
  cases ht' : r.tokens with
  | nil => rw [ht'] at hh; simp at hh
  | cons t ts =>
    rw [ht'] at ht hh
    rw [e, List.cons_append, contLoop_stop ht (by simpa using hh)]

theorem mainLoop_head {fix : Bool} {r : Run} (hok : TokRun fix r) (hh : r.isHead = true) (rest : List Str) :
    mainLoop fix [] (r.lines ++ rest) = mainLoop fix r.tokens rest := by
  obtain ⟨l, ls, e⟩ := run_lines_ne r
  have ht := hok rest l ls e
  unfold Run.isHead at hh
  cases ht' : r.tokens with
  | nil => rw [ht'] at hh; simp at hh
  | cons t ts =>
    rw [ht'] at ht
    rw [e, List.cons_append, mainLoop_toks ht]

theorem cmd_facts {c : Cmd} (h : c.ok = true) :
    c.head.ok = true ∧ c.head.isHead = true ∧ (∀ r ∈ c.conts, r.ok = true) ∧
    ∃ t ts, c.head.tokens = t :: ts ∧
      ((inLoad t = true ∧ ∀ r ∈ c.conts, r.isFiller = true) ∨
       (inLoad t = false ∧ ∀ r ∈ c.conts, r.isCont = true)) := by
  unfold Cmd.ok at h
  simp only [Bool.and_eq_true, List.all_eq_true] at h
  obtain ⟨⟨⟨h1, h2⟩, h3⟩, h4⟩ := h
  refine ⟨h1, h2, h3, ?_⟩
  cases ht : c.head.tokens with
  | nil => rw [ht] at h4; simp at h4
  | cons t ts =>
    rw [ht] at h4
    refine ⟨t, ts, rfl, ?_⟩
    cases hl : inLoad t with
    | true => left; simp only [hl, if_true, List.all_eq_true] at h4; exact ⟨rfl, h4⟩
    | false => right; simp only [hl, Bool.false_eq_true, if_false, List.all_eq_true] at h4; exact ⟨rfl, h4⟩

theorem filler_tokens {rs : List Run} (h : ∀ r ∈ rs, r.isFiller = true) : rs.flatMap Run.tokens = [] := by
  induction rs with
  | nil => rfl
  | cons r rs ih =>
    have : r.tokens = [] := by simpa [Run.isFiller] using h r (List.mem_cons_self ..)
    rw [List.flatMap_cons, this, ih (fun x hx => h x (List.mem_cons_of_mem _ hx))]; rfl

/-- **grouping lemma**: with the head run of a command already tokenized (pending), the loop
dispatches exactly the commands of the layout. -/
theorem mainLoop_cmds {fix : Bool} (c : Cmd) (cs : List Cmd) (hc : c.ok = true) (hcs : ∀ c' ∈ cs, c'.ok = true)
    (hT : TokCmd fix c) (hTs : ∀ c' ∈ cs, TokCmd fix c') :
    mainLoop fix c.head.tokens (c.conts.flatMap Run.lines ++ cs.flatMap Cmd.lines)
      = (c :: cs).map Cmd.tokens := by
  induction cs generalizing c with
  | nil =>
    obtain ⟨_, _, _, t, ts, ht, hcase⟩ := cmd_facts hc
    have hco := hT.2
    simp only [List.flatMap_nil, List.append_nil, List.map_cons, List.map_nil]
    rw [ht]
    rcases hcase with ⟨hl, hf⟩ | ⟨hl, hcn⟩
    · rw [mainLoop_load hl]
      have := mainLoop_fillers (fix := fix) (rs := c.conts) (fun r hr => ⟨hco r hr, hf r hr⟩) []
      simp only [List.append_nil] at this
      rw [this, mainLoop_nil, Cmd.tokens, ht, filler_tokens hf]; simp
    · rw [mainLoop_cont hl]
      have := contLoop_conts (fix := fix) (rs := c.conts) (fun r hr => ⟨hco r hr, hcn r hr⟩) (t :: ts) []
      simp only [List.append_nil] at this
      rw [this, contLoop_nil]
      simp only []
      rw [mainLoop_nil, Cmd.tokens, ht]
  | cons c' cs ih =>
    obtain ⟨_, _, _, t, ts, ht, hcase⟩ := cmd_facts hc
    have hco := hT.2
    have hc' := hcs c' (List.mem_cons_self ..)
    have hT' := hTs c' (List.mem_cons_self ..)
    have hcs' : ∀ x ∈ cs, x.ok = true := fun x hx => hcs x (List.mem_cons_of_mem _ hx)
    have hTs' : ∀ x ∈ cs, TokCmd fix x := fun x hx => hTs x (List.mem_cons_of_mem _ hx)
    obtain ⟨_, hh', _, _⟩ := cmd_facts hc'
    have hok' := hT'.1
    have ih' := ih c' hc' hcs' hT' hTs'
    have e : (c' :: cs).flatMap Cmd.lines
        = c'.head.lines ++ (c'.conts.flatMap Run.lines ++ cs.flatMap Cmd.lines) := by
      rw [List.flatMap_cons, Cmd.lines, List.append_assoc]
    rw [ht, e]
    rcases hcase with ⟨hl, hf⟩ | ⟨hl, hcn⟩
    · rw [mainLoop_load hl, mainLoop_fillers (fun r hr => ⟨hco r hr, hf r hr⟩),
        mainLoop_head hok' hh', ih']
      simp [Cmd.tokens, ht, filler_tokens hf]
    · rw [mainLoop_cont hl, contLoop_conts (fun r hr => ⟨hco r hr, hcn r hr⟩),
        contLoop_head hok' hh']
      simp only []
      rw [ih']
      simp [Cmd.tokens, ht]

/-- the whole loop on the lines of a layout -/
theorem mainLoop_layout {fix : Bool} (L : Layout) (h : L.ok = true)
    (hP : ∀ r ∈ L.pre, TokRun fix r) (hC : ∀ c ∈ L.cmds, TokCmd fix c) :
    mainLoop fix [] L.lines = L.erase := by
  simp only [Layout.ok, Bool.and_eq_true, List.all_eq_true] at h
  obtain ⟨hpre, hcmds⟩ := h
  unfold Layout.lines Layout.erase
  rw [mainLoop_fillers (fun r hr => ⟨hP r hr, (hpre r hr).2⟩)]
  cases hc : L.cmds with
  | nil => simp [mainLoop_nil]
  | cons c cs =>
    rw [hc] at hcmds hC
    have hok := hcmds c (List.mem_cons_self ..)
    obtain ⟨_, hh, _, _⟩ := cmd_facts hok
    rw [List.flatMap_cons, Cmd.lines, List.append_assoc, mainLoop_head (hC c (List.mem_cons_self ..)).1 hh]
    exact mainLoop_cmds c cs hok (fun x hx => hcmds x (List.mem_cons_of_mem _ hx))
      (hC c (List.mem_cons_self ..)) (fun x hx => hC x (List.mem_cons_of_mem _ hx))

/-! ## reading the rendered text back into lines -/

theorem univNlAux_of_noCR {s : Str} (h : ∀ c ∈ s, c ≠ '\r') : univNlAux false s = s := by
  induction s with
  | nil => rfl
  | cons c cs ih =>
    have hc : (c == '\r') = false := by simpa using h c (List.mem_cons_self ..)
    rw [univNlAux, hc, ih (fun x hx => h x (List.mem_cons_of_mem _ hx))]; simp

theorem splitLines_line {b : Str} (hb : ∀ c ∈ b, c ≠ '\n') (rest : Str) :
    splitLines (b ++ '\n' :: rest) = (b ++ ['\n']) :: splitLines rest := by
  induction b with
  | nil => simp [splitLines]
  | cons c cs ih =>
    have hc : (c == '\n') = false := by simpa using hb c (List.mem_cons_self ..)
    rw [List.cons_append, splitLines, hc, ih (fun x hx => hb x (List.mem_cons_of_mem _ hx))]; simp

/-- a physical line: no line end inside, `\n` at the end -/
def IsLine (l : Str) : Prop := ∃ b, l = b ++ ['\n'] ∧ NoNl b

theorem fileLines_flatten {ls : List Str} (h : ∀ l ∈ ls, IsLine l) : fileLines ls.flatten = ls := by
  unfold fileLines univNl
  have hcr : ∀ c ∈ ls.flatten, c ≠ '\r' := by
    intro c hc
    obtain ⟨l, hl, hcl⟩ := List.mem_flatten.mp hc
    obtain ⟨b, rfl, hb⟩ := h l hl
    rcases List.mem_append.mp hcl with h1 | h1
    · exact (hb c h1).2
    · simp at h1; subst h1; decide
  rw [univNlAux_of_noCR hcr]
  induction ls with
  | nil => rfl
  | cons l ls ih =>
    obtain ⟨b, rfl, hb⟩ := h l (List.mem_cons_self ..)
    rw [List.flatten_cons, List.append_assoc, List.singleton_append,
      splitLines_line (fun c hc => (hb c hc).1),
      ih (fun x hx => h x (List.mem_cons_of_mem _ hx))
        (fun c hc => hcr c (by rw [List.flatten_cons]; exact List.mem_append_right _ hc))]

theorem run_lines_isLine {r : Run} (h : r.ok = true) : ∀ l ∈ r.lines, IsLine l := by
  intro l hl
  unfold Run.lines at hl
  rcases List.mem_append.mp hl with hl | hl
  · obtain ⟨m, hm, rfl⟩ := List.mem_map.mp hl
    have hmok : m.1.ok = true := by
      exact run_mids_ok h m hm
    obtain ⟨_, hn, _⟩ := seg_text_facts hmok
    refine ⟨m.1.text ++ List.replicate (m.2 + 1) '\\', by simp [midLine], ?_⟩
    apply NoNl.append hn
    intro c hc; rw [List.mem_replicate] at hc; rw [hc.2]; decide
  · simp at hl; subst hl
    exact ⟨r.lastText, rfl, (ending_facts h).2.1⟩

theorem layout_lines_isLine {L : Layout} (h : L.ok = true) : ∀ l ∈ L.lines, IsLine l := by
  simp only [Layout.ok, Bool.and_eq_true, List.all_eq_true] at h
  obtain ⟨hpre, hcmds⟩ := h
  intro l hl
  unfold Layout.lines at hl
  rcases List.mem_append.mp hl with hl | hl
  · obtain ⟨r, hr, hlr⟩ := List.mem_flatMap.mp hl
    exact run_lines_isLine (hpre r hr).1 l hlr
  · obtain ⟨c, hc, hlc⟩ := List.mem_flatMap.mp hl
    obtain ⟨h1, _, h3, _⟩ := cmd_facts (hcmds c hc)
    unfold Cmd.lines at hlc
    rcases List.mem_append.mp hlc with hlc | hlc
    · exact run_lines_isLine h1 l hlc
    · obtain ⟨r, hr, hlr⟩ := List.mem_flatMap.mp hlc
      exact run_lines_isLine (h3 r hr) l hlr

/-! ## a missing newline at the very end of the file -/

theorem endsBsNl_of_noNl {x : Str} (hn : NoNl x) : endsBsNl x = false := by
  cases e : endsBsNl x with
  | false => rfl
  | true =>
    unfold endsBsNl at e
    rw [List.isSuffixOf_iff_suffix] at e
    obtain ⟨p, hp⟩ := e
    have : '\n' ∈ x := by rw [← hp]; simp
    exact absurd rfl (hn '\n' this).1

/-- the last line as `tokenize` saves it -/
def lastSeg (fix : Bool) (l : Str) : Str := if fix then strip l else rstrip l

theorem lastSeg_nl (fix : Bool) (x : Str) : lastSeg fix (x ++ ['\n']) = lastSeg fix x := by
  have hnl : ∀ c ∈ ['\n'], isPySpace c = true := by intro c hc; simp at hc; subst hc; decide
  unfold lastSeg
  cases fix with
  | true => simp only [if_true]; exact strip_append_ws x hnl
  | false => simp only [Bool.false_eq_true, if_false]; unfold rstrip; exact rstripBy_append_all x hnl

/-- the last line of the file without its newline: it disappears when it is empty -/
def optLine (x : Str) : List Str := if x.isEmpty then [] else [x]

/-- two files that differ only in the newline at the very end -/
def SameButEol (x : Str) (f f' : List Str) : Prop :=
  f = f' ∨ ∃ ls, f = ls ++ [x ++ ['\n']] ∧ f' = ls ++ optLine x

theorem gather_plain (fix : Bool) {l : Str} (file : List Str) (h : endsBsNl l = false) :
    gather fix l file = ([lastSeg fix l], file) := by
  unfold gather lastSeg; simp [h]

theorem gather_eol (fix : Bool) {x : Str} (hx : LastOK x) (hn : NoNl x) :
    ∀ (f f' : List Str) (l : Str), SameButEol x f f' →
      (gather fix l f).1 = (gather fix l f').1 ∧ SameButEol x (gather fix l f).2 (gather fix l f').2 := by
  intro f
  induction f with
  | nil =>
    intro f' l h
    rcases h with rfl | ⟨ls, e, _⟩
    · exact ⟨rfl, Or.inl rfl⟩
    · simp at e
  | cons a rest ih =>
    intro f' l h
    rcases h with rfl | ⟨ls, e, rfl⟩
    · exact ⟨rfl, Or.inl rfl⟩
    · cases ls with
      | nil =>
        simp only [List.nil_append, List.cons.injEq] at e
        obtain ⟨rfl, rfl⟩ := e
        simp only [List.nil_append]
        by_cases hl : endsBsNl l = true
        · have e1 : gather fix l [x ++ ['\n']] = ([strip (rstripBs (rstrip l)), lastSeg fix (x ++ ['\n'])], []) := by
            rw [gather]; simp only [hl, if_true]
            rw [gather_plain fix [] (endsBsNl_false_of_lastOK hx hn)]
          by_cases hxe : x = []
          · subst hxe
            have e2 : gather fix l (optLine []) = ([strip (rstripBs (rstrip l)), lastSeg fix []], []) := by
              simp [optLine, gather, hl, lastSeg]
            rw [e1, e2]
            have := lastSeg_nl fix []
            simp only [List.nil_append] at this ⊢
            rw [this]
            exact ⟨rfl, Or.inl rfl⟩
          · have ho : optLine x = [x] := by
              unfold optLine; cases x with
              | nil => exact absurd rfl hxe
              | cons c cs => rfl
            have e2 : gather fix l [x] = ([strip (rstripBs (rstrip l)), lastSeg fix x], []) := by
              rw [gather]; simp only [hl, if_true]
              rw [gather_plain fix [] (endsBsNl_of_noNl hn)]
            rw [e1, ho, e2, lastSeg_nl]
            exact ⟨rfl, Or.inl rfl⟩
        · have hl' : endsBsNl l = false := by simpa using hl
          rw [gather_plain fix _ hl', gather_plain fix _ hl']
          exact ⟨rfl, Or.inr ⟨[], rfl, rfl⟩⟩
      | cons b ls' =>
        simp only [List.cons_append, List.cons.injEq] at e
        obtain ⟨rfl, rfl⟩ := e
        by_cases hl : endsBsNl l = true
        · have := ih (ls' ++ optLine x) a (Or.inr ⟨ls', rfl, rfl⟩)
          have step : ∀ file, gather fix l (a :: file) =
              (strip (rstripBs (rstrip l)) :: (gather fix a file).1, (gather fix a file).2) := by
            intro file; rw [gather]; simp only [hl, if_true]
          simp only [List.cons_append]
          rw [step, step]
          exact ⟨by rw [this.1], this.2⟩
        · have hl' : endsBsNl l = false := by simpa using hl
          rw [gather_plain fix _ hl', gather_plain fix _ hl']
          exact ⟨rfl, Or.inr ⟨a :: ls', rfl, rfl⟩⟩

theorem tokenize_eol (fix : Bool) {x : Str} (hx : LastOK x) (hn : NoNl x) (l : Str) {f f' : List Str}
    (h : SameButEol x f f') :
    (tokenizeG fix l f).1 = (tokenizeG fix l f').1 ∧ SameButEol x (tokenizeG fix l f).2 (tokenizeG fix l f').2 := by
  have := gather_eol fix hx hn f f' l h
  unfold tokenizeG
  simp only []
  exact ⟨by rw [this.1], this.2⟩

theorem tokenize_last (fix : Bool) {x : Str} (hx : LastOK x) (hn : NoNl x) :
    tokenizeG fix (x ++ ['\n']) [] = tokenizeG fix x [] := by
  unfold tokenizeG
  rw [gather_plain fix [] (endsBsNl_false_of_lastOK hx hn), gather_plain fix [] (endsBsNl_of_noNl hn), lastSeg_nl]

theorem tokenize_blank (fix : Bool) : tokenizeG fix ['\n'] [] = ([], []) := by
  cases fix <;> decide +kernel

theorem tokenize_nil_file (fix : Bool) (l : Str) : (tokenizeG fix l []).2 = [] := by
  have := tokenizeG_length fix l []
  simpa using this

theorem SameButEol.refl (x : Str) (f : List Str) : SameButEol x f f := Or.inl rfl

theorem optLine_cases (x : Str) : (x = [] ∧ optLine x = []) ∨ (x ≠ [] ∧ optLine x = [x]) := by
  cases x with
  | nil => left; exact ⟨rfl, rfl⟩
  | cons c cs => right; exact ⟨by simp, rfl⟩

/-- the connective-continuation loop does not see the difference -/
theorem contLoop_eol (fix : Bool) {x : Str} (hx : LastOK x) (hn : NoNl x) :
    ∀ (n : Nat) (toks : List Str) (f f' : List Str), f.length ≤ n → SameButEol x f f' →
      (contLoop fix toks f).1 = (contLoop fix toks f').1 ∧
      (contLoop fix toks f).2.1 = (contLoop fix toks f').2.1 ∧
      SameButEol x (contLoop fix toks f).2.2 (contLoop fix toks f').2.2 := by
  intro n
  induction n with
  | zero =>
    intro toks f f' hl h
    have : f = [] := by cases f with | nil => rfl | cons a b => simp at hl
    subst this
    rcases h with rfl | ⟨ls, e, _⟩
    · exact ⟨rfl, rfl, Or.inl rfl⟩
    · simp at e
  | succ n ih =>
    intro toks f f' hl h
    rcases h with rfl | ⟨ls, rfl, rfl⟩
    · exact ⟨rfl, rfl, Or.inl rfl⟩
    · -- one step of the loop on two files whose heads tokenize alike
      have step : ∀ (line line' : Str) (rest rest' : List Str) (ts : List Str) (r r' : List Str),
          tokenizeG fix line rest = (ts, r) → tokenizeG fix line' rest' = (ts, r') →
          r.length ≤ n → SameButEol x r r' →
          (contLoop fix toks (line :: rest)).1 = (contLoop fix toks (line' :: rest')).1 ∧
          (contLoop fix toks (line :: rest)).2.1 = (contLoop fix toks (line' :: rest')).2.1 ∧
          SameButEol x (contLoop fix toks (line :: rest)).2.2 (contLoop fix toks (line' :: rest')).2.2 := by
        intro line line' rest rest' ts r r' h1 h2 hr hrel
        cases ts with
        | nil => rw [contLoop_blank h1, contLoop_blank h2]; exact ih toks r r' hr hrel
        | cons t ts' =>
          cases hres : isReserved t with
          | true => rw [contLoop_more h1 hres, contLoop_more h2 hres]; exact ih _ r r' hr hrel
          | false => rw [contLoop_stop h1 hres, contLoop_stop h2 hres]; exact ⟨rfl, rfl, hrel⟩
      cases ls with
      | nil =>
        simp only [List.nil_append]
        rcases optLine_cases x with ⟨rfl, ho⟩ | ⟨hxne, ho⟩
        · rw [ho]
          simp only [List.nil_append]
          rw [contLoop_blank (tokenize_blank fix)]
          exact ⟨rfl, rfl, Or.inl rfl⟩
        · rw [ho]
          have e := tokenize_last fix hx hn
          have hr0 : (tokenizeG fix x []).2 = [] := tokenize_nil_file fix x
          exact step _ _ [] [] (tokenizeG fix x []).1 [] []
            (by rw [e]; exact Prod.ext rfl hr0) (Prod.ext rfl hr0) (by simp) (Or.inl rfl)
      | cons line ls' =>
        simp only [List.cons_append] at hl ⊢
        have ht := tokenize_eol fix hx hn line (f := ls' ++ [x ++ ['\n']]) (f' := ls' ++ optLine x)
          (Or.inr ⟨ls', rfl, rfl⟩)
        have hlen := tokenizeG_length fix line (ls' ++ [x ++ ['\n']])
        exact step line line (ls' ++ [x ++ ['\n']]) (ls' ++ optLine x)
          (tokenizeG fix line (ls' ++ [x ++ ['\n']])).1
          (tokenizeG fix line (ls' ++ [x ++ ['\n']])).2 (tokenizeG fix line (ls' ++ optLine x)).2 rfl
          (Prod.ext ht.1.symm rfl) (by simp at hl hlen ⊢; omega) ht.2

/-- the whole reading loop does not see the difference -/
theorem mainLoop_eol (fix : Bool) {x : Str} (hx : LastOK x) (hn : NoNl x) :
    ∀ (m : Nat) (pending : List Str) (f f' : List Str),
      2 * f.length + (if pending = [] then 0 else 1) ≤ m → SameButEol x f f' →
      mainLoop fix pending f = mainLoop fix pending f' := by
  intro m
  induction m with
  | zero =>
    intro pending f f' hm h
    have hf : f = [] := by cases f with | nil => rfl | cons a b => simp at hm
    subst hf
    rcases h with rfl | ⟨ls, e, _⟩
    · rfl
    · simp at e
  | succ m ih =>
    intro pending f f' hm h
    rcases h with rfl | ⟨ls, rfl, rfl⟩
    · rfl
    · have hrel : SameButEol x (ls ++ [x ++ ['\n']]) (ls ++ optLine x) := Or.inr ⟨ls, rfl, rfl⟩
      cases pending with
      | cons t ts =>
        simp only [List.cons_ne_nil, if_false] at hm
        cases hl : inLoad t with
        | true =>
          rw [mainLoop_load hl, mainLoop_load hl]
          rw [ih [] _ _ (by simp at hm ⊢; omega) hrel]
        | false =>
          rw [mainLoop_cont hl, mainLoop_cont hl]
          obtain ⟨e1, e2, e3⟩ := contLoop_eol fix hx hn _ (t :: ts) _ _ (Nat.le_refl _) hrel
          rw [e1, e2]
          congr 1
          have hlen := contLoop_length fix (t :: ts) (ls ++ [x ++ ['\n']])
          refine ih _ _ _ ?_ e3
          rcases hlen with ⟨ha, hb | hb⟩
          · rw [← e2, hb]; simp; omega
          · split <;> omega
      | nil =>
        simp only [if_true] at hm
        -- one step on two files whose heads tokenize alike
        have step : ∀ (line line' : Str) (rest rest' : List Str) (ts : List Str) (r r' : List Str),
            tokenizeG fix line rest = (ts, r) → tokenizeG fix line' rest' = (ts, r') →
            2 * r.length + 1 ≤ m → SameButEol x r r' →
            mainLoop fix [] (line :: rest) = mainLoop fix [] (line' :: rest') := by
          intro line line' rest rest' ts r r' h1 h2 hr hrel'
          cases ts with
          | nil => rw [mainLoop_blank h1, mainLoop_blank h2]; exact ih [] r r' (by simp; omega) hrel'
          | cons t ts' =>
            rw [mainLoop_toks h1, mainLoop_toks h2]
            exact ih (t :: ts') r r' (by simp; omega) hrel'
        cases ls with
        | nil =>
          simp only [List.nil_append]
          rcases optLine_cases x with ⟨rfl, ho⟩ | ⟨hxne, ho⟩
          · rw [ho]
            simp only [List.nil_append]
            rw [mainLoop_blank (tokenize_blank fix)]
          · rw [ho]
            have e := tokenize_last fix hx hn
            have hr0 : (tokenizeG fix x []).2 = [] := tokenize_nil_file fix x
            exact step _ _ [] [] (tokenizeG fix x []).1 [] []
              (by rw [e]; exact Prod.ext rfl hr0) (Prod.ext rfl hr0) (by simp at hm ⊢; omega) (Or.inl rfl)
        | cons line ls' =>
          simp only [List.cons_append] at hm ⊢
          have ht := tokenize_eol fix hx hn line (f := ls' ++ [x ++ ['\n']]) (f' := ls' ++ optLine x)
            (Or.inr ⟨ls', rfl, rfl⟩)
          have hlen := tokenizeG_length fix line (ls' ++ [x ++ ['\n']])
          exact step line line (ls' ++ [x ++ ['\n']]) (ls' ++ optLine x)
            (tokenizeG fix line (ls' ++ [x ++ ['\n']])).1
            (tokenizeG fix line (ls' ++ [x ++ ['\n']])).2 (tokenizeG fix line (ls' ++ optLine x)).2 rfl
            (Prod.ext ht.1.symm rfl) (by simp at hm hlen ⊢; omega) ht.2

/-! reading a text whose last line lacks the newline -/

theorem splitLines_last {x : Str} (hn : NoNl x) : splitLines x = optLine x := by
  cases x with
  | nil => rfl
  | cons c cs =>
    have : ∀ (y : Str), (∀ d ∈ y, d ≠ '\n') → y ≠ [] → splitLines y = [y] := by
      intro y
      induction y with
      | nil => intro _ h; exact absurd rfl h
      | cons d ds ih =>
        intro hy _
        have hd : (d == '\n') = false := by simpa using hy d (List.mem_cons_self ..)
        rw [splitLines, hd]
        simp only [Bool.false_eq_true, if_false]
        cases ds with
        | nil => simp [splitLines]
        | cons e es =>
          rw [ih (fun z hz => hy z (List.mem_cons_of_mem _ hz)) (by simp)]
    rw [this _ (fun d hd => (hn d hd).1) (by simp)]
    rfl

theorem fileLines_noeol {ls : List Str} {x : Str} (h : ∀ l ∈ ls, IsLine l) (hn : NoNl x) :
    fileLines (ls.flatten ++ x) = ls ++ optLine x := by
  unfold fileLines univNl
  have hcr : ∀ c ∈ ls.flatten ++ x, c ≠ '\r' := by
    intro c hc
    rcases List.mem_append.mp hc with hc | hc
    · obtain ⟨l, hl, hcl⟩ := List.mem_flatten.mp hc
      obtain ⟨b, rfl, hb⟩ := h l hl
      rcases List.mem_append.mp hcl with h1 | h1
      · exact (hb c h1).2
      · simp at h1; subst h1; decide
    · exact (hn c hc).2
  rw [univNlAux_of_noCR hcr]
  clear hcr
  induction ls with
  | nil => simpa using splitLines_last hn
  | cons l ls ih =>
    obtain ⟨b, rfl, hb⟩ := h l (List.mem_cons_self ..)
    rw [List.flatten_cons, List.append_assoc, List.append_assoc, List.singleton_append,
      splitLines_line (fun c hc => (hb c hc).1), ih (fun y hy => h y (List.mem_cons_of_mem _ hy))]
    simp


/-- all runs of a layout, in file order -/
def Layout.runs (L : Layout) : List Run := L.pre ++ L.cmds.flatMap (fun c => c.head :: c.conts)

theorem layout_lines_runs (L : Layout) : L.lines = L.runs.flatMap Run.lines := by
  unfold Layout.lines Layout.runs
  rw [List.flatMap_append]
  congr 1
  induction L.cmds with
  | nil => rfl
  | cons c cs ih => simp [List.flatMap_cons, Cmd.lines, ih]

theorem layout_runs_ok {L : Layout} (h : L.ok = true) : ∀ r ∈ L.runs, r.ok = true := by
  simp only [Layout.ok, Bool.and_eq_true, List.all_eq_true] at h
  obtain ⟨hpre, hcmds⟩ := h
  intro r hr
  unfold Layout.runs at hr
  rcases List.mem_append.mp hr with hr | hr
  · exact (hpre r hr).1
  · obtain ⟨c, hc, hrc⟩ := List.mem_flatMap.mp hr
    obtain ⟨h1, _, h3, _⟩ := cmd_facts (hcmds c hc)
    rcases List.mem_cons.mp hrc with rfl | hrc
    · exact h1
    · exact h3 r hrc

/-- the lines of a layout with at least one run: everything up to the last physical line, and that line -/
theorem layout_lines_last {L : Layout} (h : L.ok = true) :
    L.lines = [] ∨ ∃ ls x, L.lines = ls ++ [x ++ ['\n']] ∧ LastOK x ∧ NoNl x := by
  rw [layout_lines_runs]
  rcases List.eq_nil_or_concat L.runs with e | ⟨rs, r, e⟩
  · left; rw [e]; rfl
  · right
    have hr : r.ok = true := layout_runs_ok h r (by rw [e, List.concat_eq_append]; simp)
    obtain ⟨hx, hn, _⟩ := ending_facts hr
    refine ⟨rs.flatMap Run.lines ++ r.mids.map midLine, r.lastText, ?_, hx, hn⟩
    rw [e, List.concat_eq_append, List.flatMap_append]
    simp [Run.lines]

end Ioflo.Lex
