import IofloModel.Model.LexLoad
import IofloModel.Lemmas.Lex
/-! Lemmas for the `load` part of C16: the read loop over a file tree dispatches the `load`-expansion of the
programs of the files (nothing of the reader's look-ahead state crosses a file boundary). -/
namespace Ioflo.Lex

def Disp.map {α β : Type} (g : α → β) : Disp α → Disp β
  | .plain => .plain
  | .load t => .load (g t)
  | .stop s => .stop s

theorem dispatchLoad_map {α β : Type} (look : Str → Option α) (g : α → β) (c : List Str) :
    dispatchLoad (fun n => (look n).map g) c = (dispatchLoad look c).map g := by
  unfold dispatchLoad
  cases c with
  | nil => rfl
  | cons v args =>
    simp only []
    split
    · cases args with
      | nil => rfl
      | cons n more =>
        simp only []
        cases look n with
        | none => rfl
        | some t => simp only [Option.map]; split <;> rfl
    · rfl

/-- the continuation loop only appends to the command -/
theorem contLoop_prefix (fix : Bool) (tokens : List Str) (file : List Str) :
    ∃ ws, (contLoop fix tokens file).1 = tokens ++ ws := by
  fun_induction contLoop fix tokens file with
  | case1 => exact ⟨[], by simp⟩
  | case2 tokens line rest file' h ih => exact ih
  | case3 tokens line rest t ts file' h hr ih =>
    obtain ⟨ws, hws⟩ := ih
    exact ⟨t :: ts ++ ws, by rw [hws]; simp⟩
  | case4 tokens line rest t ts file' h hr => exact ⟨[], by simp⟩

/-- the reader never dispatches an empty command (`if (not tokens): … continue`) -/
theorem mainLoop_nonempty (fix : Bool) (pending : List Str) (file : List Str) :
    ∀ c ∈ mainLoop fix pending file, c ≠ [] := by
  fun_induction mainLoop fix pending file with
  | case1 file t ts hl ih =>
    intro c hc
    rcases List.mem_cons.mp hc with rfl | hc
    · simp
    · exact ih c hc
  | case2 file t ts hl tokens next file' h ih =>
    intro c hc
    rcases List.mem_cons.mp hc with rfl | hc
    · obtain ⟨ws, hws⟩ := contLoop_prefix fix (t :: ts) file
      rw [h] at hws
      simp only [List.cons_append] at hws
      rw [hws]; simp
    · exact ih c hc
  | case3 => intro c hc; cases hc
  | case4 line rest file' h ih => exact ih
  | case5 line rest t ts file' h ih => exact ih

/-- `[^ "']+` takes a whole run of plain characters: a line without blank, quote and leading `#` is one chunk -/
theorem takeWhile_all {p : Char → Bool} : ∀ (l : Str), (∀ x ∈ l, p x = true) → l.takeWhile p = l ∧ l.dropWhile p = []
  | [], _ => ⟨rfl, rfl⟩
  | c :: cs, h => by
    have hc := h c (List.mem_cons_self ..)
    have ih := takeWhile_all cs (fun x hx => h x (List.mem_cons_of_mem _ hx))
    simp [List.takeWhile, List.dropWhile, hc, ih.1, ih.2]

theorem chunks_plain (c : Char) (cs : Str) (hc : isPlain c = true) (hh : c ≠ '#') (h : ∀ x ∈ cs, isPlain x = true) :
    chunks (c :: cs) = [c :: cs] := by
  have h1 : (c == '#') = false := by simpa using hh
  have h2 : (c == '"' || c == '\'') = false := by
    simp only [isPlain] at hc; revert hc; simp; intro a b c; exact ⟨b, c⟩
  have h3 : (c == ' ') = false := by
    simp only [isPlain] at hc; revert hc; simp; intro a b c; exact a
  rw [chunks]
  simp only [h1, h2, h3, Bool.false_eq_true, if_false]
  obtain ⟨e1, e2⟩ := takeWhile_all cs h
  rw [e1, e2, chunks]
theorem inLoad_load : inLoad "load".toList = true := by decide

/-- a command whose verb is not a substring of "load" is not a `load` command -/
theorem dispatchLoad_plain {α : Type} (look : Str → Option α) (t : Str) (ws : List Str) (h : inLoad t = false) :
    dispatchLoad look (t :: ws) = .plain := by
  unfold dispatchLoad
  simp only []
  split
  · rename_i hv
    have : t = "load".toList := by simpa using hv
    rw [this, inLoad_load] at h; cases h
  · rfl

theorem expand_nil (look : Str → Option (List (List Str))) (d : Nat) : expand look d [] = ([], .done) := by
  cases d <;> rfl

theorem expand_plain {look : Str → Option (List (List Str))} {c : List Str} (h : dispatchLoad look c = .plain)
    (d : Nat) (cs : List (List Str)) :
    expand look d (c :: cs) = (c :: (expand look d cs).1, (expand look d cs).2) := by
  cases d <;> simp [expand, expandWith, h]

theorem expand_stop {look : Str → Option (List (List Str))} {c : List Str} {s : Stop} (h : dispatchLoad look c = .stop s)
    (d : Nat) (cs : List (List Str)) : expand look d (c :: cs) = ([c], s) := by
  cases d <;> simp [expand, expandWith, h]

theorem expand_load_zero {look : Str → Option (List (List Str))} {c : List Str} {p : List (List Str)}
    (h : dispatchLoad look c = .load p) (cs : List (List Str)) : expand look 0 (c :: cs) = ([c], .depth) := by
  simp [expand, expandWith, h]

theorem expand_load_succ {look : Str → Option (List (List Str))} {c : List Str} {p : List (List Str)}
    (h : dispatchLoad look c = .load p) (d : Nat) (cs : List (List Str)) :
    expand look (d + 1) (c :: cs) =
      (if (expand look d p).2 = .done then
        (c :: (expand look d p).1 ++ (expand look (d + 1) cs).1, (expand look (d + 1) cs).2)
       else (c :: (expand look d p).1, (expand look d p).2)) := by
  simp [expand, expandWith, h]

/-- **the reader over a tree = `load` expanded over the programs of the files** -/
theorem treeLoop_eq_expand (fix : Bool) (fs : Str → Option Str) (d : Nat) (pending : List Str) (file : List Str) :
    treeLoop fix fs d pending file
      = expand (fun n => (fs n).map (commandsG fix)) d (mainLoop fix pending file) := by
  fun_induction treeLoop fix fs d pending file with
  | case1 depth file t ts hl hd r ih =>
    have hd' : dispatchLoad (fun n => (fs n).map (commandsG fix)) (t :: ts) = .plain := by
      rw [dispatchLoad_map, hd]; rfl
    rw [mainLoop_load hl, expand_plain hd', ← ih]
  | case2 depth file t ts hl s hd =>
    have hd' : dispatchLoad (fun n => (fs n).map (commandsG fix)) (t :: ts) = .stop s := by
      rw [dispatchLoad_map, hd]; rfl
    rw [mainLoop_load hl, expand_stop hd']
  | case3 file t ts hl text hd =>
    have hd' : dispatchLoad (fun n => (fs n).map (commandsG fix)) (t :: ts) = .load (commandsG fix text) := by
      rw [dispatchLoad_map, hd]; rfl
    rw [mainLoop_load hl, expand_load_zero hd']
  | case4 file t ts hl text hd d r hr r2 ih1 ih2 =>
    have hd' : dispatchLoad (fun n => (fs n).map (commandsG fix)) (t :: ts) = .load (commandsG fix text) := by
      rw [dispatchLoad_map, hd]; rfl
    rw [mainLoop_load hl, expand_load_succ hd']
    have e1 : expand (fun n => (fs n).map (commandsG fix)) d (commandsG fix text) = r := ih1.symm
    have e2 : expand (fun n => (fs n).map (commandsG fix)) (d + 1) (mainLoop fix [] file) = r2 := ih2.symm
    rw [e1, e2, if_pos hr]
  | case5 file t ts hl text hd d r hr ih1 =>
    have hd' : dispatchLoad (fun n => (fs n).map (commandsG fix)) (t :: ts) = .load (commandsG fix text) := by
      rw [dispatchLoad_map, hd]; rfl
    rw [mainLoop_load hl, expand_load_succ hd']
    have e1 : expand (fun n => (fs n).map (commandsG fix)) d (commandsG fix text) = r := ih1.symm
    rw [e1, if_neg hr]
  | case6 depth file t ts hl tokens next file' h r ih =>
    have hl' : inLoad t = false := by simpa using hl
    rw [mainLoop_cont hl', h]
    simp only []
    obtain ⟨ws, hws⟩ := contLoop_prefix fix (t :: ts) file
    rw [h] at hws
    simp only [List.cons_append] at hws
    rw [hws, expand_plain (dispatchLoad_plain _ t _ hl'), ← ih]
  | case7 depth => rw [mainLoop_nil, expand_nil]
  | case8 depth line rest file' h ih => rw [mainLoop_blank h, ih]
  | case9 depth line rest t ts file' h ih => rw [mainLoop_toks h, ih]

end Ioflo.Lex
