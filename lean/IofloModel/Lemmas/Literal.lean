import IofloModel.Model.Literal
/-! Helper lemmas for C17 (literal conversion). -/
namespace Ioflo.Literal

/-! ## flat order -/

theorem rewrap (r : Res) : reraise r = r := by
  cases r with
  | ok v => rfl
  | error e => cases e; rfl

theorem firstOf_cons (r : Recog) (rs : List Recog) (t : Str) :
    firstOf (r :: rs) t = (match r t with | some x => x | none => firstOf rs t) := rfl

/-- if every recogniser of `a` declines, the decision is left to `b` -/
theorem firstOf_append_none {a b : List Recog} {t : Str} (h : ∀ r ∈ a, r t = none) :
    firstOf (a ++ b) t = firstOf b t := by
  induction a with
  | nil => rfl
  | cons r rs ih =>
    rw [List.cons_append, firstOf_cons, h r (List.mem_cons_self ..)]
    exact ih (fun x hx => h x (List.mem_cons_of_mem _ hx))

theorem order_num (t : Str) : convert2Num t = firstOf ordNum t := by
  unfold convert2Num ordNum
  simp only [firstOf_cons, rInt, rFloat, rComplex, firstOf]
  cases pyInt 10 t <;> cases pyInt 16 t <;> cases pyFloat t <;> cases pyComplex t <;> rfl

theorem order_coordNum (t : Str) : convert2CoordNum t = firstOf (ordCoord ++ ordNum) t := by
  unfold convert2CoordNum ordCoord
  simp only [rewrap, List.cons_append, List.nil_append, firstOf_cons, rLatLon, order_num]
  cases latLon sepNE t <;> cases latLon sepSW t <;> rfl

theorem order_bool (rest : List Recog) (t : Str) (f : Str → Res) (hf : f t = firstOf rest t) :
    (if isNone t then (.ok .none : Res) else if isTrue t then .ok (.bool true)
      else if isFalse t then .ok (.bool false) else f t) = firstOf (ordBool ++ rest) t := by
  unfold ordBool
  simp only [List.cons_append, List.nil_append, firstOf_cons, rNone, rTrue, rFalse, hf]
  cases isNone t <;> cases isTrue t <;> cases isFalse t <;> rfl

theorem order_str (rest : List Recog) (t : Str) (f : Str → Res) (hf : f t = firstOf rest t) :
    (if quotedBy '"' t then (.ok (.str (stripBy (· == '"') t)) : Res)
      else if quotedBy '\'' t then .ok (.str (stripBy (· == '\'') t)) else f t)
      = firstOf (ordStr ++ rest) t := by
  unfold ordStr
  simp only [List.cons_append, List.nil_append, firstOf_cons, rQuoted, hf]
  cases quotedBy '"' t <;> cases quotedBy '\'' t <;> rfl

theorem order_boolCoordNum (t : Str) :
    convert2BoolCoordNum t = firstOf (ordBool ++ ordCoord ++ ordNum) t := by
  unfold convert2BoolCoordNum
  simp only [rewrap, List.append_assoc]
  exact order_bool _ t convert2CoordNum (order_coordNum t)

theorem order_goal (t : Str) : convert2StrBoolCoordNum t = firstOf orderGoal t := by
  unfold convert2StrBoolCoordNum orderGoal
  simp only [rewrap, List.append_assoc]
  exact order_str _ t convert2BoolCoordNum (by rw [order_boolCoordNum, List.append_assoc])

theorem order_pointNum (t : Str) : convert2PointNum t = firstOf (ordPoint ++ ordNum) t := by
  unfold convert2PointNum ordPoint
  simp only [rewrap, List.cons_append, List.nil_append, firstOf_cons, rPoint2, rPoint3, order_num]
  cases point2 true sX sY t with
  | some o => cases o <;> rfl
  | none =>
    cases point2 false sN sE t with
    | some o => cases o <;> rfl
    | none =>
      cases point2 false sF sS t with
      | some o => cases o <;> rfl
      | none =>
        cases point3 sX sY sZ t <;> cases point3 sN sE sD t <;> cases point3 sF sS sB t <;> rfl

theorem order_coordPointNum (t : Str) :
    convert2CoordPointNum t = firstOf (ordCoord ++ ordPoint ++ ordNum) t := by
  unfold convert2CoordPointNum ordCoord
  simp only [rewrap, List.cons_append, List.nil_append, firstOf_cons, rLatLon, order_pointNum]
  cases latLon sepNE t <;> cases latLon sepSW t <;> rfl

theorem order_boolCoordPointNum (t : Str) :
    convert2BoolCoordPointNum t = firstOf (ordBool ++ ordCoord ++ ordPoint ++ ordNum) t := by
  unfold convert2BoolCoordPointNum
  simp only [rewrap, List.append_assoc]
  exact order_bool _ t convert2CoordPointNum (by rw [order_coordPointNum, List.append_assoc])

theorem order_pathCoordPointNum (t : Str) :
    convert2PathCoordPointNum t = firstOf (ordPath ++ ordCoord ++ ordPoint ++ ordNum) t := by
  unfold convert2PathCoordPointNum ordPath
  simp only [rewrap, List.cons_append, List.nil_append, firstOf_cons, rPath, order_coordPointNum,
    List.append_assoc]
  cases pathNode t <;> rfl

theorem order_boolPathCoordPointNum (t : Str) :
    convert2BoolPathCoordPointNum t = firstOf (ordBool ++ ordPath ++ ordCoord ++ ordPoint ++ ordNum) t := by
  unfold convert2BoolPathCoordPointNum
  simp only [rewrap, List.append_assoc]
  exact order_bool _ t convert2PathCoordPointNum (by rw [order_pathCoordPointNum]; simp only [List.append_assoc])

theorem order_direct (t : Str) : convert2StrBoolPathCoordPointNum t = firstOf orderDirect t := by
  unfold convert2StrBoolPathCoordPointNum orderDirect
  simp only [rewrap, List.append_assoc]
  exact order_str _ t convert2BoolPathCoordPointNum (by rw [order_boolPathCoordPointNum]; simp only [List.append_assoc])

/-! ## digit characters and `showNat` -/

theorem digit_cases {c : Char} (h : isDigit c = true) : ∃ k, k < 10 ∧ c = Char.ofNat (48 + k) := by
  simp only [isDigit, Bool.and_eq_true, decide_eq_true_eq] at h
  refine ⟨c.toNat - 48, by omega, ?_⟩
  have : 48 + (c.toNat - 48) = c.toNat := by omega
  rw [this, Char.ofNat_toNat]

/-- everything the proofs need to know about a digit character (checked on the ten digits) -/
structure DigitFacts (c : Char) : Prop where
  pySpace : isPySpace c = false
  cSpace : isCSpace c = false
  dq : c ≠ '"'
  sq : c ≠ '\''
  lower : lowerC c = c
  path : pathStep .start c = .fail
  hex : hexVal? c = some (digitVal c)
  lt : digitVal c < 10
  us : c ≠ '_'
  dot : c ≠ '.'
  minus : c ≠ '-'
  plus : c ≠ '+'
  n : c ≠ 'n'
  t : c ≠ 't'
  y : c ≠ 'y'
  f : c ≠ 'f'
  nl : c ≠ '\n'
  letter : isLetter_ c = false

theorem digit_facts {c : Char} (h : isDigit c = true) : DigitFacts c := by
  obtain ⟨k, hk, rfl⟩ := digit_cases h
  have : ∀ k, k < 10 →
      (isPySpace (Char.ofNat (48 + k)) = false ∧ isCSpace (Char.ofNat (48 + k)) = false ∧
       Char.ofNat (48 + k) ≠ '"' ∧ Char.ofNat (48 + k) ≠ '\'' ∧
       lowerC (Char.ofNat (48 + k)) = Char.ofNat (48 + k) ∧
       pathStep .start (Char.ofNat (48 + k)) = .fail ∧
       hexVal? (Char.ofNat (48 + k)) = some (digitVal (Char.ofNat (48 + k))) ∧
       digitVal (Char.ofNat (48 + k)) < 10 ∧
       Char.ofNat (48 + k) ≠ '_' ∧ Char.ofNat (48 + k) ≠ '.' ∧ Char.ofNat (48 + k) ≠ '-' ∧
       Char.ofNat (48 + k) ≠ '+' ∧ Char.ofNat (48 + k) ≠ 'n' ∧ Char.ofNat (48 + k) ≠ 't' ∧
       Char.ofNat (48 + k) ≠ 'y' ∧ Char.ofNat (48 + k) ≠ 'f' ∧ Char.ofNat (48 + k) ≠ '\n' ∧
       isLetter_ (Char.ofNat (48 + k)) = false) := by decide
  obtain ⟨a1, a2, a3, a4, a5, a6, a7, a8, a9, a10, a11, a12, a13, a14, a15, a16, a17, a18⟩ := this k hk
  exact ⟨a1, a2, a3, a4, a5, a6, a7, a8, a9, a10, a11, a12, a13, a14, a15, a16, a17, a18⟩

theorem digitChar_props (n : Nat) : isDigit (digitChar n) = true ∧ digitVal (digitChar n) = n % 10 := by
  have : ∀ k, k < 10 → (isDigit (Char.ofNat (48 + k)) = true ∧ digitVal (Char.ofNat (48 + k)) = k) := by
    decide
  exact this (n % 10) (Nat.mod_lt _ (by decide))

theorem showNat_lt {n : Nat} (h : n < 10) : showNat n = [digitChar n] := by
  rw [showNat]; simp [h]

theorem showNat_ge {n : Nat} (h : ¬ n < 10) : showNat n = showNat (n / 10) ++ [digitChar (n % 10)] := by
  rw [showNat]; simp [h]

theorem showNat_digits (n : Nat) : ∀ c ∈ showNat n, isDigit c = true := by
  induction n using Nat.strongRecOn with
  | _ n ih =>
    by_cases h : n < 10
    · rw [showNat_lt h]; intro c hc; simp at hc; subst hc; exact (digitChar_props n).1
    · rw [showNat_ge h]; intro c hc
      rcases List.mem_append.mp hc with hc | hc
      · exact ih (n / 10) (by omega) c hc
      · simp at hc; subst hc; exact (digitChar_props _).1

theorem showNat_ne_nil (n : Nat) : showNat n ≠ [] := by
  by_cases h : n < 10
  · rw [showNat_lt h]; simp
  · rw [showNat_ge h]; simp

theorem natOfDigits_append (a : Str) (c : Char) : natOfDigits (a ++ [c]) = natOfDigits a * 10 + digitVal c := by
  simp [natOfDigits, List.foldl_append]

theorem natOfDigits_showNat (n : Nat) : natOfDigits (showNat n) = n := by
  induction n using Nat.strongRecOn with
  | _ n ih =>
    by_cases h : n < 10
    · rw [showNat_lt h]
      have := (digitChar_props n).2
      simp [natOfDigits, this]; omega
    · rw [showNat_ge h, natOfDigits_append, ih (n / 10) (by omega), (digitChar_props _).2]
      omega

/-- a string of digits followed by the end or a non-digit -/
theorem takeWhile_digits {ds : Str} (hd : ∀ c ∈ ds, isDigit c = true) {rest : Str}
    (hr : ∀ c r, rest = c :: r → isDigit c = false) :
    (ds ++ rest).takeWhile isDigit = ds ∧ (ds ++ rest).dropWhile isDigit = rest := by
  rw [List.takeWhile_append_of_pos hd, List.dropWhile_append_of_pos hd]
  cases rest with
  | nil => simp
  | cons c r => simp [hr c r rfl]

theorem digits1_digits {ds : Str} (hd : ∀ c ∈ ds, isDigit c = true) (hne : ds ≠ []) {rest : Str}
    (hr : ∀ c r, rest = c :: r → isDigit c = false) : digits1 (ds ++ rest) = some (ds, rest) := by
  unfold digits1
  obtain ⟨e1, e2⟩ := takeWhile_digits hd hr
  simp only [e1, e2]
  cases ds with
  | nil => exact absurd rfl hne
  | cons a b => simp

/-! ## `int(text, 10)` reads back what `showInt` wrote -/

theorem intDigits_digits {ds : Str} (hd : ∀ c ∈ ds, isDigit c = true) :
    ∀ acc any, (any = true ∨ ds ≠ []) →
      intDigits 10 ds acc false any = some (ds.foldl (fun n c => n * 10 + digitVal c) acc) := by
  induction ds with
  | nil =>
    intro acc any h
    rcases h with h | h
    · simp [intDigits, h]
    · exact absurd rfl h
  | cons c cs ih =>
    intro acc any _
    have p := digit_facts (hd c (List.mem_cons_self ..))
    have hu : (c == '_') = false := by simpa using p.us
    rw [intDigits, hu]
    simp only [Bool.false_eq_true, if_false, p.hex, p.lt, if_true]
    rw [ih (fun x hx => hd x (List.mem_cons_of_mem _ hx)) _ true (Or.inl rfl)]
    rfl

theorem rstripBy_eq_self {p : Char → Bool} {s : Str} (h : ∀ c, s.getLast? = some c → p c = false) :
    rstripBy p s = s := by
  induction s with
  | nil => rfl
  | cons c cs ih =>
    cases cs with
    | nil =>
      have := h c (by simp)
      simp [rstripBy, this]
    | cons d ds =>
      have h' : ∀ x, (d :: ds).getLast? = some x → p x = false := by
        intro x hx; apply h; simpa [List.getLast?_cons_cons] using hx
      have e := ih h'
      rw [rstripBy, e]; simp

/-- nothing to strip when the first and last characters are not strippable -/
theorem stripBy_eq_self {p : Char → Bool} {c : Char} {cs : Str} (hh : p c = false)
    (hl : ∀ x, (c :: cs).getLast? = some x → p x = false) : stripBy p (c :: cs) = c :: cs := by
  unfold stripBy; rw [rstripBy_eq_self hl]; simp [hh]

theorem numSpace_false {text : Str} {c : Char} (h1 : isPySpace c = false) (h2 : isCSpace c = false) :
    numSpace text c = false := by
  unfold numSpace; split <;> assumption

/-! ## texts that start like a number are no string, boolean, or path -/

/-- first characters of number literals: a digit or `-` -/
structure HeadFacts (c : Char) : Prop where
  dq : c ≠ '"'
  sq : c ≠ '\''
  lower : lowerC c = c
  path : pathStep .start c = .fail
  n : c ≠ 'n'
  t : c ≠ 't'
  y : c ≠ 'y'
  f : c ≠ 'f'
  nl : c ≠ '\n'

theorem headFacts_digit {c : Char} (h : isDigit c = true) : HeadFacts c :=
  let d := digit_facts h
  ⟨d.dq, d.sq, d.lower, d.path, d.n, d.t, d.y, d.f, d.nl⟩

theorem headFacts_minus : HeadFacts '-' := by
  refine ⟨?_, ?_, ?_, ?_, ?_, ?_, ?_, ?_, ?_⟩ <;> decide

theorem foldl_pathStep_fail (cs : Str) : cs.foldl pathStep .fail = .fail := by
  induction cs with
  | nil => rfl
  | cons c cs ih => simpa [List.foldl, pathStep] using ih

/-- a text whose first character is a digit or `-` is declined by the string, boolean and path recognisers -/
theorem head_declines {c : Char} (cs : Str) (h : HeadFacts c) :
    ∀ r ∈ ordStr ++ ordBool ++ ordPath, r (c :: cs) = none := by
  have hq1 : quotedBy '"' (c :: cs) = false := by
    have : (c == '"') = false := by simpa using h.dq
    simp [quotedBy, this]
  have hq2 : quotedBy '\'' (c :: cs) = false := by
    have : (c == '\'') = false := by simpa using h.sq
    simp [quotedBy, this]
  have hl : lower (c :: cs) = c :: lower cs := by simp [lower, h.lower]
  have hn : isNone (c :: cs) = false := by
    have e : "none".toList = ['n', 'o', 'n', 'e'] := by decide
    simp [isNone, hl, e, h.n]
  have ht : isTrue (c :: cs) = false := by
    have e1 : "true".toList = ['t', 'r', 'u', 'e'] := by decide
    have e2 : "yes".toList = ['y', 'e', 's'] := by decide
    simp [isTrue, hl, e1, e2, h.t, h.y]
  have hf : isFalse (c :: cs) = false := by
    have e1 : "false".toList = ['f', 'a', 'l', 's', 'e'] := by decide
    have e2 : "no".toList = ['n', 'o'] := by decide
    simp [isFalse, hl, e1, e2, h.f, h.n]
  have hp : pathNode (c :: cs) = false := by
    simp [pathNode, List.foldl, h.path, foldl_pathStep_fail]
  intro r hr
  simp only [ordStr, ordBool, ordPath, List.cons_append, List.nil_append, List.mem_cons,
    List.not_mem_nil, or_false] at hr
  rcases hr with rfl | rfl | rfl | rfl | rfl | rfl
  · simp [rQuoted, hq1]
  · simp [rQuoted, hq2]
  · simp [rNone, hn]
  · simp [rTrue, ht]
  · simp [rFalse, hf]
  · simp [rPath, hp]

/-! ## integers -/

theorem showNat_cons (n : Nat) : ∃ d tl, showNat n = d :: tl ∧ isDigit d = true := by
  cases h : showNat n with
  | nil => exact absurd h (showNat_ne_nil n)
  | cons d tl => exact ⟨d, tl, rfl, showNat_digits n d (by rw [h]; exact List.mem_cons_self ..)⟩

theorem splitSign_minus (r : Str) : splitSign ('-' :: r) = (true, r) := rfl

theorem splitSign_other {c : Char} (r : Str) (h1 : c ≠ '-') (h2 : c ≠ '+') :
    splitSign (c :: r) = (false, c :: r) := by
  unfold splitSign
  split
  · rename_i r' heq; cases heq; exact absurd rfl h1
  · rename_i r' heq; cases heq; exact absurd rfl h2
  · rfl

/-- the float that `float(showInt i)` denotes -/
def intF (i : Int) : FloatV :=
  match i with
  | .ofNat n => .fin { neg := false, mant := n, exp := 0 }
  | .negSucc n => .fin { neg := true, mant := n + 1, exp := 0 }

/-- what follows a number inside a point or at the end of a text: not a digit, not a dot -/
def Stops (rest : Str) : Prop := ∀ c r, rest = c :: r → isDigit c = false ∧ c ≠ '.'

theorem decOf_nil (neg : Bool) (n : Nat) : decOf neg (showNat n) [] = .fin { neg := neg, mant := n, exp := 0 } := by
  simp [decOf, natOfDigits_showNat]

theorem numTok_showNat (neg : Bool) (n : Nat) {rest : Str} (hr : Stops rest) :
    (match digits1 (showNat n ++ rest) with
      | some (ip, '.' :: r) => some (decOf neg ip (r.takeWhile isDigit), r.dropWhile isDigit)
      | some (ip, r) => some (decOf neg ip [], r)
      | none => none) = some (FloatV.fin { neg := neg, mant := n, exp := 0 }, rest) := by
  rw [digits1_digits (showNat_digits n) (showNat_ne_nil n) (fun c r e => (hr c r e).1)]
  cases rest with
  | nil => simp [decOf_nil]
  | cons c r =>
    have := (hr c r rfl).2
    split
    · rename_i ip r' heq; cases heq; exact absurd rfl this
    · rename_i ip r' _ heq; cases heq; simp [decOf_nil]
    · rename_i heq; cases heq

theorem numTok_showInt (i : Int) {rest : Str} (hr : Stops rest) :
    numTok (showInt i ++ rest) = some (intF i, rest) := by
  unfold numTok
  cases i with
  | ofNat n =>
    obtain ⟨d, tl, e, hd⟩ := showNat_cons n
    have df := digit_facts hd
    simp only [showInt, e, List.cons_append, splitSign_other _ df.minus df.plus]
    rw [← List.cons_append, ← e]
    exact numTok_showNat false n hr
  | negSucc n =>
    simp only [showInt, List.cons_append, splitSign_minus]
    exact numTok_showNat true (n + 1) hr

theorem stops_nil : Stops [] := fun c r e => by cases e

theorem pyIntAbs_showNat (n : Nat) : pyIntAbs 10 (showNat n) = some n := by
  obtain ⟨d, tl, e, hd⟩ := showNat_cons n
  have df := digit_facts hd
  have h0 : stripPrefix16 10 (showNat n) = (showNat n, false) := by
    unfold stripPrefix16; split <;> simp
  have h1 : skipOneUnderscore false (showNat n) = showNat n := by
    unfold skipOneUnderscore; split <;> simp
  have hi := intDigits_digits (showNat_digits n) 0 false (Or.inr (showNat_ne_nil n))
  have hv : (showNat n).foldl (fun a c => a * 10 + digitVal c) 0 = n := natOfDigits_showNat n
  rw [hv] at hi
  unfold pyIntAbs
  rw [h0]; simp only []; rw [h1]
  unfold intBody
  rw [e] at hi ⊢
  split
  · rename_i heq; cases heq; exact absurd rfl df.us
  · exact hi

/-- `int(showInt i, 10) = i` -/
theorem pyInt_showInt (i : Int) : pyInt 10 (showInt i) = some i := by
  unfold pyInt
  cases i with
  | ofNat n =>
    obtain ⟨d, tl, e, hd⟩ := showNat_cons n
    have df := digit_facts hd
    have hlast : ∀ x, (showNat n).getLast? = some x → numSpace (showNat n) x = false := by
      intro x hx
      have dx := digit_facts (showNat_digits n x (List.mem_of_getLast? hx))
      exact numSpace_false dx.pySpace dx.cSpace
    have hs : stripBy (numSpace (showInt (Int.ofNat n))) (showInt (Int.ofNat n)) = showNat n := by
      simp only [showInt]
      rw [e] at hlast ⊢
      exact stripBy_eq_self (numSpace_false df.pySpace df.cSpace) hlast
    have hsg : splitSign (showNat n) = (false, showNat n) := by
      rw [e]; exact splitSign_other _ df.minus df.plus
    rw [hs, hsg]
    simp [pyIntAbs_showNat]
  | negSucc n =>
    have hlast : ∀ x, ('-' :: showNat (n + 1)).getLast? = some x → numSpace ('-' :: showNat (n + 1)) x = false := by
      intro x hx
      obtain ⟨d, tl, e, _⟩ := showNat_cons (n + 1)
      rw [e, List.getLast?_cons_cons, ← e] at hx
      have dx := digit_facts (showNat_digits (n + 1) x (List.mem_of_getLast? hx))
      exact numSpace_false dx.pySpace dx.cSpace
    have hs : stripBy (numSpace (showInt (Int.negSucc n))) (showInt (Int.negSucc n)) = '-' :: showNat (n + 1) := by
      simp only [showInt]
      exact stripBy_eq_self (numSpace_false (by decide) (by decide)) hlast
    rw [hs, splitSign_minus]
    simp [pyIntAbs_showNat, Int.negSucc_eq]

theorem showInt_head (i : Int) : ∃ c cs, showInt i = c :: cs ∧ HeadFacts c := by
  cases i with
  | ofNat n =>
    obtain ⟨d, tl, e, hd⟩ := showNat_cons n
    exact ⟨d, tl, by simp [showInt, e], headFacts_digit hd⟩
  | negSucc n => exact ⟨'-', showNat (n + 1), rfl, headFacts_minus⟩

theorem latLon_showInt (seps : Str) (i : Int) : latLon seps (showInt i) = none := by
  unfold latLon
  cases i with
  | ofNat n =>
    have := digits1_digits (showNat_digits n) (showNat_ne_nil n) (rest := []) (fun c r e => by cases e)
    simp only [List.append_nil] at this
    simp [showInt, this]
  | negSucc n =>
    have : digits1 ('-' :: showNat (n + 1)) = none := by
      simp [digits1, show isDigit '-' = false by decide]
    simp [showInt, this]

theorem numTok_showInt_nil (i : Int) : numTok (showInt i) = some (intF i, []) := by
  have := numTok_showInt i stops_nil
  simpa using this

theorem point2_showInt (opt : Bool) (s1 s2 : Str) (i : Int) : point2 opt s1 s2 (showInt i) = none := by
  unfold point2; simp [numTok_showInt_nil]

theorem point3_showInt (s1 s2 s3 : Str) (i : Int) : point3 s1 s2 s3 (showInt i) = none := by
  unfold point3; simp [numTok_showInt_nil]

/-- every recogniser that comes before the numbers declines a decimal integer literal -/
theorem int_declines (i : Int) :
    ∀ r ∈ ordStr ++ ordBool ++ ordPath ++ ordCoord ++ ordPoint, r (showInt i) = none := by
  obtain ⟨c, cs, e, hf⟩ := showInt_head i
  intro r hr
  rw [List.append_assoc (ordStr ++ ordBool ++ ordPath), List.mem_append] at hr
  rcases hr with hr | hr
  · rw [e]; exact head_declines cs hf r hr
  · simp only [ordCoord, ordPoint, List.cons_append, List.nil_append, List.mem_cons,
      List.not_mem_nil, or_false] at hr
    rcases hr with rfl | rfl | rfl | rfl | rfl | rfl | rfl | rfl
    · simp [rLatLon, latLon_showInt]
    · simp [rLatLon, latLon_showInt]
    · simp [rPoint2, point2_showInt]
    · simp [rPoint2, point2_showInt]
    · simp [rPoint2, point2_showInt]
    · simp [rPoint3, point3_showInt]
    · simp [rPoint3, point3_showInt]
    · simp [rPoint3, point3_showInt]

theorem firstOf_num_showInt (i : Int) : firstOf ordNum (showInt i) = .ok (.int i) := by
  simp [ordNum, firstOf_cons, rInt, pyInt_showInt]

/-- any order made of recognisers that come before the numbers, followed by the numbers -/
theorem firstOf_showInt {pre : List Recog}
    (h : ∀ r ∈ pre, r ∈ ordStr ++ ordBool ++ ordPath ++ ordCoord ++ ordPoint) (i : Int) :
    firstOf (pre ++ ordNum) (showInt i) = .ok (.int i) := by
  rw [firstOf_append_none (fun r hr => int_declines i r (h r hr)), firstOf_num_showInt]

/-! ## quoted strings and paths -/

theorem rstripBy_eq_nil_of_all {p : Char → Bool} {s : Str} (h : ∀ c ∈ s, p c = true) :
    rstripBy p s = [] := by
  induction s with
  | nil => rfl
  | cons c cs ih =>
    have h1 := ih (fun x hx => h x (List.mem_cons_of_mem _ hx))
    have h2 := h c (List.mem_cons_self ..)
    simp [rstripBy, h1, h2]

theorem rstripBy_append_all {p : Char → Bool} (s : Str) {t : Str} (h : ∀ c ∈ t, p c = true) :
    rstripBy p (s ++ t) = rstripBy p s := by
  induction s with
  | nil => simp [rstripBy_eq_nil_of_all h, rstripBy]
  | cons c cs ih => simp [rstripBy, ih]

/-- a quote-free text written between two quotes `q` is recognised as quoted and stripped back -/
theorem quoted_wrap (q : Char) {s : Str} (h : ∀ c ∈ s, c ≠ q) :
    quotedBy q (q :: (s ++ [q])) = true ∧ stripBy (· == q) (q :: (s ++ [q])) = s := by
  constructor
  · have hd : (s ++ [q]).dropWhile (· != q) = [q] := by
      rw [List.dropWhile_append_of_pos (by intro c hc; simpa using h c hc)]
      simp
    simp [quotedBy, hd, dollar]
  · unfold stripBy
    have e1 : rstripBy (· == q) (q :: (s ++ [q])) = rstripBy (· == q) (q :: s) := by
      rw [← List.cons_append]; exact rstripBy_append_all _ (by simp)
    rw [e1]
    cases s with
    | nil => simp [rstripBy]
    | cons c cs =>
      have hl : ∀ x, (q :: c :: cs).getLast? = some x → (x == q) = false := by
        intro x hx
        rw [List.getLast?_cons_cons] at hx
        simpa using h x (List.mem_of_getLast? hx)
      rw [rstripBy_eq_self hl]
      have hc : (c == q) = false := by simpa using h c (List.mem_cons_self ..)
      simp [hc]

theorem pathNode_head {c : Char} {cs : Str} (h : pathNode (c :: cs) = true) : c ≠ '"' ∧ c ≠ '\'' := by
  constructor
  · intro e; subst e
    simp [pathNode, List.foldl, show pathStep .start '"' = .fail by decide, foldl_pathStep_fail] at h
  · intro e; subst e
    simp [pathNode, List.foldl, show pathStep .start '\'' = .fail by decide, foldl_pathStep_fail] at h

theorem pathNode_not_quoted {p : Str} (h : pathNode p = true) : quotedBy '"' p = false ∧ quotedBy '\'' p = false := by
  cases p with
  | nil => simp [quotedBy]
  | cons c cs =>
    obtain ⟨h1, h2⟩ := pathNode_head h
    have e1 : (c == '"') = false := by simpa using h1
    have e2 : (c == '\'') = false := by simpa using h2
    simp [quotedBy, e1, e2]

theorem sub_pre {a : List Recog} {r : Recog}
    (h : r ∈ a) (ha : ∀ x ∈ a, x ∈ ordStr ++ ordBool ++ ordPath ++ ordCoord ++ ordPoint) :
    r ∈ ordStr ++ ordBool ++ ordPath ++ ordCoord ++ ordPoint := ha r h

/-! ## points with integer coordinates -/

/-- a separator letter of a point: neither digit nor dot -/
def IsSep (l : Char) : Prop := isDigit l = false ∧ l ≠ '.'

theorem stops_cons {l : Char} (h : IsSep l) (r : Str) : Stops (l :: r) := by
  intro c r' e; cases e; exact h

theorem numTok_int_sep (i : Int) {l : Char} (h : IsSep l) (r : Str) :
    numTok (showInt i ++ l :: r) = some (intF i, l :: r) := numTok_showInt i (stops_cons h r)

theorem digits1_showInt_sep (i : Int) {l : Char} (h : IsSep l) (r : Str) :
    digits1 (showInt i ++ l :: r) = none ∨
    ∃ n, i = Int.ofNat n ∧ digits1 (showInt i ++ l :: r) = some (showNat n, l :: r) := by
  cases i with
  | ofNat n =>
    right
    exact ⟨n, rfl, digits1_digits (showNat_digits n) (showNat_ne_nil n) (fun c r' e => by cases e; exact h.1)⟩
  | negSucc n =>
    left
    simp [showInt, digits1, show isDigit '-' = false by decide]

/-- lat/lon declines `<int><sep><int><sep>…` -/
theorem latLon_point (seps : Str) (a b : Int) {l1 l2 : Char} (h1 : IsSep l1) (h2 : IsSep l2) (r : Str) :
    latLon seps (showInt a ++ l1 :: (showInt b ++ l2 :: r)) = none := by
  unfold latLon
  rcases digits1_showInt_sep a h1 (showInt b ++ l2 :: r) with e | ⟨n, _, e⟩
  · rw [e]
  · rw [e]
    simp only []
    split
    · rcases digits1_showInt_sep b h2 r with e2 | ⟨m, _, e2⟩
      · rw [e2]
      · rw [e2]
        split
        · rename_i heq; cases heq; exact absurd rfl h2.2
        · rfl
    · rfl

/-- A: a two-number pattern whose first separator set does not contain the text's first separator -/
theorem point2_decline_sep (opt : Bool) (s1 s2 : Str) (a : Int) {l1 : Char} (h1 : IsSep l1) (r : Str)
    (hn : s1.contains l1 = false) : point2 opt s1 s2 (showInt a ++ l1 :: r) = none := by
  have hn' : l1 ∉ s1 := by simpa using hn
  unfold point2
  rw [numTok_int_sep a h1 r]
  simp [hn']

/-- C: the same for a three-number pattern -/
theorem point3_decline_sep (s1 s2 s3 : Str) (a : Int) {l1 : Char} (h1 : IsSep l1) (r : Str)
    (hn : s1.contains l1 = false) : point3 s1 s2 s3 (showInt a ++ l1 :: r) = none := by
  have hn' : l1 ∉ s1 := by simpa using hn
  unfold point3
  rw [numTok_int_sep a h1 r]
  simp [hn']

theorem dollar_showInt (c : Int) (r : Str) : dollar (showInt c ++ r) = false := by
  obtain ⟨d, tl, e, hf⟩ := showInt_head c
  simp [dollar, e, hf.nl]

/-- B: a two-number pattern on a three-number text: `$` fails -/
theorem point2_decline_long (opt : Bool) (s1 s2 : Str) (a b c : Int) {l1 l2 : Char} (h1 : IsSep l1)
    (h2 : IsSep l2) (r : Str) :
    point2 opt s1 s2 (showInt a ++ l1 :: (showInt b ++ l2 :: (showInt c ++ r))) = none := by
  unfold point2
  rw [numTok_int_sep a h1]
  simp only []
  split
  · rw [numTok_int_sep b h2]
    simp [dollar_showInt]
  · rfl

/-- D2: the two-number pattern of the text's own letters accepts -/
theorem point2_accept (opt : Bool) (s1 s2 : Str) (a b : Int) {l1 l2 : Char} (h1 : IsSep l1) (h2 : IsSep l2)
    (c1 : s1.contains l1 = true) (c2 : s2.contains l2 = true) :
    point2 opt s1 s2 (showInt a ++ l1 :: (showInt b ++ [l2])) = some (some [intF a, intF b]) := by
  unfold point2
  rw [numTok_int_sep a h1]
  simp only [c1, if_true]
  rw [numTok_int_sep b h2]
  have c2' : l2 ∈ s2 := by simpa using c2
  simp [c2', dollar]

/-- D3: the three-number pattern of the text's own letters accepts -/
theorem point3_accept (s1 s2 s3 : Str) (a b c : Int) {l1 l2 l3 : Char} (h1 : IsSep l1) (h2 : IsSep l2)
    (h3 : IsSep l3) (c1 : s1.contains l1 = true) (c2 : s2.contains l2 = true) (c3 : s3.contains l3 = true) :
    point3 s1 s2 s3 (showInt a ++ l1 :: (showInt b ++ l2 :: (showInt c ++ [l3]))) = some [intF a, intF b, intF c] := by
  unfold point3
  rw [numTok_int_sep a h1]
  simp only [c1, if_true]
  rw [numTok_int_sep b h2]
  simp only [c2, if_true]
  rw [numTok_int_sep c h3]
  have c3' : l3 ∈ s3 := by simpa using c3
  simp [c3', dollar]

/-- the recognisers before lat/lon and points decline a text that starts with an integer -/
theorem pre_declines_int_head (a : Int) (r : Str) :
    ∀ x ∈ ordStr ++ ordBool ++ ordPath, x (showInt a ++ r) = none := by
  obtain ⟨c, cs, e, hf⟩ := showInt_head a
  rw [e, List.cons_append]
  exact head_declines _ hf

theorem coord_declines_point (a b : Int) {l1 l2 : Char} (h1 : IsSep l1) (h2 : IsSep l2) (r : Str) :
    ∀ x ∈ ordCoord, x (showInt a ++ l1 :: (showInt b ++ l2 :: r)) = none := by
  intro x hx
  simp only [ordCoord, List.mem_cons, List.not_mem_nil, or_false] at hx
  rcases hx with rfl | rfl <;> simp [rLatLon, latLon_point _ a b h1 h2 r]

theorem direct_to_points {t : Str} (hpre : ∀ x ∈ ordStr ++ ordBool ++ ordPath, x t = none)
    (hc : ∀ x ∈ ordCoord, x t = none) : firstOf orderDirect t = firstOf (ordPoint ++ ordNum) t := by
  unfold orderDirect
  rw [List.append_assoc _ ordPoint ordNum, List.append_assoc _ ordCoord _,
    firstOf_append_none hpre, firstOf_append_none hc]

theorem sep_of {l : Char} (h1 : isDigit l = false) (h2 : l ≠ '.') : IsSep l := ⟨h1, h2⟩

/-! ## finite decimal numerals `[-]digits.digits` -/

/-- the text of a decimal numeral: integer part `a`, fraction digits `ds` -/
def showDec (neg : Bool) (a : Nat) (ds : Str) : Str := (if neg then ['-'] else []) ++ (showNat a ++ '.' :: ds)

theorem dropUnderscores_none_free : ∀ (s : Str) (p : Char), p ≠ '_' → (∀ c ∈ s, c ≠ '_') →
    dropUnderscores s p = some s := by
  intro s
  induction s with
  | nil => intro p hp _; simp [dropUnderscores, hp]
  | cons c cs ih =>
    intro p hp h
    have hc : c ≠ '_' := h c (List.mem_cons_self ..)
    have e1 : (c == '_') = false := by simpa using hc
    have e2 : (p == '_') = false := by simpa using hp
    rw [dropUnderscores]
    simp only [e1, e2, Bool.false_eq_true, if_false, Bool.false_and]
    rw [ih c hc (fun x hx => h x (List.mem_cons_of_mem _ hx))]; rfl

theorem ciPrefix_digit_head {p : Str} {c : Char} {cs : Str} (hc : isDigit c = true)
    (hp : ∃ q qs, p = q :: qs ∧ isDigit q = false ∧ lowerC c ≠ q) : ciPrefix p (c :: cs) = none := by
  obtain ⟨q, qs, rfl, _, hne⟩ := hp
  unfold ciPrefix
  simp [lower, hne]

theorem lowerC_digit {c : Char} (h : isDigit c = true) : lowerC c = c := (digit_facts h).lower

theorem floatPrefix_unsigned (neg : Bool) (a : Nat) (ds : Str) (hds : ∀ c ∈ ds, isDigit c = true) :
    (match ciPrefix "inf".toList (showNat a ++ '.' :: ds) with
      | some r => (match ciPrefix "inity".toList r with
          | some r2 => some (FloatV.inf neg, r2)
          | none => some (FloatV.inf neg, r))
      | none =>
      match ciPrefix "nan".toList (showNat a ++ '.' :: ds) with
      | some r => some (FloatV.nan, r)
      | none =>
        let s1 := showNat a ++ '.' :: ds
        let ip := s1.takeWhile isDigit
        let r := s1.dropWhile isDigit
        let (fp, r) := match r with
          | '.' :: r' => (r'.takeWhile isDigit, r'.dropWhile isDigit)
          | _ => ([], r)
        if ip.isEmpty && fp.isEmpty then none
        else
          let m := natOfDigits (ip ++ fp)
          let e0 : Int := - (fp.length : Int)
          let (e, r) := match r with
            | c :: r' =>
              if c == 'e' || c == 'E' then
                let (eneg, r'') := match r' with
                  | '-' :: q => (true, q)
                  | '+' :: q => (false, q)
                  | _ => (false, r')
                let ed := r''.takeWhile isDigit
                if ed.isEmpty then (e0, r)
                else ((if eneg then e0 - (natOfDigits ed : Int) else e0 + (natOfDigits ed : Int)), r''.dropWhile isDigit)
              else (e0, r)
            | [] => (e0, r)
          some (FloatV.fin { neg := neg, mant := m, exp := e }, r))
      = some (FloatV.fin { neg := neg, mant := natOfDigits (showNat a ++ ds), exp := - (ds.length : Int) }, []) := by
  obtain ⟨d, tl, e, hd⟩ := showNat_cons a
  have hi : ciPrefix "inf".toList (showNat a ++ '.' :: ds) = none := by
    rw [e, List.cons_append]
    exact ciPrefix_digit_head hd ⟨'i', _, rfl, by decide, by rw [lowerC_digit hd]; intro h; subst h; revert hd; decide⟩
  have hn : ciPrefix "nan".toList (showNat a ++ '.' :: ds) = none := by
    rw [e, List.cons_append]
    exact ciPrefix_digit_head hd ⟨'n', _, rfl, by decide, by rw [lowerC_digit hd]; intro h; subst h; revert hd; decide⟩
  have h1 := takeWhile_digits (showNat_digits a) (rest := '.' :: ds) (fun c r h => by cases h; decide)
  have h2 := takeWhile_digits hds (rest := []) (fun c r h => by cases h)
  simp only [List.append_nil] at h2
  rw [hi, hn]
  simp only [h1.1, h1.2, h2.1, h2.2]
  have hne : (showNat a).isEmpty = false := by rw [e]; rfl
  simp [hne]

theorem splitSign_showDec (neg : Bool) (a : Nat) (ds : Str) :
    splitSign (showDec neg a ds) = (neg, showNat a ++ '.' :: ds) := by
  cases neg with
  | true => simp [showDec, splitSign_minus]
  | false =>
    obtain ⟨d, tl, e, hd⟩ := showNat_cons a
    have df := digit_facts hd
    simp only [showDec, Bool.false_eq_true, if_false, List.nil_append]
    rw [e, List.cons_append, splitSign_other _ df.minus df.plus]

theorem floatPrefix_showDec (neg : Bool) (a : Nat) (ds : Str) (hds : ∀ c ∈ ds, isDigit c = true) :
    floatPrefix (showDec neg a ds) =
      some (FloatV.fin { neg := neg, mant := natOfDigits (showNat a ++ ds), exp := - (ds.length : Int) }, []) := by
  unfold floatPrefix
  rw [splitSign_showDec]
  exact floatPrefix_unsigned neg a ds hds

theorem showDec_chars (neg : Bool) (a : Nat) (ds : Str) (hds : ∀ c ∈ ds, isDigit c = true) :
    ∀ c ∈ showDec neg a ds, isDigit c = true ∨ c = '.' ∨ c = '-' := by
  intro c hc
  unfold showDec at hc
  rcases List.mem_append.mp hc with h | h
  · cases neg with
    | true => simp at h; exact Or.inr (Or.inr h)
    | false => simp at h
  · rcases List.mem_append.mp h with h | h
    · exact Or.inl (showNat_digits a c h)
    · rcases List.mem_cons.mp h with rfl | h
      · exact Or.inr (Or.inl rfl)
      · exact Or.inl (hds c h)

theorem char_plain {c : Char} (h : isDigit c = true ∨ c = '.' ∨ c = '-') :
    c ≠ '_' ∧ isPySpace c = false ∧ isCSpace c = false := by
  rcases h with h | rfl | rfl
  · have d := digit_facts h; exact ⟨d.us, d.pySpace, d.cSpace⟩
  · decide
  · decide

theorem showDec_cons (neg : Bool) (a : Nat) (ds : Str) : ∃ c cs, showDec neg a ds = c :: cs := by
  cases neg with
  | true => exact ⟨'-', _, rfl⟩
  | false =>
    obtain ⟨d, tl, e, _⟩ := showNat_cons a
    exact ⟨d, tl ++ '.' :: ds, by simp [showDec, e]⟩

/-- `float("[-]digits.digits")` is the exact decimal the numeral denotes -/
theorem pyFloat_showDec (neg : Bool) (a : Nat) (ds : Str) (hds : ∀ c ∈ ds, isDigit c = true) :
    pyFloat (showDec neg a ds) =
      some (FloatV.fin { neg := neg, mant := natOfDigits (showNat a ++ ds), exp := - (ds.length : Int) }) := by
  have hch := showDec_chars neg a ds hds
  obtain ⟨c, cs, e⟩ := showDec_cons neg a ds
  have hstrip : stripBy (numSpace (showDec neg a ds)) (showDec neg a ds) = showDec neg a ds := by
    rw [e]
    rw [e] at hch
    apply stripBy_eq_self
    · exact numSpace_false (char_plain (hch c (List.mem_cons_self ..))).2.1 (char_plain (hch c (List.mem_cons_self ..))).2.2
    · intro x hx
      have := hch x (List.mem_of_getLast? hx)
      exact numSpace_false (char_plain this).2.1 (char_plain this).2.2
  unfold pyFloat
  rw [hstrip, dropUnderscores_none_free _ 'x' (by decide) (fun c hc => (char_plain (hch c hc)).1)]
  simp only []
  rw [floatPrefix_showDec neg a ds hds]

theorem intDigits_dot (base : Nat) (hb : 10 ≤ base) : ∀ (dg : Str), (∀ c ∈ dg, isDigit c = true) →
    ∀ (rest : Str) (acc : Nat) (pu any : Bool), intDigits base (dg ++ '.' :: rest) acc pu any = none := by
  intro dg
  induction dg with
  | nil => intro _ rest acc pu any; simp [intDigits, show hexVal? '.' = none by decide]
  | cons c cs ih =>
    intro h rest acc pu any
    have p := digit_facts (h c (List.mem_cons_self ..))
    have hu : (c == '_') = false := by simpa using p.us
    have hlt : digitVal c < base := by have := p.lt; omega
    rw [List.cons_append, intDigits, hu]
    simp only [Bool.false_eq_true, if_false, p.hex, hlt, if_true]
    exact ih (fun x hx => h x (List.mem_cons_of_mem _ hx)) rest _ _ _

theorem pyInt_showDec (base : Nat) (hb : base = 10 ∨ base = 16) (neg : Bool) (a : Nat) (ds : Str)
    (hds : ∀ c ∈ ds, isDigit c = true) : pyInt base (showDec neg a ds) = none := by
  have hch := showDec_chars neg a ds hds
  obtain ⟨c, cs, e⟩ := showDec_cons neg a ds
  have hstrip : stripBy (numSpace (showDec neg a ds)) (showDec neg a ds) = showDec neg a ds := by
    rw [e]
    rw [e] at hch
    apply stripBy_eq_self
    · exact numSpace_false (char_plain (hch c (List.mem_cons_self ..))).2.1 (char_plain (hch c (List.mem_cons_self ..))).2.2
    · intro x hx
      have := hch x (List.mem_of_getLast? hx)
      exact numSpace_false (char_plain this).2.1 (char_plain this).2.2
  unfold pyInt
  rw [hstrip, splitSign_showDec]
  simp only []
  have hbody : pyIntAbs base (showNat a ++ '.' :: ds) = none := by
    obtain ⟨d, tl, e2, hd⟩ := showNat_cons a
    have df := digit_facts hd
    have h0 : stripPrefix16 base (showNat a ++ '.' :: ds) = (showNat a ++ '.' :: ds, false) := by
      unfold stripPrefix16
      split
      · rename_i x r heq
        -- the second character is a digit or the dot: not an `x`
        have hx : x ≠ 'x' ∧ x ≠ 'X' := by
          rw [e2] at heq
          cases tl with
          | nil => simp at heq; rw [← heq.2.1]; decide
          | cons t2 tl2 =>
            simp at heq
            have : isDigit t2 = true := showNat_digits a t2 (by rw [e2]; simp)
            rw [← heq.2.1]
            constructor <;> (intro h; rw [h] at this; revert this; decide)
        simp [hx.1, hx.2]
      · rfl
    have h1 : skipOneUnderscore false (showNat a ++ '.' :: ds) = showNat a ++ '.' :: ds := by
      unfold skipOneUnderscore; split <;> simp
    unfold pyIntAbs
    rw [h0]; simp only []; rw [h1]
    unfold intBody
    have hi := intDigits_dot base (by rcases hb with rfl | rfl <;> omega) (showNat a) (showNat_digits a) ds 0 false false
    rw [e2] at hi ⊢
    simp only [List.cons_append] at hi ⊢
    split
    · rfl
    · exact hi
  rw [hbody]; rfl

theorem latLon_showDec (seps : Str) (hs : seps.contains '.' = false) (neg : Bool) (a : Nat) (ds : Str) :
    latLon seps (showDec neg a ds) = none := by
  unfold latLon
  cases neg with
  | true =>
    have : digits1 (showDec true a ds) = none := by
      simp [showDec, digits1, show isDigit '-' = false by decide]
    rw [this]
  | false =>
    have := digits1_digits (showNat_digits a) (showNat_ne_nil a) (rest := '.' :: ds) (fun c r e => by cases e; decide)
    have hs' : ¬ '.' ∈ seps := by simpa using hs
    simp [showDec, this, hs']

theorem numTok_showDec (neg : Bool) (a : Nat) (ds : Str) (hds : ∀ c ∈ ds, isDigit c = true) :
    ∃ v, numTok (showDec neg a ds) = some (v, []) := by
  unfold numTok
  rw [splitSign_showDec]
  simp only []
  have := digits1_digits (showNat_digits a) (showNat_ne_nil a) (rest := '.' :: ds) (fun c r e => by cases e; decide)
  rw [this]
  have h2 := takeWhile_digits hds (rest := []) (fun c r h => by cases h)
  simp only [List.append_nil] at h2
  refine ⟨decOf neg (showNat a) (List.takeWhile isDigit ds), ?_⟩
  simp [h2.2]

theorem point_showDec (neg : Bool) (a : Nat) (ds : Str) (hds : ∀ c ∈ ds, isDigit c = true) :
    (∀ opt s1 s2, point2 opt s1 s2 (showDec neg a ds) = none) ∧
    (∀ s1 s2 s3, point3 s1 s2 s3 (showDec neg a ds) = none) := by
  obtain ⟨v, hv⟩ := numTok_showDec neg a ds hds
  constructor
  · intro opt s1 s2; unfold point2; simp [hv]
  · intro s1 s2 s3; unfold point3; simp [hv]

theorem dec_declines (neg : Bool) (a : Nat) (ds : Str) (hds : ∀ c ∈ ds, isDigit c = true) :
    ∀ r ∈ ordStr ++ ordBool ++ ordPath ++ ordCoord ++ ordPoint, r (showDec neg a ds) = none := by
  obtain ⟨c, cs, e⟩ := showDec_cons neg a ds
  have hf : HeadFacts c := by
    cases neg with
    | true => simp [showDec] at e; rw [← e.1]; exact headFacts_minus
    | false =>
      obtain ⟨d, tl, e2, hd⟩ := showNat_cons a
      simp [showDec, e2] at e; rw [← e.1]; exact headFacts_digit hd
  obtain ⟨hp2, hp3⟩ := point_showDec neg a ds hds
  intro r hr
  rw [List.append_assoc (ordStr ++ ordBool ++ ordPath), List.mem_append] at hr
  rcases hr with hr | hr
  · rw [e]; exact head_declines cs hf r hr
  · simp only [ordCoord, ordPoint, List.cons_append, List.nil_append, List.mem_cons,
      List.not_mem_nil, or_false] at hr
    rcases hr with rfl | rfl | rfl | rfl | rfl | rfl | rfl | rfl
    · simp [rLatLon, latLon_showDec sepNE (by decide)]
    · simp [rLatLon, latLon_showDec sepSW (by decide)]
    · simp [rPoint2, hp2]
    · simp [rPoint2, hp2]
    · simp [rPoint2, hp2]
    · simp [rPoint3, hp3]
    · simp [rPoint3, hp3]
    · simp [rPoint3, hp3]

/-- the exact decimal a numeral denotes -/
def decValue (neg : Bool) (a : Nat) (ds : Str) : FloatV :=
  .fin { neg := neg, mant := natOfDigits (showNat a ++ ds), exp := - (ds.length : Int) }

theorem firstOf_showDec {pre : List Recog}
    (h : ∀ r ∈ pre, r ∈ ordStr ++ ordBool ++ ordPath ++ ordCoord ++ ordPoint)
    (neg : Bool) (a : Nat) (ds : Str) (hds : ∀ c ∈ ds, isDigit c = true) :
    firstOf (pre ++ ordNum) (showDec neg a ds) = .ok (.float (decValue neg a ds)) := by
  rw [firstOf_append_none (fun r hr => dec_declines neg a ds hds r (h r hr))]
  simp [ordNum, firstOf_cons, rInt, rFloat, pyInt_showDec 10 (Or.inl rfl) neg a ds hds,
    pyInt_showDec 16 (Or.inr rfl) neg a ds hds, pyFloat_showDec neg a ds hds, decValue]

end Ioflo.Literal
