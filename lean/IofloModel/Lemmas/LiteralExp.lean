import IofloModel.Lemmas.Literal
/-! Lemmas for C17: decimal numerals with an exponent, `[-]digits.digits e(+|-)digits` (the form Python writes). -/
namespace Ioflo.Literal

/-- `e+<k>` / `e-<k>` -/
def expTail (eneg : Bool) (k : Nat) : Str := 'e' :: (if eneg then '-' else '+') :: showNat k

/-- the text of a decimal numeral with exponent -/
def showExp (neg : Bool) (a : Nat) (ds : Str) (eneg : Bool) (k : Nat) : Str := showDec neg a ds ++ expTail eneg k

theorem showExp_eq (neg : Bool) (a : Nat) (ds : Str) (eneg : Bool) (k : Nat) :
    showExp neg a ds eneg k = showDec neg a (ds ++ expTail eneg k) := by
  simp [showExp, showDec]

/-- the exact decimal it denotes -/
def expValue (neg : Bool) (a : Nat) (ds : Str) (eneg : Bool) (k : Nat) : FloatV :=
  .fin { neg := neg, mant := natOfDigits (showNat a ++ ds),
         exp := if eneg then - (ds.length : Int) - (k : Int) else - (ds.length : Int) + (k : Int) }

theorem expTail_head (eneg : Bool) (k : Nat) : ∀ c r, expTail eneg k = c :: r → isDigit c = false := by
  intro c r h; simp [expTail] at h; rw [← h.1]; decide

theorem floatPrefix_exp_unsigned (neg : Bool) (a : Nat) (ds : Str) (hds : ∀ c ∈ ds, isDigit c = true)
    (eneg : Bool) (k : Nat) :
    (match ciPrefix "inf".toList (showNat a ++ '.' :: (ds ++ expTail eneg k)) with
      | some r => (match ciPrefix "inity".toList r with
          | some r2 => some (FloatV.inf neg, r2)
          | none => some (FloatV.inf neg, r))
      | none =>
      match ciPrefix "nan".toList (showNat a ++ '.' :: (ds ++ expTail eneg k)) with
      | some r => some (FloatV.nan, r)
      | none =>
        let s1 := showNat a ++ '.' :: (ds ++ expTail eneg k)
        let ip := s1.takeWhile isDigit
        let r := s1.dropWhile isDigit
        let (fp, r) := match r with
          | '.' :: r' => (r'.takeWhile isDigit, r'.dropWhile isDigit)
          | _ => ([], r)
        if ip.isEmpty && fp.isEmpty then none
        else
          let m := natOfDigits (ip ++ fp)
          let e0 : Int := - (fp.length : Int)
          let (e, r) := match r with
            | c :: r' =>
              if c == 'e' || c == 'E' then
                let (eneg, r'') := match r' with
                  | '-' :: q => (true, q)
                  | '+' :: q => (false, q)
                  | _ => (false, r')
                let ed := r''.takeWhile isDigit
                if ed.isEmpty then (e0, r)
                else ((if eneg then e0 - (natOfDigits ed : Int) else e0 + (natOfDigits ed : Int)), r''.dropWhile isDigit)
              else (e0, r)
            | [] => (e0, r)
          some (FloatV.fin { neg := neg, mant := m, exp := e }, r))
      = some (expValue neg a ds eneg k, []) := by
  obtain ⟨d, tl, e, hd⟩ := showNat_cons a
  have hi : ciPrefix "inf".toList (showNat a ++ '.' :: (ds ++ expTail eneg k)) = none := by
    rw [e, List.cons_append]
    exact ciPrefix_digit_head hd ⟨'i', _, rfl, by decide, by rw [lowerC_digit hd]; intro h; subst h; revert hd; decide⟩
  have hn : ciPrefix "nan".toList (showNat a ++ '.' :: (ds ++ expTail eneg k)) = none := by
    rw [e, List.cons_append]
    exact ciPrefix_digit_head hd ⟨'n', _, rfl, by decide, by rw [lowerC_digit hd]; intro h; subst h; revert hd; decide⟩
  have h1 := takeWhile_digits (showNat_digits a) (rest := '.' :: (ds ++ expTail eneg k)) (fun c r h => by cases h; decide)
  have h2 := takeWhile_digits hds (rest := expTail eneg k) (expTail_head eneg k)
  have h3 := takeWhile_digits (showNat_digits k) (rest := []) (fun c r h => by cases h)
  simp only [List.append_nil] at h3
  rw [hi, hn]
  simp only [h1.1, h1.2, h2.1, h2.2]
  have hne : (showNat a).isEmpty = false := by rw [e]; rfl
  have hnk : (showNat k).isEmpty = false := by
    obtain ⟨d2, tl2, e2, _⟩ := showNat_cons k; rw [e2]; rfl
  cases eneg with
  | true => simp [hne, expTail, h3.1, h3.2, hnk, natOfDigits_showNat, expValue]
  | false => simp [hne, expTail, h3.1, h3.2, hnk, natOfDigits_showNat, expValue]

theorem floatPrefix_showExp (neg : Bool) (a : Nat) (ds : Str) (hds : ∀ c ∈ ds, isDigit c = true) (eneg : Bool) (k : Nat) :
    floatPrefix (showExp neg a ds eneg k) = some (expValue neg a ds eneg k, []) := by
  rw [showExp_eq]
  unfold floatPrefix
  rw [splitSign_showDec]
  exact floatPrefix_exp_unsigned neg a ds hds eneg k

theorem showExp_chars (neg : Bool) (a : Nat) (ds : Str) (hds : ∀ c ∈ ds, isDigit c = true) (eneg : Bool) (k : Nat) :
    ∀ c ∈ showExp neg a ds eneg k, (isDigit c = true ∨ c = '.' ∨ c = '-') ∨ c = 'e' ∨ c = '+' := by
  intro c hc
  unfold showExp at hc
  rcases List.mem_append.mp hc with h | h
  · exact Or.inl (showDec_chars neg a ds hds c h)
  · simp only [expTail, List.mem_cons] at h
    rcases h with rfl | h | h
    · exact Or.inr (Or.inl rfl)
    · cases eneg with
      | true => simp at h; exact Or.inl (Or.inr (Or.inr h))
      | false => simp at h; exact Or.inr (Or.inr h)
    · exact Or.inl (Or.inl (showNat_digits k c h))

theorem char_plain_exp {c : Char} (h : (isDigit c = true ∨ c = '.' ∨ c = '-') ∨ c = 'e' ∨ c = '+') :
    c ≠ '_' ∧ isPySpace c = false ∧ isCSpace c = false := by
  rcases h with h | rfl | rfl
  · exact char_plain h
  · decide
  · decide

theorem showExp_cons (neg : Bool) (a : Nat) (ds : Str) (eneg : Bool) (k : Nat) :
    ∃ c cs, showExp neg a ds eneg k = c :: cs := by
  rw [showExp_eq]; exact showDec_cons neg a _

theorem showExp_strip (neg : Bool) (a : Nat) (ds : Str) (hds : ∀ c ∈ ds, isDigit c = true) (eneg : Bool) (k : Nat) :
    stripBy (numSpace (showExp neg a ds eneg k)) (showExp neg a ds eneg k) = showExp neg a ds eneg k := by
  have hch := showExp_chars neg a ds hds eneg k
  obtain ⟨c, cs, e⟩ := showExp_cons neg a ds eneg k
  rw [e]
  rw [e] at hch
  apply stripBy_eq_self
  · exact numSpace_false (char_plain_exp (hch c (List.mem_cons_self ..))).2.1 (char_plain_exp (hch c (List.mem_cons_self ..))).2.2
  · intro x hx
    have := hch x (List.mem_of_getLast? hx)
    exact numSpace_false (char_plain_exp this).2.1 (char_plain_exp this).2.2

theorem pyFloat_showExp (neg : Bool) (a : Nat) (ds : Str) (hds : ∀ c ∈ ds, isDigit c = true) (eneg : Bool) (k : Nat) :
    pyFloat (showExp neg a ds eneg k) = some (expValue neg a ds eneg k) := by
  have hch := showExp_chars neg a ds hds eneg k
  unfold pyFloat
  rw [showExp_strip neg a ds hds eneg k,
    dropUnderscores_none_free _ 'x' (by decide) (fun c hc => (char_plain_exp (hch c hc)).1)]
  simp only []
  rw [floatPrefix_showExp neg a ds hds eneg k]

/-- a numeral with a dot after its integer digits is not an integer literal in base 10 or 16, whatever follows -/
theorem pyInt_dotted (base : Nat) (hb : base = 10 ∨ base = 16) (neg : Bool) (a : Nat) (ds : Str)
    (hstrip : stripBy (numSpace (showDec neg a ds)) (showDec neg a ds) = showDec neg a ds) :
    pyInt base (showDec neg a ds) = none := by
  unfold pyInt
  rw [hstrip, splitSign_showDec]
  simp only []
  have hbody : pyIntAbs base (showNat a ++ '.' :: ds) = none := by
    obtain ⟨d, tl, e2, hd⟩ := showNat_cons a
    have df := digit_facts hd
    have h0 : stripPrefix16 base (showNat a ++ '.' :: ds) = (showNat a ++ '.' :: ds, false) := by
      unfold stripPrefix16
      split
      · rename_i x r heq
        -- the second character is a digit or the dot: not an `x`
        have hx : x ≠ 'x' ∧ x ≠ 'X' := by
          rw [e2] at heq
          cases tl with
          | nil => simp at heq; rw [← heq.2.1]; decide
          | cons t2 tl2 =>
            simp at heq
            have : isDigit t2 = true := showNat_digits a t2 (by rw [e2]; simp)
            rw [← heq.2.1]
            constructor <;> (intro h; rw [h] at this; revert this; decide)
        simp [hx.1, hx.2]
      · rfl
    have h1 : skipOneUnderscore false (showNat a ++ '.' :: ds) = showNat a ++ '.' :: ds := by
      unfold skipOneUnderscore; split <;> simp
    unfold pyIntAbs
    rw [h0]; simp only []; rw [h1]
    unfold intBody
    have hi := intDigits_dot base (by rcases hb with rfl | rfl <;> omega) (showNat a) (showNat_digits a) ds 0 false false
    rw [e2] at hi ⊢
    simp only [List.cons_append] at hi ⊢
    split
    · rfl
    · exact hi
  rw [hbody]; rfl

theorem pyInt_showExp (base : Nat) (hb : base = 10 ∨ base = 16) (neg : Bool) (a : Nat) (ds : Str)
    (hds : ∀ c ∈ ds, isDigit c = true) (eneg : Bool) (k : Nat) : pyInt base (showExp neg a ds eneg k) = none := by
  have h := showExp_strip neg a ds hds eneg k
  rw [showExp_eq] at h ⊢
  exact pyInt_dotted base hb neg a _ h

theorem numTok_showExp (neg : Bool) (a : Nat) (ds : Str) (hds : ∀ c ∈ ds, isDigit c = true) (eneg : Bool) (k : Nat) :
    ∃ v, numTok (showExp neg a ds eneg k) = some (v, expTail eneg k) := by
  rw [showExp_eq]
  unfold numTok
  rw [splitSign_showDec]
  simp only []
  have := digits1_digits (showNat_digits a) (showNat_ne_nil a) (rest := '.' :: (ds ++ expTail eneg k))
    (fun c r e => by cases e; decide)
  rw [this]
  have h2 := takeWhile_digits hds (rest := expTail eneg k) (expTail_head eneg k)
  exact ⟨decOf neg (showNat a) ds, by simp [h2.1, h2.2]⟩

/-- `e` is not a first separator of any point form -/
theorem point_showExp (neg : Bool) (a : Nat) (ds : Str) (hds : ∀ c ∈ ds, isDigit c = true) (eneg : Bool) (k : Nat) :
    (∀ opt s2, point2 opt sX s2 (showExp neg a ds eneg k) = none) ∧
    (∀ opt s2, point2 opt sN s2 (showExp neg a ds eneg k) = none) ∧
    (∀ opt s2, point2 opt sF s2 (showExp neg a ds eneg k) = none) ∧
    (∀ s2 s3, point3 sX s2 s3 (showExp neg a ds eneg k) = none) ∧
    (∀ s2 s3, point3 sN s2 s3 (showExp neg a ds eneg k) = none) ∧
    (∀ s2 s3, point3 sF s2 s3 (showExp neg a ds eneg k) = none) := by
  obtain ⟨v, hv⟩ := numTok_showExp neg a ds hds eneg k
  have hx : ¬ 'e' ∈ sX := by decide
  have hn : ¬ 'e' ∈ sN := by decide
  have hf : ¬ 'e' ∈ sF := by decide
  refine ⟨?_, ?_, ?_, ?_, ?_, ?_⟩ <;> intros <;> first
    | (unfold point2; simp [hv, expTail, hx, hn, hf])
    | (unfold point3; simp [hv, expTail, hx, hn, hf])

theorem latLon_showExp (seps : Str) (hs : seps.contains '.' = false) (neg : Bool) (a : Nat) (ds : Str)
    (eneg : Bool) (k : Nat) : latLon seps (showExp neg a ds eneg k) = none := by
  rw [showExp_eq]; exact latLon_showDec seps hs neg a _

theorem exp_declines (neg : Bool) (a : Nat) (ds : Str) (hds : ∀ c ∈ ds, isDigit c = true) (eneg : Bool) (k : Nat) :
    ∀ r ∈ ordStr ++ ordBool ++ ordPath ++ ordCoord ++ ordPoint, r (showExp neg a ds eneg k) = none := by
  obtain ⟨c, cs, e⟩ := showExp_cons neg a ds eneg k
  have hf : HeadFacts c := by
    rw [showExp_eq] at e
    cases neg with
    | true => simp [showDec] at e; rw [← e.1]; exact headFacts_minus
    | false =>
      obtain ⟨d, tl, e2, hd⟩ := showNat_cons a
      simp [showDec, e2] at e; rw [← e.1]; exact headFacts_digit hd
  obtain ⟨p1, p2, p3, p4, p5, p6⟩ := point_showExp neg a ds hds eneg k
  intro r hr
  rw [List.append_assoc (ordStr ++ ordBool ++ ordPath), List.mem_append] at hr
  rcases hr with hr | hr
  · rw [e]; exact head_declines cs hf r hr
  · simp only [ordCoord, ordPoint, List.cons_append, List.nil_append, List.mem_cons,
      List.not_mem_nil, or_false] at hr
    rcases hr with rfl | rfl | rfl | rfl | rfl | rfl | rfl | rfl
    · simp [rLatLon, latLon_showExp sepNE (by decide)]
    · simp [rLatLon, latLon_showExp sepSW (by decide)]
    · simp [rPoint2, p1]
    · simp [rPoint2, p2]
    · simp [rPoint2, p3]
    · simp [rPoint3, p4]
    · simp [rPoint3, p5]
    · simp [rPoint3, p6]

theorem firstOf_showExp {pre : List Recog}
    (h : ∀ r ∈ pre, r ∈ ordStr ++ ordBool ++ ordPath ++ ordCoord ++ ordPoint)
    (neg : Bool) (a : Nat) (ds : Str) (hds : ∀ c ∈ ds, isDigit c = true) (eneg : Bool) (k : Nat) :
    firstOf (pre ++ ordNum) (showExp neg a ds eneg k) = .ok (.float (expValue neg a ds eneg k)) := by
  rw [firstOf_append_none (fun r hr => exp_declines neg a ds hds eneg k r (h r hr))]
  simp [ordNum, firstOf_cons, rInt, rFloat, pyInt_showExp 10 (Or.inl rfl) neg a ds hds eneg k,
    pyInt_showExp 16 (Or.inr rfl) neg a ds hds eneg k, pyFloat_showExp neg a ds hds eneg k]

end Ioflo.Literal
