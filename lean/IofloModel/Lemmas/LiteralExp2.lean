import IofloModel.Lemmas.LiteralPoint
/-! Lemmas for C17: the exponent form without a dot, `[-]digits e(+|-)digits` (`1e+16`, `1e-05` as Python writes). -/
namespace Ioflo.Literal

/-- `[-]<a>e(+|-)<k>` -/
def showExpI (neg : Bool) (a : Nat) (eneg : Bool) (k : Nat) : Str :=
  (if neg then ['-'] else []) ++ (showNat a ++ expTail eneg k)

def expValueI (neg : Bool) (a : Nat) (eneg : Bool) (k : Nat) : FloatV :=
  .fin { neg := neg, mant := a, exp := if eneg then - (k : Int) else (k : Int) }

theorem splitSign_showExpI (neg : Bool) (a : Nat) (eneg : Bool) (k : Nat) :
    splitSign (showExpI neg a eneg k) = (neg, showNat a ++ expTail eneg k) := by
  cases neg with
  | true => simp [showExpI, splitSign_minus]
  | false =>
    obtain ⟨d, tl, e, hd⟩ := showNat_cons a
    have df := digit_facts hd
    simp only [showExpI, Bool.false_eq_true, if_false, List.nil_append]
    rw [e, List.cons_append, splitSign_other _ df.minus df.plus]

theorem showExpI_chars (neg : Bool) (a : Nat) (eneg : Bool) (k : Nat) :
    ∀ c ∈ showExpI neg a eneg k, (isDigit c = true ∨ c = '.' ∨ c = '-') ∨ c = 'e' ∨ c = '+' := by
  intro c hc
  unfold showExpI at hc
  rcases List.mem_append.mp hc with h | h
  · cases neg with
    | true => simp at h; exact Or.inl (Or.inr (Or.inr h))
    | false => simp at h
  · rcases List.mem_append.mp h with h | h
    · exact Or.inl (Or.inl (showNat_digits a c h))
    · simp only [expTail, List.mem_cons] at h
      rcases h with rfl | h | h
      · exact Or.inr (Or.inl rfl)
      · cases eneg with
        | true => simp at h; exact Or.inl (Or.inr (Or.inr h))
        | false => simp at h; exact Or.inr (Or.inr h)
      · exact Or.inl (Or.inl (showNat_digits k c h))

theorem showExpI_head (neg : Bool) (a : Nat) (eneg : Bool) (k : Nat) :
    ∃ c cs, showExpI neg a eneg k = c :: cs ∧ HeadFacts c := by
  cases neg with
  | true => exact ⟨'-', _, rfl, headFacts_minus⟩
  | false =>
    obtain ⟨d, tl, e, hd⟩ := showNat_cons a
    exact ⟨d, tl ++ expTail eneg k, by simp [showExpI, e], headFacts_digit hd⟩

theorem showExpI_strip (neg : Bool) (a : Nat) (eneg : Bool) (k : Nat) :
    stripBy (numSpace (showExpI neg a eneg k)) (showExpI neg a eneg k) = showExpI neg a eneg k := by
  have hch := showExpI_chars neg a eneg k
  obtain ⟨c, cs, e, _⟩ := showExpI_head neg a eneg k
  rw [e]
  rw [e] at hch
  apply stripBy_eq_self
  · exact numSpace_false (char_plain_exp (hch c (List.mem_cons_self ..))).2.1 (char_plain_exp (hch c (List.mem_cons_self ..))).2.2
  · intro x hx
    have := hch x (List.mem_of_getLast? hx)
    exact numSpace_false (char_plain_exp this).2.1 (char_plain_exp this).2.2

/-- digits, then `e`, then a sign: not an integer in base 10 (`e` is no digit) nor in base 16 (the sign is none) -/
theorem intDigits_exp (base : Nat) (hb : base = 10 ∨ base = 16) (eneg : Bool) (k : Nat) :
    ∀ (dg : Str), (∀ c ∈ dg, isDigit c = true) →
      ∀ (acc : Nat) (pu any : Bool), intDigits base (dg ++ expTail eneg k) acc pu any = none := by
  intro dg
  induction dg with
  | nil =>
    intro _ acc pu any
    have he : hexVal? 'e' = some 14 := by decide
    have hp : hexVal? '+' = none := by decide
    have hm : hexVal? '-' = none := by decide
    rcases hb with rfl | rfl <;> cases eneg <;>
      simp [expTail, intDigits, he, hp, hm, show ('e' == '_') = false by decide, show ('+' == '_') = false by decide,
        show ('-' == '_') = false by decide]
  | cons c cs ih =>
    intro h acc pu any
    have p := digit_facts (h c (List.mem_cons_self ..))
    have hu : (c == '_') = false := by simpa using p.us
    have hlt : digitVal c < base := by have := p.lt; rcases hb with rfl | rfl <;> omega
    rw [List.cons_append, intDigits, hu]
    simp only [Bool.false_eq_true, if_false, p.hex, hlt, if_true]
    exact ih (fun x hx => h x (List.mem_cons_of_mem _ hx)) _ _ _

theorem pyInt_showExpI (base : Nat) (hb : base = 10 ∨ base = 16) (neg : Bool) (a : Nat) (eneg : Bool) (k : Nat) :
    pyInt base (showExpI neg a eneg k) = none := by
  unfold pyInt
  rw [showExpI_strip, splitSign_showExpI]
  simp only []
  have hbody : pyIntAbs base (showNat a ++ expTail eneg k) = none := by
    obtain ⟨d, tl, e2, hd⟩ := showNat_cons a
    have df := digit_facts hd
    have h0 : stripPrefix16 base (showNat a ++ expTail eneg k) = (showNat a ++ expTail eneg k, false) := by
      unfold stripPrefix16
      split
      · rename_i x r heq
        have hx : x ≠ 'x' ∧ x ≠ 'X' := by
          rw [e2] at heq
          cases tl with
          | nil => simp [expTail] at heq; rw [← heq.2.1]; decide
          | cons t2 tl2 =>
            simp at heq
            have : isDigit t2 = true := showNat_digits a t2 (by rw [e2]; simp)
            rw [← heq.2.1]
            constructor <;> (intro h; rw [h] at this; revert this; decide)
        simp [hx.1, hx.2]
      · rfl
    have h1 : skipOneUnderscore false (showNat a ++ expTail eneg k) = showNat a ++ expTail eneg k := by
      unfold skipOneUnderscore; split <;> simp
    unfold pyIntAbs
    rw [h0]; simp only []; rw [h1]
    unfold intBody
    have hi := intDigits_exp base hb eneg k (showNat a) (showNat_digits a) 0 false false
    rw [e2] at hi ⊢
    simp only [List.cons_append] at hi ⊢
    split
    · rfl
    · exact hi
  rw [hbody]; rfl

theorem floatPrefix_showExpI (neg : Bool) (a : Nat) (eneg : Bool) (k : Nat) :
    floatPrefix (showExpI neg a eneg k) = some (expValueI neg a eneg k, []) := by
  unfold floatPrefix
  rw [splitSign_showExpI]
  simp only []
  obtain ⟨d, tl, e, hd⟩ := showNat_cons a
  have hi : ciPrefix "inf".toList (showNat a ++ expTail eneg k) = none := by
    rw [e, List.cons_append]
    exact ciPrefix_digit_head hd ⟨'i', _, rfl, by decide, by rw [lowerC_digit hd]; intro h; subst h; revert hd; decide⟩
  have hn : ciPrefix "nan".toList (showNat a ++ expTail eneg k) = none := by
    rw [e, List.cons_append]
    exact ciPrefix_digit_head hd ⟨'n', _, rfl, by decide, by rw [lowerC_digit hd]; intro h; subst h; revert hd; decide⟩
  have h1 := takeWhile_digits (showNat_digits a) (rest := expTail eneg k) (expTail_head eneg k)
  have h3 := takeWhile_digits (showNat_digits k) (rest := []) (fun c r h => by cases h)
  simp only [List.append_nil] at h3
  rw [hi, hn]
  simp only [h1.1, h1.2]
  have hne : (showNat a).isEmpty = false := by rw [e]; rfl
  have hnk : (showNat k).isEmpty = false := by
    obtain ⟨d2, tl2, e2, _⟩ := showNat_cons k; rw [e2]; rfl
  cases eneg with
  | true => simp [hne, expTail, h3.1, h3.2, hnk, natOfDigits_showNat, expValueI]
  | false => simp [hne, expTail, h3.1, h3.2, hnk, natOfDigits_showNat, expValueI]

theorem pyFloat_showExpI (neg : Bool) (a : Nat) (eneg : Bool) (k : Nat) :
    pyFloat (showExpI neg a eneg k) = some (expValueI neg a eneg k) := by
  have hch := showExpI_chars neg a eneg k
  unfold pyFloat
  rw [showExpI_strip neg a eneg k,
    dropUnderscores_none_free _ 'x' (by decide) (fun c hc => (char_plain_exp (hch c hc)).1)]
  simp only []
  rw [floatPrefix_showExpI neg a eneg k]

theorem numTok_showExpI (neg : Bool) (a : Nat) (eneg : Bool) (k : Nat) :
    ∃ v, numTok (showExpI neg a eneg k) = some (v, expTail eneg k) := by
  unfold numTok
  rw [splitSign_showExpI]
  simp only []
  have := digits1_digits (showNat_digits a) (showNat_ne_nil a) (rest := expTail eneg k) (expTail_head eneg k)
  rw [this]
  exact ⟨decOf neg (showNat a) [], by simp [expTail]⟩

theorem point_showExpI (neg : Bool) (a : Nat) (eneg : Bool) (k : Nat) :
    (∀ opt s2, point2 opt sX s2 (showExpI neg a eneg k) = none) ∧
    (∀ opt s2, point2 opt sN s2 (showExpI neg a eneg k) = none) ∧
    (∀ opt s2, point2 opt sF s2 (showExpI neg a eneg k) = none) ∧
    (∀ s2 s3, point3 sX s2 s3 (showExpI neg a eneg k) = none) ∧
    (∀ s2 s3, point3 sN s2 s3 (showExpI neg a eneg k) = none) ∧
    (∀ s2 s3, point3 sF s2 s3 (showExpI neg a eneg k) = none) := by
  obtain ⟨v, hv⟩ := numTok_showExpI neg a eneg k
  have hx : ¬ 'e' ∈ sX := by decide
  have hn : ¬ 'e' ∈ sN := by decide
  have hf : ¬ 'e' ∈ sF := by decide
  refine ⟨?_, ?_, ?_, ?_, ?_, ?_⟩ <;> intros <;> first
    | (unfold point2; simp [hv, expTail, hx, hn, hf])
    | (unfold point3; simp [hv, expTail, hx, hn, hf])

/-- lat/lon: after the separator (`e` is one of `[NEne,]`) a sign follows, not the minutes -/
theorem latLon_showExpI (seps : Str) (neg : Bool) (a : Nat) (eneg : Bool) (k : Nat) :
    latLon seps (showExpI neg a eneg k) = none := by
  unfold latLon
  cases neg with
  | true =>
    have : digits1 (showExpI true a eneg k) = none := by
      simp [showExpI, digits1, show isDigit '-' = false by decide]
    rw [this]
  | false =>
    have := digits1_digits (showNat_digits a) (showNat_ne_nil a) (rest := expTail eneg k) (expTail_head eneg k)
    have hs : digits1 ((if eneg then '-' else '+') :: showNat k) = none := by
      cases eneg <;> simp [digits1, show isDigit '-' = false by decide, show isDigit '+' = false by decide]
    simp only [showExpI, Bool.false_eq_true, if_false, List.nil_append, this]
    simp only [expTail]
    split
    · rw [hs]
    · rfl

theorem expI_declines (neg : Bool) (a : Nat) (eneg : Bool) (k : Nat) :
    ∀ r ∈ ordStr ++ ordBool ++ ordPath ++ ordCoord ++ ordPoint, r (showExpI neg a eneg k) = none := by
  obtain ⟨c, cs, e, hf⟩ := showExpI_head neg a eneg k
  obtain ⟨p1, p2, p3, p4, p5, p6⟩ := point_showExpI neg a eneg k
  intro r hr
  rw [List.append_assoc (ordStr ++ ordBool ++ ordPath), List.mem_append] at hr
  rcases hr with hr | hr
  · rw [e]; exact head_declines cs hf r hr
  · simp only [ordCoord, ordPoint, List.cons_append, List.nil_append, List.mem_cons,
      List.not_mem_nil, or_false] at hr
    rcases hr with rfl | rfl | rfl | rfl | rfl | rfl | rfl | rfl
    · simp [rLatLon, latLon_showExpI]
    · simp [rLatLon, latLon_showExpI]
    · simp [rPoint2, p1]
    · simp [rPoint2, p2]
    · simp [rPoint2, p3]
    · simp [rPoint3, p4]
    · simp [rPoint3, p5]
    · simp [rPoint3, p6]

theorem firstOf_showExpI {pre : List Recog}
    (h : ∀ r ∈ pre, r ∈ ordStr ++ ordBool ++ ordPath ++ ordCoord ++ ordPoint)
    (neg : Bool) (a : Nat) (eneg : Bool) (k : Nat) :
    firstOf (pre ++ ordNum) (showExpI neg a eneg k) = .ok (.float (expValueI neg a eneg k)) := by
  rw [firstOf_append_none (fun r hr => expI_declines neg a eneg k r (h r hr))]
  simp [ordNum, firstOf_cons, rInt, rFloat, pyInt_showExpI 10 (Or.inl rfl) neg a eneg k,
    pyInt_showExpI 16 (Or.inr rfl) neg a eneg k, pyFloat_showExpI neg a eneg k]

end Ioflo.Literal
