import IofloModel.Lemmas.LiteralExp
/-! Lemmas for C17: points whose coordinates are decimal numerals `[-]digits.digits`. -/
namespace Ioflo.Literal

theorem showDec_append (neg : Bool) (a : Nat) (ds rest : Str) : showDec neg a ds ++ rest = showDec neg a (ds ++ rest) := by
  simp [showDec]

theorem decOf_eq (neg : Bool) (a : Nat) (ds : Str) : decOf neg (showNat a) ds = decValue neg a ds := rfl

/-- the number pattern takes exactly the numeral when a non-digit follows -/
theorem numTok_dec (neg : Bool) (a : Nat) (ds : Str) (hds : ∀ c ∈ ds, isDigit c = true) {rest : Str}
    (hr : ∀ c r, rest = c :: r → isDigit c = false) :
    numTok (showDec neg a ds ++ rest) = some (decValue neg a ds, rest) := by
  rw [showDec_append]
  unfold numTok
  rw [splitSign_showDec]
  simp only []
  have := digits1_digits (showNat_digits a) (showNat_ne_nil a) (rest := '.' :: (ds ++ rest))
    (fun c r e => by cases e; decide)
  rw [this]
  have h2 := takeWhile_digits hds (rest := rest) hr
  simp [h2.1, h2.2, decOf_eq]

theorem numTok_dec_sep (neg : Bool) (a : Nat) (ds : Str) (hds : ∀ c ∈ ds, isDigit c = true) {l : Char} (h : IsSep l)
    (r : Str) : numTok (showDec neg a ds ++ l :: r) = some (decValue neg a ds, l :: r) :=
  numTok_dec neg a ds hds (fun c r' e => by cases e; exact h.1)

theorem showDec_head (neg : Bool) (a : Nat) (ds : Str) : ∃ c cs, showDec neg a ds = c :: cs ∧ HeadFacts c := by
  cases neg with
  | true => exact ⟨'-', _, rfl, headFacts_minus⟩
  | false =>
    obtain ⟨d, tl, e, hd⟩ := showNat_cons a
    exact ⟨d, tl ++ '.' :: ds, by simp [showDec, e], headFacts_digit hd⟩

theorem dollar_dec (neg : Bool) (a : Nat) (ds r : Str) : dollar (showDec neg a ds ++ r) = false := by
  obtain ⟨c, cs, e, hf⟩ := showDec_head neg a ds
  simp [dollar, e, hf.nl]

theorem point2_decline_sep_dec (opt : Bool) (s1 s2 : Str) (n : Bool) (a : Nat) (d : Str) (hd : ∀ c ∈ d, isDigit c = true)
    {l1 : Char} (h1 : IsSep l1) (r : Str) (hn : s1.contains l1 = false) :
    point2 opt s1 s2 (showDec n a d ++ l1 :: r) = none := by
  have hn' : l1 ∉ s1 := by simpa using hn
  unfold point2
  rw [numTok_dec_sep n a d hd h1 r]
  simp [hn']

theorem point3_decline_sep_dec (s1 s2 s3 : Str) (n : Bool) (a : Nat) (d : Str) (hd : ∀ c ∈ d, isDigit c = true)
    {l1 : Char} (h1 : IsSep l1) (r : Str) (hn : s1.contains l1 = false) :
    point3 s1 s2 s3 (showDec n a d ++ l1 :: r) = none := by
  have hn' : l1 ∉ s1 := by simpa using hn
  unfold point3
  rw [numTok_dec_sep n a d hd h1 r]
  simp [hn']

theorem point2_decline_long_dec (opt : Bool) (s1 s2 : Str) (n1 n2 n3 : Bool) (a1 a2 a3 : Nat) (d1 d2 d3 : Str)
    (h1d : ∀ c ∈ d1, isDigit c = true) (h2d : ∀ c ∈ d2, isDigit c = true)
    {l1 l2 : Char} (h1 : IsSep l1) (h2 : IsSep l2) (r : Str) :
    point2 opt s1 s2 (showDec n1 a1 d1 ++ l1 :: (showDec n2 a2 d2 ++ l2 :: (showDec n3 a3 d3 ++ r))) = none := by
  unfold point2
  rw [numTok_dec_sep n1 a1 d1 h1d h1]
  simp only []
  split
  · rw [numTok_dec_sep n2 a2 d2 h2d h2]
    simp [dollar_dec]
  · rfl

theorem point2_accept_dec (opt : Bool) (s1 s2 : Str) (n1 n2 : Bool) (a1 a2 : Nat) (d1 d2 : Str)
    (h1d : ∀ c ∈ d1, isDigit c = true) (h2d : ∀ c ∈ d2, isDigit c = true)
    {l1 l2 : Char} (h1 : IsSep l1) (h2 : IsSep l2) (c1 : s1.contains l1 = true) (c2 : s2.contains l2 = true) :
    point2 opt s1 s2 (showDec n1 a1 d1 ++ l1 :: (showDec n2 a2 d2 ++ [l2]))
      = some (some [decValue n1 a1 d1, decValue n2 a2 d2]) := by
  unfold point2
  rw [numTok_dec_sep n1 a1 d1 h1d h1]
  simp only [c1, if_true]
  rw [numTok_dec_sep n2 a2 d2 h2d h2]
  have c2' : l2 ∈ s2 := by simpa using c2
  simp [c2', dollar]

theorem point3_accept_dec (s1 s2 s3 : Str) (n1 n2 n3 : Bool) (a1 a2 a3 : Nat) (d1 d2 d3 : Str)
    (h1d : ∀ c ∈ d1, isDigit c = true) (h2d : ∀ c ∈ d2, isDigit c = true) (h3d : ∀ c ∈ d3, isDigit c = true)
    {l1 l2 l3 : Char} (h1 : IsSep l1) (h2 : IsSep l2) (h3 : IsSep l3)
    (c1 : s1.contains l1 = true) (c2 : s2.contains l2 = true) (c3 : s3.contains l3 = true) :
    point3 s1 s2 s3 (showDec n1 a1 d1 ++ l1 :: (showDec n2 a2 d2 ++ l2 :: (showDec n3 a3 d3 ++ [l3])))
      = some [decValue n1 a1 d1, decValue n2 a2 d2, decValue n3 a3 d3] := by
  unfold point3
  rw [numTok_dec_sep n1 a1 d1 h1d h1]
  simp only [c1, if_true]
  rw [numTok_dec_sep n2 a2 d2 h2d h2]
  simp only [c2, if_true]
  rw [numTok_dec_sep n3 a3 d3 h3d h3]
  have c3' : l3 ∈ s3 := by simpa using c3
  simp [c3', dollar]

theorem pre_declines_dec_head (n : Bool) (a : Nat) (d r : Str) :
    ∀ x ∈ ordStr ++ ordBool ++ ordPath, x (showDec n a d ++ r) = none := by
  obtain ⟨c, cs, e, hf⟩ := showDec_head n a d
  rw [e, List.cons_append]
  exact head_declines _ hf

theorem coord_declines_dec (n : Bool) (a : Nat) (d r : Str) : ∀ x ∈ ordCoord, x (showDec n a d ++ r) = none := by
  intro x hx
  rw [showDec_append]
  simp only [ordCoord, List.mem_cons, List.not_mem_nil, or_false] at hx
  rcases hx with rfl | rfl
  · simp [rLatLon, latLon_showDec sepNE (by decide)]
  · simp [rLatLon, latLon_showDec sepSW (by decide)]

end Ioflo.Literal
