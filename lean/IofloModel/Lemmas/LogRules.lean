import IofloModel.Model.LogRules
/-!
Helper lemmas for C22 (log rules): dictionaries, the single-log refinement, the protocol invariant.
-/
namespace Ioflo.LogRules

/-! ## dictionaries -/

theorem dget_dset_same {α : Type} (d : Dict α) (k : String) (v : α) : dget (dset d k v) k = some v := by
  induction d with
  | nil => simp [dset, dget]
  | cons p rest ih =>
    obtain ⟨k0, x⟩ := p
    by_cases h : k0 = k
    · simp [dset, dget, h]
    · simp [dset, dget, h, ih]

theorem dget_dset_other {α : Type} (d : Dict α) (k k' : String) (v : α) (h : k' ≠ k) :
    dget (dset d k v) k' = dget d k' := by
  induction d with
  | nil => simp [dset, dget, h.symm]
  | cons p rest ih =>
    obtain ⟨k0, x⟩ := p
    by_cases h0 : k0 = k
    · subst h0; simp [dset, dget, h.symm]
    · by_cases h1 : k0 = k'
      · subst h1; simp [dset, dget, h0]
      · simp [dset, dget, h0, h1, ih]

theorem dget_dset {α : Type} (d : Dict α) (k k' : String) (v : α) :
    dget (dset d k v) k' = if k' = k then some v else dget d k' := by
  by_cases h : k' = k
  · subst h; simp [dget_dset_same]
  · simp [h, dget_dset_other _ _ _ _ h]

theorem dkeys_dset_of_mem {α : Type} (d : Dict α) (k : String) (v : α) (h : k ∈ dkeys d) :
    dkeys (dset d k v) = dkeys d := by
  induction d with
  | nil => simp [dkeys] at h
  | cons p rest ih =>
    obtain ⟨k0, x⟩ := p
    by_cases h0 : k0 = k
    · simp [dset, dkeys, h0]
    · have : k ∈ dkeys rest := by
        simp [dkeys] at h ⊢
        rcases h with h | h
        · exact absurd h.symm h0
        · exact h
      have ih' := ih this
      simp [dset, dkeys, h0] at ih' ⊢
      exact ih'

theorem dget_isSome_iff_mem {α : Type} (d : Dict α) (k : String) : (dget d k).isSome ↔ k ∈ dkeys d := by
  induction d with
  | nil => simp [dget, dkeys]
  | cons p rest ih =>
    obtain ⟨k0, x⟩ := p
    by_cases h0 : k0 = k
    · simp [dget, dkeys, h0]
    · simp [dget, dkeys, h0] at ih ⊢
      rw [ih]
      constructor
      · intro h; exact Or.inr h
      · intro h; rcases h with h | h
        · exact absurd h.symm h0
        · exact h

theorem dget_ne_none_iff_mem {α : Type} (d : Dict α) (k : String) : dget d k ≠ none ↔ k ∈ dkeys d := by
  rw [← dget_isSome_iff_mem]; cases dget d k <;> simp

/-! ## single-log refinement -/

theorem actAll_single (w : World) (l : Log) :
    actAll w [l] = ((l.act w).1, [(l.act w).2.1], (l.act w).2.2) := by
  unfold actAll
  rcases h : l.act w with ⟨w1, l1, e⟩
  cases e <;> simp [actAll]

theorem prepareAll_single (w : World) (l : Log) :
    prepareAll w [l] = ([(l.prepare w).1], (l.prepare w).2) := by
  unfold prepareAll
  rcases h : l.prepare w with ⟨l1, e⟩
  cases e <;> simp [prepareAll]

theorem toSys_send (s : S1) (c : Ctl) :
    s.toSys.send c = ((s.send c).1.toSys, (s.send c).2) := by
  unfold Sys.send S1.send
  by_cases ha : s.alive = true
  · cases c with
    | ready => simp [S1.toSys, ha]
    | abort => simp [S1.toSys, ha]
    | run =>
      simp only [S1.toSys, ha, Bool.not_true, Bool.false_eq_true, if_false, Sys.logAll, S1.logRun,
        actAll_single]
      rcases h : s.log.act s.world with ⟨w1, l1, e⟩
      cases e <;> simp [Sys.die, S1.die]
    | start =>
      simp only [S1.toSys, ha, Bool.not_true, Bool.false_eq_true, if_false, Sys.logAll, S1.logRun,
        prepareAll_single, List.map]
      rcases h : s.log.reopen.prepare s.world with ⟨l1, e⟩
      cases e with
      | some e => simp [Sys.die, S1.die]
      | none =>
        simp only [actAll_single]
        rcases h2 : l1.act s.world with ⟨w2, l2, e2⟩
        cases e2 <;> simp [Sys.die, S1.die]
    | stop =>
      by_cases hs : s.status = .stopped
      · simp [S1.toSys, ha, hs]
      · simp only [S1.toSys, ha, Bool.not_true, Bool.false_eq_true, if_false, Sys.logAll, S1.logRun,
          actAll_single, hs]
        rcases h : s.log.act s.world with ⟨w1, l1, e⟩
        cases e <;> simp [Sys.die, S1.die]
  · have ha' : s.alive = false := by cases h : s.alive <;> simp_all
    simp [S1.toSys, ha']

theorem toSys_step (s : S1) (op : Op) :
    s.toSys.step op = ((s.step op).1.toSys, (s.step op).2) := by
  cases op with
  | w o => simp [Sys.step, S1.step, S1.toSys]
  | ctl c => simp only [Sys.step, S1.step]; exact toSys_send s c

theorem toSys_exec (s : S1) (h : List Op) : s.toSys.exec h = (s.exec h).toSys := by
  induction h generalizing s with
  | nil => rfl
  | cons op rest ih =>
    simp only [Sys.exec, S1.exec, toSys_step, ih]

/-! ## writing -/

theorem write_open (l : Log) (ls : List Line) (h : l.isOpen = true) :
    l.write ls = ({ l with disk := some (fileLines l.disk ++ ls) }, none) := by
  unfold Log.write
  cases hd : l.disk <;> simp [h, fileLines]

theorem write_snd_open (l : Log) (ls : List Line) (h : l.isOpen = true) : (l.write ls).2 = none := by
  rw [write_open l ls h]

theorem write_closed (l : Log) (ls : List Line) (h : l.isOpen = false) :
    l.write ls = (l, some .attributeError) := by
  simp [Log.write, h]

theorem recCells_ok (w : World) (formats : Dict (List String)) (loggees : Dict Nat)
    (h : ∀ tag ∈ dkeys loggees, dget formats tag ≠ none) : (recCells w formats loggees).2 = none := by
  induction loggees with
  | nil => rfl
  | cons p rest ih =>
    obtain ⟨tag, sid⟩ := p
    have h1 : dget formats tag ≠ none := h tag (by simp [dkeys])
    have h2 : ∀ t ∈ dkeys rest, dget formats t ≠ none := fun t ht => h t (by simp [dkeys] at ht ⊢; exact Or.inr ht)
    unfold recCells
    cases hf : dget formats tag with
    | none => exact absurd hf h1
    | some fs => simp [ih h2]

/-- the record `Log.log` writes -/
def curRec (w : World) (l : Log) : Rec := ⟨w.stamp, (recCells w l.formats l.loggees).1⟩

theorem log_ok (w : World) (l : Log) (ho : l.isOpen = true) (ht : l.timeFmt = true)
    (hf : ∀ tag ∈ dkeys l.loggees, dget l.formats tag ≠ none) :
    l.log w = ({ l with stamp := w.stamp, disk := some (fileLines l.disk ++ [.record (curRec w l)]) }, none) := by
  unfold Log.log
  have := recCells_ok w l.formats l.loggees hf
  rcases hr : recCells w l.formats l.loggees with ⟨cells, e⟩
  rw [hr] at this
  simp only at this
  subst this
  simp [ht, write_open, ho, curRec, hr]

/-! ## prepare -/

/-- the field lists after `prepare` -/
def prepFields (w : World) (l : Log) : Dict (List String) :=
  if l.rule = .streak then
    match l.loggees with
    | [] => l.fields
    | (tag, sid) :: _ =>
      match dget l.fields tag with
      | some (f :: _) => dset l.fields tag [f]
      | _ => dset l.fields tag ((dkeys (w.shares sid).data).take 1)
  else defaultFields w l.loggees l.fields

/-- the last values after `prepare` -/
def prepLasts (w : World) (l : Log) : Dict (Dict Val) :=
  if l.rule = .change ∧ (l.stamp = none ∨ l.lasts.isEmpty = true) then
    (buildLasts w l.loggees (prepFields w l)).1
  else l.lasts

theorem defaultFields_keys (w : World) (loggees : Dict Nat) (fields : Dict (List String))
    (h : ∀ t ∈ dkeys loggees, t ∈ dkeys fields) : dkeys (defaultFields w loggees fields) = dkeys fields := by
  induction loggees generalizing fields with
  | nil => rfl
  | cons p rest ih =>
    obtain ⟨tag, sid⟩ := p
    have htag : tag ∈ dkeys fields := h tag (by simp [dkeys])
    unfold defaultFields
    have key : ∀ fields', dkeys fields' = dkeys fields →
        dkeys (defaultFields w rest fields') = dkeys fields := by
      intro fields' hk
      rw [ih fields' (by intro t ht; rw [hk]; exact h t (by simp [dkeys] at ht ⊢; exact Or.inr ht))]
      exact hk
    split
    · exact key _ rfl
    · exact key _ (dkeys_dset_of_mem _ _ _ htag)

theorem prepFields_keys (w : World) (l : Log) (h : dkeys l.fields = dkeys l.loggees) :
    dkeys (prepFields w l) = dkeys l.fields := by
  unfold prepFields
  split
  · split
    · rfl
    · rename_i tag sid rest hl
      have htag : tag ∈ dkeys l.fields := by rw [h, hl]; simp [dkeys]
      split <;> exact dkeys_dset_of_mem _ _ _ htag
  · exact defaultFields_keys w _ _ (by intro t ht; rw [h]; exact ht)

theorem buildLasts_ok (w : World) (loggees : Dict Nat) (fields : Dict (List String))
    (h : ∀ t ∈ dkeys fields, dget loggees t ≠ none) :
    (buildLasts w loggees fields).2 = none ∧
    ∀ t ∈ dkeys fields, dget (buildLasts w loggees fields).1 t ≠ none := by
  induction fields with
  | nil => simp [buildLasts, dkeys]
  | cons p rest ih =>
    obtain ⟨tag, fs⟩ := p
    have h1 := h tag (by simp [dkeys])
    have h2 : ∀ t ∈ dkeys rest, dget loggees t ≠ none :=
      fun t ht => h t (by simp [dkeys] at ht ⊢; exact Or.inr ht)
    obtain ⟨ih1, ih2⟩ := ih h2
    unfold buildLasts
    cases hl : dget loggees tag with
    | none => exact absurd hl h1
    | some sid =>
      rcases hb : buildLasts w loggees rest with ⟨ls, e⟩
      rw [hb] at ih1 ih2
      simp only at ih1 ih2 ⊢
      refine ⟨ih1, ?_⟩
      intro t ht
      rw [dget_dset]
      split
      · simp
      · simp [dkeys] at ht
        rcases ht with ht | ht
        · contradiction
        · exact ih2 t (by simp [dkeys]; exact ht)

theorem cfgOk_keys {l : Log} (h : cfgOk l = true) : dkeys l.fields = dkeys l.loggees := by
  unfold cfgOk at h
  simp only [Bool.and_eq_true, beq_iff_eq] at h
  exact h.1

theorem cfgOk_streak {l : Log} (h : cfgOk l = true) (hr : l.rule = .streak) :
    ∃ tag sid rest, l.loggees = (tag, sid) :: rest := by
  unfold cfgOk at h
  simp only [Bool.and_eq_true, hr] at h
  cases hl : l.loggees with
  | nil => simp [hl] at h
  | cons p rest => exact ⟨p.1, p.2, rest, rfl⟩

theorem cfgOk_deck {l : Log} (h : cfgOk l = true) (hr : l.rule = .deck) :
    ∃ tag sid rest f fs, l.loggees = (tag, sid) :: rest ∧ dget l.fields tag = some (f :: fs) := by
  unfold cfgOk at h
  simp only [Bool.and_eq_true, hr] at h
  cases hl : l.loggees with
  | nil => simp [hl] at h
  | cons p rest =>
    obtain ⟨tag, sid⟩ := p
    simp only [hl] at h
    cases hf : dget l.fields tag with
    | none => simp [hf] at h
    | some fs =>
      cases fs with
      | nil => simp [hf] at h
      | cons f fs => exact ⟨tag, sid, rest, f, fs, rfl, hf⟩

theorem prepare_eq (w : World) (l : Log) (hc : cfgOk l = true) (ho : l.isOpen = true) :
    l.prepare w =
      ({ l with fields := prepFields w l, formats := prepFields w l, timeFmt := true,
                lasts := prepLasts w l, header := some (headerCols (prepFields w l)),
                disk := if l.stamp = none ∧ l.first = true then
                          some (fileLines l.disk ++ [.header l.rule l.base (headerCols (prepFields w l))])
                        else l.disk }, none) := by
  have hk := cfgOk_keys hc
  have hpk := prepFields_keys w l hk
  have hbl := buildLasts_ok w l.loggees (prepFields w l) (by
    intro t ht; rw [hpk, hk] at ht; exact (dget_ne_none_iff_mem _ _).2 ht)
  have hfields : ∀ (X : Dict (List String) × Option Err),
      (if l.rule = .streak then
        match l.loggees with
        | [] => (l.fields, some Err.indexError)
        | (tag, sid) :: _ =>
          match dget l.fields tag with
          | some (f :: _) => (dset l.fields tag [f], none)
          | _ => (dset l.fields tag ((dkeys (w.shares sid).data).take 1), none)
      else (defaultFields w l.loggees l.fields, none)) = X → X = (prepFields w l, none) := by
    intro X hX
    rw [← hX]
    unfold prepFields
    split
    · rename_i hr
      obtain ⟨tag, sid, rest, hl⟩ := cfgOk_streak hc hr
      simp only [hl]
      split <;> rfl
    · rfl
  unfold Log.prepare
  simp only []
  split
  · -- deck check raised
    rename_i e he
    exfalso
    split at he
    · rename_i hr
      obtain ⟨tag, sid, rest, f, fs, hl, hf⟩ := cfgOk_deck hc hr
      simp [hl, hf] at he
    · simp at he
  · split
    · -- field list raised
      rename_i x e he
      have := hfields _ he
      simp at this
    · rename_i fields he
      have hf := hfields _ he
      simp only [Prod.mk.injEq, and_true] at hf
      subst hf
      split
      · -- lasts raised
        rename_i x e he2
        exfalso
        split at he2
        · rw [Prod.ext_iff] at he2
          simp only at he2
          rw [hbl.1] at he2
          simp at he2
        · simp at he2
      · rename_i lasts he2
        have hl : lasts = prepLasts w l := by
          unfold prepLasts
          split at he2
          · rename_i hch
            rw [Prod.ext_iff] at he2
            simp only at he2
            simp only [hch, and_self, if_true]
            exact he2.1.symm
          · rename_i hch
            simp only [Prod.mk.injEq, and_true] at he2
            simp only [hch, if_false]
            exact he2.symm
        subst hl
        by_cases hh : l.stamp = none ∧ l.first = true
        · simp [hh, write_open, ho]
        · simp [hh]

/-! ## what an action can change -/

/-- `l'` is `l` up to stamp, last values and file contents -/
def SameCfg (l l' : Log) : Prop := ∃ st ls dk, l' = { l with stamp := st, lasts := ls, disk := dk }

theorem SameCfg.refl (l : Log) : SameCfg l l := ⟨l.stamp, l.lasts, l.disk, rfl⟩

theorem SameCfg.trans {a b c : Log} (h1 : SameCfg a b) (h2 : SameCfg b c) : SameCfg a c := by
  obtain ⟨s1, l1, d1, rfl⟩ := h1
  obtain ⟨s2, l2, d2, rfl⟩ := h2
  exact ⟨s2, l2, d2, rfl⟩

theorem write_same (l : Log) (ls : List Line) : SameCfg l (l.write ls).1 := by
  unfold Log.write
  split
  · split <;> exact ⟨_, _, _, rfl⟩
  · exact SameCfg.refl l

theorem log_same (w : World) (l : Log) : SameCfg l (l.log w).1 := by
  unfold Log.log
  simp only []
  split
  · exact ⟨_, _, _, rfl⟩
  · split
    · exact ⟨_, _, _, rfl⟩
    · exact SameCfg.trans ⟨w.stamp, l.lasts, l.disk, rfl⟩ (write_same _ _)

theorem logStreak_same (w : World) (l : Log) : SameCfg l (l.logStreak w).2.1 := by
  have h0 : SameCfg l { l with stamp := w.stamp } := ⟨w.stamp, l.lasts, l.disk, rfl⟩
  unfold Log.logStreak
  simp only []
  repeat' split
  all_goals first
    | exact h0
    | exact SameCfg.trans h0 (write_same _ _)

theorem logDeck_same (w : World) (l : Log) : SameCfg l (l.logDeck w).2.1 := by
  have h0 : SameCfg l { l with stamp := w.stamp } := ⟨w.stamp, l.lasts, l.disk, rfl⟩
  unfold Log.logDeck
  simp only []
  repeat' split
  all_goals first
    | exact h0
    | exact SameCfg.trans h0 (write_same _ _)

theorem act_same (w : World) (l : Log) : SameCfg l (l.act w).2.1 := by
  unfold Log.act
  split
  · exact SameCfg.refl l
  · split
    · exact log_same w l
    · exact SameCfg.refl l
  · exact log_same w l
  · split
    · exact log_same w l
    · split
      · exact log_same w l
      · exact SameCfg.refl l
  · split
    · exact log_same w l
    · split
      · exact ⟨_, _, _, rfl⟩
      · split
        · exact SameCfg.trans ⟨l.stamp, _, l.disk, rfl⟩ (log_same w _)
        · exact ⟨_, _, _, rfl⟩
  · exact logStreak_same w l
  · exact logDeck_same w l

/-! ## no exception while the files are open and prepared -/

structure Prepared (l : Log) : Prop where
  time : l.timeFmt = true
  fmts : l.formats = l.fields
  lasts : l.rule = .change → ∀ tag ∈ dkeys l.fields, dget l.lasts tag ≠ none

theorem changeTags_noerr (w : World) (loggees : Dict Nat) (fields : Dict (List String))
    (lasts : Dict (Dict Val))
    (h : ∀ t ∈ dkeys fields, dget lasts t ≠ none ∧ dget loggees t ≠ none) :
    (changeTags w loggees lasts fields).2.2 = none ∧
    ∀ t, dget lasts t ≠ none → dget (changeTags w loggees lasts fields).2.1 t ≠ none := by
  induction fields generalizing lasts with
  | nil => simp [changeTags]
  | cons p rest ih =>
    obtain ⟨tag, fs⟩ := p
    obtain ⟨h1, h2⟩ := h tag (by simp [dkeys])
    unfold changeTags
    cases hl : dget lasts tag with
    | none => exact absurd hl h1
    | some last =>
      cases hg : dget loggees tag with
      | none => exact absurd hg h2
      | some sid =>
        simp only []
        have hkeep : ∀ t, dget lasts t ≠ none →
            dget (dset lasts tag (changeFields (w.shares sid).data last fs).2) t ≠ none := by
          intro t ht; rw [dget_dset]; split <;> simp [ht]
        have := ih (dset lasts tag (changeFields (w.shares sid).data last fs).2) (by
          intro t ht
          have := h t (by simp [dkeys] at ht ⊢; exact Or.inr ht)
          exact ⟨hkeep t this.1, this.2⟩)
        refine ⟨this.1, ?_⟩
        intro t ht
        exact this.2 t (hkeep t ht)

theorem fmt_of_prepared {l : Log} (hc : cfgOk l = true) (hp : Prepared l) :
    ∀ tag ∈ dkeys l.loggees, dget l.formats tag ≠ none := by
  intro tag ht
  rw [hp.fmts, dget_ne_none_iff_mem, cfgOk_keys hc]
  exact ht

/-- the log after `Log.log` succeeded -/
def Log.logged (w : World) (l : Log) : Log :=
  { l with stamp := w.stamp, disk := some (fileLines l.disk ++ [.record (curRec w l)]) }

theorem log_eq (w : World) (l : Log) (hc : cfgOk l = true) (ho : l.isOpen = true) (hp : Prepared l) :
    l.log w = (l.logged w, none) :=
  log_ok w l ho hp.time (fmt_of_prepared hc hp)

theorem act_never (w : World) (l : Log) (hr : l.rule = .never) : l.act w = (w, l, none) := by
  simp [Log.act, hr]

theorem act_once (w : World) (l : Log) (hr : l.rule = .once) (hc : cfgOk l = true) (ho : l.isOpen = true)
    (hp : Prepared l) :
    l.act w = if l.stamp = none then (w, l.logged w, none) else (w, l, none) := by
  simp only [Log.act, hr, log_eq w l hc ho hp]

theorem act_always (w : World) (l : Log) (hr : l.rule = .always) (hc : cfgOk l = true) (ho : l.isOpen = true)
    (hp : Prepared l) : l.act w = (w, l.logged w, none) := by
  simp only [Log.act, hr, log_eq w l hc ho hp]

theorem act_update (w : World) (l : Log) (hr : l.rule = .update) (hc : cfgOk l = true) (ho : l.isOpen = true)
    (hp : Prepared l) :
    l.act w = match l.stamp with
      | none => (w, l.logged w, none)
      | some ls => if anyNewer w ls l.loggees then (w, l.logged w, none) else (w, l, none) := by
  simp only [Log.act, hr, log_eq w l hc ho hp]
  cases l.stamp <;> rfl

theorem cfgOk_congr {l l' : Log} (h : SameCfg l l') : cfgOk l' = cfgOk l := by
  obtain ⟨st, ls, dk, rfl⟩ := h
  rfl

theorem act_change (w : World) (l : Log) (hr : l.rule = .change) (hc : cfgOk l = true) (ho : l.isOpen = true)
    (hp : Prepared l) :
    l.act w =
      if l.stamp = none then (w, l.logged w, none)
      else
        let r := changeTags w l.loggees l.lasts l.fields
        if r.1 then (w, ({ l with lasts := r.2.1 } : Log).logged w, none)
        else (w, { l with lasts := r.2.1 }, none) := by
  have hne := changeTags_noerr w l.loggees l.fields l.lasts (by
    intro t ht
    refine ⟨hp.lasts hr t ht, ?_⟩
    rw [dget_ne_none_iff_mem, ← cfgOk_keys hc]; exact ht)
  unfold Log.act
  split <;> rename_i h0 <;> first | (exfalso; rw [hr] at h0; cases h0; done) | skip
  simp only [log_eq w l hc ho hp]
  split
  · rfl
  · rcases hct : changeTags w l.loggees l.lasts l.fields with ⟨c, lasts', e⟩
    rw [hct] at hne
    simp only at hne
    obtain ⟨he, hk⟩ := hne
    subst he
    simp only []
    have hc' : cfgOk ({ l with lasts := lasts' } : Log) = true := hc
    have hp' : Prepared ({ l with lasts := lasts' } : Log) :=
      ⟨hp.time, hp.fmts, fun _ t ht => hk t (hp.lasts hr t ht)⟩
    cases c
    · simp
    · simp [log_eq w _ hc' ho hp']

theorem logStreak_noerr (w : World) (l : Log) (hc : cfgOk l = true) (ho : l.isOpen = true)
    (hp : Prepared l) : (l.logStreak w).2.2 = none := by
  have hk := cfgOk_keys hc
  have ho' : ({ l with stamp := w.stamp } : Log).isOpen = true := ho
  unfold Log.logStreak
  simp only []
  split
  · rfl
  · rename_i tag sid rest hl
    split
    · rfl
    · rename_i k0 v0 drest hd
      have htag : tag ∈ dkeys l.fields := by rw [hk, hl]; simp [dkeys]
      split
      · rename_i hf
        exact absurd hf ((dget_ne_none_iff_mem _ _).2 htag)
      · rename_i fs hf
        split
        · -- field selection raised
          rename_i x e he
          exfalso
          split at he
          · simp at he
          · rename_i f frest
            rw [hp.fmts, hf] at he
            simp at he
        · rename_i field he
          split
          · rfl
          · simp only [hp.time, Bool.not_true, Bool.false_and, Bool.false_eq_true, if_false]
            exact write_snd_open _ _ ho
          · simp only [hp.time, Bool.not_true, Bool.false_eq_true, if_false]
            exact write_snd_open _ _ ho

theorem logDeck_noerr (w : World) (l : Log) (hc : cfgOk l = true) (ho : l.isOpen = true)
    (hp : Prepared l) : (l.logDeck w).2.2 = none := by
  have hk := cfgOk_keys hc
  have ho' : ({ l with stamp := w.stamp } : Log).isOpen = true := ho
  unfold Log.logDeck
  simp only []
  split
  · rfl
  · rename_i tag sid rest hl
    have htag : tag ∈ dkeys l.fields := by rw [hk, hl]; simp [dkeys]
    split
    · rename_i hf
      exact absurd hf ((dget_ne_none_iff_mem _ _).2 htag)
    · rename_i fs hf
      split
      · rfl
      · rename_i d hd
        have hfm : dget l.formats tag = some fs := by rw [hp.fmts]; exact hf
        simp only [hfm]
        split
        · exact write_snd_open _ _ ho
        · rename_i hfalse
          exfalso
          apply hfalse
          rw [List.all_eq_true]
          intro e _
          cases e with
          | other a => rfl
          | map m =>
            simp only [hp.time, Bool.true_and, List.all_eq_true]
            intro f hfmem
            simp [hfmem]

theorem logged_same (w : World) (l : Log) : SameCfg l (l.logged w) := ⟨_, _, _, rfl⟩

theorem prepared_of_same {l l' : Log} (h : SameCfg l l') (hp : Prepared l)
    (hl : l.rule = .change → ∀ tag ∈ dkeys l.fields, dget l'.lasts tag ≠ none) : Prepared l' := by
  obtain ⟨st, ls, dk, rfl⟩ := h
  exact ⟨hp.time, hp.fmts, hl⟩

theorem act_ok (w : World) (l : Log) (hc : cfgOk l = true) (ho : l.isOpen = true) (hp : Prepared l) :
    (l.act w).2.2 = none ∧ Prepared (l.act w).2.1 := by
  have hs := act_same w l
  cases hr : l.rule with
  | never =>
    rw [act_never w l hr]; exact ⟨rfl, hp⟩
  | once =>
    rw [act_once w l hr hc ho hp]
    split
    · exact ⟨rfl, prepared_of_same (logged_same w l) hp (by simp [hr])⟩
    · exact ⟨rfl, hp⟩
  | always =>
    rw [act_always w l hr hc ho hp]
    exact ⟨rfl, prepared_of_same (logged_same w l) hp (by simp [hr])⟩
  | update =>
    rw [act_update w l hr hc ho hp]
    split
    · exact ⟨rfl, prepared_of_same (logged_same w l) hp (by simp [hr])⟩
    · split
      · exact ⟨rfl, prepared_of_same (logged_same w l) hp (by simp [hr])⟩
      · exact ⟨rfl, hp⟩
  | change =>
    have hne := changeTags_noerr w l.loggees l.fields l.lasts (by
      intro t ht
      refine ⟨hp.lasts hr t ht, ?_⟩
      rw [dget_ne_none_iff_mem, ← cfgOk_keys hc]; exact ht)
    rw [act_change w l hr hc ho hp]
    split
    · exact ⟨rfl, prepared_of_same (logged_same w l) hp (fun _ => hp.lasts hr)⟩
    · simp only []
      split
      · refine ⟨rfl, prepared_of_same (l := l)
          (SameCfg.trans ⟨l.stamp, _, l.disk, rfl⟩ (logged_same w _)) hp ?_⟩
        intro _ t ht
        exact hne.2 t (hp.lasts hr t ht)
      · refine ⟨rfl, prepared_of_same (l := l) ⟨l.stamp, _, l.disk, rfl⟩ hp ?_⟩
        intro _ t ht
        exact hne.2 t (hp.lasts hr t ht)
  | streak =>
    have : l.act w = l.logStreak w := by simp [Log.act, hr]
    rw [this]
    exact ⟨logStreak_noerr w l hc ho hp, prepared_of_same (logStreak_same w l) hp (by simp [hr])⟩
  | deck =>
    have : l.act w = l.logDeck w := by simp [Log.act, hr]
    rw [this]
    exact ⟨logDeck_noerr w l hc ho hp, prepared_of_same (logDeck_same w l) hp (by simp [hr])⟩

/-! ## the protocol invariant -/

structure Inv (s : S1) : Prop where
  alive : s.alive = true
  cfg : cfgOk s.log = true
  opened : openSt s.status = true → s.log.isOpen = true
  prep : (openSt s.status = true ∨ s.log.stamp ≠ none) → Prepared s.log

theorem isOpen_of_same {l l' : Log} (h : SameCfg l l') : l'.isOpen = l.isOpen := by
  obtain ⟨st, ls, dk, rfl⟩ := h; rfl

theorem reopen_open (l : Log) : l.reopen.isOpen = true := by
  unfold Log.reopen; split <;> rfl

theorem reopen_cfg (l : Log) : cfgOk l.reopen = cfgOk l := by
  unfold Log.reopen; split <;> rfl

theorem close_cfg (l : Log) : cfgOk l.close = cfgOk l := rfl

theorem prepare_cfg (w : World) (l : Log) (hc : cfgOk l = true) (ho : l.isOpen = true) :
    cfgOk (l.prepare w).1 = true := by
  rw [prepare_eq w l hc ho]
  have hk := cfgOk_keys hc
  have hpk := prepFields_keys w l hk
  unfold cfgOk at hc ⊢
  simp only [Bool.and_eq_true, beq_iff_eq] at hc ⊢
  refine ⟨by rw [hpk]; exact hc.1, ?_⟩
  have h2 := hc.2
  cases hr : l.rule with
  | deck =>
    simp only [hr] at h2 ⊢
    cases hl : l.loggees with
    | nil => simp [hl] at h2
    | cons p rest =>
      obtain ⟨tag, sid⟩ := p
      simp only [hl] at h2 ⊢
      -- the first loggee's non-empty field list is kept by `defaultFields`
      have hpf : prepFields w l = defaultFields w l.loggees l.fields := by simp [prepFields, hr]
      rw [hpf]
      cases hf : dget l.fields tag with
      | none => simp [hf] at h2
      | some fs =>
        cases fs with
        | nil => simp [hf] at h2
        | cons f fs =>
          have : ∀ (lg : Dict Nat) (fields : Dict (List String)), dget fields tag = some (f :: fs) →
              dget (defaultFields w lg fields) tag = some (f :: fs) := by
            intro lg
            induction lg with
            | nil => intro fields h; exact h
            | cons q lrest ih =>
              obtain ⟨t2, s2⟩ := q
              intro fields h
              unfold defaultFields
              split
              · exact ih _ h
              · apply ih
                rw [dget_dset]
                split
                · rename_i hnone heq
                  subst heq
                  exact absurd h (hnone f fs)
                · exact h
          rw [this _ _ hf]
  | streak => simp only [hr] at h2 ⊢; exact h2
  | never => rfl
  | once => rfl
  | always => rfl
  | update => rfl
  | change => rfl

theorem prepare_prepared (w : World) (l : Log) (hc : cfgOk l = true) (ho : l.isOpen = true)
    (hp : l.stamp ≠ none → Prepared l) : Prepared (l.prepare w).1 := by
  rw [prepare_eq w l hc ho]
  have hk := cfgOk_keys hc
  have hpk := prepFields_keys w l hk
  refine ⟨rfl, rfl, ?_⟩
  intro hr t ht
  simp only at hr ht ⊢
  unfold prepLasts
  split
  · exact (buildLasts_ok w l.loggees (prepFields w l) (by
      intro t ht; rw [hpk, hk] at ht; exact (dget_ne_none_iff_mem _ _).2 ht)).2 t ht
  · rename_i hno
    have hst : l.stamp ≠ none := by
      intro h; exact hno ⟨hr, Or.inl h⟩
    rw [hpk] at ht
    exact (hp hst).lasts hr t ht

theorem reopen_same (l : Log) : l.reopen.stamp = l.stamp ∧ l.reopen.lasts = l.lasts ∧
    l.reopen.fields = l.fields ∧ l.reopen.formats = l.formats ∧ l.reopen.timeFmt = l.timeFmt ∧
    l.reopen.rule = l.rule ∧ l.reopen.loggees = l.loggees := by
  unfold Log.reopen; split <;> simp

theorem reopen_prepared (l : Log) (hp : Prepared l) : Prepared l.reopen := by
  obtain ⟨h1, h2, h3, h4, h5, h6, h7⟩ := reopen_same l
  exact ⟨by rw [h5]; exact hp.time, by rw [h4, h3]; exact hp.fmts,
    by rw [h6, h3, h2]; exact hp.lasts⟩

/-- one protocol-respecting step keeps the invariant and follows the status automaton -/
theorem Inv_step (s : S1) (op : Op) (hi : Inv s)
    (hok : ∀ c, op = .ctl c → ctlOk s.status c = true) :
    Inv (s.step op).1 ∧ (s.step op).2 = .ok ∧
    (s.step op).1.status = (match op with | .w _ => s.status | .ctl c => nextSt s.status c) := by
  cases op with
  | w o => exact ⟨⟨hi.alive, hi.cfg, hi.opened, hi.prep⟩, rfl, rfl⟩
  | ctl c =>
    have hc := hok c rfl
    have hna : (!s.alive) = false := by simp [hi.alive]
    cases c with
    | ready =>
      simp only [S1.step, S1.send, hna, Bool.false_eq_true, if_false]
      refine ⟨⟨hi.alive, hi.cfg, by simp [openSt], ?_⟩, trivial, rfl⟩
      intro h
      simp [openSt] at h
      exact hi.prep (Or.inr h)
    | abort =>
      simp only [S1.step, S1.send, hna, Bool.false_eq_true, if_false]
      refine ⟨⟨hi.alive, hi.cfg, by simp [openSt], ?_⟩, trivial, rfl⟩
      intro h
      simp [openSt] at h
      have := hi.prep (Or.inr h)
      exact ⟨this.time, this.fmts, this.lasts⟩
    | run =>
      simp only [S1.step, S1.send, hna, Bool.false_eq_true, if_false]
      have ho : openSt s.status = true := hc
      have hop := hi.opened ho
      have hpr := hi.prep (Or.inl ho)
      obtain ⟨h1, h2⟩ := act_ok s.world s.log hi.cfg hop hpr
      simp only [S1.logRun]
      rcases ha : s.log.act s.world with ⟨w1, l1, e⟩
      rw [ha] at h1 h2
      simp only at h1 h2
      subst h1
      have hs := act_same s.world s.log
      rw [ha] at hs
      refine ⟨⟨hi.alive, by rw [cfgOk_congr hs]; exact hi.cfg,
        fun _ => by rw [isOpen_of_same hs]; exact hop, fun _ => h2⟩, rfl, rfl⟩
    | start =>
      simp only [S1.step, S1.send, hna, Bool.false_eq_true, if_false]
      have hro := reopen_open s.log
      have hrc : cfgOk s.log.reopen = true := by rw [reopen_cfg]; exact hi.cfg
      have hpp : s.log.reopen.stamp ≠ none → Prepared s.log.reopen := by
        intro h
        rw [(reopen_same s.log).1] at h
        exact reopen_prepared _ (hi.prep (Or.inr h))
      have hpe := prepare_eq s.world s.log.reopen hrc hro
      have hpc := prepare_cfg s.world s.log.reopen hrc hro
      have hpd := prepare_prepared s.world s.log.reopen hrc hro hpp
      have hl0o : (s.log.reopen.prepare s.world).1.isOpen = true := by rw [hpe]; exact hro
      have hfst : s.log.reopen.prepare s.world = ((s.log.reopen.prepare s.world).1, none) := by
        rw [hpe]
      rw [hfst]
      generalize (s.log.reopen.prepare s.world).1 = l0 at hpc hpd hl0o ⊢
      obtain ⟨h1, h2⟩ := act_ok s.world l0 hpc hl0o hpd
      simp only [S1.logRun]
      rcases ha : l0.act s.world with ⟨w1, l1, e⟩
      rw [ha] at h1 h2
      simp only at h1 h2
      subst h1
      have hs := act_same s.world l0
      rw [ha] at hs
      refine ⟨⟨hi.alive, by rw [cfgOk_congr hs]; exact hpc,
        fun _ => by rw [isOpen_of_same hs]; exact hl0o, fun _ => h2⟩, rfl, rfl⟩
    | stop =>
      simp only [S1.step, S1.send, hna, Bool.false_eq_true, if_false]
      by_cases hst : s.status = .stopped
      · simp only [hst, if_true]
        refine ⟨⟨hi.alive, hi.cfg, ?_, ?_⟩, trivial, by simp [nextSt]⟩
        · intro h; rw [hst] at h; simp [openSt] at h
        · intro h
          rw [hst] at h
          simp [openSt] at h
          exact hi.prep (Or.inr h)
      · have ho : openSt s.status = true := by
          simp only [ctlOk, Bool.or_eq_true, beq_iff_eq] at hc
          rcases hc with h | h
          · exact h
          · exact absurd h hst
        have hop := hi.opened ho
        have hpr := hi.prep (Or.inl ho)
        obtain ⟨h1, h2⟩ := act_ok s.world s.log hi.cfg hop hpr
        simp only [hst, if_false, S1.logRun]
        rcases ha : s.log.act s.world with ⟨w1, l1, e⟩
        rw [ha] at h1 h2
        simp only at h1 h2
        subst h1
        have hs := act_same s.world s.log
        rw [ha] at hs
        refine ⟨⟨hi.alive, by rw [close_cfg, cfgOk_congr hs]; exact hi.cfg,
          by simp [openSt], fun _ => ?_⟩, rfl, rfl⟩
        exact ⟨h2.time, h2.fmts, h2.lasts⟩

theorem Inv_exec (s : S1) (h : List Op) (hi : Inv s) (hp : proto s.status h = true) : Inv (s.exec h) := by
  induction h generalizing s with
  | nil => exact hi
  | cons op rest ih =>
    cases op with
    | w o =>
      have := Inv_step s (.w o) hi (by intro c hc; cases hc)
      exact ih _ this.1 (by rw [this.2.2]; exact hp)
    | ctl c =>
      simp only [proto, Bool.and_eq_true] at hp
      have := Inv_step s (.ctl c) hi (by intro c' hc; cases hc; exact hp.1)
      exact ih _ this.1 (by rw [this.2.2]; exact hp.2)

/-! ## what gets appended to the file -/

theorem recsOf_append (a b : List Line) : recsOf (a ++ b) = recsOf a ++ recsOf b := by
  induction a with
  | nil => rfl
  | cons x rest ih => cases x <;> simp [recsOf, ih]

theorem recsOf_records (rs : List Rec) : recsOf (rs.map Line.record) = rs := by
  induction rs with
  | nil => rfl
  | cons r rest ih => simp [recsOf, ih]

/-- `l'` has the file of `l` with the records `rs` appended -/
def Appends (l l' : Log) (rs : List Rec) : Prop :=
  fileLines l'.disk = fileLines l.disk ++ rs.map Line.record

theorem Appends.refl (l : Log) : Appends l l [] := by simp [Appends]

theorem write_appends (l : Log) (rs : List Rec) :
    ∃ rs', Appends l (l.write (rs.map Line.record)).1 rs' := by
  unfold Log.write
  split
  · split
    · exact ⟨rs, by simp [Appends, fileLines, *]⟩
    · exact ⟨rs, by simp [Appends, fileLines, *]⟩
  · exact ⟨[], Appends.refl l⟩

theorem log_appends (w : World) (l : Log) : ∃ rs, Appends l (l.log w).1 rs := by
  unfold Log.log
  simp only []
  split
  · exact ⟨[], by simp [Appends]⟩
  · split
    · exact ⟨[], by simp [Appends]⟩
    · rename_i cells he
      have := write_appends ({ l with stamp := w.stamp } : Log) [⟨w.stamp, cells⟩]
      exact this

theorem streakRecs_eq (st : Option Int) (q : List Atom) :
    streakRecs st q = (q.map fun a => (⟨st, [some (.atom a)]⟩ : Rec)).map Line.record := by
  simp [streakRecs]

/-- the records of `deckRecs` -/
def deckRecList (stamp : Option Int) (fs : List String) : List Entry → List Rec
  | [] => []
  | .map m :: rest => ⟨stamp, fs.map fun f => (dget m f).map .atom⟩ :: deckRecList stamp fs rest
  | .other _ :: rest => deckRecList stamp fs rest

theorem deckRecs_eq (st : Option Int) (fs : List String) (d : List Entry) :
    deckRecs st fs d = (deckRecList st fs d).map Line.record := by
  induction d with
  | nil => rfl
  | cons e rest ih => cases e <;> simp [deckRecs, deckRecList, ih]

theorem logStreak_appends (w : World) (l : Log) : ∃ rs, Appends l (l.logStreak w).2.1 rs := by
  have h0 : Appends l ({ l with stamp := w.stamp } : Log) [] := by simp [Appends]
  unfold Log.logStreak
  simp only []
  repeat' split
  all_goals first
    | exact ⟨[], h0⟩
    | (rw [streakRecs_eq]; exact write_appends ({ l with stamp := w.stamp } : Log) _)
    | exact write_appends ({ l with stamp := w.stamp } : Log) [_]

theorem logDeck_appends (w : World) (l : Log) : ∃ rs, Appends l (l.logDeck w).2.1 rs := by
  have h0 : Appends l ({ l with stamp := w.stamp } : Log) [] := by simp [Appends]
  unfold Log.logDeck
  simp only []
  repeat' split
  all_goals first
    | exact ⟨[], h0⟩
    | (rw [deckRecs_eq]; exact write_appends ({ l with stamp := w.stamp } : Log) _)

theorem act_appends (w : World) (l : Log) : ∃ rs, Appends l (l.act w).2.1 rs := by
  unfold Log.act
  split
  · exact ⟨[], Appends.refl l⟩
  · split
    · exact log_appends w l
    · exact ⟨[], Appends.refl l⟩
  · exact log_appends w l
  · split
    · exact log_appends w l
    · split
      · exact log_appends w l
      · exact ⟨[], Appends.refl l⟩
  · split
    · exact log_appends w l
    · split
      · exact ⟨[], by simp [Appends]⟩
      · split
        · exact log_appends w ({ l with lasts := _ } : Log)
        · exact ⟨[], by simp [Appends]⟩
  · exact logStreak_appends w l
  · exact logDeck_appends w l

/-! ## shape of a protocol-respecting control step -/

/-- the log on which START runs the action: reopened and prepared -/
def startLog (s : S1) : Log := (s.log.reopen.prepare s.world).1

theorem startLog_facts (s : S1) (hi : Inv s) :
    cfgOk (startLog s) = true ∧ (startLog s).isOpen = true ∧ Prepared (startLog s) ∧
    s.log.reopen.prepare s.world = (startLog s, none) := by
  have hro := reopen_open s.log
  have hrc : cfgOk s.log.reopen = true := by rw [reopen_cfg]; exact hi.cfg
  have hpp : s.log.reopen.stamp ≠ none → Prepared s.log.reopen := by
    intro h
    rw [(reopen_same s.log).1] at h
    exact reopen_prepared _ (hi.prep (Or.inr h))
  have hpe := prepare_eq s.world s.log.reopen hrc hro
  refine ⟨prepare_cfg s.world s.log.reopen hrc hro, ?_, prepare_prepared s.world s.log.reopen hrc hro hpp, ?_⟩
  · unfold startLog; rw [hpe]; exact hro
  · unfold startLog; rw [hpe]

theorem send_shape (s : S1) (c : Ctl) (hi : Inv s) (hc : ctlOk s.status c = true) :
    (s.send c).1 =
      match c with
      | .run => { s with world := (s.log.act s.world).1, log := (s.log.act s.world).2.1, status := .running }
      | .ready => { s with status := .readied }
      | .start => { s with world := ((startLog s).act s.world).1, log := ((startLog s).act s.world).2.1,
                           status := .started }
      | .stop =>
        if s.status = .stopped then s
        else { s with world := (s.log.act s.world).1, log := ((s.log.act s.world).2.1).close,
                      status := .stopped }
      | .abort => { s with log := s.log.close, status := .aborted } := by
  have hna : (!s.alive) = false := by simp [hi.alive]
  cases c with
  | ready => simp only [S1.send, hna, Bool.false_eq_true, if_false]
  | abort => simp only [S1.send, hna, Bool.false_eq_true, if_false]
  | run =>
    have ho : openSt s.status = true := hc
    have h1 := (act_ok s.world s.log hi.cfg (hi.opened ho) (hi.prep (Or.inl ho))).1
    simp only [S1.send, hna, Bool.false_eq_true, if_false, S1.logRun]
    rcases ha : s.log.act s.world with ⟨w1, l1, e⟩
    rw [ha] at h1
    simp only at h1
    subst h1
    rfl
  | start =>
    obtain ⟨f1, f2, f3, f4⟩ := startLog_facts s hi
    have h1 := (act_ok s.world (startLog s) f1 f2 f3).1
    simp only [S1.send, hna, Bool.false_eq_true, if_false, S1.logRun, f4]
    rcases ha : (startLog s).act s.world with ⟨w1, l1, e⟩
    rw [ha] at h1
    simp only at h1
    subst h1
    rfl
  | stop =>
    simp only [S1.send, hna, Bool.false_eq_true, if_false]
    by_cases hst : s.status = .stopped
    · simp only [hst, if_true]
    · have ho : openSt s.status = true := by
        simp only [ctlOk, Bool.or_eq_true, beq_iff_eq] at hc
        rcases hc with h | h
        · exact h
        · exact absurd h hst
      have h1 := (act_ok s.world s.log hi.cfg (hi.opened ho) (hi.prep (Or.inl ho))).1
      simp only [hst, if_false, S1.logRun]
      rcases ha : s.log.act s.world with ⟨w1, l1, e⟩
      rw [ha] at h1
      simp only at h1
      subst h1
      rfl

theorem fileLines_reopen (l : Log) : fileLines l.reopen.disk = fileLines l.disk := by
  unfold Log.reopen; split <;> simp [fileLines, *]

/-- explicit form of the log on which START acts -/
theorem startLog_eq (s : S1) (hi : Inv s) :
    startLog s =
      { s.log.reopen with
        fields := prepFields s.world s.log.reopen, formats := prepFields s.world s.log.reopen,
        timeFmt := true, lasts := prepLasts s.world s.log.reopen,
        header := some (headerCols (prepFields s.world s.log.reopen)),
        disk := if s.log.reopen.stamp = none ∧ s.log.reopen.first = true then
                  some (fileLines s.log.reopen.disk ++
                    [.header s.log.reopen.rule s.log.reopen.base (headerCols (prepFields s.world s.log.reopen))])
                else s.log.reopen.disk } := by
  have hro := reopen_open s.log
  have hrc : cfgOk s.log.reopen = true := by rw [reopen_cfg]; exact hi.cfg
  unfold startLog
  rw [prepare_eq s.world s.log.reopen hrc hro]

theorem startLog_rule (s : S1) (hi : Inv s) : (startLog s).rule = s.log.rule := by
  rw [startLog_eq s hi]; exact (reopen_same s.log).2.2.2.2.2.1

theorem startLog_stamp (s : S1) (hi : Inv s) : (startLog s).stamp = s.log.stamp := by
  rw [startLog_eq s hi]; exact (reopen_same s.log).1

theorem startLog_loggees (s : S1) (hi : Inv s) : (startLog s).loggees = s.log.loggees := by
  rw [startLog_eq s hi]; exact (reopen_same s.log).2.2.2.2.2.2

theorem startLog_recs (s : S1) (hi : Inv s) : recsOf (fileLines (startLog s).disk) = s.recs := by
  rw [startLog_eq s hi]
  simp only [S1.recs]
  split
  · simp only [fileLines, recsOf_append, recsOf, List.append_nil]
    exact congrArg recsOf (fileLines_reopen s.log)
  · rw [fileLines_reopen]

theorem rule_of_same {l l' : Log} (h : SameCfg l l') : l'.rule = l.rule := by
  obtain ⟨st, ls, dk, rfl⟩ := h; rfl

theorem loggees_of_same {l l' : Log} (h : SameCfg l l') : l'.loggees = l.loggees := by
  obtain ⟨st, ls, dk, rfl⟩ := h; rfl

/-- a protocol-respecting step never changes the rule or the loggees -/
theorem step_rule (s : S1) (op : Op) (hi : Inv s) (hok : ∀ c, op = .ctl c → ctlOk s.status c = true) :
    (s.step op).1.log.rule = s.log.rule ∧ (s.step op).1.log.loggees = s.log.loggees := by
  cases op with
  | w o => exact ⟨rfl, rfl⟩
  | ctl c =>
    simp only [S1.step]
    rw [send_shape s c hi (hok c rfl)]
    cases c with
    | ready => exact ⟨rfl, rfl⟩
    | abort => exact ⟨rfl, rfl⟩
    | run => exact ⟨rule_of_same (act_same _ _), loggees_of_same (act_same _ _)⟩
    | start =>
      exact ⟨(rule_of_same (act_same _ _)).trans (startLog_rule s hi),
             (loggees_of_same (act_same _ _)).trans (startLog_loggees s hi)⟩
    | stop =>
      simp only []
      split
      · exact ⟨rfl, rfl⟩
      · constructor
        · show (s.log.act s.world).2.1.rule = s.log.rule
          exact rule_of_same (act_same _ _)
        · show (s.log.act s.world).2.1.loggees = s.log.loggees
          exact loggees_of_same (act_same _ _)

/-! ## always / once / never -/

theorem recs_logged (w : World) (l : Log) :
    recsOf (fileLines (l.logged w).disk) = recsOf (fileLines l.disk) ++ [curRec w l] := by
  simp [Log.logged, fileLines, recsOf_append, recsOf]

theorem recs_close (l : Log) : recsOf (fileLines l.close.disk) = recsOf (fileLines l.disk) := rfl

/-- the log a control acts on: the reopened and prepared one for START, the current one otherwise -/
def actLog (s : S1) : Ctl → Log
  | .start => startLog s
  | _ => s.log

theorem actLog_facts (s : S1) (c : Ctl) (hi : Inv s) (hc : ctlOk s.status c = true)
    (hr : isRun s.status c = true) :
    cfgOk (actLog s c) = true ∧ (actLog s c).isOpen = true ∧ Prepared (actLog s c) ∧
    (actLog s c).rule = s.log.rule ∧ recsOf (fileLines (actLog s c).disk) = s.recs ∧
    (actLog s c).stamp = s.log.stamp ∧ (actLog s c).loggees = s.log.loggees := by
  cases c with
  | start =>
    obtain ⟨f1, f2, f3, _⟩ := startLog_facts s hi
    exact ⟨f1, f2, f3, startLog_rule s hi, startLog_recs s hi, startLog_stamp s hi, startLog_loggees s hi⟩
  | run =>
    have ho : openSt s.status = true := hc
    exact ⟨hi.cfg, hi.opened ho, hi.prep (Or.inl ho), rfl, rfl, rfl, rfl⟩
  | stop =>
    have hst : s.status ≠ .stopped := by simpa [isRun] using hr
    have ho : openSt s.status = true := by
      simp only [ctlOk, Bool.or_eq_true, beq_iff_eq] at hc
      rcases hc with h | h
      · exact h
      · exact absurd h hst
    exact ⟨hi.cfg, hi.opened ho, hi.prep (Or.inl ho), rfl, rfl, rfl, rfl⟩
  | ready => simp [isRun] at hr
  | abort => simp [isRun] at hr

/-- records and world after a protocol-respecting control, in terms of the action on `actLog` -/
theorem send_recs (s : S1) (c : Ctl) (hi : Inv s) (hc : ctlOk s.status c = true) :
    (s.send c).1.recs =
      (if isRun s.status c then recsOf (fileLines ((actLog s c).act s.world).2.1.disk) else s.recs) ∧
    (s.send c).1.world = (if isRun s.status c then ((actLog s c).act s.world).1 else s.world) ∧
    (s.send c).1.log.stamp =
      (if isRun s.status c then ((actLog s c).act s.world).2.1.stamp else s.log.stamp) := by
  rw [send_shape s c hi hc]
  cases c with
  | ready => simp [isRun, S1.recs]
  | abort => simp [isRun, S1.recs, recs_close]; rfl
  | run => simp [isRun, S1.recs, actLog]
  | start => simp [isRun, S1.recs, actLog]
  | stop =>
    by_cases hst : s.status = .stopped
    · simp [isRun, hst, S1.recs]
    · simp only [isRun, hst, if_false, actLog, S1.recs]
      simp [hst, recs_close]
      rfl

theorem write_header_general (l : Log) (hd : Line) (hh : ∀ r, hd ≠ .record r) :
    (l.write [hd]).1.rule = l.rule ∧
    recsOf (fileLines (l.write [hd]).1.disk) = recsOf (fileLines l.disk) := by
  unfold Log.write
  split
  · split
    · refine ⟨rfl, ?_⟩
      simp only [fileLines, recsOf_append, *]
      cases hd <;> simp [recsOf] at hh ⊢
    · refine ⟨rfl, ?_⟩
      simp only [fileLines, *]
      cases hd <;> simp [recsOf] at hh ⊢
  · exact ⟨rfl, rfl⟩

/-- whatever the state of the log, `prepare` keeps the rule and writes no record -/
theorem prepare_general (w : World) (l : Log) :
    (l.prepare w).1.rule = l.rule ∧
    recsOf (fileLines (l.prepare w).1.disk) = recsOf (fileLines l.disk) := by
  unfold Log.prepare
  simp only []
  split
  · exact ⟨rfl, rfl⟩
  · split
    · exact ⟨rfl, rfl⟩
    · split
      · exact ⟨rfl, rfl⟩
      · split
        · exact write_header_general _ _ (by intro r h; cases h)
        · exact ⟨rfl, rfl⟩

theorem never_step (s : S1) (op : Op) (hr : s.log.rule = .never) :
    (s.step op).1.log.rule = .never ∧ (s.step op).1.recs = s.recs := by
  cases op with
  | w o => exact ⟨hr, rfl⟩
  | ctl c =>
    simp only [S1.step, S1.send]
    split
    · exact ⟨hr, rfl⟩
    · cases c with
      | ready => exact ⟨hr, rfl⟩
      | abort => exact ⟨hr, rfl⟩
      | run =>
        simp only [S1.logRun, act_never s.world s.log hr]
        exact ⟨hr, rfl⟩
      | stop =>
        simp only [S1.logRun, act_never s.world s.log hr]
        split
        · exact ⟨hr, rfl⟩
        · exact ⟨hr, rfl⟩
      | start =>
        have hg := prepare_general s.world s.log.reopen
        have hrr : s.log.reopen.rule = .never := by rw [(reopen_same s.log).2.2.2.2.2.1]; exact hr
        rcases hp : s.log.reopen.prepare s.world with ⟨l0, e0⟩
        rw [hp] at hg
        simp only at hg
        have hl0 : l0.rule = .never := by rw [hg.1]; exact hrr
        have hrec : recsOf (fileLines l0.disk) = s.recs := by
          rw [hg.2, fileLines_reopen]; rfl
        cases e0 with
        | some e => exact ⟨hl0, hrec⟩
        | none =>
          simp only [S1.logRun, act_never s.world l0 hl0]
          exact ⟨hl0, hrec⟩

theorem never_exec (s : S1) (h : List Op) (hr : s.log.rule = .never) : (s.exec h).recs = s.recs := by
  induction h generalizing s with
  | nil => rfl
  | cons op rest ih =>
    have := never_step s op hr
    simp only [S1.exec]
    rw [ih _ this.1, this.2]

/-! ## the clock -/

def opStamp (st : Option Int) : Op → Option Int
  | .w (.setStamp t) => t
  | .w (.advance d) => st.map (· + (d : Int))
  | _ => st

theorem apply_stamp (w : World) (o : WOp) : (w.apply o).stamp = opStamp w.stamp (.w o) := by
  cases o <;> simp [World.apply, opStamp, World.setShare]
  split <;> rfl

theorem timed_cons (st : Option Int) (op : Op) (rest : List Op) (h : timed st (op :: rest) = true) :
    ∃ t t', st = some t ∧ opStamp st op = some t' ∧ t ≤ t' ∧ timed (some t') rest = true := by
  cases st with
  | none => simp [timed] at h
  | some t =>
    cases op with
    | ctl c => exact ⟨t, t, rfl, rfl, Int.le_refl t, by simpa [timed] using h⟩
    | w o =>
      cases o with
      | setStamp t' =>
        cases t' with
        | none => simp [timed] at h
        | some t' =>
          simp only [timed, Bool.and_eq_true, decide_eq_true_eq] at h
          exact ⟨t, t', rfl, rfl, h.1, h.2⟩
      | advance d =>
        exact ⟨t, t + d, rfl, rfl, by omega, by simpa [timed] using h⟩
      | write s f v => exact ⟨t, t, rfl, rfl, Int.le_refl t, by simpa [timed] using h⟩
      | poke s f v => exact ⟨t, t, rfl, rfl, Int.le_refl t, by simpa [timed] using h⟩
      | append s f a => exact ⟨t, t, rfl, rfl, Int.le_refl t, by simpa [timed] using h⟩
      | push s e => exact ⟨t, t, rfl, rfl, Int.le_refl t, by simpa [timed] using h⟩

theorem logStreak_world_stamp (w : World) (l : Log) : (l.logStreak w).1.stamp = w.stamp := by
  unfold Log.logStreak
  simp only []
  repeat' split
  all_goals rfl

theorem logDeck_world_stamp (w : World) (l : Log) : (l.logDeck w).1.stamp = w.stamp := by
  unfold Log.logDeck
  simp only []
  repeat' split
  all_goals rfl

theorem act_world_stamp (w : World) (l : Log) : (l.act w).1.stamp = w.stamp := by
  unfold Log.act
  repeat' split
  all_goals first | rfl | exact logStreak_world_stamp w l | exact logDeck_world_stamp w l

/-- the store stamp after a protocol-respecting step -/
theorem step_world_stamp (s : S1) (op : Op) (hi : Inv s) (hok : ∀ c, op = .ctl c → ctlOk s.status c = true) :
    (s.step op).1.world.stamp = opStamp s.world.stamp op := by
  cases op with
  | w o => exact apply_stamp s.world o
  | ctl c =>
    simp only [S1.step, opStamp]
    rw [(send_recs s c hi (hok c rfl)).2.1]
    split
    · exact act_world_stamp _ _
    · rfl

/-- hypotheses threaded through a history: the invariant and the protocol, one step further -/
theorem thread (s : S1) (op : Op) (rest : List Op) (hi : Inv s) (hp : proto s.status (op :: rest) = true) :
    (∀ c, op = .ctl c → ctlOk s.status c = true) ∧ Inv (s.step op).1 ∧
    proto (s.step op).1.status rest = true := by
  have hok : ∀ c, op = .ctl c → ctlOk s.status c = true := by
    intro c hc; subst hc
    simp only [proto, Bool.and_eq_true] at hp; exact hp.1
  have := Inv_step s op hi hok
  refine ⟨hok, this.1, ?_⟩
  rw [this.2.2]
  cases op with
  | w o => exact hp
  | ctl c => simp only [proto, Bool.and_eq_true] at hp; exact hp.2

theorem always_step (s : S1) (c : Ctl) (hi : Inv s) (hr : s.log.rule = .always)
    (hc : ctlOk s.status c = true) :
    (s.send c).1.recs = s.recs ++ (if isRun s.status c then [curRec s.world (actLog s c)] else []) := by
  rw [(send_recs s c hi hc).1]
  split
  · rename_i hrun
    obtain ⟨f1, f2, f3, f4, f5, _⟩ := actLog_facts s c hi hc hrun
    rw [act_always s.world _ (f4.trans hr) f1 f2 f3]
    simp only [recs_logged, f5]
  · simp

theorem always_exec (s : S1) (h : List Op) (hi : Inv s) (hr : s.log.rule = .always)
    (hp : proto s.status h = true) :
    (s.exec h).recs.length = s.recs.length + nRuns s.status h := by
  induction h generalizing s with
  | nil => simp [S1.exec, nRuns]
  | cons op rest ih =>
    obtain ⟨hok, hi', hp'⟩ := thread s op rest hi hp
    have hr' := (step_rule s op hi hok).1.trans hr
    have hst := (Inv_step s op hi hok).2.2
    simp only [S1.exec]
    rw [ih _ hi' hr' hp', hst]
    cases op with
    | w o => simp [nRuns, S1.step, S1.recs]
    | ctl c =>
      simp only [S1.step, always_step s c hi hr (hok c rfl), nRuns, List.length_append]
      split <;> simp <;> omega

theorem once_step (s : S1) (c : Ctl) (hi : Inv s) (hr : s.log.rule = .once)
    (hc : ctlOk s.status c = true) :
    (s.send c).1.recs =
      s.recs ++ (if isRun s.status c ∧ s.log.stamp = none then [curRec s.world (actLog s c)] else []) ∧
    (s.send c).1.log.stamp =
      (if isRun s.status c ∧ s.log.stamp = none then s.world.stamp else s.log.stamp) := by
  obtain ⟨h1, _, h3⟩ := send_recs s c hi hc
  rw [h1, h3]
  by_cases hrun : isRun s.status c = true
  · obtain ⟨f1, f2, f3, f4, f5, f6, _⟩ := actLog_facts s c hi hc hrun
    rw [act_once s.world _ (f4.trans hr) f1 f2 f3, f6]
    by_cases hs : s.log.stamp = none
    · simp only [hrun, hs, if_true, and_self, recs_logged, f5]
      refine ⟨?_, ?_⟩ <;> first | rfl | trivial
    · simp only [hrun, hs, if_false, and_false, List.append_nil, f5, f6, if_true]
      exact ⟨trivial, trivial⟩
  · simp [hrun]

theorem once_exec (s : S1) (h : List Op) (hi : Inv s) (hr : s.log.rule = .once)
    (hp : proto s.status h = true) (ht : timed s.world.stamp h = true) :
    (s.exec h).recs.length =
      s.recs.length + (if s.log.stamp = none ∧ 0 < nRuns s.status h then 1 else 0) := by
  induction h generalizing s with
  | nil => simp [S1.exec, nRuns]
  | cons op rest ih =>
    obtain ⟨hok, hi', hp'⟩ := thread s op rest hi hp
    have hr' := (step_rule s op hi hok).1.trans hr
    have hst := (Inv_step s op hi hok).2.2
    obtain ⟨t, t', hst0, hst1, _, ht'⟩ := timed_cons _ _ _ ht
    have hws := step_world_stamp s op hi hok
    rw [hst1] at hws
    simp only [S1.exec]
    rw [ih _ hi' hr' hp' (by rw [hws]; exact ht'), hst]
    cases op with
    | w o =>
      simp only [nRuns, S1.step, S1.recs]
      rfl
    | ctl c =>
      obtain ⟨q1, q2⟩ := once_step s c hi hr (hok c rfl)
      simp only [S1.step, q1, q2, nRuns, List.length_append]
      by_cases hrun : isRun s.status c = true
      · by_cases hs : s.log.stamp = none
        · simp [hrun, hs, hst0]
        · simp [hrun, hs]
      · simp [hrun]

/-! ## a freshly built logger -/

/-- a logger with one well-formed log that has not been started: runner at its first `yield`
(status STOPPED), nothing logged, file closed -/
structure Fresh (s : S1) : Prop where
  cfg : cfgOk s.log = true
  alive : s.alive = true
  status : s.status = .stopped
  stamp : s.log.stamp = none
  first : s.log.first = true
  closed : s.log.isOpen = false

theorem Fresh.inv {s : S1} (h : Fresh s) : Inv s :=
  ⟨h.alive, h.cfg, by rw [h.status]; simp [openSt], by
    rw [h.status, h.stamp]; simp [openSt]⟩

/-! ## the idealised logger follows the code as long as its decisions agree -/

/-- the ideal state on which a control runs the log -/
def Ideal.actOn (i : Ideal) : Ctl → Ideal
  | .start => { i with s := { i.s with log := startLog i.s } }
  | _ => i

theorem actOn_s (i : Ideal) (c : Ctl) :
    (i.actOn c).s = { i.s with log := actLog i.s c } := by
  cases c <;> rfl

/-- If the ideal run on `actOn` does to the files what the code's run does (same resulting
logger state, same outcome), then the whole control does. -/
theorem ideal_send_agree (i : Ideal) (c : Ctl) (hi : Inv i.s) (hc : ctlOk i.s.status c = true)
    (hag : isRun i.s.status c = true →
      ((i.actOn c).logRun).1.s = ((i.actOn c).s.logRun).1 ∧
      ((i.actOn c).logRun).2 = ((i.actOn c).s.logRun).2) :
    (i.send c).1.s = (i.s.send c).1 ∧
    (i.send c).1.logged = (if isRun i.s.status c then ((i.actOn c).logRun).1.logged else i.logged) ∧
    (i.send c).1.dirty = (if isRun i.s.status c then ((i.actOn c).logRun).1.dirty else i.dirty) ∧
    (i.send c).1.last = (if isRun i.s.status c then ((i.actOn c).logRun).1.last else i.last) := by
  have hna : (!i.s.alive) = false := by simp [hi.alive]
  cases c with
  | ready => simp [Ideal.send, S1.send, hna, isRun]
  | abort => simp [Ideal.send, S1.send, hna, isRun]
  | run =>
    have ho : openSt i.s.status = true := hc
    have h1 := (act_ok i.s.world i.s.log hi.cfg (hi.opened ho) (hi.prep (Or.inl ho))).1
    obtain ⟨a1, a2⟩ := hag rfl
    simp only [Ideal.actOn] at a1 a2
    have he : (i.s.logRun).2 = none := by simp only [S1.logRun]; exact h1
    rw [he] at a2
    simp only [Ideal.send, S1.send, hna, Bool.false_eq_true, if_false, isRun, if_true, Ideal.actOn]
    rcases hl : i.logRun with ⟨i1, e1⟩
    rw [hl] at a1 a2
    simp only at a1 a2
    subst a2
    rcases hs : i.s.logRun with ⟨s1, e⟩
    rw [hs] at a1 he
    simp only at a1 he
    subst he
    simp [a1]
  | start =>
    obtain ⟨f1, f2, f3, f4⟩ := startLog_facts i.s hi
    have h1 := (act_ok i.s.world (startLog i.s) f1 f2 f3).1
    obtain ⟨a1, a2⟩ := hag rfl
    simp only [Ideal.actOn] at a1 a2
    have he : (({ i.s with log := startLog i.s } : S1).logRun).2 = none := by
      simp only [S1.logRun]; exact h1
    rw [he] at a2
    simp only [Ideal.send, S1.send, hna, Bool.false_eq_true, if_false, isRun, if_true, Ideal.actOn, f4]
    rcases hl : ({ i with s := { i.s with log := startLog i.s } } : Ideal).logRun with ⟨i1, e1⟩
    rw [hl] at a1 a2
    simp only at a1 a2
    subst a2
    rcases hs : ({ i.s with log := startLog i.s } : S1).logRun with ⟨s1, e⟩
    rw [hs] at a1 he
    simp only at a1 he
    subst he
    simp [a1]
  | stop =>
    by_cases hst : i.s.status = .stopped
    · simp [Ideal.send, S1.send, hna, isRun, hst]
    · have ho : openSt i.s.status = true := by
        simp only [ctlOk, Bool.or_eq_true, beq_iff_eq] at hc
        rcases hc with h | h
        · exact h
        · exact absurd h hst
      have hrun : isRun i.s.status .stop = true := by simp [isRun, hst]
      have h1 := (act_ok i.s.world i.s.log hi.cfg (hi.opened ho) (hi.prep (Or.inl ho))).1
      obtain ⟨a1, a2⟩ := hag hrun
      simp only [Ideal.actOn] at a1 a2
      have he : (i.s.logRun).2 = none := by simp only [S1.logRun]; exact h1
      rw [he] at a2
      simp only [Ideal.send, S1.send, hna, Bool.false_eq_true, if_false, hrun, if_true, Ideal.actOn, hst]
      rcases hl : i.logRun with ⟨i1, e1⟩
      rw [hl] at a1 a2
      simp only at a1 a2
      subst a2
      rcases hs : i.s.logRun with ⟨s1, e⟩
      rw [hs] at a1 he
      simp only at a1 he
      subst he
      simp [a1]

/-! ## update rule: the stamp comparison implements the dirty flag (outside the D12 region) -/

theorem anyNewer_false_of_le (w : World) (t : Int) (lg : Dict Nat)
    (h : ∀ sid σ, (w.shares sid).stamp = some σ → σ ≤ t) : anyNewer w t lg = false := by
  unfold anyNewer
  rw [List.any_eq_false]
  intro p _
  obtain ⟨tag, sid⟩ := p
  simp only []
  cases hs : (w.shares sid).stamp with
  | none => simp
  | some σ =>
    have := h sid σ hs
    simp only [gt_iff_lt, decide_eq_true_eq]
    omega

theorem anyNewer_congr (w w' : World) (ls : Int) (lg : Dict Nat)
    (h : ∀ p ∈ lg, (w'.shares p.2).stamp = (w.shares p.2).stamp) : anyNewer w' ls lg = anyNewer w ls lg := by
  unfold anyNewer
  induction lg with
  | nil => rfl
  | cons p rest ih =>
    simp only [List.any_cons]
    rw [h p (by simp), ih (fun q hq => h q (by simp [hq]))]

theorem anyNewer_true_of (w : World) (ls : Int) (lg : Dict Nat) (sid : Nat) (σ : Int)
    (hm : lg.any (·.2 == sid) = true) (hs : (w.shares sid).stamp = some σ) (hgt : ls < σ) :
    anyNewer w ls lg = true := by
  unfold anyNewer
  rw [List.any_eq_true] at hm ⊢
  obtain ⟨p, hp, hq⟩ := hm
  refine ⟨p, hp, ?_⟩
  obtain ⟨tag, sid'⟩ := p
  have : sid' = sid := by simpa using hq
  subst this
  simp only [hs]
  simpa using hgt

structure InvU (i : Ideal) : Prop where
  logged : i.logged = true ↔ i.s.log.stamp ≠ none
  now : ∃ t, i.s.world.stamp = some t ∧ (∀ sid σ, (i.s.world.shares sid).stamp = some σ → σ ≤ t) ∧
          (∀ ls, i.s.log.stamp = some ls → ls ≤ t)
  dirty : ∀ ls, i.s.log.stamp = some ls →
          (i.dirty = true ↔ anyNewer i.s.world ls i.s.log.loggees = true)

theorem setShare_same (w : World) (i : Nat) (sh : Share) : (w.setShare i sh).shares i = sh := by
  simp [World.setShare]

theorem setShare_other (w : World) (i j : Nat) (sh : Share) (h : j ≠ i) :
    (w.setShare i sh).shares j = w.shares j := by
  simp [World.setShare, h]

/-- share stamps after a writer operation -/
theorem apply_share_stamp (w : World) (o : WOp) (j : Nat) :
    ((w.apply o).shares j).stamp =
      match o with
      | .write sid _ _ => if j = sid then w.stamp else (w.shares j).stamp
      | _ => (w.shares j).stamp := by
  cases o with
  | setStamp t => rfl
  | advance d => rfl
  | write sid f v =>
    simp only [World.apply]
    by_cases h : j = sid
    · subst h; simp [setShare_same]
    · simp [setShare_other _ _ _ _ h, h]
  | poke sid f v =>
    simp only [World.apply]
    by_cases h : j = sid
    · subst h; simp [setShare_same]
    · simp [setShare_other _ _ _ _ h]
  | append sid f a =>
    simp only [World.apply]
    split
    · by_cases h : j = sid
      · subst h; simp [setShare_same]
      · simp [setShare_other _ _ _ _ h]
    · rfl
  | push sid e =>
    simp only [World.apply]
    by_cases h : j = sid
    · subst h; simp [setShare_same]
    · simp [setShare_other _ _ _ _ h]

end Ioflo.LogRules
