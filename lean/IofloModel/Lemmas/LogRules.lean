import IofloModel.Model.LogRules
/-!
Helper lemmas for C22 (log rules): dictionaries, the single-log refinement, the protocol invariant.
-/
namespace Ioflo.LogRules

/-! ## dictionaries -/

theorem dget_dset_same {α : Type} (d : Dict α) (k : String) (v : α) : dget (dset d k v) k = some v := by
  induction d with
  | nil => simp [dset, dget]
  | cons p rest ih =>
    obtain ⟨k0, x⟩ := p
    by_cases h : k0 = k
    · simp [dset, dget, h]
    · simp [dset, dget, h, ih]

theorem dget_dset_other {α : Type} (d : Dict α) (k k' : String) (v : α) (h : k' ≠ k) :
    dget (dset d k v) k' = dget d k' := by
  induction d with
  | nil => simp [dset, dget, h.symm]
  | cons p rest ih =>
    obtain ⟨k0, x⟩ := p
    by_cases h0 : k0 = k
    · subst h0; simp [dset, dget, h.symm]
    · by_cases h1 : k0 = k'
      · subst h1; simp [dset, dget, h0]
      · simp [dset, dget, h0, h1, ih]

theorem dget_dset {α : Type} (d : Dict α) (k k' : String) (v : α) :
    dget (dset d k v) k' = if k' = k then some v else dget d k' := by
  by_cases h : k' = k
  · subst h; simp [dget_dset_same]
  · simp [h, dget_dset_other _ _ _ _ h]

theorem dkeys_dset_of_mem {α : Type} (d : Dict α) (k : String) (v : α) (h : k ∈ dkeys d) :
    dkeys (dset d k v) = dkeys d := by
  induction d with
  | nil => simp [dkeys] at h
  | cons p rest ih =>
    obtain ⟨k0, x⟩ := p
    by_cases h0 : k0 = k
    · simp [dset, dkeys, h0]
    · have : k ∈ dkeys rest := by
        simp [dkeys] at h ⊢
        rcases h with h | h
        · exact absurd h.symm h0
        · exact h
      have ih' := ih this
      simp [dset, dkeys, h0] at ih' ⊢
      exact ih'

theorem dget_isSome_iff_mem {α : Type} (d : Dict α) (k : String) : (dget d k).isSome ↔ k ∈ dkeys d := by
  induction d with
  | nil => simp [dget, dkeys]
  | cons p rest ih =>
    obtain ⟨k0, x⟩ := p
    by_cases h0 : k0 = k
    · simp [dget, dkeys, h0]
    · simp [dget, dkeys, h0] at ih ⊢
      rw [ih]
      constructor
      · intro h; exact Or.inr h
      · intro h; rcases h with h | h
        · exact absurd h.symm h0
        · exact h

theorem dget_ne_none_iff_mem {α : Type} (d : Dict α) (k : String) : dget d k ≠ none ↔ k ∈ dkeys d := by
  rw [← dget_isSome_iff_mem]; cases dget d k <;> simp

/-! ## single-log refinement -/

theorem actAll_single (w : World) (l : Log) :
    actAll w [l] = ((l.act w).1, [(l.act w).2.1], (l.act w).2.2) := by
  unfold actAll
  rcases h : l.act w with ⟨w1, l1, e⟩
  cases e <;> simp [actAll]

theorem prepareAll_single (w : World) (l : Log) :
    prepareAll w [l] = ([(l.prepare w).1], (l.prepare w).2) := by
  unfold prepareAll
  rcases h : l.prepare w with ⟨l1, e⟩
  cases e <;> simp [prepareAll]

theorem toSys_send (s : S1) (c : Ctl) :
    s.toSys.send c = ((s.send c).1.toSys, (s.send c).2) := by
  unfold Sys.send S1.send
  by_cases ha : s.alive = true
  · cases c with
    | ready => simp [S1.toSys, ha]
    | abort => simp [S1.toSys, ha]
    | run =>
      simp only [S1.toSys, ha, Bool.not_true, Bool.false_eq_true, if_false, Sys.logAll, S1.logRun,
        actAll_single]
      rcases h : s.log.act s.world with ⟨w1, l1, e⟩
      cases e <;> simp [Sys.die, S1.die]
    | start =>
      simp only [S1.toSys, ha, Bool.not_true, Bool.false_eq_true, if_false, Sys.logAll, S1.logRun,
        prepareAll_single, List.map]
      rcases h : s.log.reopen.prepare s.world with ⟨l1, e⟩
      cases e with
      | some e => simp [Sys.die, S1.die]
      | none =>
        simp only [actAll_single]
        rcases h2 : l1.act s.world with ⟨w2, l2, e2⟩
        cases e2 <;> simp [Sys.die, S1.die]
    | stop =>
      by_cases hs : s.status = .stopped
      · simp [S1.toSys, ha, hs]
      · simp only [S1.toSys, ha, Bool.not_true, Bool.false_eq_true, if_false, Sys.logAll, S1.logRun,
          actAll_single, hs]
        rcases h : s.log.act s.world with ⟨w1, l1, e⟩
        cases e <;> simp [Sys.die, S1.die]
  · have ha' : s.alive = false := by cases h : s.alive <;> simp_all
    simp [S1.toSys, ha']

theorem toSys_step (s : S1) (op : Op) :
    s.toSys.step op = ((s.step op).1.toSys, (s.step op).2) := by
  cases op with
  | w o => simp [Sys.step, S1.step, S1.toSys]
  | ctl c => simp only [Sys.step, S1.step]; exact toSys_send s c

theorem toSys_exec (s : S1) (h : List Op) : s.toSys.exec h = (s.exec h).toSys := by
  induction h generalizing s with
  | nil => rfl
  | cons op rest ih =>
    simp only [Sys.exec, S1.exec, toSys_step, ih]

/-! ## writing -/

theorem write_open (l : Log) (ls : List Line) (h : l.isOpen = true) :
    l.write ls = ({ l with disk := some (fileLines l.disk ++ ls) }, none) := by
  unfold Log.write
  cases hd : l.disk <;> simp [h, fileLines]

theorem write_snd_open (l : Log) (ls : List Line) (h : l.isOpen = true) : (l.write ls).2 = none := by
  rw [write_open l ls h]

theorem write_closed (l : Log) (ls : List Line) (h : l.isOpen = false) :
    l.write ls = (l, some .attributeError) := by
  simp [Log.write, h]

theorem recCells_ok (w : World) (formats : Dict (List String)) (loggees : Dict Nat)
    (h : ∀ tag ∈ dkeys loggees, dget formats tag ≠ none) : (recCells w formats loggees).2 = none := by
  induction loggees with
  | nil => rfl
  | cons p rest ih =>
    obtain ⟨tag, sid⟩ := p
    have h1 : dget formats tag ≠ none := h tag (by simp [dkeys])
    have h2 : ∀ t ∈ dkeys rest, dget formats t ≠ none := fun t ht => h t (by simp [dkeys] at ht ⊢; exact Or.inr ht)
    unfold recCells
    cases hf : dget formats tag with
    | none => exact absurd hf h1
    | some fs => simp [ih h2]

/-- the record `Log.log` writes -/
def curRec (w : World) (l : Log) : Rec := ⟨w.stamp, (recCells w l.formats l.loggees).1⟩

theorem log_ok (w : World) (l : Log) (ho : l.isOpen = true) (ht : l.timeFmt = true)
    (hf : ∀ tag ∈ dkeys l.loggees, dget l.formats tag ≠ none) :
    l.log w = ({ l with stamp := w.stamp, disk := some (fileLines l.disk ++ [.record (curRec w l)]) }, none) := by
  unfold Log.log
  have := recCells_ok w l.formats l.loggees hf
  rcases hr : recCells w l.formats l.loggees with ⟨cells, e⟩
  rw [hr] at this
  simp only at this
  subst this
  simp [ht, write_open, ho, curRec, hr]

/-! ## prepare -/

/-- the field lists after `prepare` -/
def prepFields (w : World) (l : Log) : Dict (List String) :=
  if l.rule = .streak then
    match l.loggees with
    | [] => l.fields
    | (tag, sid) :: _ =>
      match dget l.fields tag with
      | some (f :: _) => dset l.fields tag [f]
      | _ => dset l.fields tag ((dkeys (w.shares sid).data).take 1)
  else defaultFields w l.loggees l.fields

/-- the last values after `prepare` -/
def prepLasts (w : World) (l : Log) : Dict (Dict Val) :=
  if l.rule = .change ∧ (l.stamp = none ∨ l.lasts.isEmpty = true) then
    (buildLasts w l.loggees (prepFields w l)).1
  else l.lasts

theorem defaultFields_keys (w : World) (loggees : Dict Nat) (fields : Dict (List String))
    (h : ∀ t ∈ dkeys loggees, t ∈ dkeys fields) : dkeys (defaultFields w loggees fields) = dkeys fields := by
  induction loggees generalizing fields with
  | nil => rfl
  | cons p rest ih =>
    obtain ⟨tag, sid⟩ := p
    have htag : tag ∈ dkeys fields := h tag (by simp [dkeys])
    unfold defaultFields
    have key : ∀ fields', dkeys fields' = dkeys fields →
        dkeys (defaultFields w rest fields') = dkeys fields := by
      intro fields' hk
      rw [ih fields' (by intro t ht; rw [hk]; exact h t (by simp [dkeys] at ht ⊢; exact Or.inr ht))]
      exact hk
    split
    · exact key _ rfl
    · exact key _ (dkeys_dset_of_mem _ _ _ htag)

theorem prepFields_keys (w : World) (l : Log) (h : dkeys l.fields = dkeys l.loggees) :
    dkeys (prepFields w l) = dkeys l.fields := by
  unfold prepFields
  split
  · split
    · rfl
    · rename_i tag sid rest hl
      have htag : tag ∈ dkeys l.fields := by rw [h, hl]; simp [dkeys]
      split <;> exact dkeys_dset_of_mem _ _ _ htag
  · exact defaultFields_keys w _ _ (by intro t ht; rw [h]; exact ht)

theorem buildLasts_ok (w : World) (loggees : Dict Nat) (fields : Dict (List String))
    (h : ∀ t ∈ dkeys fields, dget loggees t ≠ none) :
    (buildLasts w loggees fields).2 = none ∧
    ∀ t ∈ dkeys fields, dget (buildLasts w loggees fields).1 t ≠ none := by
  induction fields with
  | nil => simp [buildLasts, dkeys]
  | cons p rest ih =>
    obtain ⟨tag, fs⟩ := p
    have h1 := h tag (by simp [dkeys])
    have h2 : ∀ t ∈ dkeys rest, dget loggees t ≠ none :=
      fun t ht => h t (by simp [dkeys] at ht ⊢; exact Or.inr ht)
    obtain ⟨ih1, ih2⟩ := ih h2
    unfold buildLasts
    cases hl : dget loggees tag with
    | none => exact absurd hl h1
    | some sid =>
      rcases hb : buildLasts w loggees rest with ⟨ls, e⟩
      rw [hb] at ih1 ih2
      simp only at ih1 ih2 ⊢
      refine ⟨ih1, ?_⟩
      intro t ht
      rw [dget_dset]
      split
      · simp
      · simp [dkeys] at ht
        rcases ht with ht | ht
        · contradiction
        · exact ih2 t (by simp [dkeys]; exact ht)

theorem cfgOk_keys {l : Log} (h : cfgOk l = true) : dkeys l.fields = dkeys l.loggees := by
  unfold cfgOk at h
  simp only [Bool.and_eq_true, beq_iff_eq] at h
  exact h.1

theorem cfgOk_streak {l : Log} (h : cfgOk l = true) (hr : l.rule = .streak) :
    ∃ tag sid rest, l.loggees = (tag, sid) :: rest := by
  unfold cfgOk at h
  simp only [Bool.and_eq_true, hr] at h
  cases hl : l.loggees with
  | nil => simp [hl] at h
  | cons p rest => exact ⟨p.1, p.2, rest, rfl⟩

theorem cfgOk_deck {l : Log} (h : cfgOk l = true) (hr : l.rule = .deck) :
    ∃ tag sid rest f fs, l.loggees = (tag, sid) :: rest ∧ dget l.fields tag = some (f :: fs) := by
  unfold cfgOk at h
  simp only [Bool.and_eq_true, hr] at h
  cases hl : l.loggees with
  | nil => simp [hl] at h
  | cons p rest =>
    obtain ⟨tag, sid⟩ := p
    simp only [hl] at h
    cases hf : dget l.fields tag with
    | none => simp [hf] at h
    | some fs =>
      cases fs with
      | nil => simp [hf] at h
      | cons f fs => exact ⟨tag, sid, rest, f, fs, rfl, hf⟩

theorem prepare_eq (w : World) (l : Log) (hc : cfgOk l = true) (ho : l.isOpen = true) :
    l.prepare w =
      ({ l with fields := prepFields w l, formats := prepFields w l, timeFmt := true,
                lasts := prepLasts w l, header := some (headerCols (prepFields w l)),
                disk := if l.stamp = none ∧ l.first = true then
                          some (fileLines l.disk ++ [.header l.rule l.base (headerCols (prepFields w l))])
                        else l.disk }, none) := by
  have hk := cfgOk_keys hc
  have hpk := prepFields_keys w l hk
  have hbl := buildLasts_ok w l.loggees (prepFields w l) (by
    intro t ht; rw [hpk, hk] at ht; exact (dget_ne_none_iff_mem _ _).2 ht)
  have hfields : ∀ (X : Dict (List String) × Option Err),
      (if l.rule = .streak then
        match l.loggees with
        | [] => (l.fields, some Err.indexError)
        | (tag, sid) :: _ =>
          match dget l.fields tag with
          | some (f :: _) => (dset l.fields tag [f], none)
          | _ => (dset l.fields tag ((dkeys (w.shares sid).data).take 1), none)
      else (defaultFields w l.loggees l.fields, none)) = X → X = (prepFields w l, none) := by
    intro X hX
    rw [← hX]
    unfold prepFields
    split
    · rename_i hr
      obtain ⟨tag, sid, rest, hl⟩ := cfgOk_streak hc hr
      simp only [hl]
      split <;> rfl
    · rfl
  unfold Log.prepare
  simp only []
  split
  · -- deck check raised
    rename_i e he
    exfalso
    split at he
    · rename_i hr
      obtain ⟨tag, sid, rest, f, fs, hl, hf⟩ := cfgOk_deck hc hr
      simp [hl, hf] at he
    · simp at he
  · split
    · -- field list raised
      rename_i x e he
      have := hfields _ he
      simp at this
    · rename_i fields he
      have hf := hfields _ he
      simp only [Prod.mk.injEq, and_true] at hf
      subst hf
      split
      · -- lasts raised
        rename_i x e he2
        exfalso
        split at he2
        · rw [Prod.ext_iff] at he2
          simp only at he2
          rw [hbl.1] at he2
          simp at he2
        · simp at he2
      · rename_i lasts he2
        have hl : lasts = prepLasts w l := by
          unfold prepLasts
          split at he2
          · rename_i hch
            rw [Prod.ext_iff] at he2
            simp only at he2
            simp only [hch, and_self, if_true]
            exact he2.1.symm
          · rename_i hch
            simp only [Prod.mk.injEq, and_true] at he2
            simp only [hch, if_false]
            exact he2.symm
        subst hl
        by_cases hh : l.stamp = none ∧ l.first = true
        · simp [hh, write_open, ho]
        · simp [hh]

/-! ## what an action can change -/

/-- `l'` is `l` up to stamp, last values and file contents -/
def SameCfg (l l' : Log) : Prop := ∃ st ls dk, l' = { l with stamp := st, lasts := ls, disk := dk }

theorem SameCfg.refl (l : Log) : SameCfg l l := ⟨l.stamp, l.lasts, l.disk, rfl⟩

theorem SameCfg.trans {a b c : Log} (h1 : SameCfg a b) (h2 : SameCfg b c) : SameCfg a c := by
  obtain ⟨s1, l1, d1, rfl⟩ := h1
  obtain ⟨s2, l2, d2, rfl⟩ := h2
  exact ⟨s2, l2, d2, rfl⟩

theorem write_same (l : Log) (ls : List Line) : SameCfg l (l.write ls).1 := by
  unfold Log.write
  split
  · split <;> exact ⟨_, _, _, rfl⟩
  · exact SameCfg.refl l

theorem log_same (w : World) (l : Log) : SameCfg l (l.log w).1 := by
  unfold Log.log
  simp only []
  split
  · exact ⟨_, _, _, rfl⟩
  · split
    · exact ⟨_, _, _, rfl⟩
    · exact SameCfg.trans ⟨w.stamp, l.lasts, l.disk, rfl⟩ (write_same _ _)

theorem logStreak_same (w : World) (l : Log) : SameCfg l (l.logStreak w).2.1 := by
  have h0 : SameCfg l { l with stamp := w.stamp } := ⟨w.stamp, l.lasts, l.disk, rfl⟩
  unfold Log.logStreak
  simp only []
  repeat' split
  all_goals first
    | exact h0
    | exact SameCfg.trans h0 (write_same _ _)

theorem logDeck_same (w : World) (l : Log) : SameCfg l (l.logDeck w).2.1 := by
  have h0 : SameCfg l { l with stamp := w.stamp } := ⟨w.stamp, l.lasts, l.disk, rfl⟩
  unfold Log.logDeck
  simp only []
  repeat' split
  all_goals first
    | exact h0
    | exact SameCfg.trans h0 (write_same _ _)

theorem act_same (w : World) (l : Log) : SameCfg l (l.act w).2.1 := by
  unfold Log.act
  split
  · exact SameCfg.refl l
  · split
    · exact log_same w l
    · exact SameCfg.refl l
  · exact log_same w l
  · split
    · exact log_same w l
    · split
      · exact log_same w l
      · exact SameCfg.refl l
  · split
    · exact log_same w l
    · split
      · exact ⟨_, _, _, rfl⟩
      · split
        · exact SameCfg.trans ⟨l.stamp, _, l.disk, rfl⟩ (log_same w _)
        · exact ⟨_, _, _, rfl⟩
  · exact logStreak_same w l
  · exact logDeck_same w l

/-! ## no exception while the files are open and prepared -/

structure Prepared (l : Log) : Prop where
  time : l.timeFmt = true
  fmts : l.formats = l.fields
  lasts : l.rule = .change → ∀ tag ∈ dkeys l.fields, dget l.lasts tag ≠ none

theorem changeTags_noerr (w : World) (loggees : Dict Nat) (fields : Dict (List String))
    (lasts : Dict (Dict Val))
    (h : ∀ t ∈ dkeys fields, dget lasts t ≠ none ∧ dget loggees t ≠ none) :
    (changeTags w loggees lasts fields).2.2 = none ∧
    ∀ t, dget lasts t ≠ none → dget (changeTags w loggees lasts fields).2.1 t ≠ none := by
  induction fields generalizing lasts with
  | nil => simp [changeTags]
  | cons p rest ih =>
    obtain ⟨tag, fs⟩ := p
    obtain ⟨h1, h2⟩ := h tag (by simp [dkeys])
    unfold changeTags
    cases hl : dget lasts tag with
    | none => exact absurd hl h1
    | some last =>
      cases hg : dget loggees tag with
      | none => exact absurd hg h2
      | some sid =>
        simp only []
        have hkeep : ∀ t, dget lasts t ≠ none →
            dget (dset lasts tag (changeFields (w.shares sid).data last fs).2) t ≠ none := by
          intro t ht; rw [dget_dset]; split <;> simp [ht]
        have := ih (dset lasts tag (changeFields (w.shares sid).data last fs).2) (by
          intro t ht
          have := h t (by simp [dkeys] at ht ⊢; exact Or.inr ht)
          exact ⟨hkeep t this.1, this.2⟩)
        refine ⟨this.1, ?_⟩
        intro t ht
        exact this.2 t (hkeep t ht)

theorem fmt_of_prepared {l : Log} (hc : cfgOk l = true) (hp : Prepared l) :
    ∀ tag ∈ dkeys l.loggees, dget l.formats tag ≠ none := by
  intro tag ht
  rw [hp.fmts, dget_ne_none_iff_mem, cfgOk_keys hc]
  exact ht

/-- the log after `Log.log` succeeded -/
def Log.logged (w : World) (l : Log) : Log :=
  { l with stamp := w.stamp, disk := some (fileLines l.disk ++ [.record (curRec w l)]) }

theorem log_eq (w : World) (l : Log) (hc : cfgOk l = true) (ho : l.isOpen = true) (hp : Prepared l) :
    l.log w = (l.logged w, none) :=
  log_ok w l ho hp.time (fmt_of_prepared hc hp)

theorem act_never (w : World) (l : Log) (hr : l.rule = .never) : l.act w = (w, l, none) := by
  simp [Log.act, hr]

theorem act_once (w : World) (l : Log) (hr : l.rule = .once) (hc : cfgOk l = true) (ho : l.isOpen = true)
    (hp : Prepared l) :
    l.act w = if l.stamp = none then (w, l.logged w, none) else (w, l, none) := by
  simp only [Log.act, hr, log_eq w l hc ho hp]

theorem act_always (w : World) (l : Log) (hr : l.rule = .always) (hc : cfgOk l = true) (ho : l.isOpen = true)
    (hp : Prepared l) : l.act w = (w, l.logged w, none) := by
  simp only [Log.act, hr, log_eq w l hc ho hp]

theorem act_update (w : World) (l : Log) (hr : l.rule = .update) (hc : cfgOk l = true) (ho : l.isOpen = true)
    (hp : Prepared l) :
    l.act w = match l.stamp with
      | none => (w, l.logged w, none)
      | some ls => if anyNewer w ls l.loggees then (w, l.logged w, none) else (w, l, none) := by
  simp only [Log.act, hr, log_eq w l hc ho hp]
  cases l.stamp <;> rfl

theorem cfgOk_congr {l l' : Log} (h : SameCfg l l') : cfgOk l' = cfgOk l := by
  obtain ⟨st, ls, dk, rfl⟩ := h
  rfl

theorem act_change (w : World) (l : Log) (hr : l.rule = .change) (hc : cfgOk l = true) (ho : l.isOpen = true)
    (hp : Prepared l) :
    l.act w =
      if l.stamp = none then (w, l.logged w, none)
      else
        let r := changeTags w l.loggees l.lasts l.fields
        if r.1 then (w, ({ l with lasts := r.2.1 } : Log).logged w, none)
        else (w, { l with lasts := r.2.1 }, none) := by
  have hne := changeTags_noerr w l.loggees l.fields l.lasts (by
    intro t ht
    refine ⟨hp.lasts hr t ht, ?_⟩
    rw [dget_ne_none_iff_mem, ← cfgOk_keys hc]; exact ht)
  unfold Log.act
  split <;> rename_i h0 <;> first | (exfalso; rw [hr] at h0; cases h0; done) | skip
  simp only [log_eq w l hc ho hp]
  split
  · rfl
  · rcases hct : changeTags w l.loggees l.lasts l.fields with ⟨c, lasts', e⟩
    rw [hct] at hne
    simp only at hne
    obtain ⟨he, hk⟩ := hne
    subst he
    simp only []
    have hc' : cfgOk ({ l with lasts := lasts' } : Log) = true := hc
    have hp' : Prepared ({ l with lasts := lasts' } : Log) :=
      ⟨hp.time, hp.fmts, fun _ t ht => hk t (hp.lasts hr t ht)⟩
    cases c
    · simp
    · simp [log_eq w _ hc' ho hp']

theorem logStreak_noerr (w : World) (l : Log) (hc : cfgOk l = true) (ho : l.isOpen = true)
    (hp : Prepared l) : (l.logStreak w).2.2 = none := by
  have hk := cfgOk_keys hc
  have ho' : ({ l with stamp := w.stamp } : Log).isOpen = true := ho
  unfold Log.logStreak
  simp only []
  split
  · rfl
  · rename_i tag sid rest hl
    split
    · rfl
    · rename_i k0 v0 drest hd
      have htag : tag ∈ dkeys l.fields := by rw [hk, hl]; simp [dkeys]
      split
      · rename_i hf
        exact absurd hf ((dget_ne_none_iff_mem _ _).2 htag)
      · rename_i fs hf
        split
        · -- field selection raised
          rename_i x e he
          exfalso
          split at he
          · simp at he
          · rename_i f frest
            rw [hp.fmts, hf] at he
            simp at he
        · rename_i field he
          split
          · rfl
          · simp only [hp.time, Bool.not_true, Bool.false_and, Bool.false_eq_true, if_false]
            exact write_snd_open _ _ ho
          · simp only [hp.time, Bool.not_true, Bool.false_and, Bool.false_eq_true, if_false]
            exact write_snd_open _ _ ho
          · simp only [hp.time, Bool.not_true, Bool.false_eq_true, if_false]
            exact write_snd_open _ _ ho

theorem logDeck_noerr (w : World) (l : Log) (hc : cfgOk l = true) (ho : l.isOpen = true)
    (hp : Prepared l) : (l.logDeck w).2.2 = none := by
  have hk := cfgOk_keys hc
  have ho' : ({ l with stamp := w.stamp } : Log).isOpen = true := ho
  unfold Log.logDeck
  simp only []
  split
  · rfl
  · rename_i tag sid rest hl
    have htag : tag ∈ dkeys l.fields := by rw [hk, hl]; simp [dkeys]
    split
    · rename_i hf
      exact absurd hf ((dget_ne_none_iff_mem _ _).2 htag)
    · rename_i fs hf
      split
      · rfl
      · rename_i d hd
        have hfm : dget l.formats tag = some fs := by rw [hp.fmts]; exact hf
        simp only [hfm]
        split
        · exact write_snd_open _ _ ho
        · rename_i hfalse
          exfalso
          apply hfalse
          rw [List.all_eq_true]
          intro e _
          cases e with
          | other a => rfl
          | map m =>
            simp only [hp.time, Bool.true_and, List.all_eq_true]
            intro f hfmem
            simp [hfmem]

theorem logged_same (w : World) (l : Log) : SameCfg l (l.logged w) := ⟨_, _, _, rfl⟩

theorem prepared_of_same {l l' : Log} (h : SameCfg l l') (hp : Prepared l)
    (hl : l.rule = .change → ∀ tag ∈ dkeys l.fields, dget l'.lasts tag ≠ none) : Prepared l' := by
  obtain ⟨st, ls, dk, rfl⟩ := h
  exact ⟨hp.time, hp.fmts, hl⟩

theorem act_ok (w : World) (l : Log) (hc : cfgOk l = true) (ho : l.isOpen = true) (hp : Prepared l) :
    (l.act w).2.2 = none ∧ Prepared (l.act w).2.1 := by
  have hs := act_same w l
  cases hr : l.rule with
  | never =>
    rw [act_never w l hr]; exact ⟨rfl, hp⟩
  | once =>
    rw [act_once w l hr hc ho hp]
    split
    · exact ⟨rfl, prepared_of_same (logged_same w l) hp (by simp [hr])⟩
    · exact ⟨rfl, hp⟩
  | always =>
    rw [act_always w l hr hc ho hp]
    exact ⟨rfl, prepared_of_same (logged_same w l) hp (by simp [hr])⟩
  | update =>
    rw [act_update w l hr hc ho hp]
    split
    · exact ⟨rfl, prepared_of_same (logged_same w l) hp (by simp [hr])⟩
    · split
      · exact ⟨rfl, prepared_of_same (logged_same w l) hp (by simp [hr])⟩
      · exact ⟨rfl, hp⟩
  | change =>
    have hne := changeTags_noerr w l.loggees l.fields l.lasts (by
      intro t ht
      refine ⟨hp.lasts hr t ht, ?_⟩
      rw [dget_ne_none_iff_mem, ← cfgOk_keys hc]; exact ht)
    rw [act_change w l hr hc ho hp]
    split
    · exact ⟨rfl, prepared_of_same (logged_same w l) hp (fun _ => hp.lasts hr)⟩
    · simp only []
      split
      · refine ⟨rfl, prepared_of_same (l := l)
          (SameCfg.trans ⟨l.stamp, _, l.disk, rfl⟩ (logged_same w _)) hp ?_⟩
        intro _ t ht
        exact hne.2 t (hp.lasts hr t ht)
      · refine ⟨rfl, prepared_of_same (l := l) ⟨l.stamp, _, l.disk, rfl⟩ hp ?_⟩
        intro _ t ht
        exact hne.2 t (hp.lasts hr t ht)
  | streak =>
    have : l.act w = l.logStreak w := by simp [Log.act, hr]
    rw [this]
    exact ⟨logStreak_noerr w l hc ho hp, prepared_of_same (logStreak_same w l) hp (by simp [hr])⟩
  | deck =>
    have : l.act w = l.logDeck w := by simp [Log.act, hr]
    rw [this]
    exact ⟨logDeck_noerr w l hc ho hp, prepared_of_same (logDeck_same w l) hp (by simp [hr])⟩

/-! ## the protocol invariant -/

structure Inv (s : S1) : Prop where
  alive : s.alive = true
  cfg : cfgOk s.log = true
  opened : openSt s.status = true → s.log.isOpen = true
  prep : (openSt s.status = true ∨ s.log.stamp ≠ none) → Prepared s.log

theorem isOpen_of_same {l l' : Log} (h : SameCfg l l') : l'.isOpen = l.isOpen := by
  obtain ⟨st, ls, dk, rfl⟩ := h; rfl

theorem reopen_open (l : Log) : l.reopen.isOpen = true := by
  unfold Log.reopen; split <;> rfl

theorem reopen_cfg (l : Log) : cfgOk l.reopen = cfgOk l := by
  unfold Log.reopen; split <;> rfl

theorem close_cfg (l : Log) : cfgOk l.close = cfgOk l := rfl

theorem prepare_cfg (w : World) (l : Log) (hc : cfgOk l = true) (ho : l.isOpen = true) :
    cfgOk (l.prepare w).1 = true := by
  rw [prepare_eq w l hc ho]
  have hk := cfgOk_keys hc
  have hpk := prepFields_keys w l hk
  unfold cfgOk at hc ⊢
  simp only [Bool.and_eq_true, beq_iff_eq] at hc ⊢
  refine ⟨by rw [hpk]; exact hc.1, ?_⟩
  have h2 := hc.2
  cases hr : l.rule with
  | deck =>
    simp only [hr] at h2 ⊢
    cases hl : l.loggees with
    | nil => simp [hl] at h2
    | cons p rest =>
      obtain ⟨tag, sid⟩ := p
      simp only [hl] at h2 ⊢
      -- the first loggee's non-empty field list is kept by `defaultFields`
      have hpf : prepFields w l = defaultFields w l.loggees l.fields := by simp [prepFields, hr]
      rw [hpf]
      cases hf : dget l.fields tag with
      | none => simp [hf] at h2
      | some fs =>
        cases fs with
        | nil => simp [hf] at h2
        | cons f fs =>
          have : ∀ (lg : Dict Nat) (fields : Dict (List String)), dget fields tag = some (f :: fs) →
              dget (defaultFields w lg fields) tag = some (f :: fs) := by
            intro lg
            induction lg with
            | nil => intro fields h; exact h
            | cons q lrest ih =>
              obtain ⟨t2, s2⟩ := q
              intro fields h
              unfold defaultFields
              split
              · exact ih _ h
              · apply ih
                rw [dget_dset]
                split
                · rename_i hnone heq
                  subst heq
                  exact absurd h (hnone f fs)
                · exact h
          rw [this _ _ hf]
  | streak => simp only [hr] at h2 ⊢; exact h2
  | never => rfl
  | once => rfl
  | always => rfl
  | update => rfl
  | change => rfl

theorem prepare_prepared (w : World) (l : Log) (hc : cfgOk l = true) (ho : l.isOpen = true)
    (hp : l.stamp ≠ none → Prepared l) : Prepared (l.prepare w).1 := by
  rw [prepare_eq w l hc ho]
  have hk := cfgOk_keys hc
  have hpk := prepFields_keys w l hk
  refine ⟨rfl, rfl, ?_⟩
  intro hr t ht
  simp only at hr ht ⊢
  unfold prepLasts
  split
  · exact (buildLasts_ok w l.loggees (prepFields w l) (by
      intro t ht; rw [hpk, hk] at ht; exact (dget_ne_none_iff_mem _ _).2 ht)).2 t ht
  · rename_i hno
    have hst : l.stamp ≠ none := by
      intro h; exact hno ⟨hr, Or.inl h⟩
    rw [hpk] at ht
    exact (hp hst).lasts hr t ht

theorem reopen_same (l : Log) : l.reopen.stamp = l.stamp ∧ l.reopen.lasts = l.lasts ∧
    l.reopen.fields = l.fields ∧ l.reopen.formats = l.formats ∧ l.reopen.timeFmt = l.timeFmt ∧
    l.reopen.rule = l.rule ∧ l.reopen.loggees = l.loggees := by
  unfold Log.reopen; split <;> simp

theorem reopen_prepared (l : Log) (hp : Prepared l) : Prepared l.reopen := by
  obtain ⟨h1, h2, h3, h4, h5, h6, h7⟩ := reopen_same l
  exact ⟨by rw [h5]; exact hp.time, by rw [h4, h3]; exact hp.fmts,
    by rw [h6, h3, h2]; exact hp.lasts⟩

/-- one protocol-respecting step keeps the invariant and follows the status automaton -/
theorem Inv_step (s : S1) (op : Op) (hi : Inv s)
    (hok : ∀ c, op = .ctl c → ctlOk s.status c = true) :
    Inv (s.step op).1 ∧ (s.step op).2 = .ok ∧
    (s.step op).1.status = (match op with | .w _ => s.status | .ctl c => nextSt s.status c) := by
  cases op with
  | w o => exact ⟨⟨hi.alive, hi.cfg, hi.opened, hi.prep⟩, rfl, rfl⟩
  | ctl c =>
    have hc := hok c rfl
    have hna : (!s.alive) = false := by simp [hi.alive]
    cases c with
    | ready =>
      simp only [S1.step, S1.send, hna, Bool.false_eq_true, if_false]
      refine ⟨⟨hi.alive, hi.cfg, by simp [openSt], ?_⟩, trivial, rfl⟩
      intro h
      simp [openSt] at h
      exact hi.prep (Or.inr h)
    | abort =>
      simp only [S1.step, S1.send, hna, Bool.false_eq_true, if_false]
      refine ⟨⟨hi.alive, hi.cfg, by simp [openSt], ?_⟩, trivial, rfl⟩
      intro h
      simp [openSt] at h
      have := hi.prep (Or.inr h)
      exact ⟨this.time, this.fmts, this.lasts⟩
    | run =>
      simp only [S1.step, S1.send, hna, Bool.false_eq_true, if_false]
      have ho : openSt s.status = true := hc
      have hop := hi.opened ho
      have hpr := hi.prep (Or.inl ho)
      obtain ⟨h1, h2⟩ := act_ok s.world s.log hi.cfg hop hpr
      simp only [S1.logRun]
      rcases ha : s.log.act s.world with ⟨w1, l1, e⟩
      rw [ha] at h1 h2
      simp only at h1 h2
      subst h1
      have hs := act_same s.world s.log
      rw [ha] at hs
      refine ⟨⟨hi.alive, by rw [cfgOk_congr hs]; exact hi.cfg,
        fun _ => by rw [isOpen_of_same hs]; exact hop, fun _ => h2⟩, rfl, rfl⟩
    | start =>
      simp only [S1.step, S1.send, hna, Bool.false_eq_true, if_false]
      have hro := reopen_open s.log
      have hrc : cfgOk s.log.reopen = true := by rw [reopen_cfg]; exact hi.cfg
      have hpp : s.log.reopen.stamp ≠ none → Prepared s.log.reopen := by
        intro h
        rw [(reopen_same s.log).1] at h
        exact reopen_prepared _ (hi.prep (Or.inr h))
      have hpe := prepare_eq s.world s.log.reopen hrc hro
      have hpc := prepare_cfg s.world s.log.reopen hrc hro
      have hpd := prepare_prepared s.world s.log.reopen hrc hro hpp
      have hl0o : (s.log.reopen.prepare s.world).1.isOpen = true := by rw [hpe]; exact hro
      have hfst : s.log.reopen.prepare s.world = ((s.log.reopen.prepare s.world).1, none) := by
        rw [hpe]
      rw [hfst]
      generalize (s.log.reopen.prepare s.world).1 = l0 at hpc hpd hl0o ⊢
      obtain ⟨h1, h2⟩ := act_ok s.world l0 hpc hl0o hpd
      simp only [S1.logRun]
      rcases ha : l0.act s.world with ⟨w1, l1, e⟩
      rw [ha] at h1 h2
      simp only at h1 h2
      subst h1
      have hs := act_same s.world l0
      rw [ha] at hs
      refine ⟨⟨hi.alive, by rw [cfgOk_congr hs]; exact hpc,
        fun _ => by rw [isOpen_of_same hs]; exact hl0o, fun _ => h2⟩, rfl, rfl⟩
    | stop =>
      simp only [S1.step, S1.send, hna, Bool.false_eq_true, if_false]
      by_cases hst : s.status = .stopped
      · simp only [hst, if_true]
        refine ⟨⟨hi.alive, hi.cfg, ?_, ?_⟩, trivial, by simp [nextSt]⟩
        · intro h; rw [hst] at h; simp [openSt] at h
        · intro h
          rw [hst] at h
          simp [openSt] at h
          exact hi.prep (Or.inr h)
      · have ho : openSt s.status = true := by
          simp only [ctlOk, Bool.or_eq_true, beq_iff_eq] at hc
          rcases hc with h | h
          · exact h
          · exact absurd h hst
        have hop := hi.opened ho
        have hpr := hi.prep (Or.inl ho)
        obtain ⟨h1, h2⟩ := act_ok s.world s.log hi.cfg hop hpr
        simp only [hst, if_false, S1.logRun]
        rcases ha : s.log.act s.world with ⟨w1, l1, e⟩
        rw [ha] at h1 h2
        simp only at h1 h2
        subst h1
        have hs := act_same s.world s.log
        rw [ha] at hs
        refine ⟨⟨hi.alive, by rw [close_cfg, cfgOk_congr hs]; exact hi.cfg,
          by simp [openSt], fun _ => ?_⟩, rfl, rfl⟩
        exact ⟨h2.time, h2.fmts, h2.lasts⟩

theorem Inv_exec (s : S1) (h : List Op) (hi : Inv s) (hp : proto s.status h = true) : Inv (s.exec h) := by
  induction h generalizing s with
  | nil => exact hi
  | cons op rest ih =>
    cases op with
    | w o =>
      have := Inv_step s (.w o) hi (by intro c hc; cases hc)
      exact ih _ this.1 (by rw [this.2.2]; exact hp)
    | ctl c =>
      simp only [proto, Bool.and_eq_true] at hp
      have := Inv_step s (.ctl c) hi (by intro c' hc; cases hc; exact hp.1)
      exact ih _ this.1 (by rw [this.2.2]; exact hp.2)

/-! ## what gets appended to the file -/

theorem fileLines_some (c : List Line) : fileLines (some c) = c := rfl

theorem recsOf_append (a b : List Line) : recsOf (a ++ b) = recsOf a ++ recsOf b := by
  induction a with
  | nil => rfl
  | cons x rest ih => cases x <;> simp [recsOf, ih]

theorem recsOf_records (rs : List Rec) : recsOf (rs.map Line.record) = rs := by
  induction rs with
  | nil => rfl
  | cons r rest ih => simp [recsOf, ih]

/-- `l'` has the file of `l` with the records `rs` appended -/
def Appends (l l' : Log) (rs : List Rec) : Prop :=
  fileLines l'.disk = fileLines l.disk ++ rs.map Line.record

theorem Appends.refl (l : Log) : Appends l l [] := by simp [Appends]

theorem write_appends (l : Log) (rs : List Rec) :
    ∃ rs', Appends l (l.write (rs.map Line.record)).1 rs' := by
  unfold Log.write
  split
  · split
    · exact ⟨rs, by simp [Appends, fileLines, *]⟩
    · exact ⟨rs, by simp [Appends, fileLines, *]⟩
  · exact ⟨[], Appends.refl l⟩

theorem log_appends (w : World) (l : Log) : ∃ rs, Appends l (l.log w).1 rs := by
  unfold Log.log
  simp only []
  split
  · exact ⟨[], by simp [Appends]⟩
  · split
    · exact ⟨[], by simp [Appends]⟩
    · rename_i cells he
      have := write_appends ({ l with stamp := w.stamp } : Log) [⟨w.stamp, cells⟩]
      exact this

theorem streakRecs_eq (st : Option Int) (q : List Elem) :
    streakRecs st q = (q.map fun e => (⟨st, [some e.toVal]⟩ : Rec)).map Line.record := by
  simp [streakRecs]

/-- the records of `deckRecs` -/
def deckRecList (stamp : Option Int) (fs : List String) : List Entry → List Rec
  | [] => []
  | .map m :: rest => ⟨stamp, fs.map fun f => dget m f⟩ :: deckRecList stamp fs rest
  | .other _ :: rest => deckRecList stamp fs rest

theorem deckRecs_eq (st : Option Int) (fs : List String) (d : List Entry) :
    deckRecs st fs d = (deckRecList st fs d).map Line.record := by
  induction d with
  | nil => rfl
  | cons e rest ih => cases e <;> simp [deckRecs, deckRecList, ih]

theorem logStreak_appends (w : World) (l : Log) : ∃ rs, Appends l (l.logStreak w).2.1 rs := by
  have h0 : Appends l ({ l with stamp := w.stamp } : Log) [] := by simp [Appends]
  unfold Log.logStreak
  simp only []
  repeat' split
  all_goals first
    | exact ⟨[], h0⟩
    | (rw [streakRecs_eq]; exact write_appends ({ l with stamp := w.stamp } : Log) _)
    | exact write_appends ({ l with stamp := w.stamp } : Log) [_]

theorem logDeck_appends (w : World) (l : Log) : ∃ rs, Appends l (l.logDeck w).2.1 rs := by
  have h0 : Appends l ({ l with stamp := w.stamp } : Log) [] := by simp [Appends]
  unfold Log.logDeck
  simp only []
  repeat' split
  all_goals first
    | exact ⟨[], h0⟩
    | (rw [deckRecs_eq]; exact write_appends ({ l with stamp := w.stamp } : Log) _)

theorem act_appends (w : World) (l : Log) : ∃ rs, Appends l (l.act w).2.1 rs := by
  unfold Log.act
  split
  · exact ⟨[], Appends.refl l⟩
  · split
    · exact log_appends w l
    · exact ⟨[], Appends.refl l⟩
  · exact log_appends w l
  · split
    · exact log_appends w l
    · split
      · exact log_appends w l
      · exact ⟨[], Appends.refl l⟩
  · split
    · exact log_appends w l
    · split
      · exact ⟨[], by simp [Appends]⟩
      · split
        · exact log_appends w ({ l with lasts := _ } : Log)
        · exact ⟨[], by simp [Appends]⟩
  · exact logStreak_appends w l
  · exact logDeck_appends w l

/-! ## shape of a protocol-respecting control step -/

/-- the log on which START runs the action: reopened and prepared -/
def startLog (s : S1) : Log := (s.log.reopen.prepare s.world).1

theorem startLog_facts (s : S1) (hi : Inv s) :
    cfgOk (startLog s) = true ∧ (startLog s).isOpen = true ∧ Prepared (startLog s) ∧
    s.log.reopen.prepare s.world = (startLog s, none) := by
  have hro := reopen_open s.log
  have hrc : cfgOk s.log.reopen = true := by rw [reopen_cfg]; exact hi.cfg
  have hpp : s.log.reopen.stamp ≠ none → Prepared s.log.reopen := by
    intro h
    rw [(reopen_same s.log).1] at h
    exact reopen_prepared _ (hi.prep (Or.inr h))
  have hpe := prepare_eq s.world s.log.reopen hrc hro
  refine ⟨prepare_cfg s.world s.log.reopen hrc hro, ?_, prepare_prepared s.world s.log.reopen hrc hro hpp, ?_⟩
  · unfold startLog; rw [hpe]; exact hro
  · unfold startLog; rw [hpe]

theorem send_shape (s : S1) (c : Ctl) (hi : Inv s) (hc : ctlOk s.status c = true) :
    (s.send c).1 =
      match c with
      | .run => { s with world := (s.log.act s.world).1, log := (s.log.act s.world).2.1, status := .running }
      | .ready => { s with status := .readied }
      | .start => { s with world := ((startLog s).act s.world).1, log := ((startLog s).act s.world).2.1,
                           status := .started }
      | .stop =>
        if s.status = .stopped then s
        else { s with world := (s.log.act s.world).1, log := ((s.log.act s.world).2.1).close,
                      status := .stopped }
      | .abort => { s with log := s.log.close, status := .aborted } := by
  have hna : (!s.alive) = false := by simp [hi.alive]
  cases c with
  | ready => simp only [S1.send, hna, Bool.false_eq_true, if_false]
  | abort => simp only [S1.send, hna, Bool.false_eq_true, if_false]
  | run =>
    have ho : openSt s.status = true := hc
    have h1 := (act_ok s.world s.log hi.cfg (hi.opened ho) (hi.prep (Or.inl ho))).1
    simp only [S1.send, hna, Bool.false_eq_true, if_false, S1.logRun]
    rcases ha : s.log.act s.world with ⟨w1, l1, e⟩
    rw [ha] at h1
    simp only at h1
    subst h1
    rfl
  | start =>
    obtain ⟨f1, f2, f3, f4⟩ := startLog_facts s hi
    have h1 := (act_ok s.world (startLog s) f1 f2 f3).1
    simp only [S1.send, hna, Bool.false_eq_true, if_false, S1.logRun, f4]
    rcases ha : (startLog s).act s.world with ⟨w1, l1, e⟩
    rw [ha] at h1
    simp only at h1
    subst h1
    rfl
  | stop =>
    simp only [S1.send, hna, Bool.false_eq_true, if_false]
    by_cases hst : s.status = .stopped
    · simp only [hst, if_true]
    · have ho : openSt s.status = true := by
        simp only [ctlOk, Bool.or_eq_true, beq_iff_eq] at hc
        rcases hc with h | h
        · exact h
        · exact absurd h hst
      have h1 := (act_ok s.world s.log hi.cfg (hi.opened ho) (hi.prep (Or.inl ho))).1
      simp only [hst, if_false, S1.logRun]
      rcases ha : s.log.act s.world with ⟨w1, l1, e⟩
      rw [ha] at h1
      simp only at h1
      subst h1
      rfl

theorem fileLines_reopen (l : Log) : fileLines l.reopen.disk = fileLines l.disk := by
  unfold Log.reopen; split <;> simp [fileLines, *]

/-- explicit form of the log on which START acts -/
theorem startLog_eq (s : S1) (hi : Inv s) :
    startLog s =
      { s.log.reopen with
        fields := prepFields s.world s.log.reopen, formats := prepFields s.world s.log.reopen,
        timeFmt := true, lasts := prepLasts s.world s.log.reopen,
        header := some (headerCols (prepFields s.world s.log.reopen)),
        disk := if s.log.reopen.stamp = none ∧ s.log.reopen.first = true then
                  some (fileLines s.log.reopen.disk ++
                    [.header s.log.reopen.rule s.log.reopen.base (headerCols (prepFields s.world s.log.reopen))])
                else s.log.reopen.disk } := by
  have hro := reopen_open s.log
  have hrc : cfgOk s.log.reopen = true := by rw [reopen_cfg]; exact hi.cfg
  unfold startLog
  rw [prepare_eq s.world s.log.reopen hrc hro]

theorem startLog_rule (s : S1) (hi : Inv s) : (startLog s).rule = s.log.rule := by
  rw [startLog_eq s hi]; exact (reopen_same s.log).2.2.2.2.2.1

theorem startLog_stamp (s : S1) (hi : Inv s) : (startLog s).stamp = s.log.stamp := by
  rw [startLog_eq s hi]; exact (reopen_same s.log).1

theorem startLog_loggees (s : S1) (hi : Inv s) : (startLog s).loggees = s.log.loggees := by
  rw [startLog_eq s hi]; exact (reopen_same s.log).2.2.2.2.2.2

theorem startLog_recs (s : S1) (hi : Inv s) : recsOf (fileLines (startLog s).disk) = s.recs := by
  rw [startLog_eq s hi]
  simp only [S1.recs]
  split
  · simp only [fileLines, recsOf_append, recsOf, List.append_nil]
    exact congrArg recsOf (fileLines_reopen s.log)
  · rw [fileLines_reopen]

theorem rule_of_same {l l' : Log} (h : SameCfg l l') : l'.rule = l.rule := by
  obtain ⟨st, ls, dk, rfl⟩ := h; rfl

theorem loggees_of_same {l l' : Log} (h : SameCfg l l') : l'.loggees = l.loggees := by
  obtain ⟨st, ls, dk, rfl⟩ := h; rfl

/-- a protocol-respecting step never changes the rule or the loggees -/
theorem step_rule (s : S1) (op : Op) (hi : Inv s) (hok : ∀ c, op = .ctl c → ctlOk s.status c = true) :
    (s.step op).1.log.rule = s.log.rule ∧ (s.step op).1.log.loggees = s.log.loggees := by
  cases op with
  | w o => exact ⟨rfl, rfl⟩
  | ctl c =>
    simp only [S1.step]
    rw [send_shape s c hi (hok c rfl)]
    cases c with
    | ready => exact ⟨rfl, rfl⟩
    | abort => exact ⟨rfl, rfl⟩
    | run => exact ⟨rule_of_same (act_same _ _), loggees_of_same (act_same _ _)⟩
    | start =>
      exact ⟨(rule_of_same (act_same _ _)).trans (startLog_rule s hi),
             (loggees_of_same (act_same _ _)).trans (startLog_loggees s hi)⟩
    | stop =>
      simp only []
      split
      · exact ⟨rfl, rfl⟩
      · constructor
        · show (s.log.act s.world).2.1.rule = s.log.rule
          exact rule_of_same (act_same _ _)
        · show (s.log.act s.world).2.1.loggees = s.log.loggees
          exact loggees_of_same (act_same _ _)

/-! ## always / once / never -/

theorem recs_logged (w : World) (l : Log) :
    recsOf (fileLines (l.logged w).disk) = recsOf (fileLines l.disk) ++ [curRec w l] := by
  simp [Log.logged, fileLines, recsOf_append, recsOf]

theorem recs_close (l : Log) : recsOf (fileLines l.close.disk) = recsOf (fileLines l.disk) := rfl

/-- the log a control acts on: the reopened and prepared one for START, the current one otherwise -/
def actLog (s : S1) : Ctl → Log
  | .start => startLog s
  | _ => s.log

theorem actLog_facts (s : S1) (c : Ctl) (hi : Inv s) (hc : ctlOk s.status c = true)
    (hr : isRun s.status c = true) :
    cfgOk (actLog s c) = true ∧ (actLog s c).isOpen = true ∧ Prepared (actLog s c) ∧
    (actLog s c).rule = s.log.rule ∧ recsOf (fileLines (actLog s c).disk) = s.recs ∧
    (actLog s c).stamp = s.log.stamp ∧ (actLog s c).loggees = s.log.loggees := by
  cases c with
  | start =>
    obtain ⟨f1, f2, f3, _⟩ := startLog_facts s hi
    exact ⟨f1, f2, f3, startLog_rule s hi, startLog_recs s hi, startLog_stamp s hi, startLog_loggees s hi⟩
  | run =>
    have ho : openSt s.status = true := hc
    exact ⟨hi.cfg, hi.opened ho, hi.prep (Or.inl ho), rfl, rfl, rfl, rfl⟩
  | stop =>
    have hst : s.status ≠ .stopped := by simpa [isRun] using hr
    have ho : openSt s.status = true := by
      simp only [ctlOk, Bool.or_eq_true, beq_iff_eq] at hc
      rcases hc with h | h
      · exact h
      · exact absurd h hst
    exact ⟨hi.cfg, hi.opened ho, hi.prep (Or.inl ho), rfl, rfl, rfl, rfl⟩
  | ready => simp [isRun] at hr
  | abort => simp [isRun] at hr

/-- records and world after a protocol-respecting control, in terms of the action on `actLog` -/
theorem send_recs (s : S1) (c : Ctl) (hi : Inv s) (hc : ctlOk s.status c = true) :
    (s.send c).1.recs =
      (if isRun s.status c then recsOf (fileLines ((actLog s c).act s.world).2.1.disk) else s.recs) ∧
    (s.send c).1.world = (if isRun s.status c then ((actLog s c).act s.world).1 else s.world) ∧
    (s.send c).1.log.stamp =
      (if isRun s.status c then ((actLog s c).act s.world).2.1.stamp else s.log.stamp) := by
  rw [send_shape s c hi hc]
  cases c with
  | ready => simp [isRun, S1.recs]
  | abort => simp [isRun, S1.recs, recs_close]; rfl
  | run => simp [isRun, S1.recs, actLog]
  | start => simp [isRun, S1.recs, actLog]
  | stop =>
    by_cases hst : s.status = .stopped
    · simp [isRun, hst, S1.recs]
    · simp only [isRun, hst, if_false, actLog, S1.recs]
      simp [hst, recs_close]
      rfl

theorem write_header_general (l : Log) (hd : Line) (hh : ∀ r, hd ≠ .record r) :
    (l.write [hd]).1.rule = l.rule ∧
    recsOf (fileLines (l.write [hd]).1.disk) = recsOf (fileLines l.disk) := by
  unfold Log.write
  split
  · split
    · refine ⟨rfl, ?_⟩
      simp only [fileLines, recsOf_append, *]
      cases hd <;> simp [recsOf] at hh ⊢
    · refine ⟨rfl, ?_⟩
      simp only [fileLines, *]
      cases hd <;> simp [recsOf] at hh ⊢
  · exact ⟨rfl, rfl⟩

/-- whatever the state of the log, `prepare` keeps the rule and writes no record -/
theorem prepare_general (w : World) (l : Log) :
    (l.prepare w).1.rule = l.rule ∧
    recsOf (fileLines (l.prepare w).1.disk) = recsOf (fileLines l.disk) := by
  unfold Log.prepare
  simp only []
  split
  · exact ⟨rfl, rfl⟩
  · split
    · exact ⟨rfl, rfl⟩
    · split
      · exact ⟨rfl, rfl⟩
      · split
        · exact write_header_general _ _ (by intro r h; cases h)
        · exact ⟨rfl, rfl⟩

theorem never_step (s : S1) (op : Op) (hr : s.log.rule = .never) :
    (s.step op).1.log.rule = .never ∧ (s.step op).1.recs = s.recs := by
  cases op with
  | w o => exact ⟨hr, rfl⟩
  | ctl c =>
    simp only [S1.step, S1.send]
    split
    · exact ⟨hr, rfl⟩
    · cases c with
      | ready => exact ⟨hr, rfl⟩
      | abort => exact ⟨hr, rfl⟩
      | run =>
        simp only [S1.logRun, act_never s.world s.log hr]
        exact ⟨hr, rfl⟩
      | stop =>
        simp only [S1.logRun, act_never s.world s.log hr]
        split
        · exact ⟨hr, rfl⟩
        · exact ⟨hr, rfl⟩
      | start =>
        have hg := prepare_general s.world s.log.reopen
        have hrr : s.log.reopen.rule = .never := by rw [(reopen_same s.log).2.2.2.2.2.1]; exact hr
        rcases hp : s.log.reopen.prepare s.world with ⟨l0, e0⟩
        rw [hp] at hg
        simp only at hg
        have hl0 : l0.rule = .never := by rw [hg.1]; exact hrr
        have hrec : recsOf (fileLines l0.disk) = s.recs := by
          rw [hg.2, fileLines_reopen]; rfl
        cases e0 with
        | some e => exact ⟨hl0, hrec⟩
        | none =>
          simp only [S1.logRun, act_never s.world l0 hl0]
          exact ⟨hl0, hrec⟩

theorem never_exec (s : S1) (h : List Op) (hr : s.log.rule = .never) : (s.exec h).recs = s.recs := by
  induction h generalizing s with
  | nil => rfl
  | cons op rest ih =>
    have := never_step s op hr
    simp only [S1.exec]
    rw [ih _ this.1, this.2]

/-! ## held references: what a writer operation through one does to the shares -/

@[simp] theorem rebind_shares (w : World) (s : Nat) (f : String) : (w.rebind s f).shares = w.shares := rfl
@[simp] theorem rebind_stamp (w : World) (s : Nat) (f : String) : (w.rebind s f).stamp = w.stamp := rfl

/-- a mutation through a held reference is the mutation of the field itself (live reference), or
leaves every share as it was -/
theorem viaHeld_cases (w : World) (i : Nat) (live : Held → World) (dead : Val → Val) :
    (∃ h, w.held[i]? = some h ∧ h.live = true ∧ w.viaHeld i live dead = live h) ∨
    ((w.viaHeld i live dead).shares = w.shares ∧ (w.viaHeld i live dead).stamp = w.stamp ∧
      ∀ h, w.held[i]? = some h → h.live = false) := by
  unfold World.viaHeld
  split
  · rename_i hn; exact Or.inr ⟨rfl, rfl, fun h hh => by rw [hn] at hh; cases hh⟩
  · rename_i h hh
    split
    · rename_i hv
      exact Or.inr ⟨rfl, rfl, fun h' hh' => by
        have : h' = h := by rw [hh] at hh'; exact (Option.some.inj hh').symm
        subst this; simp [Held.live, hv]⟩
    · rename_i hv
      have hv' : h.void = false := by simpa using hv
      split
      · rename_i ho
        exact Or.inl ⟨h, hh, by simp [Held.live, hv', ho], rfl⟩
      · rename_i v ho
        exact Or.inr ⟨rfl, rfl, fun h' hh' => by
          have : h' = h := by rw [hh] at hh'; exact (Option.some.inj hh').symm
          subst this; simp [Held.live, ho]⟩

theorem apply_happend_cases (w : World) (i : Nat) (e : Elem) :
    (∃ h, w.held[i]? = some h ∧ h.live = true ∧ w.apply (.happend i e) = w.appendTo h.sid h.f e) ∨
    ((w.apply (.happend i e)).shares = w.shares ∧ (w.apply (.happend i e)).stamp = w.stamp ∧
      ∀ h, w.held[i]? = some h → h.live = false) := by
  simp only [World.apply]; exact viaHeld_cases _ _ _ _

theorem apply_hsetitem_cases (w : World) (i : Nat) (k : String) (a : Atom) :
    (∃ h, w.held[i]? = some h ∧ h.live = true ∧ w.apply (.hsetitem i k a) = w.setitemTo h.sid h.f k a) ∨
    ((w.apply (.hsetitem i k a)).shares = w.shares ∧ (w.apply (.hsetitem i k a)).stamp = w.stamp ∧
      ∀ h, w.held[i]? = some h → h.live = false) := by
  simp only [World.apply]; exact viaHeld_cases _ _ _ _

theorem apply_hold_shares (w : World) (s : Nat) (f : String) :
    (w.apply (.hold s f)).shares = w.shares ∧ (w.apply (.hold s f)).stamp = w.stamp := by
  simp only [World.apply]; repeat' split
  all_goals exact ⟨rfl, rfl⟩

theorem appendTo_stamp (w : World) (s : Nat) (f : String) (e : Elem) : (w.appendTo s f e).stamp = w.stamp := by
  unfold World.appendTo; simp only []; split <;> rfl

theorem setitemTo_stamp (w : World) (s : Nat) (f k : String) (a : Atom) :
    (w.setitemTo s f k a).stamp = w.stamp := by
  unfold World.setitemTo; simp only []; split <;> rfl

/-! ## the clock -/

def opStamp (st : Option Int) : Op → Option Int
  | .w (.setStamp t) => t
  | .w (.advance d) => st.map (· + (d : Int))
  | _ => st

theorem apply_stamp (w : World) (o : WOp) : (w.apply o).stamp = opStamp w.stamp (.w o) := by
  cases o with
  | append s f e => exact appendTo_stamp w s f e
  | setitem s f k a => exact setitemTo_stamp w s f k a
  | hold s f => exact (apply_hold_shares w s f).2
  | happend i e =>
    rcases apply_happend_cases w i e with ⟨h, _, _, he⟩ | ⟨_, hs, _⟩
    · rw [he]; exact appendTo_stamp w _ _ e
    · exact hs
  | hsetitem i k a =>
    rcases apply_hsetitem_cases w i k a with ⟨h, _, _, he⟩ | ⟨_, hs, _⟩
    · rw [he]; exact setitemTo_stamp w _ _ k a
    · exact hs
  | _ => simp [World.apply, opStamp, World.setShare]

theorem timed_cons (st : Option Int) (op : Op) (rest : List Op) (h : timed st (op :: rest) = true) :
    ∃ t t', st = some t ∧ opStamp st op = some t' ∧ t ≤ t' ∧ timed (some t') rest = true := by
  cases st with
  | none => simp [timed] at h
  | some t =>
    cases op with
    | ctl c => exact ⟨t, t, rfl, rfl, Int.le_refl t, by simpa [timed] using h⟩
    | w o =>
      cases o with
      | setStamp t' =>
        cases t' with
        | none => simp [timed] at h
        | some t' =>
          simp only [timed, Bool.and_eq_true, decide_eq_true_eq] at h
          exact ⟨t, t', rfl, rfl, h.1, h.2⟩
      | advance d =>
        exact ⟨t, t + d, rfl, rfl, by omega, by simpa [timed] using h⟩
      | write s f v => exact ⟨t, t, rfl, rfl, Int.le_refl t, by simpa [timed] using h⟩
      | poke s f v => exact ⟨t, t, rfl, rfl, Int.le_refl t, by simpa [timed] using h⟩
      | append s f a => exact ⟨t, t, rfl, rfl, Int.le_refl t, by simpa [timed] using h⟩
      | setitem s f k a => exact ⟨t, t, rfl, rfl, Int.le_refl t, by simpa [timed] using h⟩
      | push s e => exact ⟨t, t, rfl, rfl, Int.le_refl t, by simpa [timed] using h⟩
      | hold s2 f2 => exact ⟨t, t, rfl, rfl, Int.le_refl t, by simpa [timed] using h⟩
      | happend i2 e2 => exact ⟨t, t, rfl, rfl, Int.le_refl t, by simpa [timed] using h⟩
      | hsetitem i2 k2 a2 => exact ⟨t, t, rfl, rfl, Int.le_refl t, by simpa [timed] using h⟩
      | hpush s2 e => exact ⟨t, t, rfl, rfl, Int.le_refl t, by simpa [timed] using h⟩

theorem logStreak_world_stamp (w : World) (l : Log) : (l.logStreak w).1.stamp = w.stamp := by
  unfold Log.logStreak
  simp only []
  repeat' split
  all_goals rfl

theorem logDeck_world_stamp (w : World) (l : Log) : (l.logDeck w).1.stamp = w.stamp := by
  unfold Log.logDeck
  simp only []
  repeat' split
  all_goals rfl

theorem act_world_stamp (w : World) (l : Log) : (l.act w).1.stamp = w.stamp := by
  unfold Log.act
  repeat' split
  all_goals first | rfl | exact logStreak_world_stamp w l | exact logDeck_world_stamp w l

/-- the store stamp after a protocol-respecting step -/
theorem step_world_stamp (s : S1) (op : Op) (hi : Inv s) (hok : ∀ c, op = .ctl c → ctlOk s.status c = true) :
    (s.step op).1.world.stamp = opStamp s.world.stamp op := by
  cases op with
  | w o => exact apply_stamp s.world o
  | ctl c =>
    simp only [S1.step, opStamp]
    rw [(send_recs s c hi (hok c rfl)).2.1]
    split
    · exact act_world_stamp _ _
    · rfl

/-! the logger empties queues in place (`value.pop()`, `value.popitem()`, `deck.popleft()`): it never
binds a field to another object, so the references producers hold are left as they were -/

theorem logStreak_held (w : World) (l : Log) : (l.logStreak w).1.held = w.held := by
  unfold Log.logStreak
  simp only []
  repeat' split
  all_goals rfl

theorem logDeck_held (w : World) (l : Log) : (l.logDeck w).1.held = w.held := by
  unfold Log.logDeck
  simp only []
  repeat' split
  all_goals rfl

theorem act_held (w : World) (l : Log) : (l.act w).1.held = w.held := by
  unfold Log.act
  repeat' split
  all_goals first | rfl | exact logStreak_held w l | exact logDeck_held w l

theorem ctl_held (s : S1) (c : Ctl) (hi : Inv s) (hok : ctlOk s.status c = true) :
    (s.step (.ctl c)).1.world.held = s.world.held := by
  simp only [S1.step]
  rw [(send_recs s c hi hok).2.1]
  split
  · exact act_held _ _
  · rfl

/-- hypotheses threaded through a history: the invariant and the protocol, one step further -/
theorem thread (s : S1) (op : Op) (rest : List Op) (hi : Inv s) (hp : proto s.status (op :: rest) = true) :
    (∀ c, op = .ctl c → ctlOk s.status c = true) ∧ Inv (s.step op).1 ∧
    proto (s.step op).1.status rest = true := by
  have hok : ∀ c, op = .ctl c → ctlOk s.status c = true := by
    intro c hc; subst hc
    simp only [proto, Bool.and_eq_true] at hp; exact hp.1
  have := Inv_step s op hi hok
  refine ⟨hok, this.1, ?_⟩
  rw [this.2.2]
  cases op with
  | w o => exact hp
  | ctl c => simp only [proto, Bool.and_eq_true] at hp; exact hp.2

theorem always_step (s : S1) (c : Ctl) (hi : Inv s) (hr : s.log.rule = .always)
    (hc : ctlOk s.status c = true) :
    (s.send c).1.recs = s.recs ++ (if isRun s.status c then [curRec s.world (actLog s c)] else []) := by
  rw [(send_recs s c hi hc).1]
  split
  · rename_i hrun
    obtain ⟨f1, f2, f3, f4, f5, _⟩ := actLog_facts s c hi hc hrun
    rw [act_always s.world _ (f4.trans hr) f1 f2 f3]
    simp only [recs_logged, f5]
  · simp

theorem always_exec (s : S1) (h : List Op) (hi : Inv s) (hr : s.log.rule = .always)
    (hp : proto s.status h = true) :
    (s.exec h).recs.length = s.recs.length + nRuns s.status h := by
  induction h generalizing s with
  | nil => simp [S1.exec, nRuns]
  | cons op rest ih =>
    obtain ⟨hok, hi', hp'⟩ := thread s op rest hi hp
    have hr' := (step_rule s op hi hok).1.trans hr
    have hst := (Inv_step s op hi hok).2.2
    simp only [S1.exec]
    rw [ih _ hi' hr' hp', hst]
    cases op with
    | w o => simp [nRuns, S1.step, S1.recs]
    | ctl c =>
      simp only [S1.step, always_step s c hi hr (hok c rfl), nRuns, List.length_append]
      split <;> simp <;> omega

theorem once_step (s : S1) (c : Ctl) (hi : Inv s) (hr : s.log.rule = .once)
    (hc : ctlOk s.status c = true) :
    (s.send c).1.recs =
      s.recs ++ (if isRun s.status c ∧ s.log.stamp = none then [curRec s.world (actLog s c)] else []) ∧
    (s.send c).1.log.stamp =
      (if isRun s.status c ∧ s.log.stamp = none then s.world.stamp else s.log.stamp) := by
  obtain ⟨h1, _, h3⟩ := send_recs s c hi hc
  rw [h1, h3]
  by_cases hrun : isRun s.status c = true
  · obtain ⟨f1, f2, f3, f4, f5, f6, _⟩ := actLog_facts s c hi hc hrun
    rw [act_once s.world _ (f4.trans hr) f1 f2 f3, f6]
    by_cases hs : s.log.stamp = none
    · simp only [hrun, hs, if_true, and_self, recs_logged, f5]
      refine ⟨?_, ?_⟩ <;> first | rfl | trivial
    · simp only [hrun, hs, if_false, and_false, List.append_nil, f5, f6, if_true]
      exact ⟨trivial, trivial⟩
  · simp [hrun]

theorem once_exec (s : S1) (h : List Op) (hi : Inv s) (hr : s.log.rule = .once)
    (hp : proto s.status h = true) (ht : timed s.world.stamp h = true) :
    (s.exec h).recs.length =
      s.recs.length + (if s.log.stamp = none ∧ 0 < nRuns s.status h then 1 else 0) := by
  induction h generalizing s with
  | nil => simp [S1.exec, nRuns]
  | cons op rest ih =>
    obtain ⟨hok, hi', hp'⟩ := thread s op rest hi hp
    have hr' := (step_rule s op hi hok).1.trans hr
    have hst := (Inv_step s op hi hok).2.2
    obtain ⟨t, t', hst0, hst1, _, ht'⟩ := timed_cons _ _ _ ht
    have hws := step_world_stamp s op hi hok
    rw [hst1] at hws
    simp only [S1.exec]
    rw [ih _ hi' hr' hp' (by rw [hws]; exact ht'), hst]
    cases op with
    | w o =>
      simp only [nRuns, S1.step, S1.recs]
      rfl
    | ctl c =>
      obtain ⟨q1, q2⟩ := once_step s c hi hr (hok c rfl)
      simp only [S1.step, q1, q2, nRuns, List.length_append]
      by_cases hrun : isRun s.status c = true
      · by_cases hs : s.log.stamp = none
        · simp [hrun, hs, hst0]
        · simp [hrun, hs]
      · simp [hrun]

/-! ## a freshly built logger -/

/-- a logger with one well-formed log that has not been started: runner at its first `yield`
(status STOPPED), nothing logged, file closed -/
structure Fresh (s : S1) : Prop where
  cfg : cfgOk s.log = true
  alive : s.alive = true
  status : s.status = .stopped
  stamp : s.log.stamp = none
  first : s.log.first = true
  closed : s.log.isOpen = false

theorem Fresh.inv {s : S1} (h : Fresh s) : Inv s :=
  ⟨h.alive, h.cfg, by rw [h.status]; simp [openSt], by
    rw [h.status, h.stamp]; simp [openSt]⟩

/-! ## the idealised logger follows the code as long as its decisions agree -/

/-- the ideal state on which a control runs the log -/
def Ideal.actOn (i : Ideal) : Ctl → Ideal
  | .start => { i with s := { i.s with log := startLog i.s } }
  | _ => i

theorem actOn_s (i : Ideal) (c : Ctl) :
    (i.actOn c).s = { i.s with log := actLog i.s c } := by
  cases c <;> rfl

/-- If the ideal run on `actOn` does to the files what the code's run does (same resulting
logger state, same outcome), then the whole control does. -/
theorem ideal_send_agree (i : Ideal) (c : Ctl) (hi : Inv i.s) (hc : ctlOk i.s.status c = true)
    (hag : isRun i.s.status c = true →
      ((i.actOn c).logRun).1.s = ((i.actOn c).s.logRun).1 ∧
      ((i.actOn c).logRun).2 = ((i.actOn c).s.logRun).2) :
    (i.send c).1.s = (i.s.send c).1 ∧
    (i.send c).1.logged = (if isRun i.s.status c then ((i.actOn c).logRun).1.logged else i.logged) ∧
    (i.send c).1.dirty = (if isRun i.s.status c then ((i.actOn c).logRun).1.dirty else i.dirty) ∧
    (i.send c).1.last = (if isRun i.s.status c then ((i.actOn c).logRun).1.last else i.last) := by
  have hna : (!i.s.alive) = false := by simp [hi.alive]
  cases c with
  | ready => simp [Ideal.send, S1.send, hna, isRun]
  | abort => simp [Ideal.send, S1.send, hna, isRun]
  | run =>
    have ho : openSt i.s.status = true := hc
    have h1 := (act_ok i.s.world i.s.log hi.cfg (hi.opened ho) (hi.prep (Or.inl ho))).1
    obtain ⟨a1, a2⟩ := hag rfl
    simp only [Ideal.actOn] at a1 a2
    have he : (i.s.logRun).2 = none := by simp only [S1.logRun]; exact h1
    rw [he] at a2
    simp only [Ideal.send, S1.send, hna, Bool.false_eq_true, if_false, isRun, if_true, Ideal.actOn]
    rcases hl : i.logRun with ⟨i1, e1⟩
    rw [hl] at a1 a2
    simp only at a1 a2
    subst a2
    rcases hs : i.s.logRun with ⟨s1, e⟩
    rw [hs] at a1 he
    simp only at a1 he
    subst he
    simp [a1]
  | start =>
    obtain ⟨f1, f2, f3, f4⟩ := startLog_facts i.s hi
    have h1 := (act_ok i.s.world (startLog i.s) f1 f2 f3).1
    obtain ⟨a1, a2⟩ := hag rfl
    simp only [Ideal.actOn] at a1 a2
    have he : (({ i.s with log := startLog i.s } : S1).logRun).2 = none := by
      simp only [S1.logRun]; exact h1
    rw [he] at a2
    simp only [Ideal.send, S1.send, hna, Bool.false_eq_true, if_false, isRun, if_true, Ideal.actOn, f4]
    rcases hl : ({ i with s := { i.s with log := startLog i.s } } : Ideal).logRun with ⟨i1, e1⟩
    rw [hl] at a1 a2
    simp only at a1 a2
    subst a2
    rcases hs : ({ i.s with log := startLog i.s } : S1).logRun with ⟨s1, e⟩
    rw [hs] at a1 he
    simp only at a1 he
    subst he
    simp [a1]
  | stop =>
    by_cases hst : i.s.status = .stopped
    · simp [Ideal.send, S1.send, hna, isRun, hst]
    · have ho : openSt i.s.status = true := by
        simp only [ctlOk, Bool.or_eq_true, beq_iff_eq] at hc
        rcases hc with h | h
        · exact h
        · exact absurd h hst
      have hrun : isRun i.s.status .stop = true := by simp [isRun, hst]
      have h1 := (act_ok i.s.world i.s.log hi.cfg (hi.opened ho) (hi.prep (Or.inl ho))).1
      obtain ⟨a1, a2⟩ := hag hrun
      simp only [Ideal.actOn] at a1 a2
      have he : (i.s.logRun).2 = none := by simp only [S1.logRun]; exact h1
      rw [he] at a2
      simp only [Ideal.send, S1.send, hna, Bool.false_eq_true, if_false, hrun, if_true, Ideal.actOn, hst]
      rcases hl : i.logRun with ⟨i1, e1⟩
      rw [hl] at a1 a2
      simp only at a1 a2
      subst a2
      rcases hs : i.s.logRun with ⟨s1, e⟩
      rw [hs] at a1 he
      simp only at a1 he
      subst he
      simp [a1]

/-! ## update rule: the stamp comparison implements the dirty flag (outside the D12 region) -/

theorem anyNewer_false_of_le (w : World) (t : Int) (lg : Dict Nat)
    (h : ∀ sid σ, (w.shares sid).stamp = some σ → σ ≤ t) : anyNewer w t lg = false := by
  unfold anyNewer
  rw [List.any_eq_false]
  intro p _
  obtain ⟨tag, sid⟩ := p
  simp only []
  cases hs : (w.shares sid).stamp with
  | none => simp
  | some σ =>
    have := h sid σ hs
    simp only [gt_iff_lt, decide_eq_true_eq]
    omega

theorem anyNewer_congr (w w' : World) (ls : Int) (lg : Dict Nat)
    (h : ∀ p ∈ lg, (w'.shares p.2).stamp = (w.shares p.2).stamp) : anyNewer w' ls lg = anyNewer w ls lg := by
  unfold anyNewer
  induction lg with
  | nil => rfl
  | cons p rest ih =>
    simp only [List.any_cons]
    rw [h p (by simp), ih (fun q hq => h q (by simp [hq]))]

theorem anyNewer_true_of (w : World) (ls : Int) (lg : Dict Nat) (sid : Nat) (σ : Int)
    (hm : lg.any (·.2 == sid) = true) (hs : (w.shares sid).stamp = some σ) (hgt : ls < σ) :
    anyNewer w ls lg = true := by
  unfold anyNewer
  rw [List.any_eq_true] at hm ⊢
  obtain ⟨p, hp, hq⟩ := hm
  refine ⟨p, hp, ?_⟩
  obtain ⟨tag, sid'⟩ := p
  have : sid' = sid := by simpa using hq
  subst this
  simp only [hs]
  simpa using hgt

structure InvU (i : Ideal) : Prop where
  logged : i.logged = true ↔ i.s.log.stamp ≠ none
  now : ∃ t, i.s.world.stamp = some t ∧ (∀ sid σ, (i.s.world.shares sid).stamp = some σ → σ ≤ t) ∧
          (∀ ls, i.s.log.stamp = some ls → ls ≤ t)
  dirty : ∀ ls, i.s.log.stamp = some ls →
          (i.dirty = true ↔ anyNewer i.s.world ls i.s.log.loggees = true)

theorem setShare_same (w : World) (i : Nat) (sh : Share) : (w.setShare i sh).shares i = sh := by
  simp [World.setShare]

theorem setShare_other (w : World) (i j : Nat) (sh : Share) (h : j ≠ i) :
    (w.setShare i sh).shares j = w.shares j := by
  simp [World.setShare, h]

theorem appendTo_share_stamp (w : World) (sid : Nat) (f : String) (a : Elem) (j : Nat) :
    ((w.appendTo sid f a).shares j).stamp = (w.shares j).stamp := by
  simp only [World.appendTo]
  split
  · by_cases h : j = sid
    · subst h; simp [setShare_same]
    · simp [setShare_other _ _ _ _ h]
  · rfl

theorem setitemTo_share_stamp (w : World) (sid : Nat) (f kk : String) (a : Atom) (j : Nat) :
    ((w.setitemTo sid f kk a).shares j).stamp = (w.shares j).stamp := by
  simp only [World.setitemTo]
  split
  · by_cases h : j = sid
    · subst h; simp [setShare_same]
    · simp [setShare_other _ _ _ _ h]
  · rfl

/-- share stamps after a writer operation -/
theorem apply_share_stamp (w : World) (o : WOp) (j : Nat) :
    ((w.apply o).shares j).stamp =
      match o with
      | .write sid _ _ => if j = sid then w.stamp else (w.shares j).stamp
      | _ => (w.shares j).stamp := by
  cases o with
  | setStamp t => rfl
  | advance d => rfl
  | write sid f v =>
    simp only [World.apply, World.appendTo, World.setitemTo]
    by_cases h : j = sid
    · subst h; simp [setShare_same]
    · simp [setShare_other _ _ _ _ h, h]
  | poke sid f v =>
    simp only [World.apply, World.appendTo, World.setitemTo]
    by_cases h : j = sid
    · subst h; simp [setShare_same]
    · simp [setShare_other _ _ _ _ h]
  | append sid f a =>
    simp only [World.apply, World.appendTo, World.setitemTo]
    split
    · by_cases h : j = sid
      · subst h; simp [setShare_same]
      · simp [setShare_other _ _ _ _ h]
    · rfl
  | setitem sid f kk a =>
    simp only [World.apply, World.appendTo, World.setitemTo]
    split
    · by_cases h : j = sid
      · subst h; simp [setShare_same]
      · simp [setShare_other _ _ _ _ h]
    · rfl
  | push sid e =>
    simp only [World.apply, World.appendTo, World.setitemTo]
    by_cases h : j = sid
    · subst h; simp [setShare_same]
    · simp [setShare_other _ _ _ _ h]
  | hpush sid e =>
    simp only [World.apply, World.appendTo, World.setitemTo]
    by_cases h : j = sid
    · subst h; simp [setShare_same]
    · simp [setShare_other _ _ _ _ h]
  | hold s f => rw [(apply_hold_shares w s f).1]
  | happend i e =>
    rcases apply_happend_cases w i e with ⟨h, _, _, he⟩ | ⟨hs, _, _⟩
    · rw [he]; exact appendTo_share_stamp w _ _ e j
    · rw [hs]
  | hsetitem i k a =>
    rcases apply_hsetitem_cases w i k a with ⟨h, _, _, he⟩ | ⟨hs, _, _⟩
    · rw [he]; exact setitemTo_share_stamp w _ _ k a j
    · rw [hs]

/-- `lateWriteOp` for a single log -/
theorem lateWriteOp_single (s : S1) (op : Op) :
    lateWriteOp s.toSys op =
      match op with
      | .w (.write sid _ _) =>
        (s.log.rule = .update && s.log.stamp.isSome && s.log.stamp == s.world.stamp &&
          s.log.loggees.any (·.2 == sid))
      | _ => false := by
  cases op with
  | ctl c => rfl
  | w o => cases o <;> simp [lateWriteOp, S1.toSys]

theorem U_step_w (i : Ideal) (o : WOp) (hu : InvU i) (hr : i.s.log.rule = .update)
    (t' : Int) (ht : ∃ t, i.s.world.stamp = some t ∧ t ≤ t') (hst : opStamp i.s.world.stamp (.w o) = some t')
    (hl : lateWriteOp i.s.toSys (.w o) = false) :
    (i.step (.w o)).1.s = (i.s.step (.w o)).1 ∧ InvU (i.step (.w o)).1 := by
  refine ⟨rfl, ?_⟩
  obtain ⟨t, hwt, hle⟩ := ht
  obtain ⟨t0, hw0, hsh, hlg⟩ := hu.now
  have ht0 : t0 = t := by rw [hwt] at hw0; exact (Option.some.inj hw0).symm
  subst ht0
  have hstamp' : (i.s.world.apply o).stamp = some t' := by rw [apply_stamp]; exact hst
  have hshare' : ∀ sid σ, ((i.s.world.apply o).shares sid).stamp = some σ → σ ≤ t' := by
    intro sid σ h
    rw [apply_share_stamp] at h
    cases o with
    | write s2 f v =>
      simp only at h
      split at h
      · rw [hwt] at h
        have : t0 = σ := Option.some.inj h
        omega
      · have := hsh sid σ h; omega
    | setStamp x => have := hsh sid σ h; omega
    | advance d => have := hsh sid σ h; omega
    | poke s2 f v => have := hsh sid σ h; omega
    | append s2 f a => have := hsh sid σ h; omega
    | setitem s2 f kk a => have := hsh sid σ h; omega
    | push s2 e => have := hsh sid σ h; omega
    | hold s2 f2 => have := hsh sid σ h; omega
    | happend i2 e2 => have := hsh sid σ h; omega
    | hsetitem i2 k2 a2 => have := hsh sid σ h; omega
    | hpush s2 e => have := hsh sid σ h; omega
  refine ⟨hu.logged, ⟨t', hstamp', hshare', fun ls h => by have := hlg ls h; omega⟩, ?_⟩
  intro ls hls0
  have hls : i.s.log.stamp = some ls := hls0
  show (i.dirty || touches i.s.log o) = true ↔ anyNewer (i.s.world.apply o) ls i.s.log.loggees = true
  have hd := hu.dirty ls hls
  have hlt := hlg ls hls
  by_cases htouch : touches i.s.log o = true
  · -- a stamped write to a loggee: not late, so the share's new stamp is newer than the log's
    cases o with
    | write sid f v =>
      simp only [touches] at htouch
      rw [lateWriteOp_single] at hl
      simp only [hr, hls, hwt, decide_true, Option.isSome_some, Bool.true_and, htouch, Bool.and_true,
        beq_eq_false_iff_ne, ne_eq, Option.some.injEq] at hl
      have hlt' : ls < t0 := by omega
      have htouch' : touches i.s.log (.write sid f v) = true := htouch
      have : anyNewer (i.s.world.apply (.write sid f v)) ls i.s.log.loggees = true := by
        apply anyNewer_true_of _ _ _ sid t0 htouch _ hlt'
        rw [apply_share_stamp]; simp [hwt]
      rw [this, htouch']
      simp
    | setStamp x => simp [touches] at htouch
    | advance d => simp [touches] at htouch
    | poke s2 f v => simp [touches] at htouch
    | append s2 f a => simp [touches] at htouch
    | setitem s2 f kk a => simp [touches] at htouch
    | push s2 e => simp [touches] at htouch
    | hold s2 f2 => simp [touches] at htouch
    | happend i2 e2 => simp [touches] at htouch
    | hsetitem i2 k2 a2 => simp [touches] at htouch
    | hpush s2 e => simp [touches] at htouch
  · have htf : touches i.s.log o = false := by simpa using htouch
    have : anyNewer (i.s.world.apply o) ls i.s.log.loggees = anyNewer i.s.world ls i.s.log.loggees := by
      apply anyNewer_congr
      intro p hp
      rw [apply_share_stamp]
      cases o with
      | write sid f v =>
        simp only [touches] at htf
        have : p.2 ≠ sid := by
          intro h
          rw [List.any_eq_false] at htf
          exact htf p hp (by simp [h])
        simp [this]
      | setStamp x => rfl
      | advance d => rfl
      | poke s2 f v => rfl
      | append s2 f a => rfl
      | setitem s2 f kk a => rfl
      | push s2 e => rfl
      | hold s2 f2 => rfl
      | happend i2 e2 => rfl
      | hsetitem i2 k2 a2 => rfl
      | hpush s2 e => rfl
    rw [this, htf, Bool.or_false]
    exact hd

/-- the ideal logger after it wrote a record -/
def Ideal.afterLog (j : Ideal) : Ideal :=
  { j with
    s := { j.s with log := j.s.log.logged j.s.world }
    logged := true
    dirty := false
    last := snapshot j.s.world j.s.log.loggees j.s.log.fields }

/-- one run of an update log: the ideal decision (`¬logged ∨ dirty`) is the code's
(`stamp is None` or some loggee stamp newer), and the invariant is re-established -/
theorem U_run (j : Ideal) (hu : InvU j) (hr : j.s.log.rule = .update) (hc : cfgOk j.s.log = true)
    (ho : j.s.log.isOpen = true) (hp : Prepared j.s.log) :
    (j.logRun).1.s = (j.s.logRun).1 ∧ (j.logRun).2 = (j.s.logRun).2 ∧ InvU (j.logRun).1 := by
  obtain ⟨t, hwt, hsh, hlg⟩ := hu.now
  have hcode := act_update j.s.world j.s.log hr hc ho hp
  have hlog := log_eq j.s.world j.s.log hc ho hp
  -- the state after writing a record
  have hafter : InvU (Ideal.afterLog j) := by
    unfold Ideal.afterLog
    refine ⟨by simp [Log.logged, hwt], ⟨t, hwt, hsh, ?_⟩, ?_⟩
    · intro ls h
      simp only [Log.logged, hwt] at h
      have : t = ls := Option.some.inj h
      omega
    · intro ls h
      simp only [Log.logged, hwt] at h
      have : t = ls := Option.some.inj h
      subst this
      simp only [Log.logged]
      rw [anyNewer_false_of_le _ _ _ hsh]
  cases hs : j.s.log.stamp with
  | none =>
    have hnl : j.logged = false := by
      cases h : j.logged with
      | false => rfl
      | true => exact absurd hs (hu.logged.1 h)
    have hw : j.wants = true := by simp [Ideal.wants, hr, hnl]
    simp only [Ideal.logRun, hr, hw, if_true, hlog, S1.logRun, hcode, hs]
    exact ⟨trivial, trivial, hafter⟩
  | some ls =>
    have hlg' : j.logged = true := hu.logged.2 (by rw [hs]; simp)
    have hd := hu.dirty ls hs
    by_cases hn : anyNewer j.s.world ls j.s.log.loggees = true
    · have hw : j.wants = true := by simp [Ideal.wants, hr, hd.2 hn]
      simp only [Ideal.logRun, hr, hw, if_true, hlog, S1.logRun, hcode, hs, hn]
      exact ⟨trivial, trivial, hafter⟩
    · have hdf : j.dirty = false := by
        cases h : j.dirty with
        | false => rfl
        | true => exact absurd (hd.1 h) hn
      have hw : j.wants = false := by simp [Ideal.wants, hr, hlg', hdf]
      simp only [Ideal.logRun, hr, hw, S1.logRun, hcode, hs, hn]
      exact ⟨rfl, rfl, hu⟩

theorem U_step (i : Ideal) (op : Op) (hi : Inv i.s) (hu : InvU i) (hr : i.s.log.rule = .update)
    (hok : ∀ c, op = .ctl c → ctlOk i.s.status c = true)
    (t' : Int) (ht : ∃ t, i.s.world.stamp = some t ∧ t ≤ t') (hst : opStamp i.s.world.stamp op = some t')
    (hl : lateWriteOp i.s.toSys op = false) :
    (i.step op).1.s = (i.s.step op).1 ∧ InvU (i.step op).1 := by
  cases op with
  | w o => exact U_step_w i o hu hr t' ht hst hl
  | ctl c =>
    have hc := hok c rfl
    simp only [Ideal.step, S1.step]
    by_cases hrun : isRun i.s.status c = true
    · obtain ⟨f1, f2, f3, f4, _, f6, f7⟩ := actLog_facts i.s c hi hc hrun
      have hj : InvU (i.actOn c) := by
        refine ⟨?_, ?_, ?_⟩
        · rw [actOn_s]; simp only [f6]
          cases c <;> exact hu.logged
        · rw [actOn_s]; simp only [f6]; exact hu.now
        · rw [actOn_s]; simp only [f6, f7]
          cases c <;> exact hu.dirty
      have hjr : (i.actOn c).s.log.rule = .update := by rw [actOn_s]; exact f4.trans hr
      obtain ⟨r1, r2, r3⟩ := U_run (i.actOn c) hj hjr (by rw [actOn_s]; exact f1)
        (by rw [actOn_s]; exact f2) (by rw [actOn_s]; exact f3)
      obtain ⟨a1, a2, a3, a4⟩ := ideal_send_agree i c hi hc (fun _ => ⟨r1, r2⟩)
      refine ⟨a1, ?_⟩
      -- the ideal state after the control differs from `(actOn).logRun` only in status / open flag
      have hS := send_recs i.s c hi hc
      have hshape := send_shape i.s c hi hc
      simp only [hrun, if_true] at a2 a3 a4
      obtain ⟨t, hwt, hsh, hlg⟩ := r3.now
      have hworld : (i.send c).1.s.world = ((i.actOn c).logRun).1.s.world := by
        rw [a1, r1, hS.2.1]; simp only [hrun, if_true, S1.logRun, actOn_s]
      have hstamp : (i.send c).1.s.log.stamp = ((i.actOn c).logRun).1.s.log.stamp := by
        rw [a1, r1, hS.2.2]; simp only [hrun, if_true, S1.logRun, actOn_s]
      have hlgs : (i.send c).1.s.log.loggees = ((i.actOn c).logRun).1.s.log.loggees := by
        rw [a1, r1]
        have h1 := (step_rule i.s (.ctl c) hi hok).2
        simp only [S1.step] at h1
        rw [h1]
        simp only [S1.logRun, actOn_s]
        rw [loggees_of_same (act_same _ _), f7]
      refine ⟨?_, ?_, ?_⟩
      · rw [a2, hstamp]; exact r3.logged
      · rw [hworld, hstamp]; exact r3.now
      · rw [hworld, hstamp, hlgs, a3]; exact r3.dirty
    · have hnr : isRun i.s.status c = false := by simpa using hrun
      obtain ⟨a1, a2, a3, a4⟩ := ideal_send_agree i c hi hc (fun h => absurd h hrun)
      refine ⟨a1, ?_⟩
      have hS := send_recs i.s c hi hc
      simp only [hnr, Bool.false_eq_true, if_false] at a2 a3 a4 hS
      have h1 := (step_rule i.s (.ctl c) hi hok).2
      simp only [S1.step] at h1
      refine ⟨?_, ?_, ?_⟩
      · rw [a2, a1, hS.2.2]; exact hu.logged
      · rw [a1, hS.2.1, hS.2.2]; exact hu.now
      · rw [a1, hS.2.1, hS.2.2, h1, a3]; exact hu.dirty

theorem U_exec (i : Ideal) (h : List Op) (hi : Inv i.s) (hu : InvU i) (hr : i.s.log.rule = .update)
    (hp : proto i.s.status h = true) (ht : timed i.s.world.stamp h = true)
    (hl : lateWrite i.s.toSys h = false) :
    (i.exec h).s = i.s.exec h := by
  induction h generalizing i with
  | nil => rfl
  | cons op rest ih =>
    obtain ⟨hok, hi', hp'⟩ := thread i.s op rest hi hp
    obtain ⟨t, t', hst0, hst1, hle, ht'⟩ := timed_cons _ _ _ ht
    simp only [lateWrite, Bool.or_eq_false_iff] at hl
    obtain ⟨q1, q2⟩ := U_step i op hi hu hr hok t' ⟨t, hst0, hle⟩ hst1 hl.1
    have hws := step_world_stamp i.s op hi hok
    rw [hst1] at hws
    simp only [Ideal.exec, S1.exec]
    rw [← q1] at hi' hp' hws
    rw [ih (i.step op).1 hi' q2 (by rw [q1]; exact (step_rule i.s op hi hok).1.trans hr) hp'
      (by rw [hws]; exact ht') (by have := hl.2; rw [toSys_step] at this; rw [q1]; exact this), q1]

/-- the ideal logger next to a fresh code state -/
def Ideal.ofS1 (s : S1) : Ideal := { s := s }

theorem InvU_fresh (s : S1) (hf : Fresh s)
    (hw : ∃ t, s.world.stamp = some t ∧ ∀ sid σ, (s.world.shares sid).stamp = some σ → σ ≤ t) :
    InvU (Ideal.ofS1 s) := by
  obtain ⟨t, h1, h2⟩ := hw
  refine ⟨by simp [Ideal.ofS1, hf.stamp], ⟨t, h1, h2, ?_⟩, ?_⟩
  · intro ls h; simp [Ideal.ofS1, hf.stamp] at h
  · intro ls h; simp [Ideal.ofS1, hf.stamp] at h

/-! ## Python equality is an equivalence on the modelled values -/

theorem Atom.pyEq_refl (a : Atom) : a.pyEq a = true := by
  cases a <;> simp [Atom.pyEq, Atom.num]

theorem Atom.pyEq_symm (a b : Atom) : a.pyEq b = b.pyEq a := by
  unfold Atom.pyEq
  cases ha : a.num <;> cases hb : b.num <;> simp only []
  · exact Bool.eq_iff_iff.2 ⟨fun h => by simp at h ⊢; exact h.symm, fun h => by simp at h ⊢; exact h.symm⟩
  · exact Bool.eq_iff_iff.2 ⟨fun h => by simp at h ⊢; exact h.symm, fun h => by simp at h ⊢; exact h.symm⟩

theorem Atom.pyEq_trans (a b c : Atom) (h1 : a.pyEq b = true) (h2 : b.pyEq c = true) : a.pyEq c = true := by
  unfold Atom.pyEq at *
  cases ha : a.num <;> cases hb : b.num <;> cases hc : c.num <;> simp_all

theorem pyEqList_refl (l : List Atom) : pyEqList l l = true := by
  induction l with
  | nil => rfl
  | cons a r ih => simp [pyEqList, Atom.pyEq_refl, ih]

theorem pyEqList_symm (l m : List Atom) : pyEqList l m = pyEqList m l := by
  induction l generalizing m with
  | nil => cases m <;> rfl
  | cons a r ih =>
    cases m with
    | nil => rfl
    | cons b t => simp [pyEqList, Atom.pyEq_symm a b, ih t]

theorem pyEqList_trans (l m n : List Atom) (h1 : pyEqList l m = true) (h2 : pyEqList m n = true) :
    pyEqList l n = true := by
  induction l generalizing m n with
  | nil =>
    cases m with
    | nil => exact h2
    | cons b t => simp [pyEqList] at h1
  | cons a r ih =>
    cases m with
    | nil => simp [pyEqList] at h1
    | cons b t =>
      cases n with
      | nil => simp [pyEqList] at h2
      | cons c u =>
        simp only [pyEqList, Bool.and_eq_true] at h1 h2 ⊢
        exact ⟨Atom.pyEq_trans a b c h1.1 h2.1, ih t u h1.2 h2.2⟩

theorem Elem.pyEq_refl (e : Elem) : e.pyEq e = true := by
  cases e <;> simp [Elem.pyEq, Atom.pyEq_refl, pyEqList_refl]

theorem Elem.pyEq_symm (a b : Elem) : a.pyEq b = b.pyEq a := by
  cases a <;> cases b <;> simp [Elem.pyEq, Atom.pyEq_symm, pyEqList_symm]

theorem Elem.pyEq_trans (a b c : Elem) (h1 : a.pyEq b = true) (h2 : b.pyEq c = true) : a.pyEq c = true := by
  cases a <;> cases b <;> cases c <;> simp [Elem.pyEq] at h1 h2 ⊢
  · exact Atom.pyEq_trans _ _ _ h1 h2
  · exact pyEqList_trans _ _ _ h1 h2
  · exact pyEqList_trans _ _ _ h1 h2

theorem pyEqElems_refl (l : List Elem) : pyEqElems l l = true := by
  induction l with
  | nil => rfl
  | cons a r ih => simp [pyEqElems, Elem.pyEq_refl, ih]

theorem pyEqElems_symm (l m : List Elem) : pyEqElems l m = pyEqElems m l := by
  induction l generalizing m with
  | nil => cases m <;> rfl
  | cons a r ih =>
    cases m with
    | nil => rfl
    | cons b t => simp [pyEqElems, Elem.pyEq_symm a b, ih t]

theorem pyEqElems_trans (l m n : List Elem) (h1 : pyEqElems l m = true) (h2 : pyEqElems m n = true) :
    pyEqElems l n = true := by
  induction l generalizing m n with
  | nil =>
    cases m with
    | nil => exact h2
    | cons b t => simp [pyEqElems] at h1
  | cons a r ih =>
    cases m with
    | nil => simp [pyEqElems] at h1
    | cons b t =>
      cases n with
      | nil => simp [pyEqElems] at h2
      | cons c u =>
        simp only [pyEqElems, Bool.and_eq_true] at h1 h2 ⊢
        exact ⟨Elem.pyEq_trans a b c h1.1 h2.1, ih t u h1.2 h2.2⟩

/-- `dictLe` spelled out: every key of `a` is bound in both, to equal values -/
theorem dictLe_iff (a b : Dict Atom) :
    dictLe a b = true ↔ ∀ k ∈ dkeys a, ∃ x y, dget a k = some x ∧ dget b k = some y ∧ x.pyEq y = true := by
  unfold dictLe
  rw [List.all_eq_true]
  constructor
  · intro h k hk
    have := h k hk
    split at this
    · rename_i x y hx hy; exact ⟨x, y, hx, hy, this⟩
    · cases this
  · intro h k hk
    obtain ⟨x, y, hx, hy, hxy⟩ := h k hk
    rw [hx, hy]; exact hxy

theorem dictLe_refl (a : Dict Atom) : dictLe a a = true := by
  rw [dictLe_iff]
  intro k hk
  have := (dget_ne_none_iff_mem a k).2 hk
  cases hx : dget a k with
  | none => exact absurd hx this
  | some x => exact ⟨x, x, rfl, rfl, Atom.pyEq_refl x⟩

theorem dictLe_trans (a b c : Dict Atom) (h1 : dictLe a b = true) (h2 : dictLe b c = true) :
    dictLe a c = true := by
  rw [dictLe_iff] at h1 h2 ⊢
  intro k hk
  obtain ⟨x, y, hx, hy, hxy⟩ := h1 k hk
  have hkb : k ∈ dkeys b := (dget_ne_none_iff_mem b k).1 (by rw [hy]; simp)
  obtain ⟨y', z, hy', hz, hyz⟩ := h2 k hkb
  rw [hy] at hy'; cases hy'
  exact ⟨x, z, hx, hz, Atom.pyEq_trans _ _ _ hxy hyz⟩

/-- with both inclusions the direction of the value comparison does not matter -/
theorem dictLe_flip (a b : Dict Atom) (h1 : dictLe a b = true) (h2 : dictLe b a = true) :
    pyEqDict b a = true := by
  simp [pyEqDict, h1, h2]

theorem pyEqDict_refl (a : Dict Atom) : pyEqDict a a = true := by simp [pyEqDict, dictLe_refl]

theorem pyEqDict_symm (a b : Dict Atom) : pyEqDict a b = pyEqDict b a := by
  simp [pyEqDict, Bool.and_comm]

theorem pyEqDict_trans (a b c : Dict Atom) (h1 : pyEqDict a b = true) (h2 : pyEqDict b c = true) :
    pyEqDict a c = true := by
  simp only [pyEqDict, Bool.and_eq_true] at h1 h2 ⊢
  exact ⟨dictLe_trans a b c h1.1 h2.1, dictLe_trans c b a h2.2 h1.2⟩

theorem Val.pyEq_refl (v : Val) : v.pyEq v = true := by
  cases v <;> simp [Val.pyEq, Atom.pyEq_refl, pyEqList_refl, pyEqElems_refl, pyEqDict_refl]

theorem Val.pyEq_symm (a b : Val) : a.pyEq b = b.pyEq a := by
  cases a <;> cases b <;> simp [Val.pyEq, Atom.pyEq_symm, pyEqList_symm, pyEqElems_symm, pyEqDict_symm]
  rename_i x l y m
  rw [pyEqElems_symm l m]
  cases x <;> cases y <;> rfl

theorem Val.pyEq_trans (a b c : Val) (h1 : a.pyEq b = true) (h2 : b.pyEq c = true) : a.pyEq c = true := by
  cases a <;> cases b <;> cases c <;> simp [Val.pyEq] at h1 h2 ⊢
  · exact Atom.pyEq_trans _ _ _ h1 h2
  · exact pyEqList_trans _ _ _ h1 h2
  · exact ⟨h1.1.trans h2.1, pyEqElems_trans _ _ _ h1.2 h2.2⟩
  · exact pyEqDict_trans _ _ _ h1 h2

theorem cellNe_self (a : Option Val) : cellNe a a = false := by
  cases a <;> simp [cellNe, Val.pyEq_refl]

theorem cellNe_symm (a b : Option Val) : cellNe a b = cellNe b a := by
  cases a <;> cases b <;> simp [cellNe, Val.pyEq_symm]

/-- comparing against equal cells gives the same answer -/
theorem cellNe_congr (x a b : Option Val) (h : cellNe a b = false) : cellNe x a = cellNe x b := by
  cases x <;> cases a <;> cases b <;> simp [cellNe] at h ⊢
  rename_i x a b
  cases h1 : x.pyEq a <;> cases h2 : x.pyEq b <;> simp
  · have := Val.pyEq_trans x b a h2 (by rw [Val.pyEq_symm]; exact h)
    rw [h1] at this; cases this
  · have := Val.pyEq_trans x a b h1 h
    rw [h2] at this; cases this

/-! ## change rule: selective update of `.lasts` = comparison with the values last logged -/

theorem changeFields_spec (data : Dict Val) (last : Dict Val) (fs : List String)
    (hk : ∀ f ∈ fs, dget last f ≠ none → dget data f ≠ none) :
    (changeFields data last fs).1 = fs.any (fun f => cellNe (dget data f) (dget last f)) ∧
    ∀ g, dget (changeFields data last fs).2 g =
      if g ∈ fs ∧ cellNe (dget data g) (dget last g) = true then dget data g else dget last g := by
  induction fs generalizing last with
  | nil => simp [changeFields]
  | cons f fs ih =>
    have hk' : ∀ f' ∈ fs, dget last f' ≠ none → dget data f' ≠ none :=
      fun f' h' => hk f' (List.mem_cons_of_mem _ h')
    -- the two ways the head can go
    have same : cellNe (dget data f) (dget last f) = false →
        (changeFields data last fs).1 = fs.any (fun f => cellNe (dget data f) (dget last f)) →
        (∀ g, dget (changeFields data last fs).2 g =
          if g ∈ fs ∧ cellNe (dget data g) (dget last g) = true then dget data g else dget last g) →
        (changeFields data last fs).1 =
            (f :: fs).any (fun f => cellNe (dget data f) (dget last f)) ∧
        ∀ g, dget (changeFields data last fs).2 g =
          if g ∈ f :: fs ∧ cellNe (dget data g) (dget last g) = true then dget data g else dget last g := by
      intro hne h1 h2
      refine ⟨by simp [List.any_cons, hne, h1], ?_⟩
      intro g
      rw [h2 g]
      by_cases hg : g = f
      · subst hg; simp [hne]
      · simp [hg]
    have upd : ∀ v, dget data f = some v → cellNe (dget data f) (dget last f) = true →
        (true = (f :: fs).any (fun f => cellNe (dget data f) (dget last f))) ∧
        ∀ g, dget (changeFields data (dset last f v) fs).2 g =
          if g ∈ f :: fs ∧ cellNe (dget data g) (dget last g) = true then dget data g else dget last g := by
      intro v hv hne
      refine ⟨by simp [List.any_cons, hne], ?_⟩
      intro g
      have hk1 : ∀ f' ∈ fs, dget (dset last f v) f' ≠ none → dget data f' ≠ none := by
        intro f' h' hn
        rw [dget_dset] at hn
        by_cases hf' : f' = f
        · subst hf'; rw [hv]; simp
        · simp only [hf', if_false] at hn; exact hk' f' h' hn
      rw [(ih (dset last f v) hk1).2 g, dget_dset]
      by_cases hg : g = f
      · subst hg
        rw [hv] at hne
        simp only [hv, if_true, cellNe_self, Bool.false_eq_true, and_false, if_false, List.mem_cons,
          true_or, hne, and_self]
      · simp [hg]
    unfold changeFields
    cases hl : dget last f with
    | none =>
      cases hd : dget data f with
      | none =>
        have := ih last hk'
        exact same (by simp [hl, hd, cellNe]) this.1 this.2
      | some v =>
        have := upd v hd (by simp [hl, hd, cellNe])
        simp only []
        exact ⟨this.1, this.2⟩
    | some lv =>
      cases hd : dget data f with
      | none =>
        exact absurd hd (hk f (by simp) (by rw [hl]; simp))
      | some v =>
        simp only []
        by_cases hpe : v.pyEq lv = true
        · simp only [hpe, if_true]
          have := ih last hk'
          exact same (by simp [hl, hd, cellNe, hpe]) this.1 this.2
        · have hpf : v.pyEq lv = false := by simpa using hpe
          simp only [hpf, Bool.false_eq_true, if_false]
          have := upd v hd (by simp [hl, hd, cellNe, hpf])
          exact ⟨this.1, this.2⟩

/-- `f` is a logged field of `tag` whose current cell differs from the one kept in `L` -/
def changedAtB (w : World) (lg : Dict Nat) (F : Dict (List String)) (L : Dict (Dict Val))
    (tag f : String) : Bool :=
  match dget F tag with
  | some fs => decide (f ∈ fs) && cellNe (curCell w lg tag f) (dgetD2 L tag f)
  | none => false

/-- the change flag as a plain double loop over the logged fields: `differs` against `.lasts` -/
abbrev anyChanged (w : World) (lg : Dict Nat) (L : Dict (Dict Val)) (F : Dict (List String)) : Bool :=
  differs w lg L F

theorem dgetD2_dset (L : Dict (Dict Val)) (tag : String) (m : Dict Val) (t f : String) :
    dgetD2 (dset L tag m) t f = if t = tag then dget m f else dgetD2 L t f := by
  unfold dgetD2
  rw [dget_dset]
  by_cases h : t = tag <;> simp [h]

theorem any_congr_mem {α : Type} (l : List α) (p q : α → Bool) (h : ∀ a ∈ l, p a = q a) :
    l.any p = l.any q := by
  induction l with
  | nil => rfl
  | cons a r ih =>
    simp only [List.any_cons]
    rw [h a (by simp), ih (fun b hb => h b (by simp [hb]))]

theorem dget_none_of_not_mem {α : Type} (d : Dict α) (k : String) (h : k ∉ dkeys d) : dget d k = none := by
  cases hd : dget d k with
  | none => rfl
  | some v => exact absurd ((dget_ne_none_iff_mem d k).1 (by rw [hd]; simp)) h

theorem changeTags_spec (w : World) (lg : Dict Nat) (F : Dict (List String)) (L : Dict (Dict Val))
    (hnd : (dkeys F).Nodup)
    (hL : ∀ t ∈ dkeys F, dget L t ≠ none ∧ dget lg t ≠ none)
    (hk : ∀ t f, t ∈ dkeys F → dgetD2 L t f ≠ none → curCell w lg t f ≠ none) :
    (changeTags w lg L F).2.2 = none ∧
    (changeTags w lg L F).1 = anyChanged w lg L F ∧
    ∀ t f, dgetD2 (changeTags w lg L F).2.1 t f =
      if changedAtB w lg F L t f then curCell w lg t f else dgetD2 L t f := by
  induction F generalizing L with
  | nil => simp [changeTags, anyChanged, differs, changedAtB, dget]
  | cons p rest ih =>
    obtain ⟨tag, fs⟩ := p
    have hnd' : (dkeys rest).Nodup := by simp [dkeys] at hnd ⊢; exact hnd.2
    have htag : tag ∉ dkeys rest := by simp [dkeys] at hnd ⊢; exact hnd.1
    obtain ⟨h1, h2⟩ := hL tag (by simp [dkeys])
    unfold changeTags
    cases hl : dget L tag with
    | none => exact absurd hl h1
    | some last =>
      cases hg : dget lg tag with
      | none => exact absurd hg h2
      | some sid =>
        simp only []
        have hcur : ∀ f, curCell w lg tag f = dget (w.shares sid).data f := by
          intro f; simp [curCell, hg]
        have hLt : ∀ f, dgetD2 L tag f = dget last f := by intro f; simp [dgetD2, hl]
        have hkf : ∀ f ∈ fs, dget last f ≠ none → dget (w.shares sid).data f ≠ none := by
          intro f _ hn
          rw [← hcur]; exact hk tag f (by simp [dkeys]) (by rw [hLt]; exact hn)
        obtain ⟨c1, c2⟩ := changeFields_spec (w.shares sid).data last fs hkf
        -- the rest of the loop sees the updated lasts only at other tags
        have hother : ∀ t ∈ dkeys rest, ∀ f,
            dgetD2 (dset L tag (changeFields (w.shares sid).data last fs).2) t f = dgetD2 L t f := by
          intro t ht f
          rw [dgetD2_dset]
          have : t ≠ tag := fun h => htag (h ▸ ht)
          simp [this]
        obtain ⟨i1, i2, i3⟩ := ih (dset L tag (changeFields (w.shares sid).data last fs).2) hnd'
          (by
            intro t ht
            have := hL t (by simp [dkeys] at ht ⊢; exact Or.inr ht)
            refine ⟨?_, this.2⟩
            rw [dget_dset]; split <;> simp [this.1])
          (by
            intro t f ht hn
            rw [hother t ht f] at hn
            exact hk t f (by simp [dkeys] at ht ⊢; exact Or.inr ht) hn)
        refine ⟨i1, ?_, ?_⟩
        · rw [i2, c1]
          simp only [anyChanged, differs, List.any_cons]
          congr 1
          · apply any_congr_mem
            intro f _
            rw [hcur, hLt]
          · apply any_congr_mem
            intro q hq
            obtain ⟨t, fs'⟩ := q
            have ht : t ∈ dkeys rest := by simp [dkeys]; exact ⟨fs', hq⟩
            apply any_congr_mem
            intro f _
            rw [hother t ht f]
        · intro t f
          rw [i3 t f]
          by_cases ht : t = tag
          · subst ht
            have hr : dget rest t = none := dget_none_of_not_mem _ _ htag
            simp only [changedAtB, hr, dget, if_true, Bool.false_eq_true, if_false]
            rw [dgetD2_dset]
            simp only [if_true, c2 f, hcur, hLt]
            by_cases hm : f ∈ fs <;> simp [hm]
          · have hd : dget ((tag, fs) :: rest) t = dget rest t := by
              simp [dget, Ne.symm ht]
            have e : dgetD2 (dset L tag (changeFields (w.shares sid).data last fs).2) t f = dgetD2 L t f := by
              rw [dgetD2_dset]; simp [ht]
            simp only [changedAtB, hd, e]

theorem snapTag_get (data : Dict Val) (fs : List String) (f : String) :
    dget (snapTag data fs) f = if f ∈ fs then dget data f else none := by
  induction fs with
  | nil => simp [snapTag, dget]
  | cons g rest ih =>
    unfold snapTag
    cases hd : dget data g with
    | none =>
      simp only [ih]
      by_cases hg : f = g
      · subst hg; simp [hd]
      · simp [hg]
    | some v =>
      simp only [dget_dset, ih]
      by_cases hg : f = g
      · subst hg; simp [hd]
      · simp [hg]

theorem lastsOf_eq_snapTag (data : Dict Val) (fs : List String) : lastsOf data fs = snapTag data fs := by
  induction fs with
  | nil => rfl
  | cons g rest ih => unfold lastsOf snapTag; rw [ih]

/-- what a record written now shows for field `f` of `tag` -/
def shown (w : World) (lg : Dict Nat) (F : Dict (List String)) (tag f : String) : Option Val :=
  match dget F tag with
  | some fs => if f ∈ fs then curCell w lg tag f else none
  | none => none

theorem snapshot_get (w : World) (lg : Dict Nat) (F : Dict (List String)) (tag f : String) :
    dgetD2 (snapshot w lg F) tag f = shown w lg F tag f := by
  induction F with
  | nil => simp [snapshot, dgetD2, dget, shown]
  | cons p rest ih =>
    obtain ⟨t, fs⟩ := p
    unfold snapshot
    by_cases ht : t = tag
    · subst ht
      cases hg : dget lg t with
      | none =>
        simp only [ih, shown, dget, if_true, curCell, hg]
        have : dget rest t = none ∨ True := Or.inr trivial
        cases hr : dget rest t with
        | none => simp
        | some fs' => simp
      | some sid =>
        simp only [dgetD2_dset, if_true, snapTag_get, shown, dget, curCell, hg]
    · have hne : tag ≠ t := fun h => ht h.symm
      cases hg : dget lg t with
      | none => simp only [ih, shown, dget, ht, if_false]
      | some sid =>
        simp only [dgetD2_dset, hne, if_false, ih, shown, dget, ht]

theorem buildLasts_get (w : World) (lg : Dict Nat) (F : Dict (List String))
    (h : ∀ t ∈ dkeys F, dget lg t ≠ none) (tag f : String) :
    dgetD2 (buildLasts w lg F).1 tag f = shown w lg F tag f := by
  induction F with
  | nil => simp [buildLasts, dgetD2, dget, shown]
  | cons p rest ih =>
    obtain ⟨t, fs⟩ := p
    have h1 := h t (by simp [dkeys])
    have h2 : ∀ t' ∈ dkeys rest, dget lg t' ≠ none :=
      fun t' ht => h t' (by simp [dkeys] at ht ⊢; exact Or.inr ht)
    unfold buildLasts
    cases hg : dget lg t with
    | none => exact absurd hg h1
    | some sid =>
      rcases hb : buildLasts w lg rest with ⟨ls, e⟩
      have ih' := ih h2
      rw [hb] at ih'
      simp only at ih' ⊢
      rw [dgetD2_dset]
      by_cases ht : tag = t
      · subst ht
        simp only [if_true, lastsOf_eq_snapTag, snapTag_get, shown, dget, curCell, hg]
      · have hne : t ≠ tag := fun h => ht h.symm
        simp only [ht, if_false, ih', shown, dget, hne]

theorem defaultFields_keep (w : World) (lg : Dict Nat) (F : Dict (List String)) (tag f : String)
    (fs : List String) (h : dget F tag = some (f :: fs)) :
    dget (defaultFields w lg F) tag = some (f :: fs) := by
  induction lg generalizing F with
  | nil => exact h
  | cons q lrest ih =>
    obtain ⟨t2, s2⟩ := q
    unfold defaultFields
    split
    · exact ih _ h
    · apply ih
      rw [dget_dset]
      split
      · rename_i hnone heq
        subst heq
        exact absurd h (hnone f fs)
      · exact h

theorem apply_keeps_field (w : World) (o : WOp) (sid : Nat) (f : String)
    (h : dget (w.shares sid).data f ≠ none) : dget ((w.apply o).shares sid).data f ≠ none := by
  have hset : ∀ (d : Dict Val) (k : String) (v : Val), dget d f ≠ none → dget (dset d k v) f ≠ none := by
    intro d k v hd; rw [dget_dset]; split <;> simp [hd]
  have happ : ∀ s2 k a, dget ((w.appendTo s2 k a).shares sid).data f ≠ none := by
    intro s2 k a
    simp only [World.appendTo]
    split
    · by_cases hs : sid = s2
      · subst hs; rw [setShare_same]; exact hset _ _ _ h
      · rw [setShare_other _ _ _ _ hs]; exact h
    · exact h
  have hsetit : ∀ s2 k kk a, dget ((w.setitemTo s2 k kk a).shares sid).data f ≠ none := by
    intro s2 k kk a
    simp only [World.setitemTo]
    split
    · by_cases hs : sid = s2
      · subst hs; rw [setShare_same]; exact hset _ _ _ h
      · rw [setShare_other _ _ _ _ hs]; exact h
    · exact h
  cases o with
  | setStamp t => exact h
  | advance d => exact h
  | hold s2 f2 => rw [(apply_hold_shares w s2 f2).1]; exact h
  | happend i e =>
    rcases apply_happend_cases w i e with ⟨h', _, _, he⟩ | ⟨hs, _, _⟩
    · rw [he]; exact happ _ _ _
    · rw [hs]; exact h
  | hsetitem i k a =>
    rcases apply_hsetitem_cases w i k a with ⟨h', _, _, he⟩ | ⟨hs, _, _⟩
    · rw [he]; exact hsetit _ _ _ _
    · rw [hs]; exact h
  | hpush s2 e =>
    simp only [World.apply]
    by_cases hs : sid = s2
    · subst hs; rw [setShare_same]; exact h
    · rw [setShare_other _ _ _ _ hs]; exact h
  | write s2 k v =>
    simp only [World.apply, World.appendTo, World.setitemTo]
    by_cases hs : sid = s2
    · subst hs; rw [setShare_same]; exact hset _ _ _ h
    · rw [setShare_other _ _ _ _ hs]; exact h
  | poke s2 k v =>
    simp only [World.apply, World.appendTo, World.setitemTo]
    by_cases hs : sid = s2
    · subst hs; rw [setShare_same]; exact hset _ _ _ h
    · rw [setShare_other _ _ _ _ hs]; exact h
  | append s2 k a =>
    simp only [World.apply, World.appendTo, World.setitemTo]
    split
    · by_cases hs : sid = s2
      · subst hs; rw [setShare_same]; exact hset _ _ _ h
      · rw [setShare_other _ _ _ _ hs]; exact h
    · exact h
  | setitem s2 k kk a =>
    simp only [World.apply, World.appendTo, World.setitemTo]
    split
    · by_cases hs : sid = s2
      · subst hs; rw [setShare_same]; exact hset _ _ _ h
      · rw [setShare_other _ _ _ _ hs]; exact h
    · exact h
  | push s2 e =>
    simp only [World.apply, World.appendTo, World.setitemTo]
    by_cases hs : sid = s2
    · subst hs; rw [setShare_same]; exact h
    · rw [setShare_other _ _ _ _ hs]; exact h

/-! ## the ideal logger's own steps (update / change rules), from the facts it needs -/

theorem log_eq_fmt (w : World) (l : Log) (hc : cfgOk l = true) (ho : l.isOpen = true)
    (ht : l.timeFmt = true) (hf : l.formats = l.fields) : l.log w = (l.logged w, none) :=
  log_ok w l ho ht (by
    intro tag htag
    rw [hf, dget_ne_none_iff_mem, cfgOk_keys hc]; exact htag)

/-- one run of the ideal update / change log -/
def Ideal.run1 (j : Ideal) : Ideal := if j.wants then j.afterLog else j

theorem ideal_logRun_eq (j : Ideal) (hr : j.s.log.rule = .update ∨ j.s.log.rule = .change)
    (hc : cfgOk j.s.log = true) (ho : j.s.log.isOpen = true) (ht : j.s.log.timeFmt = true)
    (hf : j.s.log.formats = j.s.log.fields) : j.logRun = (j.run1, none) := by
  unfold Ideal.logRun Ideal.run1
  rcases hr with hr | hr <;> simp only [hr] <;> split <;>
    simp [log_eq_fmt j.s.world j.s.log hc ho ht hf, Ideal.afterLog]

/-- facts about the files that the ideal logger's steps rely on (no `.lasts` involved) -/
structure InvF (s : S1) : Prop where
  alive : s.alive = true
  cfg : cfgOk s.log = true
  opened : openSt s.status = true → s.log.isOpen = true ∧ s.log.timeFmt = true ∧ s.log.formats = s.log.fields

theorem Inv.toF {s : S1} (h : Inv s) : InvF s :=
  ⟨h.alive, h.cfg, fun ho => ⟨h.opened ho, (h.prep (Or.inl ho)).time, (h.prep (Or.inl ho)).fmts⟩⟩

theorem startLog_factsF (s : S1) (hi : InvF s) :
    cfgOk (startLog s) = true ∧ (startLog s).isOpen = true ∧ (startLog s).timeFmt = true ∧
    (startLog s).formats = (startLog s).fields ∧ s.log.reopen.prepare s.world = (startLog s, none) := by
  have hro := reopen_open s.log
  have hrc : cfgOk s.log.reopen = true := by rw [reopen_cfg]; exact hi.cfg
  have hpe := prepare_eq s.world s.log.reopen hrc hro
  refine ⟨prepare_cfg s.world s.log.reopen hrc hro, ?_, ?_, ?_, ?_⟩
  · unfold startLog; rw [hpe]; exact hro
  · unfold startLog; rw [hpe]
  · unfold startLog; rw [hpe]
  · unfold startLog; rw [hpe]

theorem ideal_send_shape (i : Ideal) (c : Ctl) (hi : InvF i.s)
    (hr : i.s.log.rule = .update ∨ i.s.log.rule = .change) (hc : ctlOk i.s.status c = true) :
    (i.send c).1 =
      match c with
      | .run => { i.run1 with s := { i.run1.s with status := .running } }
      | .ready => { i with s := { i.s with status := .readied } }
      | .start =>
        let j : Ideal := ({ i with s := { i.s with log := startLog i.s } } : Ideal).run1
        { j with s := { j.s with status := .started } }
      | .stop =>
        if i.s.status = .stopped then i
        else { i.run1 with s := { i.run1.s with log := i.run1.s.log.close, status := .stopped } }
      | .abort => { i with s := { i.s with log := i.s.log.close, status := .aborted } } := by
  have hna : (!i.s.alive) = false := by simp [hi.alive]
  cases c with
  | ready => simp only [Ideal.send, hna, Bool.false_eq_true, if_false]
  | abort => simp only [Ideal.send, hna, Bool.false_eq_true, if_false]
  | run =>
    have ho : openSt i.s.status = true := hc
    obtain ⟨o1, o2, o3⟩ := hi.opened ho
    simp only [Ideal.send, hna, Bool.false_eq_true, if_false, ideal_logRun_eq i hr hi.cfg o1 o2 o3]
  | start =>
    obtain ⟨f1, f2, f3, f4, f5⟩ := startLog_factsF i.s hi
    have hrs : (startLog i.s).rule = i.s.log.rule := by
      unfold startLog
      rw [prepare_eq i.s.world i.s.log.reopen (by rw [reopen_cfg]; exact hi.cfg) (reopen_open _)]
      exact (reopen_same i.s.log).2.2.2.2.2.1
    simp only [Ideal.send, hna, Bool.false_eq_true, if_false, f5]
    rw [ideal_logRun_eq ({ i with s := { i.s with log := startLog i.s } } : Ideal)
      (by simp only [hrs]; exact hr) f1 f2 f3 f4]
  | stop =>
    simp only [Ideal.send, hna, Bool.false_eq_true, if_false]
    by_cases hst : i.s.status = .stopped
    · simp only [hst, if_true]
    · have ho : openSt i.s.status = true := by
        simp only [ctlOk, Bool.or_eq_true, beq_iff_eq] at hc
        rcases hc with h | h
        · exact h
        · exact absurd h hst
      obtain ⟨o1, o2, o3⟩ := hi.opened ho
      simp only [hst, if_false, ideal_logRun_eq i hr hi.cfg o1 o2 o3]

/-! ## change rule: the code against the ideal logger -/

/-- `a` is `b` except for `.lasts` -/
def ButLasts (a b : Log) : Prop := ∃ ls, a = { b with lasts := ls }

theorem ButLasts.refl (a : Log) : ButLasts a a := ⟨a.lasts, rfl⟩

theorem ButLasts.logged {a b : Log} (h : ButLasts a b) (w : World) : ButLasts (a.logged w) (b.logged w) := by
  obtain ⟨ls, rfl⟩ := h; exact ⟨ls, rfl⟩

theorem ButLasts.close {a b : Log} (h : ButLasts a b) : ButLasts a.close b.close := by
  obtain ⟨ls, rfl⟩ := h; exact ⟨ls, rfl⟩

theorem ButLasts.setLasts {a b : Log} (h : ButLasts a b) (x : Dict (Dict Val)) :
    ButLasts a { b with lasts := x } := by
  obtain ⟨ls, rfl⟩ := h; exact ⟨ls, rfl⟩

theorem ButLasts.reopen {a b : Log} (h : ButLasts a b) : ButLasts a.reopen b.reopen := by
  obtain ⟨ls, rfl⟩ := h
  unfold Log.reopen
  simp only []
  split <;> exact ⟨ls, rfl⟩

theorem prepFields_butLasts {a b : Log} (h : ButLasts a b) (w : World) : prepFields w a = prepFields w b := by
  obtain ⟨ls, rfl⟩ := h; rfl

theorem ButLasts.prepare {a b : Log} (h : ButLasts a b) (w : World) (hc : cfgOk b = true)
    (ho : b.isOpen = true) : ButLasts (a.prepare w).1 (b.prepare w).1 := by
  have hpf := prepFields_butLasts h w
  obtain ⟨ls, rfl⟩ := h
  rw [prepare_eq w b hc ho, prepare_eq w _ (show cfgOk ({ b with lasts := ls } : Log) = true from hc) ho]
  simp only [hpf]
  exact ⟨_, rfl⟩

theorem ButLasts.facts {a b : Log} (h : ButLasts a b) :
    a.rule = b.rule ∧ a.loggees = b.loggees ∧ a.fields = b.fields ∧ a.formats = b.formats ∧
    a.timeFmt = b.timeFmt ∧ a.isOpen = b.isOpen ∧ a.stamp = b.stamp ∧ a.disk = b.disk ∧
    cfgOk a = cfgOk b := by
  obtain ⟨ls, rfl⟩ := h
  exact ⟨rfl, rfl, rfl, rfl, rfl, rfl, rfl, rfl, rfl⟩

theorem mem_of_dget {α : Type} (d : Dict α) (k : String) (v : α) (h : dget d k = some v) : (k, v) ∈ d := by
  induction d with
  | nil => simp [dget] at h
  | cons p rest ih =>
    obtain ⟨k0, x⟩ := p
    by_cases h0 : k0 = k
    · subst h0; simp [dget] at h; simp [h]
    · simp [dget, h0] at h; exact List.mem_cons_of_mem _ (ih h)

/-- against cells equal to the last record's, `differs` gives the same answer -/
theorem differs_congr (w : World) (lg : Dict Nat) (L J : Dict (Dict Val)) (F : Dict (List String))
    (h : ∀ tag f, cellNe (dgetD2 L tag f) (dgetD2 J tag f) = false) :
    differs w lg L F = differs w lg J F := by
  unfold differs
  apply any_congr_mem
  intro p _
  obtain ⟨tag, fs⟩ := p
  apply any_congr_mem
  intro f _
  exact cellNe_congr _ _ _ (h tag f)

theorem changedAtB_false_of_not_differs (w : World) (lg : Dict Nat) (L : Dict (Dict Val))
    (F : Dict (List String)) (h : differs w lg L F = false) (tag f : String) :
    changedAtB w lg F L tag f = false := by
  unfold changedAtB
  cases hF : dget F tag with
  | none => rfl
  | some fs =>
    simp only []
    by_cases hm : f ∈ fs
    · have := mem_of_dget F tag fs hF
      unfold differs at h
      rw [List.any_eq_false] at h
      have h1 := h (tag, fs) this
      simp only [Bool.not_eq_true] at h1
      rw [List.any_eq_false] at h1
      have h2 := h1 f hm
      simp [hm, h2]
    · simp [hm]

/-- ghost invariant of the change rule: `.lasts` agrees (up to Python `==`) with the values in the
last record (`J`), holds only logged fields, and only fields the shares still have -/
structure GhostC (lc : Log) (w : World) (logged : Bool) (J : Dict (Dict Val)) : Prop where
  logged : logged = true ↔ lc.stamp ≠ none
  g2 : lc.stamp ≠ none → ∀ tag f, cellNe (dgetD2 lc.lasts tag f) (dgetD2 J tag f) = false
  g3 : ∀ tag f, dgetD2 lc.lasts tag f ≠ none → ∃ fs, dget lc.fields tag = some fs ∧ f ∈ fs
  g4 : ∀ tag f, dgetD2 lc.lasts tag f ≠ none → curCell w lc.loggees tag f ≠ none

theorem shown_ne_none {w : World} {lg : Dict Nat} {F : Dict (List String)} {tag f : String}
    (h : shown w lg F tag f ≠ none) :
    (∃ fs, dget F tag = some fs ∧ f ∈ fs) ∧ curCell w lg tag f ≠ none := by
  unfold shown at h
  cases hF : dget F tag with
  | none => simp [hF] at h
  | some fs =>
    simp only [hF] at h
    by_cases hm : f ∈ fs
    · simp only [hm, if_true] at h
      exact ⟨⟨fs, rfl, hm⟩, h⟩
    · simp [hm] at h

theorem C_run (j : Ideal) (lc : Log) (w : World) (hjw : j.s.world = w)
    (hb : ButLasts j.s.log lc) (hr : lc.rule = .change)
    (hc : cfgOk lc = true) (ho : lc.isOpen = true) (hp : Prepared lc)
    (hnd : (dkeys lc.loggees).Nodup) (hw : ∃ t, w.stamp = some t)
    (hg : GhostC lc w j.logged j.last)
    (p0 : lc.stamp = none → ∀ tag f, dgetD2 lc.lasts tag f = shown w lc.loggees lc.fields tag f) :
    (lc.act w).1 = w ∧ (lc.act w).2.2 = none ∧
    ButLasts j.run1.s.log (lc.act w).2.1 ∧
    j.run1.s.world = w ∧ j.run1.s.status = j.s.status ∧ j.run1.s.alive = j.s.alive ∧
    GhostC (lc.act w).2.1 w j.run1.logged j.run1.last ∧
    (lc.act w).2.1.stamp ≠ none := by
  subst hjw
  obtain ⟨t, hwt⟩ := hw
  obtain ⟨e1, e2, e3, _, _, _, e7, _, _⟩ := hb.facts
  have hjr : j.s.log.rule = .change := e1.trans hr
  rw [act_change j.s.world lc hr hc ho hp]
  by_cases hs : lc.stamp = none
  · -- first record
    have hnl : j.logged = false := by
      cases h : j.logged with
      | false => rfl
      | true => exact absurd hs (hg.logged.1 h)
    have hwants : j.wants = true := by simp [Ideal.wants, hjr, hnl]
    simp only [hs, if_true, Ideal.run1, hwants, Ideal.afterLog]
    refine ⟨trivial, trivial, hb.logged _, trivial, trivial, trivial, ?_, by simp [Log.logged, hwt]⟩
    refine ⟨by simp [Log.logged, hwt], ?_, hg.g3, hg.g4⟩
    intro _ tag f
    show cellNe (dgetD2 lc.lasts tag f) (dgetD2 (snapshot j.s.world j.s.log.loggees j.s.log.fields) tag f) = false
    rw [e2, e3, snapshot_get, p0 hs tag f]
    exact cellNe_self _
  · -- later runs
    have hlg : j.logged = true := hg.logged.2 hs
    have hk : dkeys lc.fields = dkeys lc.loggees := cfgOk_keys hc
    obtain ⟨s1, s2, s3⟩ := changeTags_spec j.s.world lc.loggees lc.fields lc.lasts (by rw [hk]; exact hnd)
      (by
        intro tg htg
        exact ⟨hp.lasts hr tg htg, by rw [dget_ne_none_iff_mem, ← hk]; exact htg⟩)
      (by intro tg f _ hn; exact hg.g4 tg f hn)
    have hdec : j.wants = (changeTags j.s.world lc.loggees lc.lasts lc.fields).1 := by
      simp only [Ideal.wants, hjr, hlg, Bool.not_true, Bool.false_or]
      rw [s2, e2, e3]
      exact (differs_congr _ _ _ _ _ (hg.g2 hs)).symm
    simp only [hs, if_false]
    cases hch : (changeTags j.s.world lc.loggees lc.lasts lc.fields).1 with
    | true =>
      have hwants : j.wants = true := by rw [hdec, hch]
      simp only [if_true, Ideal.run1, hwants, Ideal.afterLog]
      refine ⟨trivial, trivial, (hb.setLasts _).logged _, trivial, trivial, trivial, ?_,
        by simp [Log.logged, hwt]⟩
      refine ⟨by simp [Log.logged, hwt], ?_, ?_, ?_⟩
      · intro _ tag f
        show cellNe (dgetD2 (changeTags j.s.world lc.loggees lc.lasts lc.fields).2.1 tag f)
          (dgetD2 (snapshot j.s.world j.s.log.loggees j.s.log.fields) tag f) = false
        rw [e2, e3, snapshot_get, s3 tag f]
        by_cases hcb : changedAtB j.s.world lc.loggees lc.fields lc.lasts tag f = true
        · simp only [hcb, if_true]
          unfold changedAtB at hcb
          cases hF : dget lc.fields tag with
          | none => simp [hF] at hcb
          | some fs =>
            simp only [hF, Bool.and_eq_true, decide_eq_true_eq] at hcb
            simp only [shown, hF, hcb.1, if_true]
            exact cellNe_self _
        · simp only [hcb]
          cases hF : dget lc.fields tag with
          | none =>
            have : dgetD2 lc.lasts tag f = none := by
              cases hd : dgetD2 lc.lasts tag f with
              | none => rfl
              | some v =>
                obtain ⟨fs, h1, _⟩ := hg.g3 tag f (by rw [hd]; simp)
                rw [hF] at h1; cases h1
            simp [shown, hF, this, cellNe]
          | some fs =>
            by_cases hm : f ∈ fs
            · have hne : cellNe (curCell j.s.world lc.loggees tag f) (dgetD2 lc.lasts tag f) = false := by
                simp only [changedAtB, hF, hm, decide_true, Bool.true_and, Bool.not_eq_true] at hcb
                exact hcb
              simp only [shown, hF, hm, if_true]
              rw [cellNe_symm]; exact hne
            · have : dgetD2 lc.lasts tag f = none := by
                cases hd : dgetD2 lc.lasts tag f with
                | none => rfl
                | some v =>
                  obtain ⟨fs', h1, h2⟩ := hg.g3 tag f (by rw [hd]; simp)
                  rw [hF] at h1
                  have := Option.some.inj h1
                  subst this
                  exact absurd h2 hm
              simp [shown, hF, hm, this, cellNe]
      · intro tag f hn
        show ∃ fs, dget lc.fields tag = some fs ∧ f ∈ fs
        have hn' : dgetD2 (changeTags j.s.world lc.loggees lc.lasts lc.fields).2.1 tag f ≠ none := hn
        rw [s3 tag f] at hn'
        by_cases hcb : changedAtB j.s.world lc.loggees lc.fields lc.lasts tag f = true
        · unfold changedAtB at hcb
          cases hF : dget lc.fields tag with
          | none => simp [hF] at hcb
          | some fs =>
            simp only [hF, Bool.and_eq_true, decide_eq_true_eq] at hcb
            exact ⟨fs, rfl, hcb.1⟩
        · simp only [hcb] at hn'
          exact hg.g3 tag f hn'
      · intro tag f hn
        show curCell j.s.world lc.loggees tag f ≠ none
        have hn' : dgetD2 (changeTags j.s.world lc.loggees lc.lasts lc.fields).2.1 tag f ≠ none := hn
        rw [s3 tag f] at hn'
        by_cases hcb : changedAtB j.s.world lc.loggees lc.fields lc.lasts tag f = true
        · simp only [hcb, if_true] at hn'; exact hn'
        · simp only [hcb] at hn'
          exact hg.g4 tag f hn'
    | false =>
      have hwants : j.wants = false := by rw [hdec, hch]
      have hsame : ∀ tag f, dgetD2 (changeTags j.s.world lc.loggees lc.lasts lc.fields).2.1 tag f =
          dgetD2 lc.lasts tag f := by
        intro tag f
        rw [s3 tag f, changedAtB_false_of_not_differs _ _ _ _ (s2.symm.trans hch)]
        simp
      simp only [Bool.false_eq_true, if_false, Ideal.run1, hwants]
      refine ⟨trivial, trivial, hb.setLasts _, trivial, trivial, trivial, ?_, hs⟩
      refine ⟨hg.logged, ?_, ?_, ?_⟩
      · intro h tag f
        show cellNe (dgetD2 (changeTags j.s.world lc.loggees lc.lasts lc.fields).2.1 tag f) _ = false
        rw [hsame]; exact hg.g2 hs tag f
      · intro tag f hn
        have hn' : dgetD2 (changeTags j.s.world lc.loggees lc.lasts lc.fields).2.1 tag f ≠ none := hn
        rw [hsame] at hn'
        exact hg.g3 tag f hn'
      · intro tag f hn
        have hn' : dgetD2 (changeTags j.s.world lc.loggees lc.lasts lc.fields).2.1 tag f ≠ none := hn
        rw [hsame] at hn'
        exact hg.g4 tag f hn'

theorem startLog_ghost (c : S1) (hi : Inv c) (hr : c.log.rule = .change) (lgd : Bool) (J : Dict (Dict Val))
    (hg : GhostC c.log c.world lgd J) :
    GhostC (startLog c) c.world lgd J ∧
    ((startLog c).stamp = none → ∀ tag f, dgetD2 (startLog c).lasts tag f =
        shown c.world (startLog c).loggees (startLog c).fields tag f) := by
  obtain ⟨r1, r2, r3, _, _, r6, r7⟩ := reopen_same c.log
  have hk := cfgOk_keys hi.cfg
  have hrk : dkeys c.log.reopen.fields = dkeys c.log.reopen.loggees := by rw [r3, r7]; exact hk
  have hpk := prepFields_keys c.world c.log.reopen hrk
  have hall : ∀ t ∈ dkeys (prepFields c.world c.log.reopen), dget c.log.reopen.loggees t ≠ none := by
    intro t ht; rw [hpk, hrk] at ht; exact (dget_ne_none_iff_mem _ _).2 ht
  have hbl := buildLasts_get c.world c.log.reopen.loggees (prepFields c.world c.log.reopen) hall
  have hpf : prepFields c.world c.log.reopen = defaultFields c.world c.log.loggees c.log.fields := by
    simp [prepFields, r6, hr, r7, r3]
  have hst : (startLog c).stamp = c.log.stamp := startLog_stamp c hi
  have hlasts : (startLog c).lasts = prepLasts c.world c.log.reopen := by rw [startLog_eq c hi]
  have hfields : (startLog c).fields = prepFields c.world c.log.reopen := by rw [startLog_eq c hi]
  have hlg : (startLog c).loggees = c.log.reopen.loggees := by rw [startLog_eq c hi]
  by_cases hre : c.log.reopen.rule = .change ∧ (c.log.reopen.stamp = none ∨ c.log.reopen.lasts.isEmpty = true)
  · -- `.lasts` rebuilt from the shares
    have hL : ∀ tag f, dgetD2 (startLog c).lasts tag f =
        shown c.world (startLog c).loggees (startLog c).fields tag f := by
      intro tag f
      rw [hlasts, hfields, hlg]
      simp only [prepLasts, hre, and_self, if_true]
      exact hbl tag f
    refine ⟨⟨by rw [hst]; exact hg.logged, ?_, ?_, ?_⟩, fun _ => hL⟩
    · intro hsn tag f
      rw [hst] at hsn
      -- already logged, so `.lasts` was empty: no logged tag at all
      have hemp : c.log.lasts = [] := by
        rcases hre.2 with h | h
        · rw [r1] at h; exact absurd h hsn
        · rw [r2] at h; simpa using h
      have hJ : dgetD2 J tag f = none := by
        have := hg.g2 hsn tag f
        rw [hemp] at this
        have h0 : dgetD2 ([] : Dict (Dict Val)) tag f = none := rfl
        rw [h0] at this
        cases hj : dgetD2 J tag f with
        | none => rfl
        | some v => rw [hj] at this; simp [cellNe] at this
      have hprep := hi.prep (Or.inr hsn)
      rw [hL tag f, hJ]
      unfold shown
      cases hF : dget (startLog c).fields tag with
      | none => rfl
      | some fs =>
        exfalso
        have hmem : tag ∈ dkeys c.log.fields := by
          have : tag ∈ dkeys (startLog c).fields := (dget_ne_none_iff_mem _ _).1 (by rw [hF]; simp)
          rw [hfields, hpk, r3] at this; exact this
        have := hprep.lasts hr tag hmem
        rw [hemp] at this
        simp [dget] at this
    · intro tag f hn
      rw [hL tag f] at hn
      exact (shown_ne_none hn).1
    · intro tag f hn
      rw [hL tag f] at hn
      exact (shown_ne_none hn).2
  · -- restart: `.lasts` kept
    have hkeep : (startLog c).lasts = c.log.lasts := by
      rw [hlasts]; simp only [prepLasts, hre, if_false]; exact r2
    have hsn : c.log.stamp ≠ none := by
      intro h; exact hre ⟨r6.trans hr, Or.inl (r1.trans h)⟩
    refine ⟨⟨by rw [hst]; exact hg.logged, ?_, ?_, ?_⟩, fun h => absurd (hst ▸ h) hsn⟩
    · intro _ tag f; rw [hkeep]; exact hg.g2 hsn tag f
    · intro tag f hn
      rw [hkeep] at hn
      obtain ⟨fs, h1, h2⟩ := hg.g3 tag f hn
      cases fs with
      | nil => simp at h2
      | cons x xs =>
        refine ⟨x :: xs, ?_, h2⟩
        rw [hfields, hpf]
        exact defaultFields_keep _ _ _ _ _ _ h1
    · intro tag f hn
      rw [hkeep] at hn
      rw [hlg, r7]
      exact hg.g4 tag f hn

/-- the code state `c` and the ideal logger `i` side by side (change rule) -/
structure RelC (c : S1) (i : Ideal) : Prop where
  world : i.s.world = c.world
  status : i.s.status = c.status
  alive : i.s.alive = c.alive
  log : ButLasts i.s.log c.log
  ghost : GhostC c.log c.world i.logged i.last
  started : openSt c.status = true → c.log.stamp ≠ none
  now : ∃ t, c.world.stamp = some t

theorem RelC.invF {c : S1} {i : Ideal} (h : RelC c i) (hi : Inv c) : InvF i.s := by
  obtain ⟨_, _, e3, e4, e5, e6, _, _, e9⟩ := h.log.facts
  refine ⟨by rw [h.alive]; exact hi.alive, by rw [e9]; exact hi.cfg, ?_⟩
  intro ho
  rw [h.status] at ho
  have hp := hi.prep (Or.inl ho)
  exact ⟨by rw [e6]; exact hi.opened ho, by rw [e5]; exact hp.time, by rw [e4, e3]; exact hp.fmts⟩

theorem GhostC.close {lc : Log} {w : World} {b : Bool} {J : Dict (Dict Val)} (h : GhostC lc w b J) :
    GhostC lc.close w b J := ⟨h.logged, h.g2, h.g3, h.g4⟩

theorem startLog_butLasts {c : S1} {i : Ideal} (h : RelC c i) (hi : Inv c) :
    ButLasts (startLog i.s) (startLog c) := by
  unfold startLog
  rw [h.world]
  exact h.log.reopen.prepare c.world (by rw [reopen_cfg]; exact hi.cfg) (reopen_open _)

theorem C_step (c : S1) (i : Ideal) (op : Op) (h : RelC c i) (hi : Inv c) (hr : c.log.rule = .change)
    (hnd : (dkeys c.log.loggees).Nodup)
    (hok : ∀ c', op = .ctl c' → ctlOk c.status c' = true)
    (hst : ∃ t', opStamp c.world.stamp op = some t') :
    RelC (c.step op).1 (i.step op).1 := by
  cases op with
  | w o =>
    obtain ⟨t', ht'⟩ := hst
    refine ⟨?_, h.status, h.alive, h.log, ⟨h.ghost.logged, h.ghost.g2, h.ghost.g3, ?_⟩, h.started,
      ⟨t', by rw [← ht']; exact apply_stamp c.world o⟩⟩
    · show i.s.world.apply o = c.world.apply o
      rw [h.world]
    · intro tag f hn
      have := h.ghost.g4 tag f hn
      show curCell (c.world.apply o) c.log.loggees tag f ≠ none
      unfold curCell at this ⊢
      cases hg : dget c.log.loggees tag with
      | none => simp [hg] at this
      | some sid =>
        simp only [hg] at this ⊢
        exact apply_keeps_field _ _ _ _ this
  | ctl c' =>
    have hc := hok c' rfl
    have hF := h.invF hi
    obtain ⟨e1, e2, e3, _, _, _, e7, _, _⟩ := h.log.facts
    have hci : ctlOk i.s.status c' = true := by rw [h.status]; exact hc
    simp only [S1.step, Ideal.step]
    rw [send_shape c c' hi hc, ideal_send_shape i c' hF (Or.inr (e1.trans hr)) hci]
    cases c' with
    | ready =>
      exact ⟨h.world, rfl, h.alive, h.log, h.ghost, by simp [openSt], h.now⟩
    | abort =>
      exact ⟨h.world, rfl, h.alive, h.log.close, h.ghost.close, by simp [openSt], h.now⟩
    | run =>
      have ho : openSt c.status = true := hc
      obtain ⟨q1, _, q3, q4, q5, q6, q7, q8⟩ := C_run i c.log c.world h.world h.log hr hi.cfg (hi.opened ho)
        (hi.prep (Or.inl ho)) hnd h.now h.ghost (fun hs => absurd hs (h.started ho))
      simp only []
      exact ⟨by rw [q1]; exact q4, rfl, q6.trans h.alive, q3, by rw [q1]; exact q7,
        fun _ => q8, by rw [q1]; exact h.now⟩
    | stop =>
      simp only []
      by_cases hs : c.status = .stopped
      · have hs' : i.s.status = .stopped := h.status.trans hs
        simp only [hs, hs', if_true]
        exact h
      · have hs' : i.s.status ≠ .stopped := fun e => hs (h.status.symm.trans e)
        have ho : openSt c.status = true := by
          simp only [ctlOk, Bool.or_eq_true, beq_iff_eq] at hc
          rcases hc with x | x
          · exact x
          · exact absurd x hs
        obtain ⟨q1, _, q3, q4, q5, q6, q7, q8⟩ := C_run i c.log c.world h.world h.log hr hi.cfg
          (hi.opened ho) (hi.prep (Or.inl ho)) hnd h.now h.ghost (fun hsn => absurd hsn (h.started ho))
        simp only [hs, hs', if_false]
        exact ⟨by rw [q1]; exact q4, rfl, q6.trans h.alive, q3.close, by rw [q1]; exact q7.close,
          by simp [openSt], by rw [q1]; exact h.now⟩
    | start =>
      obtain ⟨f1, f2, f3, _⟩ := startLog_facts c hi
      have hb := startLog_butLasts h hi
      obtain ⟨g1, g2⟩ := startLog_ghost c hi hr i.logged i.last h.ghost
      have hrs := (startLog_rule c hi).trans hr
      have hls := startLog_loggees c hi
      obtain ⟨q1, _, q3, q4, q5, q6, q7, q8⟩ :=
        C_run ({ i with s := { i.s with log := startLog i.s } } : Ideal) (startLog c) c.world h.world
          hb hrs f1 f2 f3 (by rw [hls]; exact hnd) h.now g1 g2
      simp only []
      exact ⟨by rw [q1]; exact q4, rfl, q6.trans h.alive, q3, by rw [q1]; exact q7,
        fun _ => q8, by rw [q1]; exact h.now⟩

theorem C_exec (c : S1) (i : Ideal) (h : List Op) (hrel : RelC c i) (hi : Inv c) (hr : c.log.rule = .change)
    (hnd : (dkeys c.log.loggees).Nodup) (hp : proto c.status h = true)
    (ht : timed c.world.stamp h = true) : RelC (c.exec h) (i.exec h) := by
  induction h generalizing c i with
  | nil => exact hrel
  | cons op rest ih =>
    obtain ⟨hok, hi', hp'⟩ := thread c op rest hi hp
    obtain ⟨t, t', hst0, hst1, _, ht'⟩ := timed_cons _ _ _ ht
    have hws := step_world_stamp c op hi hok
    rw [hst1] at hws
    have hsr := step_rule c op hi hok
    simp only [S1.exec, Ideal.exec]
    exact ih _ _ (C_step c i op hrel hi hr hnd hok ⟨t', hst1⟩) hi' (hsr.1.trans hr)
      (by rw [hsr.2]; exact hnd) hp' (by rw [hws]; exact ht')

theorem RelC_fresh (s : S1) (hf : Fresh s) (hl : s.log.lasts = []) (hw : ∃ t, s.world.stamp = some t) :
    RelC s (Ideal.ofS1 s) := by
  refine ⟨rfl, rfl, rfl, ButLasts.refl _, ⟨by simp [Ideal.ofS1, hf.stamp], ?_, ?_, ?_⟩, ?_, hw⟩
  · intro h; exact absurd hf.stamp h
  · intro tag f hn; rw [hl] at hn; exact absurd rfl hn
  · intro tag f hn; rw [hl] at hn; exact absurd rfl hn
  · rw [hf.status]; simp [openSt]

/-! ## streak and deck: exact effect of a run -/

theorem act_deck (w : World) (l : Log) (hr : l.rule = .deck) (ho : l.isOpen = true) (hp : Prepared l)
    (tag : String) (sid : Nat) (rest : Dict Nat) (fs : List String)
    (hl : l.loggees = (tag, sid) :: rest) (hf : dget l.fields tag = some fs) :
    l.act w =
      if (w.shares sid).deck = [] then (w, { l with stamp := w.stamp }, none)
      else (w.setShare sid { w.shares sid with deck := [] },
            { l with stamp := w.stamp,
                     disk := some (fileLines l.disk ++ (deckRecList w.stamp fs (w.shares sid).deck).map .record) },
            none) := by
  have hact : l.act w = l.logDeck w := by simp [Log.act, hr]
  have hfm : dget l.formats tag = some fs := by rw [hp.fmts]; exact hf
  rw [hact]
  unfold Log.logDeck
  simp only []
  split
  · rename_i hnil; rw [hl] at hnil; cases hnil
  · rename_i tag' sid' rest' hl'
    rw [hl] at hl'
    obtain ⟨h1, h2⟩ := List.cons.inj hl'
    obtain ⟨rfl, rfl⟩ := Prod.mk.inj h1
    split
    · rename_i hnone; rw [hf] at hnone; cases hnone
    · rename_i fs' hf'
      rw [hf] at hf'
      obtain rfl := Option.some.inj hf'
      split
      · rename_i hd; rw [if_pos hd]
      · rename_i d hd
        have hne : ¬ (w.shares sid).deck = [] := fun h => hd h
        simp only [if_neg hne, hfm]
        split
        · rw [write_open ({ l with stamp := w.stamp } : Log) _ ho]
          simp [deckRecs_eq]
        · rename_i hfalse
          exfalso
          apply hfalse
          rw [List.all_eq_true]
          intro x _
          cases x with
          | other a => rfl
          | map m =>
            simp only [hp.time, Bool.true_and, List.all_eq_true]
            intro f hfm'
            simp [hfm']

theorem act_streak (w : World) (l : Log) (hr : l.rule = .streak) (ho : l.isOpen = true) (hp : Prepared l)
    (tag : String) (sid : Nat) (rest : Dict Nat) (q : String) (qs : List String) (dq : Bool) (items : List Elem)
    (hl : l.loggees = (tag, sid) :: rest) (hf : dget l.fields tag = some (q :: qs))
    (hq : dget (w.shares sid).data q = some (.list dq items)) :
    l.act w =
      (w.setShare sid { w.shares sid with data := dset (w.shares sid).data q (.list dq []) },
       { l with stamp := w.stamp,
                disk := some (fileLines l.disk ++
                  (items.map fun e => (⟨w.stamp, [some e.toVal]⟩ : Rec)).map .record) },
       none) := by
  have hact : l.act w = l.logStreak w := by simp [Log.act, hr]
  have hfm : dget l.formats tag = some (q :: qs) := by rw [hp.fmts]; exact hf
  rw [hact]
  unfold Log.logStreak
  simp only []
  split
  · rename_i hnil; rw [hl] at hnil; cases hnil
  · rename_i tag' sid' rest' hl'
    rw [hl] at hl'
    obtain ⟨h1, h2⟩ := List.cons.inj hl'
    obtain ⟨rfl, rfl⟩ := Prod.mk.inj h1
    split
    · rename_i hd; rw [hd] at hq; simp [dget] at hq
    · rename_i k0 v0 drest hd
      split
      · rename_i hnone; rw [hf] at hnone; cases hnone
      · rename_i fs' hf'
        rw [hf] at hf'
        obtain rfl := Option.some.inj hf'
        simp only [hfm, List.mem_cons, true_or, if_true]
        rw [hq]
        simp only [hp.time, Bool.not_true, Bool.false_and, Bool.false_eq_true, if_false]
        rw [write_open ({ l with timeFmt := true, stamp := w.stamp } : Log) _ ho]
        simp [streakRecs_eq]

theorem act_streak_dict (w : World) (l : Log) (hr : l.rule = .streak) (ho : l.isOpen = true) (hp : Prepared l)
    (tag : String) (sid : Nat) (rest : Dict Nat) (q : String) (qs : List String) (o : Bool) (d : Dict Atom)
    (hl : l.loggees = (tag, sid) :: rest) (hf : dget l.fields tag = some (q :: qs))
    (hq : dget (w.shares sid).data q = some (.dict o d)) :
    l.act w =
      (w.setShare sid { w.shares sid with data := dset (w.shares sid).data q (.dict o []) },
       { l with stamp := w.stamp,
                disk := some (fileLines l.disk ++
                  ((dictItems d).map fun e => (⟨w.stamp, [some e.toVal]⟩ : Rec)).map .record) },
       none) := by
  have hact : l.act w = l.logStreak w := by simp [Log.act, hr]
  have hfm : dget l.formats tag = some (q :: qs) := by rw [hp.fmts]; exact hf
  rw [hact]
  unfold Log.logStreak
  simp only []
  split
  · rename_i hnil; rw [hl] at hnil; cases hnil
  · rename_i tag' sid' rest' hl'
    rw [hl] at hl'
    obtain ⟨h1, h2⟩ := List.cons.inj hl'
    obtain ⟨rfl, rfl⟩ := Prod.mk.inj h1
    split
    · rename_i hd; rw [hd] at hq; simp [dget] at hq
    · rename_i k0 v0 drest hd
      split
      · rename_i hnone; rw [hf] at hnone; cases hnone
      · rename_i fs' hf'
        rw [hf] at hf'
        obtain rfl := Option.some.inj hf'
        simp only [hfm, List.mem_cons, true_or, if_true]
        rw [hq]
        simp only [hp.time, Bool.not_true, Bool.false_and, Bool.false_eq_true, if_false]
        rw [write_open ({ l with timeFmt := true, stamp := w.stamp } : Log) _ ho]
        simp [streakRecs_eq]

/-! ## deck: every pushed mapping is logged once, in order -/

theorem entryCells_append (fs : List String) (a b : List Entry) :
    entryCells fs (a ++ b) = entryCells fs a ++ entryCells fs b := by
  induction a with
  | nil => rfl
  | cons e r ih => cases e <;> simp [entryCells, ih]

theorem deckRecList_cells (st : Option Int) (fs : List String) (d : List Entry) :
    (deckRecList st fs d).map (·.cells) = entryCells fs d := by
  induction d with
  | nil => rfl
  | cons e r ih => cases e <;> simp [deckRecList, entryCells, ih]

theorem apply_deck (w : World) (o : WOp) (j : Nat) :
    ((w.apply o).shares j).deck =
      match o with
      | .push s e => if j = s then (w.shares j).deck ++ [e] else (w.shares j).deck
      | .hpush s e => if j = s then (w.shares j).deck ++ [e] else (w.shares j).deck
      | _ => (w.shares j).deck := by
  have happ : ∀ s2 k a, ((w.appendTo s2 k a).shares j).deck = (w.shares j).deck := by
    intro s2 k a
    simp only [World.appendTo]
    split
    · by_cases hs : j = s2
      · subst hs; rw [setShare_same]
      · rw [setShare_other _ _ _ _ hs]
    · rfl
  have hsetit : ∀ s2 k kk a, ((w.setitemTo s2 k kk a).shares j).deck = (w.shares j).deck := by
    intro s2 k kk a
    simp only [World.setitemTo]
    split
    · by_cases hs : j = s2
      · subst hs; rw [setShare_same]
      · rw [setShare_other _ _ _ _ hs]
    · rfl
  cases o with
  | setStamp t => rfl
  | advance d => rfl
  | hold s2 f2 => rw [(apply_hold_shares w s2 f2).1]
  | happend i e =>
    rcases apply_happend_cases w i e with ⟨h', _, _, he⟩ | ⟨hs, _, _⟩
    · rw [he]; exact happ _ _ _
    · rw [hs]
  | hsetitem i k a =>
    rcases apply_hsetitem_cases w i k a with ⟨h', _, _, he⟩ | ⟨hs, _, _⟩
    · rw [he]; exact hsetit _ _ _ _
    · rw [hs]
  | hpush s2 e =>
    simp only [World.apply]
    by_cases hs : j = s2
    · subst hs; rw [setShare_same]; simp
    · rw [setShare_other _ _ _ _ hs]; simp [hs]
  | write s2 k v =>
    simp only [World.apply, World.appendTo, World.setitemTo]
    by_cases hs : j = s2
    · subst hs; rw [setShare_same]
    · rw [setShare_other _ _ _ _ hs]; rfl
  | poke s2 k v =>
    simp only [World.apply, World.appendTo, World.setitemTo]
    by_cases hs : j = s2
    · subst hs; rw [setShare_same]
    · rw [setShare_other _ _ _ _ hs]; rfl
  | append s2 k a =>
    simp only [World.apply, World.appendTo, World.setitemTo]
    split
    · by_cases hs : j = s2
      · subst hs; rw [setShare_same]
      · rw [setShare_other _ _ _ _ hs]
    · rfl
  | setitem s2 k kk a =>
    simp only [World.apply, World.appendTo, World.setitemTo]
    split
    · by_cases hs : j = s2
      · subst hs; rw [setShare_same]
      · rw [setShare_other _ _ _ _ hs]
    · rfl
  | push s2 e =>
    simp only [World.apply, World.appendTo, World.setitemTo]
    by_cases hs : j = s2
    · subst hs; rw [setShare_same]; simp
    · rw [setShare_other _ _ _ _ hs]; simp [hs]

/-- the field lists of the log on which a control acts -/
theorem actLog_fields (s : S1) (c : Ctl) (hi : Inv s) :
    (actLog s c).fields = (match c with | .start => prepFields s.world s.log.reopen | _ => s.log.fields) := by
  cases c <;> simp only [actLog]
  rw [startLog_eq s hi]

theorem fields_of_same {l l' : Log} (h : SameCfg l l') : l'.fields = l.fields := by
  obtain ⟨st, ls, dk, rfl⟩ := h; rfl

/-- field lists after a protocol-respecting step -/
theorem step_fields (s : S1) (op : Op) (hi : Inv s) (hok : ∀ c, op = .ctl c → ctlOk s.status c = true) :
    (s.step op).1.log.fields =
      (match op with | .ctl .start => prepFields s.world s.log.reopen | _ => s.log.fields) := by
  cases op with
  | w o => rfl
  | ctl c =>
    simp only [S1.step]
    rw [send_shape s c hi (hok c rfl)]
    cases c with
    | ready => rfl
    | abort => rfl
    | run => exact fields_of_same (act_same _ _)
    | start =>
      simp only []
      rw [fields_of_same (act_same _ _), startLog_eq s hi]
    | stop =>
      simp only []
      split
      · rfl
      · show (s.log.act s.world).2.1.fields = s.log.fields
        exact fields_of_same (act_same _ _)

theorem prepFields_keep_nonstreak (w : World) (l : Log) (hr : l.rule ≠ .streak) (tag f : String)
    (fs : List String) (h : dget l.reopen.fields tag = some (f :: fs)) :
    dget (prepFields w l.reopen) tag = some (f :: fs) := by
  have : l.reopen.rule ≠ .streak := by rw [(reopen_same l).2.2.2.2.2.1]; exact hr
  simp only [prepFields, this, if_false]
  exact defaultFields_keep _ _ _ _ _ _ h

def deckPhi (s : S1) (sid : Nat) (fs : List String) : List (List (Option Val)) :=
  s.recs.map (·.cells) ++ entryCells fs (s.world.shares sid).deck

theorem deck_step (s : S1) (op : Op) (hi : Inv s) (hr : s.log.rule = .deck)
    (hok : ∀ c, op = .ctl c → ctlOk s.status c = true)
    (tag : String) (sid : Nat) (rest : Dict Nat) (f : String) (fs : List String)
    (hl : s.log.loggees = (tag, sid) :: rest) (hf : dget s.log.fields tag = some (f :: fs)) :
    deckPhi (s.step op).1 sid (f :: fs) = deckPhi s sid (f :: fs) ++ entryCells (f :: fs) (pushed sid [op]) ∧
    dget (s.step op).1.log.fields tag = some (f :: fs) ∧
    (∀ c, op = .ctl c → isRun s.status c = true → ((s.step op).1.world.shares sid).deck = []) := by
  have hfield : dget (s.step op).1.log.fields tag = some (f :: fs) := by
    rw [step_fields s op hi hok]
    have hkeep := prepFields_keep_nonstreak s.world s.log (by rw [hr]; simp) tag f fs
      (by rw [(reopen_same s.log).2.2.1]; exact hf)
    cases op with
    | w o => exact hf
    | ctl c => cases c <;> first | exact hf | exact hkeep
  refine ⟨?_, hfield, ?_⟩
  · cases op with
    | w o =>
      simp only [deckPhi, S1.step, S1.recs, apply_deck]
      cases o with
      | push s2 e =>
        by_cases hs : sid = s2
        · subst hs; simp [entryCells_append, pushed]
        · have : ¬ s2 = sid := fun h => hs h.symm
          simp [hs, this, entryCells, pushed]
      | hpush s2 e =>
        by_cases hs : sid = s2
        · subst hs; simp [entryCells_append, pushed]
        · have : ¬ s2 = sid := fun h => hs h.symm
          simp [hs, this, entryCells, pushed]
      | hold s2 f2 => simp [entryCells, pushed]
      | happend i2 e2 => simp [entryCells, pushed]
      | hsetitem i2 k2 a2 => simp [entryCells, pushed]
      | setStamp t => simp [entryCells, pushed]
      | advance d => simp [entryCells, pushed]
      | write s2 k v => simp [entryCells, pushed]
      | poke s2 k v => simp [entryCells, pushed]
      | append s2 k a => simp [entryCells, pushed]
      | setitem s2 k kk a => simp [entryCells, pushed]
    | ctl c =>
      have hc := hok c rfl
      obtain ⟨h1, h2, _⟩ := send_recs s c hi hc
      simp only [deckPhi, S1.step, pushed, entryCells, List.append_nil, h1, h2]
      by_cases hrun : isRun s.status c = true
      · obtain ⟨f1, f2, f3, f4, f5, _, f7⟩ := actLog_facts s c hi hc hrun
        have hfa : dget (actLog s c).fields tag = some (f :: fs) := by
          rw [actLog_fields s c hi]
          cases c
          · simp [isRun] at hrun
          · exact prepFields_keep_nonstreak s.world s.log (by rw [hr]; simp) tag f fs
              (by rw [(reopen_same s.log).2.2.1]; exact hf)
          · exact hf
          · exact hf
          · simp [isRun] at hrun
        simp only [hrun, if_true]
        rw [act_deck s.world (actLog s c) (f4.trans hr) f2 f3 tag sid rest (f :: fs) (f7.trans hl) hfa]
        by_cases hd : (s.world.shares sid).deck = []
        · simp [hd, f5, entryCells]
        · simp only [hd, if_false, fileLines_some, recsOf_append, recsOf_records, f5, List.map_append,
            deckRecList_cells, setShare_same, entryCells, List.append_nil]
      · simp [hrun]
  · intro c hop hrun
    subst hop
    have hc := hok c rfl
    obtain ⟨_, h2, _⟩ := send_recs s c hi hc
    obtain ⟨f1, f2, f3, f4, f5, _, f7⟩ := actLog_facts s c hi hc hrun
    have hfa : dget (actLog s c).fields tag = some (f :: fs) := by
      rw [actLog_fields s c hi]
      cases c
      · simp [isRun] at hrun
      · exact prepFields_keep_nonstreak s.world s.log (by rw [hr]; simp) tag f fs
          (by rw [(reopen_same s.log).2.2.1]; exact hf)
      · exact hf
      · exact hf
      · simp [isRun] at hrun
    simp only [S1.step, h2, hrun, if_true]
    rw [act_deck s.world (actLog s c) (f4.trans hr) f2 f3 tag sid rest (f :: fs) (f7.trans hl) hfa]
    by_cases hd : (s.world.shares sid).deck = []
    · simp [hd]
    · simp [hd, setShare_same]

theorem deck_exec (s : S1) (h : List Op) (hi : Inv s) (hr : s.log.rule = .deck)
    (hp : proto s.status h = true)
    (tag : String) (sid : Nat) (rest : Dict Nat) (f : String) (fs : List String)
    (hl : s.log.loggees = (tag, sid) :: rest) (hf : dget s.log.fields tag = some (f :: fs)) :
    deckPhi (s.exec h) sid (f :: fs) = deckPhi s sid (f :: fs) ++ entryCells (f :: fs) (pushed sid h) := by
  induction h generalizing s with
  | nil => simp [S1.exec, pushed, entryCells]
  | cons op restops ih =>
    obtain ⟨hok, hi', hp'⟩ := thread s op restops hi hp
    obtain ⟨d1, d2, _⟩ := deck_step s op hi hr hok tag sid rest f fs hl hf
    have hsr := step_rule s op hi hok
    simp only [S1.exec]
    rw [ih _ hi' (hsr.1.trans hr) hp' (hsr.2.trans hl) d2, d1, List.append_assoc, ← entryCells_append]
    congr 2
    cases op with
    | ctl c => simp [pushed]
    | w o =>
      cases o <;> simp only [pushed, List.nil_append]
      all_goals (split <;> simp)

/-! ## streak: every appended element is logged once, in order -/

theorem appendTo_queue (w : World) (s2 : Nat) (k : String) (a : Elem) (sid : Nat) (q : String)
    (dq : Bool) (items : List Elem) (hq : dget (w.shares sid).data q = some (.list dq items)) :
    dget ((w.appendTo s2 k a).shares sid).data q =
      some (.list dq (items ++ (if s2 = sid ∧ k = q then [a] else []))) := by
  simp only [World.appendTo]
  by_cases hs : s2 = sid
  · subst hs
    by_cases hk : k = q
    · subst hk
      simp only [hq, and_self, if_true, setShare_same, dget_dset_same]
    · have hk' : q ≠ k := fun e => hk e.symm
      simp only [hk, and_false, if_false, List.append_nil]
      split
      · rw [setShare_same]; simp only [dget_dset_other _ _ _ _ hk']; exact hq
      · exact hq
  · have hs' : sid ≠ s2 := fun e => hs e.symm
    simp only [hs, false_and, if_false, List.append_nil]
    split
    · rw [setShare_other _ _ _ _ hs']; exact hq
    · exact hq

theorem setitemTo_queue (w : World) (s2 : Nat) (k kk : String) (a : Atom) (sid : Nat) (q : String)
    (dq : Bool) (items : List Elem) (hq : dget (w.shares sid).data q = some (.list dq items)) :
    dget ((w.setitemTo s2 k kk a).shares sid).data q = some (.list dq items) := by
  simp only [World.setitemTo]
  by_cases hs : s2 = sid
  · subst hs
    by_cases hk : k = q
    · subst hk
      simp only [hq]
    · have hk' : q ≠ k := fun e => hk e.symm
      split
      · rw [setShare_same]; simp only [dget_dset_other _ _ _ _ hk']; exact hq
      · exact hq
  · have hs' : sid ≠ s2 := fun e => hs e.symm
    split
    · rw [setShare_other _ _ _ _ hs']; exact hq
    · exact hq

/-- field `q` of share `sid` after a writer operation that does not overwrite it -/
theorem apply_queue (w : World) (o : WOp) (sid : Nat) (q : String) (dq : Bool) (items : List Elem)
    (hq : dget (w.shares sid).data q = some (.list dq items))
    (hno : noOverwrite sid q [.w o] = true) :
    dget ((w.apply o).shares sid).data q = some (.list dq (items ++ queuedBy w sid q (.w o))) := by
  cases o with
  | setStamp t => simpa [World.apply, queuedBy] using hq
  | advance d => simpa [World.apply, queuedBy] using hq
  | push s2 e =>
    simp only [World.apply, queuedBy, List.append_nil]
    by_cases hs : sid = s2
    · subst hs; rw [setShare_same]; exact hq
    · rw [setShare_other _ _ _ _ hs]; exact hq
  | hpush s2 e =>
    simp only [World.apply, queuedBy, List.append_nil]
    by_cases hs : sid = s2
    · subst hs; rw [setShare_same]; exact hq
    · rw [setShare_other _ _ _ _ hs]; exact hq
  | hold s2 f2 => rw [(apply_hold_shares w s2 f2).1]; simpa [queuedBy] using hq
  | write s2 k v =>
    simp only [noOverwrite, Bool.and_true, Bool.not_eq_true', Bool.and_eq_false_iff, beq_eq_false_iff_ne] at hno
    simp only [World.apply, queuedBy, List.append_nil]
    by_cases hs : sid = s2
    · subst hs
      rw [setShare_same]
      have hk : q ≠ k := by
        rcases hno with h | h
        · exact absurd rfl h
        · exact fun e => h e.symm
      simp only [dget_dset_other _ _ _ _ hk]; exact hq
    · rw [setShare_other _ _ _ _ hs]; exact hq
  | poke s2 k v =>
    simp only [noOverwrite, Bool.and_true, Bool.not_eq_true', Bool.and_eq_false_iff, beq_eq_false_iff_ne] at hno
    simp only [World.apply, queuedBy, List.append_nil]
    by_cases hs : sid = s2
    · subst hs
      rw [setShare_same]
      have hk : q ≠ k := by
        rcases hno with h | h
        · exact absurd rfl h
        · exact fun e => h e.symm
      simp only [dget_dset_other _ _ _ _ hk]; exact hq
    · rw [setShare_other _ _ _ _ hs]; exact hq
  | append s2 k a => exact appendTo_queue w s2 k a sid q dq items hq
  | setitem s2 k kk a =>
    simp only [queuedBy, List.append_nil]
    exact setitemTo_queue w s2 k kk a sid q dq items hq
  | happend i e =>
    rcases apply_happend_cases w i e with ⟨h, hh, hlive, he⟩ | ⟨hs, _, hdead⟩
    · rw [he, appendTo_queue w h.sid h.f e sid q dq items hq]
      simp only [queuedBy, hh, hlive, true_and]
    · rw [hs]
      simp only [queuedBy]
      cases hh : w.held[i]? with
      | none => simpa using hq
      | some h => simp [hdead h hh]; exact hq
  | hsetitem i k a =>
    simp only [queuedBy, List.append_nil]
    rcases apply_hsetitem_cases w i k a with ⟨h, _, _, he⟩ | ⟨hs, _, _⟩
    · rw [he]; exact setitemTo_queue w _ _ k a sid q dq items hq
    · rw [hs]; exact hq

def streakPhi (s : S1) (sid : Nat) (q : String) : List (List (Option Val)) :=
  s.recs.map (·.cells) ++ (pending s.world sid q).map fun e => [some e.toVal]

theorem prepFields_streak (w : World) (l : Log) (hr : l.rule = .streak) (tag : String) (sid : Nat)
    (rest : Dict Nat) (q : String) (qs : List String) (hl : l.loggees = (tag, sid) :: rest)
    (hf : dget l.fields tag = some (q :: qs)) :
    dget (prepFields w l.reopen) tag = some [q] := by
  obtain ⟨_, _, r3, _, _, r6, r7⟩ := reopen_same l
  simp only [prepFields, r6, hr, if_true, r7, hl, r3, hf]
  exact dget_dset_same _ _ _

theorem streak_step (s : S1) (op : Op) (hi : Inv s) (hr : s.log.rule = .streak)
    (hok : ∀ c, op = .ctl c → ctlOk s.status c = true)
    (tag : String) (sid : Nat) (rest : Dict Nat) (q : String) (qs : List String) (dq : Bool) (items : List Elem)
    (hl : s.log.loggees = (tag, sid) :: rest) (hf : dget s.log.fields tag = some (q :: qs))
    (hq : dget (s.world.shares sid).data q = some (.list dq items))
    (hno : noOverwrite sid q [op] = true) :
    streakPhi (s.step op).1 sid q =
      streakPhi s sid q ++ (queuedBy s.world sid q op).map (fun e => [some e.toVal]) ∧
    (∃ qs', dget (s.step op).1.log.fields tag = some (q :: qs')) ∧
    (∃ items', dget ((s.step op).1.world.shares sid).data q = some (.list dq items')) ∧
    (∀ c, op = .ctl c → isRun s.status c = true → pending (s.step op).1.world sid q = []) := by
  have hfield : ∃ qs', dget (s.step op).1.log.fields tag = some (q :: qs') := by
    rw [step_fields s op hi hok]
    have hkeep := prepFields_streak s.world s.log hr tag sid rest q qs hl hf
    cases op with
    | w o => exact ⟨qs, hf⟩
    | ctl c => cases c <;> first | exact ⟨qs, hf⟩ | exact ⟨[], hkeep⟩
  cases op with
  | w o =>
    have hq' := apply_queue s.world o sid q dq items hq hno
    refine ⟨?_, hfield, ⟨_, hq'⟩, fun c hc => by cases hc⟩
    simp only [streakPhi, S1.step, S1.recs, pending, hq, hq', List.map_append, List.append_assoc]
  | ctl c =>
    have hc := hok c rfl
    obtain ⟨h1, h2, _⟩ := send_recs s c hi hc
    by_cases hrun : isRun s.status c = true
    · obtain ⟨f1, f2, f3, f4, f5, _, f7⟩ := actLog_facts s c hi hc hrun
      have hfa : ∃ qs', dget (actLog s c).fields tag = some (q :: qs') := by
        rw [actLog_fields s c hi]
        cases c
        · simp [isRun] at hrun
        · exact ⟨[], prepFields_streak s.world s.log hr tag sid rest q qs hl hf⟩
        · exact ⟨qs, hf⟩
        · exact ⟨qs, hf⟩
        · simp [isRun] at hrun
      obtain ⟨qs', hfa⟩ := hfa
      have hact := act_streak s.world (actLog s c) (f4.trans hr) f2 f3 tag sid rest q qs' dq items
        (f7.trans hl) hfa hq
      have hw' : (s.step (.ctl c)).1.world =
          s.world.setShare sid { s.world.shares sid with data := dset (s.world.shares sid).data q (.list dq []) } := by
        simp only [S1.step, h2, hrun, if_true, hact]
      have hq'' : dget ((s.step (.ctl c)).1.world.shares sid).data q = some (.list dq []) := by
        rw [hw', setShare_same]; exact dget_dset_same _ _ _
      refine ⟨?_, hfield, ⟨[], hq''⟩, fun _ _ _ => by simp [pending, hq'']⟩
      simp only [streakPhi, pending, hq'', hq, queuedBy, List.map_nil, List.append_nil]
      simp only [S1.step, h1, hrun, if_true, hact, fileLines_some, recsOf_append, recsOf_records, f5,
        List.map_append]
      congr 1
      simp [List.map_map, Function.comp]
    · have hnr : isRun s.status c = false := by simpa using hrun
      have hw' : (s.step (.ctl c)).1.world = s.world := by simp only [S1.step, h2, hnr]; rfl
      refine ⟨?_, hfield, ⟨items, by rw [hw']; exact hq⟩, fun c' hc' hr' => ?_⟩
      · simp only [streakPhi, hw', queuedBy, List.map_nil, List.append_nil]
        simp only [S1.step, h1, hnr]
        rfl
      · cases hc'; exact absurd hr' hrun

/-- a run of a streak log on a mapping-valued queue: one record per `(key, value)` item, in
insertion order, and the mapping is left empty -/
theorem streak_dict_run (s : S1) (c : Ctl) (hi : Inv s) (hr : s.log.rule = .streak)
    (hc : ctlOk s.status c = true) (hrun : isRun s.status c = true)
    (tag : String) (sid : Nat) (rest : Dict Nat) (q : String) (qs : List String) (o : Bool) (d : Dict Atom)
    (hl : s.log.loggees = (tag, sid) :: rest) (hf : dget s.log.fields tag = some (q :: qs))
    (hq : dget (s.world.shares sid).data q = some (.dict o d)) :
    (s.step (.ctl c)).1.recs.map (·.cells) =
      s.recs.map (·.cells) ++ (dictItems d).map (fun e => [some e.toVal]) ∧
    dget ((s.step (.ctl c)).1.world.shares sid).data q = some (.dict o []) := by
  obtain ⟨h1, h2, _⟩ := send_recs s c hi hc
  obtain ⟨f1, f2, f3, f4, f5, _, f7⟩ := actLog_facts s c hi hc hrun
  have hfa : ∃ qs', dget (actLog s c).fields tag = some (q :: qs') := by
    rw [actLog_fields s c hi]
    cases c
    · simp [isRun] at hrun
    · exact ⟨[], prepFields_streak s.world s.log hr tag sid rest q qs hl hf⟩
    · exact ⟨qs, hf⟩
    · exact ⟨qs, hf⟩
    · simp [isRun] at hrun
  obtain ⟨qs', hfa⟩ := hfa
  have hact := act_streak_dict s.world (actLog s c) (f4.trans hr) f2 f3 tag sid rest q qs' o d
    (f7.trans hl) hfa hq
  have hw' : (s.step (.ctl c)).1.world =
      s.world.setShare sid { s.world.shares sid with data := dset (s.world.shares sid).data q (.dict o []) } := by
    simp only [S1.step, h2, hrun, if_true, hact]
  refine ⟨?_, by rw [hw', setShare_same]; exact dget_dset_same _ _ _⟩
  simp only [S1.step, h1, hrun, if_true, hact, fileLines_some, recsOf_append, recsOf_records, f5,
    List.map_append]
  congr 1
  simp [List.map_map, Function.comp]

theorem streak_exec (s : S1) (h : List Op) (hi : Inv s) (hr : s.log.rule = .streak)
    (hp : proto s.status h = true)
    (tag : String) (sid : Nat) (rest : Dict Nat) (q : String) (qs : List String) (dq : Bool) (items : List Elem)
    (hl : s.log.loggees = (tag, sid) :: rest) (hf : dget s.log.fields tag = some (q :: qs))
    (hq : dget (s.world.shares sid).data q = some (.list dq items))
    (hno : noOverwrite sid q h = true) :
    streakPhi (s.exec h) sid q = streakPhi s sid q ++ (queued s sid q h).map (fun e => [some e.toVal]) := by
  induction h generalizing s qs dq items with
  | nil => simp [S1.exec, queued]
  | cons op restops ih =>
    obtain ⟨hok, hi', hp'⟩ := thread s op restops hi hp
    have hno1 : noOverwrite sid q [op] = true ∧ noOverwrite sid q restops = true := by
      cases op with
      | ctl c => exact ⟨rfl, hno⟩
      | w o =>
        cases o <;> simp only [noOverwrite, Bool.and_eq_true, Bool.and_true] at hno ⊢ <;>
          first | exact hno | exact ⟨rfl, hno⟩ | exact ⟨trivial, hno⟩
    obtain ⟨d1, ⟨qs', d2⟩, ⟨items', d3⟩, _⟩ :=
      streak_step s op hi hr hok tag sid rest q qs dq items hl hf hq hno1.1
    have hsr := step_rule s op hi hok
    simp only [S1.exec]
    rw [ih _ hi' (hsr.1.trans hr) hp' qs' dq items' (hsr.2.trans hl) d2 d3 hno1.2, d1, List.append_assoc,
      ← List.map_append]
    rfl

/-! ## held references stay live while the producer does not rebind the field -/

theorem appendTo_held (w : World) (s : Nat) (f : String) (e : Elem) : (w.appendTo s f e).held = w.held := by
  unfold World.appendTo; simp only []; split <;> rfl

theorem setitemTo_held (w : World) (s : Nat) (f k : String) (a : Atom) :
    (w.setitemTo s f k a).held = w.held := by
  unfold World.setitemTo; simp only []; split <;> rfl

theorem viaHeld_refsLive (w : World) (i : Nat) (live : Held → World) (dead : Val → Val) (sid : Nat) (q : String)
    (hlive : ∀ h, (live h).held = w.held) (hl : refsLive w sid q) :
    refsLive (w.viaHeld i live dead) sid q := by
  unfold World.viaHeld
  split
  · exact hl
  · rename_i h hh
    split
    · exact hl
    · split
      · intro h' hm; rw [hlive h] at hm; exact hl h' hm
      · rename_i v ho
        intro h' hm hs hf
        simp only [List.mem_map] at hm
        obtain ⟨h0, hm0, he⟩ := hm
        by_cases hc : (h0.orphan.isSome = true ∧ h0.grp = h.grp)
        · rw [if_pos hc] at he
          have h0s : h0.sid = sid := by rw [← he] at hs; exact hs
          have h0f : h0.f = q := by rw [← he] at hf; exact hf
          have := hl h0 hm0 h0s h0f
          rw [this] at hc; simp at hc
        · rw [if_neg hc] at he
          subst he; exact hl h0 hm0 hs hf

theorem rebind_refsLive (w : World) (s : Nat) (f : String) (sid : Nat) (q : String)
    (hne : ¬ (s = sid ∧ f = q)) (hl : refsLive w sid q) : refsLive (w.rebind s f) sid q := by
  intro h' hm hs hf
  simp only [World.rebind, List.mem_map] at hm
  obtain ⟨h0, hm0, he⟩ := hm
  by_cases hc : (h0.sid = s ∧ h0.f = f ∧ h0.live = true)
  · rw [if_pos hc] at he
    exfalso; apply hne
    rw [← he] at hs hf
    exact ⟨hc.1.symm.trans hs, hc.2.1.symm.trans hf⟩
  · rw [if_neg hc] at he
    subst he; exact hl h0 hm0 hs hf

/-- a writer operation that does not rebind field `q` of share `sid` keeps every reference to it live -/
theorem apply_refsLive (w : World) (o : WOp) (sid : Nat) (q : String)
    (hno : noOverwrite sid q [.w o] = true) (hl : refsLive w sid q) : refsLive (w.apply o) sid q := by
  cases o with
  | setStamp t => exact hl
  | advance d => exact hl
  | write s f v =>
    simp only [noOverwrite, Bool.and_true, Bool.not_eq_true', Bool.and_eq_false_iff, beq_eq_false_iff_ne] at hno
    exact rebind_refsLive w s f sid q (fun h => by rcases hno with h1 | h1 <;> simp [h.1, h.2] at h1) hl
  | poke s f v =>
    simp only [noOverwrite, Bool.and_true, Bool.not_eq_true', Bool.and_eq_false_iff, beq_eq_false_iff_ne] at hno
    exact rebind_refsLive w s f sid q (fun h => by rcases hno with h1 | h1 <;> simp [h.1, h.2] at h1) hl
  | append s f e => intro h' hm; rw [show (w.apply (.append s f e)).held = w.held from appendTo_held w s f e] at hm; exact hl h' hm
  | setitem s f k a =>
    intro h' hm; rw [show (w.apply (.setitem s f k a)).held = w.held from setitemTo_held w s f k a] at hm; exact hl h' hm
  | push s e => exact hl
  | hpush s e => exact hl
  | hold s f =>
    intro h' hm hs hf
    simp only [World.apply] at hm
    have : h' ∈ w.held ∨ h'.orphan = none := by
      split at hm <;> simp only [List.mem_append, List.mem_singleton] at hm <;>
        rcases hm with hm | hm <;> first | exact Or.inl hm | (subst hm; exact Or.inr rfl)
    rcases this with hm' | ho
    · exact hl h' hm' hs hf
    · exact ho
  | happend i e =>
    exact viaHeld_refsLive w i _ _ sid q (fun h => appendTo_held w _ _ e) hl
  | hsetitem i k a =>
    exact viaHeld_refsLive w i _ _ sid q (fun h => setitemTo_held w _ _ k a) hl

theorem noOverwrite_cons (sid : Nat) (q : String) (op : Op) (rest : List Op)
    (hno : noOverwrite sid q (op :: rest) = true) :
    noOverwrite sid q [op] = true ∧ noOverwrite sid q rest = true := by
  cases op with
  | ctl c => exact ⟨rfl, hno⟩
  | w o =>
    cases o <;> simp only [noOverwrite, Bool.and_eq_true, Bool.and_true] at hno ⊢ <;>
      first | exact hno | exact ⟨rfl, hno⟩ | exact ⟨trivial, hno⟩

/-- over a whole history: the logger never rebinds, so as long as the producer does not either,
the objects it holds remain the field's value -/
theorem refsLive_exec (s : S1) (h : List Op) (hi : Inv s) (hp : proto s.status h = true)
    (sid : Nat) (q : String) (hno : noOverwrite sid q h = true) (hl : refsLive s.world sid q) :
    refsLive (s.exec h).world sid q := by
  induction h generalizing s with
  | nil => exact hl
  | cons op rest ih =>
    obtain ⟨hok, hi', hp'⟩ := thread s op rest hi hp
    obtain ⟨hn1, hn2⟩ := noOverwrite_cons sid q op rest hno
    simp only [S1.exec]
    apply ih _ hi' hp' hn2
    cases op with
    | w o => exact apply_refsLive s.world o sid q hn1 hl
    | ctl c =>
      intro h' hm
      rw [ctl_held s c hi (hok c rfl)] at hm
      exact hl h' hm

/-! ## a mapping-valued queue over a whole history -/

theorem appendTo_dictq (w : World) (s2 : Nat) (k : String) (a : Elem) (sid : Nat) (q : String)
    (o : Bool) (d : Dict Atom) (hq : dget (w.shares sid).data q = some (.dict o d)) :
    dget ((w.appendTo s2 k a).shares sid).data q = some (.dict o d) := by
  simp only [World.appendTo]
  by_cases hs : s2 = sid
  · subst hs
    by_cases hk : k = q
    · subst hk
      simp only [hq]
    · have hk' : q ≠ k := fun e => hk e.symm
      split
      · rw [setShare_same]; simp only [dget_dset_other _ _ _ _ hk']; exact hq
      · exact hq
  · have hs' : sid ≠ s2 := fun e => hs e.symm
    split
    · rw [setShare_other _ _ _ _ hs']; exact hq
    · exact hq

theorem setitemTo_dictq (w : World) (s2 : Nat) (k kk : String) (a : Atom) (sid : Nat) (q : String)
    (o : Bool) (d : Dict Atom) (hq : dget (w.shares sid).data q = some (.dict o d)) :
    dget ((w.setitemTo s2 k kk a).shares sid).data q =
      some (.dict o (if s2 = sid ∧ k = q then dset d kk a else d)) := by
  simp only [World.setitemTo]
  by_cases hs : s2 = sid
  · subst hs
    by_cases hk : k = q
    · subst hk
      simp only [hq, and_self, if_true, setShare_same, dget_dset_same]
    · have hk' : q ≠ k := fun e => hk e.symm
      simp only [hk, and_false, if_false]
      split
      · rw [setShare_same]; simp only [dget_dset_other _ _ _ _ hk']; exact hq
      · exact hq
  · have hs' : sid ≠ s2 := fun e => hs e.symm
    simp only [hs, false_and, if_false]
    split
    · rw [setShare_other _ _ _ _ hs']; exact hq
    · exact hq

/-- the mapping in field `q` of share `sid` after a writer operation that does not rebind it -/
theorem apply_dictq (w : World) (op : WOp) (sid : Nat) (q : String) (o : Bool) (d : Dict Atom)
    (hq : dget (w.shares sid).data q = some (.dict o d))
    (hno : noOverwrite sid q [.w op] = true) :
    dget ((w.apply op).shares sid).data q =
      some (.dict o (match assignedBy w sid q (.w op) with | some (k, a) => dset d k a | none => d)) := by
  cases op with
  | setStamp t => simpa [World.apply, assignedBy] using hq
  | advance t => simpa [World.apply, assignedBy] using hq
  | push s2 e =>
    simp only [World.apply, assignedBy]
    by_cases hs : sid = s2
    · subst hs; rw [setShare_same]; exact hq
    · rw [setShare_other _ _ _ _ hs]; exact hq
  | hpush s2 e =>
    simp only [World.apply, assignedBy]
    by_cases hs : sid = s2
    · subst hs; rw [setShare_same]; exact hq
    · rw [setShare_other _ _ _ _ hs]; exact hq
  | hold s2 f2 => rw [(apply_hold_shares w s2 f2).1]; simpa [assignedBy] using hq
  | write s2 k v =>
    simp only [noOverwrite, Bool.and_true, Bool.not_eq_true', Bool.and_eq_false_iff, beq_eq_false_iff_ne] at hno
    simp only [World.apply, assignedBy]
    by_cases hs : sid = s2
    · subst hs
      rw [setShare_same]
      have hk : q ≠ k := by
        rcases hno with h | h
        · exact absurd rfl h
        · exact fun e => h e.symm
      simp only [dget_dset_other _ _ _ _ hk]; exact hq
    · rw [setShare_other _ _ _ _ hs]; exact hq
  | poke s2 k v =>
    simp only [noOverwrite, Bool.and_true, Bool.not_eq_true', Bool.and_eq_false_iff, beq_eq_false_iff_ne] at hno
    simp only [World.apply, assignedBy]
    by_cases hs : sid = s2
    · subst hs
      rw [setShare_same]
      have hk : q ≠ k := by
        rcases hno with h | h
        · exact absurd rfl h
        · exact fun e => h e.symm
      simp only [dget_dset_other _ _ _ _ hk]; exact hq
    · rw [setShare_other _ _ _ _ hs]; exact hq
  | append s2 k a =>
    simp only [assignedBy]
    exact appendTo_dictq w s2 k a sid q o d hq
  | setitem s2 k kk a =>
    rw [show w.apply (.setitem s2 k kk a) = w.setitemTo s2 k kk a from rfl,
      setitemTo_dictq w s2 k kk a sid q o d hq]
    simp only [assignedBy]
    split <;> rfl
  | happend i e =>
    simp only [assignedBy]
    rcases apply_happend_cases w i e with ⟨h, _, _, he⟩ | ⟨hs, _, _⟩
    · rw [he]; exact appendTo_dictq w _ _ e sid q o d hq
    · rw [hs]; exact hq
  | hsetitem i k a =>
    rcases apply_hsetitem_cases w i k a with ⟨h, hh, hlive, he⟩ | ⟨hs, _, hdead⟩
    · rw [he, setitemTo_dictq w h.sid h.f k a sid q o d hq]
      simp only [assignedBy, hh, hlive, true_and]
      split <;> rfl
    · rw [hs]
      simp only [assignedBy]
      cases hh : w.held[i]? with
      | none => exact hq
      | some h => simp [hdead h hh]; exact hq

/-- the streak log keeps naming the queue field -/
theorem streak_field_step (s : S1) (op : Op) (hi : Inv s) (hr : s.log.rule = .streak)
    (hok : ∀ c, op = .ctl c → ctlOk s.status c = true)
    (tag : String) (sid : Nat) (rest : Dict Nat) (q : String) (qs : List String)
    (hl : s.log.loggees = (tag, sid) :: rest) (hf : dget s.log.fields tag = some (q :: qs)) :
    ∃ qs', dget (s.step op).1.log.fields tag = some (q :: qs') := by
  rw [step_fields s op hi hok]
  have hkeep := prepFields_streak s.world s.log hr tag sid rest q qs hl hf
  cases op with
  | w o => exact ⟨qs, hf⟩
  | ctl c => cases c <;> first | exact ⟨qs, hf⟩ | exact ⟨[], hkeep⟩

/-- **a mapping-valued queue over a whole history**: the records written are those of the
reference queue `mapQueue`, and what waits in the field is what waits there -/
theorem mapping_exec (s : S1) (h : List Op) (hi : Inv s) (hr : s.log.rule = .streak)
    (hp : proto s.status h = true)
    (tag : String) (sid : Nat) (rest : Dict Nat) (q : String) (qs : List String) (o : Bool) (d : Dict Atom)
    (hl : s.log.loggees = (tag, sid) :: rest) (hf : dget s.log.fields tag = some (q :: qs))
    (hq : dget (s.world.shares sid).data q = some (.dict o d))
    (hno : noOverwrite sid q h = true) :
    (s.exec h).recs.map (·.cells) =
      s.recs.map (·.cells) ++ (mapQueue s sid q d h).1.map (fun e => [some e.toVal]) ∧
    dget ((s.exec h).world.shares sid).data q = some (.dict o (mapQueue s sid q d h).2) := by
  induction h generalizing s qs d with
  | nil => simp [S1.exec, mapQueue, hq]
  | cons op restops ih =>
    obtain ⟨hok, hi', hp'⟩ := thread s op restops hi hp
    obtain ⟨hn1, hn2⟩ := noOverwrite_cons sid q op restops hno
    obtain ⟨qs', hf'⟩ := streak_field_step s op hi hr hok tag sid rest q qs hl hf
    have hsr := step_rule s op hi hok
    simp only [S1.exec]
    cases op with
    | w wo =>
      have hq' := apply_dictq s.world wo sid q o d hq hn1
      have := ih (s.step (.w wo)).1 hi' (hsr.1.trans hr) hp' qs' _ (hsr.2.trans hl) hf' hq' hn2
      simp only [mapQueue]
      exact this
    | ctl c =>
      have hc := hok c rfl
      obtain ⟨h1, h2, _⟩ := send_recs s c hi hc
      by_cases hrun : isRun s.status c = true
      · obtain ⟨r1, r2⟩ := streak_dict_run s c hi hr hc hrun tag sid rest q qs o d hl hf hq
        have := ih (s.step (.ctl c)).1 hi' (hsr.1.trans hr) hp' qs' [] (hsr.2.trans hl) hf' r2 hn2
        simp only [mapQueue, hrun, if_true]
        refine ⟨?_, this.2⟩
        rw [this.1, r1, List.append_assoc, ← List.map_append]
      · have hnr : isRun s.status c = false := by simpa using hrun
        have hw' : (s.step (.ctl c)).1.world = s.world := by simp only [S1.step, h2, hnr]; rfl
        have hr' : (s.step (.ctl c)).1.recs = s.recs := by simp only [S1.step, h1, hnr]; rfl
        have := ih (s.step (.ctl c)).1 hi' (hsr.1.trans hr) hp' qs' d (hsr.2.trans hl) hf'
          (by rw [hw']; exact hq) hn2
        simp only [mapQueue, hnr]
        rw [hr'] at this
        exact this

/-! ## one header per new file -/

theorem base_of_same {l l' : Log} (h : SameCfg l l') : l'.base = l.base := by
  obtain ⟨st, ls, dk, rfl⟩ := h; rfl

/-- the file is absent (and the log untouched), or is one header followed by records only -/
structure HeaderInv (s : S1) (r : Rule) (b : String) : Prop where
  rule : s.log.rule = r
  base : s.log.base = b
  absent : fileLines s.log.disk = [] → s.log.stamp = none ∧ s.log.first = true ∧ s.log.isOpen = false
  present : ∀ c, s.log.disk = some c → c ≠ [] →
    ∃ (cols : List String) (rs : List Rec), c = .header r b cols :: rs.map Line.record

/-- the file is what was there before, followed by records only -/
def OldInv (s : S1) (old : List Line) : Prop := ∃ rs : List Rec, s.log.disk = some (old ++ rs.map Line.record)

theorem disk_after_act (w : World) (l : Log) (pre : List Line) (rs : List Rec)
    (hd : l.disk = some (pre ++ rs.map Line.record)) :
    ∃ rs' : List Rec, (l.act w).2.1.disk = some (pre ++ rs'.map Line.record) := by
  obtain ⟨rs2, h2⟩ := act_appends w l
  unfold Appends at h2
  rw [hd, fileLines_some] at h2
  cases hd' : (l.act w).2.1.disk with
  | none =>
    -- an open log that acted still has its file
    exfalso
    have hs := act_same w l
    obtain ⟨st, ls, dk, he⟩ := hs
    rw [he] at hd'
    simp only at hd'
    subst hd'
    -- `act` never sets the disk to `none` when it was `some`
    have : ∀ (l0 : Log) (x : List Line), l0.disk ≠ none → (l0.write x).1.disk ≠ none := by
      intro l0 x h0
      unfold Log.write
      split
      · split <;> simp
      · exact h0
    have hne : l.disk ≠ none := by rw [hd]; simp
    have key : (l.act w).2.1.disk ≠ none := by
      unfold Log.act Log.log Log.logStreak Log.logDeck
      simp only []
      repeat' split
      all_goals first
        | exact hne
        | exact this _ _ hne
    rw [he] at key
    exact key rfl
  | some c' =>
    rw [hd', fileLines_some] at h2
    exact ⟨rs ++ rs2, by rw [h2]; simp⟩

/-- the disk of the log on which START acts, for a new (or existing but empty) file -/
theorem startLog_disk_header (s : S1) (hi : Inv s) (r : Rule) (b : String) (h : HeaderInv s r b) :
    ∃ (cols : List String) (rs : List Rec),
      (startLog s).disk = some (.header r b cols :: rs.map Line.record) := by
  rw [startLog_eq s hi]
  simp only []
  have e4 : s.log.reopen.rule = r := by rw [(reopen_same s.log).2.2.2.2.2.1]; exact h.rule
  have new : fileLines s.log.disk = [] → s.log.reopen.first = s.log.first ∧ s.log.reopen.base = s.log.base := by
    intro he
    unfold Log.reopen
    cases hd : s.log.disk with
    | none => exact ⟨rfl, rfl⟩
    | some c =>
      cases c with
      | nil => exact ⟨rfl, rfl⟩
      | cons x r => rw [hd] at he; cases he
  by_cases he : fileLines s.log.disk = []
  · obtain ⟨h1, h2, _⟩ := h.absent he
    obtain ⟨n1, n2⟩ := new he
    have e1 : s.log.reopen.stamp = none := by rw [(reopen_same s.log).1]; exact h1
    have e2 : s.log.reopen.first = true := n1.trans h2
    have e3 : fileLines s.log.reopen.disk = [] := by rw [fileLines_reopen]; exact he
    have e5 : s.log.reopen.base = b := n2.trans h.base
    simp only [e1, e2, and_self, if_true, e3, e4, e5, List.nil_append]
    exact ⟨_, [], rfl⟩
  · cases hd : s.log.disk with
    | none => rw [hd] at he; exact absurd rfl he
    | some c =>
      have hne : c ≠ [] := by intro e; rw [hd, e] at he; exact he rfl
      obtain ⟨cols, rs, hc⟩ := h.present c hd hne
      subst hc
      have e2 : s.log.reopen.first = false := by unfold Log.reopen; rw [hd]
      have e3 : s.log.reopen.disk = some (.header r b cols :: rs.map Line.record) := by
        unfold Log.reopen; rw [hd]
      simp only [e2, Bool.false_eq_true, and_false, if_false, e3]
      exact ⟨cols, rs, rfl⟩

theorem header_step (s : S1) (op : Op) (hi : Inv s) (hok : ∀ c, op = .ctl c → ctlOk s.status c = true)
    (r : Rule) (b : String) (h : HeaderInv s r b) : HeaderInv (s.step op).1 r b := by
  cases op with
  | w o => exact ⟨h.rule, h.base, h.absent, h.present⟩
  | ctl c =>
    have hc := hok c rfl
    simp only [S1.step]
    rw [send_shape s c hi hc]
    -- a run on an open log whose file is a header followed by records
    have run : ∀ (l0 : Log), SameCfg s.log l0 ∨ l0 = startLog s →
        (∃ (cols : List String) (rs : List Rec), l0.disk = some (.header r b cols :: rs.map Line.record)) →
        l0.rule = r → l0.base = b → ∀ (st : Status) (cl : Bool),
        HeaderInv { s with world := (l0.act s.world).1,
                           log := if cl then (l0.act s.world).2.1.close else (l0.act s.world).2.1,
                           status := st } r b := by
      intro l0 _ hdisk hr0 hb0 st cl
      obtain ⟨cols, rs, hd⟩ := hdisk
      obtain ⟨rs', hd'⟩ := disk_after_act s.world l0 [.header r b cols] rs (by simpa using hd)
      have hs := act_same s.world l0
      have hrule : (l0.act s.world).2.1.rule = r := (rule_of_same hs).trans hr0
      have hbase : (l0.act s.world).2.1.base = b := (base_of_same hs).trans hb0
      cases cl
      · refine ⟨hrule, hbase, fun x => ?_, fun c hc' _ => ?_⟩
        · simp only [Bool.false_eq_true, if_false] at x; rw [hd'] at x; cases x
        · simp only [Bool.false_eq_true, if_false] at hc'
          rw [hd'] at hc'
          exact ⟨cols, rs', by rw [← Option.some.inj hc']; rfl⟩
      · refine ⟨hrule, hbase, fun x => ?_, fun c hc' _ => ?_⟩
        · simp only [if_true] at x
          have : (l0.act s.world).2.1.close.disk = (l0.act s.world).2.1.disk := rfl
          rw [this, hd'] at x; cases x
        · simp only [if_true] at hc'
          have : (l0.act s.world).2.1.close.disk = (l0.act s.world).2.1.disk := rfl
          rw [this, hd'] at hc'
          exact ⟨cols, rs', by rw [← Option.some.inj hc']; rfl⟩
    cases c with
    | ready => exact ⟨h.rule, h.base, h.absent, h.present⟩
    | abort =>
      exact ⟨h.rule, h.base, fun x => by
        obtain ⟨a1, a2, _⟩ := h.absent x
        exact ⟨a1, a2, rfl⟩, h.present⟩
    | run =>
      have ho : openSt s.status = true := hc
      have hopen := hi.opened ho
      cases hd : s.log.disk with
      | none => obtain ⟨_, _, a3⟩ := h.absent (by rw [hd]; rfl); rw [hopen] at a3; cases a3
      | some c0 =>
        by_cases hne : c0 = []
        · obtain ⟨_, _, a3⟩ := h.absent (by rw [hd, hne]; rfl); rw [hopen] at a3; cases a3
        · obtain ⟨cols, rs, hc0⟩ := h.present c0 hd hne
          exact run s.log (Or.inl (SameCfg.refl _)) ⟨cols, rs, by rw [hd, hc0]⟩ h.rule h.base .running false
    | stop =>
      simp only []
      by_cases hst : s.status = .stopped
      · simp only [hst, if_true]; exact h
      · have ho : openSt s.status = true := by
          simp only [ctlOk, Bool.or_eq_true, beq_iff_eq] at hc
          rcases hc with x | x
          · exact x
          · exact absurd x hst
        have hopen := hi.opened ho
        simp only [hst, if_false]
        cases hd : s.log.disk with
        | none => obtain ⟨_, _, a3⟩ := h.absent (by rw [hd]; rfl); rw [hopen] at a3; cases a3
        | some c0 =>
          by_cases hne : c0 = []
          · obtain ⟨_, _, a3⟩ := h.absent (by rw [hd, hne]; rfl); rw [hopen] at a3; cases a3
          · obtain ⟨cols, rs, hc0⟩ := h.present c0 hd hne
            exact run s.log (Or.inl (SameCfg.refl _)) ⟨cols, rs, by rw [hd, hc0]⟩ h.rule h.base .stopped true
    | start =>
      obtain ⟨cols, rs, hd⟩ := startLog_disk_header s hi r b h
      have hr0 : (startLog s).rule = r := (startLog_rule s hi).trans h.rule
      have hb0 : (startLog s).base = b := by
        rw [startLog_eq s hi]
        show s.log.reopen.base = b
        unfold Log.reopen; split <;> exact h.base
      exact run (startLog s) (Or.inr rfl) ⟨cols, rs, hd⟩ hr0 hb0 .started false

theorem header_exec (s : S1) (h : List Op) (hi : Inv s) (hp : proto s.status h = true)
    (r : Rule) (b : String) (hh : HeaderInv s r b) : HeaderInv (s.exec h) r b := by
  induction h generalizing s with
  | nil => exact hh
  | cons op rest ih =>
    obtain ⟨hok, hi', hp'⟩ := thread s op rest hi hp
    exact ih _ hi' hp' (header_step s op hi hok r b hh)

theorem old_step (s : S1) (op : Op) (hi : Inv s) (hok : ∀ c, op = .ctl c → ctlOk s.status c = true)
    (old : List Line) (hne : old ≠ []) (h : OldInv s old) : OldInv (s.step op).1 old := by
  obtain ⟨rs, hd⟩ := h
  cases op with
  | w o => exact ⟨rs, hd⟩
  | ctl c =>
    have hc := hok c rfl
    simp only [S1.step]
    rw [send_shape s c hi hc]
    cases c with
    | ready => exact ⟨rs, hd⟩
    | abort => exact ⟨rs, hd⟩
    | run => exact disk_after_act s.world s.log old rs hd
    | stop =>
      simp only []
      split
      · exact ⟨rs, hd⟩
      · obtain ⟨rs', h'⟩ := disk_after_act s.world s.log old rs hd
        exact ⟨rs', h'⟩
    | start =>
      have hsd : (startLog s).disk = some (old ++ rs.map Line.record) := by
        rw [startLog_eq s hi]
        obtain ⟨x, o', rfl⟩ : ∃ x o', old = x :: o' := by
          cases old with
          | nil => exact absurd rfl hne
          | cons x o' => exact ⟨x, o', rfl⟩
        have e2 : s.log.reopen.first = false := by unfold Log.reopen; rw [hd]; rfl
        have e3 : s.log.reopen.disk = some (x :: o' ++ rs.map Line.record) := by
          unfold Log.reopen; rw [hd]; rfl
        simp only [e2, Bool.false_eq_true, and_false, if_false, e3]
      exact disk_after_act s.world (startLog s) old rs hsd

theorem old_exec (s : S1) (h : List Op) (hi : Inv s) (hp : proto s.status h = true)
    (old : List Line) (hne : old ≠ []) (hh : OldInv s old) : OldInv (s.exec h) old := by
  induction h generalizing s with
  | nil => exact hh
  | cons op rest ih =>
    obtain ⟨hok, hi', hp'⟩ := thread s op rest hi hp
    exact ih _ hi' hp' (old_step s op hi hok old hne hh)

/-! ## several logs in one logger: logs that do not drain a queue do not interfere -/

/-- the rule leaves the shares alone (everything but streak and deck) -/
def nodrain (l : Log) : Prop := l.rule ≠ .streak ∧ l.rule ≠ .deck

theorem act_nodrain_world (w : World) (l : Log) (h : nodrain l) : (l.act w).1 = w := by
  unfold Log.act
  split
  · rfl
  · split <;> rfl
  · rfl
  · split
    · rfl
    · split <;> rfl
  · split
    · rfl
    · split
      · rfl
      · split <;> rfl
  · exact absurd ‹l.rule = Rule.streak› h.1
  · exact absurd ‹l.rule = Rule.deck› h.2

theorem actAll_map (w : World) (ls : List Log) (h : ∀ l ∈ ls, nodrain l ∧ (l.act w).2.2 = none) :
    actAll w ls = (w, ls.map (fun l => (l.act w).2.1), none) := by
  induction ls with
  | nil => rfl
  | cons l r ih =>
    obtain ⟨hn, he⟩ := h l (by simp)
    have hw := act_nodrain_world w l hn
    have ih' := ih (fun x hx => h x (by simp [hx]))
    unfold actAll
    rcases ha : l.act w with ⟨w1, l1, e⟩
    rw [ha] at hw he
    simp only at hw he
    subst hw he
    simp only [ih', List.map_cons, ha]

theorem prepareAll_map (w : World) (ls : List Log) (h : ∀ l ∈ ls, (l.prepare w).2 = none) :
    prepareAll w ls = (ls.map (fun l => (l.prepare w).1), none) := by
  induction ls with
  | nil => rfl
  | cons l r ih =>
    have he := h l (by simp)
    have ih' := ih (fun x hx => h x (by simp [hx]))
    unfold prepareAll
    rcases hp : l.prepare w with ⟨l1, e⟩
    rw [hp] at he
    simp only at he
    subst he
    simp only [ih', List.map_cons, hp]

/-- the logger with several logs, seen as one single-log logger per log -/
def Sys.single (s : Sys) (l : Log) : S1 := { world := s.world, log := l, status := s.status, alive := s.alive }

/-- every log of the logger satisfies the single-log invariant and does not drain a queue -/
def Multi (s : Sys) : Prop := s.alive = true ∧ ∀ l ∈ s.logs, Inv (s.single l) ∧ nodrain l

theorem multi_send (s : Sys) (c : Ctl) (hm : Multi s) (hc : ctlOk s.status c = true) :
    (s.send c).1 = { world := s.world, logs := s.logs.map (fun l => ((s.single l).send c).1.log),
                     status := nextSt s.status c, alive := true } ∧
    ∀ l ∈ s.logs, ((s.single l).send c).1.world = s.world ∧
      ((s.single l).send c).1.status = nextSt s.status c ∧ ((s.single l).send c).1.alive = true := by
  obtain ⟨ha, hall⟩ := hm
  have hna : (!s.alive) = false := by simp [ha]
  have hactok : openSt s.status = true → ∀ l ∈ s.logs, nodrain l ∧ (l.act s.world).2.2 = none := by
    intro ho l hl
    obtain ⟨hi, hn⟩ := hall l hl
    exact ⟨hn, (act_ok s.world l hi.cfg (hi.opened ho) (hi.prep (Or.inl ho))).1⟩
  cases c with
  | ready =>
    have hshape : ∀ l ∈ s.logs, ((s.single l).send .ready).1 = { s.single l with status := .readied } :=
      fun l hl => send_shape (s.single l) .ready (hall l hl).1 hc
    have hlogs : s.logs.map (fun l => ((s.single l).send .ready).1.log) = s.logs := by
      rw [List.map_congr_left (g := fun l => l) (fun l hl => by rw [hshape l hl]; rfl)]
      simp
    refine ⟨?_, fun l hl => ?_⟩
    · simp only [Sys.send, ha, Bool.not_true, Bool.false_eq_true, if_false, nextSt, hlogs]
    · rw [hshape l hl]; exact ⟨rfl, rfl, ha⟩
  | abort =>
    have hshape : ∀ l ∈ s.logs, ((s.single l).send .abort).1 =
        { s.single l with log := (s.single l).log.close, status := .aborted } :=
      fun l hl => send_shape (s.single l) .abort (hall l hl).1 hc
    have hlogs : s.logs.map (fun l => ((s.single l).send .abort).1.log) = s.logs.map Log.close :=
      List.map_congr_left (fun l hl => by rw [hshape l hl]; rfl)
    refine ⟨?_, fun l hl => ?_⟩
    · simp only [Sys.send, ha, Bool.not_true, Bool.false_eq_true, if_false, nextSt, hlogs]
    · rw [hshape l hl]; exact ⟨rfl, rfl, ha⟩
  | run =>
    have ho : openSt s.status = true := hc
    have hshape : ∀ l ∈ s.logs, ((s.single l).send .run).1 =
        { s.single l with world := ((s.single l).log.act (s.single l).world).1,
                          log := ((s.single l).log.act (s.single l).world).2.1, status := .running } :=
      fun l hl => send_shape (s.single l) .run (hall l hl).1 hc
    have hmap := actAll_map s.world s.logs (hactok ho)
    have hlogs : s.logs.map (fun l => ((s.single l).send .run).1.log) =
        s.logs.map (fun l => (l.act s.world).2.1) :=
      List.map_congr_left (fun l hl => by rw [hshape l hl]; rfl)
    refine ⟨?_, fun l hl => ?_⟩
    · simp only [Sys.send, ha, Bool.not_true, Bool.false_eq_true, if_false, Sys.logAll, hmap, nextSt, hlogs]
    · rw [hshape l hl]
      exact ⟨act_nodrain_world _ _ (hall l hl).2, rfl, ha⟩
  | stop =>
    have hshape : ∀ l ∈ s.logs, ((s.single l).send .stop).1 =
        (if (s.single l).status = .stopped then s.single l
         else { s.single l with world := ((s.single l).log.act (s.single l).world).1,
                                log := (((s.single l).log.act (s.single l).world).2.1).close,
                                status := .stopped }) :=
      fun l hl => send_shape (s.single l) .stop (hall l hl).1 hc
    by_cases hst : s.status = .stopped
    · have hlogs : s.logs.map (fun l => ((s.single l).send .stop).1.log) = s.logs := by
        rw [List.map_congr_left (g := fun l => l) (fun l hl => by
          rw [hshape l hl]; simp only [Sys.single, hst, if_true])]
        simp
      refine ⟨?_, fun l hl => ?_⟩
      · simp only [Sys.send, ha, Bool.not_true, Bool.false_eq_true, if_false, hst, if_true, nextSt, hlogs]
        cases s
        simp only at ha hst ⊢
        subst ha hst
        rfl
      · rw [hshape l hl]
        simp only [Sys.single, hst, if_true, nextSt]
        exact ⟨trivial, trivial, ha⟩
    · have ho : openSt s.status = true := by
        simp only [ctlOk, Bool.or_eq_true, beq_iff_eq] at hc
        rcases hc with h | h
        · exact h
        · exact absurd h hst
      have hmap := actAll_map s.world s.logs (hactok ho)
      have hlogs : s.logs.map (fun l => ((s.single l).send .stop).1.log) =
          (s.logs.map (fun l => (l.act s.world).2.1)).map Log.close := by
        rw [List.map_map]
        exact List.map_congr_left (fun l hl => by
          rw [hshape l hl]; simp only [Sys.single, hst, if_false]; rfl)
      refine ⟨?_, fun l hl => ?_⟩
      · simp only [Sys.send, ha, Bool.not_true, Bool.false_eq_true, if_false, hst, Sys.logAll, hmap, nextSt, hlogs]
      · rw [hshape l hl]
        simp only [Sys.single, hst, if_false, nextSt]
        exact ⟨act_nodrain_world _ _ (hall l hl).2, trivial, ha⟩
  | start =>
    have hshape : ∀ l ∈ s.logs, ((s.single l).send .start).1 =
        { s.single l with world := ((startLog (s.single l)).act (s.single l).world).1,
                          log := ((startLog (s.single l)).act (s.single l).world).2.1, status := .started } :=
      fun l hl => send_shape (s.single l) .start (hall l hl).1 hc
    have hprep : ∀ l ∈ s.logs.map Log.reopen, (l.prepare s.world).2 = none := by
      intro l hl
      rw [List.mem_map] at hl
      obtain ⟨l0, hl0, rfl⟩ := hl
      have := (startLog_facts (s.single l0) (hall l0 hl0).1).2.2.2
      simp only [Sys.single] at this
      rw [this]
    have hpm := prepareAll_map s.world (s.logs.map Log.reopen) hprep
    have hact : ∀ l ∈ (s.logs.map Log.reopen).map (fun l => (l.prepare s.world).1),
        nodrain l ∧ (l.act s.world).2.2 = none := by
      intro l hl
      simp only [List.map_map, List.mem_map, Function.comp] at hl
      obtain ⟨l0, hl0, rfl⟩ := hl
      obtain ⟨hi, hn⟩ := hall l0 hl0
      obtain ⟨f1, f2, f3, _⟩ := startLog_facts (s.single l0) hi
      have hr := startLog_rule (s.single l0) hi
      have hsl : (l0.reopen.prepare s.world).1 = startLog (s.single l0) := rfl
      rw [hsl]
      exact ⟨⟨by rw [hr]; exact hn.1, by rw [hr]; exact hn.2⟩, (act_ok s.world _ f1 f2 f3).1⟩
    have ham := actAll_map s.world _ hact
    have hlogs : s.logs.map (fun l => ((s.single l).send .start).1.log) =
        ((s.logs.map Log.reopen).map (fun l => (l.prepare s.world).1)).map (fun l => (l.act s.world).2.1) := by
      rw [List.map_map, List.map_map]
      exact List.map_congr_left (fun l hl => by rw [hshape l hl]; rfl)
    refine ⟨?_, fun l hl => ?_⟩
    · simp only [Sys.send, ha, Bool.not_true, Bool.false_eq_true, if_false, hpm, Sys.logAll, ham, nextSt, hlogs]
    · rw [hshape l hl]
      obtain ⟨hi, hn⟩ := hall l hl
      have hr := startLog_rule (s.single l) hi
      exact ⟨act_nodrain_world _ _ ⟨by rw [hr]; exact hn.1, by rw [hr]; exact hn.2⟩, rfl, ha⟩

/-- one step of the multi-log logger, log by log -/
theorem multi_step (s : Sys) (op : Op) (hm : Multi s) (hok : ∀ c, op = .ctl c → ctlOk s.status c = true) :
    (s.step op).1.logs = s.logs.map (fun l => ((s.single l).step op).1.log) ∧
    (∀ l ∈ s.logs, (s.step op).1.single ((s.single l).step op).1.log = ((s.single l).step op).1) ∧
    (s.step op).1.alive = true ∧
    (s.step op).1.status = (match op with | .w _ => s.status | .ctl c => nextSt s.status c) := by
  cases op with
  | w o =>
    refine ⟨by simp [Sys.step, S1.step, Sys.single], fun l _ => rfl, hm.1, rfl⟩
  | ctl c =>
    obtain ⟨h1, h2⟩ := multi_send s c hm (hok c rfl)
    simp only [Sys.step, S1.step]
    rw [h1]
    refine ⟨rfl, fun l hl => ?_, rfl, rfl⟩
    obtain ⟨w1, w2, w3⟩ := h2 l hl
    generalize ((s.single l).send c).1 = X at w1 w2 w3
    cases X
    simp only at w1 w2 w3
    subst w1 w2 w3
    rfl

theorem multi_exec (s : Sys) (h : List Op) (hm : Multi s) (hp : proto s.status h = true) :
    (s.exec h).logs = s.logs.map (fun l => ((s.single l).exec h).log) := by
  induction h generalizing s with
  | nil => simp [Sys.exec, S1.exec, Sys.single]
  | cons op rest ih =>
    have hok : ∀ c, op = .ctl c → ctlOk s.status c = true := by
      intro c hc; subst hc
      simp only [proto, Bool.and_eq_true] at hp; exact hp.1
    obtain ⟨m1, m2, m3, m4⟩ := multi_step s op hm hok
    have hp' : proto (s.step op).1.status rest = true := by
      rw [m4]
      cases op with
      | w o => exact hp
      | ctl c => simp only [proto, Bool.and_eq_true] at hp; exact hp.2
    have hm' : Multi (s.step op).1 := by
      refine ⟨m3, ?_⟩
      intro l' hl'
      rw [m1, List.mem_map] at hl'
      obtain ⟨l, hl, rfl⟩ := hl'
      obtain ⟨hi, hn⟩ := hm.2 l hl
      rw [m2 l hl]
      exact ⟨(Inv_step (s.single l) op hi (by exact hok)).1, by
        have := (step_rule (s.single l) op hi hok).1
        exact ⟨by rw [this]; exact hn.1, by rw [this]; exact hn.2⟩⟩
    simp only [Sys.exec]
    rw [ih _ hm' hp', m1, List.map_map]
    apply List.map_congr_left
    intro l hl
    simp only [Function.comp, S1.exec]
    rw [m2 l hl]

end Ioflo.LogRules
