import IofloModel.Model.Marks
/-!
Helper lemmas and specification vocabulary for C20 (`Props/C20.lean`).  Core Lean only.
-/
namespace Ioflo.Marks

/-! ## update histories -/

theorem rev_ind {α : Type} {P : List α → Prop} (nil : P [])
    (snoc : ∀ l a, P l → P (l ++ [a])) : ∀ l, P l := by
  intro l
  have h : ∀ r : List α, P r.reverse := by
    intro r
    induction r with
    | nil => simpa using nil
    | cons a r ih => simpa using snoc _ a ih
  simpa using h l.reverse

def USorted (h : List UEv) : Prop := h.Pairwise (fun a b => a.time ≤ b.time)

def UpdatedSpec (h : List UEv) : Prop :=
  ∃ u, UEv.upd u ∈ h ∧ (∀ m, UEv.entry m ∈ h → m ≤ u) ∧ (∀ m, UEv.transit m ∈ h → m < u)

theorem urun_snoc (h : List UEv) (e : UEv) : urun (h ++ [e]) = ustep (urun h) e := by
  simp [urun, List.foldl_append]

/-- what the three slots hold after a time-sorted history -/
structure UInv (h : List UEv) (s : UState) : Prop where
  s_none : s.sstamp = none → ∀ t, UEv.upd t ∉ h
  s_some : ∀ t, s.sstamp = some t → UEv.upd t ∈ h ∧ ∀ t', UEv.upd t' ∈ h → t' ≤ t
  m_none : s.mstamp = none → ∀ t, UEv.entry t ∉ h ∧ UEv.transit t ∉ h
  m_some : ∀ t, s.mstamp = some t → (UEv.entry t ∈ h ∨ UEv.transit t ∈ h) ∧
            ∀ t', (UEv.entry t' ∈ h ∨ UEv.transit t' ∈ h) → t' ≤ t
  x_none : s.mused = none → ∀ t, UEv.transit t ∉ h
  x_some : ∀ t, s.mused = some t → UEv.transit t ∈ h ∧ ∀ t', UEv.transit t' ∈ h → t' ≤ t

theorem uinv (h : List UEv) (hs : USorted h) : UInv h (urun h) := by
  induction h using rev_ind with
  | nil => constructor <;> simp [urun]
  | snoc h e ih =>
    have hs' : USorted h ∧ ∀ b ∈ h, b.time ≤ e.time := by
      unfold USorted at hs
      rw [List.pairwise_append] at hs
      exact ⟨hs.1, fun b hb => hs.2.2 b hb e (by simp)⟩
    have ih := ih hs'.1
    have hle := hs'.2
    rw [urun_snoc]
    cases e with
    | upd t =>
      constructor
      · intro h0; simp [ustep] at h0
      · intro t1 h1
        simp [ustep] at h1; subst h1
        refine ⟨by simp, ?_⟩
        intro t' ht'
        simp at ht'
        rcases ht' with ht' | ht'
        · exact hle _ ht'
        · omega
      · intro h0 t1; have := ih.m_none (by simpa [ustep] using h0) t1; simpa using this
      · intro t1 h1
        have := ih.m_some t1 (by simpa [ustep] using h1)
        simpa using this
      · intro h0 t1; have := ih.x_none (by simpa [ustep] using h0) t1; simpa using this
      · intro t1 h1
        have := ih.x_some t1 (by simpa [ustep] using h1)
        simpa using this
    | entry t =>
      constructor
      · intro h0 t1; have := ih.s_none (by simpa [ustep] using h0) t1; simpa using this
      · intro t1 h1
        have := ih.s_some t1 (by simpa [ustep] using h1)
        simpa using this
      · intro h0; simp [ustep] at h0
      · intro t1 h1
        simp [ustep] at h1; subst h1
        refine ⟨by simp, ?_⟩
        intro t' ht'
        simp at ht'
        rcases ht' with (ht' | ht') | ht'
        · exact hle _ ht'
        · omega
        · exact hle _ ht'
      · intro h0 t1; have := ih.x_none (by simpa [ustep] using h0) t1; simpa using this
      · intro t1 h1
        have := ih.x_some t1 (by simpa [ustep] using h1)
        simpa using this
    | transit t =>
      constructor
      · intro h0 t1; have := ih.s_none (by simpa [ustep] using h0) t1; simpa using this
      · intro t1 h1
        have := ih.s_some t1 (by simpa [ustep] using h1)
        simpa using this
      · intro h0; simp [ustep] at h0
      · intro t1 h1
        simp [ustep] at h1; subst h1
        refine ⟨by simp, ?_⟩
        intro t' ht'
        simp at ht'
        rcases ht' with ht' | ht' | ht'
        · exact hle _ ht'
        · exact hle _ ht'
        · omega
      · intro h0; simp [ustep] at h0
      · intro t1 h1
        simp [ustep] at h1; subst h1
        refine ⟨by simp, ?_⟩
        intro t' ht'
        simp at ht'
        rcases ht' with ht' | ht'
        · exact hle _ ht'
        · omega




/-! ## change histories -/

theorem cfold_data (h : List CEv) (c c' : CState) (hd : c.data = c'.data) :
    (h.foldl cstep c).data = (h.foldl cstep c').data := by
  induction h generalizing c c' with
  | nil => exact hd
  | cons e h ih =>
    cases e with
    | write fs => simp only [List.foldl, cstep]; exact ih _ _ (by simp [hd])
    | snap => simp only [List.foldl, cstep]; exact ih _ _ hd

theorem cfold_snap (h : List CEv) (c : CState) (hp : CEv.snap ∉ h) :
    (h.foldl cstep c).snap = c.snap := by
  induction h generalizing c with
  | nil => rfl
  | cons e h ih =>
    cases e with
    | write fs =>
      simp only [List.foldl, cstep]
      rw [ih _ (fun hh => hp (List.mem_cons_of_mem _ hh))]
    | snap => exact absurd (List.mem_cons_self) hp

theorem fieldChanged_iff (snap : Fields) (kv : String × PyVal) :
    fieldChanged snap kv = true ↔ ∀ w, snap.lookup kv.1 = some w → pyEq w kv.2 = false := by
  unfold fieldChanged
  cases h : snap.lookup kv.1 with
  | none => simp
  | some w => simp


/-! ### field names are unique in a data record -/

theorem pyEq_refl (v : PyVal) : pyEq v v = true := by
  cases v <;> simp [pyEq, PyVal.num?]

def KeysNodup (d : Fields) : Prop := (d.map Prod.fst).Nodup

theorem setField_keys (d : Fields) (k : String) (v : PyVal) :
    (setField d k v).map Prod.fst = if k ∈ d.map Prod.fst then d.map Prod.fst else d.map Prod.fst ++ [k] := by
  induction d with
  | nil => simp [setField]
  | cons kv d ih =>
    obtain ⟨k', v'⟩ := kv
    simp only [setField]
    by_cases h : k' = k
    · subst h; simp
    · simp only [h, if_false, List.map_cons, ih, List.mem_cons]
      have : ¬ k = k' := fun e => h e.symm
      by_cases hm : k ∈ d.map Prod.fst
      · simp [hm]
      · simp [hm, this]

theorem setField_nodup (d : Fields) (k : String) (v : PyVal) (h : KeysNodup d) : KeysNodup (setField d k v) := by
  unfold KeysNodup at *
  rw [setField_keys]
  split
  · exact h
  · rename_i hn
    rw [List.nodup_append]
    refine ⟨h, by simp, ?_⟩
    intro a ha b hb
    simp at hb; subst hb
    intro e; subst e; exact hn ha

theorem setFields_nodup (fs d : Fields) (h : KeysNodup d) : KeysNodup (setFields d fs) := by
  unfold setFields
  induction fs generalizing d with
  | nil => exact h
  | cons kv fs ih => simp only [List.foldl_cons]; exact ih _ (setField_nodup _ _ _ h)

theorem crun_nodup (init : Fields) (h : List CEv) (hi : KeysNodup init) : KeysNodup (crun init h).data := by
  unfold crun
  have : ∀ (c : CState), KeysNodup c.data → KeysNodup (h.foldl cstep c).data := by
    induction h with
    | nil => intro c hc; exact hc
    | cons e h ih =>
      intro c hc
      cases e with
      | write fs => exact ih _ (setFields_nodup _ _ hc)
      | snap => exact ih _ hc
  exact this _ hi

theorem lookup_of_mem (d : Fields) (h : KeysNodup d) (f : String) (v : PyVal) (hm : (f, v) ∈ d) :
    d.lookup f = some v := by
  induction d with
  | nil => cases hm
  | cons kv d ih =>
    obtain ⟨k', v'⟩ := kv
    unfold KeysNodup at h
    simp only [List.map_cons, List.nodup_cons] at h
    simp only [List.lookup_cons]
    rcases List.mem_cons.1 hm with e | hm'
    · cases e; simp
    · have : f ≠ k' := by
        intro e; subst e
        exact h.1 (List.mem_map.2 ⟨(f, v), hm', rfl⟩)
      have hb : (f == k') = false := by simpa using this
      simp only [hb]
      exact ih h.2 hm'


theorem mem_setField_self (d : Fields) (f : String) (v : PyVal) : (f, v) ∈ setField d f v := by
  induction d with
  | nil => simp [setField]
  | cons kv d ih =>
    obtain ⟨k', v'⟩ := kv
    simp only [setField]
    by_cases h : k' = f
    · subst h; simp
    · simp only [h, if_false, List.mem_cons]; exact Or.inr ih

theorem mem_setField (d : Fields) (f : String) (v : PyVal) (g : String) (w : PyVal)
    (h : (g, w) ∈ setField d f v) : (g = f ∧ w = v) ∨ (g, w) ∈ d := by
  induction d with
  | nil => simp [setField] at h; exact Or.inl h
  | cons kv d ih =>
    obtain ⟨k', v'⟩ := kv
    simp only [setField] at h
    by_cases hk : k' = f
    · subst hk
      simp only [if_true, List.mem_cons, Prod.mk.injEq] at h
      rcases h with h | h
      · exact Or.inl h
      · exact Or.inr (List.mem_cons_of_mem _ h)
    · simp only [hk, if_false, List.mem_cons] at h
      rcases h with h | h
      · exact Or.inr (by rw [h]; exact List.mem_cons_self)
      · rcases ih h with h | h
        · exact Or.inl h
        · exact Or.inr (List.mem_cons_of_mem _ h)

/-! ## views of a world: the stamp side and the data side of one (share, mark) pair -/

/-! world views -/

theorem lookup_modifyMark (ms : List ((Nat × String) × Mark)) (k k' : Nat × String) (f : Mark → Mark) :
    (modifyMark ms k f).lookup k' = if k' = k then (ms.lookup k').map f else ms.lookup k' := by
  induction ms with
  | nil => simp [modifyMark]
  | cons km ms ih =>
    obtain ⟨k0, m0⟩ := km
    have hcons : modifyMark ((k0, m0) :: ms) k f
        = (if k0 = k then (k0, f m0) else (k0, m0)) :: modifyMark ms k f := by
      simp [modifyMark]
    rw [hcons]
    by_cases h0 : k0 = k
    · simp only [h0, if_true, List.lookup_cons]
      cases hb : (k' == k) with
      | true =>
        have : k' = k := by simpa using hb
        simp [this]
      | false =>
        have : ¬ k' = k := by simpa using hb
        simp only [ih, this, if_false]
    · simp only [h0, if_false, List.lookup_cons]
      cases hb : (k' == k0) with
      | true =>
        have : k' = k0 := by simpa using hb
        subst this
        simp [h0]
      | false => simp only [ih]

/-- projection of a timed act on the stamp side of (share `s`, mark `key`) -/
def projU (s : Nat) (key : String) : Nat × Act → Option UEv
  | (t, .write (.put s' _)) => if s' = s then some (.upd t) else none
  | (_, .write (.chg _ _)) => none
  | (t, .marker tr r) =>
    if r = ⟨.update, s, key⟩ then some (if tr then .transit t else .entry t) else none

/-- the stamp side of (share `s`, mark `key`) in a world -/
def uview (w : World) (s : Nat) (key : String) : Option UState :=
  match w.shares[s]?, w.marks.lookup (s, key) with
  | some sh, some m => some ⟨sh.stamp, m.stamp, m.used⟩
  | _, _ => none

def ustepO (u : UState) : Option UEv → UState
  | some e => ustep u e
  | none => u

theorem uview_applyAct (w : World) (s : Nat) (key : String) (u : UState) (t : Nat) (a : Act)
    (h : uview w s key = some u) :
    uview (applyAct t w a) s key = some (ustepO u (projU s key (t, a))) := by
  unfold uview at h ⊢
  cases hsh : w.shares[s]? with
  | none => simp [hsh] at h
  | some sh =>
    cases hm : w.marks.lookup (s, key) with
    | none => simp [hsh, hm] at h
    | some m =>
      simp only [hsh, hm, Option.some.injEq] at h
      subst h
      cases a with
      | write wr =>
        cases wr with
        | put s' fs =>
          simp only [applyAct, projU, List.getElem?_modify, hm]
          by_cases hs : s' = s
          · subst hs; simp [hsh, ustepO, ustep, Share.update]
          · simp [hs, hsh, ustepO]
        | chg s' fs =>
          simp only [applyAct, projU, List.getElem?_modify, hm]
          by_cases hs : s' = s
          · subst hs; simp [hsh, ustepO, Share.change]
          · simp [hs, hsh, ustepO]
      | marker tr r =>
        obtain ⟨k, s', key'⟩ := r
        cases k with
        | update =>
          simp only [applyAct, projU, lookup_modifyMark, hsh, hm]
          by_cases hk : (s, key) = (s', key')
          · cases hk
            cases tr <;> simp [ustepO, ustep, markerUpdate]
          · have : ¬ (MarkRef.mk Kind.update s' key' = ⟨.update, s, key⟩) := by
              intro e; injection e with _ e1 e2; exact hk (by rw [e1, e2])
            simp [hk, this, ustepO]
        | change =>
          have hne : ¬ (MarkRef.mk Kind.change s' key' = ⟨.update, s, key⟩) := by
            intro e; injection e with e0; cases e0
          simp only [applyAct, projU, hne, if_false, ustepO]
          cases hs' : w.shares[s']? with
          | none => simp [hsh, hm]
          | some sh' =>
            simp only [lookup_modifyMark, hsh, hm]
            by_cases hk : (s, key) = (s', key')
            · simp [hk, markerChange]
            · simp [hk]

theorem uview_applyLog (log : Log) (w : World) (s : Nat) (key : String) (u : UState)
    (h : uview w s key = some u) :
    uview (applyLog w log) s key = some ((log.filterMap (projU s key)).foldl ustep u) := by
  induction log generalizing w u with
  | nil => simpa [applyLog] using h
  | cons ta log ih =>
    obtain ⟨t, a⟩ := ta
    have h1 := uview_applyAct w s key u t a h
    have := ih _ _ h1
    unfold applyLog at this ⊢
    simp only [List.foldl_cons]
    rw [this]
    cases hp : projU s key (t, a) with
    | none => simp [hp, ustepO]
    | some e => simp [hp, ustepO]

def projC (s : Nat) (key : String) : Nat × Act → Option CEv
  | (_, .write (.put s' fs)) => if s' = s then some (.write fs) else none
  | (_, .write (.chg s' fs)) => if s' = s then some (.write fs) else none
  | (_, .marker _ r) => if r = ⟨.change, s, key⟩ then some .snap else none

def cview (w : World) (s : Nat) (key : String) : Option CState :=
  match w.shares[s]?, w.marks.lookup (s, key) with
  | some sh, some m => some ⟨sh.data, m.data⟩
  | _, _ => none

def cstepO (c : CState) : Option CEv → CState
  | some e => cstep c e
  | none => c

theorem cview_applyAct (w : World) (s : Nat) (key : String) (c : CState) (t : Nat) (a : Act)
    (h : cview w s key = some c) :
    cview (applyAct t w a) s key = some (cstepO c (projC s key (t, a))) := by
  unfold cview at h ⊢
  cases hsh : w.shares[s]? with
  | none => simp [hsh] at h
  | some sh =>
    cases hm : w.marks.lookup (s, key) with
    | none => simp [hsh, hm] at h
    | some m =>
      simp only [hsh, hm, Option.some.injEq] at h
      subst h
      cases a with
      | write wr =>
        cases wr with
        | put s' fs =>
          simp only [applyAct, projC, List.getElem?_modify, hm]
          by_cases hs : s' = s
          · subst hs; simp [hsh, cstepO, cstep, Share.update]
          · simp [hs, hsh, cstepO]
        | chg s' fs =>
          simp only [applyAct, projC, List.getElem?_modify, hm]
          by_cases hs : s' = s
          · subst hs; simp [hsh, cstepO, cstep, Share.change]
          · simp [hs, hsh, cstepO]
      | marker tr r =>
        obtain ⟨k, s', key'⟩ := r
        cases k with
        | update =>
          have hne : ¬ (MarkRef.mk Kind.update s' key' = ⟨.change, s, key⟩) := by
            intro e; injection e with e0; cases e0
          simp only [applyAct, projC, hne, if_false, cstepO, lookup_modifyMark, hsh, hm]
          by_cases hk : (s, key) = (s', key')
          · cases tr <;> simp [hk, markerUpdate]
          · simp [hk]
        | change =>
          simp only [applyAct, projC]
          by_cases hk : (s, key) = (s', key')
          · cases hk
            simp [hsh, hm, lookup_modifyMark, cstepO, cstep, markerChange]
          · have : ¬ (MarkRef.mk Kind.change s' key' = ⟨.change, s, key⟩) := by
              intro e; injection e with _ e1 e2; exact hk (by rw [e1, e2])
            simp only [this, if_false, cstepO]
            cases hs' : w.shares[s']? with
            | none => simp [hsh, hm]
            | some sh' => simp [lookup_modifyMark, hsh, hm, hk]

theorem cview_applyLog (log : Log) (w : World) (s : Nat) (key : String) (c : CState)
    (h : cview w s key = some c) :
    cview (applyLog w log) s key = some ((log.filterMap (projC s key)).foldl cstep c) := by
  induction log generalizing w c with
  | nil => simpa [applyLog] using h
  | cons ta log ih =>
    obtain ⟨t, a⟩ := ta
    have h1 := cview_applyAct w s key c t a h
    have := ih _ _ h1
    unfold applyLog at this ⊢
    simp only [List.foldl_cons]
    rw [this]
    cases hp : projC s key (t, a) with
    | none => simp [hp, cstepO]
    | some e => simp [hp, cstepO]

/-! initial world -/
theorem lookup_fresh (ks : List (Nat × String)) (k : Nat × String) (h : k ∈ ks) :
    (ks.map (fun k => (k, ({} : Mark)))).lookup k = some {} := by
  induction ks with
  | nil => cases h
  | cons k0 ks ih =>
    simp only [List.map_cons, List.lookup_cons]
    cases hb : (k == k0) with
    | true => rfl
    | false =>
      have : k ≠ k0 := by simpa using hb
      rcases List.mem_cons.1 h with h | h
      · exact absurd h this
      · exact ih h

theorem initWorld_share (r : Resolved) (inits : List Fields) (s : Nat) (hs : s < inits.length) :
    (initWorld r inits).shares[s]? = some { data := inits[s] } := by
  simp [initWorld, hs]

/-! ## logs of a run -/

theorem applyLog_append (w : World) (a b : Log) : applyLog w (a ++ b) = applyLog (applyLog w a) b := by
  simp [applyLog, List.foldl_append]

theorem applyActs_eq_applyLog (now : Nat) (w : World) (acts : List Act) :
    applyActs now w acts = applyLog w (acts.map (fun a => (now, a))) := by
  unfold applyActs applyLog
  induction acts generalizing w with
  | nil => rfl
  | cons a acts ih => simp only [List.map_cons, List.foldl_cons]; exact ih _

theorem applyActs_append (now : Nat) (w : World) (a b : List Act) :
    applyActs now w (a ++ b) = applyActs now (applyActs now w a) b := by
  simp [applyActs, List.foldl_append]

theorem tick_world (r : Resolved) (now : Nat) (first : Bool) (s : RState) (wb wa : List Write) :
    (tick r now first s wb wa).1.world = applyActs now s.world (tick r now first s wb wa).2.2 := by
  simp only [tick, applyActs_append]

theorem runTicks_world (r : Resolved) (sched : Schedule) (now : Nat) (first : Bool) (s : RState) :
    (runTicks r now first s sched).1.world = applyLog s.world (runTicks r now first s sched).2.2 := by
  induction sched generalizing now first s with
  | nil => simp [runTicks, applyLog]
  | cons t rest ih =>
    obtain ⟨wb, wa⟩ := t
    simp only [runTicks]
    rw [ih, applyLog_append, tick_world, applyActs_eq_applyLog]

def LogSorted (log : Log) : Prop := log.Pairwise (fun a b => a.1 ≤ b.1)

theorem runTicks_sorted (r : Resolved) (sched : Schedule) (now : Nat) (first : Bool) (s : RState) :
    LogSorted (runTicks r now first s sched).2.2 ∧ ∀ ta ∈ (runTicks r now first s sched).2.2, now ≤ ta.1 := by
  induction sched generalizing now first s with
  | nil => simp [runTicks, LogSorted]
  | cons t rest ih =>
    obtain ⟨wb, wa⟩ := t
    simp only [runTicks]
    have := ih (now + 1) false (tick r now first s wb wa).1
    refine ⟨?_, ?_⟩
    · unfold LogSorted
      rw [List.pairwise_append]
      refine ⟨?_, this.1, ?_⟩
      · rw [List.pairwise_map]
        exact List.pairwise_of_forall (fun _ _ => Nat.le_refl _)
      · intro a ha b hb
        have hb' := this.2 b hb
        simp only [List.mem_map] at ha
        obtain ⟨x, _, rfl⟩ := ha
        simp only
        omega
    · intro ta hta
      rcases List.mem_append.1 hta with h | h
      · simp only [List.mem_map] at h
        obtain ⟨x, _, rfl⟩ := h
        exact Nat.le_refl _
      · have := this.2 ta h
        omega

/-! ## placement of the marker acts by resolve -/

/-- element-wise relation between two lists of equal length -/
inductive All2 {α β : Type} (R : α → β → Prop) : List α → List β → Prop
  | nil : All2 R [] []
  | cons {a b as bs} : R a b → All2 R as bs → All2 R (a :: as) (b :: bs)

def srcKey (names : List String) (i : Nat) (n : NeedSrc) : String :=
  if n.by_ ≠ "" then n.by_ else names.getD i ""

/-- need `n` (home frame `home`) asks for marker `m` as an enact of frame `i` -/
def Req (names : List String) (home : Nat) (n : NeedSrc) (i : Nat) (m : MarkRef) : Prop :=
  n.clause ≠ .absent ∧ needFrame names home n.clause = .ok i ∧ m = ⟨n.kind, n.share, srcKey names i n⟩

/-- resolved need `nd` is what `NeedMarker._resolve` makes of `n` -/
def NeedOf (names : List String) (home : Nat) (n : NeedSrc) (nd : Need) : Prop :=
  ∃ fi, needFrame names home n.clause = .ok fi ∧ nd = ⟨n.kind, n.neg, n.share, srcKey names fi n⟩

structure Ext (pl pl' : Placement) (R : Nat → MarkRef → Prop) : Prop where
  len : pl'.enacts.length = pl.enacts.length
  mem : ∀ i m, m ∈ pl'.enacts.getD i [] ↔ m ∈ pl.enacts.getD i [] ∨ R i m
  nodup : (∀ i, (pl.enacts.getD i []).Nodup) → ∀ i, (pl'.enacts.getD i []).Nodup
  keys : ∀ k, k ∈ pl.keys → k ∈ pl'.keys

theorem Ext.refl (pl : Placement) : Ext pl pl (fun _ _ => False) :=
  ⟨rfl, by simp, fun h => h, fun _ h => h⟩

theorem Ext.trans {pl pl' pl'' : Placement} {R R' : Nat → MarkRef → Prop}
    (a : Ext pl pl' R) (b : Ext pl' pl'' R') : Ext pl pl'' (fun i m => R i m ∨ R' i m) :=
  ⟨b.len.trans a.len, fun i m => by rw [b.mem, a.mem]; simp [or_assoc],
   fun h => b.nodup (a.nodup h), fun k h => b.keys k (a.keys k h)⟩

theorem Ext.congr {pl pl' : Placement} {R R' : Nat → MarkRef → Prop}
    (a : Ext pl pl' R) (h : ∀ i m, R i m ↔ R' i m) : Ext pl pl' R' :=
  ⟨a.len, fun i m => by rw [a.mem, h], a.nodup, a.keys⟩

theorem frameIdx?_lt {names : List String} {f : String} {i : Nat} (h : frameIdx? names f = some i) :
    i < names.length := by
  unfold frameIdx? at h
  simp only at h
  split at h
  · cases h; assumption
  · cases h

theorem needFrame_lt {names : List String} {home i : Nat} {c : Clause} (hh : home < names.length)
    (h : needFrame names home c = .ok i) : i < names.length := by
  cases c with
  | absent => simp [needFrame] at h; omega
  | me => simp [needFrame] at h; omega
  | named f =>
    simp only [needFrame] at h
    split at h
    · cases h; exact hh
    · split at h
      · rename_i j hj; cases h; exact frameIdx?_lt hj
      · cases h

theorem insertEnact_getD (en : List (List MarkRef)) (j : Nat) (r : MarkRef) (hj : j < en.length) (i : Nat) :
    (insertEnact en j r).getD i [] =
      if j = i then (if r ∈ en.getD i [] then en.getD i [] else r :: en.getD i []) else en.getD i [] := by
  unfold insertEnact
  simp only [List.getD_eq_getElem?_getD, List.getElem?_modify]
  by_cases h : j = i
  · subst h
    simp only [if_true]
    have : en[j]? = some en[j] := by simp [hj]
    simp [this]
  · simp [h]

theorem addKey_mem (ks : List (Nat × String)) (k k' : Nat × String) :
    k' ∈ addKey ks k ↔ k' ∈ ks ∨ k' = k := by
  unfold addKey
  split
  · constructor
    · exact Or.inl
    · rintro (h | h)
      · exact h
      · subst h; assumption
  · simp

theorem resolveNeed_ext {names : List String} {home : Nat} {pl pl' : Placement} {n : NeedSrc} {nd : Need}
    (hl : pl.enacts.length = names.length) (hh : home < names.length)
    (h : resolveNeed names home pl n = .ok (nd, pl')) :
    Ext pl pl' (Req names home n) ∧ NeedOf names home n nd ∧ (nd.share, nd.key) ∈ pl'.keys := by
  unfold resolveNeed at h
  cases hf : needFrame names home n.clause with
  | error e => simp [hf, bind, Except.bind] at h
  | ok fi =>
    have hfi := needFrame_lt hh hf
    have hkey : (if n.by_ ≠ "" then n.by_ else names.getD fi "") = srcKey names fi n := rfl
    simp only [hf, bind, Except.bind, pure, Except.pure, Except.ok.injEq, Prod.mk.injEq, hkey] at h
    obtain ⟨h1, h2⟩ := h
    subst h1
    refine ⟨?_, ⟨fi, hf, rfl⟩, ?_⟩
    · subst h2
      by_cases hc : n.clause = .absent
      · simp only [hc, ne_eq, not_true_eq_false, if_false]
        refine ⟨rfl, ?_, fun h => h, fun k hk => (addKey_mem _ _ _).2 (Or.inl hk)⟩
        intro i m; simp [Req, hc]
      · simp only [ne_eq, hc, not_false_eq_true, if_true, Need.ref]
        have hreq : ∀ i m, Req names home n i m ↔ (fi = i ∧ m = ⟨n.kind, n.share, srcKey names fi n⟩) := by
          intro i m
          simp only [Req, ne_eq, hc, not_false_eq_true, true_and, hf, Except.ok.injEq]
          constructor
          · rintro ⟨rfl, h⟩; exact ⟨rfl, h⟩
          · rintro ⟨rfl, h⟩; exact ⟨rfl, h⟩
        generalize (MarkRef.mk n.kind n.share (srcKey names fi n)) = r at hreq ⊢
        refine ⟨by simp [insertEnact], ?_, ?_, fun k hk => (addKey_mem _ _ _).2 (Or.inl hk)⟩
        · intro i m
          rw [insertEnact_getD _ _ _ (by omega), hreq]
          by_cases hi : fi = i
          · subst hi
            simp only [if_true, true_and]
            by_cases hin : r ∈ pl.enacts.getD fi []
            · simp only [hin, if_true]
              constructor
              · exact Or.inl
              · rintro (h | rfl)
                · exact h
                · exact hin
            · simp only [hin, if_false, List.mem_cons]
              constructor
              · rintro (h | h)
                · exact Or.inr h
                · exact Or.inl h
              · rintro (h | h)
                · exact Or.inr h
                · exact Or.inl h
          · simp [hi]
        · intro hnd i
          rw [insertEnact_getD _ _ _ (by omega)]
          by_cases hi : fi = i
          · subst hi
            simp only [if_true]
            by_cases hin : r ∈ pl.enacts.getD fi []
            · simp only [hin, if_true]; exact hnd fi
            · simp only [hin, if_false]
              exact List.nodup_cons.2 ⟨hin, hnd fi⟩
          · simp only [hi, if_false]; exact hnd i
    · subst h2
      exact (addKey_mem _ _ _).2 (Or.inr rfl)

theorem resolveNeeds_ext {names : List String} {home : Nat} (hh : home < names.length) :
    ∀ {ns : List NeedSrc} {pl pl' : Placement} {ns' : List Need},
    pl.enacts.length = names.length → resolveNeeds names home pl ns = .ok (ns', pl') →
    Ext pl pl' (fun i m => ∃ n ∈ ns, Req names home n i m) ∧ All2 (NeedOf names home) ns ns' ∧
      ∀ nd ∈ ns', (nd.share, nd.key) ∈ pl'.keys := by
  intro ns
  induction ns with
  | nil =>
    intro pl pl' ns' hl h
    simp only [resolveNeeds, Except.ok.injEq, Prod.mk.injEq] at h
    obtain ⟨rfl, rfl⟩ := h
    exact ⟨(Ext.refl pl).congr (by simp), All2.nil, by simp⟩
  | cons n ns ih =>
    intro pl pl' ns' hl h
    simp only [resolveNeeds, bind, Except.bind] at h
    cases h1 : resolveNeed names home pl n with
    | error e => simp [h1] at h
    | ok r1 =>
      obtain ⟨nd, pl1⟩ := r1
      simp only [h1] at h
      cases h2 : resolveNeeds names home pl1 ns with
      | error e => simp [h2] at h
      | ok r2 =>
        obtain ⟨nds, pl2⟩ := r2
        simp only [h2, pure, Except.pure, Except.ok.injEq, Prod.mk.injEq] at h
        obtain ⟨rfl, rfl⟩ := h
        obtain ⟨e1, o1, k1⟩ := resolveNeed_ext hl hh h1
        obtain ⟨e2, o2, k2⟩ := ih (e1.len.trans hl) h2
        refine ⟨(e1.trans e2).congr ?_, All2.cons o1 o2, ?_⟩
        · intro i m; simp
        · intro x hx
          rcases List.mem_cons.1 hx with rfl | hx
          · exact e2.keys _ k1
          · exact k2 x hx

/-- resolved transition `t'` is what `Transiter._resolve` makes of `t` -/
def TransOf (names : List String) (home : Nat) (t : TransSrc) (t' : Trans) : Prop :=
  resolveFar names home t.far = .ok t'.far ∧ All2 (NeedOf names home) t.needs t'.needs

theorem resolveTranss_ext {names : List String} {home : Nat} (hh : home < names.length) :
    ∀ {ts : List TransSrc} {pl pl' : Placement} {ts' : List Trans},
    pl.enacts.length = names.length → resolveTranss names home pl ts = .ok (ts', pl') →
    Ext pl pl' (fun i m => ∃ t ∈ ts, ∃ n ∈ t.needs, Req names home n i m) ∧
      All2 (TransOf names home) ts ts' ∧
      ∀ t' ∈ ts', ∀ nd ∈ t'.needs, (nd.share, nd.key) ∈ pl'.keys := by
  intro ts
  induction ts with
  | nil =>
    intro pl pl' ts' hl h
    simp only [resolveTranss, Except.ok.injEq, Prod.mk.injEq] at h
    obtain ⟨rfl, rfl⟩ := h
    exact ⟨(Ext.refl pl).congr (by simp), All2.nil, by simp⟩
  | cons t ts ih =>
    intro pl pl' ts' hl h
    simp only [resolveTranss, bind, Except.bind] at h
    cases h0 : resolveFar names home t.far with
    | error e => simp [h0] at h
    | ok far =>
      simp only [h0] at h
      cases h1 : resolveNeeds names home pl t.needs with
      | error e => simp [h1] at h
      | ok r1 =>
        obtain ⟨nds, pl1⟩ := r1
        simp only [h1] at h
        cases h2 : resolveTranss names home pl1 ts with
        | error e => simp [h2] at h
        | ok r2 =>
          obtain ⟨tl, pl2⟩ := r2
          simp only [h2, pure, Except.pure, Except.ok.injEq, Prod.mk.injEq] at h
          obtain ⟨rfl, rfl⟩ := h
          obtain ⟨e1, o1, k1⟩ := resolveNeeds_ext hh hl h1
          obtain ⟨e2, o2, k2⟩ := ih (e1.len.trans hl) h2
          refine ⟨(e1.trans e2).congr ?_, All2.cons ⟨h0, o1⟩ o2, ?_⟩
          · intro i m; simp
          · intro x hx nd hnd
            rcases List.mem_cons.1 hx with rfl | hx
            · exact e2.keys _ (k1 nd hnd)
            · exact k2 x hx nd hnd

/-- every marker need written in a frame: the entry needs, then the needs of its transitions -/
def needsOfFrame (f : FrameSrc) : List NeedSrc := f.gneeds ++ f.trans.flatMap (·.needs)

/-- resolved frame `f'` (index `home`) is what resolve makes of `f` -/
def FrameOf (names : List String) (home : Nat) (f : FrameSrc) (f' : Frame) : Prop :=
  f'.name = f.name ∧ resolveOver names f.over = .ok f'.over ∧ f'.guards = f.guards ∧ f'.enter = f.enter ∧ f'.recur = f.recur ∧ f'.exit = f.exit ∧
  All2 (TransOf names home) f.trans f'.trans ∧ All2 (NeedOf names home) f.gneeds f'.gneeds

theorem resolveFrames_ext {names : List String} :
    ∀ {fs : List FrameSrc} {j : Nat} {pl pl' : Placement} {fs' : List Frame},
    j + fs.length ≤ names.length →
    pl.enacts.length = names.length → resolveFrames names j pl fs = .ok (fs', pl') →
    Ext pl pl' (fun i m => ∃ k f, fs[k]? = some f ∧ ∃ n ∈ needsOfFrame f, Req names (j + k) n i m) ∧
      fs'.length = fs.length ∧
      (∀ k f f', fs[k]? = some f → fs'[k]? = some f' → FrameOf names (j + k) f f') ∧
      ∀ f' ∈ fs', (∀ nd ∈ f'.gneeds, (nd.share, nd.key) ∈ pl'.keys) ∧
        ∀ t' ∈ f'.trans, ∀ nd ∈ t'.needs, (nd.share, nd.key) ∈ pl'.keys := by
  intro fs
  induction fs with
  | nil =>
    intro j pl pl' fs' hj hl h
    simp only [resolveFrames, Except.ok.injEq, Prod.mk.injEq] at h
    obtain ⟨rfl, rfl⟩ := h
    exact ⟨(Ext.refl pl).congr (by simp), rfl, by simp, by simp⟩
  | cons f fs ih =>
    intro j pl pl' fs' hj hl h
    simp only [List.length_cons] at hj
    simp only [resolveFrames, bind, Except.bind] at h
    cases h0 : resolveNeeds names j pl f.gneeds with
    | error e => simp [h0] at h
    | ok r0 =>
      obtain ⟨gn, pl0⟩ := r0
      simp only [h0] at h
      obtain ⟨e0, o0, k0⟩ := resolveNeeds_ext (show j < names.length by omega) hl h0
      have hl0 : pl0.enacts.length = names.length := e0.len.trans hl
      cases h1 : resolveTranss names j pl0 f.trans with
      | error e => simp [h1] at h
      | ok r1 =>
        obtain ⟨ts, pl1⟩ := r1
        simp only [h1] at h
        cases hov : resolveOver names f.over with
        | error e => simp [hov] at h
        | ok ov =>
        simp only [hov] at h
        cases h2 : resolveFrames names (j + 1) pl1 fs with
        | error e => simp [h2] at h
        | ok r2 =>
          obtain ⟨fl, pl2⟩ := r2
          simp only [h2, pure, Except.pure, Except.ok.injEq, Prod.mk.injEq] at h
          obtain ⟨rfl, rfl⟩ := h
          obtain ⟨e1, o1, k1⟩ := resolveTranss_ext (show j < names.length by omega) hl0 h1
          obtain ⟨e2, l2, o2, k2⟩ := ih (show j + 1 + fs.length ≤ names.length by omega) (e1.len.trans hl0) h2
          refine ⟨((e0.trans e1).trans e2).congr ?_, by simp [l2], ?_, ?_⟩
          · intro i m
            constructor
            · rintro ((⟨n, hn, hr⟩ | ⟨t, ht, n, hn, hr⟩) | ⟨k, g, hg, n, hn, hr⟩)
              · exact ⟨0, f, by simp, n, by simp [needsOfFrame, hn], by simpa using hr⟩
              · exact ⟨0, f, by simp, n, by
                  simp only [needsOfFrame, List.mem_append, List.mem_flatMap]
                  exact Or.inr ⟨t, ht, hn⟩, by simpa using hr⟩
              · exact ⟨k + 1, g, by simpa using hg, n, hn, by
                  have : j + 1 + k = j + (k + 1) := by omega
                  rw [← this]; exact hr⟩
            · rintro ⟨k, g, hg, n, hn, hr⟩
              cases k with
              | zero =>
                simp only [List.getElem?_cons_zero, Option.some.injEq] at hg
                subst hg
                simp only [needsOfFrame, List.mem_append, List.mem_flatMap] at hn
                rcases hn with hn | ⟨t, ht, hn⟩
                · exact Or.inl (Or.inl ⟨n, hn, by simpa using hr⟩)
                · exact Or.inl (Or.inr ⟨t, ht, n, hn, by simpa using hr⟩)
              | succ k =>
                simp only [List.getElem?_cons_succ] at hg
                exact Or.inr ⟨k, g, hg, n, hn, by
                  have : j + 1 + k = j + (k + 1) := by omega
                  rw [this]; exact hr⟩
          · intro k g g' hg hg'
            cases k with
            | zero =>
              simp only [List.getElem?_cons_zero, Option.some.injEq] at hg hg'
              subst hg; subst hg'
              exact ⟨rfl, hov, rfl, rfl, rfl, rfl, by simpa using o1, by simpa using o0⟩
            | succ k =>
              simp only [List.getElem?_cons_succ] at hg hg'
              have := o2 k g g' hg hg'
              have e : j + 1 + k = j + (k + 1) := by omega
              rw [e] at this; exact this
          · intro x hx
            rcases List.mem_cons.1 hx with rfl | hx
            · exact ⟨fun nd hnd => e2.keys _ (e1.keys _ (k0 nd hnd)), fun t' ht' nd hnd => e2.keys _ (k1 t' ht' nd hnd)⟩
            · exact k2 x hx

end Ioflo.Marks
