import IofloModel.Model.ModictLists
import IofloModel.Lemmas.Containers
/-! Lemmas for the list-object model of modict: no two modicts ever hold the same list object. -/
namespace Ioflo.Containers.MLists
set_option linter.unusedSectionVars false
variable {K V : Type} [DecidableEq K]

/-- the list objects a modict holds -/
def lids (o : List (K × Nat)) : List Nat := o.map Prod.snd

theorem mem_lids_dset {o : List (K × Nat)} {k : K} {n id : Nat} (h : id ∈ lids (dset o k n)) :
    id = n ∨ id ∈ lids o := by
  obtain ⟨p, hp, rfl⟩ := List.mem_map.1 h
  rcases mem_dset hp with hp | rfl
  · exact .inr (List.mem_map.2 ⟨p, hp, rfl⟩)
  · exact .inl rfl

theorem nodup_lids_dset {o : List (K × Nat)} (k : K) {n : Nat} (hn : (lids o).Nodup) (hf : n ∉ lids o) :
    (lids (dset o k n)).Nodup := by
  induction o with
  | nil => simp [dset, lids]
  | cons p t ih =>
    obtain ⟨a, b⟩ := p
    simp only [lids, List.map_cons, List.nodup_cons, List.mem_cons, not_or] at hn hf ⊢
    by_cases e : a = k
    · simp only [dset, e, if_true, List.map_cons, List.nodup_cons]
      exact ⟨hf.2, hn.2⟩
    · simp only [dset, e, if_false, List.map_cons, List.nodup_cons]
      refine ⟨?_, ih hn.2 hf.2⟩
      intro hm
      rcases mem_lids_dset (o := t) hm with h1 | h1
      · exact hf.1 h1.symm
      · exact hn.1 h1

theorem mem_lids_ddel {o : List (K × Nat)} {k : K} {id : Nat} (h : id ∈ lids (ddel o k)) : id ∈ lids o := by
  obtain ⟨p, hp, rfl⟩ := List.mem_map.1 h
  exact List.mem_map.2 ⟨p, mem_ddel hp, rfl⟩

theorem ddel_sublist (o : List (K × Nat)) (k : K) : (ddel o k).Sublist o := by
  induction o with
  | nil => simp [ddel]
  | cons p t ih =>
    obtain ⟨a, b⟩ := p
    by_cases e : a = k
    · simp only [ddel, e, if_true]; exact List.sublist_cons_self _ _
    · simp only [ddel, e, if_false]; exact List.Sublist.cons₂ _ ih

theorem mem_lids_of_dget {o : List (K × Nat)} {k : K} {id : Nat} (h : dget o k = some id) : id ∈ lids o :=
  List.mem_map.2 ⟨(k, id), mem_of_dget h, rfl⟩

/-- no list object is held twice: not under two keys of one modict, not by two modicts; every held list exists -/
structure Sep (h : MH K V) : Prop where
  nodup : ∀ (i : Nat) (o : List (K × Nat)), h.objs[i]? = some o → (lids o).Nodup
  bound : ∀ (i : Nat) (o : List (K × Nat)), h.objs[i]? = some o → ∀ id ∈ lids o, id < h.lists.length
  disj : ∀ (i j : Nat) (oi oj : List (K × Nat)), i ≠ j → h.objs[i]? = some oi → h.objs[j]? = some oj →
    ∀ id ∈ lids oi, id ∉ lids oj

theorem Sep.empty : Sep (empty : MH K V) := ⟨by simp [MLists.empty], by simp [MLists.empty], by simp [MLists.empty]⟩

/-- replacing object `i` by one whose lists are old ones of `i` or the list just created keeps the separation -/
theorem Sep.setObj {h : MH K V} (hs : Sep h) {i : Nat} {o o' : List (K × Nat)} (L' : List (List V))
    (hi : h.objs[i]? = some o) (hlen : h.lists.length ≤ L'.length) (hnd : (lids o').Nodup)
    (hnew : ∀ id ∈ lids o', id ∈ lids o ∨ (id = h.lists.length ∧ h.lists.length < L'.length)) :
    Sep ⟨L', h.objs.set i o'⟩ := by
  have hil : i < h.objs.length := (List.getElem?_eq_some_iff.1 hi).1
  have get : ∀ j x, (h.objs.set i o')[j]? = some x → (j = i ∧ x = o') ∨ (j ≠ i ∧ h.objs[j]? = some x) := by
    intro j x hx
    rw [List.getElem?_set] at hx
    by_cases e : i = j
    · subst e; simp [hil] at hx; exact .inl ⟨rfl, hx.symm⟩
    · simp [e] at hx; exact .inr ⟨fun x => e x.symm, hx⟩
  have bnd : ∀ id ∈ lids o', id < L'.length := by
    intro id hid
    rcases hnew id hid with h1 | ⟨h1, h2⟩
    · exact Nat.lt_of_lt_of_le (hs.bound i o hi id h1) hlen
    · omega
  refine ⟨?_, ?_, ?_⟩
  · intro j x hx
    rcases get j x hx with ⟨_, rfl⟩ | ⟨_, h2⟩
    · exact hnd
    · exact hs.nodup j x h2
  · intro j x hx id hid
    rcases get j x hx with ⟨_, rfl⟩ | ⟨_, h2⟩
    · exact bnd id hid
    · exact Nat.lt_of_lt_of_le (hs.bound j x h2 id hid) hlen
  · intro a b oa ob hab ha hb id hid
    rcases get a oa ha with ⟨rfl, rfl⟩ | ⟨ha1, ha2⟩ <;> rcases get b ob hb with ⟨rfl, rfl⟩ | ⟨hb1, hb2⟩
    · exact absurd rfl hab
    · rcases hnew id hid with h1 | ⟨h1, _⟩
      · exact hs.disj _ b o ob hab hi hb2 id h1
      · intro hm; have := hs.bound b ob hb2 id hm; omega
    · intro hm
      rcases hnew id hm with h1 | ⟨h1, _⟩
      · exact hs.disj _ a o oa (fun e => hab e.symm) hi ha2 id h1 hid
      · have := hs.bound a oa ha2 id hid; omega
    · exact hs.disj a b oa ob hab ha2 hb2 id hid

theorem length_pushTo (lists : List (List V)) (id : Nat) (v : V) : (pushTo lists id v).length = lists.length := by
  unfold pushTo; cases lists[id]? <;> simp

theorem append_none {h : MH K V} {i : Nat} (hi : h.objs[i]? = none) (k : K) (v : V) : append h i k v = h := by
  simp [MLists.append, hi]
theorem append_old {h : MH K V} {i : Nat} {o : List (K × Nat)} {k : K} {id : Nat} (hi : h.objs[i]? = some o)
    (hg : dget o k = some id) (v : V) : append h i k v = { h with lists := pushTo h.lists id v } := by
  simp [MLists.append, hi, hg]
theorem append_new {h : MH K V} {i : Nat} {o : List (K × Nat)} {k : K} (hi : h.objs[i]? = some o)
    (hg : dget o k = none) (v : V) :
    append h i k v = ⟨h.lists ++ [[v]], h.objs.set i (dset o k h.lists.length)⟩ := by
  simp [MLists.append, hi, hg]

theorem Sep.append {h : MH K V} (hs : Sep h) (i : Nat) (k : K) (v : V) : Sep (append h i k v) := by
  cases hi : h.objs[i]? with
  | none => rw [append_none hi]; exact hs
  | some o =>
    cases hg : dget o k with
    | some id =>
      rw [append_old hi hg]
      exact ⟨hs.nodup, fun j x hx id' hid => by
        simp only [length_pushTo]; exact hs.bound j x hx id' hid, hs.disj⟩
    | none =>
      rw [append_new hi hg]
      have hfresh : h.lists.length ∉ lids o := fun x => Nat.lt_irrefl _ (hs.bound i o hi _ x)
      exact hs.setObj _ hi (by simp) (nodup_lids_dset k (hs.nodup i o hi) hfresh)
        (fun id hid => by
          rcases mem_lids_dset hid with h1 | h1
          · exact .inr ⟨h1, by simp⟩
          · exact .inl h1)

theorem Sep.replace {h : MH K V} (hs : Sep h) (i : Nat) (k : K) (v : V) : Sep (replace h i k v) := by
  cases hi : h.objs[i]? with
  | none => simp only [MLists.replace, hi]; exact hs
  | some o =>
    simp only [MLists.replace, hi]
    have hfresh : h.lists.length ∉ lids o := fun x => Nat.lt_irrefl _ (hs.bound i o hi _ x)
    exact hs.setObj _ hi (by simp) (nodup_lids_dset k (hs.nodup i o hi) hfresh)
      (fun id hid => by
        rcases mem_lids_dset hid with h1 | h1
        · exact .inr ⟨h1, by simp⟩
        · exact .inl h1)

theorem Sep.remove {h : MH K V} (hs : Sep h) (i : Nat) (k : K) : Sep (remove h i k) := by
  cases hi : h.objs[i]? with
  | none => simp only [MLists.remove, hi]; exact hs
  | some o =>
    simp only [MLists.remove, hi]
    exact hs.setObj h.lists hi (Nat.le_refl _)
      ((hs.nodup i o hi).sublist ((ddel_sublist o k).map Prod.snd)) (fun id hid => .inl (mem_lids_ddel hid))

theorem Sep.clear {h : MH K V} (hs : Sep h) (i : Nat) : Sep (clear h i) := by
  cases hi : h.objs[i]? with
  | none => simp only [MLists.clear, hi]; exact hs
  | some o => simp only [MLists.clear, hi]; exact hs.setObj h.lists hi (Nat.le_refl _) (by simp [lids]) (by simp [lids])

theorem Sep.update {h : MH K V} (hs : Sep h) (i : Nat) (ps : List (K × V)) : Sep (update h i ps) := by
  unfold MLists.update
  induction ps generalizing h with
  | nil => exact hs
  | cons p t ih => exact ih (hs.append i p.1 p.2)

theorem Sep.updateFrom {h : MH K V} (hs : Sep h) (i j : Nat) : Sep (updateFrom h i j) := by
  unfold MLists.updateFrom; split
  · exact hs
  · exact hs.update i _

theorem Sep.addEmpty {h : MH K V} (hs : Sep h) : Sep ({ h with objs := h.objs ++ [[]] } : MH K V) := by
  have get : ∀ (j : Nat) (x : List (K × Nat)), (h.objs ++ [[]])[j]? = some x → h.objs[j]? = some x ∨ x = [] := by
    intro j x hx
    rw [List.getElem?_append] at hx
    split at hx
    · exact .inl hx
    · cases hj : j - h.objs.length with
      | zero => simp [hj] at hx; exact .inr hx
      | succ n => simp [hj] at hx
  refine ⟨?_, ?_, ?_⟩
  · intro j x hx
    rcases get j x hx with h1 | rfl
    · exact hs.nodup j x h1
    · simp [lids]
  · intro j x hx id hid
    rcases get j x hx with h1 | rfl
    · exact hs.bound j x h1 id hid
    · simp [lids] at hid
  · intro a b oa ob hab ha hb id hid
    rcases get a oa ha with h1 | rfl
    · rcases get b ob hb with h2 | rfl
      · exact hs.disj a b oa ob hab h1 h2 id hid
      · simp [lids]
    · simp [lids] at hid

theorem Sep.new {h : MH K V} (hs : Sep h) (ps : List (K × V)) : Sep (new h ps) := by
  unfold MLists.new; exact hs.addEmpty.update _ ps

theorem Sep.copy {h : MH K V} (hs : Sep h) (j : Nat) : Sep (copy h j) := hs.new _

/-! ### a call on one modict does not change what another one holds -/

theorem view_append_other {h : MH K V} (hs : Sep h) {i j : Nat} (hij : j ≠ i) (k k' : K) (v : V) :
    view (append h i k v) j k' = view h j k' := by
  cases hi : h.objs[i]? with
  | none => rw [append_none hi]
  | some o =>
    cases hg : dget o k with
    | some id =>
      rw [append_old hi hg]
      simp only [view]
      cases hj : h.objs[j]? with
      | none => rfl
      | some oj =>
        simp only []
        cases hgj : dget oj k' with
        | none => rfl
        | some id' =>
          have hne : id' ≠ id := fun e =>
            hs.disj i j o oj (fun x => hij x.symm) hi hj id (mem_lids_of_dget hg) (e ▸ mem_lids_of_dget hgj)
          simp only [pushTo]
          cases h.lists[id]? with
          | none => rfl
          | some l => exact List.getElem?_set_ne (fun e => hne e.symm)
    | none =>
      rw [append_new hi hg]
      simp only [view, List.getElem?_set_ne (fun e => hij e.symm)]
      cases hj : h.objs[j]? with
      | none => rfl
      | some oj =>
        simp only []
        cases hgj : dget oj k' with
        | none => rfl
        | some id' =>
          exact List.getElem?_append_left (hs.bound j oj hj id' (mem_lids_of_dget hgj))

theorem view_update_other {h : MH K V} (hs : Sep h) {i j : Nat} (hij : j ≠ i) (ps : List (K × V)) (k' : K) :
    view (update h i ps) j k' = view h j k' := by
  unfold MLists.update
  induction ps generalizing h with
  | nil => rfl
  | cons p t ih =>
    simp only [List.foldl_cons]
    rw [ih (hs.append i p.1 p.2), view_append_other hs hij]

theorem view_setObj_other {h : MH K V} (hs : Sep h) {i j : Nat} (hij : j ≠ i) (o' : List (K × Nat)) (x : List (List V))
    (k' : K) : view (⟨h.lists ++ x, h.objs.set i o'⟩ : MH K V) j k' = view h j k' := by
  simp only [view, List.getElem?_set_ne (fun e => hij e.symm)]
  cases hj : h.objs[j]? with
  | none => rfl
  | some oj =>
    simp only []
    cases hgj : dget oj k' with
    | none => rfl
    | some id' => exact List.getElem?_append_left (hs.bound j oj hj id' (mem_lids_of_dget hgj))

theorem view_replace_other {h : MH K V} (hs : Sep h) {i j : Nat} (hij : j ≠ i) (k k' : K) (v : V) :
    view (replace h i k v) j k' = view h j k' := by
  cases hi : h.objs[i]? with
  | none => simp only [MLists.replace, hi]
  | some o => simp only [MLists.replace, hi]; exact view_setObj_other hs hij _ _ k'

theorem view_remove_other {h : MH K V} {i j : Nat} (hij : j ≠ i) (k k' : K) :
    view (remove h i k) j k' = view h j k' := by
  cases hi : h.objs[i]? with
  | none => simp only [MLists.remove, hi]
  | some o => simp only [MLists.remove, hi, view, List.getElem?_set_ne (fun e => hij e.symm)]

theorem view_clear_other {h : MH K V} {i j : Nat} (hij : j ≠ i) (k' : K) :
    view (clear h i) j k' = view h j k' := by
  cases hi : h.objs[i]? with
  | none => simp only [MLists.clear, hi]
  | some o => simp only [MLists.clear, hi, view, List.getElem?_set_ne (fun e => hij e.symm)]

theorem length_objs_append (h : MH K V) (i : Nat) (k : K) (v : V) : (append h i k v).objs.length = h.objs.length := by
  unfold MLists.append
  cases h.objs[i]? with
  | none => rfl
  | some o => simp only []; cases dget o k <;> simp

theorem length_objs_update (h : MH K V) (i : Nat) (ps : List (K × V)) : (update h i ps).objs.length = h.objs.length := by
  unfold MLists.update
  induction ps generalizing h with
  | nil => rfl
  | cons p t ih => simp only [List.foldl_cons]; rw [ih, length_objs_append]

theorem view_new_old {h : MH K V} (hs : Sep h) (ps : List (K × V)) {i : Nat} (hi : i < h.objs.length) (k' : K) :
    view (new h ps) i k' = view h i k' := by
  unfold MLists.new
  rw [view_update_other hs.addEmpty (Nat.ne_of_lt hi)]
  simp only [view, List.getElem?_append_left hi]

end Ioflo.Containers.MLists
